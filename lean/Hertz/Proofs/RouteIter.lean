import Hertz.Model.RouteIter
import Hertz.Proofs.RouteFind
/-!
C06: the iterative `find` (`Model/RouteIter.lean`, the loop of `tree.go` as written) computes what the
recursive `find` (`Model/Route.lean`, the subject of the selection theorems) computes, on every
well-formed tree, and its loop terminates within `4 * size root` program points.

Method: simulation.  For every node `n`, by induction on the tree: started at program point `top`
with `cn = n`, the machine either halts with the recursive `visit`'s hit, or — when `visit` misses —
arrives after backtracking at the parent with `search`, `searchIndex`, `paramIndex` and the live
part of `*paramsPointer` restored, at label `Param:` (out of a static node) or `Any:` (out of a
parameter node).
-/
namespace Hertz.Route.Iter
open Hertz.Route

/-! ## running -/

theorem run_next {u : Bool} {path : Bytes} {pc pc' : Pc} {st st' : St} (f : Nat)
    (h : step path u pc st = .next pc' st') : run path u (f + 1) pc st = run path u f pc' st' := by
  simp [run, h]

theorem run_done {u : Bool} {path : Bytes} {pc : Pc} {st : St} {o : Out} (f : Nat)
    (h : step path u pc st = .done o) : run path u (f + 1) pc st = some o := by
  simp [run, h]

def Reach (u : Bool) (path : Bytes) (k : Nat) (pc : Pc) (st : St) (pc' : Pc) (st' : St) : Prop :=
  ∀ f, run path u (k + f) pc st = run path u f pc' st'

def Halts (u : Bool) (path : Bytes) (k : Nat) (pc : Pc) (st : St) (o : Out) : Prop :=
  ∀ f, run path u (k + f) pc st = some o

/-- after backtracking out of a node whose ancestors are `S`: loop left when there is no parent -/
def Exits (u : Bool) (path : Bytes) (k : Nat) (pc : Pc) (st : St) (S : List Node) (pc' : Pc) (st' : St) : Prop :=
  ∀ f, run path u (k + f) pc st = if S = [] then some (post false st' none) else run path u f pc' st'

theorem reach_refl (u : Bool) (path : Bytes) (pc : Pc) (st : St) : Reach u path 0 pc st pc st := by
  intro f; simp

theorem reach_step {u : Bool} {path : Bytes} {pc pc' : Pc} {st st' : St}
    (h : step path u pc st = .next pc' st') : Reach u path 1 pc st pc' st' := by
  intro f; rw [Nat.add_comm]; exact run_next f h

theorem halts_step {u : Bool} {path : Bytes} {pc : Pc} {st : St} {o : Out}
    (h : step path u pc st = .done o) : Halts u path 1 pc st o := by
  intro f; rw [Nat.add_comm]; exact run_done f h

theorem reach_trans {u : Bool} {path : Bytes} {a b : Nat} {p1 p2 p3 : Pc} {s1 s2 s3 : St}
    (h1 : Reach u path a p1 s1 p2 s2) (h2 : Reach u path b p2 s2 p3 s3) : Reach u path (a + b) p1 s1 p3 s3 := by
  intro f; rw [Nat.add_assoc, h1, h2]

theorem reach_halts {u : Bool} {path : Bytes} {a b : Nat} {p1 p2 : Pc} {s1 s2 : St} {o : Out}
    (h1 : Reach u path a p1 s1 p2 s2) (h2 : Halts u path b p2 s2 o) : Halts u path (a + b) p1 s1 o := by
  intro f; rw [Nat.add_assoc, h1, h2]

theorem reach_exits {u : Bool} {path : Bytes} {a b : Nat} {p1 p2 p3 : Pc} {s1 s2 s3 : St} {S : List Node}
    (h1 : Reach u path a p1 s1 p2 s2) (h2 : Exits u path b p2 s2 S p3 s3) : Exits u path (a + b) p1 s1 S p3 s3 := by
  intro f; rw [Nat.add_assoc, h1, h2]

theorem exits_reach {u : Bool} {path : Bytes} {k : Nat} {p1 p2 : Pc} {s1 s2 : St} {S : List Node} (hS : S ≠ [])
    (h : Exits u path k p1 s1 S p2 s2) : Reach u path k p1 s1 p2 s2 := by
  intro f; rw [h, if_neg hS]

/-! ## lists -/

theorem take_set_succ (arr : List Bytes) (d : Nat) (v : Bytes) (h : d < arr.length) :
    (arr.set d v).take (d + 1) = arr.take d ++ [v] := by
  induction arr generalizing d with
  | nil => simp at h
  | cons a r ih =>
    cases d with
    | zero => simp
    | succ d => simp at h; simp [List.set, ih d h]

theorem take_set_same (arr : List Bytes) (d : Nat) (v : Bytes) : (arr.set d v).take d = arr.take d := by
  induction arr generalizing d with
  | nil => simp
  | cons a r ih =>
    cases d with
    | zero => simp
    | succ d => simp [List.set, ih d]

theorem getD_set_same (arr : List Bytes) (d : Nat) (v : Bytes) (h : d < arr.length) : (arr.set d v).getD d [] = v := by
  induction arr generalizing d with
  | nil => simp at h
  | cons a r ih =>
    cases d with
    | zero => simp
    | succ d => simp at h; simpa [List.set] using ih d h

theorem take_succ_take (a b : List Bytes) (d : Nat) (h : a.take (d + 1) = b.take (d + 1)) : a.take d = b.take d := by
  have := congrArg (List.take d) h
  simpa [List.take_take, Nat.min_eq_left (Nat.le_succ d)] using this

theorem getD_of_take (a b : List Bytes) (d : Nat) (h : a.take (d + 1) = b.take (d + 1)) : a.getD d [] = b.getD d [] := by
  have h1 : (a.take (d + 1))[d]? = (b.take (d + 1))[d]? := by rw [h]
  simp at h1
  simp [List.getD_eq_getElem?_getD, h1]

theorem map_unescapeVal_false (ps : List (Bytes × Bytes)) : (ps.map fun kv => (kv.1, unescapeVal false kv.2)) = ps := by
  induction ps with
  | nil => rfl
  | cons a r ih => simp [unescapeVal, ih]

theorem zipKeys_map (U : Bytes → Bytes) : ∀ (ns vs : List Bytes),
    zipKeys ns (vs.map U) = (zipKeys ns vs).map (fun kv => (kv.1, U kv.2))
  | [], [] => by simp [zipKeys]
  | _ :: _, [] => by simp [zipKeys]
  | [], v :: vs => by simp [zipKeys, zipKeys_map U [] vs]
  | n :: ns, v :: vs => by simp [zipKeys, zipKeys_map U ns vs]

theorem unescFirst_none_take : ∀ (n : Nat) (arr : List Bytes),
    (unescFirst n none arr).take n = (arr.take n).map (unescapeVal true)
  | 0, arr => by simp [unescFirst]
  | n + 1, [] => by simp [unescFirst]
  | n + 1, v :: r => by simp [unescFirst, unescFirst_none_take n r]

theorem unescFirst_skip_take : ∀ (d : Nat) (arr : List Bytes) (x : Bytes), d < arr.length →
    (unescFirst (d + 1) (some d) (arr.set d x)).take (d + 1) = (arr.take d).map (unescapeVal true) ++ [x]
  | _, [], _, h => by simp at h
  | 0, v :: r, x, _ => by simp [unescFirst]
  | d + 1, v :: r, x, h => by
    simp at h
    simp [unescFirst, List.set, unescFirst_skip_take d r x h]

theorem visitChild_eq (cs : List Node) (c : UInt8) (s : Bytes) (ps : List Bytes) (cap : Nat) :
    visitChild cs c s ps cap = match findChild cs c with | none => .miss | some ch => visit ch s ps cap := by
  induction cs with
  | nil => simp [visitChild, findChild]
  | cons x r ih =>
    simp only [visitChild, findChild]
    by_cases h : x.label = c
    · simp [h]
    · simp [h, ih]

theorem seg_split (s : Bytes) : segValue s ++ segRest s = s := by
  simp [segValue, segRest, List.takeWhile_append_dropWhile]

theorem drop_seg (path : Bytes) (si : Nat) (s : Bytes) (h : path.drop si = s) :
    path.drop (si + (segValue s).length) = segRest s := by
  have e : s = segValue s ++ segRest s := (seg_split s).symm
  rw [← List.drop_drop, h]
  conv => lhs; arg 2; rw [e]
  simp

theorem drop_len_le (path : Bytes) (si : Nat) (s : Bytes) (h : path.drop si = s) (hle : si ≤ path.length) :
    si + s.length = path.length := by
  have := congrArg List.length h
  simp at this
  omega

/-! ## the three phases behind the prefix test -/

/-- `Any:` with a catch-all child: the recursive hit is what the machine returns; a miss means there is no catch-all -/
theorem any_sim (u : Bool) (path : Bytes) (cap : Nat) (n : Node) (S : List Node) (s : Bytes) (si : Nat) (arr : List Bytes) (d : Nat)
    (t : Bool) (hwf : WFO n.anyChild .akind) (hp : PnOKO n.anyChild d cap) (hlen : arr.length = cap) :
    (∀ f, visitAny n.anyChild s (arr.take d) cap = .hit f →
      ∃ t' arr' plen', Halts u path 1 .any ⟨n :: S, s, si, arr, d, d, t⟩
        (.value (some f.handlers) f.fullPath (f.params.map fun kv => (kv.1, unescapeVal u kv.2)) t' arr' plen')) ∧
    (visitAny n.anyChild s (arr.take d) cap = .miss → n.anyChild = none) := by
  cases hac : n.anyChild with
  | none => simp [visitAny]
  | some a =>
    obtain ⟨kind, label, pfx, cs, ppath, pnames, hs, pc', ac'⟩ := a
    rw [hac] at hwf hp
    simp only [WFO, WF] at hwf
    obtain ⟨hk, _, ⟨hpf, hcs, hpc, hac', hhs⟩, _⟩ := hwf
    simp only [PnOKO, PnOK] at hp
    obtain ⟨hcap, hpn, _⟩ := hp
    subst hk
    simp only [depthAt, reduceCtorEq, if_false] at hcap hpn
    have hd : d < arr.length := by omega
    have htl : (arr.take d).length = d := by simp; omega
    cases hs with
    | none => simp at hhs
    | some h =>
      have hpn' : pnames.length = d + 1 := hpn rfl
      have hidx : pnames.length - 1 = d := by omega
      have hc1 : ¬ (d + 1 > cap) := by omega
      have hc2 : (decide (pnames.length = 0) || decide (pnames.length - 1 ≥ d + 1)) = false := by
        have h1 : ¬ pnames.length = 0 := by omega
        have h2 : ¬ (pnames.length - 1 ≥ d + 1) := by omega
        simp only [h1, h2, decide_false, Bool.or_self]
      have hl2 : (arr.take d ++ [s]).length = d + 1 := by rw [List.length_append, htl]; rfl
      have hset : ((arr.take d ++ [[]]).set d s) = arr.take d ++ [s] := by
        have := set_append_last (arr.take d) [] s
        rwa [htl] at this
      have hv : visitAny (some (Node.mk .akind label pfx cs ppath pnames (some h) pc' ac')) s (arr.take d) cap
          = .hit ⟨h, ppath, zipKeys pnames (arr.take d ++ [s])⟩ := by
        simp only [visitAny, htl, if_neg hc1, hc2, Bool.false_eq_true, if_false, finish]
        rw [hidx, hset, hl2]
        have hnn : ¬ (pnames.length > d + 1) := by omega
        rw [if_neg hnn]
      rw [hv]
      refine ⟨?_, by intro hm; cases hm⟩
      intro f hf
      injection hf with hf
      subst hf
      cases u with
      | false =>
        refine ⟨t, arr.set d s, d + 1, ?_⟩
        apply halts_step
        rw [map_unescapeVal_false]
        simp only [step, stepAny, hac, Node.pnames, Node.handlers, hlen, if_neg hc1, hc2, Bool.false_eq_true, if_false,
          post, Node.ppath]
        have hne : pnames ≠ [] := by intro h0; rw [h0] at hpn'; simp at hpn'
        simp [hidx, hpn', hne, unescapeVal, take_set_succ arr d s hd]
      | true =>
        refine ⟨t, unescFirst (d + 1) (some d) (arr.set d (unescapeVal true s)), d + 1, ?_⟩
        apply halts_step
        have hsk : skipIdx (Node.mk .akind label pfx cs ppath pnames (some h) pc' ac') = some d := by
          have hge : pnames.length ≥ 1 := by omega
          show (if Kind.akind = Kind.akind ∧ pnames.length ≥ 1 then some (pnames.length - 1) else none) = some d
          rw [if_pos ⟨rfl, hge⟩, hidx]
        simp only [step, stepAny, hac, Node.pnames, Node.handlers, hlen, if_neg hc1, hc2, Bool.false_eq_true, if_false,
          post, Node.ppath, hsk]
        have hnn : ¬ (pnames.length > d + 1) := by omega
        have hc3 : (decide (pnames.length = 0) || decide (d ≥ d + 1)) = false := by
          have h1 : ¬ pnames.length = 0 := by omega
          have h2 : ¬ (d ≥ d + 1) := by omega
          simp only [h1, h2, decide_false, Bool.or_self]
        simp only [hidx, hc3, Bool.false_eq_true, if_false, if_neg hnn, Option.isSome_some, Bool.and_self, if_true,
          unescFirst_skip_take d arr (unescapeVal true s) hd]
        rw [← zipKeys_map]
        simp only [List.map_append, List.map_cons, List.map_nil]
        have hne : pnames ≠ [] := by intro h0; rw [h0] at hpn'; simp at hpn'
        simp [hne]

/-! ## leaving a node -/

theorem back_static (u : Bool) (path : Bytes) (n : Node) (S : List Node) (s : Bytes) (si : Nat) (arr : List Bytes) (d : Nat) (t : Bool)
    (hk : n.kind = .skind) (hac : n.anyChild = none) (h1 : n.pfx.length ≤ si) (h2 : si - n.pfx.length ≤ path.length) :
    Exits u path 1 .any ⟨n :: S, s, si, arr, d, d, t⟩ S .param
      ⟨S, path.drop (si - n.pfx.length), si - n.pfx.length, arr, d, d, t⟩ := by
  intro f
  rw [Nat.add_comm]
  cases S with
  | nil => simp [run, step, stepAny, hac, backtrack, hk, afterBack, nextKind, Nat.not_lt.mpr h1, Nat.not_lt.mpr h2]
  | cons p S' => simp [run, step, stepAny, hac, backtrack, hk, afterBack, nextKind, Nat.not_lt.mpr h1, Nat.not_lt.mpr h2]

theorem back_param (u : Bool) (path : Bytes) (n : Node) (S : List Node) (s : Bytes) (si : Nat) (arr : List Bytes) (j : Nat) (t : Bool)
    (hk : n.kind = .pkind) (hac : n.anyChild = none) (h1 : (arr.getD j []).length ≤ si)
    (h2 : si - (arr.getD j []).length ≤ path.length) :
    Exits u path 1 .any ⟨n :: S, s, si, arr, j + 1, j + 1, t⟩ S .any
      ⟨S, path.drop (si - (arr.getD j []).length), si - (arr.getD j []).length, arr, j, j, t⟩ := by
  intro f
  rw [Nat.add_comm]
  have e0 : ¬ (j + 1 ≤ j) := by omega
  simp only [List.getD_eq_getElem?_getD] at h1 h2 ⊢
  cases S with
  | nil => simp [run, step, stepAny, hac, backtrack, hk, afterBack, nextKind, Nat.not_lt.mpr h1, Nat.not_lt.mpr h2, e0]
  | cons p S' => simp [run, step, stepAny, hac, backtrack, hk, afterBack, nextKind, Nat.not_lt.mpr h1, Nat.not_lt.mpr h2, e0]

theorem top_mismatch (u : Bool) (path : Bytes) (n : Node) (S : List Node) (s : Bytes) (si : Nat) (arr : List Bytes) (d : Nat) (t : Bool)
    (hk : n.kind = .skind) (hpre : ¬ n.pfx.isPrefixOf s = true) :
    ∃ t', Exits u path 1 .top ⟨n :: S, s, si, arr, d, d, t⟩ S .param ⟨S, s, si, arr, d, d, t'⟩ := by
  refine ⟨t || (n.pfx.length == s.length + 1 && n.pfx.getD s.length 0 == 47 && n.pfx.take s.length == s
    && (n.handlers.isSome || n.anyChild.isSome)), ?_⟩
  intro f
  rw [Nat.add_comm]
  cases S with
  | nil => simp only [run, step, stepTop, hk, if_true, hpre, Bool.false_eq_true, if_false, backtrack, afterBack, nextKind]; simp
  | cons p S' =>
    simp only [run, step, stepTop, hk, if_true, hpre, Bool.false_eq_true, if_false, backtrack, afterBack, nextKind]
    simp

theorem size_eq (n : Node) : size n = 1 + sizeL n.children + sizeO n.paramChild + sizeO n.anyChild := by
  cases n; simp [size, Node.children, Node.paramChild, Node.anyChild]

/-! ## the simulation statements -/

def HitC (u : Bool) (path : Bytes) (k : Nat) (pc : Pc) (st : St) (f : Found) : Prop :=
  ∃ t' arr' plen', Halts u path k pc st
    (.value (some f.handlers) f.fullPath (f.params.map fun kv => (kv.1, unescapeVal u kv.2)) t' arr' plen')

def SimStatic (u : Bool) (path : Bytes) (cap : Nat) (n : Node) (j B : Nat) : Prop :=
  ∀ (S : List Node) (s : Bytes) (si : Nat) (arr : List Bytes) (t : Bool),
    arr.length = cap → path.drop si = s → si ≤ path.length →
    (∀ f, visit n s (arr.take j) cap = .hit f → ∃ k, k ≤ B ∧ HitC u path k .top ⟨n :: S, s, si, arr, j, j, t⟩ f) ∧
    (visit n s (arr.take j) cap = .miss → ∃ k, k ≤ B ∧ ∃ arr' t', arr'.length = cap ∧ arr'.take j = arr.take j ∧
        Exits u path k .top ⟨n :: S, s, si, arr, j, j, t⟩ S .param ⟨S, s, si, arr', j, j, t'⟩)

def SimParam (u : Bool) (path : Bytes) (cap : Nat) (n : Node) (j B : Nat) : Prop :=
  ∀ (S : List Node) (s : Bytes) (si : Nat) (arr : List Bytes) (t : Bool),
    arr.length = cap → path.drop si = s → si ≤ path.length → (arr.getD j []).length ≤ si →
    (∀ f, visit n s (arr.take (j + 1)) cap = .hit f →
        ∃ k, k ≤ B ∧ HitC u path k .top ⟨n :: S, s, si, arr, j + 1, j + 1, t⟩ f) ∧
    (visit n s (arr.take (j + 1)) cap = .miss → ∃ k, k ≤ B ∧ ∃ arr' t', arr'.length = cap ∧
        arr'.take (j + 1) = arr.take (j + 1) ∧
        Exits u path k .top ⟨n :: S, s, si, arr, j + 1, j + 1, t⟩ S .any
          ⟨S, path.drop (si - (arr.getD j []).length), si - (arr.getD j []).length, arr', j, j, t'⟩)

/-- result of the `Param:` and `Any:` blocks in the recursive formulation -/
def paRes (n : Node) (s : Bytes) (ps : List Bytes) (cap : Nat) : Res :=
  (match s with
    | [] => Res.miss
    | _ :: _ => visitParam n.paramChild s ps cap).orElse fun _ => visitAny n.anyChild s ps cap

theorem param_sim (u : Bool) (path : Bytes) (cap : Nat) (n : Node) (S : List Node) (s : Bytes) (si : Nat) (arr : List Bytes) (d : Nat)
    (t : Bool) (hlen : arr.length = cap) (hdrop : path.drop si = s) (hsi : si ≤ path.length) (hd : d ≤ cap)
    (hwfA : WFO n.anyChild .akind) (hpA : PnOKO n.anyChild d cap)
    (hP : ∀ pn, n.paramChild = some pn → d + 1 ≤ cap ∧ SimParam u path cap pn d (4 * size pn)) :
    (∀ f, paRes n s (arr.take d) cap = .hit f →
        ∃ k, k ≤ 4 * sizeO n.paramChild + 2 ∧ HitC u path k .param ⟨n :: S, s, si, arr, d, d, t⟩ f) ∧
    (paRes n s (arr.take d) cap = .miss → n.anyChild = none ∧ ∃ k, k ≤ 4 * sizeO n.paramChild + 1 ∧ ∃ arr' t',
        arr'.length = cap ∧ arr'.take d = arr.take d ∧
        Reach u path k .param ⟨n :: S, s, si, arr, d, d, t⟩ .any ⟨n :: S, s, si, arr', d, d, t'⟩) := by
  have htl : (arr.take d).length = d := by simp; omega
  -- the case in which the `Param:` block is skipped
  have skip : (s = [] ∨ n.paramChild = none) →
      paRes n s (arr.take d) cap = visitAny n.anyChild s (arr.take d) cap ∧
      Reach u path 1 .param ⟨n :: S, s, si, arr, d, d, t⟩ .any ⟨n :: S, s, si, arr, d, d, t⟩ := by
    intro h
    rcases h with h | h
    · subst h
      refine ⟨by simp [paRes, Res.orElse], reach_step ?_⟩
      cases n.paramChild <;> simp [step, stepParam]
    · refine ⟨?_, reach_step ?_⟩
      · cases s <;> simp [paRes, h, visitParam, Res.orElse]
      · cases s <;> simp [step, stepParam, h]
  by_cases hskip : s = [] ∨ n.paramChild = none
  · obtain ⟨hr, hreach⟩ := skip hskip
    rw [hr]
    obtain ⟨ha1, ha2⟩ := any_sim u path cap n S s si arr d t hwfA hpA hlen
    refine ⟨?_, ?_⟩
    · intro f hf
      obtain ⟨t', arr', plen', hh⟩ := ha1 f hf
      exact ⟨1 + 1, by omega, t', arr', plen', reach_halts hreach hh⟩
    · intro hm
      exact ⟨ha2 hm, 1, by omega, arr, t, hlen, rfl, hreach⟩
  · have hs : s ≠ [] := fun h => hskip (Or.inl h)
    cases hpc : n.paramChild with
    | none => exact absurd (Or.inr hpc) hskip
    | some pn =>
      obtain ⟨hcap, hsim⟩ := hP pn hpc
      obtain ⟨c, r', rfl⟩ := List.exists_cons_of_ne_nil hs
      have hdl : d < arr.length := by omega
      -- one step into the parameter node
      have hstep : Reach u path 1 .param ⟨n :: S, c :: r', si, arr, d, d, t⟩ .top
          ⟨pn :: n :: S, segRest (c :: r'), si + (segValue (c :: r')).length, arr.set d (segValue (c :: r')), d + 1, d + 1,
            t || ((segRest (c :: r')).isEmpty && tsrChild pn)⟩ := by
        apply reach_step
        simp only [step, stepParam, hpc, hlen]
        rw [if_neg (by omega)]
      have hlen2 : (arr.set d (segValue (c :: r'))).length = cap := by simp [hlen]
      have hsum := drop_len_le path si (c :: r') hdrop hsi
      have hvl : (segValue (c :: r')).length ≤ (c :: r').length := by
        have := congrArg List.length (seg_split (c :: r'))
        simp only [List.length_append] at this
        omega
      have hgd : (arr.set d (segValue (c :: r'))).getD d [] = segValue (c :: r') := getD_set_same arr d _ hdl
      obtain ⟨hh, hm⟩ := hsim (n :: S) (segRest (c :: r')) (si + (segValue (c :: r')).length)
        (arr.set d (segValue (c :: r'))) (t || ((segRest (c :: r')).isEmpty && tsrChild pn)) hlen2
        (drop_seg path si _ hdrop) (by omega) (by rw [hgd]; omega)
      rw [take_set_succ arr d _ hdl] at hh hm
      have hvp : visitParam (some pn) (c :: r') (arr.take d) cap
          = visit pn (segRest (c :: r')) (arr.take d ++ [segValue (c :: r')]) cap := by
        simp only [visitParam, htl]
        rw [if_neg (by omega)]
      have hpa : paRes n (c :: r') (arr.take d) cap
          = (visit pn (segRest (c :: r')) (arr.take d ++ [segValue (c :: r')]) cap).orElse
              fun _ => visitAny n.anyChild (c :: r') (arr.take d) cap := by
        simp only [paRes, hpc, hvp]
      rw [hpa]
      simp only [sizeO]
      -- the state in which the machine is back at `Any:` of `n`
      have hback : visit pn (segRest (c :: r')) (arr.take d ++ [segValue (c :: r')]) cap = .miss →
          ∃ k, k ≤ 4 * size pn ∧ ∃ arr' t', arr'.length = cap ∧ arr'.take d = arr.take d ∧
            Reach u path (1 + k) .param ⟨n :: S, c :: r', si, arr, d, d, t⟩ .any ⟨n :: S, c :: r', si, arr', d, d, t'⟩ := by
        intro hx
        obtain ⟨k, hk, arr', t', hl', htk, hex⟩ := hm hx
        refine ⟨k, hk, arr', t', hl', ?_, ?_⟩
        · have := congrArg (List.take d) htk
          rw [List.take_take, Nat.min_eq_left (Nat.le_succ d), List.take_left' htl] at this
          exact this
        · have := reach_trans hstep (exits_reach (by simp) hex)
          rw [hgd] at this
          have e1 : si + (segValue (c :: r')).length - (segValue (c :: r')).length = si := by omega
          rw [e1, hdrop] at this
          exact this
      cases hx : visit pn (segRest (c :: r')) (arr.take d ++ [segValue (c :: r')]) cap with
      | hit g =>
        refine ⟨?_, by simp [Res.orElse]⟩
        intro f hf
        simp only [Res.orElse] at hf
        injection hf with hf
        subst hf
        obtain ⟨k, hk, t', arr', plen', hhalt⟩ := hh g hx
        exact ⟨1 + k, by omega, t', arr', plen', reach_halts hstep hhalt⟩
      | miss =>
        obtain ⟨k, hk, arr', t', hl', htk, hreach⟩ := hback hx
        obtain ⟨ha1, ha2⟩ := any_sim u path cap n S (c :: r') si arr' d t' hwfA hpA hl'
        rw [htk] at ha1 ha2
        simp only [Res.orElse]
        refine ⟨?_, ?_⟩
        · intro f hf
          obtain ⟨t'', arr'', plen'', hhalt⟩ := ha1 f hf
          exact ⟨1 + k + 1, by omega, t'', arr'', plen'', reach_halts hreach hhalt⟩
        · intro hmm
          exact ⟨ha2 hmm, 1 + k, by omega, arr', t', hl', htk, hreach⟩
      | stop => simp [Res.orElse]
      | panic x => simp [Res.orElse]

theorem bodyRes_nil_some (cs : List Node) (ppath : Bytes) (pnames : List Bytes) (h : Nat) (pc ac : Option Node)
    (ps : List Bytes) (cap : Nat) : bodyRes cs ppath pnames (some h) pc ac [] ps cap = finish h ppath pnames ps := rfl

theorem bodyRes_nil_none (n : Node) (ps : List Bytes) (cap : Nat) (h : n.handlers = none) :
    bodyRes n.children n.ppath n.pnames n.handlers n.paramChild n.anyChild [] ps cap = paRes n [] ps cap := by
  rw [h]; simp [bodyRes, paRes, Res.orElse]

theorem bodyRes_cons (n : Node) (c : UInt8) (r : Bytes) (ps : List Bytes) (cap : Nat) :
    bodyRes n.children n.ppath n.pnames n.handlers n.paramChild n.anyChild (c :: r) ps cap =
      (match findChild n.children c with
        | none => Res.miss
        | some ch => visit ch (c :: r) ps cap).orElse fun _ => paRes n (c :: r) ps cap := by
  simp only [bodyRes, paRes, visitChild_eq]

theorem body_sim (u : Bool) (path : Bytes) (cap : Nat) (n : Node) (S : List Node) (s : Bytes) (si : Nat) (arr : List Bytes) (d : Nat)
    (t : Bool) (hlen : arr.length = cap) (hdrop : path.drop si = s) (hsi : si ≤ path.length) (hd : d ≤ cap)
    (hk : n.kind ≠ .akind)
    (hwfA : WFO n.anyChild .akind) (hpA : PnOKO n.anyChild d cap)
    (hP : ∀ pn, n.paramChild = some pn → d + 1 ≤ cap ∧ SimParam u path cap pn d (4 * size pn))
    (hL : ∀ c ch, findChild n.children c = some ch → SimStatic u path cap ch d (4 * size ch) ∧ size ch ≤ sizeL n.children) :
    (∀ f, bodyRes n.children n.ppath n.pnames n.handlers n.paramChild n.anyChild s (arr.take d) cap = .hit f →
        ∃ k, k ≤ 4 * size n - 1 ∧ HitC u path k .body ⟨n :: S, s, si, arr, d, d, t⟩ f) ∧
    (bodyRes n.children n.ppath n.pnames n.handlers n.paramChild n.anyChild s (arr.take d) cap = .miss →
        n.anyChild = none ∧ ∃ k, k ≤ 4 * size n - 2 ∧ ∃ arr' t', arr'.length = cap ∧ arr'.take d = arr.take d ∧
        Reach u path k .body ⟨n :: S, s, si, arr, d, d, t⟩ .any ⟨n :: S, s, si, arr', d, d, t'⟩) := by
  have htl : (arr.take d).length = d := by simp; omega
  have hsz := size_eq n
  -- continuing at `Param:` with a possibly different dead part of the params array
  have viaParam : ∀ (k0 : Nat) (arr1 : List Bytes) (t1 : Bool), arr1.length = cap → arr1.take d = arr.take d →
      k0 ≤ 1 + 4 * sizeL n.children →
      Reach u path k0 .body ⟨n :: S, s, si, arr, d, d, t⟩ .param ⟨n :: S, s, si, arr1, d, d, t1⟩ →
      (∀ f, paRes n s (arr.take d) cap = .hit f →
        ∃ k, k ≤ 4 * size n - 1 ∧ HitC u path k .body ⟨n :: S, s, si, arr, d, d, t⟩ f) ∧
      (paRes n s (arr.take d) cap = .miss →
        n.anyChild = none ∧ ∃ k, k ≤ 4 * size n - 2 ∧ ∃ arr' t', arr'.length = cap ∧ arr'.take d = arr.take d ∧
        Reach u path k .body ⟨n :: S, s, si, arr, d, d, t⟩ .any ⟨n :: S, s, si, arr', d, d, t'⟩) := by
    intro k0 arr1 t1 hl1 ht1 hk0 hreach
    obtain ⟨hp1, hp2⟩ := param_sim u path cap n S s si arr1 d t1 hl1 hdrop hsi hd hwfA hpA hP
    rw [ht1] at hp1 hp2
    refine ⟨?_, ?_⟩
    · intro f hf
      obtain ⟨k, hk, t', arr', plen', hh⟩ := hp1 f hf
      exact ⟨k0 + k, by omega, t', arr', plen', reach_halts hreach hh⟩
    · intro hm
      obtain ⟨hac, k, hk, arr', t', hl', ht', hr⟩ := hp2 hm
      exact ⟨hac, k0 + k, by omega, arr', t', hl', ht', reach_trans hreach hr⟩
  cases s with
  | nil =>
    cases hh : n.handlers with
    | some h =>
      rw [bodyRes_nil_some]
      simp only [finish, htl]
      by_cases hpn : n.pnames.length > d
      · simp [hpn]
      · simp only [hpn, if_false]
        refine ⟨?_, by intro hm; cases hm⟩
        intro f hf
        injection hf with hf
        subst hf
        cases u with
        | false =>
          refine ⟨1, by omega, t, arr, d, ?_⟩
          apply halts_step
          rw [map_unescapeVal_false]
          simp [step, stepBody, hh, post, hpn]
        | true =>
          have hsk : skipIdx n = none := by simp [skipIdx, hk]
          refine ⟨1, by omega, t, unescFirst d none arr, d, ?_⟩
          apply halts_step
          simp only [step, stepBody, hh, post, hsk, if_neg hpn, Option.isSome_some, Bool.and_self, if_true,
            unescFirst_none_take]
          rw [← zipKeys_map]
    | none =>
      have := bodyRes_nil_none n (arr.take d) cap hh
      rw [hh] at this
      rw [this]
      apply viaParam 1 arr (t || tsrChild n) hlen rfl (by omega)
      apply reach_step
      simp [step, stepBody, hh]
  | cons c r =>
    rw [bodyRes_cons]
    cases hfc : findChild n.children c with
    | none =>
      simp only [Res.orElse]
      apply viaParam 1 arr (t || (r.isEmpty && c == 47 && n.handlers.isSome)) hlen rfl (by omega)
      apply reach_step
      simp [step, stepBody, hfc]
    | some ch =>
      obtain ⟨hsim, hszc⟩ := hL c ch hfc
      have hstep : Reach u path 1 .body ⟨n :: S, c :: r, si, arr, d, d, t⟩ .top
          ⟨ch :: n :: S, c :: r, si, arr, d, d, t || (r.isEmpty && c == 47 && n.handlers.isSome)⟩ := by
        apply reach_step
        simp [step, stepBody, hfc]
      obtain ⟨hh, hm⟩ := hsim (n :: S) (c :: r) si arr (t || (r.isEmpty && c == 47 && n.handlers.isSome)) hlen hdrop hsi
      cases hx : visit ch (c :: r) (arr.take d) cap with
      | hit g =>
        simp only [hx, Res.orElse]
        refine ⟨?_, by intro hmm; cases hmm⟩
        intro f hf
        injection hf with hf
        subst hf
        obtain ⟨k, hk, t', arr', plen', hhalt⟩ := hh g hx
        exact ⟨1 + k, by omega, t', arr', plen', reach_halts hstep hhalt⟩
      | miss =>
        simp only [hx, Res.orElse]
        obtain ⟨k, hk, arr1, t1, hl1, ht1, hex⟩ := hm hx
        exact viaParam (1 + k) arr1 t1 hl1 ht1 (by omega) (reach_trans hstep (exits_reach (by simp) hex))
      | stop => simp [hx, Res.orElse]
      | panic x => simp [hx, Res.orElse]

/-! ## the induction over the tree -/

theorem isPrefix_len (p s : Bytes) (h : p.isPrefixOf s = true) : p.length ≤ s.length :=
  (List.isPrefixOf_iff_prefix.mp h).length_le

mutual
theorem visit_sim (u : Bool) (path : Bytes) : (n : Node) → (pos : Kind) → (j cap : Nat) → WF n pos → PnOK n j cap →
    (pos = .skind → SimStatic u path cap n j (4 * size n)) ∧ (pos = .pkind → j + 1 ≤ cap ∧ SimParam u path cap n j (4 * size n))
  | .mk kind label pfx cs ppath pnames hs pc ac, pos, j, cap, hwf, hp => by
    simp only [WF] at hwf
    obtain ⟨hk, hl, hpos, hcs, hnd, hpc, hac⟩ := hwf
    simp only [PnOK] at hp
    obtain ⟨hcap, hlen', hpL, hpP, hpA⟩ := hp
    subst hk
    have hL := simL u path cs (depthAt kind j) cap hcs hpL
    have hP := simO u path pc (depthAt kind j) cap hpc hpP
    have hbody := fun (hkk : kind ≠ .akind) (S : List Node) (s : Bytes) (si : Nat) (arr : List Bytes) (t : Bool)
        (h1 : arr.length = cap) (h2 : path.drop si = s) (h3 : si ≤ path.length) =>
      body_sim u path cap (.mk kind label pfx cs ppath pnames hs pc ac) S s si arr (depthAt kind j) t h1 h2 h3 hcap
        (by simpa [Node.kind] using hkk) hac hpA hP hL
    simp only [Node.children, Node.ppath, Node.pnames, Node.handlers, Node.paramChild, Node.anyChild] at hbody
    constructor
    · intro hpos'
      subst hpos'
      have hbody := hbody (by decide)
      simp only [depthAt, if_true] at hbody hcap
      intro S s si arr t h1 h2 h3
      rw [visit_mk]
      simp only [if_true]
      by_cases hpre : pfx.isPrefixOf s = true
      · simp only [hpre, if_true]
        have hple := isPrefix_len pfx s hpre
        have hsum := drop_len_le path si s h2 h3
        have hstep : Reach u path 1 .top ⟨.mk .skind label pfx cs ppath pnames hs pc ac :: S, s, si, arr, j, j, t⟩ .body
            ⟨.mk .skind label pfx cs ppath pnames hs pc ac :: S, s.drop pfx.length, si + pfx.length, arr, j, j, t⟩ := by
          apply reach_step
          simp [step, stepTop, Node.kind, Node.pfx, hpre]
        obtain ⟨hb1, hb2⟩ := hbody S (s.drop pfx.length) (si + pfx.length) arr t h1
          (by rw [← List.drop_drop, h2]) (by omega)
        refine ⟨?_, ?_⟩
        · intro f hf
          obtain ⟨k, hk, t', arr', plen', hh⟩ := hb1 f hf
          exact ⟨1 + k, by have := size_eq (.mk .skind label pfx cs ppath pnames hs pc ac); omega, t', arr', plen',
            reach_halts hstep hh⟩
        · intro hm
          obtain ⟨hacn, k, hk, arr', t', hl', ht', hr⟩ := hb2 hm
          have hex := back_static u path (.mk .skind label pfx cs ppath pnames hs pc ac) S (s.drop pfx.length)
            (si + pfx.length) arr' j t' rfl hacn (by simp [Node.pfx]) (by simp [Node.pfx]; omega)
          simp only [Node.pfx, Nat.add_sub_cancel, h2] at hex
          exact ⟨1 + k + 1, by have := size_eq (.mk .skind label pfx cs ppath pnames hs pc ac); omega, arr', t', hl', ht',
            reach_exits (reach_trans hstep hr) hex⟩
      · simp only [hpre, Bool.false_eq_true, if_false]
        refine ⟨(by intro f hf; cases hf), ?_⟩
        intro _
        obtain ⟨t', hex⟩ := top_mismatch u path (.mk .skind label pfx cs ppath pnames hs pc ac) S s si arr j t rfl
          (by simpa [Node.pfx] using hpre)
        exact ⟨1, by have := size_eq (.mk .skind label pfx cs ppath pnames hs pc ac); omega, arr, t', h1, rfl, hex⟩
    · intro hpos'
      subst hpos'
      have hbody := hbody (by decide)
      simp only [depthAt, reduceCtorEq, if_false] at hbody hcap
      refine ⟨hcap, ?_⟩
      intro S s si arr t h1 h2 h3 h4
      rw [visit_mk]
      simp only [reduceCtorEq, if_false]
      have hstep : Reach u path 1 .top ⟨.mk .pkind label pfx cs ppath pnames hs pc ac :: S, s, si, arr, j + 1, j + 1, t⟩ .body
          ⟨.mk .pkind label pfx cs ppath pnames hs pc ac :: S, s, si, arr, j + 1, j + 1, t⟩ := by
        apply reach_step
        simp [step, stepTop, Node.kind]
      obtain ⟨hb1, hb2⟩ := hbody S s si arr t h1 h2 h3
      refine ⟨?_, ?_⟩
      · intro f hf
        obtain ⟨k, hk, t', arr', plen', hh⟩ := hb1 f hf
        exact ⟨1 + k, by have := size_eq (.mk .pkind label pfx cs ppath pnames hs pc ac); omega, t', arr', plen',
          reach_halts hstep hh⟩
      · intro hm
        obtain ⟨hacn, k, hk, arr', t', hl', ht', hr⟩ := hb2 hm
        have hg := getD_of_take arr' arr j ht'
        have hex := back_param u path (.mk .pkind label pfx cs ppath pnames hs pc ac) S s si arr' j t' rfl hacn
          (by rw [hg]; exact h4) (by rw [hg]; omega)
        rw [hg] at hex
        exact ⟨1 + k + 1, by have := size_eq (.mk .pkind label pfx cs ppath pnames hs pc ac); omega, arr', t', hl', ht',
          reach_exits (reach_trans hstep hr) hex⟩
theorem simL (u : Bool) (path : Bytes) : (cs : List Node) → (d cap : Nat) → WFL cs → PnOKL cs d cap →
    ∀ c ch, findChild cs c = some ch → SimStatic u path cap ch d (4 * size ch) ∧ size ch ≤ sizeL cs
  | [], _, _, _, _ => by intro c ch h; simp [findChild] at h
  | x :: r, d, cap, hwf, hp => by
    intro c ch h
    simp only [WFL] at hwf
    simp only [PnOKL] at hp
    simp only [findChild] at h
    by_cases hl : x.label = c
    · rw [if_pos hl] at h
      injection h with h
      subst h
      exact ⟨(visit_sim u path x .skind d cap hwf.1 hp.1).1 rfl, by simp [sizeL]⟩
    · rw [if_neg hl] at h
      obtain ⟨h1, h2⟩ := simL u path r d cap hwf.2 hp.2 c ch h
      exact ⟨h1, by simp only [sizeL]; omega⟩
theorem simO (u : Bool) (path : Bytes) : (pc : Option Node) → (d cap : Nat) → WFO pc .pkind → PnOKO pc d cap →
    ∀ pn, pc = some pn → d + 1 ≤ cap ∧ SimParam u path cap pn d (4 * size pn)
  | none, _, _, _, _ => by intro pn h; cases h
  | some x, d, cap, hwf, hp => by
    intro pn h
    injection h with h
    subst h
    simp only [WFO] at hwf
    simp only [PnOKO] at hp
    exact (visit_sim u path x .pkind d cap hwf hp).2 rfl
end

end Hertz.Route.Iter
