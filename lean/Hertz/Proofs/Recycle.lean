import Hertz.Model.Recycle
import Hertz.Spec.Recycle
/-!
Lemmas for C09: every generated reset function, observed through `obs…`, yields the fresh object.
Proved per type, bottom-up; each proof unfolds the *generated* definitions, so a reset line that
disappears from the Go source makes the corresponding lemma fail.
-/
namespace Hertz.Recycle
open Hertz Hertz.ResetBase Hertz.Gen.Resets

theorem args_reset (o : Oracle) (s : Args) : obsArgs (Args_Reset o s) = obsArgs zero_Args := by
  cases s; rfl

theorem trailer_resetSkip (o : Oracle) (s : Trailer) :
    obsTrailer (Trailer_ResetSkipNormalize o s) = obsTrailer { zero_Trailer with disableNormalizing := s.disableNormalizing } := by
  cases s; rfl

theorem trailer_reset (o : Oracle) (s : Trailer) : obsTrailer (Trailer_Reset o s) = obsTrailer zero_Trailer := by
  cases s; rfl

theorem cookie_reset (o : Oracle) (s : Cookie) : obsCookie (Cookie_Reset o s) = obsCookie zero_Cookie := by
  cases s; rfl

theorem uri_reset (o : Oracle) (s : URI) : obsURI (URI_Reset o s) = obsURI zero_URI := by
  cases s; simp [URI_Reset, obsURI, zero_URI, args_reset]

theorem requestHeader_reset (o : Oracle) (s : RequestHeader) :
    obsRequestHeader (RequestHeader_Reset o s) = obsRequestHeader zero_RequestHeader := by
  cases s; rfl

theorem responseHeader_reset (o : Oracle) (s : ResponseHeader) :
    obsResponseHeader (ResponseHeader_Reset o s) = obsResponseHeader zero_ResponseHeader := by
  cases s; rfl

/-- `Request.Reset` (the release path): everything but the retention limit is as in `new(Request)`. -/
theorem request_reset (o : Oracle) (s : Request) : obsRequest (Request_Reset o s) = obsRequest (freshRequest s) := by
  have hh := requestHeader_reset o s.Header
  have hu := uri_reset o s.uri
  have ha := args_reset o s.postArgs
  by_cases h1 : s.multipartForm = 0 <;> by_cases h2 : s.bodyStream = 0 <;> cases hb : s.body <;>
    cases hc : o.c_Request_ResetBody_0 <;> cases s <;>
    simp_all [Request_Reset, Request_ResetSkipHeader, Request_resetSkipHeaderAndConn, Request_ResetBody,
      Request_RemoveMultipartFormFiles, Request_CloseBodyStream, obsRequest, freshRequest, zero_Request]

/-- `Request.ResetWithoutConn` (the keep-alive path) additionally keeps `isTLS`. -/
theorem request_resetWithoutConn (o : Oracle) (s : Request) :
    obsRequest (Request_ResetWithoutConn o s) = obsRequest { freshRequest s with isTLS := s.isTLS } := by
  have hh := requestHeader_reset o s.Header
  have hu := uri_reset o s.uri
  have ha := args_reset o s.postArgs
  by_cases h1 : s.multipartForm = 0 <;> by_cases h2 : s.bodyStream = 0 <;> cases hb : s.body <;>
    cases hc : o.c_Request_ResetBody_0 <;> cases s <;>
    simp_all [Request_ResetWithoutConn, Request_resetSkipHeaderAndConn, Request_ResetBody,
      Request_RemoveMultipartFormFiles, Request_CloseBodyStream, obsRequest, freshRequest, zero_Request]

/-- `Response.Reset` (release path and per-request reset): everything but the retention limit is as in `new(Response)`. -/
theorem response_reset (o : Oracle) (s : Response) :
    obsResponse (Response_Reset o s) = obsResponse (freshResponse s) := by
  have hh := responseHeader_reset o s.Header
  by_cases h2 : s.bodyStream = 0 <;> cases hb : s.body <;>
    cases hc : o.c_Response_ResetBody_0 <;> cases s <;>
    simp_all [Response_Reset, Response_resetSkipHeader, Response_ResetBody, Response_CloseBodyStream, obsResponse,
      freshResponse, zero_Response]

/-- what `RequestContext.ResetWithoutConn` leaves behind, exactly: a fresh context for the same connection
*except* the two fields no reset line writes. -/
def contextResidue (s : RequestContext) : RequestContext :=
  { freshContext s with hijackHandler := s.hijackHandler, exiled := s.exiled }

theorem context_resetWithoutConn (o : Oracle) (s : RequestContext) :
    obsContext (RequestContext_ResetWithoutConn o s) = obsContext (contextResidue s) := by
  have hq := request_resetWithoutConn o s.Request
  have hp := response_reset o s.Response
  by_cases h1 : s.finished = 0 <;> cases he : s.enableTrace <;> cases s <;>
    simp_all [RequestContext_ResetWithoutConn, obsContext, contextResidue, freshContext, zero_RequestContext, newContextIndex]

theorem context_reset (o : Oracle) (s : RequestContext) :
    obsContext (RequestContext_Reset o s) = obsContext { contextResidue s with conn := 0 } := by
  have hq := request_resetWithoutConn o s.Request
  have hp := response_reset o s.Response
  by_cases h1 : s.finished = 0 <;> cases he : s.enableTrace <;> cases s <;>
    simp_all [RequestContext_Reset, RequestContext_ResetWithoutConn, obsContext, contextResidue, freshContext,
      zero_RequestContext, newContextIndex]

theorem contextResidue_fresh (s : RequestContext) (h1 : s.hijackHandler = 0) (h2 : s.exiled = false) :
    contextResidue s = freshContext s := by
  simp [contextResidue, h1, h2, freshContext, zero_RequestContext]

theorem freshPooled_of_obs (a b : RequestContext) (h : obsContext a = obsContext b) :
    freshPooledContext a = freshPooledContext b := by
  have e1 := congrArg (·.HTMLRender) h
  have e2 := congrArg (·.traceInfo) h
  have e3 := congrArg (·.enableTrace) h
  have e4 := congrArg (·.clientIPFunc) h
  have e5 := congrArg (·.formValueFunc) h
  have e6 := congrArg (·.binder) h
  have e7 := congrArg (·.validator) h
  have e8 := congrArg (·.Request.isTLS) h
  have e9 := congrArg (·.Request.maxKeepBodySize) h
  have e10 := congrArg (·.Response.maxKeepBodySize) h
  simp only [obsContext, obsRequest, obsResponse] at e1 e2 e3 e4 e5 e6 e7 e8 e9 e10
  simp [freshPooledContext, freshContext, freshRequest, freshResponse, e1, e2, e3, e4, e5, e6, e7, e8, e9, e10]

theorem freshPooled_idem (x : RequestContext) : freshPooledContext (freshPooledContext x) = freshPooledContext x := by
  rfl

theorem freshRequest_of_obs (a b : Request) (h : obsRequest a = obsRequest b) : freshRequest a = freshRequest b := by
  have e := congrArg (·.maxKeepBodySize) h
  simp only [obsRequest] at e
  simp [freshRequest, e]

theorem freshResponse_of_obs (a b : Response) (h : obsResponse a = obsResponse b) : freshResponse a = freshResponse b := by
  have e := congrArg (·.maxKeepBodySize) h
  simp only [obsResponse] at e
  simp [freshResponse, e]

/-! ## pools -/

/-- If every released object satisfies `Q`, resetting a `Q`-object gives a `P`-object, and new objects are `P`,
then whatever `Get` hands out is `P` — for every history and every choice `Get` makes. -/
theorem pool_gets {α : Type} (reset : Oracle → α → α) (new : α) (P Q : α → Prop) (hnew : P new)
    (hreset : ∀ o x, Q x → P (reset o x)) :
    ∀ (es : List (PoolEv α)) (items : List α), (∀ x ∈ putsOf es, Q x) → (∀ x ∈ items, P x) →
      ∀ y ∈ poolRun reset new es items, P y := by
  intro es
  induction es with
  | nil => intro items _ _ y hy; simp [poolRun] at hy
  | cons e es ih =>
    intro items hq hitems y hy
    cases e with
    | put o x =>
      simp only [poolRun] at hy
      have hqx : Q x := hq x (by simp [putsOf])
      have hq' : ∀ z ∈ putsOf es, Q z := fun z hz => hq z (by simp [putsOf, hz])
      exact ih (reset o x :: items) hq'
        (by intro z hz; cases hz with | head => exact hreset o x hqx | tail _ h => exact hitems z h) y hy
    | get i =>
      simp only [poolRun] at hy
      have hq' : ∀ z ∈ putsOf es, Q z := fun z hz => hq z (by simpa [putsOf] using hz)
      cases hi : items[i]? with
      | none =>
        rw [hi] at hy
        cases hy with
        | head => exact hnew
        | tail _ h => exact ih items hq' hitems y h
      | some x =>
        rw [hi] at hy
        cases hy with
        | head => exact hitems _ (List.mem_of_getElem? hi)
        | tail _ h => exact ih (items.eraseIdx i) hq' (fun z hz => hitems z (List.mem_of_mem_eraseIdx hz)) y h

end Hertz.Recycle
