import Hertz.Model.HeaderApi
import Hertz.Proofs.HeaderWrite
/-!
Lemmas for the C05 extension X05 (`Model/HeaderApi.lean`): where the field names of a reachable header state come from,
the request line, the `Set-Cookie` line.
-/
namespace Hertz.HA
open Hertz Hertz.Gen.Str Hertz.HW

/-- every key of an `[]argsKV` satisfies `P` -/
def AllKeys (P : Bytes → Prop) (l : List KV) : Prop := ∀ kv ∈ l, P kv.1

theorem allKeys_nil {P : Bytes → Prop} : AllKeys P [] := by intro kv h; cases h

theorem allKeys_setArg {P : Bytes → Prop} {k : Bytes} (hk : P k) (v : Bytes) :
    ∀ {h : List KV}, AllKeys P h → AllKeys P (setArg h k v)
  | [], _ => by intro kv hkv; simp [setArg] at hkv; subst hkv; exact hk
  | (k', v') :: t, hh => by
    intro kv hkv
    unfold setArg at hkv
    split at hkv
    · rcases List.mem_cons.mp hkv with rfl | hm
      · exact hh (k', v') (by simp)
      · exact hh kv (by simp [hm])
    · rcases List.mem_cons.mp hkv with rfl | hm
      · exact hh (k', v') (by simp)
      · exact allKeys_setArg hk v (fun x hx => hh x (by simp [hx])) kv hm

theorem allKeys_appendArg {P : Bytes → Prop} {k : Bytes} (hk : P k) (v : Bytes) {h : List KV} (hh : AllKeys P h) :
    AllKeys P (appendArg h k v) := by
  intro kv hkv
  simp only [appendArg, List.mem_append, List.mem_singleton] at hkv
  rcases hkv with hm | rfl
  · exact hh kv hm
  · exact hk

theorem allKeys_filter {P : Bytes → Prop} (f : KV → Bool) {h : List KV} (hh : AllKeys P h) : AllKeys P (h.filter f) :=
  fun kv hkv => hh kv (List.mem_filter.mp hkv).1

theorem allKeys_delAll {P : Bytes → Prop} (k : Bytes) {h : List KV} (hh : AllKeys P h) : AllKeys P (delAll h k) :=
  allKeys_filter _ hh

theorem normalizeKey_mem (dn : Bool) (k : Bytes) : H1.normalizeKey dn k ∈ [k, H1.normalizeKey false k] := by
  cases dn <;> simp [H1.normalizeKey]

/-! ### request -/

theorem collectCookies_keys {P : Bytes → Prop} {s : ReqSt} (hs : AllKeys P s.h) : AllKeys P s.collectCookies.h := by
  unfold ReqSt.collectCookies
  split
  · exact hs
  · exact allKeys_filter _ hs

theorem resetConnClose_keys {P : Bytes → Prop} {s : ReqSt} (hs : AllKeys P s.h) : AllKeys P s.resetConnClose.h := by
  unfold ReqSt.resetConnClose
  split
  · exact allKeys_delAll _ hs
  · exact hs

theorem setSpecial_keys {P : Bytes → Prop} {s s' : ReqSt} {key v : Bytes} (hk : P key) (hs : AllKeys P s.h)
    (h : s.setSpecial key v = some s') : AllKeys P s'.h := by
  unfold ReqSt.setSpecial at h
  split at h
  · cases h
  · simp only at h
    repeat' split at h
    all_goals cases h
    all_goals first
      | exact hs
      | exact allKeys_delAll _ hs
      | exact allKeys_setArg hk _ (resetConnClose_keys hs)
      | exact collectCookies_keys hs

theorem setCanonical_keys {P : Bytes → Prop} {s : ReqSt} {k : Bytes} (v : Bytes) (hk : P k) (hs : AllKeys P s.h) :
    AllKeys P (s.setCanonical k v).h := by
  unfold ReqSt.setCanonical
  split
  · rename_i s' h; exact setSpecial_keys hk hs h
  · exact allKeys_setArg hk v hs

theorem del_keys {P : Bytes → Prop} {s : ReqSt} (k : Bytes) (hs : AllKeys P s.h) : AllKeys P (s.del k).h := by
  unfold ReqSt.del
  simp only
  apply allKeys_delAll
  repeat' split
  all_goals exact hs

theorem stepReq_keys {P : Bytes → Prop} {s : ReqSt} (c : ReqCall) (hfix : ∀ n ∈ reqFixedNames, P n)
    (hc : ∀ n ∈ reqCallKeys c, P n) (hs : AllKeys P s.h) : AllKeys P (stepReq s c).h := by
  have hTE : P strTransferEncoding := hfix _ (by simp [reqFixedNames])
  cases c with
  | set k v => exact setCanonical_keys v (hc _ (normalizeKey_mem _ k)) hs
  | add k v =>
    simp only [stepReq]
    split
    · rename_i s' h; exact setSpecial_keys (hc _ (by simp [reqCallKeys])) hs h
    · exact allKeys_appendArg (hc _ (normalizeKey_mem _ k)) v hs
  | setCanonical k v => exact setCanonical_keys v (hc _ (by simp [reqCallKeys])) hs
  | del k => exact del_keys _ hs
  | setContentLength n =>
    simp only [stepReq]
    split
    · exact allKeys_delAll _ hs
    · exact allKeys_setArg hTE _ hs
  | setCookie k v => exact collectCookies_keys hs
  | delCookie k => exact collectCookies_keys hs
  | delAllCookies => exact collectCookies_keys hs
  | setArgBytes k v nv => exact allKeys_setArg (hc _ (by simp [reqCallKeys])) _ hs
  | addArgBytes k v nv => exact allKeys_appendArg (hc _ (by simp [reqCallKeys])) _ hs
  | resetConnClose => exact resetConnClose_keys hs
  | _ => exact hs

theorem runReqFrom_keys {P : Bytes → Prop} (hfix : ∀ n ∈ reqFixedNames, P n) :
    ∀ (q : List ReqCall) (s : ReqSt), (∀ c ∈ q, ∀ n ∈ reqCallKeys c, P n) → AllKeys P s.h → AllKeys P (runReqFrom s q).h
  | [], s, _, hs => hs
  | c :: t, s, hq, hs => by
    have := runReqFrom_keys hfix t (stepReq s c) (fun c' hc' => hq c' (by simp [hc'])) (stepReq_keys c hfix (hq c (by simp)) hs)
    simpa [runReqFrom, List.foldl_cons] using this

/-- the names `RequestHeader.AppendBytes` passes to `appendHeaderLine`: fixed ones and the keys of `h` -/
theorem mem_ite_nil_single {α} {c : Prop} [Decidable c] {x y : α} (h : y ∈ (if c then [] else [x])) : y = x := by
  split at h
  · cases h
  · simpa using h

theorem mem_ite_single_nil {α} {c : Prop} [Decidable c] {x y : α} (h : y ∈ (if c then [x] else [])) : y = x := by
  split at h
  · simpa using h
  · cases h

theorem reqFields_names (r : ReqHdr) : ∀ kv ∈ r.fields, kv.1 ∈ reqFixedNames ∨ ∃ kv' ∈ r.h, kv'.1 = kv.1 := by
  intro kv hkv
  simp only [ReqHdr.fields, List.mem_append] at hkv
  rcases hkv with ((((((h | h) | h) | h) | h) | h) | h) | h
  all_goals first
    | exact Or.inr ⟨kv, h, rfl⟩
    | (have := mem_ite_nil_single h; subst this; left; simp [reqFixedNames])
    | (have := mem_ite_single_nil h; subst this; left; simp [reqFixedNames])

theorem kept_names {fs : List KV} {kv : KV} (h : kv ∈ kept fs) : ∃ kv' ∈ fs, kv'.1 = kv.1 := by
  simp only [kept, List.mem_map, List.mem_filter] at h
  obtain ⟨a, ⟨ha, _⟩, rfl⟩ := h
  exact ⟨a, ha, rfl⟩

/-- every field name a strict reader finds after a program of API calls is a fixed special name or a key some call passed
(as given, or normalised) -/
theorem req_fields_only_from_calls (p : List ReqCall) :
    ∀ kv ∈ expectedReqFields p, kv.1 ∈ reqFixedNames ∨ ∃ c ∈ p, kv.1 ∈ reqCallKeys c := by
  intro kv hkv
  obtain ⟨kv', hkv', he⟩ := kept_names hkv
  rw [← he]
  rcases reqFields_names _ kv' hkv' with h | ⟨kv'', hm, he'⟩
  · exact Or.inl h
  · rw [← he']
    have := runReqFrom_keys (P := fun n => n ∈ reqFixedNames ∨ ∃ c ∈ p, n ∈ reqCallKeys c) (fun n hn => Or.inl hn) p {}
      (fun c hc n hn => Or.inr ⟨c, hc, hn⟩) allKeys_nil
    exact this kv'' hm

/-! ### response -/

theorem resp_resetConnClose_keys {P : Bytes → Prop} {s : RespSt} (hs : AllKeys P s.h) : AllKeys P s.resetConnClose.h := by
  unfold RespSt.resetConnClose
  split
  · exact allKeys_delAll _ hs
  · exact hs

theorem resp_setSpecial_keys {P : Bytes → Prop} {s s' : RespSt} {key v : Bytes} (hk : P key) (hs : AllKeys P s.h)
    (h : s.setSpecial key v = some s') : AllKeys P s'.h := by
  unfold RespSt.setSpecial at h
  split at h
  · cases h
  · simp only at h
    repeat' split at h
    all_goals cases h
    all_goals first
      | exact hs
      | exact allKeys_delAll _ hs
      | exact allKeys_setArg hk _ (resp_resetConnClose_keys hs)

theorem resp_setCanonical_keys {P : Bytes → Prop} {s : RespSt} {k : Bytes} (v : Bytes) (hk : P k) (hs : AllKeys P s.h) :
    AllKeys P (s.setCanonical k v).h := by
  unfold RespSt.setCanonical
  split
  · rename_i s' h; exact resp_setSpecial_keys hk hs h
  · exact allKeys_setArg hk v hs

theorem resp_del_keys {P : Bytes → Prop} {s : RespSt} (k : Bytes) (hs : AllKeys P s.h) : AllKeys P (s.del k).h := by
  unfold RespSt.del
  simp only
  apply allKeys_delAll
  repeat' split
  all_goals exact hs

theorem resp_setContentLength_keys {P : Bytes → Prop} {s : RespSt} (n : Int) (hTE : P strTransferEncoding) (hs : AllKeys P s.h) :
    AllKeys P (s.setContentLength n).h := by
  unfold RespSt.setContentLength
  repeat' split
  all_goals first
    | exact hs
    | exact allKeys_delAll _ hs
    | exact allKeys_setArg hTE _ hs

theorem stepResp_keys {P : Bytes → Prop} {s : RespSt} (c : RespCall) (hfix : ∀ n ∈ respFixedNames, P n)
    (hc : ∀ n ∈ respCallKeys c, P n) (hs : AllKeys P s.h) : AllKeys P (stepResp s c).h := by
  have hTE : P strTransferEncoding := hfix _ (by simp [respFixedNames])
  have hLoc : P strLocation := hfix _ (by simp [respFixedNames])
  cases c with
  | set k v => exact resp_setCanonical_keys v (hc _ (normalizeKey_mem _ k)) hs
  | add k v =>
    simp only [stepResp]
    split
    · rename_i s' h; exact resp_setSpecial_keys (hc _ (by simp [respCallKeys])) hs h
    · exact allKeys_appendArg (hc _ (normalizeKey_mem _ k)) v hs
  | setCanonical k v => exact resp_setCanonical_keys v (hc _ (by simp [respCallKeys])) hs
  | del k => exact resp_del_keys _ hs
  | setContentLength n => exact resp_setContentLength_keys n hTE hs
  | setArgBytes k v nv => exact allKeys_setArg (hc _ (by simp [respCallKeys])) _ hs
  | addArgBytes k v nv => exact allKeys_appendArg (hc _ (by simp [respCallKeys])) _ hs
  | resetConnClose => exact resp_resetConnClose_keys hs
  | ctxHeader k v =>
    simp only [stepResp]
    split
    · exact resp_del_keys _ hs
    · exact resp_setCanonical_keys v (hc _ (normalizeKey_mem _ k)) hs
  | ctxRedirect code uri => exact resp_setCanonical_keys uri hLoc hs
  | _ => exact hs

theorem runRespFrom_keys {P : Bytes → Prop} (hfix : ∀ n ∈ respFixedNames, P n) :
    ∀ (q : List RespCall) (s : RespSt), (∀ c ∈ q, ∀ n ∈ respCallKeys c, P n) → AllKeys P s.h → AllKeys P (runRespFrom s q).h
  | [], s, _, hs => hs
  | c :: t, s, hq, hs => by
    have := runRespFrom_keys hfix t (stepResp s c) (fun c' hc' => hq c' (by simp [hc'])) (stepResp_keys c hfix (hq c (by simp)) hs)
    simpa [runRespFrom, List.foldl_cons] using this

theorem respFields_names (r : RespHdr) : ∀ kv ∈ r.fields, kv.1 ∈ respFixedNames ∨ ∃ kv' ∈ r.h, kv'.1 = kv.1 := by
  intro kv hkv
  simp only [RespHdr.fields, List.mem_append] at hkv
  rcases hkv with (((((((h | h) | h) | h) | h) | h) | h) | h) | h
  all_goals first
    | exact Or.inr ⟨kv, (List.mem_filter.mp h).1, rfl⟩
    | (have := mem_ite_nil_single h; subst this; left; simp [respFixedNames])
    | (have := mem_ite_single_nil h; subst this; left; simp [respFixedNames])
    | (simp only [List.mem_map] at h; obtain ⟨c, _, rfl⟩ := h; left; simp [respFixedNames])
    | (split at h
       · simp only [List.mem_singleton] at h; subst h; left; simp [respFixedNames]
       · cases h)

theorem resp_fields_only_from_calls (sl : Int → Bytes) (date : Bytes) (p : List RespCall) :
    ∀ kv ∈ expectedRespFields sl date p, kv.1 ∈ respFixedNames ∨ ∃ c ∈ p, kv.1 ∈ respCallKeys c := by
  intro kv hkv
  obtain ⟨kv', hkv', he⟩ := kept_names hkv
  rw [← he]
  rcases respFields_names _ kv' hkv' with h | ⟨kv'', hm, he'⟩
  · exact Or.inl h
  · rw [← he']
    have := runRespFrom_keys (P := fun n => n ∈ respFixedNames ∨ ∃ c ∈ p, n ∈ respCallKeys c) (fun n hn => Or.inl hn) p {}
      (fun c hc n hn => Or.inr ⟨c, hc, hn⟩) allKeys_nil
    exact this kv'' hm

/-! ### never more fields than calls (plus the fixed ones) -/

theorem setArg_length (k v : Bytes) : ∀ (h : List KV), (setArg h k v).length ≤ h.length + 1
  | [] => by simp [setArg]
  | (k', v') :: t => by
    unfold setArg
    split
    · simp
    · have := setArg_length k v t
      simp only [List.length_cons]; omega

theorem appendArg_length (h : List KV) (k v : Bytes) : (appendArg h k v).length = h.length + 1 := by simp [appendArg]

theorem delAll_length (h : List KV) (k : Bytes) : (delAll h k).length ≤ h.length := List.length_filter_le _ _

theorem collectCookies_hlen (s : ReqSt) : s.collectCookies.h.length ≤ s.h.length := by
  unfold ReqSt.collectCookies
  split
  · exact Nat.le_refl _
  · exact List.length_filter_le _ _

theorem resetConnClose_hlen (s : ReqSt) : s.resetConnClose.h.length ≤ s.h.length := by
  unfold ReqSt.resetConnClose
  split
  · exact delAll_length _ _
  · exact Nat.le_refl _

theorem setSpecial_hlen {s s' : ReqSt} {key v : Bytes} (h : s.setSpecial key v = some s') : s'.h.length ≤ s.h.length + 1 := by
  unfold ReqSt.setSpecial at h
  split at h
  · cases h
  · simp only at h
    repeat' split at h
    all_goals cases h
    all_goals first
      | exact Nat.le_succ _
      | exact Nat.le_trans (delAll_length _ _) (Nat.le_succ _)
      | exact Nat.le_trans (setArg_length _ _ _) (Nat.succ_le_succ (resetConnClose_hlen s))
      | exact Nat.le_trans (collectCookies_hlen s) (Nat.le_succ _)

theorem setCanonical_hlen (s : ReqSt) (k v : Bytes) : (s.setCanonical k v).h.length ≤ s.h.length + 1 := by
  unfold ReqSt.setCanonical
  split
  · rename_i s' h; exact setSpecial_hlen h
  · exact setArg_length _ _ _

theorem del_hlen (s : ReqSt) (k : Bytes) : (s.del k).h.length ≤ s.h.length + 1 := by
  unfold ReqSt.del
  simp only
  refine Nat.le_trans (delAll_length _ _) ?_
  repeat' split
  all_goals exact Nat.le_succ _

theorem stepReq_hlen (s : ReqSt) (c : ReqCall) : (stepReq s c).h.length ≤ s.h.length + 1 := by
  cases c with
  | set k v => exact setCanonical_hlen s _ v
  | add k v =>
    simp only [stepReq]
    split
    · rename_i s' h; exact setSpecial_hlen h
    · exact Nat.le_of_eq (appendArg_length _ _ _)
  | setCanonical k v => exact setCanonical_hlen s k v
  | del k => exact del_hlen s _
  | setContentLength n =>
    simp only [stepReq]
    split
    · exact Nat.le_trans (delAll_length _ _) (Nat.le_succ _)
    · exact setArg_length _ _ _
  | setCookie k v => exact Nat.le_trans (collectCookies_hlen s) (Nat.le_succ _)
  | delCookie k => exact Nat.le_trans (collectCookies_hlen s) (Nat.le_succ _)
  | delAllCookies => exact Nat.le_trans (collectCookies_hlen s) (Nat.le_succ _)
  | setArgBytes k v nv => exact setArg_length _ _ _
  | addArgBytes k v nv => exact Nat.le_of_eq (appendArg_length _ _ _)
  | resetConnClose => exact Nat.le_trans (resetConnClose_hlen s) (Nat.le_succ _)
  | _ => exact Nat.le_succ _

theorem runReqFrom_hlen : ∀ (q : List ReqCall) (s : ReqSt), (runReqFrom s q).h.length ≤ s.h.length + q.length
  | [], s => Nat.le_refl _
  | c :: t, s => by
    have h1 := runReqFrom_hlen t (stepReq s c)
    have h2 := stepReq_hlen s c
    simp only [runReqFrom, List.foldl_cons, List.length_cons] at h1 ⊢
    omega

theorem ite_nil_single_length {α} {c : Prop} [Decidable c] {x : α} : (if c then [] else [x]).length ≤ 1 := by split <;> simp
theorem ite_single_nil_length {α} {c : Prop} [Decidable c] {x : α} : (if c then [x] else []).length ≤ 1 := by split <;> simp

/-- `RequestHeader.AppendBytes` writes at most seven lines besides the entries of `h` -/
theorem reqFields_length (r : ReqHdr) : r.fields.length ≤ r.h.length + 7 := by
  simp only [ReqHdr.fields, List.length_append]
  have h1 := @ite_nil_single_length _ (r.userAgent.isEmpty = true) _ (strUserAgent, r.userAgent)
  have h2 := @ite_nil_single_length _ (r.host.isEmpty = true) _ (strHost, r.host)
  have h4 := @ite_nil_single_length _ (r.clBytes.isEmpty = true) _ (strContentLength, r.clBytes)
  have h5 := @ite_nil_single_length _ (r.trailer.isEmpty = true) _ (strTrailer, trailerNames r.trailer)
  have h6 := @ite_nil_single_length _ (r.cookies.isEmpty = true) _ (strCookie, requestCookieBytes r.cookies)
  have h7 := @ite_single_nil_length _ (r.connClose = true) _ (strConnection, strClose)
  generalize hct : (if (r.contentType.isEmpty && !r.ignoreBody && !r.noDefaultContentType) = true then mIMEPostForm else r.contentType) = ct
  have h3 := @ite_nil_single_length _ (ct.isEmpty = true) _ (strContentType, ct)
  omega

/-- the number of fields on the wire is at most the number of calls plus seven -/
theorem req_fields_count (p : List ReqCall) : (expectedReqFields p).length ≤ p.length + 7 := by
  have h1 := kept_length_le (runReq p).toHdr.fields
  have h2 := reqFields_length (runReq p).toHdr
  have h3 := runReqFrom_hlen p {}
  simp only [expectedReqFields]
  have : (runReq p).toHdr.h = (runReqFrom {} p).h := rfl
  rw [this] at h2
  have h0 : ({} : ReqSt).h.length = 0 := rfl
  omega

def RespSt.size (s : RespSt) : Nat := s.h.length + s.cookies.length

theorem resp_resetConnClose_size (s : RespSt) : s.resetConnClose.h.length ≤ s.h.length ∧ s.resetConnClose.cookies = s.cookies := by
  unfold RespSt.resetConnClose
  split
  · exact ⟨delAll_length _ _, rfl⟩
  · exact ⟨Nat.le_refl _, rfl⟩

theorem resp_setSpecial_size {s s' : RespSt} {key v : Bytes} (h : s.setSpecial key v = some s') : s'.size ≤ s.size + 1 := by
  have d1 := delAll_length s.h strTransferEncoding
  have r1 := resp_resetConnClose_size s
  have sa := setArg_length key v s.resetConnClose.h
  have ap := appendArg_length s.cookies (getCookieKey v) v
  unfold RespSt.setSpecial at h
  split at h
  · cases h
  · simp only at h
    repeat' split at h
    all_goals cases h
    all_goals (simp only [RespSt.size]; first | omega | (rw [r1.2]; omega))

theorem resp_setCanonical_size (s : RespSt) (k v : Bytes) : (s.setCanonical k v).size ≤ s.size + 1 := by
  unfold RespSt.setCanonical
  split
  · rename_i s' h; exact resp_setSpecial_size h
  · have := setArg_length k v s.h
    simp only [RespSt.size]; omega

theorem resp_del_size (s : RespSt) (k : Bytes) : (s.del k).size ≤ s.size + 1 := by
  unfold RespSt.del
  simp only [RespSt.size]
  repeat' split
  all_goals (try simp only [List.length_nil]); (have := delAll_length s.h k; omega)

theorem resp_setContentLength_size (s : RespSt) (n : Int) : (s.setContentLength n).size ≤ s.size + 1 := by
  have d1 := delAll_length s.h strTransferEncoding
  have s1 := setArg_length strTransferEncoding strIdentity s.h
  have s2 := setArg_length strTransferEncoding strChunked s.h
  unfold RespSt.setContentLength
  repeat' split
  all_goals (simp only [RespSt.size]; omega)

theorem stepResp_size (s : RespSt) (c : RespCall) : (stepResp s c).size ≤ s.size + 1 := by
  cases c with
  | set k v => exact resp_setCanonical_size s _ v
  | add k v =>
    simp only [stepResp]
    split
    · rename_i s' h; exact resp_setSpecial_size h
    · simp only [RespSt.size, appendArg_length]; omega
  | setCanonical k v => exact resp_setCanonical_size s k v
  | del k => exact resp_del_size s _
  | setContentLength n => exact resp_setContentLength_size s n
  | setCookie c =>
    have := setArg_length c.c.key (Uri.appendCookieE c) s.cookies
    simp only [stepResp, RespSt.setCookie, RespSt.size]; omega
  | delCookie k =>
    have := delAll_length s.cookies k
    simp only [stepResp, RespSt.size]; omega
  | delAllCookies => simp only [stepResp, RespSt.size, List.length_nil]; omega
  | setArgBytes k v nv =>
    have := setArg_length k (if nv then [] else v) s.h
    simp only [stepResp, RespSt.size]; omega
  | addArgBytes k v nv => simp only [stepResp, RespSt.size, appendArg_length]; omega
  | resetConnClose =>
    have := resp_resetConnClose_size s
    simp only [stepResp, RespSt.size, this.2]; omega
  | ctxHeader k v =>
    simp only [stepResp]
    split
    · exact resp_del_size s _
    · exact resp_setCanonical_size s _ v
  | ctxRedirect code uri =>
    have := resp_setCanonical_size s strLocation uri
    simpa [stepResp, RespSt.size] using this
  | ctxSetCookie n v ma p d ss sec ho part =>
    have := setArg_length (ctxCookie n v ma p d ss sec ho part).c.key (Uri.appendCookieE (ctxCookie n v ma p d ss sec ho part)) s.cookies
    simp only [stepResp, RespSt.setCookie, RespSt.size]; omega
  | _ => exact Nat.le_succ _

theorem runRespFrom_size : ∀ (q : List RespCall) (s : RespSt), (runRespFrom s q).size ≤ s.size + q.length
  | [], s => Nat.le_refl _
  | c :: t, s => by
    have h1 := runRespFrom_size t (stepResp s c)
    have h2 := stepResp_size s c
    simp only [runRespFrom, List.foldl_cons, List.length_cons] at h1 ⊢
    omega

/-- `ResponseHeader.AppendBytes` writes at most seven lines besides the entries of `h` and the cookies -/
theorem respFields_length (r : RespHdr) : r.fields.length ≤ r.h.length + r.cookies.length + 7 := by
  have h1 := @ite_nil_single_length _ (r.server.isEmpty = true) _ (strServer, r.server)
  have h3 := @ite_single_nil_length _ (((r.contentLength != 0 || !r.contentType.isEmpty) && !r.contentType.isEmpty) = true) _ (strContentType, r.contentType)
  have h4 := @ite_nil_single_length _ (r.contentEncoding.isEmpty = true) _ (strContentEncoding, r.contentEncoding)
  have h5 := @ite_nil_single_length _ (r.clBytes.isEmpty = true) _ (strContentLength, r.clBytes)
  have h6 := List.length_filter_le (fun kv : Bytes × Bytes => r.date.isNone || kv.1 != strDate) r.h
  have h7 := @ite_nil_single_length _ (r.trailer.isEmpty = true) _ (strTrailer, trailerNames r.trailer)
  have h8 := @ite_single_nil_length _ (r.connClose = true) _ (strConnection, strClose)
  cases hd : r.date with
  | none => simp only [RespHdr.fields, hd, List.length_append, List.length_map, List.length_nil] at h6 ⊢; omega
  | some d => simp only [RespHdr.fields, hd, List.length_append, List.length_map, List.length_cons, List.length_nil] at h6 ⊢; omega

/-- the number of fields on the wire is at most the number of calls plus seven -/
theorem resp_fields_count (sl : Int → Bytes) (date : Bytes) (p : List RespCall) :
    (expectedRespFields sl date p).length ≤ p.length + 7 := by
  have h1 := kept_length_le ((runResp p).toHdr sl date).fields
  have h2 := respFields_length ((runResp p).toHdr sl date)
  have h3 := runRespFrom_size p {}
  simp only [expectedRespFields]
  have e1 : ((runResp p).toHdr sl date).h = (runRespFrom {} p).h := rfl
  have e2 : ((runResp p).toHdr sl date).cookies.length = (runRespFrom {} p).cookies.length := by
    simp [RespSt.toHdr, runResp]
  rw [e1, e2] at h2
  have h0 : ({} : RespSt).size = 0 := rfl
  simp only [RespSt.size] at h3 h0
  omega

/-! ### method and request URI come from `SetMethod` / `SetRequestURI` only -/

theorem collectCookies_line (s : ReqSt) : s.collectCookies.method = s.method ∧ s.collectCookies.uri = s.uri := by
  unfold ReqSt.collectCookies; split <;> exact ⟨rfl, rfl⟩

theorem resetConnClose_line (s : ReqSt) : s.resetConnClose.method = s.method ∧ s.resetConnClose.uri = s.uri := by
  unfold ReqSt.resetConnClose; split <;> exact ⟨rfl, rfl⟩

theorem setSpecial_line {s s' : ReqSt} {key v : Bytes} (h : s.setSpecial key v = some s') :
    s'.method = s.method ∧ s'.uri = s.uri := by
  unfold ReqSt.setSpecial at h
  split at h
  · cases h
  · simp only at h
    repeat' split at h
    all_goals cases h
    all_goals first
      | exact ⟨rfl, rfl⟩
      | exact resetConnClose_line s
      | exact collectCookies_line s

theorem setCanonical_line (s : ReqSt) (k v : Bytes) : (s.setCanonical k v).method = s.method ∧ (s.setCanonical k v).uri = s.uri := by
  unfold ReqSt.setCanonical
  split
  · rename_i s' h; exact setSpecial_line h
  · exact ⟨rfl, rfl⟩

theorem del_line (s : ReqSt) (k : Bytes) : (s.del k).method = s.method ∧ (s.del k).uri = s.uri := by
  unfold ReqSt.del
  simp only
  repeat' split
  all_goals exact ⟨rfl, rfl⟩

/-- a call other than `SetMethod` / `SetRequestURI` leaves both alone -/
theorem stepReq_line (s : ReqSt) (c : ReqCall) :
    ((stepReq s c).method = s.method ∨ c = .setMethod (stepReq s c).method) ∧
    ((stepReq s c).uri = s.uri ∨ c = .setRequestURI (stepReq s c).uri) := by
  cases c with
  | set k v => exact ⟨Or.inl (setCanonical_line s _ v).1, Or.inl (setCanonical_line s _ v).2⟩
  | add k v =>
    simp only [stepReq]
    split
    · rename_i s' h; exact ⟨Or.inl (setSpecial_line h).1, Or.inl (setSpecial_line h).2⟩
    · exact ⟨Or.inl rfl, Or.inl rfl⟩
  | setCanonical k v => exact ⟨Or.inl (setCanonical_line s k v).1, Or.inl (setCanonical_line s k v).2⟩
  | del k => exact ⟨Or.inl (del_line s _).1, Or.inl (del_line s _).2⟩
  | setContentLength n => simp only [stepReq]; split <;> exact ⟨Or.inl rfl, Or.inl rfl⟩
  | setCookie k v => exact ⟨Or.inl (collectCookies_line s).1, Or.inl (collectCookies_line s).2⟩
  | delCookie k => exact ⟨Or.inl (collectCookies_line s).1, Or.inl (collectCookies_line s).2⟩
  | delAllCookies => exact ⟨Or.inl (collectCookies_line s).1, Or.inl (collectCookies_line s).2⟩
  | resetConnClose => exact ⟨Or.inl (resetConnClose_line s).1, Or.inl (resetConnClose_line s).2⟩
  | setMethod v => exact ⟨Or.inr rfl, Or.inl rfl⟩
  | setRequestURI v => exact ⟨Or.inl rfl, Or.inr rfl⟩
  | _ => exact ⟨Or.inl rfl, Or.inl rfl⟩

theorem runReqFrom_line (p : List ReqCall) : ∀ (q : List ReqCall) (s : ReqSt), (∀ c ∈ q, c ∈ p) →
    (s.method = [] ∨ .setMethod s.method ∈ p) → (s.uri = [] ∨ .setRequestURI s.uri ∈ p) →
    ((runReqFrom s q).method = [] ∨ .setMethod (runReqFrom s q).method ∈ p) ∧
    ((runReqFrom s q).uri = [] ∨ .setRequestURI (runReqFrom s q).uri ∈ p)
  | [], s, _, hm, hu => ⟨hm, hu⟩
  | c :: t, s, hq, hm, hu => by
    have hc := hq c (by simp)
    obtain ⟨h1, h2⟩ := stepReq_line s c
    have := runReqFrom_line p t (stepReq s c) (fun c' hc' => hq c' (by simp [hc']))
      (by rcases h1 with h | h
          · rw [h]; exact hm
          · exact Or.inr (h ▸ hc))
      (by rcases h2 with h | h
          · rw [h]; exact hu
          · exact Or.inr (h ▸ hc))
    simpa [runReqFrom, List.foldl_cons] using this

/-! ### the request line -/

/-- no SP, CR, LF -/
def Clean3 (b : Bytes) : Prop := ∀ x ∈ b, x ≠ 32 ∧ x ≠ 13 ∧ x ≠ 10

instance (b : Bytes) : Decidable (Clean3 b) := inferInstanceAs (Decidable (∀ x ∈ b, x ≠ 32 ∧ x ≠ 13 ∧ x ≠ 10))

def c3 (c : UInt8) : Bool := c != 32 && c != 13 && c != 10

theorem clean3_of_c3 {b : Bytes} (h : ∀ x ∈ b, c3 x = true) : Clean3 b := by
  intro x hx
  have := h x hx
  simpa [c3, and_assoc] using this

theorem clean3_append {a b : Bytes} (ha : Clean3 a) (hb : Clean3 b) : Clean3 (a ++ b) := by
  intro x hx
  rcases List.mem_append.mp hx with h | h
  · exact ha x h
  · exact hb x h

theorem count_clean3 {b : Bytes} (h : Clean3 b) : b.count 32 = 0 :=
  List.count_eq_zero.mpr (fun hm => (h 32 hm).1 rfl)

theorem clean3_orGet {m : Bytes} (h : Clean3 m) : Clean3 (if m.isEmpty then strGet else m) := by
  split
  · exact clean3_of_c3 (by decide)
  · exact h

theorem clean3_orSlash {u : Bytes} (h : Clean3 u) : Clean3 (if u.isEmpty then strSlash else u) := by
  split
  · exact clean3_of_c3 (by decide)
  · exact h

/-- /repo 910b0dd: whatever method and target hold, what `appendRequestLinePart` writes has no SP, CR, LF -/
theorem reqLinePart_clean3 (p : Bytes) : Clean3 (reqLinePart p) := reqLinePart_clean p

theorem requestLine_count (m u : Bytes) : (requestLine m u).count 32 = 2 := by
  have h11 : strHTTP11.count 32 = 0 := by decide
  simp only [requestLine, List.count_append, h11, count_clean3 (reqLinePart_clean3 _)]
  simp

/-- FULL strength: for every method and every target the request line has exactly two SP and no CR/LF -/
theorem requestLine_single (m u : Bytes) :
    (requestLine m u).count 32 = 2 ∧ ∀ x ∈ requestLine m u, x ≠ 13 ∧ x ≠ 10 := by
  refine ⟨requestLine_count m u, ?_⟩
  intro x hx
  simp only [requestLine, List.mem_append, List.mem_singleton] at hx
  have h11 : Clean3 strHTTP11 := clean3_of_c3 (by decide)
  rcases hx with (((h | h) | h) | h) | h
  · exact (reqLinePart_clean3 _ x h).2
  · subst h; decide
  · exact (reqLinePart_clean3 _ x h).2
  · subst h; decide
  · exact (h11 x h).2

/-- a part is written unchanged exactly when it has no SP, CR, LF (otherwise these bytes appear as `%20`, `%0D`, `%0A`) -/
theorem reqLinePart_unchanged_iff (p : Bytes) : reqLinePart p = p ↔ Clean3 p := by
  constructor
  · intro h; rw [← h]; exact reqLinePart_clean3 p
  · intro h
    exact reqLinePart_id p (fun x hx => by
      have := h x hx
      simp [lineSpecial, this.1, this.2.1, this.2.2])

set_option maxRecDepth 100000 in
theorem tbl_path_c3 : allBytes (fun c => pathShouldEscape c || c3 c) = true := by decide +kernel
set_option maxRecDepth 100000 in
theorem tbl_hex_c3 : allBytes (fun c => c3 (upperhex (c >>> 4)) && c3 (upperhex (c &&& 15))) = true := by decide +kernel
set_option maxRecDepth 100000 in
theorem tbl_arg_c3 : allBytes (fun c => c == 32 || argShouldEscape c || c3 c) = true := by decide +kernel

theorem pctEnc_c3 (c x : UInt8) (hx : x ∈ pctEnc c) : c3 x = true := by
  have := allBytes_spec tbl_hex_c3 c
  simp only [pctEnc, List.mem_cons, List.mem_nil_iff, or_false] at hx
  simp only [Bool.and_eq_true] at this
  rcases hx with hx | hx | hx
  · subst hx; decide
  · subst hx; exact this.1
  · subst hx; exact this.2

theorem quotePathBody_c3 : ∀ (p : Bytes), ∀ x ∈ quotePathBody p, c3 x = true
  | [], x, hx => by simp [quotePathBody] at hx
  | c :: t, x, hx => by
    simp only [quotePathBody, List.mem_append] at hx
    rcases hx with hx | hx
    · cases he : pathShouldEscape c with
      | true => simp only [he, if_true] at hx; exact pctEnc_c3 c x hx
      | false =>
        simp only [he, Bool.false_eq_true, if_false, List.mem_cons, List.mem_nil_iff, or_false] at hx
        subst hx
        have := allBytes_spec tbl_path_c3 x
        simpa [he] using this
    · exact quotePathBody_c3 t x hx

/-- `AppendQuotedPath` never writes SP, CR or LF -/
theorem quotePath_clean3 (p : Bytes) : Clean3 (quotePath p) := by
  apply clean3_of_c3
  unfold quotePath
  split
  · decide
  · exact quotePathBody_c3 p

theorem quoteArg_c3 : ∀ (b : Bytes), ∀ x ∈ quoteArg b, c3 x = true
  | [], x, hx => by simp [quoteArg] at hx
  | c :: t, x, hx => by
    simp only [quoteArg, List.mem_append] at hx
    rcases hx with hx | hx
    · by_cases h32 : c = 32
      · simp only [h32, if_true, List.mem_singleton] at hx; subst hx; decide
      · simp only [h32, if_false] at hx
        cases he : argShouldEscape c with
        | true => simp only [he, if_true] at hx; exact pctEnc_c3 c x hx
        | false =>
          simp only [he, Bool.false_eq_true, if_false, List.mem_singleton] at hx
          subst hx
          have := allBytes_spec tbl_arg_c3 x
          simpa [he, h32] using this
    · exact quoteArg_c3 t x hx

theorem appendArg_c3 (kv : ArgKV) : ∀ x ∈ Hertz.appendArg kv, c3 x = true := by
  intro x hx
  simp only [Hertz.appendArg, List.mem_append] at hx
  rcases hx with hx | hx
  · exact quoteArg_c3 _ x hx
  · split at hx
    · cases hx
    · rcases List.mem_cons.mp hx with rfl | hx
      · decide
      · exact quoteArg_c3 _ x hx

theorem appendArgs_c3 : ∀ (l : List ArgKV), ∀ x ∈ appendArgs l, c3 x = true
  | [], x, hx => by simp [appendArgs] at hx
  | [kv], x, hx => by simp only [appendArgs] at hx; exact appendArg_c3 kv x hx
  | kv :: k2 :: t, x, hx => by
    simp only [appendArgs, List.mem_append, List.mem_cons] at hx
    rcases hx with hx | hx | hx
    · exact appendArg_c3 kv x hx
    · subst hx; decide
    · exact appendArgs_c3 (k2 :: t) x hx

/-- `URI.RequestURI()` has no SP, CR, LF as soon as the two parts it copies verbatim have none: `PathOriginal` when path
normalising is disabled, the query string when the arguments were not taken through `QueryArgs()` -/
theorem target_clean3 (u : Target) (hp : u.disablePathNormalizing = true → Clean3 u.pathOriginal)
    (hq : u.parsedQueryArgs = false → Clean3 u.queryString) : Clean3 u.requestURI := by
  unfold Target.requestURI
  apply clean3_append
  · split
    · rename_i h
      split
      · exact clean3_of_c3 (by decide)
      · exact hp h
    · exact quotePath_clean3 _
  · split
    · split
      · intro x hx; cases hx
      · intro x hx
        rcases List.mem_cons.mp hx with rfl | hx
        · decide
        · have := appendArgs_c3 _ x hx
          simpa [c3, and_assoc] using this
    · rename_i h
      split
      · intro x hx; cases hx
      · intro x hx
        rcases List.mem_cons.mp hx with rfl | hx
        · decide
        · exact hq (by simpa using h) x hx

/-! ### the `Set-Cookie` line -/

/-- whatever the cookie attributes hold, `appendHeaderLine("Set-Cookie", cookie.AppendBytes())` is ONE line -/
theorem setCookie_line (c : Uri.CookieE) (rest : Bytes) :
    Spec.Head.crlfLine (headerLine (strSetCookie, Uri.appendCookieE c) ++ rest) =
      some (strSetCookie ++ strColonSpace ++ newlineToSpace (Uri.appendCookieE c), rest) := by
  have hv : validName strSetCookie = true := by decide +kernel
  have hname : ∀ x ∈ strSetCookie ++ strColonSpace, x ≠ 13 ∧ x ≠ 10 := by decide
  simp only [headerLine, hv, if_true, strCRLF_eq, List.append_assoc]
  have := crlfLine_append (strSetCookie ++ strColonSpace ++ newlineToSpace (Uri.appendCookieE c)) rest (by
    intro x hx
    rcases List.mem_append.mp hx with h | h
    · exact hname x h
    · exact newlineToSpace_clean _ x h)
  simpa [List.append_assoc] using this

end Hertz.HA
