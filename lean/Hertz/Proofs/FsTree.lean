import Hertz.Model.FsTree
import Hertz.Spec.FsTree
import Hertz.Gen.Fs
/-!
Lemmas about the open path of the static file handler (`Hertz/Model/FsTree.lean`), used by
`Hertz/Props/C08.lean`.
-/
namespace Hertz.FS

/-! ### the tree as a finite map -/

theorem Tree.find_erase_self (t : Tree) (p : Bytes) : (t.erase p).find p = none := by
  induction t with
  | nil => rfl
  | cons e r ih =>
    obtain ⟨q, n⟩ := e
    by_cases h : q = p
    · simp [Tree.erase, h, ih]
    · simp [Tree.erase, Tree.find, h, ih]

theorem Tree.find_erase_ne (t : Tree) {p q : Bytes} (h : q ≠ p) : (t.erase p).find q = t.find q := by
  induction t with
  | nil => rfl
  | cons e r ih =>
    obtain ⟨k, n⟩ := e
    by_cases hk : k = p
    · have : k ≠ q := fun e => h (e ▸ hk)
      simp [Tree.erase, Tree.find, hk, ih]
      intro e; exact absurd e.symm h
    · by_cases hq : k = q
      · subst hq
        simp [Tree.erase, Tree.find, hk]
      · simp [Tree.erase, Tree.find, hk, hq, ih]

theorem Tree.find_put_self (t : Tree) (p : Bytes) (n : Node) : (t.put p n).find p = some n := by
  simp [Tree.put, Tree.find]

theorem Tree.find_put_ne (t : Tree) {p q : Bytes} (n : Node) (h : q ≠ p) : (t.put p n).find q = t.find q := by
  have : ¬ p = q := fun e => h e.symm
  simp [Tree.put, Tree.find, this, Tree.find_erase_ne t h]

theorem append_suffix_ne (p : Bytes) : p ++ gzSuffix ≠ p := by
  intro h
  have := congrArg List.length h
  simp [gzSuffix] at this

/-! ### `newFSFile` -/

theorem newFSFile_plain (path : Bytes) (n : Node) :
    newFSFile path n false = .ok { payload := n.payload, compressed := false, lastModified := n.mtime } := by
  simp [newFSFile]

theorem newFSFile_gz (path : Bytes) (n : Node) (h : n.payload.isGz = true) :
    newFSFile path n true = .ok { payload := n.payload, compressed := true, lastModified := n.mtime } := by
  simp [newFSFile, h]

/-! ### what the open path returns -/

/-- the statement shared by the lemmas below: the file chosen means `c` and carries the time `m` -/
def Serves (r : Tree × Except OpenErr FsFile) (c : Bytes) (m : Nat) : Prop :=
  ∃ ff, r.2 = .ok ff ∧ ff.meaning = some c ∧ ff.lastModified = m

theorem compressAndOpen_serves (t : Tree) (path c : Bytes) (m : Nat) (z : Bool)
    (hf : t.find path = some ⟨.raw c, m, z⟩) (hs : t.find (path ++ gzSuffix) = none) :
    Serves (compressAndOpenFSFile t path) c m := by
  unfold compressAndOpenFSFile
  rw [hf]
  by_cases hc : (gzSuffix.isSuffixOf path || !z) = true
  · simp only [hc, if_true]
    exact ⟨_, newFSFile_plain _ _, rfl, rfl⟩
  · simp only [hc]
    simp only [Bool.false_eq_true, if_false, compressFileNolock, hs]
    exact ⟨_, newFSFile_gz _ _ rfl, rfl, rfl⟩

theorem open_serves (t : Tree) (path c : Bytes) (m : Nat) (z : Bool) (mc : Bool)
    (hf : t.find path = some ⟨.raw c, m, z⟩)
    (hs : ∀ s, t.find (path ++ gzSuffix) = some s → s.mtime = m → s.payload = .gz (.raw c)) :
    Serves (openFSFile t path mc) c m := by
  unfold openFSFile
  cases mc with
  | false =>
    simp only [Bool.false_eq_true, if_false, hf]
    exact ⟨_, newFSFile_plain _ _, rfl, rfl⟩
  | true =>
    simp only [if_true]
    cases hz : t.find (path ++ gzSuffix) with
    | none => exact compressAndOpen_serves t path c m z hf hz
    | some s =>
      simp only [hf]
      by_cases hm : m = s.mtime
      · subst hm
        have hp := hs s hz rfl
        simp only [ne_eq, not_true_eq_false, if_false]
        refine ⟨_, newFSFile_gz _ _ (by rw [hp]; rfl), ?_, rfl⟩
        simp [FsFile.meaning, hp]
      · simp only [ne_eq, hm, not_false_eq_true, if_true]
        apply compressAndOpen_serves (t.erase (path ++ gzSuffix)) path c m z
        · rw [Tree.find_erase_ne t (append_suffix_ne path).symm]; exact hf
        · exact Tree.find_erase_self t _

/-! ### what the open path does to the tree -/

theorem compressAndOpen_tree (t : Tree) (path q : Bytes) (hq : q ≠ path ++ gzSuffix) :
    (compressAndOpenFSFile t path).1.find q = t.find q := by
  unfold compressAndOpenFSFile
  cases t.find path with
  | none => rfl
  | some o =>
    simp only
    split
    · rfl
    · unfold compressFileNolock
      cases t.find (path ++ gzSuffix) with
      | some s => rfl
      | none => exact Tree.find_put_ne t _ hq

theorem open_tree (t : Tree) (path q : Bytes) (mc : Bool) (hq : q ≠ path ++ gzSuffix) :
    (openFSFile t path mc).1.find q = t.find q := by
  unfold openFSFile
  cases mc with
  | false =>
    simp only [Bool.false_eq_true, if_false]
    cases t.find path <;> rfl
  | true =>
    simp only [if_true]
    cases t.find (path ++ gzSuffix) with
    | none => exact compressAndOpen_tree t path q hq
    | some s =>
      simp only
      cases t.find path with
      | none => rfl
      | some o =>
        simp only
        split
        · rw [compressAndOpen_tree _ path q hq, Tree.find_erase_ne t hq]
        · rfl

theorem compressAndOpen_sibling (t : Tree) (path c : Bytes) (m : Nat) (z : Bool)
    (hf : t.find path = some ⟨.raw c, m, z⟩) (hs : t.find (path ++ gzSuffix) = none) :
    ∀ s, (compressAndOpenFSFile t path).1.find (path ++ gzSuffix) = some s → s.payload = .gz (.raw c) ∧ s.mtime = m := by
  intro s
  unfold compressAndOpenFSFile
  rw [hf]
  simp only
  split
  · intro h; rw [hs] at h; cases h
  · unfold compressFileNolock
    rw [hs]
    simp only [Tree.find_put_self]
    intro h; cases h; exact ⟨rfl, rfl⟩

theorem open_sibling (t : Tree) (path c : Bytes) (m : Nat) (z : Bool) (mc : Bool)
    (hf : t.find path = some ⟨.raw c, m, z⟩)
    (hs : ∀ s, t.find (path ++ gzSuffix) = some s → s.mtime = m → s.payload = .gz (.raw c)) :
    ∀ s, (openFSFile t path mc).1.find (path ++ gzSuffix) = some s → s.mtime = m → s.payload = .gz (.raw c) := by
  unfold openFSFile
  cases mc with
  | false =>
    simp only [Bool.false_eq_true, if_false, hf]
    exact hs
  | true =>
    simp only [if_true]
    cases hz : t.find (path ++ gzSuffix) with
    | none =>
      intro s h _
      exact (compressAndOpen_sibling t path c m z hf hz s h).1
    | some s0 =>
      simp only [hf]
      by_cases hm : m = s0.mtime
      · subst hm
        simp only [ne_eq, not_true_eq_false, if_false]
        intro s h; rw [hz] at h; cases h
        intro _; exact hs _ hz rfl
      · simp only [ne_eq, hm, not_false_eq_true, if_true]
        intro s h _
        refine (compressAndOpen_sibling (t.erase (path ++ gzSuffix)) path c m z ?_ (Tree.find_erase_self t _) s h).1
        rw [Tree.find_erase_ne t (append_suffix_ne path).symm]; exact hf

/-! ### missing files -/

theorem open_missing (t : Tree) (path : Bytes) (mc : Bool) (hf : t.find path = none) :
    ∃ e, (openFSFile t path mc).2 = .error e := by
  unfold openFSFile
  cases mc with
  | false => simp only [Bool.false_eq_true, if_false, hf]; exact ⟨_, rfl⟩
  | true =>
    simp only [if_true]
    cases t.find (path ++ gzSuffix) with
    | none => simp only [compressAndOpenFSFile, hf]; exact ⟨_, rfl⟩
    | some s => simp only [hf]; exact ⟨_, rfl⟩

/-! ### `handleRequest`: cache lookup, open, cache insert -/

theorem fetch_uncached (compress : Bool) (st : State) (path r : Bytes) (ae : Bool)
    (h1 : st.cache.find path = none) (h2 : st.ccache.find path = none) :
    (fetch compress st path r ae).2 = (openFSFile st.tree path (mustCompress compress r ae)).2 ∧
    (fetch compress st path r ae).1.tree = (openFSFile st.tree path (mustCompress compress r ae)).1 := by
  unfold fetch
  have : (if mustCompress compress r ae = true then st.ccache else st.cache).find path = none := by
    split <;> assumption
  simp only [this]
  rcases h : openFSFile st.tree path (mustCompress compress r ae) with ⟨t', e | ff⟩
  · exact ⟨rfl, rfl⟩
  · constructor
    · rfl
    · simp only; split <;> rfl

/-! ### whole scenarios -/

theorem compressAndOpen_sibling_cases (t : Tree) (path : Bytes) :
    ∀ s, (compressAndOpenFSFile t path).1.find (path ++ gzSuffix) = some s →
      t.find (path ++ gzSuffix) = some s ∨ ∃ o, t.find path = some o ∧ s = ⟨.gz o.payload, o.mtime, false⟩ := by
  intro s
  unfold compressAndOpenFSFile
  cases ho : t.find path with
  | none => exact fun h => Or.inl h
  | some o =>
    simp only
    split
    · exact fun h => Or.inl h
    · unfold compressFileNolock
      cases hz : t.find (path ++ gzSuffix) with
      | some z => simp only; intro h; rw [hz] at h; exact Or.inl h
      | none =>
        simp only [Tree.find_put_self]
        intro h; cases h; exact Or.inr ⟨o, rfl, rfl⟩

theorem open_sibling_cases (t : Tree) (path : Bytes) (mc : Bool) :
    ∀ s, (openFSFile t path mc).1.find (path ++ gzSuffix) = some s →
      t.find (path ++ gzSuffix) = some s ∨ ∃ o, t.find path = some o ∧ s = ⟨.gz o.payload, o.mtime, false⟩ := by
  intro s
  unfold openFSFile
  cases mc with
  | false =>
    simp only [Bool.false_eq_true, if_false]
    cases t.find path <;> exact fun h => Or.inl h
  | true =>
    simp only [if_true]
    cases hz : t.find (path ++ gzSuffix) with
    | none => intro h; rw [← hz]; exact compressAndOpen_sibling_cases t path s h
    | some z =>
      simp only
      cases ho : t.find path with
      | none => simp only; intro h; rw [hz] at h; exact Or.inl h
      | some o =>
        simp only
        split
        · intro h
          rcases compressAndOpen_sibling_cases (t.erase (path ++ gzSuffix)) path s h with h' | ⟨o', h1, h2⟩
          · rw [Tree.find_erase_self] at h'; cases h'
          · rw [Tree.find_erase_ne t (append_suffix_ne path).symm, ho] at h1
            cases h1; exact Or.inr ⟨o, rfl, h2⟩
        · intro h; rw [hz] at h; exact Or.inl h

/-- a name that is not itself a `.hertz.gz` path -/
def Plain (n : Bytes) : Prop := ¬ gzSuffix <:+ n

theorem Plain.ne_sibling {n : Bytes} (h : Plain n) (m : Bytes) : n ≠ m ++ gzSuffix := by
  intro e; apply h; rw [e]; exact List.suffix_append m gzSuffix

theorem sibling_inj {n m : Bytes} (h : n ++ gzSuffix = m ++ gzSuffix) : n = m :=
  List.append_cancel_right h

/-- what a sibling decodes to, when it is a gzip stream of plain bytes -/
def dec : Payload → Option Bytes
  | .gz (.raw c) => some c
  | _ => none

theorem dec_eq_some {p : Payload} {c : Bytes} (h : dec p = some c) : p = .gz (.raw c) := by
  cases p with
  | raw b => cases h
  | gz q => cases q with
    | raw b => simp [dec] at h; rw [h]
    | gz r => cases h

def Step.name? : Step → Option Bytes
  | .write n _ _ _ => some n
  | .plant n _ _ => some n
  | .del n => some n
  | .delSib n => some n
  | .get n _ _ _ => some n
  | .flush => none

abbrev Versions := List (Bytes × Nat × Option Bytes)

def HonestV (V : Versions) : Prop :=
  ∀ a ∈ V, ∀ b ∈ V, a.1 = b.1 → a.2.1 = b.2.1 → a.2.2 = b.2.2

theorem honest_spec {steps : List Step} (h : Spec.honest steps = true) : HonestV (Spec.versions steps) := by
  intro a ha b hb h1 h2
  unfold Spec.honest at h
  simp only [List.all_eq_true] at h
  have := h a ha b hb
  simp only [Bool.or_eq_true, Bool.not_eq_true', Bool.and_eq_false_imp, beq_iff_eq] at this
  rcases this with h' | h'
  · have := h' h1
    simp [h2] at this
  · exact h'

theorem versions_cons (s : Step) (r : List Step) : Spec.versions (s :: r) = Spec.versions [s] ++ Spec.versions r := by
  cases s with
  | plant n p mt =>
    cases p with
    | raw b => rfl
    | gz q => cases q <;> rfl
  | _ => rfl

theorem versions_plant (n : Bytes) (p : Payload) (mt : Nat) : Spec.versions [.plant n p mt] = [(n, mt, dec p)] := by
  cases p with
  | raw b => rfl
  | gz q => cases q <;> rfl

theorem versions_mem {s : Step} {steps : List Step} (h : s ∈ steps) : ∀ x ∈ Spec.versions [s], x ∈ Spec.versions steps := by
  induction steps with
  | nil => cases h
  | cons a r ih =>
    intro x hx
    rw [versions_cons]
    rcases List.mem_cons.mp h with e | h'
    · subst e; exact List.mem_append_left _ hx
    · exact List.mem_append_right _ (ih h' x hx)

/-- the invariant of a run: the tree agrees with the scenario's view of every plain name, every
sibling and every file is a recorded version, every cache entry means a content the file had since
the caches were last empty -/
structure Inv (V : Versions) (st : State) (v : Bytes → Spec.View) : Prop where
  fileNone : ∀ n, Plain n → st.tree.find n = none → (v n).cur = none
  fileSome : ∀ n, Plain n → ∀ o, st.tree.find n = some o →
    ∃ c, o.payload = .raw c ∧ (v n).cur = some c ∧ (n, o.mtime, some c) ∈ V
  sib : ∀ n, Plain n → ∀ s, st.tree.find (n ++ gzSuffix) = some s → (n, s.mtime, dec s.payload) ∈ V
  cur : ∀ n, (v n).cur ∈ (v n).since
  cache : ∀ n ff, Plain n → (st.cache.find n = some ff ∨ st.ccache.find n = some ff) →
    ∃ c, ff.meaning = some c ∧ some c ∈ (v n).since

/-- an answer is right for `name`: a content it had since the caches were last empty / 404 only if
it was absent at such a moment -/
def Good (view : Spec.View) : Except OpenErr FsFile → Prop
  | .ok ff => ∃ c, ff.meaning = some c ∧ some c ∈ view.since
  | .error _ => none ∈ view.since

theorem inv_open_good {V : Versions} (hV : HonestV V) {st : State} {v : Bytes → Spec.View} (hinv : Inv V st v)
    {name : Bytes} (hp : Plain name) (mc : Bool) : Good (v name) (openFSFile st.tree name mc).2 := by
  cases hf : st.tree.find name with
  | none =>
    obtain ⟨e, he⟩ := open_missing st.tree name mc hf
    rw [he]
    have := hinv.fileNone name hp hf
    show none ∈ (v name).since
    rw [← this]; exact hinv.cur name
  | some o =>
    obtain ⟨c, hc, hcur, hver⟩ := hinv.fileSome name hp o hf
    have hf' : st.tree.find name = some ⟨.raw c, o.mtime, o.compressible⟩ := by
      rw [hf]; cases o; simp at hc; simp [hc]
    have hs : ∀ s, st.tree.find (name ++ gzSuffix) = some s → s.mtime = o.mtime → s.payload = .gz (.raw c) := by
      intro s hs hm
      have h1 := hinv.sib name hp s hs
      have := hV _ h1 _ hver rfl hm
      exact dec_eq_some this
    obtain ⟨ff, h1, h2, _⟩ := open_serves st.tree name c o.mtime o.compressible mc hf' hs
    rw [h1]
    exact ⟨c, h2, by rw [← hcur]; exact hinv.cur name⟩

theorem inv_open_tree {V : Versions} {st : State} {v : Bytes → Spec.View} (hinv : Inv V st v)
    {name : Bytes} (hp : Plain name) (mc : Bool) :
    Inv V { st with tree := (openFSFile st.tree name mc).1 } v where
  fileNone n hn h := hinv.fileNone n hn (by rw [← open_tree st.tree name n mc (hn.ne_sibling name)]; exact h)
  fileSome n hn o h := hinv.fileSome n hn o (by rw [← open_tree st.tree name n mc (hn.ne_sibling name)]; exact h)
  sib n hn s h := by
    by_cases e : n = name
    · subst e
      rcases open_sibling_cases st.tree n mc s h with h' | ⟨o, ho, hs⟩
      · exact hinv.sib n hn s h'
      · obtain ⟨c, hc, _, hver⟩ := hinv.fileSome n hn o ho
        rw [hs]; simp only [hc, dec]; exact hver
    · have : n ++ gzSuffix ≠ name ++ gzSuffix := fun h' => e (sibling_inj h')
      exact hinv.sib n hn s (by rw [← open_tree st.tree name _ mc this]; exact h)
  cur := hinv.cur
  cache := hinv.cache

theorem Cache.find_cons (c : Cache) (k : Bytes) (f : FsFile) (n : Bytes) :
    Cache.find ((k, f) :: c) n = if k = n then some f else c.find n := rfl

theorem fetch_hit {compress : Bool} {st : State} {name r : Bytes} {ae : Bool} {ff : FsFile}
    (h : (if mustCompress compress r ae = true then st.ccache else st.cache).find name = some ff) :
    fetch compress st name r ae = (st, .ok ff) := by
  simp only [fetch, h]

theorem fetch_miss_err {compress : Bool} {st : State} {name r : Bytes} {ae : Bool} {t' : Tree} {e : OpenErr}
    (h : (if mustCompress compress r ae = true then st.ccache else st.cache).find name = none)
    (ho : openFSFile st.tree name (mustCompress compress r ae) = (t', .error e)) :
    fetch compress st name r ae = ({ st with tree := t' }, .error e) := by
  simp only [fetch, h, ho]

theorem fetch_miss_ok {compress : Bool} {st : State} {name r : Bytes} {ae : Bool} {t' : Tree} {ff : FsFile}
    (h : (if mustCompress compress r ae = true then st.ccache else st.cache).find name = none)
    (ho : openFSFile st.tree name (mustCompress compress r ae) = (t', .ok ff)) :
    fetch compress st name r ae =
      (if mustCompress compress r ae = true then { st with tree := t', ccache := (name, ff) :: st.ccache }
       else { st with tree := t', cache := (name, ff) :: st.cache }, .ok ff) := by
  simp only [fetch, h, ho]

theorem inv_step {V : Versions} (hV : HonestV V) (compress : Bool) {st : State} {v : Bytes → Spec.View} (s : Step)
    (hinv : Inv V st v) (hname : ∀ n, s.name? = some n → Plain n) (hvers : ∀ x ∈ Spec.versions [s], x ∈ V) :
    Inv V (step compress st s).1 (fun n => Spec.View.step n (v n) s) := by
  cases s with
  | write name c mt z =>
    have hp := hname name rfl
    have hver : (name, mt, some c) ∈ V := hvers _ (by simp [Spec.versions])
    refine ⟨?_, ?_, ?_, ?_, ?_⟩
    · intro n hn h
      by_cases e : n = name
      · subst e; simp [step, Tree.find_put_self] at h
      · simp only [step, Tree.find_put_ne _ _ e] at h
        have : ¬ name = n := fun h => e h.symm
        simp only [Spec.View.step, this, if_false]; exact hinv.fileNone n hn h
    · intro n hn o h
      by_cases e : n = name
      · subst e
        simp only [step, Tree.find_put_self, Option.some.injEq] at h
        subst h
        exact ⟨c, rfl, by simp [Spec.View.step], hver⟩
      · simp only [step, Tree.find_put_ne _ _ e] at h
        have : ¬ name = n := fun h => e h.symm
        simp only [Spec.View.step, this, if_false]; exact hinv.fileSome n hn o h
    · intro n hn s h
      simp only [step, Tree.find_put_ne _ _ (hp.ne_sibling n).symm] at h
      exact hinv.sib n hn s h
    · intro n
      by_cases e : name = n
      · simp [Spec.View.step, e]
      · simp only [Spec.View.step, e, if_false]; exact hinv.cur n
    · intro n ff hn h
      obtain ⟨c', h1, h2⟩ := hinv.cache n ff hn h
      refine ⟨c', h1, ?_⟩
      by_cases e : name = n
      · simp only [Spec.View.step, e, if_true]; exact List.mem_cons_of_mem _ h2
      · simp only [Spec.View.step, e, if_false]; exact h2
  | plant name p mt =>
    have hp := hname name rfl
    have hver : (name, mt, dec p) ∈ V := hvers _ (by rw [versions_plant]; simp)
    refine ⟨?_, ?_, ?_, hinv.cur, hinv.cache⟩
    · intro n hn h
      simp only [step, Tree.find_put_ne _ _ (hn.ne_sibling name)] at h
      exact hinv.fileNone n hn h
    · intro n hn o h
      simp only [step, Tree.find_put_ne _ _ (hn.ne_sibling name)] at h
      exact hinv.fileSome n hn o h
    · intro n hn s h
      by_cases e : n = name
      · subst e
        simp only [step, Tree.find_put_self, Option.some.injEq] at h
        subst h; exact hver
      · have : n ++ gzSuffix ≠ name ++ gzSuffix := fun h' => e (sibling_inj h')
        simp only [step, Tree.find_put_ne _ _ this] at h
        exact hinv.sib n hn s h
  | del name =>
    have hp := hname name rfl
    refine ⟨?_, ?_, ?_, ?_, ?_⟩
    · intro n hn h
      by_cases e : n = name
      · subst e; simp [Spec.View.step]
      · simp only [step, Tree.find_erase_ne _ e] at h
        have : ¬ name = n := fun h => e h.symm
        simp only [Spec.View.step, this, if_false]; exact hinv.fileNone n hn h
    · intro n hn o h
      by_cases e : n = name
      · subst e; simp [step, Tree.find_erase_self] at h
      · simp only [step, Tree.find_erase_ne _ e] at h
        have : ¬ name = n := fun h => e h.symm
        simp only [Spec.View.step, this, if_false]; exact hinv.fileSome n hn o h
    · intro n hn s h
      simp only [step, Tree.find_erase_ne _ (hp.ne_sibling n).symm] at h
      exact hinv.sib n hn s h
    · intro n
      by_cases e : name = n
      · simp [Spec.View.step, e]
      · simp only [Spec.View.step, e, if_false]; exact hinv.cur n
    · intro n ff hn h
      obtain ⟨c', h1, h2⟩ := hinv.cache n ff hn h
      refine ⟨c', h1, ?_⟩
      by_cases e : name = n
      · simp only [Spec.View.step, e, if_true]; exact List.mem_cons_of_mem _ h2
      · simp only [Spec.View.step, e, if_false]; exact h2
  | delSib name =>
    refine ⟨?_, ?_, ?_, hinv.cur, hinv.cache⟩
    · intro n hn h
      simp only [step, Tree.find_erase_ne _ (hn.ne_sibling name)] at h
      exact hinv.fileNone n hn h
    · intro n hn o h
      simp only [step, Tree.find_erase_ne _ (hn.ne_sibling name)] at h
      exact hinv.fileSome n hn o h
    · intro n hn s h
      by_cases e : n = name
      · subst e; simp [step, Tree.find_erase_self] at h
      · have : n ++ gzSuffix ≠ name ++ gzSuffix := fun h' => e (sibling_inj h')
        simp only [step, Tree.find_erase_ne _ this] at h
        exact hinv.sib n hn s h
  | flush =>
    refine ⟨hinv.fileNone, hinv.fileSome, hinv.sib, ?_, ?_⟩
    · intro n; simp [Spec.View.step]
    · intro n ff _ h
      simp [step, Cache.find] at h
  | get name head ae r =>
    have hp := hname name rfl
    have hview : (fun n => Spec.View.step n (v n) (.get name head ae r)) = v := rfl
    rw [hview]
    simp only [step]
    cases hc : (if mustCompress compress r ae = true then st.ccache else st.cache).find name with
    | some ff => rw [fetch_hit hc]; exact hinv
    | none =>
      have hgood := inv_open_good hV hinv hp (mustCompress compress r ae)
      have htree := inv_open_tree hinv hp (mustCompress compress r ae)
      rcases h : openFSFile st.tree name (mustCompress compress r ae) with ⟨t', e | ff⟩
      · rw [fetch_miss_err hc h]; rw [h] at htree; exact htree
      · rw [fetch_miss_ok hc h]
        rw [h] at htree hgood
        cases hm : mustCompress compress r ae with
        | true =>
          simp only [if_true]
          refine ⟨htree.fileNone, htree.fileSome, htree.sib, htree.cur, ?_⟩
          intro n ff' hn h'
          simp only [Cache.find_cons] at h'
          by_cases e : name = n
          · subst e
            simp only [if_true, Option.some.injEq] at h'
            rcases h' with h' | h'
            · exact hinv.cache name ff' hn (Or.inl h')
            · subst h'; exact hgood
          · simp only [e, if_false] at h'
            exact hinv.cache n ff' hn h'
        | false =>
          simp only [Bool.false_eq_true, if_false]
          refine ⟨htree.fileNone, htree.fileSome, htree.sib, htree.cur, ?_⟩
          intro n ff' hn h'
          simp only [Cache.find_cons] at h'
          by_cases e : name = n
          · subst e
            simp only [if_true, Option.some.injEq] at h'
            rcases h' with h' | h'
            · subst h'; exact hgood
            · exact hinv.cache name ff' hn (Or.inr h')
          · simp only [e, if_false] at h'
            exact hinv.cache n ff' hn h'

theorem inv_steps {V : Versions} (hV : HonestV V) (compress : Bool) (steps : List Step) :
    ∀ (st : State) (v : Bytes → Spec.View), Inv V st v →
      (∀ s ∈ steps, ∀ n, s.name? = some n → Plain n) → (∀ s ∈ steps, ∀ x ∈ Spec.versions [s], x ∈ V) →
      Inv V (stateAfter compress st steps) (fun n => steps.foldl (Spec.View.step n) (v n)) := by
  induction steps with
  | nil => intro st v h _ _; exact h
  | cons s r ih =>
    intro st v h hn hv
    have h1 := inv_step hV compress s h (hn s (List.mem_cons_self ..)) (hv s (List.mem_cons_self ..))
    exact ih _ _ h1 (fun s' hs' => hn s' (List.mem_cons_of_mem _ hs')) (fun s' hs' => hv s' (List.mem_cons_of_mem _ hs'))

theorem inv_init (V : Versions) : Inv V {} (fun _ => {}) where
  fileNone _ _ _ := rfl
  fileSome _ _ o h := by cases h
  sib _ _ s h := by cases h
  cur _ := by simp
  cache _ ff _ h := by rcases h with h | h <;> cases h

/-- **Every request of every scenario is answered with a content the file had since the caches were
last empty** (404 only if it was absent at such a moment): all step lists whose names are not
themselves `.hertz.gz` paths and which respect the mtime assumption (`Spec.honest`). -/
theorem scenario_good (compress : Bool) (steps pre post : List Step) (name r : Bytes) (head ae : Bool)
    (hh : Spec.honest steps = true) (hn : ∀ s ∈ steps, ∀ n, s.name? = some n → Plain n)
    (hsplit : steps = pre ++ .get name head ae r :: post) :
    Good (Spec.viewOf name pre) (fetch compress (stateAfter compress {} pre) name r ae).2 := by
  have hV := honest_spec hh
  have hpre : ∀ s ∈ pre, s ∈ steps := fun s hs => by rw [hsplit]; exact List.mem_append_left _ hs
  have hinv := inv_steps hV compress pre {} (fun _ => {}) (inv_init _)
    (fun s hs => hn s (hpre s hs)) (fun s hs => versions_mem (hpre s hs))
  have hp : Plain name := hn (.get name head ae r) (by rw [hsplit]; simp) name rfl
  show Good (pre.foldl (Spec.View.step name) {}) _
  generalize stateAfter compress {} pre = st at hinv
  cases hc : (if mustCompress compress r ae = true then st.ccache else st.cache).find name with
  | some ff =>
    rw [fetch_hit hc]
    apply hinv.cache name ff hp
    by_cases hm : mustCompress compress r ae = true
    · rw [if_pos hm] at hc; exact Or.inr hc
    · rw [if_neg hm] at hc; exact Or.inl hc
  | none =>
    have hgood := inv_open_good hV hinv hp (mustCompress compress r ae)
    rcases h : openFSFile st.tree name (mustCompress compress r ae) with ⟨t', e | ff⟩
    · rw [fetch_miss_err hc h]; rw [h] at hgood; exact hgood
    · rw [fetch_miss_ok hc h]; rw [h] at hgood; exact hgood

/-! ### the Go sources still have the shape the model mirrors -/

/-- Statement skeletons (regenerated from `pkg/app/fs.go` on every run) of the three functions of
the open path, and the sibling suffix.  The staleness test of `openFSFile` is the line
`if fileInfoOriginal.ModTime() != fileInfo.ModTime()` — modelled as `o.mtime ≠ z.mtime`. -/
theorem open_path_matches_gen :
    gzSuffix = Gen.Fs.compressedFileSuffix ∧
    Gen.Fs.openFSFile = [
      "filePathOriginal := filePath",
      "if mustCompress",
      "filePath += h.compressedFileSuffix",
      "f, err := os.Open(filePath)",
      "if err != nil",
      "if mustCompress && os.IsNotExist(err)",
      "return h.compressAndOpenFSFile(filePathOriginal)",
      "return nil, err",
      "fileInfo, err := f.Stat()",
      "if err != nil",
      "f.Close()",
      "return nil, ERR",
      "if fileInfo.IsDir()",
      "f.Close()",
      "if mustCompress",
      "return nil, ERR",
      "return nil, errDirIndexRequired",
      "if mustCompress",
      "fileInfoOriginal, err := os.Stat(filePathOriginal)",
      "if err != nil",
      "f.Close()",
      "return nil, ERR",
      "if fileInfoOriginal.ModTime() != fileInfo.ModTime()",
      "f.Close()",
      "os.Remove(filePath)",
      "return h.compressAndOpenFSFile(filePathOriginal)",
      "return h.newFSFile(f, fileInfo, mustCompress)"] ∧
    Gen.Fs.compressAndOpenFSFile = [
      "f, err := os.Open(filePath)",
      "if err != nil",
      "return nil, err",
      "fileInfo, err := f.Stat()",
      "if err != nil",
      "f.Close()",
      "return nil, ERR",
      "if fileInfo.IsDir()",
      "f.Close()",
      "return nil, errDirIndexRequired",
      "if strings.HasSuffix(filePath, h.compressedFileSuffix) || fileInfo.Size() > consts.FsMaxCompressibleFileSize || !isFileCompressible(f, consts.FsMinCompressRatio)",
      "return h.newFSFile(f, fileInfo, false)",
      "compressedFilePath := filePath + h.compressedFileSuffix",
      "absPath, err := filepath.Abs(compressedFilePath)",
      "if err != nil",
      "f.Close()",
      "return nil, ERR",
      "flock := getFileLock(absPath)",
      "flock.Lock()",
      "ff, err := h.compressFileNolock(f, fileInfo, filePath, compressedFilePath)",
      "flock.Unlock()",
      "return ff, err"] ∧
    Gen.Fs.compressFileNolock = [
      "if _, err := os.Stat(compressedFilePath); err == nil",
      "f.Close()",
      "return h.newCompressedFSFile(compressedFilePath)",
      "tmpFilePath := compressedFilePath + \".tmp\"",
      "zf, err := os.Create(tmpFilePath)",
      "if err != nil",
      "f.Close()",
      "if !os.IsPermission(err)",
      "return nil, ERR",
      "return nil, errNoCreatePermission",
      "zw := compress.AcquireStacklessGzipWriter(zf, compress.CompressDefaultCompression)",
      "zrw := network.NewWriter(zw)",
      "_, err = utils.CopyZeroAlloc(zrw, f)",
      "if err1 := zw.Flush(); err == nil",
      "err = err1",
      "compress.ReleaseStacklessGzipWriter(zw, compress.CompressDefaultCompression)",
      "zf.Close()",
      "f.Close()",
      "if err != nil",
      "return nil, ERR",
      "if err = os.Chtimes(tmpFilePath, time.Now(), fileInfo.ModTime()); err != nil",
      "return nil, ERR",
      "if err = os.Rename(tmpFilePath, compressedFilePath); err != nil",
      "return nil, ERR",
      "return h.newCompressedFSFile(compressedFilePath)"] := by
  refine ⟨rfl, rfl, rfl, rfl⟩

end Hertz.FS
