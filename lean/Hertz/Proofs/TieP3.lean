import Hertz.Proofs.TieP2
/-!
`Hertz.Props.Tie`, part 3: `AppendQuotedPath`, `NormalizeHeaderKey`, `decodeArgAppend`, `decodeArgAppendNoPlus`.
-/
open Hertz

namespace Hertz.Tie

/-! ### `bytesconv.AppendQuotedPath` -/

def encPath (c : UInt8) : Bytes := if pathShouldEscape c then pctEnc c else [c]

theorem quotePathBody_flatMap (src : Bytes) : quotePathBody src = src.flatMap encPath := by
  induction src with
  | nil => rfl
  | cons c t ih => simp [quotePathBody, encPath, ih]

theorem appendQuotedPath_eq (dst src : Bytes) :
    Gen.Funcs.appendQuotedPath dst src = .ok (dst ++ quotePath src) := by
  unfold Gen.Funcs.appendQuotedPath
  have hloop : ∀ (body : UInt8 → Bytes → Go.G (Go.Ctl Bytes Bytes)),
      (∀ c dst, body c dst = (if ((tget Gen.quotedPathShouldEscapeTable c) != (0 : UInt8)) then
            Except.bind (Go.idx Gen.upperhex.toList (Go.intOfByte (c >>> (4 : UInt8)))) (fun t_3 =>
              Except.bind (Go.idx Gen.upperhex.toList (Go.intOfByte (c &&& (15 : UInt8)))) (fun t_4 =>
                let dst : Bytes := (dst ++ [(37 : UInt8), t_3, t_4])
                (Except.ok (Go.Ctl.next dst))))
            else
            let dst : Bytes := (dst ++ [c])
            (Except.ok (Go.Ctl.next dst)))) →
      Go.rangeLoop body src dst = .ok (.next (dst ++ quotePathBody src)) := by
    intro body hb
    rw [rangeLoop_append body encPath, quotePathBody_flatMap]
    intro c dst
    rw [hb]
    simp only [hexHi, hexLo, Except.bind, encPath, pathShouldEscape, pctEnc]
    by_cases h2 : tget Gen.quotedPathShouldEscapeTable c = 0 <;> simp [h2]
  rw [hloop _ (fun _ _ => rfl)]
  match src with
  | [] => simp [Go.len, Except.bind, quotePath]
  | [c] =>
    by_cases h : c = 42
    · subst h; simp [Go.len, Go.idx, Except.bind, quotePath]
    · simp [Go.len, Go.idx, Except.bind, quotePath, h]
  | c :: d :: t =>
    have : ¬ ((t.length : Int) + 1 + 1 = 1) := by omega
    simp [Go.len, Except.bind, quotePath, this]

example : Gen.Funcs.appendQuotedPath [1] [47, 97, 32, 98, 37, 255] = .ok [1, 47, 97, 37, 50, 48, 98, 37, 50, 53, 37, 70, 70] := by
  decide +kernel
example : Gen.Funcs.appendQuotedPath [1] [42] = .ok [1, 42] := by decide +kernel

/-! ### `utils.NormalizeHeaderKey` -/

theorem idx_append1 (p : Bytes) (c d : UInt8) (t : Bytes) :
    Go.idx (p ++ c :: d :: t) ((p.length : Int) + 1) = .ok d := by
  have := idx_append (p ++ [c]) d t
  simpa using this

theorem setIdx_append1 (p : Bytes) (c d v : UInt8) (t : Bytes) :
    Go.setIdx (p ++ c :: d :: t) ((p.length : Int) + 1) v = .ok (p ++ c :: v :: t) := by
  have := setIdx_append (p ++ [c]) d v t
  simpa using this

theorem add_nat (m k : Nat) (h : m + k < 9223372036854775808) : Go.add (m : Int) (k : Int) = ((m + k : Nat) : Int) := by
  unfold Go.add; rw [wrap_id] <;> push_cast <;> omega

theorem bind_ok {α β : Type} (a : α) (f : α → Go.G β) : Except.bind (Except.ok a) f = f a := rfl

/- NB (kernel performance): after `rw [hb]` always rewrite the `Go.add` facts FIRST and only then unfold `Except.bind`;
   otherwise the kernel ends up evaluating `Go.wrap` on an open term (minutes, "deep recursion"). -/

theorem nk_loop (n : Int) (cond : Bytes × Int → Go.G Bool) (body : Bytes × Int → Go.G (Go.Ctl (Bytes × Int) Bytes))
    (post : Bytes × Int → Go.G (Bytes × Int))
    (hc : ∀ b i, cond (b, i) = .ok (decide (i < n)))
    (hb : ∀ b i, body (b, i) =
      (let p_idx : Int := i
       Except.bind (Go.idx b p_idx) (fun _ =>
         (Except.bind (Go.idx b p_idx) (fun t_2 =>
            if (t_2 == (45 : UInt8)) then
            let i : Int := (Go.add i (1 : Int))
            (if (decide (i < n)) then
              Except.bind (Go.idx b i) (fun t_4 =>
                Except.bind (Go.setIdx b i (tget Gen.toUpperTable t_4)) (fun b =>
                (Except.ok (Go.Ctl.next (b, i)))))
              else
              (Except.ok (Go.Ctl.next (b, i))))
            else
            Except.bind (Go.idx b p_idx) (fun t_3 =>
              Except.bind (Go.setIdx b p_idx (tget Gen.toLowerTable t_3)) (fun b =>
                (Except.ok (Go.Ctl.next (b, i))))))))))
    (hp : ∀ b i, post (b, i) = .ok (b, Go.add i 1)) :
    ∀ (m : Nat) (t p : Bytes) (fuel : Nat), t.length ≤ m → n = ((p ++ t).length : Int) →
      (p ++ t).length + 1 < 9223372036854775808 → t.length < fuel →
      ∃ j, Go.forLoop cond body post fuel (p ++ t, (p.length : Int)) = .ok (.next (p ++ H1.normKeyAux false t, j)) := by
  have hnil : ∀ (p : Bytes) (fuel : Nat), n = (p.length : Int) → 0 < fuel →
      ∃ j, Go.forLoop cond body post fuel (p, (p.length : Int)) = .ok (.next (p, j)) := by
    intro p fuel hn hf
    cases fuel with
    | zero => omega
    | succ k => exact ⟨(p.length : Int), by simp [Go.forLoop, hc, hn]⟩
  intro m
  induction m with
  | zero =>
    intro t p fuel hm hn _ hf
    have : t = [] := by cases t with | nil => rfl | cons _ _ => simp at hm
    subst this
    simp at hn
    simpa [H1.normKeyAux] using hnil p fuel hn (by omega)
  | succ m ih =>
    intro t p fuel hm hn hl hf
    rcases t with _ | ⟨c, _ | ⟨d, t⟩⟩
    · simp at hn
      simpa [H1.normKeyAux] using hnil p fuel hn (by omega)
    · cases fuel with
      | zero => simp at hf
      | succ k =>
        simp at hn hl hf
        have h1 : cond (p ++ [c], (p.length : Int)) = .ok true := by rw [hc, hn]; simp; omega
        have ha : Go.add (p.length : Int) 1 = (p.length : Int) + 1 := by
          have := add_nat p.length 1 (by omega); simpa using this
        by_cases h45 : c = 45
        · subst h45
          cases k with
          | zero => simp at hf
          | succ k' =>
            have h2 : body (p ++ [45], (p.length : Int)) = .ok (.next (p ++ [45], (p.length : Int) + 1)) := by
              rw [hb]; simp only [ha]; simp only [idx_append]; simp only [bind_ok]
              have : ¬ ((p.length : Int) + 1 < n) := by omega
              simp [this]
            have ha2 : Go.add ((p.length : Int) + 1) 1 = (p.length : Int) + 1 + 1 := by
              have := add_nat (p.length + 1) 1 (by omega); simpa using this
            have h3 : cond (p ++ [45], (p.length : Int) + 1 + 1) = .ok false := by rw [hc, hn]; simp; omega
            refine ⟨(p.length : Int) + 1 + 1, ?_⟩
            simp only [Go.forLoop, h1, h2, hp, ha2, h3, H1.normKeyAux]
            simp
        · have h2 : body (p ++ [c], (p.length : Int)) = .ok (.next (p ++ [toLower c], (p.length : Int))) := by
            rw [hb]; simp only [ha]; simp only [idx_append, setIdx_append]; simp only [bind_ok]
            simp [h45, toLower]
          have e : (p.length : Int) + 1 = ((p ++ [toLower c]).length : Int) := by simp
          obtain ⟨j, hj⟩ := ih [] (p ++ [toLower c]) k (by simp) (by simp [hn]) (by simp; omega) (by simp; omega)
          refine ⟨j, ?_⟩
          simp only [Go.forLoop, h1, h2, hp, ha, e]
          simp only [List.append_nil, H1.normKeyAux] at hj
          rw [hj]; simp [H1.normKeyAux, h45]
    · cases fuel with
      | zero => simp at hf
      | succ k =>
        simp at hn hl hf hm
        have h1 : cond (p ++ c :: d :: t, (p.length : Int)) = .ok true := by rw [hc, hn]; simp; omega
        have ha : Go.add (p.length : Int) 1 = (p.length : Int) + 1 := by
          have := add_nat p.length 1 (by omega); simpa using this
        by_cases h45 : c = 45
        · subst h45
          have h2 : body (p ++ 45 :: d :: t, (p.length : Int)) = .ok (.next (p ++ 45 :: toUpper d :: t, (p.length : Int) + 1)) := by
            rw [hb]; simp only [ha]; simp only [idx_append, idx_append1, setIdx_append1]; simp only [bind_ok]
            have : ((p.length : Int) + 1 < n) := by omega
            simp [this, toUpper]
          have ha2 : Go.add ((p.length : Int) + 1) 1 = ((p ++ [45, toUpper d]).length : Int) := by
            have := add_nat (p.length + 1) 1 (by omega); simp at this ⊢; rw [this]; omega
          have e : p ++ 45 :: toUpper d :: t = (p ++ [45, toUpper d]) ++ t := by simp
          obtain ⟨j, hj⟩ := ih t (p ++ [45, toUpper d]) k (by omega) (by simp [hn]) (by simp; omega) (by omega)
          refine ⟨j, ?_⟩
          simp only [Go.forLoop, h1, h2, hp, ha2]
          rw [e, hj]; simp [H1.normKeyAux]
        · have h2 : body (p ++ c :: d :: t, (p.length : Int)) = .ok (.next (p ++ toLower c :: d :: t, (p.length : Int))) := by
            rw [hb]; simp only [ha]; simp only [idx_append, setIdx_append]; simp only [bind_ok]
            simp [h45, toLower]
          have ha2 : Go.add (p.length : Int) 1 = ((p ++ [toLower c]).length : Int) := by rw [ha]; simp
          have e : p ++ toLower c :: d :: t = (p ++ [toLower c]) ++ d :: t := by simp
          obtain ⟨j, hj⟩ := ih (d :: t) (p ++ [toLower c]) k (by simp; omega) (by simp [hn]) (by simp; omega) (by simp; omega)
          refine ⟨j, ?_⟩
          simp only [Go.forLoop, h1, h2, hp, ha2]
          rw [e, hj]; simp [H1.normKeyAux, h45]

theorem nk_loop' (n : Int) (cond : Bytes × Int → Go.G Bool) (body : Bytes × Int → Go.G (Go.Ctl (Bytes × Int) Bytes))
    (post : Bytes × Int → Go.G (Bytes × Int)) (K : Go.Ctl (Bytes × Int) Bytes → Go.G Bytes)
    (hc : ∀ b i, cond (b, i) = .ok (decide (i < n)))
    (hb : ∀ b i, body (b, i) =
      (let p_idx : Int := i
       Except.bind (Go.idx b p_idx) (fun _ =>
         (Except.bind (Go.idx b p_idx) (fun t_2 =>
            if (t_2 == (45 : UInt8)) then
            let i : Int := (Go.add i (1 : Int))
            (if (decide (i < n)) then
              Except.bind (Go.idx b i) (fun t_4 =>
                Except.bind (Go.setIdx b i (tget Gen.toUpperTable t_4)) (fun b =>
                (Except.ok (Go.Ctl.next (b, i)))))
              else
              (Except.ok (Go.Ctl.next (b, i))))
            else
            Except.bind (Go.idx b p_idx) (fun t_3 =>
              Except.bind (Go.setIdx b p_idx (tget Gen.toLowerTable t_3)) (fun b =>
                (Except.ok (Go.Ctl.next (b, i))))))))))
    (hp : ∀ b i, post (b, i) = .ok (b, Go.add i 1))
    (hK : ∀ b j, K (.next (b, j)) = .ok b)
    (t p : Bytes) (fuel : Nat) (hn : n = ((p ++ t).length : Int)) (hl : (p ++ t).length + 1 < 9223372036854775808)
    (hf : t.length < fuel) :
    Except.bind (Go.forLoop cond body post fuel (p ++ t, (p.length : Int))) K = .ok (p ++ H1.normKeyAux false t) := by
  obtain ⟨j, hj⟩ := nk_loop n cond body post hc hb hp t.length t p fuel (Nat.le_refl _) hn hl hf
  rw [hj, bind_ok, hK]

/-- The bound is `len(b) ≤ maxInt - 1` (not `maxInt`): for a key of `maxInt` bytes ending in `-` the Go loop counter
is incremented twice past `n - 1` and wraps. -/
theorem normalizeHeaderKey_eq (b : Bytes) (disable : Bool) (hlen : b.length + 1 < 2^63) :
    Gen.Funcs.normalizeHeaderKey b disable = .ok (H1.normalizeKey disable b) := by
  unfold Gen.Funcs.normalizeHeaderKey H1.normalizeKey
  cases disable with
  | true => simp
  | false =>
    cases b with
    | nil => simp [Go.len, H1.normKeyAux]
    | cons c t =>
      have hne : ((Go.len (c :: t)) == (0 : Int)) = false := by simp [Go.len]; omega
      have h0 : Go.idx (c :: t) 0 = .ok c := by simp [Go.idx]
      have h1 : Go.setIdx (c :: t) 0 (tget Gen.toUpperTable c) = .ok ([toUpper c] ++ t) := by simp [Go.setIdx, toUpper]
      simp only [hne, Bool.false_eq_true, if_false, h0, h1, bind_ok, H1.normKeyAux]
      refine Eq.trans (nk_loop' (Go.len (c :: t)) _ _ _ _ ?_ ?_ ?_ ?_ t [toUpper c] _ ?_ ?_ ?_) ?_
      · intro _ _; rfl
      · intro _ _; rfl
      · intro _ _; rfl
      · intro _ _; rfl
      · simp [Go.len]
      · simpa using hlen
      · simp [Go.fuelOf, Go.len]
      · simp

example : Gen.Funcs.normalizeHeaderKey (str "cONTENT--tYPE-x-") false = .ok (str "Content--type-X-") := by decide +kernel
example : Gen.Funcs.normalizeHeaderKey (str "cONTENT-tYPE") true = .ok (str "cONTENT-tYPE") := by decide +kernel

/-! ### `decodeArgAppend`, `decodeArgAppendNoPlus` -/

theorem ds_ne (plus : Bool) (c : UInt8) (rest : Bytes) (h : c ≠ 37) :
    decodeSlow plus (c :: rest) = (if plus && c == 43 then 32 else c) :: decodeSlow plus rest := by
  rcases rest with _ | ⟨d, _ | ⟨e, r⟩⟩
  · simp [decodeSlow]; split <;> rfl
  · simp [decodeSlow, h]
  · simp [decodeSlow, h]

theorem ds_short (plus : Bool) (rest : Bytes) (h : rest.length ≤ 1) :
    decodeSlow plus (37 :: rest) = 37 :: rest := by
  rcases rest with _ | ⟨d, _ | ⟨e, r⟩⟩
  · simp [decodeSlow]
  · simp [decodeSlow]
  · simp at h

theorem dec_loop (src : Bytes) (plus : Bool) (cond : Bytes × Int → Go.G Bool)
    (body : Bytes × Int → Go.G (Go.Ctl (Bytes × Int) Bytes)) (post : Bytes × Int → Go.G (Bytes × Int))
    (other : UInt8 → Bytes → Int → Go.G (Go.Ctl (Bytes × Int) Bytes))
    (K : Go.Ctl (Bytes × Int) Bytes → Go.G Bytes)
    (hc : ∀ dst i, cond (dst, i) = .ok (decide (i < Go.len src)))
    (hb : ∀ dst i, body (dst, i) =
      Except.bind (Go.idx src i) (fun t_1 =>
        let c : UInt8 := t_1
        (if (c == (37 : UInt8)) then
          (if (decide ((Go.add i (2 : Int)) ≥ (Go.len src))) then
            Except.bind (Go.sliceFrom src i) (fun t_4 =>
              (Except.ok (Go.Ctl.ret (dst ++ t_4))))
            else
            Except.bind (Go.idx src (Go.add i (2 : Int))) (fun t_2 =>
              let x2 : UInt8 := (tget Gen.hex2intTable t_2)
              Except.bind (Go.idx src (Go.add i (1 : Int))) (fun t_3 =>
                let x1 : UInt8 := (tget Gen.hex2intTable t_3)
                (if ((x1 == (16 : UInt8)) || (x2 == (16 : UInt8))) then
                  let dst : Bytes := (dst ++ [(37 : UInt8)])
                  (Except.ok (Go.Ctl.next (dst, i)))
                  else
                  let dst : Bytes := (dst ++ [((x1 <<< (4 : UInt8)) ||| x2)])
                  let i : Int := (Go.add i (2 : Int))
                  (Except.ok (Go.Ctl.next (dst, i)))))))
          else other c dst i)))
    (hp : ∀ dst i, post (dst, i) = .ok (dst, Go.add i 1))
    (ho : ∀ c dst i, c ≠ 37 → other c dst i = .ok (.next (dst ++ [if plus && c == 43 then 32 else c], i)))
    (hKr : ∀ v, K (.ret v) = .ok v)
    (hKn : ∀ d j, K (.next (d, j)) = .ok d)
    (hlen : src.length + 1 < 9223372036854775808) :
    ∀ (m : Nat) (t p dst : Bytes) (fuel : Nat), t.length ≤ m → src = p ++ t → t.length < fuel →
      Except.bind (Go.forLoop cond body post fuel (dst, (p.length : Int))) K = .ok (dst ++ decodeSlow plus t) := by
  intro m
  induction m using Nat.strongRecOn with
  | _ m ih =>
    intro t p dst fuel hm hsrc hf
    cases fuel with
    | zero => omega
    | succ k =>
      have hL : Go.len src = ((p.length + t.length : Nat) : Int) := by rw [hsrc]; simp [Go.len]
      have hlen' : p.length + t.length + 1 < 9223372036854775808 := by rw [hsrc] at hlen; simpa using hlen
      rcases t with _ | ⟨c, rest⟩
      · have h1 : cond (dst, (p.length : Int)) = .ok false := by rw [hc, hL]; simp
        simp only [Go.forLoop, h1, bind_ok, hKn, decodeSlow]; simp
      · simp at hm hf hlen' hL
        have h1 : cond (dst, (p.length : Int)) = .ok true := by rw [hc, hL]; simp; omega
        have hi : Go.idx src (p.length : Int) = .ok c := by rw [hsrc]; exact idx_append p c rest
        have ha1 : Go.add (p.length : Int) 1 = (p.length : Int) + 1 := by
          have := add_nat p.length 1 (by omega); simpa using this
        have ha2 : Go.add (p.length : Int) 2 = (p.length : Int) + 2 := by
          have := add_nat p.length 2 (by omega); simpa using this
        have e1 : (p.length : Int) + 1 = ((p ++ [c]).length : Int) := by simp
        by_cases h37 : c = 37
        · subst h37
          by_cases hr : rest.length ≤ 1
          · have hs : Go.sliceFrom src (p.length : Int) = .ok (37 :: rest) := by
              rw [sliceFrom_ok src p.length (by rw [hsrc]; simp), hsrc]; simp
            have hge : decide ((p.length : Int) + 2 ≥ Go.len src) = true := by rw [hL]; simp; omega
            have h2 : body (dst, (p.length : Int)) = .ok (.ret (dst ++ 37 :: rest)) := by
              rw [hb, hi]; simp only [ha1, ha2]; simp only [bind_ok, hge, hs]; simp
            simp only [Go.forLoop, h1, h2, bind_ok, hKr, ds_short plus rest hr]
          · rcases rest with _ | ⟨a, _ | ⟨b, r⟩⟩
            · simp at hr
            · simp at hr
            · simp at hm hf hlen' hL
              have hi1 : Go.idx src ((p.length : Int) + 1) = .ok a := by
                rw [hsrc]; exact idx_append1 p 37 a (b :: r)
              have hi2 : Go.idx src ((p.length : Int) + 2) = .ok b := by
                have := idx_append (p ++ [37, a]) b r
                rw [hsrc]; simpa using this
              have hlt : decide ((p.length : Int) + 2 ≥ Go.len src) = false := by rw [hL]; simp; omega
              by_cases h16 : hex2int a = 16 ∨ hex2int b = 16
              · have h2 : body (dst, (p.length : Int)) = .ok (.next (dst ++ [37], (p.length : Int))) := by
                  rw [hb, hi]; simp only [ha1, ha2]; simp only [hi1, hi2, hlt, bind_ok]
                  simp only [hex2int] at h16
                  rcases h16 with h | h <;> simp [h]
                have e : decodeSlow plus (37 :: a :: b :: r) = 37 :: decodeSlow plus (a :: b :: r) := by
                  simp [decodeSlow, h16]
                simp only [Go.forLoop, h1, h2, hp, ha1, e1, e]
                rw [ih (m - 1) (by omega) (a :: b :: r) (p ++ [37]) (dst ++ [37]) k (by simp; omega) (by simp [hsrc]) (by simp; omega)]
                simp
              · have h2 : body (dst, (p.length : Int)) = .ok (.next (dst ++ [hex2int a <<< 4 ||| hex2int b], (p.length : Int) + 2)) := by
                  rw [hb, hi]; simp only [ha1, ha2]; simp only [hi1, hi2, hlt, bind_ok]
                  simp only [hex2int] at h16
                  simp at h16
                  simp [h16, hex2int]
                have ha3 : Go.add ((p.length : Int) + 2) 1 = ((p ++ [37, a, b]).length : Int) := by
                  have := add_nat (p.length + 2) 1 (by omega); simp at this ⊢; rw [this]; omega
                have e : decodeSlow plus (37 :: a :: b :: r) = (hex2int a <<< 4 ||| hex2int b) :: decodeSlow plus r := by
                  simp [decodeSlow, h16]
                simp only [Go.forLoop, h1, h2, hp, ha3, e]
                rw [ih (m - 3) (by omega) r (p ++ [37, a, b]) (dst ++ [hex2int a <<< 4 ||| hex2int b]) k (by omega) (by simp [hsrc]) (by omega)]
                simp
        · have h2 : body (dst, (p.length : Int)) = .ok (.next (dst ++ [if plus && c == 43 then 32 else c], (p.length : Int))) := by
            rw [hb, hi]; simp only [ha1, ha2]; simp only [bind_ok]; simp [h37, ho]
          simp only [Go.forLoop, h1, h2, hp, ha1, e1, ds_ne plus c rest h37]
          rw [ih (m - 1) (by omega) rest (p ++ [c]) _ k (by omega) (by simp [hsrc]) (by omega)]
          simp

theorem indexByteNat_isSome (c : UInt8) : ∀ b : Bytes, (Go.indexByteNat c b).isSome = b.contains c
  | [] => rfl
  | x :: t => by
    by_cases hx : x = c
    · simp [Go.indexByteNat, hx]
    · have hx' : ¬ c = x := fun h => hx h.symm
      simp [Go.indexByteNat, hx, hx', indexByteNat_isSome c t]

theorem indexByte_neg (c : UInt8) (b : Bytes) : decide (Go.indexByte b c < 0) = !b.contains c := by
  unfold Go.indexByte
  rw [← indexByteNat_isSome]
  cases Go.indexByteNat c b with
  | none => simp
  | some k => simp

/-- The bound is `len(src) ≤ maxInt - 1`: for `maxInt` bytes ending in `%` the test `i+2 >= len(src)` wraps. -/
theorem decodeArgAppend_eq (dst src : Bytes) (hlen : src.length + 1 < 2^63) :
    Gen.Funcs.decodeArgAppend dst src = .ok (dst ++ decodeArg src) := by
  unfold Gen.Funcs.decodeArgAppend decodeArg
  rw [indexByte_neg, indexByte_neg]
  by_cases h : (!src.contains 37 && !src.contains 43) = true
  · simp only [h, if_true]
  · simp only [h]
    refine Eq.trans (dec_loop src true _ _ _
      (fun c dst i => (if (c == (43 : UInt8)) then
              let dst : Bytes := (dst ++ [(32 : UInt8)])
              (Except.ok (Go.Ctl.next (dst, i)))
              else
              let dst : Bytes := (dst ++ [c])
              (Except.ok (Go.Ctl.next (dst, i))))) _ ?_ ?_ ?_ ?_ ?_ ?_ (by simpa using hlen)
      src.length src [] dst _ (Nat.le_refl _) rfl ?_) rfl
    · intro _ _; rfl
    · intro _ _; rfl
    · intro _ _; rfl
    · intro c dst i _; by_cases h43 : c = 43 <;> simp [h43]
    · intro _; rfl
    · intro _ _; rfl
    · simp [Go.fuelOf, Go.len]

theorem decodeArgAppendNoPlus_eq (dst src : Bytes) (hlen : src.length + 1 < 2^63) :
    Gen.Funcs.decodeArgAppendNoPlus dst src = .ok (dst ++ decodeArgNoPlus src) := by
  unfold Gen.Funcs.decodeArgAppendNoPlus decodeArgNoPlus
  rw [indexByte_neg]
  by_cases h : (!src.contains 37) = true
  · simp only [h, if_true]
  · simp only [h]
    refine Eq.trans (dec_loop src false _ _ _
      (fun c dst i =>
              let dst : Bytes := (dst ++ [c])
              (Except.ok (Go.Ctl.next (dst, i)))) _ ?_ ?_ ?_ ?_ ?_ ?_ (by simpa using hlen)
      src.length src [] dst _ (Nat.le_refl _) rfl ?_) rfl
    · intro _ _; rfl
    · intro _ _; rfl
    · intro _ _; rfl
    · intro c dst i _; simp
    · intro _; rfl
    · intro _ _; rfl
    · simp [Go.fuelOf, Go.len]

example : Gen.Funcs.decodeArgAppend [1] (str "a+b%41%4g%") = .ok (1 :: str "a bA%4g%") := by decide +kernel
example : Gen.Funcs.decodeArgAppend [1] (str "%zz%2") = .ok (1 :: str "%zz%2") := by decide +kernel
example : Gen.Funcs.decodeArgAppendNoPlus [1] (str "a+b%41%4g%") = .ok (1 :: str "a+bA%4g%") := by decide +kernel
example : Gen.Funcs.decodeArgAppendNoPlus [1] (str "a+b") = .ok (1 :: str "a+b") := by decide +kernel

end Hertz.Tie
