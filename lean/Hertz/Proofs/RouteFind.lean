import Hertz.Proofs.RouteDefs
/-!
C06, search side: on a well-formed tree `visit` (the recursive form of `router.find`) returns the
route that the priority rule selects among the routes the tree denotes, with the parameter values
of that route's key, or reports a miss exactly when no key matches.  It never panics when the
parameter-name bookkeeping (`PnOK`) holds.
-/
namespace Hertz.Route

/-! ### keys against paths -/

theorem matchS_nil (s : Bytes) : matchS [] s = if s = [] then some [] else none := by
  cases s <;> simp [matchS]

theorem matchS_litCons (c : UInt8) (k s : Bytes) (h1 : c ≠ 58) (h2 : c ≠ 42) :
    matchS (c :: k) s = match s with
      | [] => none
      | d :: s' => if c = d then matchS k s' else none := by
  cases s <;> simp [matchS, h1, h2]

theorem matchS_param_nil (k : Bytes) : matchS (58 :: k) [] = none := by simp [matchS]

theorem matchS_param_cons (k : Bytes) (c : UInt8) (s : Bytes) :
    matchS (58 :: k) (c :: s) = match matchS k (segRest (c :: s)) with
      | none => none
      | some r => some (segValue (c :: s) :: r) := by
  cases h : matchS k (segRest (c :: s)) <;> simp [matchS, h]

theorem matchS_any (k s : Bytes) : matchS (42 :: k) s = some [s] := by simp [matchS]

theorem matchS_litApp (pfx k s : Bytes) (h : Lit pfx) :
    matchS (pfx ++ k) s = if pfx.isPrefixOf s then matchS k (s.drop pfx.length) else none := by
  induction pfx generalizing s with
  | nil => simp
  | cons c p ih =>
    have hc := h c (by simp)
    have hp : Lit p := fun x hx => h x (by simp [hx])
    rw [List.cons_append, matchS_litCons _ _ _ hc.1 hc.2]
    cases s with
    | nil => simp [List.isPrefixOf]
    | cons d s' =>
      by_cases hcd : c = d
      · subst hcd; simp [List.isPrefixOf, ih s' hp]
      · simp [List.isPrefixOf, hcd]

theorem preferS_app (pfx a b : Bytes) : preferS (pfx ++ a) (pfx ++ b) = preferS a b := by
  induction pfx with
  | nil => rfl
  | cons c p ih => simp [preferS, ih]

theorem preferS_nil (b : Bytes) : preferS [] b = true := by cases b <;> rfl

/-! ### algebra of `SpecRes` -/

theorem specRes_prefix (R : List (Bytes × Val)) (pfx s ps : _) (r : Res) (hl : Lit pfx)
    (h : match (if pfx.isPrefixOf s then some (s.drop pfx.length) else none) with
         | none => r = .miss
         | some s' => SpecRes R s' ps r) :
    SpecRes (R.map (fun kv => (pfx ++ kv.1, kv.2))) s ps r := by
  by_cases hp : pfx.isPrefixOf s = true
  · simp only [hp, if_true] at h
    rcases h with ⟨k, v, vals, ⟨hm, hk, hb⟩, hr⟩ | ⟨hn, hr⟩
    · refine Or.inl ⟨pfx ++ k, v, vals, ⟨?_, ?_, ?_⟩, hr⟩
      · exact List.mem_map.mpr ⟨(k, v), hm, rfl⟩
      · rw [matchS_litApp _ _ _ hl, if_pos hp]; exact hk
      · intro kv hkv hs
        obtain ⟨kv', hkv', rfl⟩ := List.mem_map.mp hkv
        simp only [matchS_litApp _ _ _ hl, hp, if_true] at hs
        simp only [preferS_app]
        exact hb kv' hkv' hs
    · refine Or.inr ⟨?_, hr⟩
      intro kv hkv
      obtain ⟨kv', hkv', rfl⟩ := List.mem_map.mp hkv
      simp only [matchS_litApp _ _ _ hl, hp, if_true]
      exact hn kv' hkv'
  · simp only [hp] at h
    refine Or.inr ⟨?_, h⟩
    intro kv hkv
    obtain ⟨kv', _, rfl⟩ := List.mem_map.mp hkv
    simp only [matchS_litApp _ _ _ hl, hp]
    simp

/-- alternatives tried in order: the earlier group wins when it has a match -/
theorem specRes_orElse (R1 R2 : List (Bytes × Val)) (s ps : _) (r1 r2 : Res)
    (h1 : SpecRes R1 s ps r1) (h2 : SpecRes R2 s ps r2)
    (hpref : ∀ kv1 ∈ R1, ∀ kv2 ∈ R2, (matchS kv1.1 s).isSome = true → (matchS kv2.1 s).isSome = true →
      preferS kv1.1 kv2.1 = true) :
    SpecRes (R1 ++ R2) s ps (r1.orElse fun _ => r2) := by
  rcases h1 with ⟨k, v, vals, ⟨hm, hk, hb⟩, hr⟩ | ⟨hn, hr⟩
  · subst hr
    refine Or.inl ⟨k, v, vals, ⟨List.mem_append_left _ hm, hk, ?_⟩, rfl⟩
    intro kv hkv hs
    rcases List.mem_append.mp hkv with h | h
    · exact hb kv h hs
    · exact hpref (k, v) hm kv h (by simp [hk]) hs
  · subst hr
    simp only [Res.orElse]
    rcases h2 with ⟨k, v, vals, ⟨hm, hk, hb⟩, hr⟩ | ⟨hn2, hr⟩
    · refine Or.inl ⟨k, v, vals, ⟨List.mem_append_right _ hm, hk, ?_⟩, hr⟩
      intro kv hkv hs
      rcases List.mem_append.mp hkv with h | h
      · rw [hn kv h] at hs; simp at hs
      · exact hb kv h hs
    · refine Or.inr ⟨?_, hr⟩
      intro kv hkv
      rcases List.mem_append.mp hkv with h | h
      · exact hn kv h
      · exact hn2 kv h

theorem specRes_append_none_right (R1 R2 : List (Bytes × Val)) (s ps : _) (r : Res)
    (h1 : SpecRes R1 s ps r) (h2 : NoneMatch R2 s) : SpecRes (R1 ++ R2) s ps r := by
  rcases h1 with ⟨k, v, vals, ⟨hm, hk, hb⟩, hr⟩ | ⟨hn, hr⟩
  · refine Or.inl ⟨k, v, vals, ⟨List.mem_append_left _ hm, hk, ?_⟩, hr⟩
    intro kv hkv hs
    rcases List.mem_append.mp hkv with h | h
    · exact hb kv h hs
    · rw [h2 kv h] at hs; simp at hs
  · refine Or.inr ⟨?_, hr⟩
    intro kv hkv
    rcases List.mem_append.mp hkv with h | h
    · exact hn kv h
    · exact h2 kv h

theorem specRes_append_none_left (R1 R2 : List (Bytes × Val)) (s ps : _) (r : Res)
    (h1 : NoneMatch R1 s) (h2 : SpecRes R2 s ps r) : SpecRes (R1 ++ R2) s ps r := by
  rcases h2 with ⟨k, v, vals, ⟨hm, hk, hb⟩, hr⟩ | ⟨hn, hr⟩
  · refine Or.inl ⟨k, v, vals, ⟨List.mem_append_right _ hm, hk, ?_⟩, hr⟩
    intro kv hkv hs
    rcases List.mem_append.mp hkv with h | h
    · rw [h1 kv h] at hs; simp at hs
    · exact hb kv h hs
  · refine Or.inr ⟨?_, hr⟩
    intro kv hkv
    rcases List.mem_append.mp hkv with h | h
    · exact h1 kv h
    · exact hn kv h

/-- entering a parameter node: the value is pushed, the rest of the key is matched behind it -/
theorem specRes_param (R : List (Bytes × Val)) (s ps : _) (r : Res)
    (h : match s with
         | [] => r = .miss
         | _ :: _ => SpecRes R (segRest s) (ps ++ [segValue s]) r) :
    SpecRes (R.map (fun kv => ((58 : UInt8) :: kv.1, kv.2))) s ps r := by
  cases s with
  | nil =>
    refine Or.inr ⟨?_, h⟩
    intro kv hkv
    obtain ⟨kv', _, rfl⟩ := List.mem_map.mp hkv
    exact matchS_param_nil _
  | cons c s' =>
    simp only at h
    rcases h with ⟨k, v, vals, ⟨hm, hk, hb⟩, hr⟩ | ⟨hn, hr⟩
    · refine Or.inl ⟨58 :: k, v, segValue (c :: s') :: vals, ⟨?_, ?_, ?_⟩, ?_⟩
      · exact List.mem_map.mpr ⟨(k, v), hm, rfl⟩
      · rw [matchS_param_cons, hk]
      · intro kv hkv hs
        obtain ⟨kv', hkv', rfl⟩ := List.mem_map.mp hkv
        simp only [preferS, if_true]
        apply hb kv' hkv'
        rw [matchS_param_cons] at hs
        cases hx : matchS kv'.1 (segRest (c :: s')) with
        | none => rw [hx] at hs; simp at hs
        | some _ => rfl
      · rw [hr]; simp [List.append_assoc]
    · refine Or.inr ⟨?_, hr⟩
      intro kv hkv
      obtain ⟨kv', hkv', rfl⟩ := List.mem_map.mp hkv
      rw [matchS_param_cons, hn kv' hkv']

/-! ### shape of the keys below a well-formed node -/

theorem set_append_last (ps : List Bytes) (x y : Bytes) : (ps ++ [x]).set ps.length y = ps ++ [y] := by
  induction ps with
  | nil => rfl
  | cons a t ih => simp [ih]

theorem routes_head_static (n : Node) (h : WF n .skind) :
    n.label ≠ 58 ∧ n.label ≠ 42 ∧ ∀ kv ∈ routes n, ∃ k, kv.1 = n.label :: k := by
  obtain ⟨kind, label, pfx, cs, ppath, pnames, hs, pc, ac⟩ := n
  simp only [WF] at h
  obtain ⟨_, hl, ⟨hne, hlit⟩, _⟩ := h
  cases pfx with
  | nil => exact absurd rfl hne
  | cons c p =>
    simp only [List.headD_cons] at hl
    subst hl
    have hc := hlit label (by simp)
    refine ⟨hc.1, hc.2, ?_⟩
    intro kv hkv
    simp only [routes] at hkv
    obtain ⟨kv', _, rfl⟩ := List.mem_map.mp hkv
    exact ⟨p ++ kv'.1, rfl⟩

theorem routesL_head (cs : List Node) (h : WFL cs) :
    ∀ kv ∈ routesL cs, ∃ c k, kv.1 = c :: k ∧ c ≠ 58 ∧ c ≠ 42 ∧ c ∈ cs.map Node.label := by
  induction cs with
  | nil => intro kv hkv; simp [routesL] at hkv
  | cons n r ih =>
    simp only [WFL] at h
    intro kv hkv
    simp only [routesL] at hkv
    rcases List.mem_append.mp hkv with hk | hk
    · obtain ⟨h1, h2, h3⟩ := routes_head_static n h.1
      obtain ⟨k, hk'⟩ := h3 kv hk
      exact ⟨n.label, k, hk', h1, h2, by simp⟩
    · obtain ⟨c, k, h1, h2, h3, h4⟩ := ih h.2 kv hk
      exact ⟨c, k, h1, h2, h3, by simp [h4]⟩

theorem routes_eq_body (n : Node) : routes n = (routesBody n).map (fun kv => (n.pfx ++ kv.1, kv.2)) := by
  obtain ⟨kind, label, pfx, cs, ppath, pnames, hs, pc, ac⟩ := n
  simp only [routes, routesBody, Node.pfx]

theorem routesO_param (pc : Option Node) (h : WFO pc .pkind) :
    routesO pc = (match pc with | none => [] | some c => routesBody c).map
      (fun (kv : Bytes × Val) => ((58 : UInt8) :: kv.1, kv.2)) := by
  cases pc with
  | none => simp [routesO]
  | some c =>
    obtain ⟨kind, label, pfx, cs, ppath, pnames, hs, pc', ac⟩ := c
    simp only [WFO, WF] at h
    obtain ⟨_, _, hp, _⟩ := h
    subst hp
    simp only [routesO, routes, routesBody]
    simp

theorem routesO_any (ac : Option Node) (h : WFO ac .akind) : ∀ kv ∈ routesO ac, kv.1 = [42] := by
  cases ac with
  | none => intro kv hkv; simp [routesO] at hkv
  | some c =>
    obtain ⟨kind, label, pfx, cs, ppath, pnames, hs, pc', ac'⟩ := c
    simp only [WFO, WF] at h
    obtain ⟨_, _, ⟨hp, hcs, hpc, hac, hhs⟩, _⟩ := h
    subst hp hcs hpc hac
    intro kv hkv
    cases hs with
    | none => simp at hhs
    | some x =>
      simp [routesO, routes, routesL] at hkv
      simp [hkv]

/-! ### the search -/

/-- the part of `visit` behind the prefix test -/
def bodyRes (cs : List Node) (ppath : Bytes) (pnames : List Bytes) (hs : Option Nat) (pc ac : Option Node)
    (s : Bytes) (ps : List Bytes) (cap : Nat) : Res :=
  match (match s, hs with | [], some h => some h | _, _ => none) with
  | some h => finish h ppath pnames ps
  | none =>
    (match s with
      | [] => Res.miss
      | c :: _ => visitChild cs c s ps cap).orElse fun _ =>
    (match s with
      | [] => Res.miss
      | _ :: _ => visitParam pc s ps cap).orElse fun _ =>
    visitAny ac s ps cap

theorem visit_mk (kind : Kind) (label : UInt8) (pfx : Bytes) (cs : List Node) (ppath : Bytes) (pnames : List Bytes)
    (hs : Option Nat) (pc ac : Option Node) (s : Bytes) (ps : List Bytes) (cap : Nat) :
    visit (.mk kind label pfx cs ppath pnames hs pc ac) s ps cap =
      match (if kind = .skind then (if pfx.isPrefixOf s then some (s.drop pfx.length) else none) else some s) with
      | none => .miss
      | some s' => bodyRes cs ppath pnames hs pc ac s' ps cap := by
  rw [visit]; rfl

theorem visitAny_spec (ac : Option Node) (j cap : Nat) (hwf : WFO ac .akind) (hp : PnOKO ac j cap)
    (s ps : _) (hps : ps.length = j) : SpecRes (routesO ac) s ps (visitAny ac s ps cap) := by
  cases ac with
  | none => exact Or.inr ⟨by intro kv hkv; simp [routesO] at hkv, by simp [visitAny]⟩
  | some c =>
    obtain ⟨kind, label, pfx, cs, ppath, pnames, hs, pc', ac'⟩ := c
    simp only [WFO, WF] at hwf
    obtain ⟨hk, _, ⟨hpf, hcs, hpc, hac, hhs⟩, _⟩ := hwf
    subst hk hpf hcs hpc hac
    simp only [PnOKO, PnOK, depthAt] at hp
    obtain ⟨hcap, hlen, _⟩ := hp
    cases hs with
    | none => simp at hhs
    | some x =>
      have hlen := hlen rfl
      simp at hlen hcap
      refine Or.inl ⟨[42], ⟨x, ppath, pnames⟩, [s], ⟨?_, matchS_any _ _, ?_⟩, ?_⟩
      · simp [routesO, routes, routesL]
      · intro kv hkv _
        simp [routesO, routes, routesL] at hkv
        simp [hkv, preferS]
      · have h1 : ¬ (ps.length + 1 > cap) := by omega
        have h2 : pnames.length - 1 = ps.length := by omega
        simp only [visitAny, hlen, hps]
        simp [finish, hlen, ← hps]
        rw [if_neg (by omega), if_neg (by omega)]

theorem body_spec (kind : Kind) (label : UInt8) (pfx : Bytes) (cs : List Node) (ppath : Bytes) (pnames : List Bytes)
    (hs : Option Nat) (pc ac : Option Node) (s ps : _) (cap : Nat)
    (hpn : hs.isSome = true → pnames.length = ps.length)
    (hwfL : WFL cs) (hwfP : WFO pc .pkind) (hwfA : WFO ac .akind)
    (hL : ∀ c s', SpecRes (routesL cs) (c :: s') ps (visitChild cs c (c :: s') ps cap))
    (hP : ∀ c s', SpecRes (routesO pc) (c :: s') ps (visitParam pc (c :: s') ps cap))
    (hA : SpecRes (routesO ac) s ps (visitAny ac s ps cap)) :
    SpecRes (routesBody (.mk kind label pfx cs ppath pnames hs pc ac)) s ps
      (bodyRes cs ppath pnames hs pc ac s ps cap) := by
  have hLk := routesL_head cs hwfL
  have hPk : ∀ kv ∈ routesO pc, ∃ k, kv.1 = (58 : UInt8) :: k := by
    intro kv hkv
    rw [routesO_param pc hwfP] at hkv
    obtain ⟨kv', _, rfl⟩ := List.mem_map.mp hkv
    exact ⟨_, rfl⟩
  have hAk := routesO_any ac hwfA
  simp only [routesBody, List.append_assoc]
  cases s with
  | nil =>
    have hLn : NoneMatch (routesL cs) [] := by
      intro kv hkv
      obtain ⟨c, k, h1, h2, h3, _⟩ := hLk kv hkv
      rw [h1, matchS_litCons _ _ _ h2 h3]
    have hPn : NoneMatch (routesO pc) [] := by
      intro kv hkv
      obtain ⟨k, h1⟩ := hPk kv hkv
      rw [h1, matchS_param_nil]
    cases hs with
    | none =>
      simp only [bodyRes, Res.orElse, List.nil_append]
      exact specRes_append_none_left _ _ _ _ _ hLn (specRes_append_none_left _ _ _ _ _ hPn hA)
    | some h =>
      have hlen := hpn rfl
      refine Or.inl ⟨[], ⟨h, ppath, pnames⟩, [], ⟨by simp, by simp [matchS], ?_⟩, ?_⟩
      · intro kv _ _; exact preferS_nil _
      · simp [bodyRes, finish, hlen]
  | cons c s' =>
    have core : SpecRes (routesL cs ++ (routesO pc ++ routesO ac)) (c :: s') ps
        ((visitChild cs c (c :: s') ps cap).orElse fun _ =>
          (visitParam pc (c :: s') ps cap).orElse fun _ => visitAny ac (c :: s') ps cap) := by
      apply specRes_orElse _ _ _ _ _ _ (hL c s')
      · apply specRes_orElse _ _ _ _ _ _ (hP c s') hA
        intro kv1 h1 kv2 h2 _ _
        obtain ⟨k1, e1⟩ := hPk kv1 h1
        rw [e1, hAk kv2 h2]
        simp [preferS, rankB]
      · intro kv1 h1 kv2 h2 _ _
        obtain ⟨d, k, e1, hd1, hd2, _⟩ := hLk kv1 h1
        rcases List.mem_append.mp h2 with h2 | h2
        · obtain ⟨k2, e2⟩ := hPk kv2 h2
          rw [e1, e2]
          simp [preferS, rankB, hd1, hd2]
        · rw [e1, hAk kv2 h2]
          simp [preferS, rankB, hd1, hd2]
    cases hs with
    | none =>
      simp only [List.nil_append]
      exact core
    | some h =>
      refine specRes_append_none_left _ _ _ _ _ ?_ core
      intro kv hkv
      simp at hkv
      simp [hkv, matchS]

theorem pnOK_param_cap (n : Node) (j cap : Nat) (hwf : WF n .pkind) (hp : PnOK n j cap) : j + 1 ≤ cap := by
  obtain ⟨kind, label, pfx, cs, ppath, pnames, hs, pc, ac⟩ := n
  simp only [WF] at hwf
  simp only [PnOK] at hp
  obtain ⟨hk, _⟩ := hwf
  subst hk
  simpa [depthAt] using hp.1

mutual
theorem visit_spec : (n : Node) → (pos : Kind) → (j cap : Nat) → WF n pos → PnOK n j cap → (s ps : List _) →
    (pos = .skind → ps.length = j → SpecRes (routes n) s ps (visit n s ps cap)) ∧
    (pos = .pkind → ps.length = j + 1 → SpecRes (routesBody n) s ps (visit n s ps cap))
  | .mk kind label pfx cs ppath pnames hs pc ac, pos, j, cap, hwf, hp, s, ps => by
    simp only [WF] at hwf
    obtain ⟨hk, hl, hpos, hcs, hnd, hpc, hac⟩ := hwf
    simp only [PnOK] at hp
    obtain ⟨hcap, hlen, hpL, hpP, hpA⟩ := hp
    subst hk
    have hbody : ∀ (s' : Bytes) (ps' : List Bytes), ps'.length = depthAt kind j →
        SpecRes (routesBody (.mk kind label pfx cs ppath pnames hs pc ac)) s' ps'
          (bodyRes cs ppath pnames hs pc ac s' ps' cap) := by
      intro s' ps' hlen'
      apply body_spec kind label pfx cs ppath pnames hs pc ac s' ps' cap
        (fun h => by rw [hlen h, hlen']) hcs hpc hac
      · intro c s''
        exact visitChild_spec cs (depthAt kind j) cap hcs hnd hpL c s'' ps' hlen'
      · intro c s''
        exact visitParam_spec pc (depthAt kind j) cap hpc hpP c s'' ps' hlen'
      · exact visitAny_spec ac (depthAt kind j) cap hac hpA s' ps' hlen'
    constructor
    · intro hpos' hj
      subst hpos'
      simp only at hpos
      rw [visit_mk, routes_eq_body]
      simp only [if_true, Node.pfx]
      apply specRes_prefix _ _ _ _ _ hpos.2
      by_cases hpre : pfx.isPrefixOf s = true
      · simp only [hpre, if_true]
        exact hbody _ _ (by simp [depthAt, hj])
      · simp [hpre]
    · intro hpos' hj
      subst hpos'
      rw [visit_mk]
      simp only [reduceCtorEq, if_false]
      exact hbody _ _ (by simp [depthAt, hj])
theorem visitChild_spec : (cs : List Node) → (j cap : Nat) → WFL cs → (cs.map Node.label).Nodup → PnOKL cs j cap →
    (c : UInt8) → (s' : Bytes) → (ps : List Bytes) → ps.length = j →
    SpecRes (routesL cs) (c :: s') ps (visitChild cs c (c :: s') ps cap)
  | [], _, _, _, _, _, _, _, _, _ => Or.inr ⟨by intro kv hkv; simp [routesL] at hkv, by simp [visitChild]⟩
  | n :: r, j, cap, hwf, hnd, hp, c, s', ps, hps => by
    simp only [WFL] at hwf
    simp only [PnOKL] at hp
    simp only [List.map_cons, List.nodup_cons] at hnd
    simp only [routesL, visitChild]
    have hhead := routes_head_static n hwf.1
    by_cases hl : n.label = c
    · rw [if_pos hl]
      apply specRes_append_none_right _ _ _ _ _ ((visit_spec n .skind j cap hwf.1 hp.1 (c :: s') ps).1 rfl hps)
      intro kv hkv
      obtain ⟨d, k, e, hd1, hd2, hmem⟩ := routesL_head r hwf.2 kv hkv
      have hdc : d ≠ c := by
        intro h
        subst h
        rw [← hl] at hmem
        exact hnd.1 hmem
      rw [e, matchS_litCons _ _ _ hd1 hd2]
      simp [hdc]
    · rw [if_neg hl]
      apply specRes_append_none_left _ _ _ _ _ ?_ (visitChild_spec r j cap hwf.2 hnd.2 hp.2 c s' ps hps)
      intro kv hkv
      obtain ⟨k, e⟩ := hhead.2.2 kv hkv
      rw [e, matchS_litCons _ _ _ hhead.1 hhead.2.1]
      simp [hl]
theorem visitParam_spec : (pc : Option Node) → (j cap : Nat) → WFO pc .pkind → PnOKO pc j cap →
    (c : UInt8) → (s' : Bytes) → (ps : List Bytes) → ps.length = j →
    SpecRes (routesO pc) (c :: s') ps (visitParam pc (c :: s') ps cap)
  | none, _, _, _, _, _, _, _, _ => Or.inr ⟨by intro kv hkv; simp [routesO] at hkv, by simp [visitParam]⟩
  | some n, j, cap, hwf, hp, c, s', ps, hps => by
    rw [routesO_param (some n) hwf]
    apply specRes_param
    simp only [WFO] at hwf
    simp only [PnOKO] at hp
    have hc := pnOK_param_cap n j cap hwf hp
    have h1 := (visit_spec n .pkind j cap hwf hp (segRest (c :: s')) (ps ++ [segValue (c :: s')])).2 rfl
      (by simp [hps])
    simp only [visitParam]
    rw [if_neg (by omega)]
    exact h1
end

end Hertz.Route
