import Hertz.Model.UriOps
import Hertz.Proofs.UriRt
import Hertz.Proofs.ArgsProg
/-!
Programs over one `URI` object (`Model/UriOps.lean`):

* `state_parse_fullURI`: the round trip of `Proofs/UriRt.lean` for ANY record whose scheme and host are lower-case and whose
  path is a normalised path - in particular for every state reachable through `Parse`, the setters, `QueryArgs()` mutations
  and `Update` (`run_inv`); the host may be empty.
* `run_never_panics`: `Update` never panics.
* `program_roundtrip`: for every program, if the final state is well-formed (`wfState`: scheme syntax, host bytes, no control
  byte in the fragment, a raw query string free of `#` and control bytes), `Parse(nil, FullURI())` yields the same scheme,
  host, path and fragment, NO user-info, the query arguments `QueryArgs()` reports - in EVERY state, the two former
  stale-query situations (`UState.staleQuery`) included, since `RequestURI()` chooses by `parsedQueryArgs` (/repo 97b0e80) -
  and formatting again gives the same text.
-/
namespace Hertz.Uri
open Hertz Hertz.Gen.Str

/-! ### invariant of reachable records -/

structure URIInv (u : URI) : Prop where
  schemeLower : u.scheme.map toLower = u.scheme
  hostLower : u.host.map toLower = u.host
  pathNorm : ∃ p, u.pathOrSlash = normalizePath p

theorem pathOrSlash_normalize (u : URI) (p : Bytes) (h : u.path = normalizePath p) : u.pathOrSlash = normalizePath p := by
  have hh := (normalizePath_contained p).1
  unfold URI.pathOrSlash
  rw [h]
  cases hp : normalizePath p with
  | nil => rw [hp] at hh; simp at hh
  | cons c t => rfl

set_option maxRecDepth 100000 in
theorem normalizePath_nil : normalizePath [] = strSlash := by decide +kernel

theorem inv_empty : URIInv {} :=
  ⟨rfl, rfl, ⟨[], by rw [normalizePath_nil]; rfl⟩⟩

theorem parseTail_inv (base : URI) (uri : Bytes) (hs : base.scheme.map toLower = base.scheme)
    (hh : base.host.map toLower = base.host) : URIInv (parseTail base uri) := by
  unfold parseTail
  simp only
  split <;> exact ⟨hs, hh, ⟨_, pathOrSlash_normalize _ _ rfl⟩⟩

theorem map_toLower_nil : ([] : Bytes).map toLower = [] := rfl

theorem parse_inv (host uri : Bytes) : URIInv (parse host uri) := by
  rw [parse_eq]
  split
  · exact inv_empty
  · apply parseTail_inv
    · show (if host.isEmpty || containsSub strColonSlashSlash uri then _ else _ : Bytes × Bytes × Bytes).1.map toLower = _
      split
      · exact map_toLower_idem _
      · rfl
    · exact map_toLower_idem _

/-! ### the general round trip -/

/-- scheme syntax and host bytes of a state that `FullURI` → `Parse` can carry; the host may be empty -/
def wfRecord (u : URI) : Bool := wfScheme u.scheme && u.host.all hostChar && !hasCTL u.hash

theorem fullURI_userinfo (u : URI) (qa : List ArgKV) (a b : Bytes) :
    ({ u with username := a, password := b } : URI).fullURI qa = u.fullURI qa := rfl

theorem schemeOrHTTP_of_inv (u : URI) (hl : u.scheme.map toLower = u.scheme) (hw : wfScheme u.scheme = true) :
    u.schemeOrHTTP.all schemeChar = true ∧ (u.schemeOrHTTP.head?.map isAlpha).getD false = true ∧
      u.schemeOrHTTP.map toLower = u.schemeOrHTTP := by
  have := schemeOrHTTP_wf u.scheme hw
  simp only [hl] at this
  exact this

theorem state_parse_fullURI (u : URI) (qa : List ArgKV) (inv : URIInv u) (hwf : wfRecord u = true)
    (hq35 : ∀ s, queryPart u qa = some s → ∀ x ∈ s, x ≠ 35)
    (hqctl : ∀ s, queryPart u qa = some s → hasCTL s = false) :
    parse [] (u.fullURI qa) =
      { scheme := u.schemeOrHTTP, host := u.host, pathOriginal := quotePath u.pathOrSlash, path := u.pathOrSlash,
        query := (queryPart u qa).getD [], hash := u.hash } := by
  simp only [wfRecord, Bool.and_eq_true, Bool.not_eq_true'] at hwf
  obtain ⟨⟨hws, hwh⟩, hwc⟩ := hwf
  obtain ⟨hs1, hs2, hs3⟩ := schemeOrHTTP_of_inv u inv.schemeLower hws
  obtain ⟨p, hp⟩ := inv.pathNorm
  have hP := (normalizePath_contained p).1
  obtain ⟨hqe, hq0⟩ := quotePath_slash _ hP
  have hqsafe : ∀ x ∈ quotePath (normalizePath p), uriSafe x = true := by
    rw [hqe]; exact quotePathBody_uriSafe _
  rw [fullURI_eq, hp]
  generalize queryPart u qa = q at hq35 hqctl
  generalize u.schemeOrHTTP = sch at hs1 hs2 hs3
  have e := parse_assembled sch u.host (quotePath (normalizePath p)) q u.hash hs1 hs2 hwh hq0
    (fun x hx => by have := hqsafe x hx; simp [uriSafe] at this; exact this.1.1)
    (fun x hx => by have := hqsafe x hx; simp [uriSafe] at this; exact this.1.2)
    hq35
    (by
      rw [hasCTL_append, hasCTL_append, hasCTL_append]
      have c1 := hasCTL_of_all schemeChar (fun c => (class_noctl c).1) sch (by simpa [List.all_eq_true] using hs1)
      have c2 : hasCTL strColonSlashSlash = false := by decide
      have c3 := hasCTL_of_all hostChar (fun c => (class_noctl c).2.1) _ (by simpa [List.all_eq_true] using hwh)
      rw [c1, c2, c3]
      unfold tailOf
      rw [hasCTL_append, hasCTL_append,
        hasCTL_of_all uriSafe (fun c => (class_noctl c).2.2) _ hqsafe]
      rw [hasCTL_queryText q hqctl]
      show (false || false || false || (false || false || hasCTL (if u.hash.isEmpty then [] else 35 :: u.hash))) = false
      cases hh : u.hash with
      | nil => rfl
      | cons c t =>
        simp only [List.isEmpty_cons, Bool.false_eq_true, if_false, Bool.false_or]
        have : hasCTL (35 :: c :: t) = hasCTL (c :: t) := by simp [hasCTL]
        rw [this, ← hh, hwc])
  rw [e]
  unfold tailParsed
  simp only [hs3, normalizePath_quotePath_normalizePath, inv.hostLower]


/-! ### reachable states -/

def ArgsInv2 (l : List ArgKV) : Prop := ∀ kv ∈ l, kv.noValue = true → kv.value = [] ∧ kv.key ≠ []

theorem parseArgs_inv2 (b : Bytes) : ArgsInv2 (parseArgs b) := by
  intro kv hkv hnv
  have hv := parseArgs_wf b kv hkv hnv
  refine ⟨hv, ?_⟩
  unfold parseArgs at hkv
  rw [List.mem_filter] at hkv
  have hb := hkv.2
  intro hk
  simp [ArgKV.bothEmpty, hk, hv] at hb

theorem setArg_inv2 (l : List ArgKV) (k v : Bytes) (h : ArgsInv2 l) : ArgsInv2 (setArg l k v) := by
  induction l with
  | nil =>
    intro kv hkv hnv
    simp only [setArg, List.mem_singleton] at hkv
    subst hkv
    cases hnv
  | cons a t ih =>
    unfold setArg
    split
    · intro kv hkv hnv
      rcases List.mem_cons.mp hkv with e | e
      · subst e; cases hnv
      · exact h kv (by simp [e]) hnv
    · intro kv hkv hnv
      rcases List.mem_cons.mp hkv with e | e
      · subst e; exact h _ (by simp) hnv
      · exact ih (fun x hx => h x (by simp [hx])) kv e hnv

theorem argStep_inv2 (l : List ArgKV) (op : ArgOp) (h : ArgsInv2 l) : ArgsInv2 (argStep l op) := by
  cases op with
  | add k v =>
    intro kv hkv hnv
    simp only [argStep, List.mem_append, List.mem_singleton] at hkv
    rcases hkv with e | e
    · exact h kv e hnv
    · subst e; cases hnv
  | set k v => exact setArg_inv2 l k v h
  | del k =>
    intro kv hkv hnv
    simp only [argStep, delArgs, List.mem_filter] at hkv
    exact h kv hkv.1 hnv
  | parse b => exact parseArgs_inv2 b
  | reset => intro kv hkv; cases hkv

structure StInv (st : UState) : Prop where
  uinv : URIInv st.u
  ainv : ArgsInv2 st.args

theorem inv2_nil : ArgsInv2 [] := fun kv hkv => by cases hkv

theorem stinv_empty : StInv {} := ⟨inv_empty, inv2_nil⟩

theorem stinv_ofParse (host uri : Bytes) : StInv (UState.ofParse host uri) := ⟨parse_inv host uri, inv2_nil⟩

theorem parseQA_inv (st : UState) (h : StInv st) : StInv st.parseQA := by
  unfold UState.parseQA
  split
  · exact h
  · exact ⟨h.uinv, parseArgs_inv2 _⟩

theorem indexOf_isSome_of_mem (c : UInt8) : ∀ (l : Bytes), c ∈ l → ∃ n, indexOf c l = some n := by
  intro l
  induction l with
  | nil => intro h; cases h
  | cons x t ih =>
    intro h
    unfold indexOf
    by_cases hx : x = c
    · exact ⟨0, by simp [hx]⟩
    · rcases List.mem_cons.mp h with e | e
      · exact absurd e.symm hx
      · obtain ⟨n, hn⟩ := ih e
        exact ⟨n + 1, by simp [hx, hn]⟩

theorem lastIndexOf_isSome (u : URI) (h : URIInv u) : ∃ n, lastIndexOf 47 u.pathOrSlash = some n := by
  obtain ⟨p, hp⟩ := h.pathNorm
  have hh := (normalizePath_contained p).1
  have hm : (47 : UInt8) ∈ u.pathOrSlash.reverse := by
    rw [hp, List.mem_reverse]
    exact List.mem_of_head? hh
  obtain ⟨n, hn⟩ := indexOf_isSome_of_mem 47 _ hm
  exact ⟨_, by unfold lastIndexOf; rw [hn]; rfl⟩

theorem keepScheme_inv (p : URI) (s : Bytes) (c : Bool) (hp : URIInv p) (hs : s.map toLower = s) :
    URIInv (if c then { p with scheme := s } else p) := by
  cases c with
  | true => exact ⟨hs, hp.hostLower, hp.pathNorm⟩
  | false => exact hp

/-- `Update` never panics on a reachable state, and the state it yields is reachable-shaped again -/
theorem update_inv (st : UState) (b : Bytes) (h : StInv st) : ∃ st', st.update b = some st' ∧ StInv st' := by
  unfold UState.update
  cases b with
  | nil => exact ⟨st, rfl, h⟩
  | cons c0 t =>
    simp only
    split
    · exact ⟨_, rfl, keepScheme_inv _ _ _ (parse_inv _ _) h.uinv.schemeLower, inv2_nil⟩
    · split
      · exact ⟨_, rfl, stinv_ofParse _ _⟩
      · split
        · exact ⟨_, rfl, ⟨h.uinv.schemeLower, h.uinv.hostLower, h.uinv.pathNorm⟩, h.ainv⟩
        · split
          · exact ⟨_, rfl, ⟨h.uinv.schemeLower, h.uinv.hostLower, h.uinv.pathNorm⟩, h.ainv⟩
          · obtain ⟨n, hn⟩ := lastIndexOf_isSome st.u h.uinv
            rw [hn]
            exact ⟨_, rfl, stinv_ofParse _ _⟩

theorem step_inv (st : UState) (op : UriOp) (h : StInv st) : ∃ st', st.step op = some st' ∧ StInv st' := by
  cases op with
  | parse host uri => exact ⟨_, rfl, stinv_ofParse host uri⟩
  | setScheme b => exact ⟨_, rfl, ⟨map_toLower_idem b, h.uinv.hostLower, h.uinv.pathNorm⟩, h.ainv⟩
  | setHost b => exact ⟨_, rfl, ⟨h.uinv.schemeLower, map_toLower_idem b, h.uinv.pathNorm⟩, h.ainv⟩
  | setPath b => exact ⟨_, rfl, ⟨h.uinv.schemeLower, h.uinv.hostLower, ⟨b, pathOrSlash_normalize _ _ rfl⟩⟩, h.ainv⟩
  | setHash b => exact ⟨_, rfl, ⟨h.uinv.schemeLower, h.uinv.hostLower, h.uinv.pathNorm⟩, h.ainv⟩
  | setQueryString b => exact ⟨_, rfl, ⟨h.uinv.schemeLower, h.uinv.hostLower, h.uinv.pathNorm⟩, h.ainv⟩
  | setUsername b => exact ⟨_, rfl, ⟨h.uinv.schemeLower, h.uinv.hostLower, h.uinv.pathNorm⟩, h.ainv⟩
  | setPassword b => exact ⟨_, rfl, ⟨h.uinv.schemeLower, h.uinv.hostLower, h.uinv.pathNorm⟩, h.ainv⟩
  | args op =>
    have hq := parseQA_inv st h
    exact ⟨_, rfl, hq.uinv, argStep_inv2 _ op hq.ainv⟩
  | update b => exact update_inv st b h
  | reset => exact ⟨_, rfl, stinv_empty⟩

theorem foldlM_inv (ops : List UriOp) : ∀ st, StInv st → ∃ st', ops.foldlM UState.step st = some st' ∧ StInv st' := by
  induction ops with
  | nil => intro st h; exact ⟨st, rfl, h⟩
  | cons o r ih =>
    intro st h
    obtain ⟨st1, e1, h1⟩ := step_inv st o h
    obtain ⟨st2, e2, h2⟩ := ih st1 h1
    exact ⟨st2, by simp only [List.foldlM_cons, e1, Option.bind_eq_bind, Option.bind_some, e2], h2⟩

/-- no program panics (`Update`'s "BUG: path must contain at least one slash" is unreachable) -/
theorem run_never_panics (ops : List UriOp) : ∃ st, runUriOps ops = some st ∧ StInv st :=
  foldlM_inv ops {} stinv_empty

theorem run_inv (ops : List UriOp) (st : UState) (h : runUriOps ops = some st) : StInv st := by
  obtain ⟨st', e, hi⟩ := run_never_panics ops
  rw [h] at e
  injection e with e
  rw [e]; exact hi


/-! ### the round trip of a reachable state -/

/-- when the raw query string is written (the arguments were not looked at since it was set), it must be free of `#` and
control bytes -/
def rawQueryOK (st : UState) : Bool := st.parsed || (!hasCTL st.u.query && !st.u.query.contains 35)

def wfState (st : UState) : Bool := wfRecord st.u && rawQueryOK st

theorem quoteArg_ne_nil (b : Bytes) (h : b ≠ []) : quoteArg b ≠ [] := by
  cases b with
  | nil => exact absurd rfl h
  | cons c t =>
    unfold quoteArg
    split
    · simp
    · split <;> simp [pctEnc]

theorem appendArg_ne_nil (kv : ArgKV) (h : kv.noValue = true → kv.value = [] ∧ kv.key ≠ []) : appendArg kv ≠ [] := by
  unfold appendArg
  cases hnv : kv.noValue with
  | true =>
    simp only [if_true, List.append_nil]
    exact quoteArg_ne_nil _ (h hnv).2
  | false => simp

theorem appendArgs_ne_nil (l : List ArgKV) (hl : l ≠ []) (h : ArgsInv2 l) : appendArgs l ≠ [] := by
  match l, hl with
  | [kv], _ => exact appendArg_ne_nil kv (h kv (by simp))
  | kv :: kv2 :: t, _ =>
    unfold appendArgs
    simp

theorem schemeOrHTTP_ne_nil (u : URI) : u.schemeOrHTTP ≠ [] := by
  unfold URI.schemeOrHTTP
  cases h : u.scheme with
  | nil => simp [strHTTP]
  | cons c t => simp

theorem inv2_to_inv (l : List ArgKV) (h : ArgsInv2 l) : ∀ kv ∈ l, kv.noValue = true → kv.value = [] :=
  fun kv hkv hnv => (h kv hkv hnv).1

theorem parseArgs_noBothEmpty (b : Bytes) :
    (parseArgs b).filter (fun kv => !kv.bothEmpty) = parseArgs b := by
  unfold parseArgs
  rw [List.filter_filter]
  congr 1
  funext kv
  simp

/-! `RequestURI()` with the flag (`URI.fullURIp`) in terms of the flag-less `URI.fullURI` of `Proofs/UriRt.lean`: with the flag
set it is the text of the same record WITHOUT its query string, written with the argument list; with the flag clear it is the
text of the record written with no argument list. -/

theorem fullURIp_true (u : URI) (qa : List ArgKV) : u.fullURIp true qa = ({ u with query := [] } : URI).fullURI qa := by
  unfold URI.fullURIp URI.fullURI URI.requestURIp URI.requestURI
  cases qa <;> rfl

theorem fullURIp_false (u : URI) (qa : List ArgKV) : u.fullURIp false qa = u.fullURI [] := rfl

/-- on the domain of the flag-less function the two agree -/
theorem requestURIp_true_cons (u : URI) (kv : ArgKV) (t : List ArgKV) : u.requestURIp true (kv :: t) = u.requestURI (kv :: t) := rfl
theorem requestURIp_false (u : URI) (qa : List ArgKV) : u.requestURIp false qa = u.requestURI [] := rfl

/-- The round trip of a record with the invariant of reachable records, written with the argument list `qa` (flag-less form:
the list if it is non-empty, else the raw query string, which then must be free of `#` and control bytes). -/
theorem record_roundtrip (u : URI) (qa : List ArgKV) (uinv : URIInv u) (ainv : ArgsInv2 qa) (hrec : wfRecord u = true)
    (hraw : (!qa.isEmpty || (!hasCTL u.query && !u.query.contains 35)) = true) :
    (parse [] (u.fullURI qa)).schemeOrHTTP = u.schemeOrHTTP ∧
    (parse [] (u.fullURI qa)).host = u.host ∧
    (parse [] (u.fullURI qa)).pathOrSlash = u.pathOrSlash ∧
    (parse [] (u.fullURI qa)).hash = u.hash ∧
    (parse [] (u.fullURI qa)).username = [] ∧ (parse [] (u.fullURI qa)).password = [] ∧
    (parse [] (u.fullURI qa)).query = (queryPart u qa).getD [] ∧
    (parse [] (u.fullURI qa)).fullURI [] = u.fullURI qa := by
  have hqp : queryPart u qa =
      if !qa.isEmpty then some (appendArgs qa) else if !u.query.isEmpty then some u.query else none := rfl
  have hq35 : ∀ s, queryPart u qa = some s → ∀ x ∈ s, x ≠ 35 := by
    intro s hs x hx
    rw [hqp] at hs
    cases ha : qa.isEmpty with
    | false =>
      simp only [ha, Bool.not_false, if_true, Option.some.injEq] at hs
      subst hs
      have := appendArgs_uriSafe _ x hx; simp [uriSafe] at this; exact this.1.2
    | true =>
      simp only [ha, Bool.not_true, Bool.false_eq_true, if_false] at hs
      simp only [ha, Bool.not_true, Bool.false_or, Bool.and_eq_true, Bool.not_eq_true'] at hraw
      split at hs
      · injection hs with hs; subst hs
        exact not_contains _ _ hraw.2 x hx
      · cases hs
  have hqctl : ∀ s, queryPart u qa = some s → hasCTL s = false := by
    intro s hs
    rw [hqp] at hs
    cases ha : qa.isEmpty with
    | false =>
      simp only [ha, Bool.not_false, if_true, Option.some.injEq] at hs
      subst hs
      exact hasCTL_of_all uriSafe (fun c => (class_noctl c).2.2) _ (appendArgs_uriSafe _)
    | true =>
      simp only [ha, Bool.not_true, Bool.false_eq_true, if_false] at hs
      simp only [ha, Bool.not_true, Bool.false_or, Bool.and_eq_true, Bool.not_eq_true'] at hraw
      split at hs
      · injection hs with hs; subst hs
        exact hraw.1
      · cases hs
  have e := state_parse_fullURI u qa uinv hrec hq35 hqctl
  obtain ⟨p, hp⟩ := uinv.pathNorm
  have hpne : u.pathOrSlash ≠ [] := by
    have hh := (normalizePath_contained p).1
    rw [hp]
    intro h0; rw [h0] at hh; simp at hh
  have hsne := schemeOrHTTP_ne_nil u
  have c1 : (parse [] (u.fullURI qa)).schemeOrHTTP = u.schemeOrHTTP := by
    rw [e]
    unfold URI.schemeOrHTTP
    simp only
    cases hh : (if u.scheme.isEmpty then strHTTP else u.scheme) with
    | nil => exact absurd hh hsne
    | cons c t => rfl
  have c3 : (parse [] (u.fullURI qa)).pathOrSlash = u.pathOrSlash := by
    rw [e]
    show (if u.pathOrSlash.isEmpty then strSlash else u.pathOrSlash) = u.pathOrSlash
    cases hh : u.pathOrSlash with
    | nil => exact absurd hh hpne
    | cons c t => rfl
  refine ⟨c1, by rw [e], c3, by rw [e], by rw [e], by rw [e], by rw [e], ?_⟩
  -- formatting again
  generalize hR : parse [] (u.fullURI qa) = R at e c1 c3 ⊢
  have lhs : R.fullURI [] = R.schemeOrHTTP ++ strColonSlashSlash ++ R.host ++
      (quotePath R.pathOrSlash ++ (if !R.query.isEmpty then 63 :: R.query else [])) ++
      (if R.hash.isEmpty then [] else 35 :: R.hash) := by
    simp [URI.fullURI, URI.requestURI]
  have rhs : u.fullURI qa = u.schemeOrHTTP ++ strColonSlashSlash ++ u.host ++
      (quotePath u.pathOrSlash ++ (if !qa.isEmpty then 63 :: appendArgs qa
        else if !u.query.isEmpty then 63 :: u.query else [])) ++
      (if u.hash.isEmpty then [] else 35 :: u.hash) := rfl
  rw [lhs, rhs, c1, c3, e]
  simp only
  congr 2
  congr 1
  rw [hqp]
  cases ha : qa.isEmpty with
  | false =>
    have hne : qa ≠ [] := by intro h0; rw [h0] at ha; cases ha
    have := appendArgs_ne_nil _ hne ainv
    cases hh : appendArgs qa with
    | nil => exact absurd hh this
    | cons c t => simp
  | true =>
    cases hq : u.query.isEmpty with
    | true => simp
    | false => simp [hq]

/-- The round trip of any state with the invariant of reachable states - the query conjunct in EVERY state: the text is
written from the argument list exactly when `QueryArgs()` reports that list (flag set), and from the raw query string exactly
when `QueryArgs()` would parse that string (flag clear). -/
theorem state_roundtrip (st : UState) (inv : StInv st) (hwf : wfState st = true) :
    (UState.ofParse [] st.fullURI).u.schemeOrHTTP = st.u.schemeOrHTTP ∧
    (UState.ofParse [] st.fullURI).u.host = st.u.host ∧
    (UState.ofParse [] st.fullURI).u.pathOrSlash = st.u.pathOrSlash ∧
    (UState.ofParse [] st.fullURI).u.hash = st.u.hash ∧
    (UState.ofParse [] st.fullURI).u.username = [] ∧ (UState.ofParse [] st.fullURI).u.password = [] ∧
    (UState.ofParse [] st.fullURI).queryView = st.queryView.filter (fun kv => !kv.bothEmpty) ∧
    (UState.ofParse [] st.fullURI).fullURI = st.fullURI := by
  simp only [wfState, Bool.and_eq_true] at hwf
  obtain ⟨hrec, hraw⟩ := hwf
  have hfix : ∀ t, (UState.ofParse [] t).fullURI = (parse [] t).fullURI [] := fun _ => rfl
  have hview : ∀ t, (UState.ofParse [] t).queryView = parseArgs (parse [] t).query := fun _ => rfl
  have hu : ∀ t, (UState.ofParse [] t).u = parse [] t := fun _ => rfl
  cases hpd : st.parsed with
  | true =>
    -- the arguments are the query; `queryString` is not written
    have hf : st.fullURI = ({ st.u with query := [] } : URI).fullURI st.args := by
      unfold UState.fullURI; rw [hpd]; exact fullURIp_true _ _
    have uinv' : URIInv ({ st.u with query := [] } : URI) := ⟨inv.uinv.schemeLower, inv.uinv.hostLower, inv.uinv.pathNorm⟩
    obtain ⟨c1, c2, c3, c4, c5, c6, c7, c8⟩ :=
      record_roundtrip ({ st.u with query := [] } : URI) st.args uinv' inv.ainv hrec (by simp [hasCTL])
    rw [hfix, hview, hu, hf]
    refine ⟨c1, c2, c3, c4, c5, c6, ?_, c8⟩
    rw [c7]
    have hqv : st.queryView = st.args := by unfold UState.queryView UState.parseQA; rw [hpd]; rfl
    rw [hqv]
    cases ha : st.args with
    | nil => rfl
    | cons kv t =>
      show parseArgs (appendArgs (kv :: t)) = _
      rw [← ha]
      exact parseArgs_appendArgs _ (inv2_to_inv _ inv.ainv)
  | false =>
    -- the raw query string is the query; the entries left in `queryArgs` are not written
    have hf : st.fullURI = st.u.fullURI [] := by
      unfold UState.fullURI; rw [hpd]; rfl
    have hraw' : (!([] : List ArgKV).isEmpty || (!hasCTL st.u.query && !st.u.query.contains 35)) = true := by
      simpa [rawQueryOK, hpd] using hraw
    obtain ⟨c1, c2, c3, c4, c5, c6, c7, c8⟩ := record_roundtrip st.u [] inv.uinv inv2_nil hrec hraw'
    rw [hfix, hview, hu, hf]
    refine ⟨c1, c2, c3, c4, c5, c6, ?_, c8⟩
    rw [c7]
    have hqv : st.queryView = parseArgs st.u.query := by unfold UState.queryView UState.parseQA; rw [hpd]; rfl
    rw [hqv, parseArgs_noBothEmpty]
    show parseArgs ((if !st.u.query.isEmpty then some st.u.query else none).getD []) = _
    cases hq : st.u.query with
    | nil => rfl
    | cons c t => rfl

/-- `program_roundtrip`: the same for the final state of any program. -/
theorem program_roundtrip (ops : List UriOp) (st : UState) (hrun : runUriOps ops = some st) (hwf : wfState st = true) :
    (UState.ofParse [] st.fullURI).u.schemeOrHTTP = st.u.schemeOrHTTP ∧
    (UState.ofParse [] st.fullURI).u.host = st.u.host ∧
    (UState.ofParse [] st.fullURI).u.pathOrSlash = st.u.pathOrSlash ∧
    (UState.ofParse [] st.fullURI).u.hash = st.u.hash ∧
    (UState.ofParse [] st.fullURI).u.username = [] ∧ (UState.ofParse [] st.fullURI).u.password = [] ∧
    (UState.ofParse [] st.fullURI).queryView = st.queryView.filter (fun kv => !kv.bothEmpty) ∧
    (UState.ofParse [] st.fullURI).fullURI = st.fullURI :=
  state_roundtrip st (run_inv ops st hrun) hwf

/-- in ANY state reached by a program whose last step is `SetQueryString(q)` with `q` free of `#` and control bytes - whatever
was done through `QueryArgs()` before - the re-parsed URI reports the arguments of `q` -/
theorem setQueryString_wins (ops : List UriOp) (q : Bytes) (st : UState)
    (hrun : runUriOps (ops ++ [.setQueryString q]) = some st) (hrec : wfRecord st.u = true)
    (hq : hasCTL q = false ∧ q.contains 35 = false) :
    (UState.ofParse [] st.fullURI).queryView = parseArgs q := by
  obtain ⟨st0, h0, _⟩ := run_never_panics ops
  have hst : st = { st0 with u := { st0.u with query := q }, parsed := false } := by
    unfold runUriOps at hrun h0
    rw [List.foldlM_append, h0] at hrun
    simpa [UState.step] using hrun.symm
  have hwf : wfState st = true := by
    simp only [wfState, hrec, Bool.true_and]
    rw [hst]
    simp only [rawQueryOK, hq.1, hq.2, Bool.false_or, Bool.not_false, Bool.and_self]
  have h := (program_roundtrip _ st hrun hwf).2.2.2.2.2.2.1
  rw [h, hst]
  exact parseArgs_noBothEmpty q

end Hertz.Uri
