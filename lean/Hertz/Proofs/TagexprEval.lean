import Hertz.Model.Tagexpr
/-!
Where evaluation (`evalTree`, the `Run` methods of `spec_operator.go`) can panic (C20).

`Safe P m`: if the computation `m` ends in a Go panic, the panic site satisfies `P`.  The operator
nodes themselves never panic; the only site is the method call on a nil operand (`nil.Run`).
-/
namespace Hertz.Tagexpr

structure Safe {α : Type} (P : String → Prop) (m : EvalM α) : Prop where
  h : ∀ s, m = .error (.fault (.panic s)) → P s

section
variable {P : String → Prop}

theorem Safe.ok {α : Type} (a : α) : Safe P (Except.ok a : EvalM α) := ⟨by intro s h; cases h⟩
theorem Safe.pure {α : Type} (a : α) : Safe P (pure a : EvalM α) := Safe.ok a
theorem Safe.unsupported {α : Type} (w : String) : Safe P (throw (.unsupported w) : EvalM α) :=
  ⟨by intro s h; cases h⟩
theorem Safe.errUnsupported {α : Type} (w : String) : Safe P (Except.error (.unsupported w) : EvalM α) :=
  ⟨by intro s h; cases h⟩
theorem Safe.fault {α : Type} {s : String} (h : P s) : Safe P (throw (.fault (.panic s)) : EvalM α) :=
  ⟨by intro s' h'; cases h'; exact h⟩

theorem Safe.bind {α β : Type} {m : EvalM α} {f : α → EvalM β} (hm : Safe P m) (hf : ∀ a, Safe P (f a)) :
    Safe P (m >>= f) := by
  constructor
  intro s h
  cases m with
  | error e => exact hm.h s (by simpa [Bind.bind, Except.bind] using h)
  | ok a => exact (hf a).h s (by simpa [Bind.bind, Except.bind] using h)

theorem coerceF_safe (c : Coerce Float) (d : Float) : Safe P (coerceF c d) := by
  cases c <;> simp [coerceF] <;> first | exact Safe.pure _ | exact Safe.unsupported _
theorem coerceS_safe (c : Coerce String) : Safe P (coerceS c) := by
  cases c <;> simp [coerceS] <;> first | exact Safe.pure _ | exact Safe.unsupported _
theorem numOr0_safe (c : Coerce Float) : Safe P (numOr0 c) := by
  cases c <;> simp [numOr0] <;> first | exact Safe.pure _ | exact Safe.unsupported _
macro "safe_auto_step" : tactic => `(tactic| first
  | exact Safe.pure _ | exact Safe.ok _ | exact Safe.unsupported _ | exact Safe.errUnsupported _
  | exact coerceF_safe _ _ | exact coerceS_safe _ | exact numOr0_safe _
  | assumption
  | apply Safe.bind
  | intro _
  | split)

macro "safe_auto" : tactic => `(tactic| repeat safe_auto_step)

theorem opEq_safe (a b : Val) : Safe P (opEq a b) := by
  unfold opEq
  safe_auto

theorem opCmp_safe (f : Float → Float → Bool) (g : String → String → Bool) (a b : Val) :
    Safe P (opCmp f g a b) := by
  unfold opCmp
  safe_auto

macro "safe_auto2" : tactic => `(tactic| repeat (first
  | exact opEq_safe _ _ | exact opCmp_safe _ _ _ _ | safe_auto_step))

/-- every operand node of the tree has a `Run` that panics only at sites in `P` -/
def LeavesSafe (P : String → Prop) (env : Env) : Node → Prop
  | .nil => True
  | .leaf o => Safe P (o.run env)
  | .node _ l r => LeavesSafe P env l ∧ LeavesSafe P env r

/-- no operator has a nil operand -/
def NoNilOperand : Node → Prop
  | .node _ l r => l.isNil = false ∧ r.isNil = false ∧ NoNilOperand l ∧ NoNilOperand r
  | _ => True

theorem evalTree_safe (hn : P "nil.Run") (env : Env) :
    ∀ t : Node, LeavesSafe P env t → Safe P (evalTree env t)
  | .nil, _ => by unfold evalTree; exact Safe.fault hn
  | .leaf o, h => by unfold evalTree; exact h
  | .node op l r, h => by
    have hl := evalTree_safe hn env l h.1
    have hr' := evalTree_safe hn env r h.2
    cases op <;> (unfold evalTree; simp only []; safe_auto2)

/-- the same without the nil site when no operator lacks an operand -/
theorem evalTree_safe_noNil (env : Env) :
    ∀ t : Node, t.isNil = false → NoNilOperand t → LeavesSafe P env t → Safe P (evalTree env t) := by
  intro t hne hnn hl
  induction t with
  | nil => simp [Tree.isNil] at hne
  | leaf o => unfold evalTree; exact hl
  | node op l r ihl ihr =>
    have hl' := ihl hnn.1 hnn.2.2.1 hl.1
    have hr' := ihr hnn.2.1 hnn.2.2.2 hl.2
    cases op <;> (unfold evalTree; simp only []; safe_auto2)

/-! ### the operand nodes the parser builds -/

/-- a tree that can be evaluated without reaching a nil operand -/
def WellFormed (P : String → Prop) (env : Env) (t : Node) : Prop :=
  t.isNil = false ∧ NoNilOperand t ∧ LeavesSafe P env t

theorem constNode_safe (env : Env) (sh : String) (v : Val) : Safe P ((constNode sh v).run env) := Safe.pure _

theorem selectorNode_safe (env : Env) (f : String) (bo so : Option Bool) :
    Safe P ((selectorNode f bo so).run env) := Safe.pure _

/-- `groupExprNode.Run`: an empty group is nil, otherwise the value of the sub-expression -/
theorem groupNode_safe (env : Env) (t : Node) (bo so : Option Bool)
    (h : t.isNil = true ∨ WellFormed P env t) : Safe P ((groupNode t bo so).run env) := by
  show Safe P (groupRun t bo so env)
  cases t with
  | nil => exact Safe.pure _
  | leaf o =>
    rcases h with h | h
    · simp [Tree.isNil] at h
    · unfold groupRun
      exact Safe.bind (evalTree_safe_noNil env _ h.1 h.2.1 h.2.2) (fun _ => Safe.pure _)
  | node op l r =>
    rcases h with h | h
    · simp [Tree.isNil] at h
    · unfold groupRun
      exact Safe.bind (evalTree_safe_noNil env _ h.1 h.2.1 h.2.2) (fun _ => Safe.pure _)

theorem mapM_safe (env : Env) : ∀ (args : List Operand), (∀ a ∈ args, Safe P (a.run env)) →
    Safe P (args.mapM (fun a => a.run env))
  | [], _ => by simp only [List.mapM_nil]; exact Safe.pure _
  | a :: t, h => by
    simp only [List.mapM_cons]
    refine Safe.bind (h a (by simp)) (fun _ => Safe.bind (mapM_safe env t (fun b hb => h b (by simp [hb]))) (fun _ => Safe.pure _))

/-- `funcExprNode.Run` for `len` and `in`: the built-in functions return a value for every argument list -/
theorem funcNode_safe (env : Env) (name : String) (args : List Operand) (bo so : Option Bool)
    (h : ∀ a ∈ args, Safe P (a.run env)) : Safe P ((funcNode name args bo so).run env) := by
  show Safe P (do
      let vs ← args.mapM (fun a => a.run env)
      let r := applyFn name vs
      return realValue r bo so)
  exact Safe.bind (mapM_safe env args h) (fun _ => Safe.pure _)

/-- `regexpFuncExprNode.Run` -/
theorem regexpNode_safe (env : Env) (re : Rx) (neg : Bool) (arg : Operand) (h : Safe P (arg.run env)) :
    Safe P ((regexpNode re neg arg).run env) := by
  show Safe P (arg.run env >>= fun v => _)
  refine Safe.bind h (fun v => ?_)
  cases v <;> exact Safe.pure _

end
end Hertz.Tagexpr
