import Hertz.Proofs.Resp
import Hertz.Spec.Http
import Hertz.Proofs.SpecHex
import Hertz.Proofs.Dec
import Hertz.Proofs.HeaderWrite
namespace Hertz.ReqDecodes
open Hertz Hertz.Gen.Str Hertz.Spec.Http

/-! ### 1. lines, separators, optional white space -/

theorem crlfLine_append : ∀ (l rest : Bytes), (∀ x ∈ l, x ≠ 13 ∧ x ≠ 10) →
    crlfLine (l ++ 13 :: 10 :: rest) = some (l, rest)
  | [], rest, _ => by simp [crlfLine]
  | [c], rest, h => by
    have hc := h c (by simp)
    simp [crlfLine, hc.1, hc.2]
  | c :: d :: t, rest, h => by
    have hc := h c (by simp)
    have ih := crlfLine_append (d :: t) rest (fun x hx => h x (by simp [hx]))
    simp only [List.cons_append] at ih ⊢
    simp [crlfLine, hc.1, hc.2, ih]

theorem splitAt1_append (c : UInt8) : ∀ (a b : Bytes), (∀ x ∈ a, x ≠ c) →
    splitAt1 c (a ++ c :: b) = some (a, b)
  | [], b, _ => by simp [splitAt1]
  | x :: t, b, h => by
    have hx := h x (by simp)
    have ih := splitAt1_append c t b (fun y hy => h y (by simp [hy]))
    simp [splitAt1, hx, ih]

def blank (c : UInt8) : Bool := c == 32 || c == 9

/-- a value with no optional white space at either end -/
def trimmed (v : Bytes) : Bool := trimOWS v == v

theorem trimOWS_space (v : Bytes) : trimOWS (32 :: v) = trimOWS v := by
  simp [trimOWS, List.dropWhile]

theorem trimOWS_of_trimmed (v : Bytes) (h : trimmed v = true) : trimOWS v = v := by
  simpa [trimmed] using h

theorem dropWhile_none {p : UInt8 → Bool} : ∀ (l : Bytes), (∀ x ∈ l, p x = false) → l.dropWhile p = l
  | [], _ => rfl
  | c :: t, h => by simp [List.dropWhile, h c (by simp)]

theorem trimOWS_noblank (b : Bytes) (h : ∀ x ∈ b, (x == 32 || x == 9) = false) : trimOWS b = b := by
  unfold trimOWS
  rw [dropWhile_none b h, dropWhile_none b.reverse (fun x hx => h x (by simpa using hx))]
  simp

/-! ### 2. table facts -/

set_option maxRecDepth 100000 in
theorem tbl_tchar_valid :
    allBytes (fun c => !isTchar c || tget Gen.validHeaderFieldNameTable c != 0) = true := by
  decide +kernel

set_option maxRecDepth 100000 in
theorem tbl_tchar_clean :
    allBytes (fun c => !isTchar c || (c != 13 && c != 10 && c != 58 && c != 32 && c != 9)) = true := by
  decide +kernel

set_option maxRecDepth 100000 in
theorem tbl_vchar_id :
    allBytes (fun c => !isFieldVchar c || (tget Gen.newlineToSpaceTable c == c && c != 13 && c != 10)) = true := by
  decide +kernel

theorem tchar_valid (c : UInt8) (h : isTchar c = true) : tget Gen.validHeaderFieldNameTable c ≠ 0 := by
  have := allBytes_spec tbl_tchar_valid c
  simpa [h] using this

theorem tchar_clean (c : UInt8) (h : isTchar c = true) : c ≠ 13 ∧ c ≠ 10 ∧ c ≠ 58 ∧ c ≠ 32 ∧ c ≠ 9 := by
  have := allBytes_spec tbl_tchar_clean c
  simpa [h, and_assoc] using this

theorem vchar_id (c : UInt8) (h : isFieldVchar c = true) :
    tget Gen.newlineToSpaceTable c = c ∧ c ≠ 13 ∧ c ≠ 10 := by
  have := allBytes_spec tbl_vchar_id c
  simpa [h, and_assoc] using this

theorem token_validName (k : Bytes) (h : isToken k = true) : HW.validName k = true := by
  simp only [isToken, Bool.and_eq_true, List.all_eq_true] at h
  simp only [HW.validName, List.all_eq_true]
  intro x hx
  simpa using tchar_valid x (h.2 x hx)

theorem token_ne_nil (k : Bytes) (h : isToken k = true) : k ≠ [] := by
  intro e; subst e; simp [isToken] at h

theorem token_clean (k : Bytes) (h : isToken k = true) :
    ∀ x ∈ k, x ≠ 13 ∧ x ≠ 10 ∧ x ≠ 58 ∧ x ≠ 32 ∧ x ≠ 9 := by
  simp only [isToken, Bool.and_eq_true, List.all_eq_true] at h
  intro x hx
  exact tchar_clean x (h.2 x hx)

theorem newlineToSpace_vchar : ∀ (v : Bytes), v.all isFieldVchar = true → HW.newlineToSpace v = v
  | [], _ => rfl
  | c :: t, h => by
    simp only [List.all_cons, Bool.and_eq_true] at h
    have ih := newlineToSpace_vchar t h.2
    simp only [HW.newlineToSpace, List.map_cons] at ih ⊢
    rw [ih, (vchar_id c h.1).1]

theorem vchar_clean (v : Bytes) (h : v.all isFieldVchar = true) : ∀ x ∈ v, x ≠ 13 ∧ x ≠ 10 := by
  intro x hx
  exact (vchar_id x (List.all_eq_true.mp h x hx)).2

/-! ### 3. header blocks -/

def wfField (kv : Bytes × Bytes) : Bool := isToken kv.1 && kv.2.all isFieldVchar && trimmed kv.2

/-- every name a token, every value made of field characters with no blank at either end -/
def wfFields (F : List (Bytes × Bytes)) : Bool := F.all wfField

theorem headerLine_wf (kv : Bytes × Bytes) (h : wfField kv = true) :
    HW.headerLine kv = (kv.1 ++ 58 :: 32 :: kv.2) ++ [13, 10] := by
  simp only [wfField, Bool.and_eq_true] at h
  simp [HW.headerLine, token_validName _ h.1.1, newlineToSpace_vchar _ h.1.2, HW.strCRLF_eq,
    HW.strColonSpace_eq]

theorem block_cons_wf (kv : Bytes × Bytes) (F : List (Bytes × Bytes)) (rest : Bytes) (h : wfField kv = true) :
    HW.block (kv :: F) ++ rest = (kv.1 ++ 58 :: 32 :: kv.2) ++ 13 :: 10 :: (HW.block F ++ rest) := by
  simp [HW.block, headerLine_wf kv h]

theorem block_nil (rest : Bytes) : HW.block [] ++ rest = [] ++ 13 :: 10 :: rest := by
  simp [HW.block, HW.strCRLF_eq]

theorem fieldLine_clean (kv : Bytes × Bytes) (h : wfField kv = true) :
    ∀ x ∈ kv.1 ++ 58 :: 32 :: kv.2, x ≠ 13 ∧ x ≠ 10 := by
  simp only [wfField, Bool.and_eq_true] at h
  intro x hx
  simp only [List.mem_append, List.mem_cons] at hx
  rcases hx with hx | hx | hx | hx
  · exact ⟨(token_clean _ h.1.1 x hx).1, (token_clean _ h.1.1 x hx).2.1⟩
  · subst hx; decide
  · subst hx; decide
  · exact vchar_clean _ h.1.2 x hx

/-- one field line is consumed by one step of the strict field reader -/
theorem fieldsAux_step (kv : Bytes × Bytes) (h : wfField kv = true) (R : Bytes) (f : Nat)
    (acc : List (Bytes × Bytes)) :
    fieldsAux (f + 1) ((kv.1 ++ 58 :: 32 :: kv.2) ++ 13 :: 10 :: R) acc = fieldsAux f R (kv :: acc) := by
  have hc := fieldLine_clean kv h
  obtain ⟨k, v⟩ := kv
  simp only [wfField, Bool.and_eq_true] at h
  obtain ⟨⟨hk, hv⟩, ht⟩ := h
  have hkc := token_clean k hk
  simp only [fieldsAux]
  rw [crlfLine_append _ _ hc]
  simp only
  match k, hk, hkc with
  | [], hk, _ => simp [isToken] at hk
  | c :: k', hk, hkc =>
    have hcc := hkc c (by simp)
    have hs : splitAt1 58 (c :: k' ++ 58 :: 32 :: v) = some (c :: k', 32 :: v) :=
      splitAt1_append 58 (c :: k') (32 :: v) (fun x hx => (hkc x hx).2.2.1)
    have hv' : (32 :: v).all isFieldVchar = true := by
      simp only [List.all_cons, hv, Bool.and_true]; decide
    simp only [List.cons_append, List.isEmpty_cons, Bool.false_eq_true, if_false, hcc.2.2.2.1,
      hcc.2.2.2.2, false_or]
    simp only [List.cons_append] at hs
    rw [hs]
    simp only [hk, hv', Bool.not_true, Bool.or_self, Bool.false_eq_true, if_false, trimOWS_space,
      trimOWS_of_trimmed v ht]

theorem fieldsAux_block : ∀ (F : List (Bytes × Bytes)) (rest : Bytes) (fuel : Nat) (acc : List (Bytes × Bytes)),
    wfFields F = true → F.length < fuel →
    fieldsAux fuel (HW.block F ++ rest) acc = some (acc.reverse ++ F, rest)
  | [], rest, fuel, acc, _, hf => by
    obtain ⟨f, rfl⟩ : ∃ f, fuel = f + 1 := ⟨fuel - 1, by omega⟩
    rw [block_nil]
    simp only [fieldsAux]
    rw [crlfLine_append _ _ (by simp)]
    simp
  | kv :: F, rest, fuel, acc, hw, hf => by
    obtain ⟨f, rfl⟩ : ∃ f, fuel = f + 1 := ⟨fuel - 1, by omega⟩
    simp only [wfFields, List.all_cons, Bool.and_eq_true] at hw
    rw [block_cons_wf kv F rest hw.1, fieldsAux_step kv hw.1,
      fieldsAux_block F rest f (kv :: acc) hw.2 (by simp at hf; omega)]
    simp

theorem hasFoldedColon_block : ∀ (F : List (Bytes × Bytes)) (rest : Bytes) (fuel : Nat),
    wfFields F = true → hasFoldedColon fuel (HW.block F ++ rest) = false
  | _, _, 0, _ => rfl
  | [], rest, f + 1, _ => by
    rw [block_nil]
    simp only [hasFoldedColon]
    rw [crlfLine_append _ _ (by simp)]
    simp
  | kv :: F, rest, f + 1, hw => by
    simp only [wfFields, List.all_cons, Bool.and_eq_true] at hw
    rw [block_cons_wf kv F rest hw.1]
    simp only [hasFoldedColon]
    rw [crlfLine_append _ _ (fieldLine_clean kv hw.1)]
    simp only
    rw [hasFoldedColon_block F rest f hw.2]
    have hk : isToken kv.1 = true := by
      have := hw.1; simp only [wfField, Bool.and_eq_true] at this; exact this.1.1
    have hkc := token_clean kv.1 hk
    match hk1 : kv.1, hk, hkc with
    | [], hk, _ => simp [isToken] at hk
    | c :: k', _, hkc =>
      have hcc := hkc c (by simp)
      simp [hcc.2.2.2.1, hcc.2.2.2.2]

theorem length_le_block : ∀ (F : List (Bytes × Bytes)), wfFields F = true → F.length ≤ (HW.block F).length
  | [], _ => by simp
  | kv :: F, hw => by
    simp only [wfFields, List.all_cons, Bool.and_eq_true] at hw
    have ih := length_le_block F hw.2
    have := block_cons_wf kv F [] hw.1
    simp only [List.append_nil] at this
    rw [this]
    simp only [List.length_append, List.length_cons]
    omega

/-! ### 4. chunked bodies -/

theorem hexDigitVal_eq : hexDigitVal = Spec.Resp.hexVal := rfl
theorem parseHex_eq : Spec.Http.parseHex = Spec.Resp.parseHex := rfl

theorem parseHex_writeHexInt (n : Nat) (h : n < 16 ^ 16) : Spec.Http.parseHex (H1.Resp.writeHexInt n) = some n := by
  rw [parseHex_eq]; exact H1.Resp.parseHex_writeHexInt n h

theorem hexDigits_noblank : ∀ (fuel n : Nat), ∀ x ∈ H1.Resp.hexDigits fuel n, (x == 32 || x == 9) = false
  | 0, _ => by simp [H1.Resp.hexDigits]
  | fuel + 1, n => by
    intro x hx
    unfold H1.Resp.hexDigits at hx
    have key : ∀ d : Nat, d < 16 → (lowerhex d.toUInt8 == 32 || lowerhex d.toUInt8 == 9) = false := by decide
    split at hx
    · rename_i hn; simp at hx; subst hx; exact key n hn
    · simp only [List.mem_append, List.mem_cons, List.mem_nil_iff, or_false] at hx
      rcases hx with hx | hx
      · exact hexDigits_noblank fuel (n / 16) x hx
      · subst hx; exact key _ (Nat.mod_lt _ (by decide))

theorem trimOWS_writeHexInt (n : Nat) : trimOWS (H1.Resp.writeHexInt n) = H1.Resp.writeHexInt n :=
  trimOWS_noblank _ (hexDigits_noblank 16 n)

theorem hexDigits_length_le : ∀ (fuel n k : Nat), n < 16 ^ (k + 1) → (H1.Resp.hexDigits fuel n).length ≤ k + 1
  | 0, _, _, _ => by simp [H1.Resp.hexDigits]
  | fuel + 1, n, k, h => by
    unfold H1.Resp.hexDigits
    split
    · simp
    · rename_i hn
      match k, h with
      | 0, h => exact absurd (by simpa using h) hn
      | k + 1, h =>
        have hq : n / 16 < 16 ^ (k + 1) := by
          rw [Nat.div_lt_iff_lt_mul (by decide)]
          rw [Nat.pow_succ] at h; exact h
        have := hexDigits_length_le fuel (n / 16) k hq
        simp only [List.length_append, List.length_cons, List.length_nil]
        omega

/-- sizes below 16^15 are written with at most 15 hex digits (what the strict reader accepts) -/
theorem writeHexInt_length_le (n : Nat) (h : n < 16 ^ 15) : (H1.Resp.writeHexInt n).length ≤ 15 :=
  hexDigits_length_le 16 n 14 h

theorem length_le_encodeChunks : ∀ (cs : List Bytes), (∀ c ∈ cs, c ≠ []) →
    cs.length ≤ (H1.Resp.encodeChunks cs).length
  | [], _ => by simp
  | c :: cs, h => by
    have ih := length_le_encodeChunks cs (fun x hx => h x (by simp [hx]))
    have hc : 0 < c.length := List.length_pos_iff.mpr (h c (by simp))
    simp only [H1.Resp.encodeChunks, List.flatMap_cons, List.length_append, List.length_cons] at ih ⊢
    simp only [H1.Resp.writeChunk, List.length_append]
    omega

/-- The strict chunk reader returns exactly the payloads the chunk encoder was given and stops after the
last-chunk line — provided no chunk is empty and every chunk size fits 15 hex digits. -/
theorem chunksAux_encode : ∀ (cs : List Bytes) (X acc : Bytes) (fuel : Nat),
    (∀ c ∈ cs, c ≠ [] ∧ c.length < 16 ^ 15) → cs.length < fuel →
    chunksAux fuel (H1.Resp.encodeChunks cs ++ H1.Resp.writeChunk [] ++ X) acc = some (acc ++ cs.flatten, X)
  | [], X, acc, fuel, _, hf => by
    obtain ⟨f, rfl⟩ : ∃ f, fuel = f + 1 := ⟨fuel - 1, by omega⟩
    simp only [H1.Resp.encodeChunks, List.flatMap_nil, List.nil_append, H1.Resp.writeChunk_nil, chunksAux]
    have : ([48, 13, 10] : Bytes) ++ X = [48] ++ 13 :: 10 :: X := by simp
    rw [this, crlfLine_append [48] _ (by decide)]
    simp only [show trimOWS [48] = [48] by decide, show Spec.Http.parseHex [48] = some 0 by decide]
    simp
  | c :: cs, X, acc, fuel, hc, hf => by
    obtain ⟨f, rfl⟩ : ∃ f, fuel = f + 1 := ⟨fuel - 1, by omega⟩
    obtain ⟨hne, hlen⟩ := hc c (by simp)
    have ih := chunksAux_encode cs X (acc ++ c) f (fun x hx => hc x (by simp [hx])) (by simp at hf; omega)
    have e : H1.Resp.encodeChunks (c :: cs) ++ H1.Resp.writeChunk [] ++ X =
        H1.Resp.writeHexInt c.length ++ 13 :: 10 :: (c ++ 13 :: 10 :: (H1.Resp.encodeChunks cs ++ H1.Resp.writeChunk [] ++ X)) := by
      simp [H1.Resp.encodeChunks, H1.Resp.writeChunk, hne, HW.strCRLF_eq, List.append_assoc]
    rw [e]
    simp only [chunksAux]
    rw [crlfLine_append (H1.Resp.writeHexInt c.length) _ (H1.Resp.hexDigits_clean 16 c.length)]
    have h15 : ¬ (H1.Resp.writeHexInt c.length).length > 15 := by
      have := writeHexInt_length_le _ hlen; omega
    have hlen16 : c.length < 16 ^ 16 := Nat.lt_trans hlen (by decide)
    have hhb := Spec.Http.head_not_blank_of_parseHex _ _ (parseHex_writeHexInt c.length hlen16)
    have hnt := Spec.Http.no_tab_of_parseHex _ _ (parseHex_writeHexInt c.length hlen16)
    simp only [hhb, hnt, Bool.false_eq_true, trimOWS_writeHexInt, h15, if_false, parseHex_writeHexInt _ hlen16]
    have hpos : c.length ≠ 0 := by simpa using hne
    cases hl : c.length with
    | zero => exact absurd hl hpos
    | succ k =>
      simp only
      have hlen2 : ¬ (c ++ 13 :: 10 :: (H1.Resp.encodeChunks cs ++ H1.Resp.writeChunk [] ++ X)).length < k + 1 + 2 := by
        simp [hl]
      simp only [hlen2, if_false]
      have hd : (c ++ 13 :: 10 :: (H1.Resp.encodeChunks cs ++ H1.Resp.writeChunk [] ++ X)).drop (k + 1) =
          13 :: 10 :: (H1.Resp.encodeChunks cs ++ H1.Resp.writeChunk [] ++ X) := by
        rw [← hl]; simp
      have ht : (c ++ 13 :: 10 :: (H1.Resp.encodeChunks cs ++ H1.Resp.writeChunk [] ++ X)).take (k + 1) = c := by
        rw [← hl]; simp
      have hd2 : (c ++ 13 :: 10 :: (H1.Resp.encodeChunks cs ++ H1.Resp.writeChunk [] ++ X)).drop (k + 1 + 2) =
          H1.Resp.encodeChunks cs ++ H1.Resp.writeChunk [] ++ X := by
        rw [show k + 1 + 2 = (k + 1) + 2 from rfl, ← List.drop_drop, hd]; rfl
      rw [hd, hd2, ht]
      simp only [List.take, bne_self_eq_false, Bool.false_eq_true, if_false]
      rw [ih]
      simp [List.append_assoc]

theorem flatten_filter_nonempty (l : List Bytes) : (l.filter (fun r => !r.isEmpty)).flatten = l.flatten := by
  induction l with
  | nil => rfl
  | cons a t ih =>
    cases a with
    | nil => simpa using ih
    | cons x xs => simp [ih]

/-! ### 5. whole requests -/

def validTarget (t : Bytes) : Bool := !t.isEmpty && t.all (fun c => 33 ≤ c && c != 127)

/-- the message head the request writer produces from a method, a target and a field list -/
def head (method target : Bytes) (F : List (Bytes × Bytes)) : Bytes :=
  method ++ [32] ++ target ++ [32] ++ strHTTP11 ++ strCRLF ++ HW.block F

theorem strHTTP11_eq : strHTTP11 = sHTTP11 := by decide

theorem target_clean (t : Bytes) (h : validTarget t = true) : ∀ x ∈ t, x ≠ 13 ∧ x ≠ 10 ∧ x ≠ 32 := by
  simp only [validTarget, Bool.and_eq_true, List.all_eq_true] at h
  intro x hx
  have h33 : 33 ≤ x := by simpa using (h.2 x hx).1
  refine ⟨?_, ?_, ?_⟩ <;> (intro e; subst e; exact absurd h33 (by decide))

theorem startLine_clean (method target : Bytes) (hm : isToken method = true) (ht : validTarget target = true) :
    ∀ x ∈ method ++ 32 :: (target ++ 32 :: sHTTP11), x ≠ 13 ∧ x ≠ 10 := by
  intro x hx
  simp only [List.mem_append, List.mem_cons] at hx
  rcases hx with hx | hx | hx | hx | hx
  · exact ⟨(token_clean _ hm x hx).1, (token_clean _ hm x hx).2.1⟩
  · subst hx; decide
  · exact ⟨(target_clean _ ht x hx).1, (target_clean _ ht x hx).2.1⟩
  · subst hx; decide
  · revert x; decide

theorem head_eq (method target : Bytes) (F : List (Bytes × Bytes)) (Y : Bytes) :
    head method target F ++ Y = (method ++ 32 :: (target ++ 32 :: sHTTP11)) ++ 13 :: 10 :: (HW.block F ++ Y) := by
  simp [head, HW.strCRLF_eq, strHTTP11_eq, List.append_assoc]

/-- the framing decision and body extraction of `decodeOne`, after the head has been read -/
def afterHead (method target : Bytes) (fields : List (Bytes × Bytes)) (fc : Bool) (rest : Bytes) :
    Option (Req × Bytes) :=
  match lookupAll fields sContentLength, lookupAll fields sTransferEncoding with
  | [], [] => some ({ method, target, fields, body := [], trailers := [], foldedColon := fc }, rest)
  | cl :: more, [] =>
    if !more.all (· == cl) then none else
    match parseDec cl with
    | none => none
    | some n =>
      if rest.length < n then none else
      some ({ method, target, fields, body := rest.take n, trailers := [], foldedColon := fc }, rest.drop n)
  | [], [te] =>
    if lowerAll te != sChunked then none else
    match chunksAux (rest.length + 1) rest [] with
    | none => none
    | some (body, rest) =>
      match fieldsAux (rest.length + 1) rest [] with
      | none => none
      | some (trailers, rest) => some ({ method, target, fields, body, trailers, foldedColon := fc }, rest)
  | _, _ => none

theorem decodeOne_head (method target : Bytes) (F : List (Bytes × Bytes)) (Y : Bytes)
    (hm : isToken method = true) (ht : validTarget target = true) (hF : wfFields F = true) :
    decodeOne (head method target F ++ Y) = afterHead method target F false Y := by
  rw [head_eq]
  unfold decodeOne
  rw [crlfLine_append _ _ (startLine_clean method target hm ht)]
  simp only [bind, Option.bind]
  rw [splitAt1_append 32 method _ (fun x hx => (token_clean _ hm x hx).2.2.2.1)]
  simp only
  rw [splitAt1_append 32 target _ (fun x hx => (target_clean _ ht x hx).2.2)]
  simp only
  have hne : target.isEmpty = false := by
    simp only [validTarget, Bool.and_eq_true] at ht; simpa using ht.1
  have hall : (target.all fun c => decide (33 ≤ c) && c != 127) = true := by
    simp only [validTarget, Bool.and_eq_true] at ht; exact ht.2
  have hlen : F.length < (HW.block F ++ Y).length + 1 := by
    have := length_le_block F hF
    simp only [List.length_append]; omega
  rw [fieldsAux_block F Y _ [] hF hlen, hasFoldedColon_block F Y _ hF]
  simp only [hm, hne, hall, bne_self_eq_false, Bool.not_true, Bool.or_self, Bool.false_eq_true, if_false,
    List.reverse_nil, List.nil_append]
  unfold afterHead
  generalize lookupAll F sContentLength = cls
  generalize lookupAll F sTransferEncoding = tes
  match cls, tes with
  | [], [] => rfl
  | cl :: more, [] =>
    simp only
    split
    · rfl
    · cases parseDec cl <;> rfl
  | [], [te] =>
    simp only
    split
    · rfl
    · cases chunksAux (Y.length + 1) Y [] with
      | none => rfl
      | some p =>
        obtain ⟨b, r⟩ := p
        simp only
        cases fieldsAux (r.length + 1) r [] with
        | none => rfl
        | some q => rfl
  | [], _ :: _ :: _ => rfl
  | _ :: _, _ :: _ => rfl

/-- every piece of the body stream is shorter than 16^15 bytes (its size line has at most 15 hex digits) -/
def readsOk (reads : List Bytes) : Bool := reads.all (fun r => decide (r.length < 16 ^ 15))

/-- (a) no framing field: the request has no body, what follows the head is left over -/
theorem decodes_nobody (method target : Bytes) (F : List (Bytes × Bytes)) (rest : Bytes)
    (hm : isToken method = true) (ht : validTarget target = true) (hF : wfFields F = true)
    (hcl : lookupAll F sContentLength = []) (hte : lookupAll F sTransferEncoding = []) :
    decodeOne (head method target F ++ rest) =
      some ({ method, target, fields := F, body := [], trailers := [], foldedColon := false }, rest) := by
  rw [decodeOne_head method target F rest hm ht hF]
  simp only [afterHead, hcl, hte]

/-- (b) one Content-Length field holding the length of the body -/
theorem decodes_fixed (method target : Bytes) (F : List (Bytes × Bytes)) (cl body rest : Bytes)
    (hm : isToken method = true) (ht : validTarget target = true) (hF : wfFields F = true)
    (hcl : lookupAll F sContentLength = [cl]) (hn : parseDec cl = some body.length)
    (hte : lookupAll F sTransferEncoding = []) :
    decodeOne (head method target F ++ body ++ rest) =
      some ({ method, target, fields := F, body := body, trailers := [], foldedColon := false }, rest) := by
  rw [List.append_assoc, decodeOne_head method target F (body ++ rest) hm ht hF]
  simp only [afterHead, hcl, hte, hn]
  simp

/-- the strict chunk reader on the output of the chunked body writer -/
theorem chunksAux_chunkedWire (reads : List Bytes) (tr : List (Bytes × Bytes)) (rest : Bytes)
    (hr : readsOk reads = true) :
    chunksAux ((H1.Resp.chunkedWire reads tr ++ rest).length + 1) (H1.Resp.chunkedWire reads tr ++ rest) [] =
      some (reads.flatten, HW.block tr ++ rest) := by
  have hcs : ∀ c ∈ reads.filter (fun r => !r.isEmpty), c ≠ [] ∧ c.length < 16 ^ 15 := by
    intro c hc
    simp only [List.mem_filter] at hc
    refine ⟨by intro e; simp [e] at hc, ?_⟩
    have := List.all_eq_true.mp hr c hc.1
    simpa using this
  have e : H1.Resp.chunkedWire reads tr ++ rest =
      H1.Resp.encodeChunks (reads.filter (fun r => !r.isEmpty)) ++ H1.Resp.writeChunk [] ++ (HW.block tr ++ rest) := by
    simp [H1.Resp.chunkedWire, H1.Resp.trailerBlock, List.append_assoc]
  rw [e, chunksAux_encode _ _ [] _ hcs, flatten_filter_nonempty]
  · rfl
  · have := length_le_encodeChunks _ (fun c hc => (hcs c hc).1)
    simp only [List.length_append]; omega

/-- (c) one `Transfer-Encoding: chunked` field: the body is the concatenation of the stream pieces,
the trailer fields come back as written -/
theorem decodes_chunked (method target : Bytes) (F : List (Bytes × Bytes)) (te : Bytes)
    (reads : List Bytes) (tr : List (Bytes × Bytes)) (rest : Bytes)
    (hm : isToken method = true) (ht : validTarget target = true) (hF : wfFields F = true)
    (hcl : lookupAll F sContentLength = []) (hte : lookupAll F sTransferEncoding = [te])
    (hch : lowerAll te = sChunked) (hr : readsOk reads = true) (htr : wfFields tr = true) :
    decodeOne (head method target F ++ H1.Resp.chunkedWire reads tr ++ rest) =
      some ({ method, target, fields := F, body := reads.flatten, trailers := tr, foldedColon := false }, rest) := by
  rw [List.append_assoc, decodeOne_head method target F _ hm ht hF]
  simp only [afterHead, hcl, hte, hch, bne_self_eq_false, Bool.false_eq_true, if_false]
  rw [chunksAux_chunkedWire reads tr rest hr]
  simp only
  have hlen : tr.length < (HW.block tr ++ rest).length + 1 := by
    have := length_le_block tr htr
    simp only [List.length_append]; omega
  rw [fieldsAux_block tr rest _ [] htr hlen]
  simp

/-! ### 6. the request header object -/

def reqTarget (r : HW.ReqHdr) : Bytes := if r.uri.isEmpty then strSlash else r.uri

/-- method a token (or unset: GET is written), request URI a valid target (or unset: `/` is written),
all field lines well formed -/
def wfReq (r : HW.ReqHdr) : Bool :=
  (r.method.isEmpty || isToken r.method) && (r.uri.isEmpty || validTarget r.uri) && wfFields r.fields


theorem wfReq_method (r : HW.ReqHdr) (h : wfReq r = true) : isToken r.methodOrGet = true := by
  simp only [wfReq, Bool.and_eq_true, Bool.or_eq_true] at h
  unfold HW.ReqHdr.methodOrGet
  cases he : r.method.isEmpty
  · simpa [he] using h.1.1
  · simp only [if_true]; decide

theorem wfReq_target (r : HW.ReqHdr) (h : wfReq r = true) : validTarget (reqTarget r) = true := by
  simp only [wfReq, Bool.and_eq_true, Bool.or_eq_true] at h
  unfold reqTarget
  cases he : r.uri.isEmpty
  · simpa [he] using h.1.2
  · simp only [if_true]; decide

/-- /repo 910b0dd: method and target go through `appendRequestLinePart`, which leaves a token and a valid target alone -/
theorem reqhdr_bytes_eq (r : HW.ReqHdr) (hw : wfReq r = true) : r.bytes = head r.methodOrGet (reqTarget r) r.fields := by
  have hm : HW.reqLinePart r.methodOrGet = r.methodOrGet :=
    HW.reqLinePart_id _ (fun x hx => by
      have := token_clean _ (wfReq_method r hw) x hx
      simp [HW.lineSpecial, this.1, this.2.1, this.2.2])
  have ht : HW.reqLinePart (reqTarget r) = reqTarget r :=
    HW.reqLinePart_id _ (fun x hx => by
      have := target_clean _ (wfReq_target r hw) x hx
      simp [HW.lineSpecial, this.1, this.2.1, this.2.2])
  unfold HW.ReqHdr.bytes HW.ReqHdr.startLine head
  unfold reqTarget at ht ⊢
  rw [hm, ht]

theorem wfReq_fields (r : HW.ReqHdr) (h : wfReq r = true) : wfFields r.fields = true := by
  simp only [wfReq, Bool.and_eq_true] at h
  exact h.2

/-- nothing is dropped or rewritten by `appendHeaderLine` when the fields are well formed -/
theorem kept_wf : ∀ (F : List (Bytes × Bytes)), wfFields F = true → HW.kept F = F
  | [], _ => rfl
  | kv :: F, hw => by
    simp only [wfFields, List.all_cons, Bool.and_eq_true] at hw
    have ih := kept_wf F hw.2
    have h1 := hw.1
    simp only [wfField, Bool.and_eq_true] at h1
    simp only [HW.kept] at ih ⊢
    simp [token_validName _ h1.1.1, newlineToSpace_vchar _ h1.1.2, ih]

theorem reqhdr_kept (r : HW.ReqHdr) (h : wfReq r = true) : HW.kept r.fields = r.fields :=
  kept_wf _ (wfReq_fields r h)

theorem reqhdr_decodes_nobody (r : HW.ReqHdr) (rest : Bytes) (hw : wfReq r = true)
    (hcl : lookupAll r.fields sContentLength = []) (hte : lookupAll r.fields sTransferEncoding = []) :
    decodeOne (r.bytes ++ rest) =
      some ({ method := r.methodOrGet, target := reqTarget r, fields := r.fields, body := [], trailers := [],
              foldedColon := false }, rest) := by
  rw [reqhdr_bytes_eq r hw]
  exact decodes_nobody _ _ _ rest (wfReq_method r hw) (wfReq_target r hw) (wfReq_fields r hw) hcl hte

theorem reqhdr_decodes_fixed (r : HW.ReqHdr) (body rest : Bytes) (hw : wfReq r = true)
    (hcl : lookupAll r.fields sContentLength = [r.clBytes]) (hn : parseDec r.clBytes = some body.length)
    (hte : lookupAll r.fields sTransferEncoding = []) :
    decodeOne (r.bytes ++ body ++ rest) =
      some ({ method := r.methodOrGet, target := reqTarget r, fields := r.fields, body := body, trailers := [],
              foldedColon := false }, rest) := by
  rw [reqhdr_bytes_eq r hw]
  exact decodes_fixed _ _ _ r.clBytes body rest (wfReq_method r hw) (wfReq_target r hw) (wfReq_fields r hw)
    hcl hn hte

theorem reqhdr_decodes_chunked (r : HW.ReqHdr) (te : Bytes) (reads : List Bytes) (tr : List (Bytes × Bytes))
    (rest : Bytes) (hw : wfReq r = true)
    (hcl : lookupAll r.fields sContentLength = []) (hte : lookupAll r.fields sTransferEncoding = [te])
    (hch : lowerAll te = sChunked) (hr : readsOk reads = true) (htr : wfFields tr = true) :
    decodeOne (r.bytes ++ H1.Resp.chunkedWire reads tr ++ rest) =
      some ({ method := r.methodOrGet, target := reqTarget r, fields := r.fields, body := reads.flatten,
              trailers := tr, foldedColon := false }, rest) := by
  rw [reqhdr_bytes_eq r hw]
  exact decodes_chunked _ _ _ te reads tr rest (wfReq_method r hw) (wfReq_target r hw) (wfReq_fields r hw)
    hcl hte hch hr htr


/-! ### where the framing fields of a header object come from -/

theorem lookupAll_append (A B : List (Bytes × Bytes)) (n : Bytes) :
    lookupAll (A ++ B) n = lookupAll A n ++ lookupAll B n := by
  simp [lookupAll]

theorem lookupAll_unless (c : Bool) (k v n : Bytes) (h : (lowerAll k == n) = false) :
    lookupAll (if c = true then [] else [(k, v)]) n = [] := by
  cases c <;> simp [lookupAll, h]

theorem lookupAll_when (c : Bool) (k v n : Bytes) (h : (lowerAll k == n) = false) :
    lookupAll (if c = true then [(k, v)] else []) n = [] := by
  cases c <;> simp [lookupAll, h]

/-- the Content-Length fields of the written block: the one of `clBytes` (if set) and those among the
free-form fields -/
theorem lookupAll_reqfields_cl (r : HW.ReqHdr) :
    lookupAll r.fields sContentLength =
      (if r.clBytes.isEmpty then [] else [r.clBytes]) ++ lookupAll r.h sContentLength := by
  unfold HW.ReqHdr.fields
  simp only [lookupAll_append]
  rw [lookupAll_unless _ strUserAgent _ _ (by decide), lookupAll_unless _ strHost _ _ (by decide),
    lookupAll_unless _ strContentType _ _ (by decide), lookupAll_unless _ strTrailer _ _ (by decide),
    lookupAll_unless _ strCookie _ _ (by decide), lookupAll_when _ strConnection _ _ (by decide)]
  cases r.clBytes.isEmpty <;> simp [lookupAll, show (lowerAll strContentLength == sContentLength) = true by decide]

/-- the Transfer-Encoding fields of the written block are those among the free-form fields -/
theorem lookupAll_reqfields_te (r : HW.ReqHdr) :
    lookupAll r.fields sTransferEncoding = lookupAll r.h sTransferEncoding := by
  unfold HW.ReqHdr.fields
  simp only [lookupAll_append]
  rw [lookupAll_unless _ strUserAgent _ _ (by decide), lookupAll_unless _ strHost _ _ (by decide),
    lookupAll_unless _ strContentType _ _ (by decide), lookupAll_unless _ strContentLength _ _ (by decide),
    lookupAll_unless _ strTrailer _ _ (by decide),
    lookupAll_unless _ strCookie _ _ (by decide), lookupAll_when _ strConnection _ _ (by decide)]
  simp

/-! ### the side conditions are needed -/

/-- the 16^15 bound is tight: the size line of a 16^15-byte chunk has 16 digits and the strict reader refuses it -/
theorem sizeLine_16digits_refused (X acc : Bytes) (f : Nat) :
    chunksAux (f + 1) (H1.Resp.writeHexInt (16 ^ 15) ++ 13 :: 10 :: X) acc = none := by
  simp only [chunksAux]
  rw [crlfLine_append (H1.Resp.writeHexInt (16 ^ 15)) _ (H1.Resp.hexDigits_clean 16 _)]
  simp only [trimOWS_writeHexInt]
  have : (H1.Resp.writeHexInt (16 ^ 15)).length = 16 := by decide
  simp [this]

/-- a value written with a leading blank does not come back as written (optional white space is not part
of a field value): `trimmed` cannot be dropped from `wfFields` -/
theorem untrimmed_value_differs :
    decodeOne (head [71, 69, 84] [47] [([88], [32, 97])]) =
      some ({ method := [71, 69, 84], target := [47], fields := [([88], [97])], body := [], trailers := [],
              foldedColon := false }, []) := by
  decide +kernel

/-! ### 7. the hypotheses can be met -/

/-- `GET /a?b=1 HTTP/1.1`, `Host: a.b`, `X-Y: 1 2` -/
example : decodeOne (head [71, 69, 84] [47, 97, 63, 98, 61, 49] [([72, 111, 115, 116], [97, 46, 98]), ([88, 45, 89], [49, 32, 50])]
      ++ [71, 69, 84, 32]) =
    some ({ method := [71, 69, 84], target := [47, 97, 63, 98, 61, 49],
            fields := [([72, 111, 115, 116], [97, 46, 98]), ([88, 45, 89], [49, 32, 50])],
            body := [], trailers := [], foldedColon := false }, [71, 69, 84, 32]) :=
  decodes_nobody _ _ _ _ (by decide) (by decide) (by decide) (by decide) (by decide)

/-- `POST /p HTTP/1.1`, `Host: a.b`, `Content-Type: t/p`, `Content-Length: 3`, body `xyz`, then `G` -/
example : decodeOne (head [80, 79, 83, 84] [47, 112]
        [([72, 111, 115, 116], [97, 46, 98]), ([67, 111, 110, 116, 101, 110, 116, 45, 84, 121, 112, 101], [116, 47, 112]),
         ([67, 111, 110, 116, 101, 110, 116, 45, 76, 101, 110, 103, 116, 104], [51])]
      ++ [120, 121, 122] ++ [71]) =
    some ({ method := [80, 79, 83, 84], target := [47, 112],
            fields := [([72, 111, 115, 116], [97, 46, 98]), ([67, 111, 110, 116, 101, 110, 116, 45, 84, 121, 112, 101], [116, 47, 112]),
              ([67, 111, 110, 116, 101, 110, 116, 45, 76, 101, 110, 103, 116, 104], [51])],
            body := [120, 121, 122], trailers := [], foldedColon := false }, [71]) :=
  decodes_fixed _ _ _ [51] _ _ (by decide) (by decide) (by decide) (by decide) (by decide) (by decide)

/-- `POST /p HTTP/1.1`, `Transfer-Encoding: Chunked`, stream pieces `hi`, ``, `!`, trailer `X-T: ok`, then `G` -/
example : decodeOne (head [80, 79, 83, 84] [47, 112]
        [([84, 114, 97, 110, 115, 102, 101, 114, 45, 69, 110, 99, 111, 100, 105, 110, 103], [67, 104, 117, 110, 107, 101, 100])]
      ++ H1.Resp.chunkedWire [[104, 105], [], [33]] [([88, 45, 84], [111, 107])] ++ [71]) =
    some ({ method := [80, 79, 83, 84], target := [47, 112],
            fields := [([84, 114, 97, 110, 115, 102, 101, 114, 45, 69, 110, 99, 111, 100, 105, 110, 103], [67, 104, 117, 110, 107, 101, 100])],
            body := [104, 105, 33], trailers := [([88, 45, 84], [111, 107])], foldedColon := false }, [71]) :=
  decodes_chunked _ _ _ [67, 104, 117, 110, 107, 101, 100] _ _ _ (by decide) (by decide) (by decide) (by decide)
    (by decide) (by decide) (by decide) (by decide)

/-- a header object with nothing set but the host: `GET / HTTP/1.1`, `Host: a.b` -/
def exGet : HW.ReqHdr :=
  { method := [], uri := [], userAgent := [], host := [97, 46, 98], contentType := [], noDefaultContentType := false,
    clBytes := [], h := [], trailer := [], cookies := [], connClose := false }

example : decodeOne (exGet.bytes ++ [71]) =
    some ({ method := [71, 69, 84], target := [47], fields := [([72, 111, 115, 116], [97, 46, 98])],
            body := [], trailers := [], foldedColon := false }, [71]) :=
  reqhdr_decodes_nobody exGet [71] (by decide) (by decide) (by decide)

/-- `POST /p`, User-Agent `ua`, Host `a.b`, Content-Type `t/p`, Content-Length `3`, a cookie `k=v`, `Connection: close` -/
def exPost : HW.ReqHdr :=
  { method := [80, 79, 83, 84], uri := [47, 112], userAgent := [117, 97], host := [97, 46, 98], contentType := [116, 47, 112],
    noDefaultContentType := false, clBytes := [51], h := [([88, 45, 89], [49, 32, 50])], trailer := [],
    cookies := [([107], [118])], connClose := true }

example : decodeOne (exPost.bytes ++ [120, 121, 122] ++ [71]) =
    some ({ method := [80, 79, 83, 84], target := [47, 112], fields := exPost.fields,
            body := [120, 121, 122], trailers := [], foldedColon := false }, [71]) :=
  reqhdr_decodes_fixed exPost [120, 121, 122] [71] (by decide) (by decide) (by decide) (by decide)

/-- `POST /p`, default content type, `Transfer-Encoding: chunked`, `Trailer: X-T` -/
def exChunked : HW.ReqHdr :=
  { method := [80, 79, 83, 84], uri := [47, 112], userAgent := [], host := [97, 46, 98], contentType := [],
    noDefaultContentType := false, clBytes := [],
    h := [([84, 114, 97, 110, 115, 102, 101, 114, 45, 69, 110, 99, 111, 100, 105, 110, 103], [99, 104, 117, 110, 107, 101, 100])],
    trailer := [[88, 45, 84]], cookies := [], connClose := false }

example : decodeOne (exChunked.bytes ++ H1.Resp.chunkedWire [[104, 105], [], [33]] [([88, 45, 84], [111, 107])] ++ [71]) =
    some ({ method := [80, 79, 83, 84], target := [47, 112], fields := exChunked.fields,
            body := [104, 105, 33], trailers := [([88, 45, 84], [111, 107])], foldedColon := false }, [71]) :=
  reqhdr_decodes_chunked exChunked [99, 104, 117, 110, 107, 101, 100] _ _ [71] (by decide) (by decide) (by decide)
    (by decide) (by decide) (by decide)

/-! ## The request writer as a whole (`req.Write`: header bytes, then the body encoding) -/

/-- what the client application asked to send as body -/
inductive ReqBody where
  | none                                                        -- no body, no framing field
  | fixed (b : Bytes)                                           -- body bytes / stream of known length: Content-Length
  | chunked (reads : List Bytes) (tr : List (Bytes × Bytes))    -- stream of unknown length: chunked, then the trailer fields
deriving Repr, DecidableEq

def ReqBody.wire : ReqBody → Bytes
  | .none => []
  | .fixed b => b
  | .chunked reads tr => H1.Resp.chunkedWire reads tr

def ReqBody.content : ReqBody → Bytes
  | .none => []
  | .fixed b => b
  | .chunked reads _ => reads.flatten

def ReqBody.trailers : ReqBody → List (Bytes × Bytes)
  | .chunked _ tr => tr
  | _ => []

/-- the request writer model: `RequestHeader.AppendBytes`, then the body as `req.Write` encodes it -/
def reqWire (r : HW.ReqHdr) (b : ReqBody) : Bytes := r.bytes ++ b.wire

/-- well-formed request: token method, visible-ASCII target, token field names, clean trimmed values
(`wfReq`), no framing field among the free-form fields except `Transfer-Encoding: chunked` for a
chunked body, `Content-Length` bytes = decimal body length for a fixed body, stream pieces below
`16^15` bytes and well-formed trailer fields for a chunked one -/
structure WfRequest (r : HW.ReqHdr) (b : ReqBody) : Prop where
  hdr : wfReq r = true
  noCL : lookupAll r.h sContentLength = []
  framing : match b with
    | .none => r.clBytes = [] ∧ lookupAll r.h sTransferEncoding = []
    | .fixed body => r.clBytes = H1.appendUintDec body.length ∧ lookupAll r.h sTransferEncoding = []
    | .chunked reads tr => r.clBytes = [] ∧ (∃ te, lookupAll r.h sTransferEncoding = [te] ∧ lowerAll te = sChunked) ∧
        readsOk reads = true ∧ wfFields tr = true

/-- **C11 request side**: what the request writer model emits decodes, with the strict decoder, to the
same method, target, fields, body and trailers, and the decoder stops exactly at the end of the request. -/
theorem request_decodes (r : HW.ReqHdr) (b : ReqBody) (rest : Bytes) (h : WfRequest r b) :
    decodeOne (reqWire r b ++ rest) =
      some ({ method := r.methodOrGet, target := reqTarget r, fields := r.fields, body := b.content,
              trailers := b.trailers, foldedColon := false }, rest) := by
  obtain ⟨hw, hncl, hf⟩ := h
  cases b with
  | none =>
    obtain ⟨hcl, hte⟩ := hf
    have h1 : lookupAll r.fields sContentLength = [] := by
      rw [lookupAll_reqfields_cl, hcl, hncl]; rfl
    have h2 : lookupAll r.fields sTransferEncoding = [] := by rw [lookupAll_reqfields_te, hte]
    simpa [reqWire, ReqBody.wire, ReqBody.content, ReqBody.trailers] using reqhdr_decodes_nobody r rest hw h1 h2
  | fixed body =>
    obtain ⟨hcl, hte⟩ := hf
    have hne : r.clBytes.isEmpty = false := by
      rw [hcl]
      cases hh : H1.appendUintDec body.length with
      | nil => exact absurd hh (H1.Dec.appendUintDec_ne_nil _)
      | cons _ _ => rfl
    have h1 : lookupAll r.fields sContentLength = [r.clBytes] := by
      rw [lookupAll_reqfields_cl, hncl, hne]; rfl
    have h2 : lookupAll r.fields sTransferEncoding = [] := by rw [lookupAll_reqfields_te, hte]
    have h3 : parseDec r.clBytes = some body.length := by
      rw [hcl]; exact H1.Dec.specHttp_parseDec_appendUintDec _
    simpa [reqWire, ReqBody.wire, ReqBody.content, ReqBody.trailers] using reqhdr_decodes_fixed r body rest hw h1 h3 h2
  | chunked reads tr =>
    obtain ⟨hcl, ⟨te, hte, hch⟩, hr, htr⟩ := hf
    have h1 : lookupAll r.fields sContentLength = [] := by
      rw [lookupAll_reqfields_cl, hcl, hncl]; rfl
    have h2 : lookupAll r.fields sTransferEncoding = [te] := by rw [lookupAll_reqfields_te, hte]
    simpa [reqWire, ReqBody.wire, ReqBody.content, ReqBody.trailers] using
      reqhdr_decodes_chunked r te reads tr rest hw h1 h2 hch hr htr

theorem appendUintDec_3 : H1.appendUintDec 3 = [51] := by
  rw [H1.Dec.appendUintDec_eq, H1.Dec.decD_lt 3 (by decide)]; rfl

/-- non-vacuity: the three kinds of request -/
example : WfRequest exGet .none := ⟨by decide, by decide, ⟨rfl, by decide⟩⟩
example : WfRequest exPost (.fixed [120, 121, 122]) := ⟨by decide, by decide, ⟨appendUintDec_3.symm, by decide⟩⟩
example : WfRequest exChunked (.chunked [[104, 105], [], [33]] [([88, 45, 84], [111, 107])]) :=
  ⟨by decide, by decide, ⟨rfl, ⟨[99, 104, 117, 110, 107, 101, 100], by decide, by decide⟩, by decide, by decide⟩⟩

end Hertz.ReqDecodes
