import Hertz.Model.Http1.Serve
namespace Hertz.H1
open Hertz

/-! ### header-name comparison -/

/-- ASCII lower-casing by arithmetic (the specification of `ToLowerTable`) -/
def lowerSpec (c : UInt8) : UInt8 := if 65 ≤ c ∧ c ≤ 90 then c + 32 else c

set_option maxRecDepth 100000 in
theorem tbl_toLower : allBytes (fun c => toLower c == lowerSpec c) = true := by decide +kernel

theorem toLower_eq (c : UInt8) : toLower c = lowerSpec c := by
  have := allBytes_spec tbl_toLower c
  simpa using this

theorem ciEq_iff : ∀ a b : Bytes, ciEq a b = true ↔ a.map lowerSpec = b.map lowerSpec
  | [], [] => by simp [ciEq]
  | [], _ :: _ => by simp [ciEq]
  | _ :: _, [] => by simp [ciEq]
  | x :: s, y :: t => by
    simp only [ciEq, Bool.and_eq_true, beq_iff_eq, List.map_cons, List.cons.injEq, toLower_eq]
    rw [ciEq_iff s t]

/-! ### the completeness pre-check of the request header block is stable under appended bytes -/

theorem indexByte_append (c : UInt8) : ∀ (b x : Bytes) (n : Nat), indexByte c b = some n → indexByte c (b ++ x) = some n
  | [], _, _, h => by simp [indexByte] at h
  | y :: t, x, n, h => by
    simp only [indexByte, List.cons_append] at h ⊢
    split
    · rename_i hy; simpa [hy] using h
    · rename_i hy
      simp only [hy, if_false] at h
      cases hi : indexByte c t with
      | none => simp [hi] at h
      | some m =>
        rw [indexByte_append c t x m hi]
        simpa [hi] using h

theorem rawHeadersAux_append : ∀ (b x : Bytes) (l : Nat) (cr : Bool) (n : Nat),
    rawHeadersAux l cr b = some n → rawHeadersAux l cr (b ++ x) = some n
  | [], _, _, _, _, h => by simp [rawHeadersAux] at h
  | c :: t, x, l, cr, n, h => by
    simp only [rawHeadersAux, List.cons_append] at h ⊢
    split
    · rename_i hc
      simp only [hc, if_true] at h
      split
      · rename_i hb; simpa [hb] using h
      · rename_i hb
        simp only [hb, if_false] at h
        cases hr : rawHeadersAux 0 false t with
        | none => simp [hr] at h
        | some m => rw [rawHeadersAux_append t x 0 false m hr]; simpa [hr] using h
    · rename_i hc
      simp only [hc, if_false] at h
      cases hr : rawHeadersAux (l + 1) (l == 0 && c == 13) t with
      | none => simp [hr] at h
      | some m => rw [rawHeadersAux_append t x _ _ m hr]; simpa [hr] using h

/-- `ext.ReadRawHeaders`: once the blank line has arrived its position never changes. -/
theorem rawHeadersLen_append (b x : Bytes) (n : Nat) (h : rawHeadersLen b = some n) :
    rawHeadersLen (b ++ x) = some n := rawHeadersAux_append b x 0 false n h

/-! ### the keep-alive loop only produces clean traces -/

/-- shape of everything the loop can emit: handled requests each immediately answered by their 200,
optionally preceded by `100 Continue`; an error response (400/413/408) carries `Connection: close`
and ends the trace; a closing 200 ends the trace. -/
def cleanTrace : List Ev → Bool
  | [] => true
  | [.unmodelled] => true           -- handed over to mime/multipart: no claim
  | [.continue100, .unmodelled] => true
  | [.continue100] => true          -- interim response, then the peer vanished (raw EOF)
  | .continue100 :: .req s :: t => cleanTrace (.req s :: t)
  | .continue100 :: .resp st c :: t => cleanTrace (.resp st c :: t)
  | .req _ :: .resp st c :: t => st == 200 && (if c then t.isEmpty else cleanTrace t)
  | [.resp st c] => c && (st == 400 || st == 413 || st == 408)
  | _ => false

theorem errStatus_clean (x : RdErr) (st : Nat) (h : errStatus x = some st) :
    (st = 400 ∨ st = 413) ∨ st = 408 := by
  cases x <;> simp [errStatus] at h <;> subst h <;> simp

theorem serveLoop_clean (cfg : Cfg) (e : End) : ∀ (fuel : Nat) (first : Bool) (s : Bytes),
    cleanTrace (serveLoop cfg e fuel first s) = true
  | 0, _, _ => by simp [serveLoop, cleanTrace]
  | fuel + 1, first, s => by
    have ih := serveLoop_clean cfg e fuel
    unfold serveLoop
    split
    · simp [cleanTrace]
    · split
      · simp [cleanTrace]
      · split
        · split <;> simp [cleanTrace]
        · split <;> simp [cleanTrace]
      · rename_i hd n _
        simp only
        cases hb : continueReadBody cfg e hd (List.drop n s) with
        | err x =>
          cases x <;> cases hc : mayContinue hd <;> simp [cleanTrace, errStatus]
        | ok hd' body tr rest =>
          cases hc : mayContinue hd <;> cases hk : (cfg.disableKeepalive || hd'.connClose)
          all_goals first
            | (have h12 := Bool.or_eq_false_iff.mp hk
               simp [cleanTrace, ih, h12.1, h12.2])
            | (have h12 : cfg.disableKeepalive = true ∨ hd'.connClose = true := by simpa using hk
               simp [cleanTrace, ih, h12])

/-- C03 (reject is clean) / C01 (one response per request, in order) on the loop model, for every
configuration, every inbound byte stream and both ways the stream can end. -/
theorem serve_clean (cfg : Cfg) (e : End) (s : Bytes) : cleanTrace (serve cfg e s) = true :=
  serveLoop_clean cfg e _ true s

end Hertz.H1
