import Hertz.Model.TagexprShared
/-!
# One compiled expression, many evaluations — lemmas (C20)

* the verdict for a value is the same whether the expression is compiled for it alone
  (`validate`), compiled once for a batch (`validateShared`) or found in the validator's cache
  after any history of other validations (`session`);
* `funcExprNode.Run` executed by several evaluations at once: under every schedule each evaluation
  is in exactly the state its own steps alone would have produced (`run_get`), so a finished one
  has the sequential answer (`run_private`); with the argument buffer owned by the node instead
  of the evaluation this is false (`runShared_fails_at`).
-/
namespace Hertz.Tagexpr

theorem validate_eq_runCompiled (expr : List Char) (env : Env) :
    validate expr env = runCompiled (parseExpr expr) env := by
  unfold validate runCompiled
  rfl

theorem validateShared_eq (expr : List Char) (envs : List Env) :
    validateShared expr envs = envs.map (validate expr) := by
  unfold validateShared
  exact List.map_congr_left (fun e _ => (validate_eq_runCompiled expr e).symm)

/-! ## the cache -/

/-- every entry of the cache is what compiling the type's expression gives -/
def Cache.Sound (exprOf : Nat → List Char) (c : Cache) : Prop :=
  ∀ ty comp, c.find ty = some comp → comp = parseExpr (exprOf ty)

theorem Cache.sound_nil (exprOf : Nat → List Char) : Cache.Sound exprOf [] := by
  intro ty comp h
  simp [Cache.find] at h

theorem validateVia_sound (exprOf : Nat → List Char) (c : Cache) (hc : c.Sound exprOf) (ty : Nat) (env : Env) :
    (validateVia exprOf c ty env).2 = validate (exprOf ty) env ∧ (validateVia exprOf c ty env).1.Sound exprOf := by
  unfold validateVia
  cases hf : c.find ty with
  | some comp =>
    simp only
    rw [hc ty comp hf, validate_eq_runCompiled]
    exact ⟨rfl, hc⟩
  | none =>
    simp only
    refine ⟨(validate_eq_runCompiled _ _).symm, ?_⟩
    intro ty' comp' h
    unfold Cache.find at h
    by_cases hty : (ty == ty') = true
    · simp only [hty, if_true, Option.some.injEq] at h
      have : ty = ty' := by simpa using hty
      rw [← h, this]
    · simp only [hty] at h
      exact hc ty' comp' h

theorem session_eq (exprOf : Nat → List Char) : ∀ (steps : List (Nat × Env)) (c : Cache), c.Sound exprOf →
    session exprOf c steps = steps.map (fun s => validate (exprOf s.1) s.2)
  | [], _, _ => rfl
  | (ty, env) :: rest, c, hc => by
    have h := validateVia_sound exprOf c hc ty env
    unfold session
    simp only [List.map_cons]
    rw [h.1, session_eq exprOf rest _ h.2]

/-! ## the step machine -/

namespace Func
variable {ε α β : Type}

def iter {τ : Type} (f : τ → τ) : Nat → τ → τ
  | 0, x => x
  | n + 1, x => iter f n (f x)

theorem iter_succ_outer {τ : Type} (f : τ → τ) : ∀ (n : Nat) (x : τ), iter f (n + 1) x = f (iter f n x)
  | 0, _ => rfl
  | n + 1, x => by
    show iter f (n + 1) (f x) = f (iter f n (f x))
    exact iter_succ_outer f n (f x)

theorem getElem?_stepAt (args : List (ε → α)) (fn : List α → β) :
    ∀ (ts : List (ε × Thread α β)) (j i : Nat),
      (stepAt args fn ts j)[i]? =
        if i = j then ts[i]?.map (fun p => (p.1, step args fn p.1 p.2)) else ts[i]?
  | [], j, i => by simp [stepAt]
  | (e, t) :: r, 0, i => by
    cases i with
    | zero => simp [stepAt]
    | succ i => simp [stepAt]
  | p :: r, j + 1, i => by
    cases i with
    | zero => simp [stepAt]
    | succ i =>
      have := getElem?_stepAt args fn r j i
      simp only [stepAt, List.getElem?_cons_succ, this, Nat.add_right_cancel_iff]

/-- **schedule independence**: after any schedule, evaluation `i` is in the state that its own
steps alone produce - what the other evaluations did, and when, has left no trace in it -/
theorem run_get (args : List (ε → α)) (fn : List α → β) :
    ∀ (sched : List Nat) (ts : List (ε × Thread α β)) (i : Nat),
      (run args fn ts sched)[i]? =
        ts[i]?.map (fun p => (p.1, iter (step args fn p.1) (sched.count i) p.2))
  | [], ts, i => by
    simp only [run, List.foldl_nil, List.count_nil, iter]
    cases ts[i]? <;> rfl
  | j :: s, ts, i => by
    have ih := run_get args fn s (stepAt args fn ts j) i
    simp only [run, List.foldl_cons] at ih ⊢
    rw [ih, getElem?_stepAt]
    by_cases hij : i = j
    · subst hij
      simp only [if_true, List.count_cons_self]
      cases ts[i]? <;> rfl
    · have hji : ¬ (j = i) := fun h => hij h.symm
      have hb : (j == i) = false := by simpa using hji
      simp only [hij, if_false, List.count_cons, hb]
      rfl

theorem step_done (args : List (ε → α)) (fn : List α → β) (e : ε) (t : Thread α β) (r : β)
    (h : t.res = some r) : step args fn e t = t := by
  unfold step
  rw [h]

theorem iter_done (args : List (ε → α)) (fn : List α → β) (e : ε) :
    ∀ (k : Nat) (t : Thread α β) (r : β), t.res = some r → iter (step args fn e) k t = t
  | 0, _, _, _ => rfl
  | k + 1, t, r, h => by
    show iter (step args fn e) k (step args fn e t) = t
    rw [step_done args fn e t r h]
    exact iter_done args fn e k t r h

/-- the steps of one evaluation: `n` argument steps fill the buffer in order, the next step calls
the function body on it, further steps change nothing -/
theorem iter_finish (args : List (ε → α)) (fn : List α → β) (e : ε) (k : Nat) :
    ∀ (rest pre : List (ε → α)), args = pre ++ rest →
      iter (step args fn e) (rest.length + 1 + k) { buf := pre.map (· e), res := none } =
        { buf := args.map (· e), res := some (seq args fn e) }
  | [], pre, h => by
    have hpre : args = pre := by simpa using h
    have hs : step args fn e { buf := pre.map (· e), res := none } =
        { buf := args.map (· e), res := some (seq args fn e) } := by
      unfold step
      simp only [List.length_map]
      rw [hpre]
      simp [seq]
    show iter (step args fn e) (0 + 1 + k) _ = _
    rw [Nat.add_comm (0 + 1) k]
    show iter (step args fn e) k (step args fn e _) = _
    rw [hs]
    exact iter_done args fn e k _ _ rfl
  | a :: r, pre, h => by
    have hs : step args fn e { buf := pre.map (· e), res := none } =
        { buf := (pre ++ [a]).map (· e), res := none } := by
      unfold step
      simp only [List.length_map]
      rw [h]
      simp
    have ih := iter_finish args fn e k r (pre ++ [a]) (by rw [h]; simp)
    show iter (step args fn e) ((r.length + 1) + 1 + k) _ = _
    have : (r.length + 1) + 1 + k = (r.length + 1 + k) + 1 := by omega
    rw [this]
    show iter (step args fn e) (r.length + 1 + k) (step args fn e _) = _
    rw [hs]
    exact ih

/-- before its last step an evaluation has no result -/
theorem iter_unfinished (args : List (ε → α)) (fn : List α → β) (e : ε) :
    ∀ (m : Nat) (rest pre : List (ε → α)), args = pre ++ rest → m ≤ rest.length →
      (iter (step args fn e) m { buf := pre.map (· e), res := none }).res = none
  | 0, _, _, _, _ => rfl
  | m + 1, [], _, _, hm => by simp at hm
  | m + 1, a :: r, pre, h, hm => by
    have hs : step args fn e { buf := pre.map (· e), res := none } =
        { buf := (pre ++ [a]).map (· e), res := none } := by
      unfold step
      simp only [List.length_map]
      rw [h]
      simp
    show (iter (step args fn e) m (step args fn e _)).res = none
    rw [hs]
    exact iter_unfinished args fn e m r (pre ++ [a]) (by rw [h]; simp) (by simpa using hm)

/-- whatever the schedule: an evaluation that has a result has the answer of the undisturbed
evaluation of its own value -/
theorem run_private (args : List (ε → α)) (fn : List α → β) (envs : List ε) (sched : List Nat)
    (i : Nat) (e : ε) (t : Thread α β) (r : β)
    (h : (run args fn (start envs) sched)[i]? = some (e, t)) (hr : t.res = some r) :
    envs[i]? = some e ∧ r = seq args fn e := by
  rw [run_get] at h
  unfold start at h
  simp only [List.getElem?_map, Option.map_map] at h
  cases he : envs[i]? with
  | none => simp [he] at h
  | some e' =>
    simp only [he, Option.map_some, Function.comp, Option.some.injEq, Prod.mk.injEq] at h
    obtain ⟨h1, h2⟩ := h
    subst h1
    refine ⟨rfl, ?_⟩
    by_cases hc : sched.count i ≤ args.length
    · have := iter_unfinished args fn e' (sched.count i) args [] (by simp) hc
      simp only [List.map_nil] at this
      rw [h2] at this
      rw [this] at hr
      cases hr
    · have hk : sched.count i = args.length + 1 + (sched.count i - args.length - 1) := by omega
      have := iter_finish args fn e' (sched.count i - args.length - 1) args [] (by simp)
      simp only [List.map_nil] at this
      rw [← hk, h2] at this
      rw [this] at hr
      simp only [Option.some.injEq] at hr
      exact hr.symm

/-- and it does get there: once the schedule has given evaluation `i` one step per argument and
one more, it holds the sequential answer -/
theorem run_completes (args : List (ε → α)) (fn : List α → β) (envs : List ε) (sched : List Nat)
    (i : Nat) (e : ε) (he : envs[i]? = some e) (hc : args.length < sched.count i) :
    (run args fn (start envs) sched)[i]? = some (e, { buf := args.map (· e), res := some (seq args fn e) }) := by
  rw [run_get]
  unfold start
  simp only [List.getElem?_map, he, Option.map_some]
  have hk : sched.count i = args.length + 1 + (sched.count i - args.length - 1) := by omega
  have := iter_finish args fn e (sched.count i - args.length - 1) args [] (by simp)
  simp only [List.map_nil] at this
  rw [← hk] at this
  rw [this]

/-! the node-owned buffer: a concrete schedule on which an evaluation answers for the other's value -/

/-- `in(x, 1, 2)` on naturals -/
def demoArgs : List (Nat → Nat) := [id, fun _ => 1, fun _ => 2]
def demoIn : List Nat → Bool
  | [] => true
  | x :: set => set.contains x

def demoSched : List Nat := [0, 0, 1, 1, 1, 1, 0, 0]

theorem runShared_fails_at :
    ((runShared demoArgs demoIn { buf := [0, 0, 0], ts := [(1, {}), (9, {})] } demoSched).ts.map (fun p => p.2.res))
      = [some false, some false] ∧ seq demoArgs demoIn 1 = true := by
  decide

end Func

/-! ## `funcNode` is the step machine's sequential answer -/

theorem mapM_map_id (env : Env) : ∀ (args : List Operand),
    (args.map (fun a => a.run env)).mapM id = args.mapM (fun a => a.run env)
  | [] => rfl
  | a :: t => by
    simp only [List.map_cons, List.mapM_cons, id]
    rw [mapM_map_id env t]

theorem funcNode_run_eq_seq (name : String) (args : List Operand) (bo so : Option Bool) (env : Env) :
    (funcNode name args bo so).run env = Func.seq (args.map (fun (a : Operand) => a.run)) (funcBody name bo so) env := by
  show (do
      let vs ← args.mapM (fun (a : Operand) => a.run env)
      let r := applyFn name vs
      return realValue r bo so) = _
  unfold Func.seq funcBody
  simp only [List.map_map]
  have : (List.map ((fun x => x env) ∘ fun (a : Operand) => a.run) args) = args.map (fun a => a.run env) := rfl
  rw [this, mapM_map_id]

end Hertz.Tagexpr
