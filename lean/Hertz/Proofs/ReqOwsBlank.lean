import Hertz.Proofs.ReqRoundtripOws
/-!
Empty lines (CRLF) in front of a request line (RFC 7230 §3.5: a server SHOULD ignore at least one): `parseFirstLine`
skips any number of them, counting their bytes; the round trip of `Proofs/ReqRoundtripOws.lean` holds with any number
of empty lines in front of every request.  (The strict decoder `Spec/Http.lean` does not accept them, so the per-case
check makes no claim about such streams; this is a statement about the server model only.)
-/
namespace Hertz.H1.RT
open Hertz Hertz.H1 Hertz.Gen.Str Hertz.Spec.Http

/-- `k` empty lines -/
def crlfs : Nat → Bytes
  | 0 => []
  | k + 1 => 13 :: 10 :: crlfs k

theorem crlfs_length : ∀ k, (crlfs k).length = 2 * k
  | 0 => rfl
  | k + 1 => by simp [crlfs, crlfs_length k]; omega

theorem nextLine_crlf_nil (X : Bytes) : nextLine (13 :: 10 :: X) = some ([], X) := by
  simp [nextLine, indexByte]

theorem parseFirstLineAux_skip (X : Bytes) : ∀ (k fuel c0 : Nat),
    parseFirstLineAux (fuel + k) (crlfs k ++ X) c0 = parseFirstLineAux fuel X (c0 + 2 * k)
  | 0, fuel, c0 => by simp [crlfs]
  | k + 1, fuel, c0 => by
    have ih := parseFirstLineAux_skip X k fuel (c0 + 2)
    rw [show fuel + (k + 1) = (fuel + k) + 1 by omega]
    simp only [crlfs, List.cons_append, parseFirstLineAux, nextLine_crlf_nil, List.isEmpty_nil, if_true,
      List.length_cons]
    rw [show c0 + ((crlfs k ++ X).length + 1 + 1 - (crlfs k ++ X).length) = c0 + 2 by omega, ih]
    congr 1; omega

theorem line_nonempty (c : UInt8) (T : Bytes) (h13 : c ≠ 13) :
    (if (c :: T).getLast? = some 13 then (c :: T).dropLast else c :: T).isEmpty = false := by
  cases T with
  | nil => simp [h13]
  | cons y t =>
    split
    · simp [List.dropLast]
    · simp

/-- a line that starts with neither CR nor LF is not empty: one step decides, whatever the fuel -/
theorem parseFirstLineAux_line (c : UInt8) (X : Bytes) (h13 : c ≠ 13) (h10 : c ≠ 10) (fuel c0 : Nat) :
    parseFirstLineAux (fuel + 1) (c :: X) c0 =
      match nextLine (c :: X) with
      | none => .error .needMore
      | some (line, rest) => .ok (line, c0 + ((c :: X).length - rest.length)) := by
  simp only [parseFirstLineAux]
  cases hn : nextLine (c :: X) with
  | none => rfl
  | some p =>
    obtain ⟨line, rest⟩ := p
    have hne : line.isEmpty = false := by
      unfold nextLine at hn
      cases hi : indexByte 10 (c :: X) with
      | none => simp [hi] at hn
      | some n =>
        simp only [hi, Option.some.injEq, Prod.mk.injEq] at hn
        obtain ⟨hl, _⟩ := hn
        cases n with
        | zero => simp [indexByte, h10] at hi
        | succ n =>
          rw [← hl]
          simp only [List.take_succ_cons]
          exact line_nonempty c (List.take n X) h13
    simp [hne]

theorem parseFirstLine_skip (k : Nat) (c : UInt8) (X : Bytes) (h13 : c ≠ 13) (h10 : c ≠ 10) :
    parseFirstLine (crlfs k ++ c :: X) =
      (match parseFirstLine (c :: X) with
       | .ok (hd, n) => .ok (hd, n + 2 * k)
       | .error x => .error x) := by
  unfold parseFirstLine
  have hlen : (crlfs k ++ c :: X).length + 1 = ((c :: X).length + k) + 1 + k := by
    simp [crlfs_length]; omega
  rw [hlen, parseFirstLineAux_skip (c :: X) k _ 0, parseFirstLineAux_line c X h13 h10,
    show (c :: X).length + 1 = (c :: X).length + 1 from rfl, parseFirstLineAux_line c X h13 h10]
  cases hn : nextLine (c :: X) with
  | none => rfl
  | some p =>
    obtain ⟨line, rest⟩ := p
    simp only [bind, Except.bind, Nat.zero_add]
    cases indexByte 32 line with
    | none => rfl
    | some n =>
      cases n with
      | zero => rfl
      | succ n =>
        simp only
        cases lastIndexByte 32 (List.drop (n + 1 + 1) line) with
        | none => simp; omega
        | some m =>
          cases m with
          | zero => rfl
          | succ m => simp; omega

theorem parseReqHead_skip (dn : Bool) (k : Nat) (c : UInt8) (X : Bytes) (h13 : c ≠ 13) (h10 : c ≠ 10) :
    parseReqHead dn (crlfs k ++ c :: X) =
      (match parseReqHead dn (c :: X) with
       | .ok (hd, n) => .ok (hd, n + 2 * k)
       | .error x => .error x) := by
  unfold parseReqHead
  rw [parseFirstLine_skip k c X h13 h10]
  cases hp : parseFirstLine (c :: X) with
  | error x => rfl
  | ok p =>
    obtain ⟨hd, m⟩ := p
    simp only [bind, Except.bind]
    have hd' : List.drop (m + 2 * k) (crlfs k ++ c :: X) = List.drop m (c :: X) := by
      rw [List.drop_append, List.drop_of_length_le (by rw [crlfs_length]; omega), crlfs_length]
      simp
    rw [hd']
    cases rawHeadersLen (List.drop m (c :: X)) with
    | none => rfl
    | some _ =>
      simp only
      cases parseHeaders dn hd (List.drop m (c :: X)) with
      | error x => rfl
      | ok q => obtain ⟨hd2, n⟩ := q; simp; omega

/-- The server loop ignores any number of empty lines in front of a request line (a buffer whose first byte after them
is neither CR nor LF; at least four bytes, which is what the loop waits for between requests). -/
theorem serveLoop_skip (cfg : Cfg) (e : End) (fuel : Nat) (first : Bool) (k : Nat) (c : UInt8) (X : Bytes)
    (h13 : c ≠ 13) (h10 : c ≠ 10) (hlen : 4 ≤ (c :: X).length) :
    serveLoop cfg e (fuel + 1) first (crlfs k ++ c :: X) = serveLoop cfg e (fuel + 1) first (c :: X) := by
  have hstep : ∀ s, serveLoop cfg e (fuel + 1) first s =
      (if (!first && decide (s.length < 4)) = true then [] else
        match parseReqHead cfg.disableNorm s with
        | .error .bad => [.resp 400 true]
        | .error .needMore =>
          if s.isEmpty then (match e with | .eof => [] | .stall => [.resp 408 true])
          else (match e with | .eof => [.resp 400 true] | .stall => [.resp 408 true])
        | .ok (hd, n) =>
          match continueReadBody cfg e hd (s.drop n) with
          | .err .unmodelled => (if mayContinue hd then [Ev.continue100] else []) ++ [.unmodelled]
          | .err x =>
            (if mayContinue hd then [Ev.continue100] else []) ++
              (match errStatus x with
               | some st => [.resp st true]
               | none => if mayContinue hd then [.resp 400 true] else [])
          | .ok hd' body tr rest' =>
            (if mayContinue hd then [Ev.continue100] else []) ++
              [.req { head := hd', body := body, trailers := tr }, .resp 200 (cfg.disableKeepalive || hd'.connClose)] ++
              (if (cfg.disableKeepalive || hd'.connClose) = true then [] else serveLoop cfg e fuel false rest')) := by
    intro s; rfl
  have hl1 : ¬ ((crlfs k ++ c :: X).length < 4) := by
    simp only [List.length_append]; omega
  have hl2 : ¬ ((c :: X).length < 4) := by omega
  rw [hstep, hstep]
  simp only [hl1, hl2, Bool.and_false, Bool.false_eq_true, if_false, decide_false]
  rw [parseReqHead_skip cfg.disableNorm k c X h13 h10]
  cases hp : parseReqHead cfg.disableNorm (c :: X) with
  | error x =>
    cases x with
    | bad => rfl
    | needMore =>
      have : (crlfs k ++ c :: X).isEmpty = false := by simp
      simp [this]
  | ok p =>
    obtain ⟨hd, n⟩ := p
    have hd' : List.drop (n + 2 * k) (crlfs k ++ c :: X) = List.drop n (c :: X) := by
      rw [List.drop_append, List.drop_of_length_le (by rw [crlfs_length]; omega), crlfs_length]
      simp
    simp only [hd']

/-! ### pipelined requests, each preceded by any number of empty lines -/

def encAllB : List (Nat × OReq) → Bytes
  | [] => []
  | p :: t => crlfs p.1 ++ (encReqO p.2 ++ encAllB t)

theorem encReqO_head (r : OReq) (hm : isToken r.method = true) (rest : Bytes) :
    ∃ c X, encReqO r ++ rest = c :: X ∧ c ≠ 13 ∧ c ≠ 10 := by
  obtain ⟨hm0, hmf⟩ := token_facts r.method hm
  obtain ⟨a, m', hk⟩ := List.exists_cons_of_ne_nil hm0
  have ha := hmf a (by simp [hk])
  exact ⟨a, _, by simp [encReqO, encHeadOfO, encHeadO, hk]; rfl, ha.ne13, ha.ne10⟩

theorem encAllB_length_ge : ∀ rs : List (Nat × OReq), rs.length ≤ (encAllB rs).length
  | [] => by simp
  | p :: t => by
    have := encAllB_length_ge t
    have := encReqO_length_pos p.2
    simp [encAllB]; omega

theorem serveLoop_encB (cfg : Cfg) (e : End) : ∀ (rs : List (Nat × OReq)) (fuel : Nat) (first : Bool), rs.length < fuel →
    (∀ p ∈ rs, wfOReq cfg.disableNorm p.2 = true ∧ withinLimits cfg (seenW p.2) = true) →
    handled (serveLoop cfg e fuel first (encAllB rs)) =
      (served cfg.disableKeepalive (rs.map (fun p => seenW p.2))).map (expectedSeen cfg.disableNorm)
  | [], fuel, first, hf, _ => by
    obtain ⟨f, rfl⟩ : ∃ f, fuel = f + 1 := ⟨fuel - 1, by omega⟩
    have hp : parseReqHead cfg.disableNorm [] = .error .needMore := by
      simp [parseReqHead, parseFirstLine, parseFirstLineAux, nextLine, indexByte, bind, Except.bind]
    cases first <;> cases e <;> simp [serveLoop, encAllB, served, handled, hp]
  | p :: rs, fuel, first, hf, hw => by
    obtain ⟨f, rfl⟩ : ∃ f, fuel = f + 1 := ⟨fuel - 1, by omega⟩
    obtain ⟨hwf, hlim⟩ := hw p (by simp)
    obtain ⟨hm, _⟩ := wfOReq_facts p.2 hwf
    have ih := serveLoop_encB cfg e rs f false (by simp at hf; omega) (fun x hx => hw x (by simp [hx]))
    obtain ⟨c, X, hcX, h13, h10⟩ := encReqO_head p.2 hm (encAllB rs)
    have hlen : 4 ≤ (c :: X).length := by
      rw [← hcX]
      have := encHeadOfO_length p.2
      simp [encReqO]; omega
    have e1 : encAllB (p :: rs) = crlfs p.1 ++ (encReqO p.2 ++ encAllB rs) := rfl
    rw [e1, hcX, serveLoop_skip cfg e f first p.1 c X h13 h10 hlen, ← hcX, serveLoop_stepO cfg e p.2 hwf hlim]
    unfold handled at ih ⊢
    simp only [List.filterMap_append]
    have hp := handled_pre (mayContinue (expectedHead cfg.disableNorm (seenW p.2)))
    unfold handled at hp
    rw [hp]
    cases hc : (cfg.disableKeepalive || closes (seenW p.2))
    · simp [served, hc, ih]
    · simp [served, hc]

/-- `serve_roundtrip_ows` with any number of empty lines in front of every request line. -/
theorem serve_encB (cfg : Cfg) (e : End) (rs : List (Nat × OReq))
    (hw : ∀ p ∈ rs, wfOReq cfg.disableNorm p.2 = true ∧ withinLimits cfg (seenW p.2) = true) :
    handled (serve cfg e (encAllB rs)) =
      (served cfg.disableKeepalive (rs.map (fun p => seenW p.2))).map (expectedSeen cfg.disableNorm) :=
  serveLoop_encB cfg e rs _ true (by have := encAllB_length_ge rs; omega) hw

/-- the strict decoder does not accept an empty line in front of a request line (so the per-case comparison makes no
claim about such streams) -/
theorem decodeAll_blank (X : Bytes) : decodeAll (13 :: 10 :: X) = none := by
  have h1 : decodeOne (13 :: 10 :: X) = none := by
    simp [decodeOne, crlfLine, splitAt1]
  unfold decodeAll
  simp [decodeAllAux, h1]

end Hertz.H1.RT
