import Hertz.Model.Hz
import Hertz.Spec.Hz
/-!
Lemmas for C16.

Part A (`build_routes`): the tree built by `Update` for a method list carries exactly the declared
routes — for ANY sorting function that permutes its input, so independent of `sort.Sort`'s algorithm.
Part B (`dye_idents`): the names `DyeGroupName` hands out are pairwise distinct, hence the functions of
middleware.go and the group variables of `Register` are (camel style).
-/
namespace Hertz.Hz

/-! ## Part A: the route set of the tree -/

mutual
/-- handler nodes below (and including) a node, each with the list of node `Path`s leading to it;
`pre` already contains the node's own path -/
def routesN : List Bytes → Node → List (List Bytes × Info)
  | pre, .mk i cs => (if i.handler.isEmpty then [] else [(pre, i)]) ++ routesL pre cs
def routesL : List Bytes → List Node → List (List Bytes × Info)
  | _, [] => []
  | pre, c :: r => routesN (pre ++ [c.info.path]) c ++ routesL pre r
end

/-- routes of a whole tree (the root's own path `/` is the base of `r.Group("/")`, not a path element) -/
def routes (root : Node) : List (List Bytes × Info) := routesN [] root

theorem routesL_eq (pre : List Bytes) (cs : List Node) :
    routesL pre cs = cs.flatMap (fun c => routesN (pre ++ [c.info.path]) c) := by
  induction cs with
  | nil => simp [routesL]
  | cons c r ih => simp [routesL, ih]

theorem routesN_mk (pre : List Bytes) (i : Info) (cs : List Node) :
    routesN pre (.mk i cs) = (if i.handler.isEmpty then [] else [(pre, i)]) ++
      cs.flatMap (fun c => routesN (pre ++ [c.info.path]) c) := by
  rw [routesN, routesL_eq]

theorem routesL_perm (pre : List Bytes) {a b : List Node} (h : a.Perm b) :
    (routesL pre a).Perm (routesL pre b) := by
  rw [routesL_eq, routesL_eq]; exact h.flatMap_right _

/-- the node paths met when following an address -/
def pathAt : Node → List Nat → Option (List Bytes)
  | _, [] => some []
  | .mk _ cs, k :: a =>
    match cs[k]? with
    | none => none
    | some c => (pathAt c a).map (c.info.path :: ·)

theorem firstMatch_spec (s : Bool) (seg : Bytes) :
    ∀ (cs : List Node) (k0 k : Nat) (c : Node), firstMatch s seg cs k0 = some (k, c) →
      k0 ≤ k ∧ cs[k - k0]? = some c ∧ c.info.path = sl :: seg := by
  intro cs
  induction cs with
  | nil => intro k0 k c h; simp [firstMatch] at h
  | cons d r ih =>
    intro k0 k c h
    unfold firstMatch at h
    split at h
    · rename_i hc
      simp only [Option.some.injEq, Prod.mk.injEq] at h
      obtain ⟨rfl, rfl⟩ := h
      simp only [Bool.and_eq_true, decide_eq_true_eq] at hc
      simp [hc.1]
    · have := ih (k0 + 1) k c h
      obtain ⟨h1, h2, h3⟩ := this
      refine ⟨by omega, ?_, h3⟩
      have : k - k0 = (k - (k0 + 1)) + 1 := by omega
      rw [this]; simpa using h2

theorem findNearest_spec (s : Bool) :
    ∀ (paths : List Bytes) (n : Node) (addr : List Nat) (last : Nat),
      findNearest s n paths = .ok (addr, last) →
      last < paths.length ∧ pathAt n addr = some ((paths.take last).map (sl :: ·)) := by
  intro paths
  induction paths with
  | nil => intro n addr last h; cases n; simp [findNearest] at h
  | cons p rest ih =>
    intro n addr last h
    obtain ⟨i, cs⟩ := n
    unfold findNearest at h
    split at h
    · simp only [Except.ok.injEq, Prod.mk.injEq] at h
      obtain ⟨rfl, rfl⟩ := h
      simp [pathAt]
    · rename_i k c hm
      obtain ⟨_, hk, hp⟩ := firstMatch_spec s p cs 0 k c hm
      split at h
      · simp only [Except.ok.injEq, Prod.mk.injEq] at h
        obtain ⟨rfl, rfl⟩ := h
        simp [pathAt]
      · rename_i q rest'
        split at h
        · rename_i a n' hrec
          simp only [Except.ok.injEq, Prod.mk.injEq] at h
          obtain ⟨rfl, rfl⟩ := h
          obtain ⟨h1, h2⟩ := ih c a n' hrec
          refine ⟨by simp at h1 ⊢; omega, ?_⟩
          simp only [Nat.sub_zero] at hk
          simp [pathAt, hk, h2, hp]
        · simp at h

theorem findNearest_no_panic (s : Bool) :
    ∀ (paths : List Bytes) (n : Node), paths ≠ [] → ∃ r, findNearest s n paths = .ok r := by
  intro paths
  induction paths with
  | nil => intro n h; exact absurd rfl h
  | cons p rest ih =>
    intro n _
    obtain ⟨i, cs⟩ := n
    unfold findNearest
    split
    · exact ⟨_, rfl⟩
    · rename_i k c _
      split
      · exact ⟨_, rfl⟩
      · rename_i q rest'
        obtain ⟨r, hr⟩ := ih c (by simp)
        obtain ⟨a, m⟩ := r
        simp only [hr]
        exact ⟨_, rfl⟩

theorem modNth_flatMap {β : Type} (f : Node → Node) (g : Node → List β) :
    ∀ (cs : List Node) (k : Nat) (c : Node), cs[k]? = some c →
      ∃ l1 l2, cs = l1 ++ c :: l2 ∧ modNth f cs k = l1 ++ f c :: l2 := by
  intro cs
  induction cs with
  | nil => intro k c h; simp at h
  | cons d r ih =>
    intro k c h
    cases k with
    | zero =>
      simp only [List.getElem?_cons_zero, Option.some.injEq] at h
      subst h
      exact ⟨[], r, rfl, rfl⟩
    | succ k =>
      simp only [List.getElem?_cons_succ] at h
      obtain ⟨l1, l2, h1, h2⟩ := ih k c h
      exact ⟨d :: l1, l2, by simp [h1], by simp [modNth, h2]⟩

theorem insertAt_path (srt : List Node → List Node) (c : Node) :
    ∀ (addr : List Nat) (n : Node), (insertAt srt c addr n).info.path = n.info.path := by
  intro addr n
  cases addr <;> obtain ⟨i, cs⟩ := n <;> simp [insertAt, Node.info]

/-- inserting below the node at `addr` adds exactly the routes of the new subtree, prefixed by the
paths along `addr` -/
theorem insertAt_routes (srt : List Node → List Node) (hs : ∀ l, (srt l).Perm l) (c : Node) :
    ∀ (addr : List Nat) (n : Node) (pre q : List Bytes), pathAt n addr = some q →
      (routesN pre (insertAt srt c addr n)).Perm
        (routesN pre n ++ routesN (pre ++ q ++ [c.info.path]) c) := by
  intro addr
  induction addr with
  | nil =>
    intro n pre q h
    obtain ⟨i, cs⟩ := n
    simp only [pathAt, Option.some.injEq] at h
    subst h
    simp only [insertAt, routesN, List.append_nil]
    rw [List.append_assoc]
    apply List.Perm.append_left
    refine (routesL_perm pre (hs _)).trans ?_
    rw [routesL_eq, routesL_eq]
    simp [routesN_mk]
  | cons k a ih =>
    intro n pre q h
    obtain ⟨i, cs⟩ := n
    simp only [pathAt] at h
    cases hk : cs[k]? with
    | none => simp [hk] at h
    | some ck =>
      simp only [hk, Option.map_eq_some_iff] at h
      obtain ⟨q', hq', rfl⟩ := h
      obtain ⟨l1, l2, h1, h2⟩ := modNth_flatMap (β := Nat) (insertAt srt c a) (fun _ => []) cs k ck hk
      simp only [insertAt, routesN, h2]
      rw [List.append_assoc]
      apply List.Perm.append_left
      rw [routesL_eq, routesL_eq, h1]
      simp only [List.flatMap_append, List.flatMap_cons, insertAt_path]
      have := ih ck (pre ++ [ck.info.path]) q' hq'
      rw [List.append_assoc, List.append_assoc]
      apply List.Perm.append_left
      have e : pre ++ [ck.info.path] ++ q' ++ [c.info.path] = pre ++ ck.info.path :: q' ++ [c.info.path] := by simp
      rw [e] at this
      refine (List.Perm.append_right _ this).trans ?_
      rw [List.append_assoc, List.append_assoc]
      apply List.Perm.append_left
      exact List.perm_append_comm

/-- a leaf `Info` as `Insert` builds it -/
def IsLeafFor (cfg : Cfg) (m : Method) (li : Info) : Prop :=
  li.httpMethod = getHttpMethod m.verb ∧ li.handler = li.handlerAlias ++ [46] ++ m.name ∧ li.middleWare = []

theorem leafInfo_isLeaf (cfg : Cfg) (m : Method) (seg : Bytes) (st : PkgSt) :
    IsLeafFor cfg m (leafInfo cfg m seg st).1 ∧ (leafInfo cfg m seg st).1.path = sl :: seg := by
  simp [leafInfo, IsLeafFor]

theorem chain_routes (li : Info) (hh : li.handler.isEmpty = false) :
    ∀ (rest : List Bytes) (pre : List Bytes), rest ≠ [] → li.path = sl :: rest.getLast?.getD [] →
      ∃ c, chain (fun _ => li) rest = some c ∧ c.info.path = sl :: rest.headD [] ∧
        routesN (pre ++ [c.info.path]) c = [(pre ++ rest.map (sl :: ·), li)] := by
  intro rest
  induction rest with
  | nil => intro pre h; exact absurd rfl h
  | cons p r ih =>
    intro pre _ hp
    cases r with
    | nil =>
      refine ⟨.mk li [], by simp [chain], by simpa [Node.info] using hp, ?_⟩
      simp only [List.getLast?_singleton, Option.getD_some] at hp
      simp [routesN, routesL, hh, Node.info, hp]
    | cons q r' =>
      have hp' : li.path = sl :: (q :: r').getLast?.getD [] := by
        simpa [List.getLast?_cons_cons] using hp
      obtain ⟨c, hc, hcp, hcr⟩ := ih (pre ++ [sl :: p]) (by simp) hp'
      refine ⟨.mk { path := sl :: p } [c], by simp [chain, hc], by simp [Node.info], ?_⟩
      have e : (Node.mk ({ path := sl :: p } : Info) [c]).info.path = sl :: p := rfl
      rw [e, routesN_mk]
      have : ({ path := sl :: p } : Info).handler.isEmpty = true := rfl
      simp only [this, if_true, List.nil_append, List.flatMap_cons, List.flatMap_nil, List.append_nil]
      rw [hcr]
      simp

/-- the path elements `Update` works with: `strings.Split(path, "/")` without a leading empty element -/
def segsOf (p : Bytes) : List Bytes :=
  match splitSlash p with
  | [] :: r => r
  | l => l

theorem splitSlash_ne_nil : ∀ b : Bytes, splitSlash b ≠ [] := by
  intro b
  induction b with
  | nil => simp [splitSlash]
  | cons c t ih =>
    unfold splitSlash
    split
    · simp
    · split <;> simp

theorem segsOf_ne_nil (p : Bytes) (hp : p ≠ []) : segsOf p ≠ [] := by
  cases p with
  | nil => exact absurd rfl hp
  | cons c t =>
    by_cases hc : c = sl
    · have : segsOf (c :: t) = splitSlash t := by simp [segsOf, splitSlash, hc]
      rw [this]; exact splitSlash_ne_nil t
    · cases hs : splitSlash t with
      | nil => exact absurd hs (splitSlash_ne_nil t)
      | cons h r =>
        have : segsOf (c :: t) = (c :: h) :: r := by simp [segsOf, splitSlash, hc, hs]
        rw [this]; simp

/-- key of a declared method and of a route of the tree: verb as rendered, path elements, handler name -/
def declKey (m : Method) : Bytes × List Bytes × Bytes :=
  (getHttpMethod m.verb, (segsOf m.path).map (sl :: ·), m.name)
def routeKey (r : List Bytes × Info) : Bytes × List Bytes × Bytes :=
  (r.2.httpMethod, r.1, r.2.handler.drop (r.2.handlerAlias.length + 1))

theorem isLeaf_handler_nonempty {cfg : Cfg} {m : Method} {li : Info} (h : IsLeafFor cfg m li) :
    li.handler.isEmpty = false := by
  rw [h.2.1]; simp

theorem update_routes (srt : List Node → List Node) (hs : ∀ l, (srt l).Perm l) (cfg : Cfg)
    (root root' : Node) (st st' : PkgSt) (m : Method)
    (h : updateWith srt cfg root st m = .ok (root', st')) :
    ((routes root').map routeKey).Perm ((routes root).map routeKey ++ [declKey m]) := by
  unfold updateWith at h
  split at h
  · simp at h
  · rename_i hne
    have hseg : segsOf m.path ≠ [] := segsOf_ne_nil m.path (by simpa using hne)
    change (match findNearest cfg.sortRouter root (segsOf m.path) with
      | .error e => (Except.error e : Except Err (Node × PkgSt))
      | .ok (addr, last) =>
        if last = (segsOf m.path).length then Except.error Err.registered
        else
          match chain (fun _ => (leafInfo cfg m (((segsOf m.path).drop last).getLast?.getD []) st).1)
              ((segsOf m.path).drop last) with
          | none => Except.ok (root, st)
          | some c => Except.ok (insertAt srt c addr root,
              (leafInfo cfg m (((segsOf m.path).drop last).getLast?.getD []) st).2)) = _ at h
    split at h
    · simp at h
    · rename_i addr last hf
      obtain ⟨hl, hp⟩ := findNearest_spec cfg.sortRouter _ root addr last hf
      rw [if_neg (by omega)] at h
      have hrest : (segsOf m.path).drop last ≠ [] := by
        intro e; have := congrArg List.length e; simp at this; omega
      obtain ⟨hleaf, hpath⟩ := leafInfo_isLeaf cfg m (((segsOf m.path).drop last).getLast?.getD []) st
      obtain ⟨c, hc, hcp, hcr⟩ := chain_routes _ (isLeaf_handler_nonempty hleaf) _
        ((segsOf m.path).take last |>.map (sl :: ·)) hrest hpath
      rw [hc] at h
      simp only [Except.ok.injEq, Prod.mk.injEq] at h
      obtain ⟨rfl, _⟩ := h
      have := insertAt_routes srt hs c addr root [] _ hp
      unfold routes
      refine (this.map routeKey).trans ?_
      rw [List.map_append]
      apply List.Perm.append_left
      simp only [List.nil_append] at hcr ⊢
      rw [hcr]
      simp only [List.map_cons, List.map_nil, routeKey, declKey]
      rw [← List.map_append, List.take_append_drop]
      obtain ⟨h1, h2, _⟩ := hleaf
      rw [h1, h2]
      simp

theorem buildWith_routes (srt : List Node → List Node) (hs : ∀ l, (srt l).Perm l) (cfg : Cfg) :
    ∀ (ms : List Method) (root root' : Node) (st st' : PkgSt),
      buildWith srt cfg root st ms = .ok (root', st') →
      ((routes root').map routeKey).Perm ((routes root).map routeKey ++ ms.map declKey) := by
  intro ms
  induction ms with
  | nil =>
    intro root root' st st' h
    simp only [buildWith, Except.ok.injEq, Prod.mk.injEq] at h
    obtain ⟨rfl, _⟩ := h
    simp
  | cons m ms ih =>
    intro root root' st st' h
    unfold buildWith at h
    split at h
    · simp at h
    · rename_i r1 s1 hu
      have h1 := update_routes srt hs cfg root r1 st s1 m hu
      have h2 := ih r1 root' s1 st' h
      refine h2.trans ?_
      rw [List.map_cons]
      have : (routes root).map routeKey ++ declKey m :: ms.map declKey
          = ((routes root).map routeKey ++ [declKey m]) ++ ms.map declKey := by simp
      rw [this]
      exact List.Perm.append_right _ h1

/-- `Update` never panics and fails only on an empty path -/
theorem updateWith_error (srt : List Node → List Node) (cfg : Cfg) (root : Node) (st : PkgSt) (m : Method)
    (e : Err) (h : updateWith srt cfg root st m = .error e) : e = .emptyPath ∧ m.path = [] := by
  unfold updateWith at h
  split at h
  · rename_i he
    simp only [Except.error.injEq] at h
    exact ⟨h.symm, by simpa using he⟩
  · rename_i hne
    have hseg : segsOf m.path ≠ [] := segsOf_ne_nil m.path (by simpa using hne)
    change (match findNearest cfg.sortRouter root (segsOf m.path) with
      | .error e => (Except.error e : Except Err (Node × PkgSt))
      | .ok (addr, last) =>
        if last = (segsOf m.path).length then Except.error Err.registered
        else
          match chain (fun _ => (leafInfo cfg m (((segsOf m.path).drop last).getLast?.getD []) st).1)
              ((segsOf m.path).drop last) with
          | none => Except.ok (root, st)
          | some c => Except.ok (insertAt srt c addr root,
              (leafInfo cfg m (((segsOf m.path).drop last).getLast?.getD []) st).2)) = _ at h
    obtain ⟨⟨addr, last⟩, hf⟩ := findNearest_no_panic cfg.sortRouter (segsOf m.path) root hseg
    rw [hf] at h
    obtain ⟨hl, _⟩ := findNearest_spec cfg.sortRouter _ root addr last hf
    simp only at h
    rw [if_neg (by omega)] at h
    split at h <;> simp at h

theorem buildWith_error (srt : List Node → List Node) (cfg : Cfg) :
    ∀ (ms : List Method) (root : Node) (st : PkgSt) (e : Err),
      buildWith srt cfg root st ms = .error e → e = .emptyPath ∧ ∃ m ∈ ms, m.path = [] := by
  intro ms
  induction ms with
  | nil => intro root st e h; simp [buildWith] at h
  | cons m ms ih =>
    intro root st e h
    unfold buildWith at h
    split at h
    · rename_i e' hu
      simp only [Except.error.injEq] at h
      subst h
      obtain ⟨h1, h2⟩ := updateWith_error srt cfg root st m _ hu
      exact ⟨h1, m, by simp, h2⟩
    · rename_i r1 s1 _
      obtain ⟨h1, m', hm, h2⟩ := ih r1 s1 e h
      exact ⟨h1, m', by simp [hm], h2⟩

theorem buildWith_ok (srt : List Node → List Node) (cfg : Cfg) :
    ∀ (ms : List Method) (root : Node) (st : PkgSt), (∀ m ∈ ms, m.path ≠ []) →
      ∃ r, buildWith srt cfg root st ms = .ok r := by
  intro ms root st h
  cases hb : buildWith srt cfg root st ms with
  | ok r => exact ⟨r, rfl⟩
  | error e =>
    obtain ⟨_, m, hm, hp⟩ := buildWith_error srt cfg ms root st e hb
    exact absurd hp (h m hm)

/-! ### the Go sort permutes -/

theorem sinkLeft_perm (x : Node) : ∀ l : List Node, (sinkLeft x l).Perm (x :: l) := by
  intro l
  induction l with
  | nil => simp [sinkLeft]
  | cons p r ih =>
    unfold sinkLeft
    split
    · exact (List.Perm.cons p ih).trans (List.Perm.swap x p r)
    · exact List.Perm.refl _

theorem insertionSortAux_perm : ∀ (t acc : List Node), (insertionSortAux acc t).Perm (acc ++ t) := by
  intro t
  induction t with
  | nil => intro acc; simp [insertionSortAux]
  | cons x t ih =>
    intro acc
    unfold insertionSortAux
    refine (ih _).trans ?_
    refine (List.Perm.append_right t (sinkLeft_perm x acc)).trans ?_
    simp only [List.cons_append]
    exact (List.perm_middle).symm

theorem goSort_perm (l : List Node) : (goSort l).Perm l := by
  simpa [goSort] using insertionSortAux_perm l []

theorem updSort_perm (s : Bool) (l : List Node) : (updSort s l).Perm l := by
  unfold updSort
  split
  · exact (goSort_perm _).trans (goSort_perm _)
  · exact goSort_perm _

/-! ### path elements and the declared path string -/

theorem flatten_split (t : Bytes) : ((splitSlash t).map (sl :: ·)).flatten = sl :: t := by
  induction t with
  | nil => simp [splitSlash]
  | cons c t ih =>
    unfold splitSlash
    split
    · rename_i hc
      simp [ih, hc]
    · split
      · rename_i h r heq
        rw [heq] at ih
        simp only [List.map_cons, List.flatten_cons, List.cons_append, List.cons.injEq, true_and] at ih ⊢
        rw [ih]
      · rename_i heq
        exact absurd heq (splitSlash_ne_nil t)

/-- for a path with a leading slash the node paths of a route, concatenated, spell the declared path -/
theorem segs_spell_path (t : Bytes) : ((segsOf (sl :: t)).map (sl :: ·)).flatten = sl :: t := by
  have : segsOf (sl :: t) = splitSlash t := by
    simp [segsOf, splitSlash]
  rw [this, flatten_split]

/-! ## Part B: identifiers -/

mutual
/-- `MiddleWare` of every node with children, in DFS order: the variables `Register` declares -/
def groupVars : Node → List Bytes
  | .mk i cs => (if cs.isEmpty then [] else [i.middleWare]) ++ groupVarsL cs
def groupVarsL : List Node → List Bytes
  | [] => []
  | c :: r => groupVars c ++ groupVarsL r
end

mutual
/-- no node of the subtree has been named yet (as `Insert` creates them) -/
def FreshN : Node → Prop
  | .mk i cs => i.middleWare = [] ∧ FreshL cs
def FreshL : List Node → Prop
  | [] => True
  | c :: r => FreshN c ∧ FreshL r
end

theorem freshL_iff (l : List Node) : FreshL l ↔ ∀ c ∈ l, FreshN c := by
  induction l with
  | nil => simp [FreshL]
  | cons c r ih => simp [FreshL, ih]

theorem chain_fresh (li : Info) (hl : li.middleWare = []) :
    ∀ (rest : List Bytes) (c : Node), chain (fun _ => li) rest = some c → FreshN c := by
  intro rest
  induction rest with
  | nil => intro c h; simp [chain] at h
  | cons p r ih =>
    intro c h
    cases r with
    | nil =>
      simp only [chain, Option.some.injEq] at h
      subst h
      simp [FreshN, FreshL, hl]
    | cons q r' =>
      unfold chain at h
      split at h
      · rename_i c' hc'
        simp only [Option.some.injEq] at h
        subst h
        simp [FreshN, FreshL, ih c' hc']
      · simp at h

theorem modNth_mem (f : Node → Node) : ∀ (cs : List Node) (k : Nat) (x : Node),
    x ∈ modNth f cs k → x ∈ cs ∨ ∃ c ∈ cs, x = f c := by
  intro cs
  induction cs with
  | nil => intro k x h; simp [modNth] at h
  | cons d r ih =>
    intro k x h
    cases k with
    | zero =>
      simp only [modNth, List.mem_cons] at h
      rcases h with h | h
      · right; exact ⟨d, by simp, h⟩
      · left; simp [h]
    | succ k =>
      simp only [modNth, List.mem_cons] at h
      rcases h with h | h
      · left; simp [h]
      · rcases ih k x h with h' | ⟨c, hc, hx⟩
        · left; simp [h']
        · right; exact ⟨c, by simp [hc], hx⟩

theorem insertAt_fresh (srt : List Node → List Node) (hs : ∀ l, (srt l).Perm l) (c : Node) (hc : FreshN c) :
    ∀ (addr : List Nat) (n : Node), FreshL n.children →
      FreshL (insertAt srt c addr n).children ∧ (insertAt srt c addr n).info = n.info := by
  intro addr
  induction addr with
  | nil =>
    intro n h
    obtain ⟨i, cs⟩ := n
    simp only [insertAt, Node.children, Node.info, and_true] at h ⊢
    rw [freshL_iff] at h ⊢
    intro x hx
    have := (hs _).mem_iff.1 hx
    simp only [List.mem_append, List.mem_singleton] at this
    rcases this with h' | rfl
    · exact h x h'
    · exact hc
  | cons k a ih =>
    intro n h
    obtain ⟨i, cs⟩ := n
    simp only [insertAt, Node.children, Node.info, and_true] at h ⊢
    rw [freshL_iff] at h ⊢
    intro x hx
    rcases modNth_mem _ cs k x hx with h' | ⟨d, hd, rfl⟩
    · exact h x h'
    · have hd' := h d hd
      obtain ⟨di, dcs⟩ := d
      simp only [FreshN] at hd'
      obtain ⟨h1, h2⟩ := ih (.mk di dcs) hd'.2
      generalize insertAt srt c a (.mk di dcs) = y at h1 h2 ⊢
      obtain ⟨yi, ycs⟩ := y
      simp only [Node.info, Node.children] at h1 h2
      simp [FreshN, h2, hd'.1, h1]

theorem updateWith_fresh (srt : List Node → List Node) (hs : ∀ l, (srt l).Perm l) (cfg : Cfg)
    (root root' : Node) (st st' : PkgSt) (m : Method)
    (h : updateWith srt cfg root st m = .ok (root', st')) (hf : FreshL root.children) :
    FreshL root'.children ∧ root'.info = root.info := by
  unfold updateWith at h
  split at h
  · simp at h
  · change (match findNearest cfg.sortRouter root (segsOf m.path) with
      | .error e => (Except.error e : Except Err (Node × PkgSt))
      | .ok (addr, last) =>
        if last = (segsOf m.path).length then Except.error Err.registered
        else
          match chain (fun _ => (leafInfo cfg m (((segsOf m.path).drop last).getLast?.getD []) st).1)
              ((segsOf m.path).drop last) with
          | none => Except.ok (root, st)
          | some c => Except.ok (insertAt srt c addr root,
              (leafInfo cfg m (((segsOf m.path).drop last).getLast?.getD []) st).2)) = _ at h
    split at h
    · simp at h
    · split at h
      · simp at h
      · split at h
        · simp only [Except.ok.injEq, Prod.mk.injEq] at h
          obtain ⟨rfl, _⟩ := h
          exact ⟨hf, rfl⟩
        · rename_i c hc
          simp only [Except.ok.injEq, Prod.mk.injEq] at h
          obtain ⟨rfl, _⟩ := h
          refine insertAt_fresh srt hs c ?_ _ root hf
          exact chain_fresh _ (leafInfo_isLeaf cfg m _ st).1.2.2 _ c hc

theorem buildWith_fresh (srt : List Node → List Node) (hs : ∀ l, (srt l).Perm l) (cfg : Cfg) :
    ∀ (ms : List Method) (root root' : Node) (st st' : PkgSt),
      buildWith srt cfg root st ms = .ok (root', st') → FreshL root.children →
      FreshL root'.children ∧ root'.info = root.info := by
  intro ms
  induction ms with
  | nil =>
    intro root root' st st' h hf
    simp only [buildWith, Except.ok.injEq, Prod.mk.injEq] at h
    obtain ⟨rfl, _⟩ := h
    exact ⟨hf, rfl⟩
  | cons m ms ih =>
    intro root root' st st' h hf
    unfold buildWith at h
    split at h
    · simp at h
    · rename_i r1 s1 hu
      obtain ⟨h1, h2⟩ := updateWith_fresh srt hs cfg root r1 st s1 m hu hf
      obtain ⟨h3, h4⟩ := ih r1 root' s1 st' h h1
      exact ⟨h3, h4.trans h2⟩

/-! ### `getUniqueName` hands out a name that is not taken -/

theorem probeName_spec (name : Bytes) (used : List Bytes) :
    ∀ (fuel i : Nat) (u : Bytes), probeName name used fuel i = some u → u ∉ used := by
  intro fuel
  induction fuel with
  | zero => intro i u h; simp [probeName] at h
  | succ f ih =>
    intro i u h
    unfold probeName at h
    split at h
    · exact ih _ u h
    · rename_i hc
      simp only [Option.some.injEq] at h
      subst h
      simpa using hc

theorem getUniqueName_spec (name : Bytes) (used : List Bytes) (u : Bytes) (used' : List Bytes)
    (h : getUniqueName name used = .ok (u, used')) : u ∉ used ∧ used' = u :: used := by
  unfold getUniqueName at h
  split at h
  · split at h
    · rename_i v hv
      simp only [Except.ok.injEq, Prod.mk.injEq] at h
      obtain ⟨rfl, rfl⟩ := h
      exact ⟨probeName_spec name used _ _ _ hv, rfl⟩
    · simp at h
  · rename_i hc
    simp only [Except.ok.injEq, Prod.mk.injEq] at h
    obtain ⟨rfl, rfl⟩ := h
    exact ⟨by simpa using hc, rfl⟩

def wrapMw (a : Bytes) : Bytes := us :: a ++ mwSuffix
def wrapVar (a : Bytes) : Bytes := us :: a

theorem wrapMw_inj {a b : Bytes} (h : wrapMw a = wrapMw b) : a = b := by
  simpa [wrapMw] using h

theorem wrapVar_inj {a b : Bytes} (h : wrapVar a = wrapVar b) : a = b := by
  simpa [wrapVar] using h

/-- `F` has no repetition and consists of images under `w` of names from `A` -/
def Good (w : Bytes → Bytes) (F A : List Bytes) : Prop := F.Nodup ∧ ∀ f ∈ F, ∃ a ∈ A, f = w a

theorem Good.nil (w : Bytes → Bytes) (A : List Bytes) : Good w [] A := by simp [Good]

theorem Good.mono {w : Bytes → Bytes} {F A B : List Bytes} (h : Good w F A) (hs : ∀ a ∈ A, a ∈ B) : Good w F B :=
  ⟨h.1, fun f hf => let ⟨a, ha, e⟩ := h.2 f hf; ⟨a, hs a ha, e⟩⟩

theorem Good.append {w : Bytes → Bytes} (hw : ∀ a b, w a = w b → a = b) {F1 F2 A1 A2 : List Bytes}
    (h1 : Good w F1 A1) (h2 : Good w F2 A2) (hd : ∀ a ∈ A2, a ∉ A1) : Good w (F1 ++ F2) (A2 ++ A1) := by
  refine ⟨?_, ?_⟩
  · rw [List.nodup_append]
    refine ⟨h1.1, h2.1, ?_⟩
    intro f hf1 g hf2 e
    subst e
    obtain ⟨a1, ha1, e1⟩ := h1.2 f hf1
    obtain ⟨a2, ha2, e2⟩ := h2.2 f hf2
    have := hw a1 a2 (e1.symm.trans e2)
    subst this
    exact hd a1 ha2 ha1
  · intro f hf
    rw [List.mem_append] at hf
    rcases hf with hf | hf
    · obtain ⟨a, ha, e⟩ := h1.2 f hf
      exact ⟨a, by simp [ha], e⟩
    · obtain ⟨a, ha, e⟩ := h2.2 f hf
      exact ⟨a, by simp [ha], e⟩

/-- the names chosen for a fresh node (camel style): one or two names that were free -/
theorem dyeNames_spec (pp : Option Bytes) (i : Info) (hc : Bool) (used used' : List Bytes)
    (p mw hmw gmw : Bytes) (h : dyeNames false pp i hc used = .ok ((p, mw, hmw, gmw), used')) :
    ∃ A, used' = A ++ used ∧ A.Nodup ∧ (∀ a ∈ A, a ∉ used) ∧
      Good wrapVar [mw] A ∧
      Good wrapMw ((if hc then [gmw ++ mwSuffix] else []) ++
                   (if i.handler.isEmpty then [] else [hmw ++ mwSuffix])) A := by
  unfold dyeNames at h
  simp only [Bool.false_eq_true, if_false] at h
  split at h
  · simp at h
  · rename_i pn hn' used1 hnames
    simp only [Except.ok.injEq, Prod.mk.injEq] at h
    obtain ⟨⟨rfl, rfl, rfl, rfl⟩, rfl⟩ := h
    by_cases hleaf : (!i.handler.isEmpty && !hc) = true
    · simp only [hleaf, if_true] at hnames
      split at hnames
      · rename_i n u hu
        simp only [Except.ok.injEq, Prod.mk.injEq] at hnames
        obtain ⟨rfl, rfl, rfl⟩ := hnames
        obtain ⟨h1, rfl⟩ := getUniqueName_spec _ _ _ _ hu
        simp only [Bool.and_eq_true, Bool.not_eq_true'] at hleaf
        refine ⟨[n], rfl, by simp, by simpa using h1, ?_, ?_⟩
        · simp [Good, wrapVar]
        · simp [Good, wrapMw, hleaf.1, hleaf.2]
      · simp at hnames
    · simp only [hleaf, Bool.false_eq_true, if_false] at hnames
      split at hnames
      · simp at hnames
      · rename_i n u hu
        split at hnames
        · simp at hnames
        · rename_i hh u' hu'
          simp only [Except.ok.injEq, Prod.mk.injEq] at hnames
          obtain ⟨rfl, rfl, rfl⟩ := hnames
          obtain ⟨h1, rfl⟩ := getUniqueName_spec _ _ _ _ hu
          obtain ⟨h2, rfl⟩ := getUniqueName_spec _ _ _ _ hu'
          simp only [List.mem_cons, not_or] at h2
          refine ⟨[hh, n], rfl, by simp [h2.1], ?_, ?_, ?_⟩
          · intro a ha
            simp only [List.mem_cons, List.not_mem_nil, or_false] at ha
            rcases ha with rfl | rfl
            · exact h2.2
            · exact h1
          · simp [Good, wrapVar]
          · have hne : wrapMw n ≠ wrapMw hh := fun e => h2.1 (wrapMw_inj e).symm
            cases hc <;> cases hhe : i.handler.isEmpty <;>
              simp [Good, wrapMw, hhe] at hne ⊢
            exact hne

/-- what the naming hook does on a fresh node (camel style) -/
theorem dyeHook_spec (layer : Nat) (pp : Option Bytes) (i i' : Info) (hc : Bool) (st st' : DyeSt)
    (h : dyeHook false layer pp i hc st = .ok (i', st')) (hf : i.middleWare = []) :
    i'.handler = i.handler ∧
    ∃ A, st'.used = A ++ st.used ∧ A.Nodup ∧ (∀ a ∈ A, a ∉ st.used) ∧
      Good wrapVar [i'.middleWare] A ∧
      Good wrapMw ((if hc then [i'.groupMw ++ mwSuffix] else []) ++
                   (if i'.handler.isEmpty then [] else [i'.handlerMw ++ mwSuffix])) A := by
  unfold dyeHook at h
  split at h
  · simp at h
  · simp only [hf, List.isEmpty_nil, if_true] at h
    split at h
    · simp at h
    · rename_i nm used1 hn
      simp only [Except.ok.injEq, Prod.mk.injEq] at h
      obtain ⟨rfl, rfl⟩ := h
      obtain ⟨p, mw, hmw, gmw⟩ := nm
      exact ⟨rfl, dyeNames_spec pp i hc st.used used1 p mw hmw gmw hn⟩

theorem Good.ite {w : Bytes → Bytes} {F A : List Bytes} (b : Bool) (h : Good w F A) :
    Good w (if b then [] else F) A := by
  cases b
  · simpa using h
  · simpa using Good.nil w A

theorem dyeL_isEmpty (layer : Nat) (pp : Option Bytes) (cs cs' : List Node) (st st' : DyeSt)
    (h : dyeL false layer pp cs st = .ok (cs', st')) : cs'.isEmpty = cs.isEmpty := by
  cases cs with
  | nil =>
    simp only [dyeL, Except.ok.injEq, Prod.mk.injEq] at h
    obtain ⟨rfl, _⟩ := h
    rfl
  | cons c r =>
    unfold dyeL at h
    split at h
    · simp at h
    · split at h
      · simp at h
      · simp only [Except.ok.injEq, Prod.mk.injEq] at h
        obtain ⟨rfl, _⟩ := h
        rfl

/-- combination step shared by the two halves of the mutual induction -/
theorem combine {st0 st1 st2 : List Bytes} {A1 A2 F1 F2 V1 V2 : List Bytes}
    (hu1 : st1 = A1 ++ st0) (hn1 : A1.Nodup) (hd1 : ∀ a ∈ A1, a ∉ st0)
    (hu2 : st2 = A2 ++ st1) (hn2 : A2.Nodup) (hd2 : ∀ a ∈ A2, a ∉ st1)
    (gf1 : Good wrapMw F1 A1) (gv1 : Good wrapVar V1 A1)
    (gf2 : Good wrapMw F2 A2) (gv2 : Good wrapVar V2 A2) :
    ∃ A, st2 = A ++ st0 ∧ A.Nodup ∧ (∀ a ∈ A, a ∉ st0) ∧
      Good wrapMw (F1 ++ F2) A ∧ Good wrapVar (V1 ++ V2) A := by
  have hdis : ∀ a ∈ A2, a ∉ A1 := by
    intro a ha h1
    exact hd2 a ha (by rw [hu1]; simp [h1])
  refine ⟨A2 ++ A1, by rw [hu2, hu1]; simp, ?_, ?_, ?_, ?_⟩
  · rw [List.nodup_append]
    refine ⟨hn2, hn1, ?_⟩
    intro a ha b hb e
    subst e
    exact hdis a ha hb
  · intro a ha
    rw [List.mem_append] at ha
    rcases ha with ha | ha
    · intro h0
      exact hd2 a ha (by rw [hu1]; simp [h0])
    · exact hd1 a ha
  · exact Good.append (fun _ _ => wrapMw_inj) gf1 gf2 hdis
  · exact Good.append (fun _ _ => wrapVar_inj) gv1 gv2 hdis

mutual
theorem dye_spec : (n : Node) → ∀ (layer : Nat) (pp : Option Bytes) (st : DyeSt) (n' : Node) (st' : DyeSt),
    dye false layer pp n st = .ok (n', st') → FreshN n →
    ∃ A, st'.used = A ++ st.used ∧ A.Nodup ∧ (∀ a ∈ A, a ∉ st.used) ∧
      Good wrapMw (mwFuncs n') A ∧ Good wrapVar (groupVars n') A
  | .mk i cs => by
    intro layer pp st n' st' h hf
    unfold dye at h
    split at h
    · simp at h
    · rename_i i' st1 hh
      split at h
      · simp at h
      · rename_i cs' st2 hl
        simp only [Except.ok.injEq, Prod.mk.injEq] at h
        obtain ⟨rfl, rfl⟩ := h
        simp only [FreshN] at hf
        obtain ⟨_, A1, hu1, hn1, hd1, gv1, gf1⟩ := dyeHook_spec _ _ _ _ _ _ _ hh hf.1
        obtain ⟨A2, hu2, hn2, hd2, gf2, gv2⟩ := dyeL_spec cs _ _ st1 cs' st2 hl hf.2
        have hemp := dyeL_isEmpty _ _ _ _ _ _ hl
        have e1 : mwFuncs (.mk i' cs') =
            ((if !cs.isEmpty then [i'.groupMw ++ mwSuffix] else []) ++
             (if i'.handler.isEmpty then [] else [i'.handlerMw ++ mwSuffix])) ++ mwFuncsL cs' := by
          rw [mwFuncs, hemp]; cases cs.isEmpty <;> simp
        have e2 : groupVars (.mk i' cs') = (if cs.isEmpty then [] else [i'.middleWare]) ++ groupVarsL cs' := by
          rw [groupVars, hemp]
        rw [e1, e2]
        exact combine hu1 hn1 hd1 hu2 hn2 hd2 gf1 (Good.ite _ gv1) gf2 gv2
theorem dyeL_spec : (l : List Node) → ∀ (layer : Nat) (pp : Option Bytes) (st : DyeSt) (l' : List Node) (st' : DyeSt),
    dyeL false layer pp l st = .ok (l', st') → FreshL l →
    ∃ A, st'.used = A ++ st.used ∧ A.Nodup ∧ (∀ a ∈ A, a ∉ st.used) ∧
      Good wrapMw (mwFuncsL l') A ∧ Good wrapVar (groupVarsL l') A
  | [] => by
    intro layer pp st l' st' h _
    simp only [dyeL, Except.ok.injEq, Prod.mk.injEq] at h
    obtain ⟨rfl, rfl⟩ := h
    exact ⟨[], by simp, by simp, by simp, by simpa [mwFuncsL] using Good.nil _ _, by simpa [groupVarsL] using Good.nil _ _⟩
  | c :: r => by
    intro layer pp st l' st' h hf
    unfold dyeL at h
    split at h
    · simp at h
    · rename_i c' st1 hc
      split at h
      · simp at h
      · rename_i r' st2 hr
        simp only [Except.ok.injEq, Prod.mk.injEq] at h
        obtain ⟨rfl, rfl⟩ := h
        simp only [FreshL] at hf
        obtain ⟨A1, hu1, hn1, hd1, gf1, gv1⟩ := dye_spec c _ _ st c' st1 hc hf.1
        obtain ⟨A2, hu2, hn2, hd2, gf2, gv2⟩ := dyeL_spec r _ _ st1 r' st2 hr hf.2
        simp only [mwFuncsL, groupVarsL]
        exact combine hu1 hn1 hd1 hu2 hn2 hd2 gf1 gv1 gf2 gv2
end

/-- `DyeGroupName` on a tree whose root is the one of `NewRouterTree` and whose other nodes are unnamed:
the functions declared by middleware.go and the variables declared by `Register` are pairwise distinct,
whatever names were taken before -/
theorem dyeGroupName_idents (cs : List Node) (hf : FreshL cs) (used used' : List Bytes) (root' : Node)
    (h : dyeGroupName false (.mk newRouterTree.info cs) used = .ok (root', used')) :
    (mwFuncs root').Nodup ∧ (groupVars root').Nodup := by
  unfold dyeGroupName at h
  split at h
  · simp at h
  · rename_i r st hd
    simp only [Except.ok.injEq, Prod.mk.injEq] at h
    obtain ⟨rfl, _⟩ := h
    unfold dye at hd
    split at hd
    · simp at hd
    · rename_i i' st1 hh
      have hi : i' = { newRouterTree.info with groupName := rootName } ∧ st1.used = used := by
        simp only [dyeHook, newRouterTree, Node.info, rootName] at hh
        simp at hh
        obtain ⟨rfl, rfl⟩ := hh
        exact ⟨rfl, rfl⟩
      split at hd
      · simp at hd
      · rename_i cs' st2 hl
        simp only [Except.ok.injEq, Prod.mk.injEq] at hd
        obtain ⟨rfl, _⟩ := hd
        obtain ⟨A, _, _, _, gf, gv⟩ := dyeL_spec cs _ _ st1 cs' st2 hl hf
        obtain ⟨rfl, _⟩ := hi
        constructor
        · simp only [mwFuncs, newRouterTree, Node.info]
          have : ∀ f ∈ mwFuncsL cs', f ≠ rootName ++ mwSuffix := by
            intro f hf e
            obtain ⟨a, _, ea⟩ := gf.2 f hf
            rw [ea] at e
            simp [wrapMw, rootName, us] at e
          cases cs'.isEmpty
          · simp only [Bool.false_eq_true, if_false, List.isEmpty_nil, if_true, List.append_nil,
              List.singleton_append, List.nodup_cons]
            exact ⟨fun hm => this _ hm rfl, gf.1⟩
          · simpa using gf.1
        · simp only [groupVars, newRouterTree, Node.info]
          have : ∀ f ∈ groupVarsL cs', f ≠ rootName := by
            intro f hf e
            obtain ⟨a, _, ea⟩ := gv.2 f hf
            rw [ea] at e
            simp [wrapVar, rootName, us] at e
          cases cs'.isEmpty
          · simp only [Bool.false_eq_true, if_false, List.singleton_append, List.nodup_cons]
            exact ⟨fun hm => this _ hm rfl, gv.1⟩
          · simpa using gv.1

/-! ### the variables of the rendered statements are the group variables -/

theorem declaredVars_append (a b : List Stmt) :
    HzSpec.declaredVars (a ++ b) = HzSpec.declaredVars a ++ HzSpec.declaredVars b := by
  induction a with
  | nil => rfl
  | cons x r ih => cases x <;> simp [HzSpec.declaredVars, ih]

mutual
theorem declaredVars_stmts : (n : Node) → HzSpec.declaredVars (stmts n) = groupVars n
  | .mk i cs => by
    rw [stmts, groupVars, declaredVars_append, declaredVars_append, declaredVars_stmtsL cs]
    cases i.handler.isEmpty <;> cases cs.isEmpty <;> simp [HzSpec.declaredVars]
theorem declaredVars_stmtsL : (l : List Node) → HzSpec.declaredVars (stmtsL l) = groupVarsL l
  | [] => by simp [stmtsL, groupVarsL, HzSpec.declaredVars]
  | .mk i cs :: r => by
    rw [stmtsL, groupVarsL, declaredVars_append, declaredVars_stmtsL r]
    cases i.handler.isEmpty
    · simp [declaredVars_stmts (.mk i cs)]
    · simp [declaredVars_append, HzSpec.declaredVars, declaredVars_stmts (.mk i cs)]
end

/-! ### naming does not touch what a route is -/

/-- two `Info`s that agree on everything a route consists of -/
def SameRoute (a b : Info) : Prop :=
  a.path = b.path ∧ a.httpMethod = b.httpMethod ∧ a.handler = b.handler ∧ a.handlerAlias = b.handlerAlias

theorem dyeHook_keeps (snake : Bool) (layer : Nat) (pp : Option Bytes) (i i' : Info) (hc : Bool) (st st' : DyeSt)
    (h : dyeHook snake layer pp i hc st = .ok (i', st')) : SameRoute i' i := by
  unfold dyeHook at h
  split at h
  · simp at h
  · split at h
    · simp at h
    · simp only [Except.ok.injEq, Prod.mk.injEq] at h
      obtain ⟨rfl, _⟩ := h
      simp [SameRoute]

theorem routesN_congr_info (pre : List Bytes) (i i' : Info) (cs cs' : List Node) (h : SameRoute i' i)
    (hl : (routesL pre cs').map routeKey = (routesL pre cs).map routeKey) :
    (routesN pre (.mk i' cs')).map routeKey = (routesN pre (.mk i cs)).map routeKey := by
  obtain ⟨_, h2, h3, h4⟩ := h
  simp only [routesN, List.map_append, hl, h3]
  cases i.handler.isEmpty <;> simp [routeKey, h2, h3, h4]

mutual
theorem dye_keeps : (n : Node) → ∀ (snake : Bool) (layer : Nat) (pp : Option Bytes) (st : DyeSt) (n' : Node) (st' : DyeSt),
    dye snake layer pp n st = .ok (n', st') →
    n'.info.path = n.info.path ∧ ∀ pre, (routesN pre n').map routeKey = (routesN pre n).map routeKey
  | .mk i cs => by
    intro snake layer pp st n' st' h
    unfold dye at h
    split at h
    · simp at h
    · rename_i i' st1 hh
      split at h
      · simp at h
      · rename_i cs' st2 hl
        simp only [Except.ok.injEq, Prod.mk.injEq] at h
        obtain ⟨rfl, rfl⟩ := h
        have hk := dyeHook_keeps _ _ _ _ _ _ _ _ hh
        refine ⟨hk.1, fun pre => ?_⟩
        exact routesN_congr_info pre i i' cs cs' hk (dyeL_keeps cs _ _ _ st1 cs' st2 hl pre)
theorem dyeL_keeps : (l : List Node) → ∀ (snake : Bool) (layer : Nat) (pp : Option Bytes) (st : DyeSt) (l' : List Node) (st' : DyeSt),
    dyeL snake layer pp l st = .ok (l', st') →
    ∀ pre, (routesL pre l').map routeKey = (routesL pre l).map routeKey
  | [] => by
    intro snake layer pp st l' st' h pre
    simp only [dyeL, Except.ok.injEq, Prod.mk.injEq] at h
    obtain ⟨rfl, _⟩ := h
    rfl
  | c :: r => by
    intro snake layer pp st l' st' h pre
    unfold dyeL at h
    split at h
    · simp at h
    · rename_i c' st1 hc
      split at h
      · simp at h
      · rename_i r' st2 hr
        simp only [Except.ok.injEq, Prod.mk.injEq] at h
        obtain ⟨rfl, rfl⟩ := h
        obtain ⟨hp, hrt⟩ := dye_keeps c _ _ _ st c' st1 hc
        simp only [routesL, List.map_append, hp, hrt, dyeL_keeps r _ _ _ st1 r' st2 hr pre]
end

mutual
theorem snakePass_keeps : (n : Node) → ∀ (mws : List Bytes) (n' : Node) (mws' : List Bytes),
    snakePass n mws = .ok (n', mws') →
    n'.info.path = n.info.path ∧ ∀ pre, (routesN pre n').map routeKey = (routesN pre n).map routeKey
  | .mk i cs => by
    intro mws n' mws' h
    unfold snakePass at h
    split at h
    · simp only [Except.ok.injEq, Prod.mk.injEq] at h
      obtain ⟨rfl, _⟩ := h
      exact ⟨rfl, fun _ => rfl⟩
    · split at h
      · simp at h
      · split at h
        · simp at h
        · rename_i cs' mws3 hl
          simp only [Except.ok.injEq, Prod.mk.injEq] at h
          obtain ⟨rfl, _⟩ := h
          refine ⟨rfl, fun pre => ?_⟩
          exact routesN_congr_info pre i _ cs cs' ⟨rfl, rfl, rfl, rfl⟩ (snakePassL_keeps cs _ cs' mws3 hl pre)
theorem snakePassL_keeps : (l : List Node) → ∀ (mws : List Bytes) (l' : List Node) (mws' : List Bytes),
    snakePassL l mws = .ok (l', mws') →
    ∀ pre, (routesL pre l').map routeKey = (routesL pre l).map routeKey
  | [] => by
    intro mws l' mws' h pre
    simp only [snakePassL, Except.ok.injEq, Prod.mk.injEq] at h
    obtain ⟨rfl, _⟩ := h
    rfl
  | c :: r => by
    intro mws l' mws' h pre
    unfold snakePassL at h
    split at h
    · simp at h
    · rename_i c' m1 hc
      split at h
      · simp at h
      · rename_i r' m2 hr
        simp only [Except.ok.injEq, Prod.mk.injEq] at h
        obtain ⟨rfl, _⟩ := h
        obtain ⟨hp, hrt⟩ := snakePass_keeps c _ c' m1 hc
        simp only [routesL, List.map_append, hp, hrt, snakePassL_keeps r _ r' m2 hr pre]
end

/-- the tree a whole generation step renders carries exactly the declared routes -/
theorem generate_routes (cfg : Cfg) (ms : List Method) (used : List Bytes) (ex : Option (List Bytes)) (o : Output)
    (h : generate cfg ms used ex = .ok o) :
    ((routes o.tree).map routeKey).Perm (ms.map declKey) := by
  unfold generate at h
  split at h
  · simp at h
  · rename_i t st hb
    have hbuild := buildWith_routes _ (updSort_perm cfg.sortRouter) cfg ms newRouterTree t {} st hb
    have e0 : (routes newRouterTree).map routeKey = [] := by
      simp [routes, newRouterTree, routesN, routesL]
    rw [e0, List.nil_append] at hbuild
    split at h
    · simp at h
    · rename_i t1 u1 hd
      have hdye : (routes t1).map routeKey = (routes t).map routeKey := by
        unfold dyeGroupName at hd
        split at hd
        · simp at hd
        · rename_i r st' hdd
          simp only [Except.ok.injEq, Prod.mk.injEq] at hd
          obtain ⟨rfl, _⟩ := hd
          exact (dye_keeps t _ _ _ _ _ _ hdd).2 []
      cases hsn : cfg.snake with
      | false =>
        simp only [hsn, Bool.false_eq_true, if_false, Except.ok.injEq] at h
        subst h
        simp only
        rw [hdye]; exact hbuild
      | true =>
        simp only [hsn, if_true] at h
        cases hsp : snakePass t1 [] with
        | error e => simp [hsp] at h
        | ok r =>
          obtain ⟨t2, m'⟩ := r
          simp only [hsp, Except.ok.injEq] at h
          subst h
          simp only
          have e2 : (routes t2).map routeKey = (routes t1).map routeKey := (snakePass_keeps t1 _ _ _ hsp).2 []
          rw [e2, hdye]
          exact hbuild

/-- camel style, fresh router directory: no identifier is declared twice -/
theorem generate_idents (cfg : Cfg) (hs : cfg.snake = false) (ms : List Method) (used : List Bytes) (o : Output)
    (h : generate cfg ms used none = .ok o) :
    o.funcs.Nodup ∧ (HzSpec.declaredVars o.stmts).Nodup := by
  unfold generate at h
  split at h
  · simp at h
  · rename_i t st hb
    obtain ⟨hfresh, hinfo⟩ := buildWith_fresh _ (updSort_perm cfg.sortRouter) cfg ms newRouterTree t {} st hb
      (by simp [newRouterTree, Node.children, FreshL])
    split at h
    · simp at h
    · rename_i t1 u1 hd
      simp only [hs, Bool.false_eq_true, if_false] at h
      simp only [Except.ok.injEq] at h
      subst h
      simp only
      obtain ⟨ti, tcs⟩ := t
      simp only [Node.info, Node.children] at hfresh hinfo
      subst hinfo
      have := dyeGroupName_idents tcs hfresh used u1 t1 (by rw [← hs]; exact hd)
      rw [declaredVars_stmts]
      exact this

end Hertz.Hz
