import Hertz.Model.Bytesconv
namespace Hertz

/-! ### complete table facts (all 256 entries, checked by the kernel) -/

set_option maxRecDepth 100000 in
theorem tbl_hex_roundtrip :
    allBytes (fun c => hex2int (upperhex (c >>> 4)) != 16 && hex2int (upperhex (c &&& 15)) != 16 &&
      (hex2int (upperhex (c >>> 4)) <<< 4 ||| hex2int (upperhex (c &&& 15))) == c) = true := by
  decide +kernel

set_option maxRecDepth 100000 in
theorem tbl_arg_unescaped_plain :
    allBytes (fun c => argShouldEscape c || c == 32 ||
      (c != 37 && c != 43 && c != 38 && c != 61 && c != 35 && c != 59)) = true := by
  decide +kernel

set_option maxRecDepth 100000 in
theorem tbl_upperhex_plain :
    allBytes (fun c => let h := upperhex (c &&& 15); h != 37 && h != 43 && h != 38 && h != 61 && h != 35 && h != 59
      && h != 13 && h != 10) = true := by
  decide +kernel

set_option maxRecDepth 100000 in
theorem tbl_upperhex_hi_plain :
    allBytes (fun c => let h := upperhex (c >>> 4); h != 37 && h != 43 && h != 38 && h != 61 && h != 35 && h != 59
      && h != 13 && h != 10) = true := by
  decide +kernel

theorem hex_roundtrip (c : UInt8) :
    hex2int (upperhex (c >>> 4)) ≠ 16 ∧ hex2int (upperhex (c &&& 15)) ≠ 16 ∧
      (hex2int (upperhex (c >>> 4)) <<< 4 ||| hex2int (upperhex (c &&& 15))) = c := by
  have := allBytes_spec tbl_hex_roundtrip c
  simpa [and_assoc] using this

theorem arg_unescaped_plain (c : UInt8) (h1 : argShouldEscape c = false) (h2 : c ≠ 32) :
    c ≠ 37 ∧ c ≠ 43 ∧ c ≠ 38 ∧ c ≠ 61 ∧ c ≠ 35 ∧ c ≠ 59 := by
  have := allBytes_spec tbl_arg_unescaped_plain c
  simp [h1, h2, and_assoc] at this
  exact this

/-! ### rewriting lemmas for `decodeSlow` on non-literal tails -/

theorem decodeSlow_plain (p : Bool) (c : UInt8) (t : Bytes) (h1 : c ≠ 37) (h2 : c ≠ 43) :
    decodeSlow p (c :: t) = c :: decodeSlow p t := by
  match t with
  | [] => simp [decodeSlow, h2]
  | [d] => simp [decodeSlow, h1, h2]
  | d :: e :: r => simp [decodeSlow, h1, h2]

theorem decodeSlow_plus (t : Bytes) : decodeSlow true (43 :: t) = 32 :: decodeSlow true t := by
  match t with
  | [] => simp [decodeSlow]
  | [d] => simp [decodeSlow]
  | d :: e :: r => simp [decodeSlow]

theorem decodeSlow_noplus_plus (t : Bytes) : decodeSlow false (43 :: t) = 43 :: decodeSlow false t := by
  match t with
  | [] => simp [decodeSlow]
  | [d] => simp [decodeSlow]
  | d :: e :: r => simp [decodeSlow]

theorem decodeSlow_pct (p : Bool) (a b : UInt8) (t : Bytes) (ha : hex2int a ≠ 16) (hb : hex2int b ≠ 16) :
    decodeSlow p (37 :: a :: b :: t) = (hex2int a <<< 4 ||| hex2int b) :: decodeSlow p t := by
  simp [decodeSlow, ha, hb]

theorem decodeSlow_pctEnc (p : Bool) (c : UInt8) (t : Bytes) :
    decodeSlow p (pctEnc c ++ t) = c :: decodeSlow p t := by
  obtain ⟨h1, h2, h3⟩ := hex_roundtrip c
  simp only [pctEnc, List.cons_append, List.nil_append]
  rw [decodeSlow_pct p _ _ t h1 h2, h3]

/-- The fast path of both decoders is an optimisation only. -/
theorem decodeSlow_id (p : Bool) (s : Bytes) (h1 : s.contains 37 = false) (h2 : p = true → s.contains 43 = false) :
    decodeSlow p s = s := by
  induction s with
  | nil => simp [decodeSlow]
  | cons c t ih =>
    simp only [List.contains_cons, Bool.or_eq_false_iff, beq_eq_false_iff_ne, ne_eq] at h1 h2
    have hc : c ≠ 37 := fun h => h1.1 h.symm
    cases p with
    | true =>
      have h2' := h2 rfl
      have hc2 : c ≠ 43 := fun h => h2'.1 h.symm
      rw [decodeSlow_plain _ _ _ hc hc2, ih h1.2 (fun _ => h2'.2)]
    | false =>
      by_cases hc2 : c = 43
      · subst hc2; rw [decodeSlow_noplus_plus, ih h1.2 (by simp)]
      · rw [decodeSlow_plain _ _ _ hc hc2, ih h1.2 (by simp)]

theorem decodeArg_eq_slow (s : Bytes) : decodeArg s = decodeSlow true s := by
  unfold decodeArg
  split
  · rename_i h
    simp only [Bool.and_eq_true, Bool.not_eq_true'] at h
    rw [decodeSlow_id true s h.1 (fun _ => h.2)]
  · rfl

theorem decodeArgNoPlus_eq_slow (s : Bytes) : decodeArgNoPlus s = decodeSlow false s := by
  unfold decodeArgNoPlus
  split
  · rename_i h
    simp only [Bool.not_eq_true'] at h
    rw [decodeSlow_id false s h (by simp)]
  · rfl

theorem decodeSlow_quoteArg (b t : Bytes) :
    decodeSlow true (quoteArg b ++ t) = b ++ decodeSlow true t := by
  induction b with
  | nil => simp [quoteArg]
  | cons c r ih =>
    simp only [quoteArg]
    by_cases h32 : c = 32
    · subst h32; simp only [if_true, List.cons_append, List.nil_append]
      rw [decodeSlow_plus, ih]
    · simp only [h32, if_false]
      cases he : argShouldEscape c with
      | true => simp only [if_true, List.append_assoc]; rw [decodeSlow_pctEnc, ih]; rfl
      | false =>
        obtain ⟨h1, h2, _⟩ := arg_unescaped_plain c he h32
        simp only [Bool.false_eq_true, if_false, List.cons_append, List.nil_append]
        rw [decodeSlow_plain _ _ _ h1 h2, ih]

/-- `decodeArgAppend(nil, AppendQuotedArg(nil, b)) = b` for every byte string. -/
theorem decode_quoteArg (b : Bytes) : decodeArg (quoteArg b) = b := by
  have := decodeSlow_quoteArg b []
  simp [decodeSlow] at this
  rw [decodeArg_eq_slow, this]

/-- No byte of `quoteArg b` is one of `& = # ;` (nor a raw `%`-less special). -/
theorem quoteArg_no_special (b : Bytes) : ∀ x ∈ quoteArg b, x ≠ 38 ∧ x ≠ 61 ∧ x ≠ 35 ∧ x ≠ 59 := by
  induction b with
  | nil => simp [quoteArg]
  | cons c r ih =>
    intro x hx
    simp only [quoteArg, List.mem_append] at hx
    rcases hx with hx | hx
    · by_cases h32 : c = 32
      · subst h32; simp at hx; subst hx; decide
      · simp only [h32, if_false] at hx
        cases he : argShouldEscape c with
        | true =>
          simp only [he, if_true, pctEnc, List.mem_cons, List.mem_nil_iff, or_false] at hx
          have hl := allBytes_spec tbl_upperhex_plain c
          have hh := allBytes_spec tbl_upperhex_hi_plain c
          simp at hl hh
          rcases hx with hx | hx | hx
          · subst hx; decide
          · subst hx; exact ⟨hh.1.1.1.1.1.2, hh.1.1.1.1.2, hh.1.1.1.2, hh.1.1.2⟩
          · subst hx; exact ⟨hl.1.1.1.1.1.2, hl.1.1.1.1.2, hl.1.1.1.2, hl.1.1.2⟩
        | false =>
          simp only [he, Bool.false_eq_true, if_false, List.mem_cons, List.mem_nil_iff, or_false] at hx
          subst hx
          obtain ⟨_, _, h3, h4, h5, h6⟩ := arg_unescaped_plain x he h32
          exact ⟨h3, h4, h5, h6⟩
    · exact ih x hx

end Hertz

namespace Hertz

set_option maxRecDepth 100000 in
theorem tbl_path_unescaped_plain : allBytes (fun c => pathShouldEscape c || c != 37) = true := by decide +kernel

theorem decodeSlow_quotePathBody (b t : Bytes) :
    decodeSlow false (quotePathBody b ++ t) = b ++ decodeSlow false t := by
  induction b with
  | nil => simp [quotePathBody]
  | cons c r ih =>
    simp only [quotePathBody]
    cases he : pathShouldEscape c with
    | true => simp only [if_true, List.append_assoc]; rw [decodeSlow_pctEnc, ih]; rfl
    | false =>
      have h37 : c ≠ 37 := by
        have := allBytes_spec tbl_path_unescaped_plain c
        simpa [he] using this
      simp only [Bool.false_eq_true, if_false, List.cons_append, List.nil_append]
      by_cases h43 : c = 43
      · subst h43; rw [decodeSlow_noplus_plus, ih]
      · rw [decodeSlow_plain _ _ _ h37 h43, ih]

/-- `decodeArgAppendNoPlus(nil, AppendQuotedPath(nil, p)) = p`: a path survives quoting and the one decoding `normalizePath` applies. -/
theorem decodeNoPlus_quotePath (p : Bytes) : decodeArgNoPlus (quotePath p) = p := by
  rw [decodeArgNoPlus_eq_slow]
  unfold quotePath
  split
  · rename_i h; subst h; decide
  · have := decodeSlow_quotePathBody p []
    simp [decodeSlow] at this
    exact this

end Hertz
