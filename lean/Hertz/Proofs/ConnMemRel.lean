import Hertz.Proofs.ConnMemSys
/-!
`Release` and `Read` keep the ownership invariant `Good` (they do not keep peeked slices: that is the contract), so
`Good` holds in every state a connection can reach.
-/
namespace Hertz.ConnMem
open Hertz Hertz.Conn

theorem mem_of_count_le {A B : List Nat} (h : ∀ x, A.count x ≤ B.count x) : ∀ x ∈ A, x ∈ B := by
  intro x hx
  have := List.count_pos_iff.2 hx
  exact List.count_pos_iff.1 (Nat.lt_of_lt_of_le this (h x))

/-- fewer live blocks, same counter: still good -/
theorem RGood_of_le {m m' : Mem} {s s' : MReader} {L : List Nat} (hG : RGood m s L)
    (hc : ∀ x, (s'.blocks ++ L ++ m'.free.map (·.1)).count x ≤ (s.blocks ++ L ++ m.free.map (·.1)).count x)
    (hn : m'.nextBlk = m.nextBlk) : RGood m' s' L :=
  ⟨fun x => Nat.le_trans (hc x) (hG.1 x), fun x hx => by rw [hn]; exact hG.2 x (mem_of_count_le hc x hx)⟩

theorem releaseNodes_spec (l : List MNode) (m : Mem) :
    (∀ x, ((releaseNodes m l).free.map (·.1)).count x ≤ (m.free.map (·.1)).count x + (l.map (·.blk)).count x) ∧
    (releaseNodes m l).nextBlk = m.nextBlk := by
  induction l generalizing m with
  | nil => exact ⟨fun _ => Nat.le_refl _, rfl⟩
  | cons h t ih =>
    have := ih (h.release m)
    refine ⟨fun x => ?_, by simp only [releaseNodes, List.foldl_cons] at this ⊢; rw [this.2, MNode.release_next]⟩
    have a := this.1 x
    have b := MNode.release_spec' m h x
    simp only [releaseNodes, List.foldl_cons, List.map_cons, List.count_cons, beq_iff_eq] at a b ⊢
    by_cases hr : h.readOnly = true
    · simp only [hr, if_true] at b; omega
    · simp only [hr, Bool.false_eq_true, if_false] at b; omega

theorem releaseCaches_spec (l : List (Nat × Nat × Nat)) (m : Mem) :
    (∀ x, ((releaseCaches m l).free.map (·.1)).count x ≤ (m.free.map (·.1)).count x + (l.map (·.2.1)).count x) ∧
    (releaseCaches m l).nextBlk = m.nextBlk := by
  induction l generalizing m with
  | nil => exact ⟨fun _ => Nat.le_refl _, rfl⟩
  | cons h t ih =>
    have := ih (m.release h.2.1 h.2.2)
    refine ⟨fun x => ?_, by simp only [releaseCaches, List.foldl_cons] at this ⊢; rw [this.2, Mem.release_next]⟩
    have a := this.1 x
    have b := release_count m h.2.1 h.2.2 x
    have e : (x = h.2.1) ↔ (h.2.1 = x) := eq_comm
    simp only [releaseCaches, List.foldl_cons, List.map_cons, List.count_cons, beq_iff_eq, e] at a b ⊢
    omega

theorem mreleaseGeneral_good (m : Mem) (s : MReader) (L : List Nat) (hG : RGood m s L) :
    RGood (mreleaseGeneral m s).1 (mreleaseGeneral m s).2 L := by
  have a := releaseNodes_spec s.done m
  have b := releaseCaches_spec s.caches (releaseNodes m s.done)
  refine RGood_of_le hG (fun x => ?_) (by simp only [mreleaseGeneral]; rw [b.2, a.2])
  have a1 := a.1 x
  have b1 := b.1 x
  simp only [mreleaseGeneral, MReader.blocks, MReader.cores, MReader.nodes, List.map_append, List.map_map,
    List.count_append, List.map_cons, List.map_nil, List.nil_append, List.count_nil, Function.comp_def,
    MNode.core, List.count_cons, beq_iff_eq] at a1 b1 ⊢
  omega

/-- the reader's blocks when the chain is `head → write` -/
theorem blocks_two (s : MReader) (h : MNode) (hs : (s.done = [h] ∧ s.mid = []) ∨ (s.done = [] ∧ s.mid = [h])) (x : Nat) :
    s.blocks.count x = (if h.blk = x then 1 else 0) + (if s.w.blk = x then 1 else 0) +
      (s.caches.map (·.2.1)).count x + s.priv.count x := by
  rcases hs with ⟨h1, h2⟩ | ⟨h1, h2⟩ <;>
    simp only [MReader.blocks, MReader.cores, MReader.nodes, h1, h2, MNode.core, List.count_append, List.count_cons,
      List.map_append, List.map_cons, List.map_nil, List.nil_append, List.count_nil, beq_iff_eq, List.append_nil,
      List.cons_append] <;> omega

theorem mreleaseTwo_good (m : Mem) (s : MReader) (h : MNode) (ch : Nat) (L : List Nat) (hG : RGood m s L)
    (hs : (s.done = [h] ∧ s.mid = []) ∨ (s.done = [] ∧ s.mid = [h])) :
    RGood (mreleaseTwo m s h ch).1 (mreleaseTwo m s h ch).2 L := by
  have hb := blocks_two s h hs
  have r1 := MNode.release_spec' m h
  have n1 := MNode.release_next m h
  have hGc : ∀ x, s.blocks.count x + L.count x + (m.free.map (·.1)).count x ≤ 1 := by
    intro x; have := hG.1 x; simpa only [List.count_append] using this
  have hGl : ∀ x, 0 < s.blocks.count x + L.count x + (m.free.map (·.1)).count x → x < m.nextBlk := by
    intro x hx
    apply hG.2 x
    apply List.count_pos_iff.1
    simpa only [List.count_append] using hx
  unfold mreleaseTwo
  by_cases hc : s.w.cap > mallocMax
  · simp only [hc, if_true]
    -- the books after `head.Release()`, seen from the allocator: everything but `head` is still live
    have ha := alloc_ok (h.release m) (clampMax s.maxSize (h.malloc + s.w.malloc)) ch
      (s.priv ++ [s.w.blk] ++ s.caches.map (·.2.1) ++ L)
      (fun x => by
        have g := hGc x
        have r := r1 x
        rw [hb x] at g
        simp only [List.count_append, List.count_cons, List.count_nil, beq_iff_eq]
        by_cases hr : h.readOnly = true
        · simp only [hr, if_true] at r; omega
        · simp only [hr, Bool.false_eq_true, if_false] at r; omega)
      (fun x hx => by
        rw [n1]; apply hGl
        have p := List.count_pos_iff.2 hx
        have r := r1 x
        rw [hb x]
        simp only [List.count_append, List.count_cons, List.count_nil, beq_iff_eq] at p
        by_cases hr : h.readOnly = true
        · simp only [hr, if_true] at r; omega
        · simp only [hr, Bool.false_eq_true, if_false] at r; omega)
    have w1 := MNode.release_spec' (m := ((h.release m).alloc (clampMax s.maxSize (h.malloc + s.w.malloc)) ch).2) s.w
    have w2 := MNode.release_next ((h.release m).alloc (clampMax s.maxSize (h.malloc + s.w.malloc)) ch).2 s.w
    have c1 := releaseCaches_spec s.caches (s.w.release ((h.release m).alloc (clampMax s.maxSize (h.malloc + s.w.malloc)) ch).2)
    have e : ∀ x, (x = ((h.release m).alloc (clampMax s.maxSize (h.malloc + s.w.malloc)) ch).1) ↔
        (((h.release m).alloc (clampMax s.maxSize (h.malloc + s.w.malloc)) ch).1 = x) := fun _ => eq_comm
    have hcount : ∀ x, ((mreleaseTwo m s h ch).2.blocks ++ L ++ (mreleaseTwo m s h ch).1.free.map (·.1)).count x ≤
        (s.priv ++ [s.w.blk] ++ s.caches.map (·.2.1) ++ L ++
          ((h.release m).alloc (clampMax s.maxSize (h.malloc + s.w.malloc)) ch).2.free.map (·.1)).count x +
        (if x = ((h.release m).alloc (clampMax s.maxSize (h.malloc + s.w.malloc)) ch).1 then 1 else 0) := by
      intro x
      have b := w1 x
      have c := c1.1 x
      simp only [mreleaseTwo, hc, if_true, MReader.blocks, MReader.cores, MReader.nodes, List.map_append, List.count_append,
        List.map_cons, List.map_nil, List.nil_append, List.count_nil, List.count_cons, MNode.core, beq_iff_eq, e] at b c ⊢
      by_cases hr : s.w.readOnly = true
      · simp only [hr, if_true] at b; omega
      · simp only [hr, Bool.false_eq_true, if_false] at b; omega
    have hnext : (mreleaseTwo m s h ch).1.nextBlk = ((h.release m).alloc (clampMax s.maxSize (h.malloc + s.w.malloc)) ch).2.nextBlk := by
      simp only [mreleaseTwo, hc, if_true]; rw [c1.2, w2]
    have : RGood (mreleaseTwo m s h ch).1 (mreleaseTwo m s h ch).2 L := by
      refine ⟨fun x => Nat.le_trans (hcount x) (ha.1 x), fun x hx => ?_⟩
      rw [hnext]
      have p := List.count_pos_iff.2 hx
      have q := hcount x
      by_cases hx1 : x = ((h.release m).alloc (clampMax s.maxSize (h.malloc + s.w.malloc)) ch).1
      · rw [hx1]; exact ha.2.2.1
      · simp only [hx1, if_false, Nat.add_zero] at q
        exact ha.2.1 x (List.count_pos_iff.1 (by omega))
    simpa only [mreleaseTwo, hc, if_true] using this
  · simp only [hc, if_false]
    have c1 := releaseCaches_spec s.caches (h.release m)
    refine RGood_of_le hG (fun x => ?_) (by rw [c1.2, n1])
    have c := c1.1 x
    have r := r1 x
    have hbx := hb x
    simp only [List.count_append]
    rw [hbx]
    simp only [MReader.blocks, MReader.cores, MReader.nodes, MNode.reset, List.map_append, List.count_append, List.map_cons,
      List.map_nil, List.nil_append, List.count_nil, List.count_cons, MNode.core, beq_iff_eq]
    by_cases hr : h.readOnly = true
    · simp only [hr, if_true] at r; omega
    · simp only [hr, Bool.false_eq_true, if_false] at r; omega

theorem mrelease_good (m : Mem) (s : MReader) (ch : Nat) (L : List Nat) (hG : RGood m s L) :
    RGood (mrelease m s ch).1 (mrelease m s ch).2 L := by
  unfold mrelease
  split
  · split
    · rename_i h1 h2
      refine RGood_of_le hG (fun x => ?_) rfl
      simp [MReader.blocks, MReader.cores, MReader.nodes, MNode.core, MNode.reset, h1, h2]
    · rename_i h1 h2; exact mreleaseTwo_good m s _ ch L hG (Or.inl ⟨h1, h2⟩)
    · rename_i h1 h2; exact mreleaseTwo_good m s _ ch L hG (Or.inr ⟨h1, h2⟩)
    · exact mreleaseGeneral_good m s L hG
  · exact mreleaseGeneral_good m s L hG

theorem mnext_good (m : Mem) (s : MReader) (l ch : Nat) (L : List Nat) (hG : RGood m s L)
    (p : Bytes) (e : Option Err) (m' : Mem) (s' : MReader) (h : mnext m s l ch = .ok (p, e, m', s')) :
    RGood m' s' L := by
  unfold mnext at h
  cases hp : peekWalk (s.cur.map (MNode.view m.heap)) l with
  | error f => simp [hp, bind, Except.bind] at h
  | ok pb =>
    simp only [hp, bind, Except.bind] at h
    cases hs : mskip s l with
    | error f => simp [hs] at h
    | ok r =>
      obtain ⟨e1, s1⟩ := r
      have h1 := (mskip_ok m s l L hG e1 s1 hs).1
      simp only [hs] at h
      cases e1 with
      | some e1 => simp only [pure, Except.pure] at h; cases h; exact h1
      | none => simp only [pure, Except.pure] at h; cases h; exact mrelease_good m s1 ch L h1

/-- every reader operation keeps the ownership invariant -/
theorem mstep_good (m : Mem) (s : MReader) (wire : Wire) (ch1 ch2 : Nat) (op : Op) (L : List Nat) (hG : RGood m s L)
    (o : MOut) (m' : Mem) (s' : MReader) (w' : Wire) (h : mstep m s wire ch1 ch2 op = .ok (o, m', s', w')) :
    RGood m' s' L := by
  by_cases hk : op.keeps = true
  · exact (mstep_ok m s wire ch1 ch2 op L hG hk o m' s' w' h).1
  · cases op with
    | read k =>
      simp only [mstep] at h
      split at h
      · cases hn : mnext m s (min s.len k) ch1 with
        | error f => simp [hn, bind, Except.bind] at h
        | ok r =>
          obtain ⟨p, e, m1, s1⟩ := r
          have := mnext_good m s _ ch1 L hG p e m1 s1 hn
          simp only [hn, bind, Except.bind, pure, Except.pure] at h; cases h; exact this
      · split at h
        · cases hf : mfill m s wire 1 ch1 with
          | error f => simp [hf, bind, Except.bind] at h
          | ok r =>
            obtain ⟨e, m1, s1, w1⟩ := r
            have h1 := (mfill_ok m s wire 1 ch1 L hG e m1 s1 w1 hf).1
            simp only [hf, bind, Except.bind] at h
            cases e with
            | some e => simp only [pure, Except.pure] at h; cases h; exact h1
            | none =>
              simp only at h
              cases hn : mnext m1 s1 (min s1.len k) ch2 with
              | error f => simp [hn] at h
              | ok r2 =>
                obtain ⟨p, e2, m2, s2⟩ := r2
                have := mnext_good m1 s1 _ ch2 L h1 p e2 m2 s2 hn
                simp only [hn, pure, Except.pure] at h; cases h; exact this
        · simp only [pure, Except.pure] at h; cases h; exact hG
    | release =>
      simp only [mstep, pure, Except.pure] at h; cases h
      exact mrelease_good m s ch1 L hG
    | peek n => simp [Op.keeps] at hk
    | skip n => simp [Op.keeps] at hk
    | readByte => simp [Op.keeps] at hk
    | readBinary n => simp [Op.keeps] at hk
    | len => simp [Op.keeps] at hk

/-- what the caller must respect, releasing reader operations included -/
def CStep.legalAny (c : MConn) : CStep → Prop
  | .rd _ _ _ => True
  | st => st.legal c

theorem cstep_good (c : MConn) (wire : Wire) (sc : WScript) (st : CStep) (hG : Good c) (hl : st.legalAny c)
    (o : COut) (c' : MConn) (w' : Wire) (sc' : WScript) (h : cstep c wire sc st = .ok (o, c', w', sc')) :
    Good c' := by
  cases st with
  | rd op ch1 ch2 =>
    simp only [cstep] at h
    cases hs : mstep c.mem c.r wire ch1 ch2 op with
    | error f => simp [hs, bind, Except.bind] at h
    | ok r =>
      obtain ⟨mo, m1, r1, w1⟩ := r
      have := mstep_good c.mem c.r wire ch1 ch2 op (c.wr.own ++ c.caller) hG.1 mo m1 r1 w1 hs
      simp only [hs, bind, Except.bind, pure, Except.pure] at h; cases h
      exact ⟨this, hG.2⟩
  | reserve n ch => exact (cstep_ok c wire sc (.reserve n ch) hG trivial o c' w' sc' h).1
  | writeBinary r ch => exact (cstep_ok c wire sc (.writeBinary r ch) hG hl o c' w' sc' h).1
  | flush => exact (cstep_ok c wire sc .flush hG trivial o c' w' sc' h).1
  | newBuf bs => exact (cstep_ok c wire sc (.newBuf bs) hG trivial o c' w' sc' h).1
  | callerWrite blk pos bs => exact (cstep_ok c wire sc (.callerWrite blk pos bs) hG trivial o c' w' sc' h).1
  | fillRef r bs => exact (cstep_ok c wire sc (.fillRef r bs) hG hl o c' w' sc' h).1
  | scribble pat => exact (cstep_ok c wire sc (.scribble pat) hG trivial o c' w' sc' h).1

def LegalAny (c : MConn) (wire : Wire) (sc : WScript) : List CStep → Prop
  | [] => True
  | st :: rest => st.legalAny c ∧ ∀ o c1 w1 sc1, cstep c wire sc st = .ok (o, c1, w1, sc1) → LegalAny c1 w1 sc1 rest

/-- ownership holds in every state a connection reaches -/
theorem crun_good (c : MConn) (wire : Wire) (sc : WScript) (steps : List CStep) (hG : Good c) (hl : LegalAny c wire sc steps)
    (outs : List COut) (c' : MConn) (w' : Wire) (sc' : WScript) (h : crun c wire sc steps = .ok (outs, c', w', sc')) :
    Good c' := by
  induction steps generalizing c wire sc outs with
  | nil => simp only [crun, pure, Except.pure] at h; cases h; exact hG
  | cons st rest ih =>
    simp only [crun] at h
    cases hs : cstep c wire sc st with
    | error f => simp [hs, bind, Except.bind] at h
    | ok r =>
      obtain ⟨o, c1, w1, sc1⟩ := r
      have h1 := cstep_good c wire sc st hG hl.1 o c1 w1 sc1 hs
      simp only [hs, bind, Except.bind] at h
      cases hr : crun c1 w1 sc1 rest with
      | error f => simp [hr] at h
      | ok r2 =>
        obtain ⟨os, c2, w2, sc2⟩ := r2
        simp only [hr, pure, Except.pure] at h; cases h
        exact ih c1 w1 sc1 h1 (hl.2 o c1 w1 sc1 hs) os hr

/-- the reader (operations other than `Release` / `Read`) and the allocator never write into a block of the writer or of
the caller: a slice reserved by `Malloc`, and a buffer handed to `WriteBinary`, keep their contents across them -/
theorem writer_memory_untouched (c : MConn) (wire : Wire) (sc : WScript) (st : CStep) (hG : Good c)
    (hst : (∃ op ch1 ch2, st = .rd op ch1 ch2 ∧ op.keeps = true) ∨ (∃ pat, st = .scribble pat))
    (o : COut) (c' : MConn) (w' : Wire) (sc' : WScript) (h : cstep c wire sc st = .ok (o, c', w', sc')) :
    ∀ b ∈ c.wr.own ++ c.caller, c'.mem.heap.get b = c.mem.heap.get b := by
  rcases hst with ⟨op, ch1, ch2, rfl, hk⟩ | ⟨pat, rfl⟩
  · simp only [cstep] at h
    cases hs : mstep c.mem c.r wire ch1 ch2 op with
    | error f => simp [hs, bind, Except.bind] at h
    | ok r =>
      obtain ⟨mo, m1, r1, w1⟩ := r
      have := mstep_ok c.mem c.r wire ch1 ch2 op (c.wr.own ++ c.caller) hG.1 hk mo m1 r1 w1 hs
      simp only [hs, bind, Except.bind, pure, Except.pure] at h; cases h
      exact this.2.2
  · simp only [cstep, pure, Except.pure] at h; cases h
    intro b hb
    refine scribble_fold_get _ _ _ _ (fun hf => ?_)
    have := hG.1.1 b
    have a1 := List.count_pos_iff.2 hb
    have a2 := List.count_pos_iff.2 hf
    simp only [List.count_append] at this a1; omega

end Hertz.ConnMem
