import Hertz.Proofs.NoFaultCodec
import Hertz.Model.NoFaultPath
/-!
C03: the checked re-statement of `normalizePath` never reaches a fault and its four loops terminate, for every input.
-/
namespace Hertz.NF
open Hertz Hertz.Gen.Str

theorem indexSub_bounds (pat : Bytes) : ∀ b : Bytes,
    -1 ≤ indexSub pat b ∧ (0 ≤ indexSub pat b → indexSub pat b + len pat ≤ len b)
  | [] => by
    unfold indexSub
    by_cases h : pat.isEmpty = true
    · rw [if_pos h]
      have : pat = [] := List.isEmpty_iff.mp h
      subst this; exact ⟨by omega, fun _ => by simp [len]⟩
    · rw [if_neg h]; exact ⟨by omega, fun h => by omega⟩
  | c :: t => by
    have ih := indexSub_bounds pat t
    have hl := len_cons c t
    unfold indexSub
    by_cases h : pat.isPrefixOf (c :: t) = true
    · rw [if_pos h]
      have := isPrefixOf_len h
      exact ⟨by omega, fun _ => by omega⟩
    · rw [if_neg h]
      by_cases h2 : indexSub pat t < 0
      · rw [if_pos h2]; exact ⟨by omega, fun h => by omega⟩
      · rw [if_neg h2]; exact ⟨by omega, fun _ => by omega⟩

theorem lastIndexByte_bounds (c : UInt8) (b : Bytes) : -1 ≤ lastIndexByte c b ∧ lastIndexByte c b < len b := by
  unfold lastIndexByte
  split
  · rename_i n hn
    have := indexOf_lt c b.reverse n hn
    rw [List.length_reverse] at this
    unfold len; omega
  · have := len_nonneg b; omega

theorem lastIndexSub_bounds (pat b : Bytes) :
    -1 ≤ lastIndexSub pat b ∧ (0 ≤ lastIndexSub pat b → lastIndexSub pat b + len pat ≤ len b) := by
  unfold lastIndexSub
  have h := indexSub_bounds pat.reverse b.reverse
  have e1 : len pat.reverse = len pat := by simp [len]
  have e2 : len b.reverse = len b := by simp [len]
  rw [e1, e2] at h
  by_cases h2 : indexSub pat.reverse b.reverse < 0
  · rw [if_pos h2]; exact ⟨by omega, fun h => by omega⟩
  · rw [if_neg h2]; exact ⟨by omega, fun _ => by omega⟩

theorem len_append (a b : Bytes) : len (a ++ b) = len a + len b := by simp [len]

theorem len_take (b : Bytes) (n : Int) (h0 : 0 ≤ n) (h1 : n ≤ len b) : len (b.take n.toNat) = n := by
  unfold len at *; simp only [List.length_take]; omega

theorem npSlashes_total (cap : Int) : ∀ (f : Nat) (pre b : Bytes) (bSize : Int), b.length < f →
    bSize = len pre + len b → bSize ≤ cap → ∃ r, npSlashes cap f pre b bSize = some r ∧ len r ≤ cap
  | 0, _, _, _, h, _, _ => by omega
  | f + 1, pre, b, bSize, hf, hs, hc => by
    have hb := indexSub_bounds strSlashSlash b
    have h2 : len strSlashSlash = 2 := rfl
    have hp := len_nonneg pre
    have hbn := len_nonneg b
    unfold npSlashes
    dsimp only
    by_cases hn : indexSub strSlashSlash b < 0
    · rw [if_pos hn, if_pos ⟨by omega, hc⟩]
      exact ⟨_, rfl, by rw [len_append]; omega⟩
    · rw [if_neg hn]
      obtain ⟨w, hw, hlw, _⟩ := slFrom_spec (b := b) (lo := indexSub strSlashSlash b) (by omega) (by omega)
      obtain ⟨w1, hw1, hlw1, _⟩ := slFrom_spec (b := w) (lo := 1) (by omega) (by omega)
      obtain ⟨w2, hw2, _⟩ := slTo_spec (b := w) (hi := len w - 1) (by omega) (by omega)
      rw [hw, Option.bind_some, hw1, Option.bind_some, hw2, Option.bind_some]
      have ht := len_take b (indexSub strSlashSlash b) (by omega) (by omega)
      exact npSlashes_total cap f _ w1 (bSize - 1) (by unfold len at *; omega) (by rw [len_append, ht]; omega) (by omega)

theorem npDotSlash_total : ∀ (f : Nat) (b : Bytes), b.length < f → ∃ r, npDotSlash f b = some r
  | 0, _, h => by omega
  | f + 1, b, hf => by
    have hb := indexSub_bounds strSlashDotSlash b
    have h3 : len strSlashDotSlash = 3 := rfl
    unfold npDotSlash
    dsimp only
    by_cases hn : indexSub strSlashDotSlash b < 0
    · rw [if_pos hn]; exact ⟨_, rfl⟩
    · rw [if_neg hn]
      obtain ⟨x, hx, _⟩ := slFrom_spec (b := b) (lo := indexSub strSlashDotSlash b) (by omega) (by omega)
      obtain ⟨src, hsrc, hls, _⟩ := slFrom_spec (b := b) (lo := indexSub strSlashDotSlash b + len strSlashDotSlash - 1) (by omega) (by omega)
      obtain ⟨y, hy, _⟩ := slTo_spec (b := b) (hi := len b - (indexSub strSlashDotSlash b + len strSlashDotSlash - 1) + indexSub strSlashDotSlash b) (by omega) (by omega)
      rw [hx, Option.bind_some, hsrc, Option.bind_some, hy, Option.bind_some]
      have ht := len_take b (indexSub strSlashDotSlash b) (by omega) (by omega)
      apply npDotSlash_total f
      have := len_append (List.take (indexSub strSlashDotSlash b).toNat b) src
      unfold len at *; omega

theorem npDotDot_total : ∀ (f : Nat) (b : Bytes), b.length < f → ∃ r, npDotDot f b = some r
  | 0, _, h => by omega
  | f + 1, b, hf => by
    have hb := indexSub_bounds strSlashDotDotSlash b
    have h4 : len strSlashDotDotSlash = 4 := rfl
    unfold npDotDot
    dsimp only
    by_cases hn : indexSub strSlashDotDotSlash b < 0
    · rw [if_pos hn]; exact ⟨_, rfl⟩
    · rw [if_neg hn]
      obtain ⟨head, hh, hlh, _⟩ := slTo_spec (b := b) (hi := indexSub strSlashDotDotSlash b) (by omega) (by omega)
      rw [hh, Option.bind_some]
      have hl := lastIndexByte_bounds 47 head
      generalize hnn : (if lastIndexByte 47 head < 0 then 0 else lastIndexByte 47 head) = nn
      have hnn0 : 0 ≤ nn := by rw [← hnn]; split <;> omega
      have hnn1 : nn ≤ indexSub strSlashDotDotSlash b := by rw [← hnn]; split <;> omega
      obtain ⟨x, hx, _⟩ := slFrom_spec (b := b) (lo := nn) hnn0 (by omega)
      obtain ⟨src, hsrc, hls, _⟩ := slFrom_spec (b := b) (lo := indexSub strSlashDotDotSlash b + len strSlashDotDotSlash - 1) (by omega) (by omega)
      obtain ⟨y, hy, _⟩ := slTo_spec (b := b) (hi := len b - (indexSub strSlashDotDotSlash b + len strSlashDotDotSlash - 1) + nn) (by omega) (by omega)
      rw [hx, Option.bind_some, hsrc, Option.bind_some, hy, Option.bind_some]
      have ht := len_take b nn hnn0 (by omega)
      apply npDotDot_total f
      have := len_append (List.take nn.toNat b) src
      unfold len at *; omega

theorem npTail_total (b : Bytes) : ∃ r, npTail b = some r := by
  have hb := lastIndexSub_bounds strSlashDotDot b
  unfold npTail
  dsimp only
  refine ite_ex (fun h => ?_) (fun _ => ⟨_, rfl⟩)
  obtain ⟨head, hh, hlh, _⟩ := slTo_spec (b := b) (hi := lastIndexSub strSlashDotDot b) h.1 (by have := len_nonneg strSlashDotDot; omega)
  rw [hh, Option.bind_some]
  have hl := lastIndexByte_bounds 47 head
  refine ite_ex (fun _ => ⟨_, rfl⟩) (fun hnn => ?_)
  obtain ⟨r, hr, _⟩ := slTo_spec (b := b) (hi := lastIndexByte 47 head + 1) (by omega) (by have := len_nonneg strSlashDotDot; omega)
  exact ⟨r, hr⟩

/-- `normalizePath` (leading slash, percent decoding, `//`, `/./`, `/../`, trailing `/..`) never indexes or slices
out of range and all its loops end, for every byte string. -/
theorem normalizePathC_total (src : Bytes) : ∃ r, normalizePathC src = some r := by
  unfold normalizePathC
  refine bind_ex ?_ (fun lead _ => ?_)
  · refine ite_ex (fun _ => ⟨_, rfl⟩) (fun h => ?_)
    obtain ⟨c, hc⟩ := ix_spec (b := src) (i := 0) (by omega) (by have := len_nonneg src; omega)
    rw [hc, Option.bind_some]
    exact ite_ex (fun _ => ⟨_, rfl⟩) (fun _ => ⟨_, rfl⟩)
  refine bind_ex (decodeArg_total false src) (fun d _ => ?_)
  dsimp only
  obtain ⟨b1, h1, _⟩ := npSlashes_total (len (lead ++ d)) ((lead ++ d).length + 1) [] (lead ++ d) (len (lead ++ d))
    (by omega) (by simp [len]) (by omega)
  rw [h1, Option.bind_some]
  obtain ⟨b2, h2⟩ := npDotSlash_total (b1.length + 1) b1 (by omega)
  rw [h2, Option.bind_some]
  obtain ⟨b3, h3⟩ := npDotDot_total (b2.length + 1) b2 (by omega)
  rw [h3, Option.bind_some]
  exact npTail_total b3

/-! ### `URI.parse` -/

/-- the cut never faults for indices with the properties `bytes.IndexByte` guarantees -/
theorem cutAt_total (base : Uri.URI) (b : Bytes) (q fi : Int) (hq1 : q < len b) (hf1 : fi < len b)
    (hqf : q ≥ 0 → fi ≥ 0 → q < fi) : ∃ u, cutAt base b q fi = some u := by
  unfold cutAt
  refine ite_ex (fun _ => ?_) (fun hnn => ?_)
  · obtain ⟨np, hnp⟩ := normalizePathC_total b
    rw [hnp, Option.bind_some]; exact ⟨_, rfl⟩
  refine ite_ex (fun hq0 => ?_) (fun hq0 => ?_)
  · obtain ⟨po, hpo, _⟩ := slTo_spec (b := b) (hi := q) hq0 (by omega)
    obtain ⟨np, hnp⟩ := normalizePathC_total po
    rw [hpo, Option.bind_some, hnp, Option.bind_some]
    refine ite_ex (fun _ => ?_) (fun hf0 => ?_)
    · obtain ⟨qs, hqs, _⟩ := slFrom_spec (b := b) (lo := q + 1) (by omega) (by omega)
      rw [hqs, Option.bind_some]; exact ⟨_, rfl⟩
    · have hlt := hqf hq0 (by omega)
      obtain ⟨qs, hqs, _⟩ := sl_spec (b := b) (lo := q + 1) (hi := fi) (by omega) (by omega) (by omega)
      obtain ⟨h, hh, _⟩ := slFrom_spec (b := b) (lo := fi + 1) (by omega) (by omega)
      rw [hqs, Option.bind_some, hh, Option.bind_some]; exact ⟨_, rfl⟩
  · obtain ⟨po, hpo, _⟩ := slTo_spec (b := b) (hi := fi) (by omega) (by omega)
    obtain ⟨np, hnp⟩ := normalizePathC_total po
    obtain ⟨h, hh, _⟩ := slFrom_spec (b := b) (lo := fi + 1) (by omega) (by omega)
    rw [hpo, Option.bind_some, hnp, Option.bind_some, hh, Option.bind_some]; exact ⟨_, rfl⟩

theorem indexOf_get (c : UInt8) : ∀ (b : Bytes) (n : Nat), Uri.indexOf c b = some n → b[n]? = some c
  | [], n, h => by simp [Uri.indexOf] at h
  | x :: t, n, h => by
    unfold Uri.indexOf at h
    split at h
    · rename_i hx; cases h; simp [hx]
    · cases hr : Uri.indexOf c t with
      | none => simp [hr] at h
      | some m =>
        simp [hr] at h
        have := indexOf_get c t m hr
        subst h; simpa using this

theorem ix_indexByte (c : UInt8) (b : Bytes) (h : 0 ≤ indexByte c b) : ix b (indexByte c b) = some c := by
  unfold indexByte at *
  split at h
  · rename_i n hn
    unfold ix
    have : ¬ ((n : Int) < 0) := by omega
    simp only [this, if_false, Int.toNat_natCast]
    exact indexOf_get c b n hn
  · omega

theorem cutPath_total (base : Uri.URI) (b : Bytes) : ∃ u, cutPath base b = some u := by
  unfold cutPath
  dsimp only
  have hq1 := indexByte_lt 63 b
  have hf1 := indexByte_lt 35 b
  apply cutAt_total
  · split <;> omega
  · exact hf1
  · intro hq hf
    split at hq
    · omega
    · rename_i hc
      rw [if_neg hc]
      have hne : indexByte 63 b ≠ indexByte 35 b := by
        intro he
        have h1 := ix_indexByte 63 b (by omega)
        have h2 := ix_indexByte 35 b hf
        rw [he, h2] at h1
        cases h1
      omega

/-- `URI.parse` (scheme/host split, user-info cut, query and fragment cut) never reaches a fault. -/
theorem parse_total (host uri : Bytes) : ∃ u, parse host uri = some u := by
  unfold parse
  refine ite_ex (fun _ => ⟨_, rfl⟩) (fun _ => ?_)
  refine bind_ex ?_ (fun r _ => ?_)
  · refine ite_ex (fun _ => ?_) (fun _ => ⟨_, rfl⟩)
    obtain ⟨x, hx⟩ := splitHostURI_total host uri
    rw [hx, Option.bind_some]; exact ⟨_, rfl⟩
  · refine bind_ex (userInfo_total r.2.1) (fun a _ => ?_)
    exact cutPath_total _ _

end Hertz.NF
