import Hertz.Proofs.Conn
/-!
Lemmas for C13, part 2: every run of the reader model is accepted by the *control* acceptor
`acceptsCtl` of `Hertz/Spec/Fifo.lean` (`run_ctl`), and the pointer-level form of peek stability
(`peekR`, `peekR_proj`, `peekR_in_block`, `region_stable`).

The invariant `CI` ties the acceptor's state to the model's: `Ctl.r` is what is buffered plus what is
on the wire, `Ctl.marks` is the stashed error `c.err` (in front of it: everything buffered) followed
by the errors of the unread wire script at their byte positions.
-/
namespace Hertz.Conn
open Hertz.Spec.Fifo

/-! ## positions of the errors of a wire script -/

theorem marksOf_ge (w : Wire) (pos : Nat) : ∀ m ∈ marksOf w pos, pos ≤ m.1 := by
  fun_induction marksOf w pos
  · simp
  · rename_i d e t pos ih
    intro m hm
    simp only [List.mem_cons] at hm
    rcases hm with rfl | hm
    · simp
    · have := ih m hm; omega
  · rename_i d t pos ih
    intro m hm
    have := ih m hm; omega

/-- consuming `k` buffered bytes moves every mark `k` to the front -/
def shiftMarks (k : Nat) (m : List (Nat × Err)) : List (Nat × Err) := m.map (fun (p, e) => (p - k, e))

theorem marksOf_shift (w : Wire) (pos k : Nat) (h : k ≤ pos) :
    shiftMarks k (marksOf w pos) = marksOf w (pos - k) := by
  fun_induction marksOf w pos
  · simp [shiftMarks, marksOf]
  · rename_i d e t pos ih
    have e1 : pos + d.length - k = pos - k + d.length := by omega
    have := ih (by omega)
    simp only [shiftMarks, List.map_cons, marksOf] at this ⊢
    rw [this, e1]
  · rename_i d t pos ih
    have e1 : pos + d.length - k = pos - k + d.length := by omega
    have := ih (by omega)
    simp only [marksOf]
    rw [this, e1]

theorem shiftMarks_zero (m : List (Nat × Err)) : shiftMarks 0 m = m := by
  simp [shiftMarks]

theorem shiftMarks_append (k : Nat) (a b : List (Nat × Err)) :
    shiftMarks k (a ++ b) = shiftMarks k a ++ shiftMarks k b := by
  simp [shiftMarks]

theorem consume_marks (c : Ctl) (k l : Nat) : (c.consume k l).marks = shiftMarks k c.marks := rfl

/-! ## the `fill` loop stops at the first error event -/

/-- What `fillLoop` read, in terms of the error marks of the script (`pos` = bytes in front of it):
ending normally it consumed no error event; ending with a stashed error `e` that error is the first
mark and lies exactly behind the bytes read; failing with `e` likewise (or it is the end of the
script), and fewer bytes than needed were read. -/
theorem fillLoop_marks (w : Wire) (need room pos : Nat) :
    ((fillLoop w need room).2.1 = .ok →
        marksOf w pos = marksOf (fillLoop w need room).2.2 (pos + (fillLoop w need room).1.length)) ∧
    (∀ e, (fillLoop w need room).2.1 = .stash e →
        0 < (fillLoop w need room).1.length ∧
        marksOf w pos = (pos + (fillLoop w need room).1.length, e) ::
          marksOf (fillLoop w need room).2.2 (pos + (fillLoop w need room).1.length)) ∧
    (∀ e, (fillLoop w need room).2.1 = .fail e →
        (fillLoop w need room).1.length < need ∧
        (marksOf w pos = (pos + (fillLoop w need room).1.length, e) ::
            marksOf (fillLoop w need room).2.2 (pos + (fillLoop w need room).1.length) ∨
         (e = errEOF ∧ (fillLoop w need room).2.2 = [] ∧ marksOf w pos = []))) := by
  fun_induction fillLoop w need room generalizing pos
  · simp
  · simp [marksOf]
  · -- whole event with error and data: stash
    rename_i d t need room hle hpos e'
    simp [marksOf]
    omega
  · -- whole event, no error: continue
    rename_i d t need room hle hpos ih
    have := ih (pos + d.length)
    simp only [prependBytes, List.length_append, marksOf] at this ⊢
    have e1 : pos + (d.length + (fillLoop t (need + 1 - d.length) (room - d.length)).1.length)
        = pos + d.length + (fillLoop t (need + 1 - d.length) (room - d.length)).1.length := by omega
    rw [e1]
    refine ⟨this.1, fun e he => ⟨by omega, (this.2.1 e he).2⟩, fun e he => ⟨?_, (this.2.2 e he).2⟩⟩
    have := (this.2.2 e he).1; omega
  · -- empty read with error: fail
    rename_i d t need room hle hpos e'
    have hd : d.length = 0 := by omega
    simp [marksOf, hd]
  · -- empty read without error: continue
    rename_i d t need room hle hpos ih
    have hd : d.length = 0 := by omega
    have := ih pos
    simpa [marksOf, hd] using this
  · simp
  · -- partial read, enough
    rename_i d e t need room hgt hroom hneed
    have hl : (d.take room).length = room := by simp; omega
    have hl2 : room + (d.length - room) = d.length := by omega
    cases e <;> simp [marksOf, hl, Nat.add_assoc, hl2]
  · simp

/-- what `fill` does when it has to read the wire, in terms of its loop -/
theorem fill_shape (s : Reader) (w : Wire) (i : Nat) (e : Option Err) (s1 : Reader) (w1 : Wire)
    (hlt : s.len < i) (he : s.err = none) (hf : fill s w i = .ok (e, s1, w1)) :
    ∃ room, w1 = (fillLoop w (i - s.len) room).2.2 ∧ s1.len = s.len + (fillLoop w (i - s.len) room).1.length ∧
      (((fillLoop w (i - s.len) room).2.1 = .ok ∧ e = none ∧ s1.err = none) ∨
       (∃ x, (fillLoop w (i - s.len) room).2.1 = .stash x ∧ e = none ∧ s1.err = some x) ∨
       (∃ x, (fillLoop w (i - s.len) room).2.1 = .fail x ∧ e = some x ∧ s1.err = none)) := by
  unfold fill at hf
  rw [if_neg (by omega)] at hf
  simp only [he] at hf
  generalize hs1 : (if (s.w.cap - s.w.data.length < i - s.len || s.w.readOnly) = true then
      ({ s with mid := s.mid ++ [{ s.w with readOnly := false }],
                w := newNode (if i < s.maxSize then s.maxSize else i) s.nextId,
                nextId := s.nextId + 1, err := none } : Reader) else s) = s0 at hf
  have h0 : s0.len = s.len ∧ s0.err = none := by
    subst hs1; split
    · exact ⟨rfl, rfl⟩
    · exact ⟨rfl, he⟩
  rw [h0.1] at hf
  refine ⟨s0.w.cap - s0.w.data.length, ?_⟩
  generalize fillLoop w (i - s.len) (s0.w.cap - s0.w.data.length) = r at hf ⊢
  obtain ⟨bs, fe, w'⟩ := r
  cases fe <;>
    simp only [pure, Except.pure, throw, throwThe, MonadExceptOf.throw, Except.ok.injEq, Prod.mk.injEq, reduceCtorEq] at hf
  · obtain ⟨rfl, rfl, rfl⟩ := hf
    exact ⟨rfl, rfl, Or.inl ⟨rfl, rfl, h0.2⟩⟩
  · obtain ⟨rfl, rfl, rfl⟩ := hf
    exact ⟨rfl, rfl, Or.inr (Or.inl ⟨_, rfl, rfl, rfl⟩)⟩
  · obtain ⟨rfl, rfl, rfl⟩ := hf
    exact ⟨rfl, rfl, Or.inr (Or.inr ⟨_, rfl, rfl, h0.2⟩)⟩

/-! ## the invariant tying the control acceptor to the model -/

/-- the mark of the stashed error `c.err`: everything buffered lies in front of it -/
def emark (err : Option Err) (len : Nat) : List (Nat × Err) :=
  match err with
  | some e => [(len, e)]
  | none => []

/-- `m` are the unreported errors of a reader with stashed error `err`, `len` buffered bytes and wire
`w`.  Second alternative: an `io.EOF` stashed with the last data of the script, everything consumed,
and then *also* delivered by a pass-through `Read` at the end of the script (the acceptor has
then removed the mark although `c.err` still holds it; the next pull reports the end of the
stream, which is justified by `r = 0`). -/
def MRel (err : Option Err) (len : Nat) (w : Wire) (m : List (Nat × Err)) : Prop :=
  m = emark err len ++ marksOf w len ∨ (err = some errEOF ∧ len = 0 ∧ w = [] ∧ m = [])

structure CI (s : Reader) (w : Wire) (r : Nat) (m : List (Nat × Err)) : Prop where
  inv : Inv s
  r : r = s.len + (wireBytes w).length
  marks : MRel s.err s.len w m

theorem CI.congr {s s2 : Reader} {w : Wire} {r : Nat} {m : List (Nat × Err)} (h : CI s w r m)
    (hI : Inv s2) (hl : s2.len = s.len) (he : s2.err = s.err) : CI s2 w r m :=
  ⟨hI, by rw [hl]; exact h.r, by rw [hl, he]; exact h.marks⟩

theorem MRel.ge {err : Option Err} {len : Nat} {w : Wire} {m : List (Nat × Err)} (h : MRel err len w m) :
    ∀ p ∈ m, len ≤ p.1 := by
  rcases h with rfl | ⟨_, _, _, rfl⟩
  · intro p hp
    simp only [List.mem_append] at hp
    rcases hp with hp | hp
    · cases err <;> simp [emark] at hp
      subst hp; simp
    · exact marksOf_ge w len p hp
  · simp

theorem le_avail (c : Ctl) (x : Nat) (hr : x ≤ c.r) (hm : ∀ p ∈ c.marks, x ≤ p.1) : x ≤ c.avail := by
  unfold Ctl.avail
  split
  · exact hr
  · rename_i p e t heq
    have := hm (p, e) (by rw [heq]; simp)
    simp only at this
    omega

theorem CI.le_avail {s : Reader} {w : Wire} {c : Ctl} (h : CI s w c.r c.marks) : s.len ≤ c.avail :=
  Hertz.Conn.le_avail c s.len (by rw [h.r]; omega) h.marks.ge

/-- a stashed error is reported by an operation that asked for more than is buffered: justified, and
the mark goes -/
theorem CI.report {s s2 : Reader} {w : Wire} {c : Ctl} {e : Err} {i : Nat} (h : CI s w c.r c.marks)
    (he : s.err = some e) (hi : s.len < i) (hI : Inv s2) (hl : s2.len = s.len) (he2 : s2.err = none) :
    c.justified e i = true ∧ CI s2 w c.r (c.marks.drop 1) := by
  have hm := h.marks
  rw [he] at hm
  rcases hm with hm | ⟨he', hl0, hw, hm⟩
  · refine ⟨?_, hI, by rw [hl]; exact h.r, ?_⟩
    · unfold Ctl.justified; rw [hm]; simp [emark, hi]
    · rw [hm, he2, hl]; left; simp [emark]
  · refine ⟨?_, hI, by rw [hl]; exact h.r, ?_⟩
    · have hr := h.r
      simp only [Option.some.injEq] at he'
      unfold Ctl.justified; rw [hm]; simp [he', hr, hl0, hw, wireBytes]; omega
    · rw [hm, he2, hl, hl0, hw]; left; simp [emark, marksOf]

/-- `fill(i)` with fewer than `i` bytes buffered, seen by the control acceptor: without error the
marks are unchanged and nothing behind an unreported error was buffered; a returned error is
justified by the demand `i` and its mark goes. -/
theorem fill_ctl (s : Reader) (w : Wire) (i : Nat) (c : Ctl) (h : CI s w c.r c.marks) (hlt : s.len < i) :
    ∃ e s1 w1, fill s w i = .ok (e, s1, w1) ∧ s.len ≤ s1.len ∧ s1.len ≤ c.avail ∧
      (e = none → 0 < s1.len ∧ (i ≤ s1.len ∨ s1.err.isSome) ∧ CI s1 w1 c.r c.marks) ∧
      (∀ e', e = some e' → s1.len < i ∧ c.justified e' i = true ∧ CI s1 w1 c.r (c.marks.drop 1)) := by
  obtain ⟨e, s1, w1, hf, hI1, hst, _, _, _⟩ := fill_spec s w i h.inv
  have hr1 : c.r = s1.len + (wireBytes w1).length := by
    have := congrArg List.length hst
    simp only [stream, List.length_append, ← hI1.1, ← h.inv.1] at this
    rw [h.r]; omega
  refine ⟨e, s1, w1, hf, ?_⟩
  cases he : s.err with
  | some e0 =>
    -- no wire read: the stashed error is reported, or stays
    unfold fill at hf
    rw [if_neg (by omega)] at hf
    simp only [he] at hf
    by_cases h0 : s.len > 0
    · simp only [h0, if_true, pure, Except.pure, Except.ok.injEq, Prod.mk.injEq] at hf
      obtain ⟨rfl, rfl, rfl⟩ := hf
      have hc : CI ({ s with err := some e0 } : Reader) w c.r c.marks := h.congr hI1 rfl he.symm
      exact ⟨Nat.le_refl _, h.le_avail, fun _ => ⟨h0, Or.inr rfl, hc⟩, (by intro e' h'; cases h')⟩
    · simp only [h0, if_false, pure, Except.pure, Except.ok.injEq, Prod.mk.injEq] at hf
      obtain ⟨rfl, rfl, rfl⟩ := hf
      have := h.report (s2 := ({ s with err := none } : Reader)) he hlt hI1 rfl rfl
      refine ⟨Nat.le_refl _, h.le_avail, (by intro h'; cases h'), fun e' h' => ?_⟩
      cases h'
      exact ⟨hlt, this.1, this.2⟩
  | none =>
    obtain ⟨room, hw1, hlen1, hcase⟩ := fill_shape s w i e s1 w1 hlt he hf
    have hmk := fillLoop_marks w (i - s.len) room s.len
    have hm : c.marks = marksOf w s.len := by
      have := h.marks
      rw [he] at this
      rcases this with hm | ⟨h', _⟩
      · simpa [emark] using hm
      · cases h'
    have hok := fillLoop_ok_len w (i - s.len) room
    generalize fillLoop w (i - s.len) room = r at hw1 hlen1 hcase hmk hok
    obtain ⟨bs, fe, w'⟩ := r
    simp only at hw1 hlen1 hcase hmk hok
    subst hw1
    rw [← hlen1] at hmk
    rcases hcase with ⟨hfe, rfl, he1⟩ | ⟨x, hfe, rfl, he1⟩ | ⟨x, hfe, rfl, he1⟩
    · have hmk1 := hmk.1 hfe
      have hok := hok hfe
      have hc : CI s1 w1 c.r c.marks := ⟨hI1, hr1, by rw [he1, hm, hmk1]; left; simp [emark]⟩
      exact ⟨by omega, hc.le_avail, fun _ => ⟨by omega, Or.inl (by omega), hc⟩, (by intro e' h'; cases h')⟩
    · have hmk1 := hmk.2.1 x hfe
      have hc : CI s1 w1 c.r c.marks := ⟨hI1, hr1, by rw [he1, hm, hmk1.2]; left; simp [emark]⟩
      exact ⟨by omega, hc.le_avail, fun _ => ⟨by omega, Or.inr (by rw [he1]; rfl), hc⟩, (by intro e' h'; cases h')⟩
    · have hmk1 := hmk.2.2 x hfe
      have hlt1 : s1.len < i := by omega
      refine ⟨by omega, ?_, (by intro h'; cases h'), fun e' h' => ?_⟩
      · apply Hertz.Conn.le_avail
        · omega
        · rcases hmk1.2 with h2 | ⟨_, _, h2⟩
          · rw [hm, h2]
            intro p hp
            simp only [List.mem_cons] at hp
            rcases hp with rfl | hp
            · simp
            · exact marksOf_ge _ _ p hp
          · rw [hm, h2]; simp
      · cases h'
        refine ⟨hlt1, ?_, hI1, hr1, ?_⟩
        · rcases hmk1.2 with h2 | ⟨hx, hw', h2⟩
          · unfold Ctl.justified; rw [hm, h2]; simp [hlt1]
          · unfold Ctl.justified; rw [hm, h2]; simp [hx]
            rw [hr1, hw']; simp [wireBytes]; exact hlt1
        · rcases hmk1.2 with h2 | ⟨hx, hw', h2⟩
          · rw [hm, h2, he1]; left; simp [emark]
          · rw [hm, h2, he1, hw']; left; simp [emark, marksOf]

theorem peek_of_fill_err (s : Reader) (w : Wire) (i : Nat) (e : Err) (s1 : Reader) (w1 : Wire)
    (hf : fill s w i = .ok (some e, s1, w1)) : peek s w i = .ok ([], some e, s1, w1) := by
  unfold peek
  simp only [hf, bind, Except.bind, pure, Except.pure]

/-- `Peek` after its `fill`: the result is short exactly when less than `i` is buffered, and then
the stashed error is handed out and cleared; nothing else of the queue state changes -/
theorem peek_of_fill (s : Reader) (w : Wire) (i : Nat) (s1 : Reader) (w1 : Wire)
    (hf : fill s w i = .ok (none, s1, w1)) (hI1 : Inv s1) :
    ∃ p s2, peek s w i = .ok (p, (if s1.len < i then s1.err else none), s2, w1) ∧
      p.length = (if s1.len < i then s1.len else i) ∧ Inv s2 ∧ s2.len = s1.len ∧
      s2.err = (if s1.len < i then none else s1.err) := by
  unfold peek
  simp only [hf, bind, Except.bind]
  generalize hs2 : (if s1.len < i then ({ s1 with err := none } : Reader) else s1) = s2
  have h2len : s2.len = s1.len := by subst hs2; split <;> rfl
  have h2err : s2.err = (if s1.len < i then none else s1.err) := by subst hs2; split <;> rfl
  have hI2 : Inv s2 := by subst hs2; split <;> exact hI1
  generalize hi' : (if s1.len < i then s1.len else i) = i'
  have hi'le : i' ≤ s1.len := by subst hi'; split <;> omega
  by_cases hdirect : s2.readNode.len ≥ i'
  · simp only [hdirect, if_true]
    have hl := hdirect; rw [Node.len_eq] at hl
    exact ⟨_, s2, rfl, by simp only [List.length_take, Nat.min_eq_left hl], hI2, h2len, h2err⟩
  · simp only [hdirect, if_false]
    generalize hs3 : (if (decide (block1k < i') && decide (i' ≤ mallocMax)) = true then
        ({ s2 with caches := s2.caches ++ [s2.nextId], nextId := s2.nextId + 1 } : Reader) else s2) = s3
    have h3len : s3.len = s2.len := by subst hs3; split <;> rfl
    have h3err : s3.err = s2.err := by subst hs3; split <;> rfl
    have hI3 : Inv s3 := by subst hs3; split <;> exact hI2
    have hlen3 : i' ≤ (s3.cur.flatMap Node.unread).length := by
      have := hI3.1; rw [Reader.unread] at this; omega
    rw [peekWalk_spec _ _ hlen3]
    exact ⟨_, s3, rfl, by simp only [List.length_take, Nat.min_eq_left hlen3], hI3, by rw [h3len, h2len],
      by rw [h3err, h2err]⟩

/-- `Peek(n)` answered from the buffer: no error, nothing of the queue state changes -/
theorem peek_buffered (s : Reader) (w : Wire) (n : Nat) (hI : Inv s) (hn : n ≤ s.len) :
    ∃ p s2, peek s w n = .ok (p, none, s2, w) ∧ p.length = n ∧ Inv s2 ∧ s2.len = s.len ∧ s2.err = s.err := by
  have hf : fill s w n = .ok (none, s, w) := by
    unfold fill; rw [if_pos hn]; rfl
  obtain ⟨p, s2, hp, hpl, hI2, hl2, he2⟩ := peek_of_fill s w n s w hf hI
  have hnl : ¬ s.len < n := by omega
  simp only [hnl, if_false] at hp hpl he2
  exact ⟨p, s2, hp, hpl, hI2, hl2, he2⟩

/-- `Peek(n)` that has to go to the wire (`n > Len()`), seen by the control acceptor -/
theorem peek_pull (s : Reader) (w : Wire) (n : Nat) (c : Ctl) (h : CI s w c.r c.marks) (hlt : s.len < n) :
    ∃ p e s1 w1, peek s w n = .ok (p, e, s1, w1) ∧ s.len ≤ s1.len ∧ s1.len ≤ c.avail ∧
      (e = none → p.length = n ∧ n ≤ s1.len ∧ CI s1 w1 c.r c.marks) ∧
      (∀ e', e = some e' → (p.length = s1.len ∨ p.length = 0) ∧ c.justified e' n = true ∧
        CI s1 w1 c.r (c.marks.drop 1)) := by
  obtain ⟨e, s1, w1, hf, hle, hav, hnone, hsome⟩ := fill_ctl s w n c h hlt
  cases e with
  | some e =>
    obtain ⟨_, hj, hc⟩ := hsome e rfl
    refine ⟨[], some e, s1, w1, peek_of_fill_err s w n e s1 w1 hf, hle, hav, (by intro h'; cases h'), ?_⟩
    intro e' h'; cases h'
    exact ⟨Or.inr rfl, hj, hc⟩
  | none =>
    obtain ⟨hpos, hor, hc⟩ := hnone rfl
    obtain ⟨p, s2, hp, hpl, hI2, hl2, he2⟩ := peek_of_fill s w n s1 w1 hf hc.inv
    by_cases hshort : s1.len < n
    · simp only [hshort, if_true] at hp hpl he2
      have hsome1 : s1.err.isSome := by
        rcases hor with h1 | h1
        · omega
        · exact h1
      cases he1 : s1.err with
      | none => rw [he1] at hsome1; cases hsome1
      | some e1 =>
        rw [he1] at hp
        have := hc.report he1 hshort hI2 hl2 he2
        refine ⟨p, some e1, s2, w1, hp, by omega, by omega, (by intro h'; cases h'), ?_⟩
        intro e' h'; cases h'
        exact ⟨Or.inl (by omega), this.1, this.2⟩
    · simp only [hshort, if_false] at hp hpl he2
      refine ⟨p, none, s2, w1, hp, by omega, by omega, fun _ => ⟨hpl, by omega, hc.congr hI2 hl2 he2⟩,
        (by intro e' h'; cases h')⟩

theorem skip_err (s : Reader) (n : Nat) (e : Option Err) (s' : Reader) (h : skip s n = .ok (e, s')) :
    s'.err = s.err := by
  unfold skip at h
  split at h
  · simp only [pure, Except.pure, Except.ok.injEq, Prod.mk.injEq] at h
    obtain ⟨_, rfl⟩ := h; rfl
  · cases hw : skipWalk s.done s.mid s.w n with
    | error f => simp [hw, bind, Except.bind] at h
    | ok r =>
      obtain ⟨d', m', w'⟩ := r
      simp only [hw, bind, Except.bind, pure, Except.pure, Except.ok.injEq, Prod.mk.injEq] at h
      obtain ⟨_, rfl⟩ := h; rfl

theorem release_err (s : Reader) : (release s).err = s.err := by
  unfold release releaseTwo releaseGeneral
  repeat' split
  all_goals rfl

theorem shiftMarks_emark (err : Option Err) (len k : Nat) : shiftMarks k (emark err len) = emark err (len - k) := by
  cases err <;> simp [emark, shiftMarks]

/-- consuming `k` buffered bytes -/
theorem CI.consume {s s' : Reader} {w : Wire} {r : Nat} {m : List (Nat × Err)} {k : Nat} (h : CI s w r m)
    (hI : Inv s') (hl : s'.len = s.len - k) (hk : k ≤ s.len) (he : s'.err = s.err) :
    CI s' w (r - k) (shiftMarks k m) := by
  refine ⟨hI, by rw [h.r, hl]; omega, ?_⟩
  rw [hl, he]
  rcases h.marks with hm | ⟨h1, h2, h3, hm⟩
  · left
    rw [hm, shiftMarks_append, shiftMarks_emark, marksOf_shift _ _ _ hk]
  · right
    exact ⟨h1, by omega, h3, by rw [hm]; rfl⟩

/-- a successful `Skip(n)` seen by the control acceptor -/
theorem skip_ctl (s : Reader) (w : Wire) (n : Nat) (r : Nat) (m : List (Nat × Err)) (h : CI s w r m) (hn : n ≤ s.len) :
    ∃ s', skip s n = .ok (none, s') ∧ s'.len = s.len - n ∧ CI s' w (r - n) (shiftMarks n m) := by
  obtain ⟨e, s', hs, hI', hok, _⟩ := skip_spec s n h.inv
  obtain ⟨rfl, _, hl⟩ := hok hn
  exact ⟨s', hs, hl, h.consume hI' hl hn (skip_err _ _ _ _ hs)⟩

theorem next_err (s : Reader) (l : Nat) (p : Bytes) (e : Option Err) (s' : Reader) (h : next s l = .ok (p, e, s')) :
    s'.err = s.err := by
  unfold next at h
  cases hp : peekWalk s.cur l with
  | error f => simp [hp, bind, Except.bind] at h
  | ok pp =>
    simp only [hp, bind, Except.bind] at h
    cases hs : skip s l with
    | error f => simp [hs] at h
    | ok r =>
      obtain ⟨e1, s1⟩ := r
      have := skip_err _ _ _ _ hs
      simp only [hs] at h
      cases e1 with
      | some e1 =>
        simp only [pure, Except.pure, Except.ok.injEq, Prod.mk.injEq] at h
        obtain ⟨_, _, rfl⟩ := h; exact this
      | none =>
        simp only [pure, Except.pure, Except.ok.injEq, Prod.mk.injEq] at h
        obtain ⟨_, _, rfl⟩ := h; rw [release_err]; exact this

/-- `next(l)` (the copy-out of `Read`) seen by the control acceptor -/
theorem next_ctl (s : Reader) (w : Wire) (l : Nat) (r : Nat) (m : List (Nat × Err)) (h : CI s w r m) (hl : l ≤ s.len) :
    ∃ s', next s l = .ok (s.unread.take l, none, s') ∧ s'.len = s.len - l ∧ CI s' w (r - l) (shiftMarks l m) := by
  obtain ⟨s', hn, hI', _, hlen⟩ := next_spec s l h.inv hl
  exact ⟨s', hn, hlen, h.consume hI' hlen hl (next_err _ _ _ _ _ hn)⟩

/-! ## the pass-through `Read` (one `net.Conn.Read` into the caller's buffer) -/

theorem marksOf_split (d : Bytes) (e : Option Err) (t : Wire) (k : Nat) (hk : k ≤ d.length) :
    marksOf (.data (d.drop k) e :: t) 0 = shiftMarks k (marksOf (.data d e :: t) 0) := by
  have h1 : marksOf (.data d e :: t) 0 = marksOf (.data (d.drop k) e :: t) k := by
    have : k + (d.length - k) = d.length := by omega
    cases e <;> simp [marksOf, this]
  rw [h1, marksOf_shift _ _ _ (Nat.le_refl k), Nat.sub_self]

theorem connRead_ctl (err : Option Err) (w : Wire) (k : Nat) (m : List (Nat × Err)) (hm : MRel err 0 w m) :
    ((connRead w k).1.2 = none → MRel err 0 (connRead w k).2 (shiftMarks (connRead w k).1.1.length m)) ∧
    (∀ e, (connRead w k).1.2 = some e →
      (∃ m', removeMark e (connRead w k).1.1.length m = some m' ∧
        MRel err 0 (connRead w k).2 (shiftMarks (connRead w k).1.1.length m')) ∨
      (removeMark e (connRead w k).1.1.length m = none ∧ e = errEOF ∧ (connRead w k).1.1 = [] ∧ w = [] ∧
        (connRead w k).2 = [])) := by
  match w, hm with
  | [], hm =>
    have hm' : m = emark err 0 ∨ m = [] := by
      rcases hm with hm | ⟨_, _, _, hm⟩
      · left; simpa [marksOf] using hm
      · right; exact hm
    refine ⟨by simp [connRead], ?_⟩
    intro e he
    simp only [connRead, Option.some.injEq] at he
    subst he
    simp only [connRead, List.length_nil]
    rcases hm' with rfl | rfl
    · cases err with
      | none => right; simp [emark, removeMark]
      | some e0 =>
        by_cases h0 : errEOF = e0
        · left; subst h0
          exact ⟨[], by simp [emark, removeMark], Or.inr ⟨rfl, rfl, rfl, rfl⟩⟩
        · right; simp [emark, removeMark, h0]
    · right; simp [removeMark]
  | .data d e :: t, hm =>
    have hm' : m = emark err 0 ++ marksOf (.data d e :: t) 0 := by
      rcases hm with hm | ⟨_, _, h, _⟩
      · exact hm
      · cases h
    subst hm'
    by_cases hle : d.length ≤ k
    · simp only [connRead, hle, if_true]
      cases e with
      | none =>
        refine ⟨fun _ => Or.inl ?_, by intro e he; cases he⟩
        rw [shiftMarks_append, shiftMarks_emark]
        simp only [marksOf, Nat.zero_add]
        rw [marksOf_shift _ _ _ (Nat.le_refl _), Nat.sub_self, Nat.zero_sub]
      | some e' =>
        refine ⟨(by intro h; cases h), ?_⟩
        intro e he
        cases he
        left
        simp only [marksOf, Nat.zero_add]
        have hsh : shiftMarks d.length (marksOf t d.length) = marksOf t 0 := by
          rw [marksOf_shift _ _ _ (Nat.le_refl _), Nat.sub_self]
        cases err with
        | none =>
          refine ⟨marksOf t d.length, by simp [emark, removeMark], Or.inl ?_⟩
          rw [hsh]; simp [emark]
        | some e0 =>
          by_cases h0 : e' = e0
          · subst h0
            refine ⟨(d.length, e') :: marksOf t d.length, by simp [emark, removeMark], Or.inl ?_⟩
            simp only [shiftMarks, List.map_cons, Nat.sub_self] at hsh ⊢
            rw [hsh]; simp [emark]
          · refine ⟨(0, e0) :: marksOf t d.length, by simp [emark, removeMark, h0], Or.inl ?_⟩
            simp only [shiftMarks, List.map_cons, Nat.zero_sub] at hsh ⊢
            rw [hsh]; simp [emark]
    · simp only [connRead, hle, if_false]
      refine ⟨fun _ => Or.inl ?_, by intro e he; cases he⟩
      have hl : (d.take k).length = k := by simp; omega
      rw [hl, shiftMarks_append, shiftMarks_emark, marksOf_split d e t k (by omega), Nat.zero_sub]

/-! ## every step is accepted -/

/-- state of the control acceptor that belongs to a model state -/
structure CInv (s : Reader) (w : Wire) (c : Ctl) : Prop where
  len : c.len = s.len
  ci : CI s w c.r c.marks

theorem pullOK_none {α : Type} (c : Ctl) (n : Nat) (o : Obs α) (consumes : Bool) (he : o.err = none)
    (h1 : n ≤ (if consumes then o.len + n else o.len)) (h2 : (if consumes then o.len + n else o.len) ≤ c.avail) :
    pullOK c n o consumes = some (c.consume (if consumes then n else 0) o.len) := by
  unfold pullOK
  simp only [he]
  rw [if_pos (by simp only [Bool.and_eq_true, decide_eq_true_eq]; exact ⟨h1, h2⟩)]

theorem pullOK_some {α : Type} (c : Ctl) (n : Nat) (o : Obs α) (consumes : Bool) (e : Err) (he : o.err = some e)
    (hj : c.justified e n = true) (h1 : c.len ≤ o.len) (h2 : o.len ≤ c.avail) (h3 : o.n = o.len ∨ o.n = 0) :
    pullOK c n o consumes = some { c.pop with len := o.len } := by
  unfold pullOK
  simp only [he]
  rw [if_pos (by simp only [Bool.and_eq_true, Bool.or_eq_true, decide_eq_true_eq]; exact ⟨⟨⟨hj, h1⟩, h2⟩, h3⟩)]

theorem CInv.consumed {s' : Reader} {w' : Wire} {c : Ctl} {k : Nat}
    (h : CI s' w' (c.r - k) (shiftMarks k c.marks)) : CInv s' w' (c.consume k s'.len) :=
  ⟨rfl, h⟩

theorem CInv.kept {s' : Reader} {w' : Wire} {c : Ctl} (h : CI s' w' c.r c.marks) : CInv s' w' (c.consume 0 s'.len) :=
  ⟨rfl, by
    show CI s' w' (c.r - 0) (shiftMarks 0 c.marks)
    rw [shiftMarks_zero, Nat.sub_zero]; exact h⟩

theorem CInv.popped {s' : Reader} {w' : Wire} {c : Ctl} (h : CI s' w' c.r (c.marks.drop 1)) :
    CInv s' w' { c.pop with len := s'.len } :=
  ⟨rfl, h⟩

theorem step_ctl_peek (s : Reader) (w : Wire) (n : Nat) (c : Ctl) (h : CInv s w c) :
    ∃ o s' w' c', step s w (.peek n) = .ok (o, s', w') ∧ stepCtl c (.peek n) (Obs.ofOut id o) = some c' ∧ CInv s' w' c' := by
  by_cases hn : n ≤ s.len
  · obtain ⟨p, s2, hp, hpl, hI2, hl2, he2⟩ := peek_buffered s w n h.ci.inv hn
    refine ⟨{ bytes := p, err := none, len := s2.len }, s2, w, c,
      by simp only [step, hp, bind, Except.bind, pure, Except.pure], ?_, ⟨by rw [hl2]; exact h.len, h.ci.congr hI2 hl2 he2⟩⟩
    simp [stepCtl, Obs.ofOut, h.len, hn, hl2]
  · obtain ⟨p, e, s1, w1, hp, hle, hav, hnone, hsome⟩ := peek_pull s w n c h.ci (by omega)
    have hnc : ¬ n ≤ c.len := by rw [h.len]; exact hn
    cases e with
    | none =>
      obtain ⟨hpl, hn1, hc⟩ := hnone rfl
      refine ⟨{ bytes := p, err := none, len := s1.len }, s1, w1, _,
        by simp only [step, hp, bind, Except.bind, pure, Except.pure], ?_, CInv.kept hc⟩
      simp only [stepCtl, hnc, if_false]
      exact pullOK_none c n _ false rfl hn1 hav
    | some e =>
      obtain ⟨hpl, hj, hc⟩ := hsome e rfl
      refine ⟨{ bytes := p, err := some e, len := s1.len }, s1, w1, _,
        by simp only [step, hp, bind, Except.bind, pure, Except.pure], ?_, CInv.popped hc⟩
      simp only [stepCtl, hnc, if_false]
      exact pullOK_some c n _ false e rfl hj (by rw [h.len]; exact hle) hav hpl

theorem step_ctl_skip (s : Reader) (w : Wire) (n : Nat) (c : Ctl) (h : CInv s w c) :
    ∃ o s' w' c', step s w (.skip n) = .ok (o, s', w') ∧ stepCtl c (.skip n) (Obs.ofOut id o) = some c' ∧ CInv s' w' c' := by
  by_cases hn : n ≤ s.len
  · obtain ⟨s', hs, hl, hc⟩ := skip_ctl s w n c.r c.marks h.ci hn
    refine ⟨{ err := none, len := s'.len }, s', w, _,
      by simp only [step, hs, bind, Except.bind, pure, Except.pure], ?_, CInv.consumed hc⟩
    simp [stepCtl, Obs.ofOut, h.len, hn, hl]
  · obtain ⟨e, s', hs, _, _, hfail⟩ := skip_spec s n h.ci.inv
    obtain ⟨rfl, rfl⟩ := hfail (by omega)
    refine ⟨{ err := some errSkip, len := s'.len }, s', w, c,
      by simp only [step, hs, bind, Except.bind, pure, Except.pure], ?_, h⟩
    simp [stepCtl, Obs.ofOut, h.len, hn]

theorem step_ctl_readByte (s : Reader) (w : Wire) (c : Ctl) (h : CInv s w c) :
    ∃ o s' w' c', step s w .readByte = .ok (o, s', w') ∧ stepCtl c .readByte (Obs.ofOut id o) = some c' ∧ CInv s' w' c' := by
  by_cases hn : 1 ≤ s.len
  · obtain ⟨p, s2, hp, hpl, hI2, hl2, he2⟩ := peek_buffered s w 1 h.ci.inv hn
    obtain ⟨s3, hs, hl3, hc⟩ := skip_ctl s2 w 1 c.r c.marks (h.ci.congr hI2 hl2 he2) (by omega)
    match p, hpl with
    | [b], _ =>
      refine ⟨{ bytes := [b], len := s3.len }, s3, w, _,
        by simp only [step, hp, hs, bind, Except.bind, pure, Except.pure], ?_, CInv.consumed hc⟩
      simp [stepCtl, Obs.ofOut, h.len, hn, hl3, hl2]
  · obtain ⟨p, e, s1, w1, hp, hle, hav, hnone, hsome⟩ := peek_pull s w 1 c h.ci (by omega)
    have hnc : ¬ 1 ≤ c.len := by rw [h.len]; exact hn
    cases e with
    | none =>
      obtain ⟨hpl, hn1, hc⟩ := hnone rfl
      obtain ⟨s3, hs, hl3, hc3⟩ := skip_ctl s1 w1 1 c.r c.marks hc hn1
      match p, hpl with
      | [b], _ =>
        refine ⟨{ bytes := [b], len := s3.len }, s3, w1, _,
          by simp only [step, hp, hs, bind, Except.bind, pure, Except.pure], ?_, CInv.consumed hc3⟩
        simp only [stepCtl, hnc, if_false]
        exact pullOK_none c 1 _ true rfl (by simp [Obs.ofOut]) (by simp only [Obs.ofOut, if_true]; omega)
    | some e =>
      obtain ⟨_, hj, hc⟩ := hsome e rfl
      refine ⟨{ err := some e, len := s1.len }, s1, w1, _,
        by simp only [step, hp, bind, Except.bind, pure, Except.pure], ?_, CInv.popped hc⟩
      simp only [stepCtl, hnc, if_false]
      exact pullOK_some c 1 _ true e rfl hj (by rw [h.len]; exact hle) hav (Or.inr rfl)

theorem step_ctl_readBinary (s : Reader) (w : Wire) (n : Nat) (c : Ctl) (h : CInv s w c) :
    ∃ o s' w' c', step s w (.readBinary n) = .ok (o, s', w') ∧ stepCtl c (.readBinary n) (Obs.ofOut id o) = some c' ∧
      CInv s' w' c' := by
  by_cases hn : n ≤ s.len
  · obtain ⟨p, s2, hp, hpl, hI2, hl2, he2⟩ := peek_buffered s w n h.ci.inv hn
    obtain ⟨s3, hs, hl3, hc⟩ := skip_ctl s2 w n c.r c.marks (h.ci.congr hI2 hl2 he2) (by omega)
    refine ⟨{ bytes := p ++ List.replicate (n - p.length) 0, err := none, len := s3.len }, s3, w, _,
      by simp only [step, hp, hs, bind, Except.bind, pure, Except.pure], ?_, CInv.consumed hc⟩
    simp [stepCtl, Obs.ofOut, h.len, hn, hl3, hl2]
  · obtain ⟨p, e, s1, w1, hp, hle, hav, hnone, hsome⟩ := peek_pull s w n c h.ci (by omega)
    have hnc : ¬ n ≤ c.len := by rw [h.len]; exact hn
    cases e with
    | none =>
      obtain ⟨hpl, hn1, hc⟩ := hnone rfl
      obtain ⟨s3, hs, hl3, hc3⟩ := skip_ctl s1 w1 n c.r c.marks hc hn1
      refine ⟨{ bytes := p ++ List.replicate (n - p.length) 0, err := none, len := s3.len }, s3, w1, _,
        by simp only [step, hp, hs, bind, Except.bind, pure, Except.pure], ?_, CInv.consumed hc3⟩
      simp only [stepCtl, hnc, if_false]
      exact pullOK_none c n _ true rfl (by simp [Obs.ofOut]) (by simp only [Obs.ofOut, if_true]; omega)
    | some e =>
      obtain ⟨_, hj, hc⟩ := hsome e rfl
      refine ⟨{ err := some e, len := s1.len }, s1, w1, _,
        by simp only [step, hp, bind, Except.bind, pure, Except.pure], ?_, CInv.popped hc⟩
      simp only [stepCtl, hnc, if_false]
      exact pullOK_some c n _ true e rfl hj (by rw [h.len]; exact hle) hav (Or.inr rfl)

theorem step_ctl_release (s : Reader) (w : Wire) (c : Ctl) (h : CInv s w c) :
    ∃ o s' w' c', step s w .release = .ok (o, s', w') ∧ stepCtl c .release (Obs.ofOut id o) = some c' ∧ CInv s' w' c' := by
  have hr := release_spec s h.ci.inv
  refine ⟨{ len := (release s).len }, release s, w, c, rfl, ?_,
    ⟨by rw [hr.2.2]; exact h.len, h.ci.congr hr.1 hr.2.2 (release_err s)⟩⟩
  simp [stepCtl, Obs.ofOut, h.len, hr.2.2]

theorem step_ctl_len (s : Reader) (w : Wire) (c : Ctl) (h : CInv s w c) :
    ∃ o s' w' c', step s w .len = .ok (o, s', w') ∧ stepCtl c .len (Obs.ofOut id o) = some c' ∧ CInv s' w' c' :=
  ⟨{ len := s.len }, s, w, c, rfl, by simp [stepCtl, Obs.ofOut, h.len], h⟩

theorem step_ctl_read (s : Reader) (w : Wire) (k : Nat) (c : Ctl) (h : CInv s w c) :
    ∃ o s' w' c', step s w (.read k) = .ok (o, s', w') ∧ stepCtl c (.read k) (Obs.ofOut id o) = some c' ∧ CInv s' w' c' := by
  by_cases h0 : s.len > 0
  · -- served from the buffer
    have hl : min s.len k ≤ s.len := Nat.min_le_left _ _
    obtain ⟨s', hn, hlen, hc⟩ := next_ctl s w (min s.len k) c.r c.marks h.ci hl
    have hlu : (s.unread.take (min s.len k)).length = min s.len k := by
      rw [List.length_take, ← h.ci.inv.1]; omega
    refine ⟨{ bytes := s.unread.take (min s.len k), err := none, len := s'.len }, s', w, _,
      by simp only [step, h0, if_true, hn, bind, Except.bind, pure, Except.pure], ?_, CInv.consumed hc⟩
    simp only [stepCtl, h.len, h0, if_true, Obs.ofOut, hlu, hlen]
    simp
  · have hs0 : s.len = 0 := by omega
    have hc0 : ¬ c.len > 0 := by rw [h.len]; exact h0
    by_cases hk : k ≤ block4k
    · -- one `fill(1)`, then copy out
      obtain ⟨e, s1, w1, hf, hle, hav, hnone, hsome⟩ := fill_ctl s w 1 c h.ci (by omega)
      cases e with
      | some e =>
        obtain ⟨hlt, hj, hc⟩ := hsome e rfl
        have hl0 : s1.len = 0 := by omega
        refine ⟨{ err := some e, len := s1.len }, s1, w1, c.pop,
          by simp only [step, h0, hk, if_true, if_false, hf, bind, Except.bind, pure, Except.pure], ?_,
          ⟨by rw [hl0]; show c.len = 0; rw [h.len]; exact hs0, hc⟩⟩
        simp only [stepCtl, hc0, hk, if_true, if_false, Obs.ofOut]
        simp [hj, hl0]
      | none =>
        obtain ⟨hpos, _, hc⟩ := hnone rfl
        have hl : min s1.len k ≤ s1.len := Nat.min_le_left _ _
        obtain ⟨s', hn, hlen, hc'⟩ := next_ctl s1 w1 (min s1.len k) c.r c.marks hc hl
        have hlu : (s1.unread.take (min s1.len k)).length = min s1.len k := by
          rw [List.length_take, ← hc.inv.1]; omega
        refine ⟨{ bytes := s1.unread.take (min s1.len k), err := none, len := s'.len }, s', w1, _,
          by simp only [step, h0, hk, if_true, if_false, hf, hn, bind, Except.bind, pure, Except.pure], ?_,
          CInv.consumed hc'⟩
        simp only [stepCtl, hc0, hk, if_true, if_false, Obs.ofOut, hlu, hlen]
        have e1 : min s1.len k + (s1.len - min s1.len k) = s1.len := by omega
        have e2 : s1.len - min s1.len k = 0 ∨ min s1.len k = k := by omega
        rw [if_pos]
        simp only [Bool.and_eq_true, Bool.or_eq_true, decide_eq_true_eq, e1]
        exact ⟨⟨hpos, hav⟩, e2⟩
    · -- pass-through of one wire read
      have hb := connRead_bytes w k
      have hm : MRel s.err 0 w c.marks := by have := h.ci.marks; rwa [hs0] at this
      have hcr := connRead_ctl s.err w k c.marks hm
      have hr : c.r = (wireBytes w).length := by rw [h.ci.r, hs0]; omega
      have hnr : (connRead w k).1.1.length ≤ c.r := by
        rw [hr, ← hb]; simp
      have hr' : c.r - (connRead w k).1.1.length = s.len + (wireBytes (connRead w k).2).length := by
        have := congrArg List.length hb
        simp only [List.length_append] at this
        rw [hr, hs0]; omega
      have hstep : step s w (.read k) =
          .ok ({ bytes := (connRead w k).1.1, err := (connRead w k).1.2, len := s.len }, s, (connRead w k).2) := by
        simp only [step, h0, hk, if_false, pure, Except.pure]
      suffices hsuff : ∃ c', stepCtl c (.read k) (Obs.ofOut id
          ({ bytes := (connRead w k).1.1, err := (connRead w k).1.2, len := s.len } : Out)) = some c' ∧
          CInv s (connRead w k).2 c' by
        obtain ⟨c', h1, h2⟩ := hsuff
        exact ⟨_, _, _, c', hstep, h1, h2⟩
      simp only [stepCtl, hc0, hk, if_false, Obs.ofOut, hs0]
      rw [if_pos (by simp only [Bool.and_eq_true, decide_eq_true_eq]; exact ⟨trivial, hnr⟩)]
      cases he : (connRead w k).1.2 with
      | none =>
        refine ⟨_, rfl, hs0.symm, h.ci.inv, hr', ?_⟩
        rw [hs0]; exact hcr.1 he
      | some e =>
        rcases hcr.2 e he with ⟨m', hrm, hrel⟩ | ⟨hrm, hee, hd, hw, hw'⟩
        · simp only [hrm]
          refine ⟨_, rfl, hs0.symm, h.ci.inv, hr', ?_⟩
          rw [hs0]; exact hrel
        · simp only [hrm]
          have hr0 : c.r = 0 := by rw [hr, hw]; rfl
          refine ⟨c, ?_, h.len, ?_⟩
          · simp [hee, hd, hr0]
          · rw [hw', ← hw]; exact h.ci

/-- every operation of the model is accepted by the control acceptor, and the tie is kept -/
theorem step_ctl (s : Reader) (w : Wire) (op : Op) (c : Ctl) (h : CInv s w c) :
    ∃ o s' w' c', step s w op = .ok (o, s', w') ∧ stepCtl c op (Obs.ofOut id o) = some c' ∧ CInv s' w' c' := by
  cases op with
  | peek n => exact step_ctl_peek s w n c h
  | skip n => exact step_ctl_skip s w n c h
  | readByte => exact step_ctl_readByte s w c h
  | readBinary n => exact step_ctl_readBinary s w n c h
  | read k => exact step_ctl_read s w k c h
  | release => exact step_ctl_release s w c h
  | len => exact step_ctl_len s w c h

theorem run_ctl (s : Reader) (w : Wire) (ops : List Op) (c : Ctl) (h : CInv s w c) :
    ∃ outs s' w', run s w ops = .ok (outs, s', w') ∧
      acceptsCtl c (ops.zip (outs.map (Obs.ofOut id))) = true := by
  induction ops generalizing s w c with
  | nil => exact ⟨[], s, w, rfl, rfl⟩
  | cons op ops ih =>
    obtain ⟨o, s1, w1, c1, hs, hc, h1⟩ := step_ctl s w op c h
    obtain ⟨os, s2, w2, hr, hacc⟩ := ih s1 w1 c1 h1
    refine ⟨o :: os, s2, w2, by simp only [run, hs, hr, bind, Except.bind, pure, Except.pure], ?_⟩
    simp only [List.map_cons, List.zip_cons_cons, acceptsCtl, hc, hacc]

theorem CInv_new (size : Nat) (w : Wire) : CInv (Reader.new size) w (Ctl.init w) := by
  refine ⟨rfl, Inv_new size, ?_, Or.inl ?_⟩
  · simp [Ctl.init, Reader.new]
  · simp [Ctl.init, Reader.new, emark]

/-! ## `Peek` with references: which memory the returned slice points into

The model's `peek` returns bytes.  `peekR` is the same function returning, in addition, *where* the
returned slice lives (`Ref`), as the Go code has it: a sub-slice `node.buf[off : off+len]` of the
block of the read node, a copy in a block registered in `c.caches`, or a garbage-collected copy. -/

inductive Ref
  /-- the nil slice of an error return -/
  | nil
  /-- `buf[off : off+len]` of the node block `id` -/
  | block (id off len : Nat)
  /-- a copy in the `mcache` block `id`, registered in `c.caches` -/
  | cache (id : Nat)
  /-- `make([]byte, i)`: referenced by nobody else -/
  | fresh
  deriving Repr, DecidableEq

/-- `Conn.Peek(i)` returning (slice bytes, reference), error, state, wire -/
def peekR (s : Reader) (wire : Wire) (i : Nat) : Except Fault ((Bytes × Ref) × Option Err × Reader × Wire) := do
  let (e, s1, w1) ← fill s wire i
  match e with
  | some e => pure (([], .nil), some e, s1, w1)
  | none =>
    let short := s1.len < i
    let i' := if short then s1.len else i
    let err := if short then s1.err else none
    let s2 : Reader := if short then { s1 with err := none } else s1
    let node := s2.readNode
    if node.len ≥ i' then pure ((node.unread.take i', .block node.id node.off i'), err, s2, w1)
    else
      let s3 : Reader :=
        if block1k < i' && i' ≤ mallocMax then
          { s2 with caches := s2.caches ++ [s2.nextId], nextId := s2.nextId + 1 }
        else s2
      let ref : Ref := if block1k < i' && i' ≤ mallocMax then .cache s2.nextId else .fresh
      let p ← peekWalk s3.cur i'
      pure ((p, ref), err, s3, w1)

/-- forgetting the reference gives the model's `peek` -/
theorem peekR_proj (s : Reader) (w : Wire) (i : Nat) :
    (peekR s w i).map (fun r => (r.1.1, r.2)) = peek s w i := by
  unfold peekR peek
  cases hf : fill s w i with
  | error f => rfl
  | ok r =>
    obtain ⟨e, s1, w1⟩ := r
    simp only [bind, Except.bind]
    cases e with
    | some e => rfl
    | none =>
      simp only
      generalize (if s1.len < i then ({ s1 with err := none } : Reader) else s1) = s2
      generalize (if s1.len < i then s1.len else i) = i'
      generalize (if s1.len < i then s1.err else none) = err'
      by_cases hd : s2.readNode.len ≥ i'
      · simp only [hd, if_true]; rfl
      · simp only [hd, if_false]
        cases hp : peekWalk _ i' <;> rfl

theorem peekR_peek (s : Reader) (w : Wire) (i : Nat) (p : Bytes) (ref : Ref) (e : Option Err) (s' : Reader) (w' : Wire)
    (h : peekR s w i = .ok ((p, ref), e, s', w')) : peek s w i = .ok (p, e, s', w') := by
  rw [← peekR_proj, h]; rfl

/-- conversely every result of `peek` comes with a reference -/
theorem peek_peekR (s : Reader) (w : Wire) (i : Nat) (p : Bytes) (e : Option Err) (s' : Reader) (w' : Wire)
    (h : peek s w i = .ok (p, e, s', w')) : ∃ ref, peekR s w i = .ok ((p, ref), e, s', w') := by
  rw [← peekR_proj] at h
  cases hr : peekR s w i with
  | error f => rw [hr] at h; cases h
  | ok r =>
    obtain ⟨⟨p1, ref⟩, e1, s1, w1⟩ := r
    rw [hr] at h
    simp only [Except.map, Except.ok.injEq, Prod.mk.injEq] at h
    obtain ⟨rfl, rfl, rfl, rfl⟩ := h
    exact ⟨ref, rfl⟩

/-- what a reference promises about the state in which it was handed out -/
def RefOK (s : Reader) (p : Bytes) : Ref → Prop
  | .nil => p = []
  | .block id off len => ∃ nd ∈ s.nodes, nd.id = id ∧ p = (nd.data.drop off).take len ∧ p.length = len
  | .cache id => id ∈ s.caches
  | .fresh => True

theorem readNode_mem (s : Reader) : s.readNode ∈ s.nodes := by
  unfold Reader.readNode Reader.nodes
  cases hm : s.mid <;> simp

/-- The slice returned by `Peek` is `buf[off : off+len]` of a node block of the resulting chain, lying
entirely inside the written part `buf[0:malloc]` of that block, or a copy held in `caches`, or a
private copy. -/
theorem peekR_in_block (s : Reader) (w : Wire) (i : Nat) (p : Bytes) (ref : Ref) (e : Option Err) (s' : Reader)
    (w' : Wire) (h : peekR s w i = .ok ((p, ref), e, s', w')) : RefOK s' p ref := by
  unfold peekR at h
  cases hf : fill s w i with
  | error f => simp [hf, bind, Except.bind] at h
  | ok r =>
    obtain ⟨e1, s1, w1⟩ := r
    simp only [hf, bind, Except.bind] at h
    cases e1 with
    | some e1 =>
      simp only [pure, Except.pure, Except.ok.injEq, Prod.mk.injEq] at h
      obtain ⟨⟨rfl, rfl⟩, _⟩ := h
      rfl
    | none =>
      simp only at h
      generalize (if s1.len < i then ({ s1 with err := none } : Reader) else s1) = s2 at h
      generalize (if s1.len < i then s1.len else i) = i' at h
      generalize (if s1.len < i then s1.err else none) = err' at h
      by_cases hd : s2.readNode.len ≥ i'
      · simp only [hd, if_true, pure, Except.pure, Except.ok.injEq, Prod.mk.injEq] at h
        obtain ⟨⟨rfl, rfl⟩, _, rfl, _⟩ := h
        refine ⟨s2.readNode, readNode_mem s2, rfl, rfl, ?_⟩
        rw [Node.len_eq] at hd
        simp only [List.length_take]; omega
      · simp only [hd, if_false] at h
        generalize hs3 : (if (decide (block1k < i') && decide (i' ≤ mallocMax)) = true then
          ({ s2 with caches := s2.caches ++ [s2.nextId], nextId := s2.nextId + 1 } : Reader) else s2) = s3 at h
        cases hp : peekWalk s3.cur i' with
        | error f => simp [hp] at h
        | ok pp =>
          simp only [hp, pure, Except.pure, Except.ok.injEq, Prod.mk.injEq] at h
          obtain ⟨⟨rfl, rfl⟩, _, rfl, _⟩ := h
          subst hs3
          split
          · simp [RefOK]
          · simp [RefOK]

/-! ## nothing writes into a referenced region before the next release -/

/-- any sequence of non-releasing operations keeps every block and every cached copy, block
contents being extended at the end only -/
theorem run_stable (s : Reader) (w : Wire) (ops : List Op) (outs : List Out) (s' : Reader) (w' : Wire)
    (hk : ∀ op ∈ ops, op.keeps = true) (h : run s w ops = .ok (outs, s', w')) :
    Extends s.nodes s'.nodes ∧ s.caches <+: s'.caches := by
  induction ops generalizing s w outs with
  | nil =>
    simp only [run, pure, Except.pure, Except.ok.injEq, Prod.mk.injEq] at h
    obtain ⟨_, rfl, _⟩ := h
    exact ⟨Extends.refl _, List.prefix_refl _⟩
  | cons op ops ih =>
    simp only [run] at h
    cases hs : step s w op with
    | error f => simp [hs, bind, Except.bind] at h
    | ok r =>
      obtain ⟨o, s1, w1⟩ := r
      simp only [hs, bind, Except.bind] at h
      cases hr : run s1 w1 ops with
      | error f => simp [hr] at h
      | ok r2 =>
        obtain ⟨os, s2, w2⟩ := r2
        simp only [hr, pure, Except.pure, Except.ok.injEq, Prod.mk.injEq] at h
        obtain ⟨_, rfl, rfl⟩ := h
        have h1 := step_stable s w op o s1 w1 (hk op (by simp)) hs
        have h2 := ih s1 w1 os (fun op' hop => hk op' (by simp [hop])) hr
        exact ⟨Extends.trans h1.1 h2.1, List.IsPrefix.trans h1.2 h2.2⟩

/-- a region lying inside the written part of a block reads the same after the block was extended -/
theorem region_of_prefix (a b : Bytes) (off len : Nat) (hp : a <+: b) (hl : ((a.drop off).take len).length = len) :
    (b.drop off).take len = (a.drop off).take len := by
  obtain ⟨t, rfl⟩ := hp
  by_cases h0 : len = 0
  · subst h0; simp
  · simp only [List.length_take, List.length_drop] at hl
    have h1 : off ≤ a.length := by omega
    rw [List.drop_append_of_le_length h1, List.take_append_of_le_length (by simp only [List.length_drop]; omega)]

/-- a reference stays good along block-preserving steps: same block identity, same bytes at the same
offset — nobody wrote into `buf[off : off+len]`, and the block was neither freed nor reset -/
theorem RefOK_stable (s s' : Reader) (p : Bytes) (ref : Ref) (hx : Extends s.nodes s'.nodes) (hc : s.caches <+: s'.caches)
    (h : RefOK s p ref) : RefOK s' p ref := by
  cases ref with
  | nil => exact h
  | fresh => exact h
  | cache id => exact hc.subset h
  | block id off len =>
    obtain ⟨nd, hm, hid, hp, hl⟩ := h
    obtain ⟨nd', hm', hid', hpre⟩ := hx nd hm
    refine ⟨nd', hm', by rw [hid', hid], ?_, hl⟩
    rw [hp] at hl
    rw [region_of_prefix _ _ _ _ hpre hl]; exact hp

/-! ## block identities are pairwise distinct in every reachable state -/

/-- the identities of all live blocks: the node chain and the cached peek copies -/
def Reader.ids (s : Reader) : List Nat := s.nodes.map (·.id) ++ s.caches

/-- live block identities are pairwise distinct and below the allocation counter -/
def IdInv (s : Reader) : Prop := s.ids.Nodup ∧ ∀ x ∈ s.ids, x < s.nextId

theorem IdInv_same {s s' : Reader} (h1 : s'.ids = s.ids) (h2 : s'.nextId = s.nextId) (h : IdInv s) : IdInv s' := by
  unfold IdInv; rw [h1, h2]; exact h

theorem IdInv_insert {s s' : Reader} (h1 : s'.ids.Perm (s.nextId :: s.ids)) (h2 : s'.nextId = s.nextId + 1)
    (h : IdInv s) : IdInv s' := by
  refine ⟨h1.nodup_iff.mpr (List.nodup_cons.mpr ⟨?_, h.1⟩), ?_⟩
  · intro hm; have := h.2 _ hm; omega
  · intro x hx
    have := h1.mem_iff.mp hx
    simp only [List.mem_cons] at this
    rcases this with rfl | hm
    · omega
    · have := h.2 _ hm; omega

theorem IdInv_sub {s s' : Reader} (h1 : s'.ids.Sublist s.ids) (h2 : s.nextId ≤ s'.nextId) (h : IdInv s) : IdInv s' := by
  refine ⟨h.1.sublist h1, ?_⟩
  intro x hx
  have := h.2 _ (h1.subset hx); omega

theorem fill_ids (s : Reader) (w : Wire) (i : Nat) (e : Option Err) (s' : Reader) (w' : Wire)
    (h : fill s w i = .ok (e, s', w')) (hI : IdInv s) : IdInv s' := by
  unfold fill at h
  split at h
  · simp only [pure, Except.pure, Except.ok.injEq, Prod.mk.injEq] at h
    obtain ⟨_, rfl, _⟩ := h; exact hI
  · split at h
    · split at h <;>
      · simp only [pure, Except.pure, Except.ok.injEq, Prod.mk.injEq] at h
        obtain ⟨_, rfl, _⟩ := h; exact IdInv_same rfl rfl hI
    · have key : ∀ (s1 : Reader) (bs : Bytes) (e : Option Err), IdInv s1 →
          IdInv ({ s1 with w := { s1.w with data := s1.w.data ++ bs }, len := s1.len + bs.length, err := e } : Reader) := by
        intro s1 bs e h1
        exact IdInv_same (s := s1) (by simp [Reader.ids, Reader.nodes]) rfl h1
      have hs1 : ∀ (c : Bool), IdInv (if c = true then
          ({ s with mid := s.mid ++ [{ s.w with readOnly := false }],
                    w := newNode (if i < s.maxSize then s.maxSize else i) s.nextId,
                    nextId := s.nextId + 1 } : Reader) else s) := by
        intro c
        cases c
        · exact hI
        · refine IdInv_insert ?_ rfl hI
          have := @List.perm_middle _ s.nextId (s.done.map (·.id) ++ (s.mid.map (·.id) ++ [s.w.id])) s.caches
          simpa [Reader.ids, Reader.nodes, newNode, List.append_assoc] using this
      simp only at h
      split at h <;> simp only [pure, Except.pure, throw, throwThe, MonadExceptOf.throw, Except.ok.injEq, Prod.mk.injEq, reduceCtorEq] at h
      all_goals
        obtain ⟨_, rfl, _⟩ := h
        exact key _ _ _ (hs1 (decide (s.w.cap - s.w.data.length < i - s.len) || s.w.readOnly))

theorem peek_ids (s : Reader) (w : Wire) (i : Nat) (p : Bytes) (e : Option Err) (s' : Reader) (w' : Wire)
    (h : peek s w i = .ok (p, e, s', w')) (hI : IdInv s) : IdInv s' := by
  unfold peek at h
  cases hf : fill s w i with
  | error f => simp [hf, bind, Except.bind] at h
  | ok r =>
    obtain ⟨e1, s1, w1⟩ := r
    have hI1 := fill_ids s w i e1 s1 w1 hf hI
    simp only [hf, bind, Except.bind] at h
    cases e1 with
    | some e1 =>
      simp only [pure, Except.pure, Except.ok.injEq, Prod.mk.injEq] at h
      obtain ⟨_, _, rfl, _⟩ := h
      exact hI1
    | none =>
      simp only at h
      generalize hs2 : (if s1.len < i then ({ s1 with err := none } : Reader) else s1) = s2 at h
      have hI2 : IdInv s2 := by
        subst hs2; split
        · exact IdInv_same (s := s1) rfl rfl hI1
        · exact hI1
      generalize (if s1.len < i then s1.len else i) = i' at h
      generalize (if s1.len < i then s1.err else none) = err' at h
      by_cases hd : s2.readNode.len ≥ i'
      · simp only [hd, if_true, pure, Except.pure, Except.ok.injEq, Prod.mk.injEq] at h
        obtain ⟨_, _, rfl, _⟩ := h
        exact hI2
      · simp only [hd, if_false] at h
        generalize hs3 : (if (decide (block1k < i') && decide (i' ≤ mallocMax)) = true then
          ({ s2 with caches := s2.caches ++ [s2.nextId], nextId := s2.nextId + 1 } : Reader) else s2) = s3 at h
        have hI3 : IdInv s3 := by
          subst hs3; split
          · refine IdInv_insert (s := s2) ?_ rfl hI2
            have := @List.perm_middle _ s2.nextId (s2.nodes.map (·.id) ++ s2.caches) []
            simpa [Reader.ids, Reader.nodes, List.append_assoc] using this
          · exact hI2
        cases hp : peekWalk s3.cur i' with
        | error f => simp [hp] at h
        | ok pp =>
          simp only [hp, pure, Except.pure, Except.ok.injEq, Prod.mk.injEq] at h
          obtain ⟨_, _, rfl, _⟩ := h
          exact hI3

theorem skip_ids (s : Reader) (n : Nat) (e : Option Err) (s' : Reader)
    (h : skip s n = .ok (e, s')) (hI : IdInv s) : IdInv s' := by
  unfold skip at h
  split at h
  · simp only [pure, Except.pure, Except.ok.injEq, Prod.mk.injEq] at h
    obtain ⟨_, rfl⟩ := h; exact hI
  · cases hw : skipWalk s.done s.mid s.w n with
    | error f => simp [hw, bind, Except.bind] at h
    | ok r =>
      obtain ⟨d', m', w'⟩ := r
      simp only [hw, bind, Except.bind, pure, Except.pure, Except.ok.injEq, Prod.mk.injEq] at h
      obtain ⟨_, rfl⟩ := h
      have hb := (skipWalk_blocks _ _ _ _ _ _ _ hw).1
      have := congrArg (List.map Prod.fst) hb
      simp only [List.map_map] at this
      refine IdInv_same (s := s) ?_ rfl hI
      simp only [Reader.ids, Reader.nodes]
      congr 1

theorem sub_mid (a b c d : List Nat) : (b ++ c).Sublist (a ++ (b ++ (c ++ d))) := by
  have h1 : (b ++ c).Sublist (b ++ (c ++ d)) := by
    rw [← List.append_assoc]; exact List.sublist_append_left _ _
  exact h1.trans (List.sublist_append_right _ _)

theorem release_ids (s : Reader) (hI : IdInv s) : IdInv (release s) := by
  have hgen : IdInv (releaseGeneral s) := by
    refine IdInv_sub (s := s) ?_ (Nat.le_refl _) hI
    simp only [Reader.ids, Reader.nodes, releaseGeneral, List.nil_append, List.append_nil, List.map_append,
      List.map_cons, List.map_nil, List.append_assoc]
    exact sub_mid _ _ _ _
  have htwo : ∀ h, IdInv (releaseTwo s h) := by
    intro h
    unfold releaseTwo
    split
    · refine ⟨by simp [Reader.ids, Reader.nodes, newNode], ?_⟩
      intro x hx
      simp [Reader.ids, Reader.nodes, newNode] at hx
      subst hx; simp
    · refine IdInv_sub (s := s) ?_ (Nat.le_refl _) hI
      simp only [Reader.ids, Reader.nodes, Node.reset, List.nil_append, List.append_nil, List.map_append,
        List.map_cons, List.map_nil, List.append_assoc]
      exact (sub_mid (s.mid.map (·.id)) [] [s.w.id] s.caches).trans (List.sublist_append_right _ _)
  unfold release
  split
  · split
    · rename_i hd hm
      refine IdInv_same (s := s) ?_ rfl hI
      simp [Reader.ids, Reader.nodes, Node.reset]
    · exact htwo _
    · exact htwo _
    · exact hgen
  · exact hgen

theorem next_ids (s : Reader) (l : Nat) (p : Bytes) (e : Option Err) (s' : Reader) (h : next s l = .ok (p, e, s'))
    (hI : IdInv s) : IdInv s' := by
  unfold next at h
  cases hp : peekWalk s.cur l with
  | error f => simp [hp, bind, Except.bind] at h
  | ok pp =>
    simp only [hp, bind, Except.bind] at h
    cases hs : skip s l with
    | error f => simp [hs] at h
    | ok r =>
      obtain ⟨e1, s1⟩ := r
      have hI1 := skip_ids _ _ _ _ hs hI
      simp only [hs] at h
      cases e1 with
      | some e1 =>
        simp only [pure, Except.pure, Except.ok.injEq, Prod.mk.injEq] at h
        obtain ⟨_, _, rfl⟩ := h; exact hI1
      | none =>
        simp only [pure, Except.pure, Except.ok.injEq, Prod.mk.injEq] at h
        obtain ⟨_, _, rfl⟩ := h; exact release_ids _ hI1

theorem step_ids (s : Reader) (w : Wire) (op : Op) (o : Out) (s' : Reader) (w' : Wire)
    (h : step s w op = .ok (o, s', w')) (hI : IdInv s) : IdInv s' := by
  cases op with
  | len =>
    simp only [step, pure, Except.pure, Except.ok.injEq, Prod.mk.injEq] at h
    obtain ⟨_, rfl, _⟩ := h; exact hI
  | release =>
    simp only [step, pure, Except.pure, Except.ok.injEq, Prod.mk.injEq] at h
    obtain ⟨_, rfl, _⟩ := h; exact release_ids s hI
  | peek n =>
    simp only [step] at h
    cases hp : peek s w n with
    | error f => simp [hp, bind, Except.bind] at h
    | ok r =>
      obtain ⟨p, e, s1, w1⟩ := r
      simp only [hp, bind, Except.bind, pure, Except.pure, Except.ok.injEq, Prod.mk.injEq] at h
      obtain ⟨_, rfl, _⟩ := h
      exact peek_ids _ _ _ _ _ _ _ hp hI
  | skip n =>
    simp only [step] at h
    cases hp : skip s n with
    | error f => simp [hp, bind, Except.bind] at h
    | ok r =>
      obtain ⟨e, s1⟩ := r
      simp only [hp, bind, Except.bind, pure, Except.pure, Except.ok.injEq, Prod.mk.injEq] at h
      obtain ⟨_, rfl, _⟩ := h
      exact skip_ids _ _ _ _ hp hI
  | readByte =>
    simp only [step] at h
    cases hp : peek s w 1 with
    | error f => simp [hp, bind, Except.bind] at h
    | ok r =>
      obtain ⟨p, e, s1, w1⟩ := r
      have hb := peek_ids _ _ _ _ _ _ _ hp hI
      simp only [hp, bind, Except.bind] at h
      cases e with
      | some e =>
        simp only [pure, Except.pure, Except.ok.injEq, Prod.mk.injEq] at h
        obtain ⟨_, rfl, _⟩ := h; exact hb
      | none =>
        simp only at h
        cases hs : skip s1 1 with
        | error f => simp [hs] at h
        | ok r2 =>
          obtain ⟨e2, s2⟩ := r2
          have hb2 := skip_ids _ _ _ _ hs hb
          simp only [hs] at h
          cases e2 with
          | some e2 =>
            simp only [pure, Except.pure, Except.ok.injEq, Prod.mk.injEq] at h
            obtain ⟨_, rfl, _⟩ := h; exact hb2
          | none =>
            simp only at h
            cases p with
            | nil => simp [throw, throwThe, MonadExceptOf.throw] at h
            | cons b t =>
              simp only [pure, Except.pure, Except.ok.injEq, Prod.mk.injEq] at h
              obtain ⟨_, rfl, _⟩ := h; exact hb2
  | readBinary n =>
    simp only [step] at h
    cases hp : peek s w n with
    | error f => simp [hp, bind, Except.bind] at h
    | ok r =>
      obtain ⟨p, e, s1, w1⟩ := r
      have hb := peek_ids _ _ _ _ _ _ _ hp hI
      simp only [hp, bind, Except.bind] at h
      cases e with
      | some e =>
        simp only [pure, Except.pure, Except.ok.injEq, Prod.mk.injEq] at h
        obtain ⟨_, rfl, _⟩ := h; exact hb
      | none =>
        simp only at h
        cases hs : skip s1 n with
        | error f => simp [hs] at h
        | ok r2 =>
          obtain ⟨e2, s2⟩ := r2
          simp only [hs, pure, Except.pure, Except.ok.injEq, Prod.mk.injEq] at h
          obtain ⟨_, rfl, _⟩ := h
          exact skip_ids _ _ _ _ hs hb
  | read k =>
    simp only [step] at h
    split at h
    · cases hn : next s (min s.len k) with
      | error f => simp [hn, bind, Except.bind] at h
      | ok r =>
        obtain ⟨p, e, s1⟩ := r
        simp only [hn, bind, Except.bind, pure, Except.pure, Except.ok.injEq, Prod.mk.injEq] at h
        obtain ⟨_, rfl, _⟩ := h
        exact next_ids _ _ _ _ _ hn hI
    · split at h
      · cases hf : fill s w 1 with
        | error f => simp [hf, bind, Except.bind] at h
        | ok r =>
          obtain ⟨e, s1, w1⟩ := r
          have hb := fill_ids _ _ _ _ _ _ hf hI
          simp only [hf, bind, Except.bind] at h
          cases e with
          | some e =>
            simp only [pure, Except.pure, Except.ok.injEq, Prod.mk.injEq] at h
            obtain ⟨_, rfl, _⟩ := h; exact hb
          | none =>
            simp only at h
            cases hn : next s1 (min s1.len k) with
            | error f => simp [hn] at h
            | ok r =>
              obtain ⟨p, e, s2⟩ := r
              simp only [hn, pure, Except.pure, Except.ok.injEq, Prod.mk.injEq] at h
              obtain ⟨_, rfl, _⟩ := h
              exact next_ids _ _ _ _ _ hn hb
      · simp only [pure, Except.pure, Except.ok.injEq, Prod.mk.injEq] at h
        obtain ⟨_, rfl, _⟩ := h; exact hI

theorem run_ids (s : Reader) (w : Wire) (ops : List Op) (outs : List Out) (s' : Reader) (w' : Wire)
    (h : run s w ops = .ok (outs, s', w')) (hI : IdInv s) : IdInv s' := by
  induction ops generalizing s w outs with
  | nil =>
    simp only [run, pure, Except.pure, Except.ok.injEq, Prod.mk.injEq] at h
    obtain ⟨_, rfl, _⟩ := h
    exact hI
  | cons op ops ih =>
    simp only [run] at h
    cases hs : step s w op with
    | error f => simp [hs, bind, Except.bind] at h
    | ok r =>
      obtain ⟨o, s1, w1⟩ := r
      simp only [hs, bind, Except.bind] at h
      cases hr : run s1 w1 ops with
      | error f => simp [hr] at h
      | ok r2 =>
        obtain ⟨os, s2, w2⟩ := r2
        simp only [hr, pure, Except.pure, Except.ok.injEq, Prod.mk.injEq] at h
        obtain ⟨_, rfl, rfl⟩ := h
        exact ih s1 w1 os hr (step_ids s w op o s1 w1 hs hI)

theorem IdInv_new (size : Nat) : IdInv (Reader.new size) := by
  simp [IdInv, Reader.ids, Reader.nodes, Reader.new, newNode]

theorem eq_of_nodup_map {α β : Type} (f : α → β) : ∀ (l : List α), (l.map f).Nodup →
    ∀ a ∈ l, ∀ b ∈ l, f a = f b → a = b
  | [], _, a, ha, _, _, _ => by cases ha
  | x :: t, hn, a, ha, b, hb, hf => by
    simp only [List.map_cons, List.nodup_cons, List.mem_map, not_exists, not_and] at hn
    simp only [List.mem_cons] at ha hb
    rcases ha with rfl | ha <;> rcases hb with rfl | hb
    · rfl
    · exact absurd hf.symm (hn.1 b hb)
    · exact absurd hf (hn.1 a ha)
    · exact eq_of_nodup_map f t hn.2 a ha b hb hf

/-- the node with a given identity is unique, and no cached copy shares its identity -/
theorem IdInv.unique {s : Reader} (h : IdInv s) :
    (∀ a ∈ s.nodes, ∀ b ∈ s.nodes, a.id = b.id → a = b) ∧ (∀ a ∈ s.nodes, a.id ∉ s.caches) := by
  have hn := h.1
  unfold Reader.ids at hn
  rw [List.nodup_append] at hn
  refine ⟨eq_of_nodup_map _ _ hn.1, ?_⟩
  intro a ha hc
  exact hn.2.2 a.id (List.mem_map_of_mem ha) a.id hc rfl

/-- with distinct identities a good block reference determines the block -/
theorem RefOK_block_unique {s : Reader} {p : Bytes} {id off len : Nat} (hI : IdInv s) (h : RefOK s p (.block id off len)) :
    ∀ nd ∈ s.nodes, nd.id = id → p = (nd.data.drop off).take len ∧ p.length = len := by
  obtain ⟨nd0, hm0, hid0, hp, hl⟩ := h
  intro nd hm hid
  have := hI.unique.1 nd hm nd0 hm0 (by rw [hid, hid0])
  subst this
  exact ⟨hp, hl⟩
