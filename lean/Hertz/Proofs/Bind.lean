import Hertz.Model.Bind
/-!
Lemmas about the binding model (C15): the tag loops of the two field decoders, the order of the tag
list, the decoder cache.
-/
namespace Hertz.Bind
open Hertz

/-! ## vocabulary -/

/-- the tag is consulted as a text source by the loop (not skipped, not json) -/
def TagInfo.isText (t : TagInfo) : Prop := t.skip = false ∧ t.key ≠ .json

/-- the tag takes part in the loop at all -/
def TagInfo.effective (t : TagInfo) : Prop := t.key = .json ∨ t.skip = false

instance (t : TagInfo) : Decidable t.isText := by unfold TagInfo.isText; infer_instance
instance (t : TagInfo) : Decidable t.effective := by unfold TagInfo.effective; infer_instance

/-- the text source named by `t` carries a single value -/
def textPresent (r : Req) (t : TagInfo) : Bool := (getter r t.key t.value).2

/-- the text source named by `t` carries at least one value for a slice -/
def textsPresent (r : Req) (t : TagInfo) : Bool := sliceGetter r t.key t.value != []

/-- the JSON body carries the name of `t` (JSON content type compared case-insensitively) -/
def jsonCarries (r : Req) (t : TagInfo) : Bool := ctFold r && bodyHasKey r t.jsonName

/-! ## content type -/

theorem keyExist_eq_jsonCarries (r : Req) (t : TagInfo) : keyExist r t = jsonCarries r t := by
  unfold keyExist jsonCarries
  cases ctFold r <;> simp

theorem keyExist_jsonCarries (r : Req) (t : TagInfo) (h : keyExist r t = true) : jsonCarries r t = true := by
  rw [← keyExist_eq_jsonCarries]; exact h

theorem checkRequire_of_not_carried (r : Req) (t : TagInfo) (hreq : t.required = true)
    (h : jsonCarries r t = false) : checkRequireJSON r t = false := by
  unfold checkRequireJSON
  unfold jsonCarries at h
  cases hf : ctFold r
  · simp [hreq]
  · simp [hf] at h
    simp [hreq, h]

/-! ## getters -/

theorem getter_absent (r : Req) (s : Src) (k : Bytes) (h : (getter r s k).2 = false) :
    (getter r s k).1 = [] := by
  cases s <;> simp only [getter] at h ⊢
  · cases hp : peek r.params k <;> simp [hp] at h ⊢
  · cases hp : peek r.form k
    · simp only [hp] at h ⊢
      by_cases hm : (peek r.mform k).getD [] ≠ []
      · simp [hm] at h
      · simp only [hm, if_false] at h ⊢
        cases hq : peek r.query k <;> simp [hq] at h ⊢
    · simp [hp] at h
  · cases hp : peek r.query k <;> simp [hp] at h ⊢
  · cases hp : peek r.cookies k <;> simp [hp] at h ⊢
  · cases hp : peek (normHeaders r) (H1.normalizeKey false k) <;> simp [hp] at h ⊢

/-! ## the tag loop of `baseTypeFieldTextDecoder.Decode` -/

theorem baseLoop_json (r : Req) (ti : TagInfo) (rest : List TagInfo) (st : LoopSt) (hk : ti.key = .json) :
    baseLoop r (ti :: rest) st =
      baseLoop r rest { st with err := (jsonBranch r ti st.err).1, dflt := (jsonBranch r ti st.err).2 } := by
  simp [baseLoop, hk]

theorem baseLoop_skip (r : Req) (ti : TagInfo) (rest : List TagInfo) (st : LoopSt)
    (hs : ti.skip = true) (hk : ti.key ≠ .json) : baseLoop r (ti :: rest) st = baseLoop r rest st := by
  simp [baseLoop, hk, hs]

theorem baseLoop_hit (r : Req) (ti : TagInfo) (rest : List TagInfo) (st : LoopSt)
    (hs : ti.skip = false) (hk : ti.key ≠ .json) (hg : (getter r ti.key ti.value).2 = true) :
    baseLoop r (ti :: rest) st =
      { err := none, text := (getter r ti.key ti.value).1, exist := true, dflt := ti.dflt } := by
  simp [baseLoop, hk, hs, hg]

theorem baseLoop_miss (r : Req) (ti : TagInfo) (rest : List TagInfo) (st : LoopSt)
    (hs : ti.skip = false) (hk : ti.key ≠ .json) (hg : (getter r ti.key ti.value).2 = false) :
    baseLoop r (ti :: rest) st =
      baseLoop r rest { err := if ti.required then some .required else st.err,
                        text := (getter r ti.key ti.value).1, exist := false, dflt := ti.dflt } := by
  simp [baseLoop, hk, hs, hg]

/-- **first present wins**: the loop stops at the first consulted text tag whose source carries the
key and takes exactly its text; whatever `required` errors earlier tags raised are cleared, and
nothing after it is looked at. -/
theorem baseLoop_picks_first (r : Req) (pre : List TagInfo) (ti : TagInfo) (post : List TagInfo) (st : LoopSt)
    (hpre : ∀ t ∈ pre, t.isText → textPresent r t = false)
    (hti : ti.isText) (hg : textPresent r ti = true) :
    baseLoop r (pre ++ ti :: post) st =
      { err := none, text := (getter r ti.key ti.value).1, exist := true, dflt := ti.dflt } := by
  induction pre generalizing st with
  | nil => exact baseLoop_hit r ti post st hti.1 hti.2 hg
  | cons t pre ih =>
    have hrest : ∀ t' ∈ pre, t'.isText → textPresent r t' = false :=
      fun t' h' => hpre t' (List.mem_cons_of_mem _ h')
    rw [List.cons_append]
    by_cases hk : t.key = .json
    · rw [baseLoop_json r t _ st hk]; exact ih _ hrest
    · cases hs : t.skip
      · have := hpre t (List.mem_cons_self) ⟨hs, hk⟩
        rw [baseLoop_miss r t _ st hs hk this]; exact ih _ hrest
      · rw [baseLoop_skip r t _ st hs hk]; exact ih _ hrest

/-- nothing carries the field: no consulted text source has the key and no json tag finds its name -/
def NoneCarries (r : Req) (tis : List TagInfo) : Prop :=
  (∀ t ∈ tis, t.isText → textPresent r t = false) ∧ (∀ t ∈ tis, t.key = .json → jsonCarries r t = false)

instance (r : Req) (tis : List TagInfo) : Decidable (NoneCarries r tis) := by
  unfold NoneCarries; infer_instance

theorem NoneCarries.tail {r : Req} {t : TagInfo} {tis : List TagInfo} (h : NoneCarries r (t :: tis)) :
    NoneCarries r tis :=
  ⟨fun t' h' => h.1 t' (List.mem_cons_of_mem _ h'), fun t' h' => h.2 t' (List.mem_cons_of_mem _ h')⟩

theorem jsonBranch_keeps_err (r : Req) (t : TagInfo) (e : Option ErrKind)
    (hc : jsonCarries r t = false) (he : e ≠ none) : (jsonBranch r t e).1 ≠ none := by
  have hke : keyExist r t = false := by
    cases h : keyExist r t
    · rfl
    · have := keyExist_jsonCarries r t h; rw [hc] at this; cases this
  unfold jsonBranch
  cases hreq : t.required
  · simp [checkRequireJSON, hreq, hke, he]
  · simp [checkRequire_of_not_carried r t hreq hc]

theorem jsonBranch_required_err (r : Req) (t : TagInfo) (e : Option ErrKind)
    (hc : jsonCarries r t = false) (hreq : t.required = true) : (jsonBranch r t e).1 = some .required := by
  unfold jsonBranch
  simp [checkRequire_of_not_carried r t hreq hc]

/-- an error, once raised, survives to the end of the loop when nothing carries the field -/
theorem baseLoop_err_survives (r : Req) (tis : List TagInfo) (st : LoopSt)
    (hn : NoneCarries r tis) (he : st.err ≠ none) : (baseLoop r tis st).err ≠ none := by
  induction tis generalizing st with
  | nil => simpa [baseLoop] using he
  | cons t tis ih =>
    by_cases hk : t.key = .json
    · rw [baseLoop_json r t _ st hk]
      apply ih _ hn.tail
      exact jsonBranch_keeps_err r t st.err (hn.2 t List.mem_cons_self hk) he
    · cases hs : t.skip
      · rw [baseLoop_miss r t _ st hs hk (hn.1 t List.mem_cons_self ⟨hs, hk⟩)]
        apply ih _ hn.tail
        cases t.required <;> simp [he]
      · rw [baseLoop_skip r t _ st hs hk]; exact ih _ hn.tail he

/-- **a missing required value is an error**: nothing carries the field and some tag that takes part
in the loop says `required` -/
theorem baseLoop_required (r : Req) (tis : List TagInfo) (st : LoopSt)
    (hn : NoneCarries r tis) (hreq : ∃ t ∈ tis, t.effective ∧ t.required = true) :
    (baseLoop r tis st).err ≠ none := by
  induction tis generalizing st with
  | nil => obtain ⟨t, ht, _⟩ := hreq; cases ht
  | cons t tis ih =>
    by_cases hk : t.key = .json
    · rw [baseLoop_json r t _ st hk]
      by_cases hr : t.required = true
      · apply baseLoop_err_survives r tis _ hn.tail
        simp [jsonBranch_required_err r t st.err (hn.2 t List.mem_cons_self hk) hr]
      · apply ih _ hn.tail
        obtain ⟨t', ht', he', hr'⟩ := hreq
        cases ht' with
        | head => exact absurd hr' hr
        | tail _ hm => exact ⟨t', hm, he', hr'⟩
    · cases hs : t.skip
      · rw [baseLoop_miss r t _ st hs hk (hn.1 t List.mem_cons_self ⟨hs, hk⟩)]
        by_cases hr : t.required = true
        · apply baseLoop_err_survives r tis _ hn.tail
          simp [hr]
        · apply ih _ hn.tail
          obtain ⟨t', ht', he', hr'⟩ := hreq
          cases ht' with
          | head => exact absurd hr' hr
          | tail _ hm => exact ⟨t', hm, he', hr'⟩
      · rw [baseLoop_skip r t _ st hs hk]
        apply ih _ hn.tail
        obtain ⟨t', ht', he', hr'⟩ := hreq
        cases ht' with
        | head =>
          rcases he' with h | h
          · exact absurd h hk
          · rw [hs] at h; cases h
        | tail _ hm => exact ⟨t', hm, he', hr'⟩

/-- the only error the loop ever raises is `required` -/
theorem baseLoop_err_kind (r : Req) (tis : List TagInfo) (st : LoopSt)
    (h0 : st.err = none ∨ st.err = some .required) :
    (baseLoop r tis st).err = none ∨ (baseLoop r tis st).err = some .required := by
  induction tis generalizing st with
  | nil => simpa [baseLoop] using h0
  | cons t tis ih =>
    by_cases hk : t.key = .json
    · rw [baseLoop_json r t _ st hk]
      apply ih
      simp only [jsonBranch]
      cases checkRequireJSON r t <;> cases (t.required || keyExist r t) <;> simp [h0]
    · cases hs : t.skip
      · cases hg : (getter r t.key t.value).2
        · rw [baseLoop_miss r t _ st hs hk hg]
          apply ih
          cases t.required <;> simp [h0]
        · rw [baseLoop_hit r t _ st hs hk hg]; simp
      · rw [baseLoop_skip r t _ st hs hk]; exact ih _ h0

/-- when nothing carries the field the loop ends with no text, and with the declared default if any
tag took part in it -/
theorem baseLoop_default (r : Req) (tis : List TagInfo) (st : LoopSt) (d : Bytes)
    (hn : (∀ t ∈ tis, t.isText → textPresent r t = false) ∧ (∀ t ∈ tis, t.key = .json → keyExist r t = false))
    (hd : ∀ t ∈ tis, t.dflt = d) (h0 : st.text = [] ∧ st.exist = false)
    (hst : st.dflt = d ∨ ∃ t ∈ tis, t.effective) :
    (baseLoop r tis st).text = [] ∧ (baseLoop r tis st).exist = false ∧ (baseLoop r tis st).dflt = d := by
  induction tis generalizing st with
  | nil =>
    rcases hst with h | ⟨t, ht, _⟩
    · simp [baseLoop, h0, h]
    · cases ht
  | cons t tis ih =>
    have hn' : (∀ t ∈ tis, t.isText → textPresent r t = false) ∧ (∀ t ∈ tis, t.key = .json → keyExist r t = false) :=
      ⟨fun t' h' => hn.1 t' (List.mem_cons_of_mem _ h'), fun t' h' => hn.2 t' (List.mem_cons_of_mem _ h')⟩
    have hd' : ∀ t ∈ tis, t.dflt = d := fun t' h' => hd t' (List.mem_cons_of_mem _ h')
    have hdt : t.dflt = d := hd t List.mem_cons_self
    by_cases hk : t.key = .json
    · rw [baseLoop_json r t _ st hk]
      apply ih _ hn' hd'
      · exact h0
      · left
        simp [jsonBranch, hn.2 t List.mem_cons_self hk, hdt]
    · cases hs : t.skip
      · have hg := hn.1 t List.mem_cons_self ⟨hs, hk⟩
        rw [baseLoop_miss r t _ st hs hk hg]
        apply ih _ hn' hd'
        · exact ⟨getter_absent r _ _ hg, rfl⟩
        · left; exact hdt
      · rw [baseLoop_skip r t _ st hs hk]
        apply ih _ hn' hd' h0
        rcases hst with h | ⟨t', ht', he'⟩
        · left; exact h
        · cases ht' with
          | head =>
            rcases he' with h | h
            · exact absurd h hk
            · rw [hs] at h; cases h
          | tail _ hm => right; exact ⟨t', hm, he'⟩

/-- the json tag, when it is the last one and finds its key, keeps what the pre-bind stored: errors of
earlier `required` tags are cleared and the default is switched off -/
theorem baseLoop_json_last (r : Req) (pre : List TagInfo) (tj : TagInfo) (st : LoopSt)
    (hpre : ∀ t ∈ pre, t.isText → textPresent r t = false) (hprej : ∀ t ∈ pre, t.key ≠ .json)
    (h0 : st.text = [] ∧ st.exist = false)
    (hk : tj.key = .json) (he : keyExist r tj = true) :
    (baseLoop r (pre ++ [tj]) st).err = none ∧ (baseLoop r (pre ++ [tj]) st).text = [] ∧
    (baseLoop r (pre ++ [tj]) st).exist = false ∧ (baseLoop r (pre ++ [tj]) st).dflt = [] := by
  induction pre generalizing st with
  | nil =>
    have hcr : checkRequireJSON r tj = true := by
      unfold checkRequireJSON
      cases hreq : tj.required
      · simp
      · have := keyExist_jsonCarries r tj he
        unfold jsonCarries at this
        simp only [Bool.and_eq_true] at this
        simp [this.1, this.2]
    rw [List.nil_append, baseLoop_json r tj [] st hk]
    simp [baseLoop, jsonBranch, hcr, he, h0]
  | cons t pre ih =>
    have hrest : ∀ t' ∈ pre, t'.isText → textPresent r t' = false :=
      fun t' h' => hpre t' (List.mem_cons_of_mem _ h')
    have hrestj : ∀ t' ∈ pre, t'.key ≠ .json := fun t' h' => hprej t' (List.mem_cons_of_mem _ h')
    have hk' : t.key ≠ .json := hprej t List.mem_cons_self
    rw [List.cons_append]
    cases hs : t.skip
    · have hg := hpre t List.mem_cons_self ⟨hs, hk'⟩
      rw [baseLoop_miss r t _ st hs hk' hg]
      exact ih _ hrest hrestj ⟨getter_absent r _ _ hg, rfl⟩
    · rw [baseLoop_skip r t _ st hs hk']
      exact ih _ hrest hrestj h0

/-! ## the tag loop of `sliceTypeFieldTextDecoder.Decode` (same shape, `len(texts) != 0` is the test) -/

theorem sliceLoop_json (r : Req) (ti : TagInfo) (rest : List TagInfo) (st : SLoopSt) (hk : ti.key = .json) :
    sliceLoop r (ti :: rest) st =
      sliceLoop r rest { st with err := (jsonBranch r ti st.err).1, dflt := (jsonBranch r ti st.err).2 } := by
  simp [sliceLoop, hk]

theorem sliceLoop_skip (r : Req) (ti : TagInfo) (rest : List TagInfo) (st : SLoopSt)
    (hs : ti.skip = true) (hk : ti.key ≠ .json) : sliceLoop r (ti :: rest) st = sliceLoop r rest st := by
  simp [sliceLoop, hk, hs]

theorem sliceLoop_hit (r : Req) (ti : TagInfo) (rest : List TagInfo) (st : SLoopSt)
    (hs : ti.skip = false) (hk : ti.key ≠ .json) (hg : textsPresent r ti = true) :
    sliceLoop r (ti :: rest) st = { err := none, texts := sliceGetter r ti.key ti.value, dflt := ti.dflt } := by
  have : sliceGetter r ti.key ti.value ≠ [] := by simpa [textsPresent] using hg
  simp [sliceLoop, hk, hs, this]

theorem sliceLoop_miss (r : Req) (ti : TagInfo) (rest : List TagInfo) (st : SLoopSt)
    (hs : ti.skip = false) (hk : ti.key ≠ .json) (hg : textsPresent r ti = false) :
    sliceLoop r (ti :: rest) st =
      sliceLoop r rest { err := if ti.required then some .required else st.err, texts := [], dflt := ti.dflt } := by
  have : sliceGetter r ti.key ti.value = [] := by simpa [textsPresent] using hg
  simp [sliceLoop, hk, hs, this]

theorem sliceLoop_picks_first (r : Req) (pre : List TagInfo) (ti : TagInfo) (post : List TagInfo) (st : SLoopSt)
    (hpre : ∀ t ∈ pre, t.isText → textsPresent r t = false)
    (hti : ti.isText) (hg : textsPresent r ti = true) :
    sliceLoop r (pre ++ ti :: post) st = { err := none, texts := sliceGetter r ti.key ti.value, dflt := ti.dflt } := by
  induction pre generalizing st with
  | nil => exact sliceLoop_hit r ti post st hti.1 hti.2 hg
  | cons t pre ih =>
    have hrest : ∀ t' ∈ pre, t'.isText → textsPresent r t' = false :=
      fun t' h' => hpre t' (List.mem_cons_of_mem _ h')
    rw [List.cons_append]
    by_cases hk : t.key = .json
    · rw [sliceLoop_json r t _ st hk]; exact ih _ hrest
    · cases hs : t.skip
      · have := hpre t (List.mem_cons_self) ⟨hs, hk⟩
        rw [sliceLoop_miss r t _ st hs hk this]; exact ih _ hrest
      · rw [sliceLoop_skip r t _ st hs hk]; exact ih _ hrest

def NoneCarriesS (r : Req) (tis : List TagInfo) : Prop :=
  (∀ t ∈ tis, t.isText → textsPresent r t = false) ∧ (∀ t ∈ tis, t.key = .json → jsonCarries r t = false)

instance (r : Req) (tis : List TagInfo) : Decidable (NoneCarriesS r tis) := by
  unfold NoneCarriesS; infer_instance

theorem NoneCarriesS.tail {r : Req} {t : TagInfo} {tis : List TagInfo} (h : NoneCarriesS r (t :: tis)) :
    NoneCarriesS r tis :=
  ⟨fun t' h' => h.1 t' (List.mem_cons_of_mem _ h'), fun t' h' => h.2 t' (List.mem_cons_of_mem _ h')⟩

theorem sliceLoop_err_survives (r : Req) (tis : List TagInfo) (st : SLoopSt)
    (hn : NoneCarriesS r tis) (he : st.err ≠ none) : (sliceLoop r tis st).err ≠ none := by
  induction tis generalizing st with
  | nil => simpa [sliceLoop] using he
  | cons t tis ih =>
    by_cases hk : t.key = .json
    · rw [sliceLoop_json r t _ st hk]
      apply ih _ hn.tail
      exact jsonBranch_keeps_err r t st.err (hn.2 t List.mem_cons_self hk) he
    · cases hs : t.skip
      · rw [sliceLoop_miss r t _ st hs hk (hn.1 t List.mem_cons_self ⟨hs, hk⟩)]
        apply ih _ hn.tail
        cases t.required <;> simp [he]
      · rw [sliceLoop_skip r t _ st hs hk]; exact ih _ hn.tail he

theorem sliceLoop_required (r : Req) (tis : List TagInfo) (st : SLoopSt)
    (hn : NoneCarriesS r tis) (hreq : ∃ t ∈ tis, t.effective ∧ t.required = true) :
    (sliceLoop r tis st).err ≠ none := by
  induction tis generalizing st with
  | nil => obtain ⟨t, ht, _⟩ := hreq; cases ht
  | cons t tis ih =>
    by_cases hk : t.key = .json
    · rw [sliceLoop_json r t _ st hk]
      by_cases hr : t.required = true
      · apply sliceLoop_err_survives r tis _ hn.tail
        simp [jsonBranch_required_err r t st.err (hn.2 t List.mem_cons_self hk) hr]
      · apply ih _ hn.tail
        obtain ⟨t', ht', he', hr'⟩ := hreq
        cases ht' with
        | head => exact absurd hr' hr
        | tail _ hm => exact ⟨t', hm, he', hr'⟩
    · cases hs : t.skip
      · rw [sliceLoop_miss r t _ st hs hk (hn.1 t List.mem_cons_self ⟨hs, hk⟩)]
        by_cases hr : t.required = true
        · apply sliceLoop_err_survives r tis _ hn.tail
          simp [hr]
        · apply ih _ hn.tail
          obtain ⟨t', ht', he', hr'⟩ := hreq
          cases ht' with
          | head => exact absurd hr' hr
          | tail _ hm => exact ⟨t', hm, he', hr'⟩
      · rw [sliceLoop_skip r t _ st hs hk]
        apply ih _ hn.tail
        obtain ⟨t', ht', he', hr'⟩ := hreq
        cases ht' with
        | head =>
          rcases he' with h | h
          · exact absurd h hk
          · rw [hs] at h; cases h
        | tail _ hm => exact ⟨t', hm, he', hr'⟩

theorem sliceLoop_err_kind (r : Req) (tis : List TagInfo) (st : SLoopSt)
    (h0 : st.err = none ∨ st.err = some .required) :
    (sliceLoop r tis st).err = none ∨ (sliceLoop r tis st).err = some .required := by
  induction tis generalizing st with
  | nil => simpa [sliceLoop] using h0
  | cons t tis ih =>
    by_cases hk : t.key = .json
    · rw [sliceLoop_json r t _ st hk]
      apply ih
      simp only [jsonBranch]
      cases checkRequireJSON r t <;> cases (t.required || keyExist r t) <;> simp [h0]
    · cases hs : t.skip
      · cases hg : textsPresent r t
        · rw [sliceLoop_miss r t _ st hs hk hg]
          apply ih
          cases t.required <;> simp [h0]
        · rw [sliceLoop_hit r t _ st hs hk hg]; simp
      · rw [sliceLoop_skip r t _ st hs hk]; exact ih _ h0

theorem sliceLoop_default (r : Req) (tis : List TagInfo) (st : SLoopSt) (d : Bytes)
    (hn : (∀ t ∈ tis, t.isText → textsPresent r t = false) ∧ (∀ t ∈ tis, t.key = .json → keyExist r t = false))
    (hd : ∀ t ∈ tis, t.dflt = d) (h0 : st.texts = [])
    (hst : st.dflt = d ∨ ∃ t ∈ tis, t.effective) :
    (sliceLoop r tis st).texts = [] ∧ (sliceLoop r tis st).dflt = d := by
  induction tis generalizing st with
  | nil =>
    rcases hst with h | ⟨t, ht, _⟩
    · simp [sliceLoop, h0, h]
    · cases ht
  | cons t tis ih =>
    have hn' : (∀ t ∈ tis, t.isText → textsPresent r t = false) ∧ (∀ t ∈ tis, t.key = .json → keyExist r t = false) :=
      ⟨fun t' h' => hn.1 t' (List.mem_cons_of_mem _ h'), fun t' h' => hn.2 t' (List.mem_cons_of_mem _ h')⟩
    have hd' : ∀ t ∈ tis, t.dflt = d := fun t' h' => hd t' (List.mem_cons_of_mem _ h')
    have hdt : t.dflt = d := hd t List.mem_cons_self
    by_cases hk : t.key = .json
    · rw [sliceLoop_json r t _ st hk]
      apply ih _ hn' hd'
      · exact h0
      · left
        simp [jsonBranch, hn.2 t List.mem_cons_self hk, hdt]
    · cases hs : t.skip
      · have hg := hn.1 t List.mem_cons_self ⟨hs, hk⟩
        rw [sliceLoop_miss r t _ st hs hk hg]
        apply ih _ hn' hd' rfl
        left; exact hdt
      · rw [sliceLoop_skip r t _ st hs hk]
        apply ih _ hn' hd' h0
        rcases hst with h | ⟨t', ht', he'⟩
        · left; exact h
        · cases ht' with
          | head =>
            rcases he' with h | h
            · exact absurd h hk
            · rw [hs] at h; cases h
          | tail _ hm => right; exact ⟨t', hm, he'⟩

/-! ## order of the tag list -/

theorem key_mkTagInfo (f : Field) (s : Src) (c : Bytes) : (mkTagInfo f s c).key = s := rfl

theorem filterMap_keys_sublist (f : Field) (l : List Src) :
    ((l.filterMap (fun s => (f.tags.lookup s).map (mkTagInfo f s))).map (·.key)).Sublist l := by
  induction l with
  | nil => simp
  | cons s l ih =>
    simp only [List.filterMap_cons]
    cases h : f.tags.lookup s
    · simpa using List.Sublist.cons s ih
    · simpa [key_mkTagInfo] using List.Sublist.cons_cons s ih

/-- the tags of a field reach the decoder in the order of the regenerated priority list, whatever their
order inside the struct tag -/
theorem fieldTagInfos_sorted (f : Field) : ((fieldTagInfos f).map (·.key)).Sublist lookupOrder := by
  unfold fieldTagInfos
  by_cases h : (lookupFieldTags f).isEmpty = true
  · simp only [h, if_true]
    have : (getDefaultFieldTags f).map (·.key) = defaultOrder := by
      unfold getDefaultFieldTags
      simp [List.map_map, Function.comp_def]
    rw [this]
    decide
  · simp only [h]
    exact filterMap_keys_sublist f lookupOrder

theorem fieldTagInfos_dflt (f : Field) : ∀ t ∈ fieldTagInfos f, t.dflt = f.dflt.getD [] := by
  intro t ht
  unfold fieldTagInfos at ht
  by_cases h : (lookupFieldTags f).isEmpty = true
  · simp only [h, if_true] at ht
    unfold getDefaultFieldTags at ht
    simp only [List.mem_map] at ht
    obtain ⟨s, _, rfl⟩ := ht
    rfl
  · rw [if_neg h] at ht
    unfold lookupFieldTags at ht
    simp only [List.mem_filterMap] at ht
    obtain ⟨s, _, hs⟩ := ht
    cases hl : f.tags.lookup s
    · simp [hl] at hs
    · simp [hl] at hs
      rw [← hs]; rfl

/-! ## the two `Decode` methods -/

/-- an empty text counts as no text when a default is declared -/
def effText (ty : Ty) (v d : Bytes) : Bytes := if v = [] ∧ d ≠ [] then toDefaultValue ty d else v

theorem decodeBase_picks_first (r : Req) (ty : Ty) (pre : List TagInfo) (ti : TagInfo) (post : List TagInfo)
    (prev : FieldVal) (hpre : ∀ t ∈ pre, t.isText → textPresent r t = false)
    (hti : ti.isText) (hg : textPresent r ti = true) :
    decodeBase r ty (pre ++ ti :: post) prev = textOutcome ty (effText ty (getter r ti.key ti.value).1 ti.dflt) := by
  unfold decodeBase
  rw [baseLoop_picks_first r pre ti post {} hpre hti hg]
  simp [effText]

theorem decodeSlice_picks_first (r : Req) (ty : Ty) (pre : List TagInfo) (ti : TagInfo) (post : List TagInfo)
    (prev : FieldVal) (t0 : Bytes) (ts : List Bytes)
    (hpre : ∀ t ∈ pre, t.isText → textsPresent r t = false)
    (hti : ti.isText) (hg : sliceGetter r ti.key ti.value = t0 :: ts) :
    decodeSlice r ty (pre ++ ti :: post) prev = textsOutcome ty prev t0 ts := by
  unfold decodeSlice
  have hp : textsPresent r ti = true := by simp [textsPresent, hg]
  rw [sliceLoop_picks_first r pre ti post {} hpre hti hp]
  simp [hg]

theorem decodeBase_required (r : Req) (ty : Ty) (tis : List TagInfo) (prev : FieldVal)
    (hn : NoneCarries r tis) (hreq : ∃ t ∈ tis, t.effective ∧ t.required = true) :
    decodeBase r ty tis prev = .err .required := by
  unfold decodeBase
  have h1 := baseLoop_required r tis {} hn hreq
  rcases baseLoop_err_kind r tis {} (Or.inl rfl) with h2 | h2
  · exact absurd h2 h1
  · simp [h2]

theorem decodeSlice_required (r : Req) (ty : Ty) (tis : List TagInfo) (prev : FieldVal)
    (hn : NoneCarriesS r tis) (hreq : ∃ t ∈ tis, t.effective ∧ t.required = true) :
    decodeSlice r ty tis prev = .err .required := by
  unfold decodeSlice
  have h1 := sliceLoop_required r tis {} hn hreq
  rcases sliceLoop_err_kind r tis {} (Or.inl rfl) with h2 | h2
  · exact absurd h2 h1
  · simp [h2]

theorem jsonBranch_no_required (r : Req) (t : TagInfo) (hr : t.required = false) :
    (jsonBranch r t none).1 = none := by
  simp [jsonBranch, checkRequireJSON, hr]

theorem baseLoop_no_required (r : Req) (tis : List TagInfo) (st : LoopSt)
    (hr : ∀ t ∈ tis, t.effective → t.required = false) (he : st.err = none) : (baseLoop r tis st).err = none := by
  induction tis generalizing st with
  | nil => simpa [baseLoop] using he
  | cons t tis ih =>
    have hr' : ∀ t' ∈ tis, t'.effective → t'.required = false := fun t' h' => hr t' (List.mem_cons_of_mem _ h')
    by_cases hk : t.key = .json
    · rw [baseLoop_json r t _ st hk]
      apply ih _ hr'
      rw [he]; exact jsonBranch_no_required r t (hr t List.mem_cons_self (Or.inl hk))
    · cases hs : t.skip
      · cases hg : (getter r t.key t.value).2
        · rw [baseLoop_miss r t _ st hs hk hg]
          apply ih _ hr'
          simp [hr t List.mem_cons_self (Or.inr hs), he]
        · rw [baseLoop_hit r t _ st hs hk hg]
      · rw [baseLoop_skip r t _ st hs hk]; exact ih _ hr' he

theorem sliceLoop_no_required (r : Req) (tis : List TagInfo) (st : SLoopSt)
    (hr : ∀ t ∈ tis, t.effective → t.required = false) (he : st.err = none) : (sliceLoop r tis st).err = none := by
  induction tis generalizing st with
  | nil => simpa [sliceLoop] using he
  | cons t tis ih =>
    have hr' : ∀ t' ∈ tis, t'.effective → t'.required = false := fun t' h' => hr t' (List.mem_cons_of_mem _ h')
    by_cases hk : t.key = .json
    · rw [sliceLoop_json r t _ st hk]
      apply ih _ hr'
      rw [he]; exact jsonBranch_no_required r t (hr t List.mem_cons_self (Or.inl hk))
    · cases hs : t.skip
      · cases hg : textsPresent r t
        · rw [sliceLoop_miss r t _ st hs hk hg]
          apply ih _ hr'
          simp [hr t List.mem_cons_self (Or.inr hs), he]
        · rw [sliceLoop_hit r t _ st hs hk hg]
      · rw [sliceLoop_skip r t _ st hs hk]; exact ih _ hr' he

theorem not_carried_keyExist (r : Req) (t : TagInfo) (h : jsonCarries r t = false) : keyExist r t = false := by
  cases hk : keyExist r t
  · rfl
  · have := keyExist_jsonCarries r t hk; rw [h] at this; cases this

/-- the value a field keeps when no source carries it -/
def defaultOutcome (ty : Ty) (d : Bytes) (prev : FieldVal) : FOut :=
  if d = [] then .ok prev else textOutcome ty (toDefaultValue ty d)

def defaultOutcomeS (ty : Ty) (d : Bytes) (prev : FieldVal) : FOut :=
  if d = [] then .ok prev else jsonFromText ty prev (toDefaultValue ty d)

theorem toDefaultValue_scalar (ty : Ty) (d : Bytes) (h : ty.slice = false) : toDefaultValue ty d = d := by
  simp [toDefaultValue, h]

theorem decodeBase_default (r : Req) (ty : Ty) (tis : List TagInfo) (prev : FieldVal) (d : Bytes)
    (hty : ty.slice = false)
    (hn : NoneCarries r tis) (hr : ∀ t ∈ tis, t.effective → t.required = false)
    (hd : ∀ t ∈ tis, t.dflt = d) (he : ∃ t ∈ tis, t.effective) :
    decodeBase r ty tis prev = defaultOutcome ty d prev := by
  unfold decodeBase
  have herr := baseLoop_no_required r tis {} hr rfl
  have hk : (∀ t ∈ tis, t.isText → textPresent r t = false) ∧ (∀ t ∈ tis, t.key = .json → keyExist r t = false) :=
    ⟨hn.1, fun t ht hj => not_carried_keyExist r t (hn.2 t ht hj)⟩
  obtain ⟨h1, h2, h3⟩ := baseLoop_default r tis {} d hk hd ⟨rfl, rfl⟩ (Or.inr he)
  simp only [herr, h1, h2, h3, defaultOutcome, toDefaultValue_scalar ty d hty]
  by_cases hde : d = []
  · simp [hde]
  · simp [hde]

theorem decodeSlice_default (r : Req) (ty : Ty) (tis : List TagInfo) (prev : FieldVal) (d : Bytes)
    (hn : NoneCarriesS r tis) (hr : ∀ t ∈ tis, t.effective → t.required = false)
    (hd : ∀ t ∈ tis, t.dflt = d) (he : ∃ t ∈ tis, t.effective) :
    decodeSlice r ty tis prev = defaultOutcomeS ty d prev := by
  unfold decodeSlice
  have herr := sliceLoop_no_required r tis {} hr rfl
  have hk : (∀ t ∈ tis, t.isText → textsPresent r t = false) ∧ (∀ t ∈ tis, t.key = .json → keyExist r t = false) :=
    ⟨hn.1, fun t ht hj => not_carried_keyExist r t (hn.2 t ht hj)⟩
  obtain ⟨h1, h3⟩ := sliceLoop_default r tis {} d hk hd rfl (Or.inr he)
  simp only [herr, h1, h3, defaultOutcomeS]
  by_cases hde : d = []
  · simp [hde]
  · simp [hde]

theorem decodeBase_json_last (r : Req) (ty : Ty) (pre : List TagInfo) (tj : TagInfo) (prev : FieldVal)
    (hpre : ∀ t ∈ pre, t.isText → textPresent r t = false) (hprej : ∀ t ∈ pre, t.key ≠ .json)
    (hk : tj.key = .json) (he : keyExist r tj = true) :
    decodeBase r ty (pre ++ [tj]) prev = .ok prev := by
  unfold decodeBase
  obtain ⟨h1, h2, h3, h4⟩ := baseLoop_json_last r pre tj {} hpre hprej ⟨rfl, rfl⟩ hk he
  simp [h1, h2, h3, h4]

/-! ## the decoder cache -/

/-- every cached decoder is the one `GetReqDecoder` builds for its type -/
def Binder.WF (b : Binder) : Prop := ∀ t d, (t, d) ∈ b.cache → d = compile t

theorem lookup_mem {α β} [BEq α] [LawfulBEq α] (l : List (α × β)) (a : α) (b : β) (h : l.lookup a = some b) :
    (a, b) ∈ l := by
  induction l with
  | nil => simp at h
  | cons p l ih =>
    obtain ⟨a', b'⟩ := p
    simp only [List.lookup_cons] at h
    cases hab : a == a'
    · simp only [hab] at h
      exact List.mem_cons_of_mem _ (ih h)
    · simp only [hab] at h
      have : a = a' := by simpa using hab
      cases h; subst this
      exact List.mem_cons_self

theorem Binder.bind_pure (b : Binder) (hb : b.WF) (t : List Field) (r : Req) :
    (b.bind t r).1 = Hertz.Bind.bind t r ∧ (b.bind t r).2.WF := by
  unfold Binder.bind
  cases h : b.cache.lookup t with
  | none =>
    refine ⟨rfl, ?_⟩
    intro t' d' hm
    simp only [List.mem_cons] at hm
    rcases hm with hm | hm
    · cases hm; rfl
    · exact hb t' d' hm
  | some decs =>
    have := hb t decs (lookup_mem _ _ _ h)
    subst this
    exact ⟨rfl, hb⟩

theorem Binder.run_pure (b : Binder) (hb : b.WF) (ops : List (List Field × Req)) :
    b.run ops = ops.map (fun o => Hertz.Bind.bind o.1 o.2) := by
  induction ops generalizing b with
  | nil => rfl
  | cons o ops ih =>
    obtain ⟨t, r⟩ := o
    simp only [Binder.run, List.map_cons]
    rw [(Binder.bind_pure b hb t r).1, ih _ (Binder.bind_pure b hb t r).2]

theorem Binder.empty_wf : (Binder.mk []).WF := by
  intro t d h; cases h

/-! ## the five decoder caches behind the entry points -/

/-- the `tag` whose decoders a cache holds -/
def Slot.tag : Slot → Option Src
  | .all => none | .query => some .query | .header => some .header | .form => some .form | .path => some .path

/-- every entry point loads from and stores into the cache that belongs to its own tag -/
theorem Api.slot_tag (a : Api) : (tagCache a.byTag).tag = a.byTag := by cases a <;> rfl

/-- every cached decoder is the one `GetReqDecoder` builds for its type **with the tag of the cache it sits in** -/
def TagBinder.WF (b : TagBinder) : Prop := ∀ s t d, (t, d) ∈ b.caches s → d = compileBy s.tag t

theorem TagBinder.empty_wf : ({} : TagBinder).WF := by
  intro s t d h; cases h

theorem TagBinder.call_pure (b : TagBinder) (hb : b.WF) (a : Api) (t : List Field) (r : Req) :
    (b.call a t r).1 = bindBy a.byTag t r ∧ (b.call a t r).2.WF := by
  unfold TagBinder.call TagBinder.bindTag
  cases h : (b.caches (tagCache a.byTag)).lookup t with
  | none =>
    refine ⟨rfl, ?_⟩
    intro s t' d' hm
    unfold TagBinder.store at hm
    by_cases hs : s = tagCache a.byTag
    · simp only [hs, if_true, List.mem_cons] at hm
      rcases hm with hm | hm
      · cases hm; rw [hs, Api.slot_tag]
      · rw [hs]; exact hb _ t' d' hm
    · simp only [hs, if_false] at hm
      exact hb s t' d' hm
  | some decs =>
    have := hb _ t decs (lookup_mem _ _ _ h)
    rw [Api.slot_tag] at this
    subst this
    exact ⟨rfl, hb⟩

theorem TagBinder.run_pure (b : TagBinder) (hb : b.WF) (ops : List (Api × List Field × Req)) :
    b.run ops = ops.map (fun o => bindBy o.1.byTag o.2.1 o.2.2) := by
  induction ops generalizing b with
  | nil => rfl
  | cons o ops ih =>
    obtain ⟨a, t, r⟩ := o
    simp only [TagBinder.run, List.map_cons]
    rw [(TagBinder.call_pure b hb a t r).1, ih _ (TagBinder.call_pure b hb a t r).2]

/-- `Bind` through the entry-point model is the `bind` of the first part -/
theorem bindBy_none (t : List Field) (r : Req) : bindBy none t r = Hertz.Bind.bind t r := by
  unfold bindBy bindWithBy compileBy Hertz.Bind.bind compile
  have : (compileFieldBy none) = compileField := by funext f; rfl
  rw [this]

end Hertz.Bind
