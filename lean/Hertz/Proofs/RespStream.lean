import Hertz.Model.Http1.RespStream
import Hertz.Proofs.StreamChunked
/-!
Lemmas about the client's streaming mode (`Model/Http1/RespStream.lean`) for `Props/C11.lean`.
-/
namespace Hertz.H1.RespStream
open Hertz Hertz.H1 Hertz.H1.RespRead Hertz.H1.Stream

/-- the stream object of a fixed-length or until-close body agrees with buffered mode -/
structure SameAsBuffered (r : RespRead.Result) (c : Consume) (o : SOut) : Prop where
  stream : o.stream = true
  fault : o.fault = false
  head : r.head = RespRead.setContentLength o.head r.body.length
  noErr : o.got.err = false
  bytes : o.got.bytes = r.body.take c.stopAfter
  eofEnd : o.got.eof = true → o.got.bytes = r.body
  eofSeen : r.body.length < c.stopAfter → o.got.eof = true

theorem streamBody_fixed (cfg : Cfg) (e : End) (hd : ReqHead) (s : Bytes) (c : Consume) (n : Nat)
    (hcl : hd.cl = (n : Int)) (hl : n ≤ s.length) :
    ∃ r, streamBody cfg e hd s c = .ok (r, .resync (s.drop n)) ∧ r.got.err = false ∧
      r.got.bytes = (s.take n).take c.stopAfter ∧ (r.got.eof = true → r.got.bytes = s.take n) ∧
      (n < c.stopAfter → r.got.eof = true) := by
  unfold streamBody
  have h2 : ¬ hd.cl = -2 := by omega
  have h1 : ¬ hd.cl = -1 := by omega
  have hn : hd.cl.toNat = n := by omega
  simp only [h2, h1, if_false, hn]
  have hpre : ¬ s.length < min n (min cfg.maxBody Gen.maxContentLengthInStream.toNat) := by
    have : min n (min cfg.maxBody Gen.maxContentLengthInStream.toNat) ≤ n := Nat.min_le_left _ _
    omega
  rw [if_neg hpre, if_pos (show s.length ≥ n from hl)]
  refine ⟨_, rfl, ?_⟩
  by_cases h0 : c.stopAfter = 0
  · simp [h0]
  · have hw : min c.stopAfter n ≤ min n s.length := by
      rw [Nat.min_eq_left hl]; exact Nat.min_le_right _ _
    simp only [h0, if_false, hw, if_true]
    refine ⟨trivial, ?_, ?_, ?_⟩
    · rw [List.take_take] <;> (congr 1; omega)
    · intro he
      simp only [decide_eq_true_eq] at he
      show List.take (min c.stopAfter n) s = List.take n s
      congr 1; omega
    · intro hlt
      show decide (c.stopAfter ≥ n) = true
      simp; omega

theorem take_length_take (s : Bytes) (n : Nat) (h : n ≤ s.length) : (s.take n).length = n := by
  simp [List.length_take]; omega

/-- **streaming = buffered, fixed length**: for EVERY byte string the buffered reader (without size limit) accepts
with a `Content-Length` head, whatever the configured limit, the prefetched amount and the caller's read pattern. -/
theorem stream_same_fixed (dn : Bool) (maxBody : Nat) (e : End) (s : Bytes) (p : Nat) (c : Consume)
    (hd : RespHead) (s1 : Bytes) (r : RespRead.Result)
    (hh : readHeaders dn e s = .ok (hd, s1)) (hb : readBodyPart dn 0 e hd s1 = .ok r)
    (hs : mustSkipCL hd.status = false) (hcl : 0 ≤ hd.cl) (hp : p ≤ hd.cl.toNat) :
    ∃ o, streamResponse dn maxBody e false s p c = .ok o ∧ SameAsBuffered r c o ∧
      o.after = .resync r.rest := by
  obtain ⟨n, hn⟩ : ∃ n : Nat, hd.cl = (n : Int) := ⟨hd.cl.toNat, by omega⟩
  have hnn : hd.cl.toNat = n := by omega
  -- what buffered mode did
  unfold readBodyPart at hb
  simp only [hs, Bool.false_eq_true, if_false, hcl, ge_iff_le, if_true, hnn, Nat.lt_irrefl, false_and] at hb
  have hlen : n ≤ s1.length ∧ r = RespRead.Result.mk (RespRead.setContentLength hd n) (s1.take n)
      (hd.trailer.map (fun k => (k, ([] : Bytes)))) (s1.drop n) := by
    unfold takeBody takeN at hb
    by_cases hl : s1.length ≥ n
    · simp only [hl, if_true] at hb
      simp only [Except.ok.injEq] at hb
      refine ⟨hl, ?_⟩
      rw [← hb, take_length_take s1 n hl]
    · simp only [hl, if_false] at hb
      cases e <;> simp [endErr] at hb
  obtain ⟨hl, hr⟩ := hlen
  obtain ⟨ro, hro, herr, hbytes, heof1, heof2⟩ := streamBody_fixed (bodyCfg dn maxBody hd.cl) e (asReq hd) s1 c n (by simpa [asReq] using hn) hl
  unfold streamResponse
  rw [hh]
  unfold streamPart
  have h2 : ¬ hd.cl = -2 := by omega
  have h1 : ¬ hd.cl = -1 := by omega
  have hov : ¬ (0 ≤ hd.cl ∧ hd.cl.toNat < p) := by omega
  simp only [hs, Bool.or_false, Bool.false_eq_true, if_false, h2, h1, hov, hro, false_and]
  refine ⟨_, rfl, ⟨rfl, rfl, ?_, herr, ?_, ?_, ?_⟩, ?_⟩
  · rw [hr]; simp [take_length_take s1 n hl]
  · rw [hr]; exact hbytes
  · rw [hr]; exact heof1
  · rw [hr]; simp only [take_length_take s1 n hl]; exact heof2
  · rw [hr]

/-- **streaming = buffered, body framed by the end of the connection** (the peer closes: `End.eof`) -/
theorem stream_same_identity (dn : Bool) (maxBody : Nat) (s : Bytes) (p : Nat) (c : Consume)
    (hd : RespHead) (s1 : Bytes) (r : RespRead.Result)
    (hh : readHeaders dn .eof s = .ok (hd, s1)) (hb : readBodyPart dn 0 .eof hd s1 = .ok r)
    (hs : mustSkipCL hd.status = false) (hcl : hd.cl = -2) :
    ∃ o, streamResponse dn maxBody .eof false s p c = .ok o ∧ SameAsBuffered r c o := by
  unfold readBodyPart at hb
  have hge : ¬ hd.cl ≥ 0 := by omega
  have h1 : ¬ hd.cl = -1 := by omega
  simp only [hs, Bool.false_eq_true, if_false, hge, h1, readIdentity, Nat.lt_irrefl, false_and, Except.ok.injEq] at hb
  unfold streamResponse
  rw [hh]
  unfold streamPart
  simp only [hs, Bool.or_false, Bool.false_eq_true, if_false, hcl, if_true]
  refine ⟨_, rfl, ⟨rfl, rfl, ?_, ?_, ?_, ?_, ?_⟩⟩
  · rw [← hb]
  · simp only [identityGot]; split <;> rfl
  · rw [← hb]; simp only [identityGot]; split
    · rfl
    · rename_i h; simp only; rw [List.take_of_length_le (by omega)]
  · rw [← hb]; simp only [identityGot]; split
    · intro h; simp at h
    · intro _; rfl
  · rw [← hb]; simp only [identityGot]; intro h
    have : ¬ c.stopAfter ≤ s1.length := by omega
    simp [this]

/-- **streaming, chunked**: for every well-formed chunked encoding `m` behind the head (any chunking, any trailer
section, anything behind it) the bytes read are a prefix of the de-chunked body, never more than asked for; if no
read failed they are exactly the first `stopAfter` bytes and EOF is reported iff the caller asked for more than
the body; the head is the one `ReadHeaders` returned. -/
theorem stream_same_chunked (dn : Bool) (maxBody : Nat) (e : End) (s : Bytes) (p : Nat) (c : Consume)
    (hd : RespHead) (m : ChunkedMsg) (rest : Bytes)
    (hh : readHeaders dn e s = .ok (hd, m.bytes ++ rest)) (hs : mustSkipCL hd.status = false) (hcl : hd.cl = -1) (hm : m.Wf) :
    ∃ o, streamResponse dn maxBody e false s p c = .ok o ∧ o.stream = true ∧ o.fault = false ∧ o.head = hd ∧
      o.got.bytes <+: m.body ∧ o.got.bytes.length ≤ c.stopAfter ∧
      (o.got.err = false → o.got.bytes = m.body.take c.stopAfter ∧ (o.got.eof = true ↔ m.body.length < c.stopAfter)) := by
  unfold streamResponse
  rw [hh]
  unfold streamPart
  have h2 : ¬ hd.cl = -2 := by omega
  have hov : ¬ (0 ≤ hd.cl ∧ hd.cl.toNat < p) := by omega
  simp only [hs, Bool.or_false, Bool.false_eq_true, if_false, h2, hov]
  rw [streamBody_chunked _ e (asReq hd) _ c (by simpa [asReq] using hcl)]
  simp only
  exact ⟨_, rfl, rfl, rfl, rfl, chunked_reads _ e _ c m hm rest _⟩

/-- with a positive read size and an empty trailer section no read of a well-formed chunked body fails -/
theorem stream_chunked_no_error (dn : Bool) (maxBody : Nat) (e : End) (s : Bytes) (p : Nat) (c : Consume)
    (hd : RespHead) (m : ChunkedMsg) (rest : Bytes)
    (hh : readHeaders dn e s = .ok (hd, m.bytes ++ rest)) (hs : mustSkipCL hd.status = false) (hcl : hd.cl = -1) (hm : m.Wf)
    (hr : 0 < c.readSize) (htr : m.trailer = [13, 10]) :
    ∃ o, streamResponse dn maxBody e false s p c = .ok o ∧ o.got.err = false := by
  unfold streamResponse
  rw [hh]
  unfold streamPart
  have h2 : ¬ hd.cl = -2 := by omega
  have hov : ¬ (0 ≤ hd.cl ∧ hd.cl.toNat < p) := by omega
  simp only [hs, Bool.or_false, Bool.false_eq_true, if_false, h2, hov]
  rw [streamBody_chunked _ e (asReq hd) _ c (by simpa [asReq] using hcl)]
  refine ⟨_, rfl, ?_⟩
  refine chunked_no_error _ e _ c m hm rest _ hr (by omega) ?_
  intro x
  rw [htr]
  simp [readTrailerReq_empty]

/-- where the connection stands when the stream of a chunked response is closed: closed after a failed read; behind
the whole message (`rest`) otherwise — or closed when the remainder had not arrived (`either`) -/
theorem stream_chunked_after (dn : Bool) (maxBody : Nat) (e : End) (s : Bytes) (p : Nat) (c : Consume)
    (hd : RespHead) (m : ChunkedMsg) (ls : List Bytes) (rest : Bytes)
    (hh : readHeaders dn e s = .ok (hd, m.bytes ++ rest)) (hs : mustSkipCL hd.status = false) (hcl : hd.cl = -1) (hm : m.Wf)
    (hls : ∀ l ∈ ls, TrFieldOk l) (htr : m.trailer = encTrailer ls) :
    ∃ o, streamResponse dn maxBody e false s p c = .ok o ∧
      o.after = if o.got.err then .closed else if o.got.eof then .resync rest else .either rest := by
  unfold streamResponse
  rw [hh]
  unfold streamPart
  have h2 : ¬ hd.cl = -2 := by omega
  have hov : ¬ (0 ≤ hd.cl ∧ hd.cl.toNat < p) := by omega
  simp only [hs, Bool.or_false, Bool.false_eq_true, if_false, h2, hov]
  rw [streamBody_chunked _ e (asReq hd) _ c (by simpa [asReq] using hcl)]
  refine ⟨_, rfl, ?_⟩
  simp only
  refine chunked_after _ e _ c m hm ls (fun l hl => (hls l hl).lineOk) htr rest _ (fun _ => ?_)
  rw [htr]
  exact readTrailerReq_lines _ e _ ls rest hls

/-- what `attemptS` puts back into the pool is the connection at the position the stream object reports -/
theorem attemptS_pooled (cfg : Exchange.Cfg) (rq : Exchange.Req) (sv : Exchange.Srv) (c : Exchange.Conn) (inPool : Bool)
    (p : Nat) (cs : Consume) (fin : Fin) (drained : Bool) (c' : Exchange.Conn) (o : SOutcome)
    (h : attemptS cfg rq sv c inPool p cs fin drained = (some c', o)) :
    ∃ r, o = .ok r ∧
      streamResponse cfg.disableNorm cfg.maxBody (Exchange.endOf (Exchange.serve c sv)) (rq.skipBody || rq.appSkip)
        (Exchange.serve c sv).pending p cs = .ok r ∧
      (r.after = .resync c'.pending ∨ r.after = .either c'.pending) ∧
      rq.connClose = false ∧ r.head.connClose = false := by
  unfold attemptS at h
  simp only at h
  split at h
  · split at h <;> simp at h
  · rename_i b s hp
    rw [hp]
    split at h
    · simp at h
    · rename_i r hr
      refine ⟨r, ?_, hr, ?_⟩
      · split at h
        · simp at h
        · split at h
          · simp at h
          · split at h <;> simp at h <;> exact h.2.symm
          · split at h <;> simp at h <;> exact h.2.symm
      · split at h
        · simp at h
        · split at h
          · simp at h
          · rename_i rest ha
            split at h
            · simp at h
            · rename_i hsc
              simp only [Prod.mk.injEq, Option.some.injEq] at h
              simp only [Bool.or_eq_true, not_or, Bool.not_eq_true] at hsc
              refine ⟨Or.inl ?_, hsc.1.1, hsc.1.2⟩
              rw [ha, ← h.1]
          · rename_i rest ha
            split at h
            · simp at h
            · rename_i hsc
              simp only [Prod.mk.injEq, Option.some.injEq] at h
              simp only [Bool.or_eq_true, not_or, Bool.not_eq_true] at hsc
              refine ⟨Or.inr ?_, hsc.1.1.1, hsc.1.1.2⟩
              rw [ha, ← h.1]

/-- an admissible prefetched length never exceeds the declared length when the peer sent no more than it declared -/
theorem prefetch_within (maxBody : Nat) (hd : RespHead) (s1 : Bytes) (p : Nat)
    (h : prefetchOk maxBody hd s1 p = true) (hcl : 0 ≤ hd.cl) (hlen : s1.length ≤ hd.cl.toNat) : p ≤ hd.cl.toNat := by
  unfold prefetchOk at h
  have h1 : ¬ hd.cl = -1 := by omega
  have h2 : ¬ hd.cl = -2 := by omega
  simp only [h1, h2, if_false] at h
  split at h
  · simp only [beq_iff_eq] at h
    rw [h]; exact Nat.min_le_left _ _
  · simp only [Bool.and_eq_true, decide_eq_true_eq] at h
    omega

/-- the trailer the stream stores at EOF is the one buffered mode returns -/
theorem trailersAtEOF_buffered (dn : Bool) (e : End) (hd : RespHead) (s1 : Bytes) (r : RespRead.Result)
    (hb : readBodyPart dn 0 e hd s1 = .ok r) (hs : mustSkipCL hd.status = false) (hcl : hd.cl = -1) :
    trailersAtEOF dn e hd.trailer s1 = r.trailers := by
  unfold readBodyPart at hb
  have hge : ¬ hd.cl ≥ 0 := by omega
  simp only [hs, Bool.false_eq_true, if_false, hge, hcl, if_true] at hb
  unfold trailersAtEOF
  cases hc : readBodyChunked e 0 (s1.length + 1) [] s1 with
  | error x => rw [hc] at hb; cases hb
  | ok v =>
    obtain ⟨body, rest⟩ := v
    rw [hc] at hb
    simp only at hb ⊢
    cases ht : readTrailerReq { disableNorm := dn, maxBody := 0 } e hd.trailer rest with
    | error x => rw [ht] at hb; cases hb
    | ok w =>
      obtain ⟨o, rest'⟩ := w
      have ht' : readTrailerReq { disableNorm := dn } e hd.trailer rest = .ok (o, rest') := by
        have : readTrailerReq { disableNorm := dn } e hd.trailer rest =
            readTrailerReq { disableNorm := dn, maxBody := 0 } e hd.trailer rest := by
          unfold readTrailerReq; rfl
        rw [this, ht]
      rw [ht'] 
      rw [ht] at hb
      have hneg : ¬ ((-1 : Int) ≥ 0) := by omega
      cases o with
      | none => simp only [hneg, if_false, Except.ok.injEq] at hb; rw [← hb]
      | some tr => simp only [hneg, if_false, Except.ok.injEq] at hb; rw [← hb]

end Hertz.H1.RespStream
