import Hertz.Model.Http1.Resp
import Hertz.Spec.Resp
import Hertz.Proofs.HeaderWrite
namespace Hertz.H1.Resp
open Hertz Hertz.Gen.Str Hertz.Spec.Resp Hertz.Spec.Head

/-! ### hex chunk sizes -/

theorem hexVal_lowerhex : ∀ d : Nat, d < 16 → Spec.Resp.hexVal (lowerhex d.toUInt8) = some d := by
  decide

/-- explicit left fold of `parseHex` -/
def hexAcc : Nat → Bytes → Option Nat
  | a, [] => some a
  | a, c :: t => match Spec.Resp.hexVal c with
    | some d => hexAcc (a * 16 + d) t
    | none => none

theorem foldlM_eq_hexAcc : ∀ (b : Bytes) (a : Nat),
    b.foldlM (fun n c => (Spec.Resp.hexVal c).map (fun d => n * 16 + d)) a = hexAcc a b
  | [], a => rfl
  | c :: t, a => by
    simp only [List.foldlM_cons, hexAcc]
    cases h : Spec.Resp.hexVal c with
    | none => simp [Option.bind]
    | some d => simp [foldlM_eq_hexAcc t]

theorem hexAcc_append : ∀ (x y : Bytes) (a : Nat), hexAcc a (x ++ y) = (hexAcc a x).bind (fun r => hexAcc r y)
  | [], y, a => by simp [hexAcc]
  | c :: t, y, a => by
    simp only [List.cons_append, hexAcc]
    cases Spec.Resp.hexVal c with
    | none => simp
    | some d => exact hexAcc_append t y _

theorem hexAcc_hexDigits : ∀ (fuel n a : Nat), n < 16 ^ fuel → hexAcc a (hexDigits fuel n) = some (a * 16 ^ (hexDigits fuel n).length + n)
  | 0, n, a, h => by
    have : n = 0 := by simpa using h
    subst this; simp [hexDigits, hexAcc]
  | fuel + 1, n, a, h => by
    unfold hexDigits
    split
    · rename_i hn
      simp [hexAcc, hexVal_lowerhex n hn]
    · rename_i hn
      have hq : n / 16 < 16 ^ fuel := by
        rw [Nat.div_lt_iff_lt_mul (by decide)]
        rw [Nat.pow_succ] at h; exact h
      have hr : n % 16 < 16 := Nat.mod_lt _ (by decide)
      rw [hexAcc_append, hexAcc_hexDigits fuel (n / 16) a hq]
      simp only [Option.bind_some, hexAcc, hexVal_lowerhex _ hr, List.length_append, List.length_cons,
        List.length_nil, Nat.zero_add]
      congr 1
      rw [Nat.pow_succ, ← Nat.mul_assoc, Nat.add_mul]
      have := Nat.div_add_mod n 16
      omega

theorem hexDigits_ne_nil : ∀ (fuel n : Nat), 0 < fuel → hexDigits fuel n ≠ []
  | fuel + 1, n, _ => by
    unfold hexDigits
    split <;> simp

/-- A reader of hex chunk sizes gets back the number `WriteHexInt` wrote (for every size that fits 64 bits). -/
theorem parseHex_writeHexInt (n : Nat) (h : n < 16 ^ 16) : parseHex (writeHexInt n) = some n := by
  unfold parseHex writeHexInt
  have hne := hexDigits_ne_nil 16 n (by decide)
  simp only [List.isEmpty_iff, hne, if_false]
  rw [foldlM_eq_hexAcc, hexAcc_hexDigits 16 n 0 h]
  simp

theorem hexDigits_clean : ∀ (fuel n : Nat), ∀ x ∈ hexDigits fuel n, x ≠ 13 ∧ x ≠ 10
  | 0, _ => by simp [hexDigits]
  | fuel + 1, n => by
    intro x hx
    unfold hexDigits at hx
    have key : ∀ d : Nat, d < 16 → lowerhex d.toUInt8 ≠ 13 ∧ lowerhex d.toUInt8 ≠ 10 := by decide
    split at hx
    · rename_i hn; simp at hx; subst hx; exact key n hn
    · simp only [List.mem_append, List.mem_cons, List.mem_nil_iff, or_false] at hx
      rcases hx with hx | hx
      · exact hexDigits_clean fuel (n / 16) x hx
      · subst hx; exact key _ (Nat.mod_lt _ (by decide))

/-! ### chunked bodies -/

theorem writeChunk_nil : writeChunk [] = [48, 13, 10] := by decide

/-- The strict chunk reader returns exactly the payloads the chunk encoder was given, then the
trailer fields, then whatever followed — provided no chunk is empty (an empty chunk is the terminator). -/
theorem chunks_encode : ∀ (cs : List Bytes) (tr : List (Bytes × Bytes)) (rest acc : Bytes) (fuel : Nat),
    (∀ c ∈ cs, c ≠ [] ∧ c.length < 16 ^ 16) → cs.length < fuel →
    chunks fuel (encodeChunks cs ++ writeChunk [] ++ trailerBlock tr ++ rest) acc =
      some (acc ++ cs.flatten, HW.kept tr, rest)
  | [], tr, rest, acc, fuel, _, hf => by
    obtain ⟨f, rfl⟩ : ∃ f, fuel = f + 1 := ⟨fuel - 1, by omega⟩
    simp only [encodeChunks, List.flatMap_nil, List.nil_append, writeChunk_nil, chunks]
    have : ([48, 13, 10] : Bytes) ++ trailerBlock tr ++ rest = [48] ++ 13 :: 10 :: (trailerBlock tr ++ rest) := by simp
    rw [this, HW.crlfLine_append [48] _ (by decide)]
    simp only [show parseHex [48] = some 0 by decide]
    have hk := HW.kept_len_le_block tr
    rw [show trailerBlock tr = HW.block tr from rfl,
      HW.fields_block tr rest _ (by simp only [List.length_append]; omega)]
    simp
  | c :: cs, tr, rest, acc, fuel, hc, hf => by
    obtain ⟨f, rfl⟩ : ∃ f, fuel = f + 1 := ⟨fuel - 1, by omega⟩
    obtain ⟨hne, hlen⟩ := hc c (by simp)
    have ih := chunks_encode cs tr rest (acc ++ c) f (fun x hx => hc x (by simp [hx])) (by simp at hf; omega)
    have e : encodeChunks (c :: cs) ++ writeChunk [] ++ trailerBlock tr ++ rest =
        writeHexInt c.length ++ 13 :: 10 :: (c ++ 13 :: 10 :: (encodeChunks cs ++ writeChunk [] ++ trailerBlock tr ++ rest)) := by
      simp [encodeChunks, writeChunk, hne, HW.strCRLF_eq, List.append_assoc]
    rw [e]
    simp only [chunks]
    rw [HW.crlfLine_append (writeHexInt c.length) _ (hexDigits_clean 16 c.length)]
    simp only [parseHex_writeHexInt _ hlen]
    have hpos : c.length ≠ 0 := by simpa using hne
    cases hl : c.length with
    | zero => exact absurd hl hpos
    | succ k =>
      simp only
      have hlen2 : ¬ (c ++ 13 :: 10 :: (encodeChunks cs ++ writeChunk [] ++ trailerBlock tr ++ rest)).length < k + 1 + 2 := by
        simp [hl]
      simp only [hlen2, if_false]
      have hd : (c ++ 13 :: 10 :: (encodeChunks cs ++ writeChunk [] ++ trailerBlock tr ++ rest)).drop (k + 1) =
          13 :: 10 :: (encodeChunks cs ++ writeChunk [] ++ trailerBlock tr ++ rest) := by
        rw [← hl]; simp
      have ht : (c ++ 13 :: 10 :: (encodeChunks cs ++ writeChunk [] ++ trailerBlock tr ++ rest)).take (k + 1) = c := by
        rw [← hl]; simp
      have hd2 : (c ++ 13 :: 10 :: (encodeChunks cs ++ writeChunk [] ++ trailerBlock tr ++ rest)).drop (k + 1 + 2) =
          encodeChunks cs ++ writeChunk [] ++ trailerBlock tr ++ rest := by
        rw [show k + 1 + 2 = (k + 1) + 2 from rfl, ← List.drop_drop, hd]; rfl
      rw [hd, hd2, ht]
      simp only [List.take, bne_self_eq_false, Bool.false_eq_true, if_false]
      rw [ih]
      simp [List.append_assoc]

/-! ### bodiless responses, fixed length -/

theorem mustSkipCL_eq (st : Nat) : mustSkipCL st = noBodyStatus st := by
  unfold mustSkipCL noBodyStatus
  by_cases h1 : st < 100
  · have : ¬ (100 ≤ st) := by omega
    have h2 : st ≠ 204 := by omega
    have h3 : st ≠ 304 := by omega
    simp [h1, this, h2, h3]
  · by_cases h2 : st = 200
    · subst h2; decide
    · by_cases h5 : st < 200
      · have : 100 ≤ st := by omega
        simp [h1, h2, h5, this]
      · have a : ¬ (st < 100) := h1
        simp [h1, h2, h5, Bool.or_comm]

end Hertz.H1.Resp
