import Hertz.Model.Path
import Hertz.Proofs.Bytesconv
namespace Hertz

abbrev DDS : Bytes := [47, 46, 46, 47]   -- "/../"
abbrev SDD : Bytes := [47, 46, 46]       -- "/.."
abbrev SS : Bytes := [47, 47]            -- "//"
abbrev SDS : Bytes := [47, 46, 47]       -- "/./"

/-! ### the `/../` loop -/

theorem splitDDS_some : ∀ (b p r : Bytes), splitDDS b = some (p, r) →
    b = p ++ 47 :: 46 :: 46 :: r ∧ r.head? = some 47
  | [], _, _, h => by simp [splitDDS] at h
  | [_], _, _, h => by simp [splitDDS] at h
  | [_, _], _, _, h => by simp [splitDDS] at h
  | [_, _, _], _, _, h => by simp [splitDDS] at h
  | c :: d :: e :: f :: t', p, r, h => by
    simp only [splitDDS] at h
    split at h
    · rename_i hm
      obtain ⟨h1, h2, h3, h4⟩ := hm
      simp only [Option.some.injEq, Prod.mk.injEq] at h
      obtain ⟨hp, hr⟩ := h
      subst hp hr h1 h2 h3 h4
      simp
    · cases hs : splitDDS (d :: e :: f :: t') with
      | none => simp [hs] at h
      | some pr =>
        obtain ⟨p', r'⟩ := pr
        simp only [hs, Option.map_some, Option.some.injEq, Prod.mk.injEq] at h
        obtain ⟨hp, hr⟩ := h
        subst hp hr
        obtain ⟨e1, e2⟩ := splitDDS_some (d :: e :: f :: t') p' r' hs
        exact ⟨by simp [← e1], e2⟩

theorem splitDDS_none {b : Bytes} (h : splitDDS b = none) : ¬ DDS <:+: b := by
  induction b with
  | nil => intro hi; have := hi.length_le; simp at this
  | cons c t ih =>
    match t, ih with
    | [], _ => intro hi; have := hi.length_le; simp at this
    | [d], _ => intro hi; have := hi.length_le; simp at this
    | [d, e], _ => intro hi; have := hi.length_le; simp at this
    | d :: e :: f :: t', ih =>
      simp only [splitDDS] at h
      split at h
      · simp at h
      · rename_i hm
        have hn : splitDDS (d :: e :: f :: t') = none := by
          cases hs : splitDDS (d :: e :: f :: t') with
          | none => rfl
          | some pr => simp [hs] at h
        intro hi
        rcases List.infix_cons_iff.mp hi with hp | hi'
        · simp only [List.cons_prefix_cons] at hp
          exact hm ⟨hp.1.symm, hp.2.1.symm, hp.2.2.1.symm, hp.2.2.2.1.symm⟩
        · exact ih hn hi'

theorem beforeLastSlash_prefix (p : Bytes) : beforeLastSlash p <+: p := by
  unfold beforeLastSlash
  rw [← List.reverse_suffix, List.reverse_reverse]
  exact (List.drop_suffix _ _).trans (List.dropWhile_suffix _)

theorem stepDDS_length {b b' : Bytes} (h : stepDDS b = some b') : b'.length < b.length := by
  unfold stepDDS at h
  cases hs : splitDDS b with
  | none => simp [hs] at h
  | some pr =>
    obtain ⟨p, r⟩ := pr
    simp only [hs, Option.map_some, Option.some.injEq] at h
    obtain ⟨e1, _⟩ := splitDDS_some _ _ _ hs
    have := (beforeLastSlash_prefix p).length_le
    subst h
    rw [e1]
    simp
    omega

/-- `b.length` iterations are always enough: on exit there is no `/../` left. -/
theorem loopDDS_fuel (fuel : Nat) (b : Bytes) (h : b.length ≤ fuel) : ¬ DDS <:+: loopDDS fuel b := by
  induction fuel generalizing b with
  | zero =>
    have : b = [] := List.eq_nil_of_length_eq_zero (by omega)
    subst this
    intro hi; have := hi.length_le; simp [loopDDS] at this
  | succ f ih =>
    unfold loopDDS
    cases hs : stepDDS b with
    | none =>
      simp only
      apply splitDDS_none
      unfold stepDDS at hs
      cases h2 : splitDDS b with
      | none => rfl
      | some pr => simp [h2] at hs
    | some b' =>
      simp only
      have := stepDDS_length hs
      exact ih b' (by omega)

theorem cutTrailingDD_spec (b : Bytes) (h : ¬ DDS <:+: b) :
    ¬ DDS <:+: cutTrailingDD b ∧ ¬ SDD <:+ cutTrailingDD b := by
  unfold cutTrailingDD
  split
  · rename_i revBefore hrev
    have hb : b = (46 :: 46 :: 47 :: revBefore).reverse := by rw [← hrev, List.reverse_reverse]
    simp only
    split
    · constructor
      · intro hi; have := hi.length_le; simp at this
      · intro hi; have := hi.length_le; simp at this
    · rename_i hne
      have hsuf : revBefore.dropWhile (· != 47) <:+ b.reverse := by
        rw [hrev]
        exact (List.dropWhile_suffix _).trans
          ((List.suffix_cons _ _).trans ((List.suffix_cons _ _).trans (List.suffix_cons _ _)))
      have hpre : (revBefore.dropWhile (· != 47)).reverse <+: b := by
        rw [← List.reverse_suffix, List.reverse_reverse]; exact hsuf
      constructor
      · intro hi; exact h (hi.trans hpre.isInfix)
      · intro hi
        -- the kept text ends with the slash found by `dropWhile`
        cases hr : revBefore.dropWhile (· != 47) with
        | nil => simp [hr] at hne
        | cons x xs =>
          have hx : ¬ ((x != 47) = true) := by
            have := List.head_dropWhile_not (p := (· != 47)) (l := revBefore) (w := by simp [hr])
            simpa [hr] using this
          have hx47 : x = 47 := by simpa using hx
          rw [hr] at hi
          have h2 := hi.reverse
          simp only [List.reverse_cons, List.reverse_nil, List.nil_append,
            List.cons_append] at h2
          rw [hx47] at h2
          simp at h2
  · rename_i hno
    refine ⟨h, ?_⟩
    intro hi
    obtain ⟨t, ht⟩ := hi
    apply hno t.reverse
    rw [← ht]; simp

/-! ### heads -/

theorem collapseSlashes_head : ∀ b : Bytes, (collapseSlashes b).head? = b.head?
  | [] => rfl
  | [_] => rfl
  | c :: d :: t => by
    simp only [collapseSlashes]
    split
    · rename_i h; rw [collapseSlashes_head (d :: t)]; simp [h.1, h.2]
    · rfl

theorem cutDotSlash_head : ∀ b : Bytes, (cutDotSlash b).head? = b.head?
  | [] => rfl
  | [_] => rfl
  | [_, _] => rfl
  | c :: d :: e :: t => by
    simp only [cutDotSlash]
    split
    · rename_i h; rw [cutDotSlash_head (e :: t)]; simp [h.1, h.2.2]
    · rfl

theorem slashDecode_head (src : Bytes) : (slashDecode src).head? = some 47 := by
  unfold slashDecode
  match src with
  | [] => rfl
  | c :: t =>
    by_cases hc : c = 47
    · subst hc
      simp only [if_true, List.nil_append]
      rw [decodeArgNoPlus_eq_slow, decodeSlow_plain _ _ _ (by decide) (by decide)]
      rfl
    · simp [hc]

theorem dropWhile_nil_all {α} (q : α → Bool) : ∀ l : List α, l.dropWhile q = [] → ∀ x ∈ l, q x = true
  | [], _, x, hx => by simp at hx
  | a :: t, h, x, hx => by
    by_cases ha : q a = true
    · simp only [List.dropWhile_cons, ha, if_true] at h
      rcases List.mem_cons.mp hx with e | e
      · rw [e]; exact ha
      · exact dropWhile_nil_all q t h x e
    · simp [ha] at h

theorem beforeLastSlash_spec (p : Bytes) :
    (47 ∉ p ∧ beforeLastSlash p = []) ∨ ∃ S, p = beforeLastSlash p ++ 47 :: S := by
  unfold beforeLastSlash
  have hsplit := List.takeWhile_append_dropWhile (p := (· != 47)) (l := p.reverse)
  cases hd : p.reverse.dropWhile (· != 47) with
  | nil =>
    left
    constructor
    · intro hm
      have := dropWhile_nil_all (· != 47) p.reverse hd 47 (by simpa using hm)
      simp at this
    · simp
  | cons x xs =>
    right
    have hx : x = 47 := by
      have := List.head_dropWhile_not (p := (· != 47)) (l := p.reverse) (w := by simp [hd])
      simpa [hd] using this
    refine ⟨(p.reverse.takeWhile (· != 47)).reverse, ?_⟩
    have hp : p = xs.reverse ++ 47 :: (p.reverse.takeWhile (· != 47)).reverse := by
      have : p = (p.reverse.takeWhile (· != 47) ++ x :: xs).reverse := by
        rw [← hd, hsplit, List.reverse_reverse]
      rw [hx] at this
      simpa using this
    simpa using hp

theorem stepDDS_shape {b b' : Bytes} (hb : b.head? = some 47) (h : stepDDS b = some b') :
    ∃ P r', b' = P ++ 47 :: r' ∧ (P ++ [47]) <+: b ∧ (47 :: r') <:+ b := by
  unfold stepDDS at h
  cases hs : splitDDS b with
  | none => simp [hs] at h
  | some pr =>
    obtain ⟨p, r⟩ := pr
    simp only [hs, Option.map_some, Option.some.injEq] at h
    obtain ⟨e1, e2⟩ := splitDDS_some _ _ _ hs
    cases r with
    | nil => simp at e2
    | cons x r' =>
      simp only [List.head?_cons, Option.some.injEq] at e2
      subst e2
      refine ⟨beforeLastSlash p, r', h.symm, ?_, ?_⟩
      · rcases beforeLastSlash_spec p with ⟨_, hnil⟩ | ⟨S, hS⟩
        · rw [hnil]
          cases b with
          | nil => simp at hb
          | cons y ys => simp at hb; subst hb; simp
        · rw [e1]
          conv => rhs; rw [hS]
          simp only [List.append_assoc, List.cons_append]
          exact (List.prefix_append_right_inj _).mpr (by simp)
      · rw [e1]
        exact ⟨p ++ [47, 46, 46], by simp⟩

theorem stepDDS_head {b b' : Bytes} (hb : b.head? = some 47) (h : stepDDS b = some b') :
    b'.head? = some 47 := by
  obtain ⟨P, r', e, hp, _⟩ := stepDDS_shape hb h
  subst e
  cases P with
  | nil => rfl
  | cons x xs =>
    obtain ⟨t, ht⟩ := hp
    rw [← ht] at hb
    simpa using hb

theorem loopDDS_head (fuel : Nat) (b : Bytes) (hb : b.head? = some 47) :
    (loopDDS fuel b).head? = some 47 := by
  induction fuel generalizing b with
  | zero => simpa [loopDDS] using hb
  | succ f ih =>
    unfold loopDDS
    cases hs : stepDDS b with
    | none => simpa using hb
    | some b' => exact ih b' (stepDDS_head hb hs)

/-- `cutTrailingDD b` is `/` or a non-empty prefix of `b`. -/
theorem cutTrailingDD_prefix (b : Bytes) (hb : b.head? = some 47) :
    cutTrailingDD b = [47] ∨ (cutTrailingDD b <+: b ∧ cutTrailingDD b ≠ []) := by
  unfold cutTrailingDD
  split
  · rename_i revBefore hrev
    simp only
    split
    · left; rfl
    · rename_i hne
      right
      constructor
      · rw [← List.reverse_suffix, List.reverse_reverse, hrev]
        exact (List.dropWhile_suffix _).trans
          ((List.suffix_cons _ _).trans ((List.suffix_cons _ _).trans (List.suffix_cons _ _)))
      · simpa using hne
  · right
    refine ⟨List.prefix_refl _, ?_⟩
    intro h; rw [h] at hb; simp at hb

theorem head_of_prefix {a b : Bytes} (h : a <+: b) (hne : a ≠ []) : a.head? = b.head? := by
  obtain ⟨t, ht⟩ := h
  cases a with
  | nil => exact absurd rfl hne
  | cons x xs => rw [← ht]; rfl

/-! ### `//` and `/./` -/

theorem collapseSlashes_noSS : ∀ b : Bytes, ¬ SS <:+: collapseSlashes b
  | [] => by intro h; have := h.length_le; simp [collapseSlashes] at this
  | [_] => by intro h; have := h.length_le; simp [collapseSlashes] at this
  | c :: d :: t => by
    simp only [collapseSlashes]
    split
    · exact collapseSlashes_noSS (d :: t)
    · rename_i hm
      intro hi
      rcases List.infix_cons_iff.mp hi with hp | hi'
      · have hh := collapseSlashes_head (d :: t)
        cases hx : collapseSlashes (d :: t) with
        | nil => rw [hx] at hp; have := hp.length_le; simp at this
        | cons x xs =>
          rw [hx] at hp hh
          simp only [List.cons_prefix_cons] at hp
          simp only [List.head?_cons, Option.some.injEq] at hh
          exact hm ⟨hp.1.symm, by rw [← hh]; exact hp.2.1.symm⟩
      · exact collapseSlashes_noSS (d :: t) hi'

theorem cutDotSlash_noSS : ∀ b : Bytes, ¬ SS <:+: b → ¬ SS <:+: cutDotSlash b
  | [], h => by simpa [cutDotSlash] using h
  | [_], h => by simpa [cutDotSlash] using h
  | [_, _], h => by simpa [cutDotSlash] using h
  | c :: d :: e :: t, h => by
    simp only [cutDotSlash]
    have hsuf2 : ¬ SS <:+: d :: e :: t := fun hi => h (List.infix_cons hi)
    split
    · exact cutDotSlash_noSS (e :: t) (fun hi => hsuf2 (List.infix_cons hi))
    · intro hi
      rcases List.infix_cons_iff.mp hi with hp | hi'
      · have hh := cutDotSlash_head (d :: e :: t)
        cases hx : cutDotSlash (d :: e :: t) with
        | nil => rw [hx] at hp; have := hp.length_le; simp at this
        | cons x xs =>
          rw [hx] at hp hh
          simp only [List.cons_prefix_cons] at hp
          simp only [List.head?_cons, Option.some.injEq] at hh
          apply h
          refine ⟨[], e :: t, ?_⟩
          simp [← hp.1, ← hh, ← hp.2.1]
      · exact cutDotSlash_noSS (d :: e :: t) hsuf2 hi'

theorem cutDotSlash_second : ∀ (d e : UInt8) (t : Bytes), d ≠ 47 →
    ∃ xs, cutDotSlash (d :: e :: t) = d :: xs ∧ xs.head? = some e
  | d, e, [], _ => ⟨[e], rfl, rfl⟩
  | d, e, f :: t', hd => by
    refine ⟨cutDotSlash (e :: f :: t'), ?_, ?_⟩
    · simp [cutDotSlash, hd]
    · rw [cutDotSlash_head]; rfl

theorem cutDotSlash_noSDS : ∀ b : Bytes, ¬ SDS <:+: cutDotSlash b
  | [] => by intro h; have := h.length_le; simp [cutDotSlash] at this
  | [_] => by intro h; have := h.length_le; simp [cutDotSlash] at this
  | [_, _] => by intro h; have := h.length_le; simp [cutDotSlash] at this
  | c :: d :: e :: t => by
    simp only [cutDotSlash]
    split
    · exact cutDotSlash_noSDS (e :: t)
    · rename_i hm
      intro hi
      rcases List.infix_cons_iff.mp hi with hp | hi'
      · by_cases hd : d = 47
        · -- then the kept text starts with `c, 47`, which cannot begin `/./`
          have hh := cutDotSlash_head (d :: e :: t)
          cases hx : cutDotSlash (d :: e :: t) with
          | nil => rw [hx] at hp; have := hp.length_le; simp at this
          | cons x xs =>
            rw [hx] at hp hh
            simp only [List.cons_prefix_cons] at hp
            simp only [List.head?_cons, Option.some.injEq] at hh
            rw [hh, hd] at hp
            exact absurd hp.2.1 (by decide)
        · obtain ⟨xs, e1, e2⟩ := cutDotSlash_second d e t hd
          rw [e1] at hp
          cases xs with
          | nil => have := hp.length_le; simp at this
          | cons y ys =>
            simp only [List.cons_prefix_cons] at hp
            simp only [List.head?_cons, Option.some.injEq] at e2
            exact hm ⟨hp.1.symm, hp.2.1.symm, by rw [← e2]; exact hp.2.2.1.symm⟩
      · exact cutDotSlash_noSDS (d :: e :: t) hi'

theorem mid_unique : ∀ (mid a c : Bytes), 47 ∉ mid → mid ++ [47] = a ++ 47 :: c → c = [] ∧ a = mid
  | [], a, c, _, h => by
    cases a with
    | nil => simp at h; exact ⟨h, rfl⟩
    | cons x xs =>
      simp at h
  | m :: ms, a, c, hm, h => by
    cases a with
    | nil => simp at h; exact absurd h.1 (by intro e; apply hm; simp [e])
    | cons x xs =>
      simp only [List.cons_append, List.cons.injEq] at h
      obtain ⟨e1, e2⟩ := mid_unique ms xs c (fun hh => hm (by simp [hh])) h.2
      exact ⟨e1, by rw [e2, h.1]⟩

/-- An occurrence of `/ mid /` (`mid` slash-free) in `P ++ '/' :: T` lies in `P ++ "/"` or in `'/' :: T`. -/
theorem junction (mid P T : Bytes) (hmid : 47 ∉ mid)
    (h : (47 :: mid ++ [47]) <:+: P ++ 47 :: T) :
    (47 :: mid ++ [47]) <:+: P ++ [47] ∨ (47 :: mid ++ [47]) <:+: 47 :: T := by
  rcases List.infix_append_iff.mp h with h1 | h2 | ⟨l₁, l₂, e, hs, hp⟩
  · left; exact List.infix_append_of_infix_left h1
  · right; exact h2
  · cases l₂ with
    | nil =>
      left
      simp only [List.append_nil] at e
      rw [e]
      exact List.infix_append_of_infix_left hs.isInfix
    | cons y ys =>
      simp only [List.cons_prefix_cons] at hp
      obtain ⟨hy, hys⟩ := hp
      subst hy
      cases l₁ with
      | nil =>
        right
        simp only [List.nil_append] at e
        rw [e]
        exact ((List.cons_prefix_cons).mpr ⟨rfl, hys⟩).isInfix
      | cons x xs =>
        left
        simp only [List.cons_append, List.cons.injEq] at e
        obtain ⟨e0, e1⟩ := e
        obtain ⟨hc, ha⟩ := mid_unique mid xs ys hmid e1
        subst hc
        have : (47 :: mid ++ [47]) = (x :: xs) ++ [47] := by simp [e0, ha]
        rw [this]
        obtain ⟨t, ht⟩ := hs
        exact ⟨t, [], by simp [← ht]⟩

theorem stepDDS_noPat (mid : Bytes) (hmid : 47 ∉ mid) {b b' : Bytes} (hb : b.head? = some 47)
    (h : stepDDS b = some b') (hno : ¬ (47 :: mid ++ [47]) <:+: b) : ¬ (47 :: mid ++ [47]) <:+: b' := by
  obtain ⟨P, r', e, hp, hs⟩ := stepDDS_shape hb h
  subst e
  intro hi
  rcases junction mid P r' hmid hi with h1 | h2
  · exact hno (h1.trans hp.isInfix)
  · exact hno (h2.trans hs.isInfix)

theorem loopDDS_noPat (mid : Bytes) (hmid : 47 ∉ mid) (fuel : Nat) (b : Bytes) (hb : b.head? = some 47)
    (hno : ¬ (47 :: mid ++ [47]) <:+: b) : ¬ (47 :: mid ++ [47]) <:+: loopDDS fuel b := by
  induction fuel generalizing b with
  | zero => simpa [loopDDS] using hno
  | succ f ih =>
    unfold loopDDS
    cases hs : stepDDS b with
    | none => simpa using hno
    | some b' => exact ih b' (stepDDS_head hb hs) (stepDDS_noPat mid hmid hb hs hno)

/-- All five byte-level containment facts about `normalizePath`, for every input. -/
theorem normalizePath_contained (src : Bytes) :
    (normalizePath src).head? = some 47 ∧ ¬ SS <:+: normalizePath src ∧ ¬ SDS <:+: normalizePath src ∧
      ¬ DDS <:+: normalizePath src ∧ ¬ SDD <:+ normalizePath src := by
  unfold normalizePath
  simp only
  generalize hb0 : cutDotSlash (collapseSlashes (slashDecode src)) = b0
  have h0 : b0.head? = some 47 := by
    rw [← hb0, cutDotSlash_head, collapseSlashes_head, slashDecode_head]
  have hss0 : ¬ SS <:+: b0 := by rw [← hb0]; exact cutDotSlash_noSS _ (collapseSlashes_noSS _)
  have hsds0 : ¬ SDS <:+: b0 := by rw [← hb0]; exact cutDotSlash_noSDS _
  generalize hb1 : loopDDS b0.length b0 = b1
  have h1 : b1.head? = some 47 := by rw [← hb1]; exact loopDDS_head _ _ h0
  have hss1 : ¬ SS <:+: b1 := by rw [← hb1]; exact loopDDS_noPat [] (by simp) _ _ h0 hss0
  have hsds1 : ¬ SDS <:+: b1 := by rw [← hb1]; exact loopDDS_noPat [46] (by decide) _ _ h0 hsds0
  have hdds1 : ¬ DDS <:+: b1 := by rw [← hb1]; exact loopDDS_fuel _ _ (Nat.le_refl _)
  obtain ⟨hd, hsd⟩ := cutTrailingDD_spec b1 hdds1
  refine ⟨?_, ?_, ?_, hd, hsd⟩
  · rcases cutTrailingDD_prefix b1 h1 with e | ⟨hp, hne⟩
    · rw [e]; rfl
    · rw [head_of_prefix hp hne, h1]
  · rcases cutTrailingDD_prefix b1 h1 with e | ⟨hp, _⟩
    · rw [e]; intro hi; have := hi.length_le; simp at this
    · intro hi; exact hss1 (hi.trans hp.isInfix)
  · rcases cutTrailingDD_prefix b1 h1 with e | ⟨hp, _⟩
    · rw [e]; intro hi; have := hi.length_le; simp at this
    · intro hi; exact hsds1 (hi.trans hp.isInfix)

end Hertz
