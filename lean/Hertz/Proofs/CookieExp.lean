import Hertz.Model.CookieExp
import Hertz.Proofs.CookieRt
import Hertz.Proofs.HttpDate
/-!
Round trip of `Cookie.AppendBytes` / `Cookie.ParseBytes` WITH the `expires` attribute (`Model/CookieExp.lean`), built on the
segment lemmas of `Proofs/CookieRt.lean` and on `Proofs/HttpDate.lean`.

* `parseCookieE_appendCookieE`: for every valid cookie, `ParseBytes(AppendBytes(x)) = canonE x` - every attribute comes
  back; the expiry comes back as whole seconds, and not at all next to a positive max-age.
* `canonE_eq_iff`: `canonE x = x` iff the expiry has no sub-second part and is unset whenever max-age is positive.
-/
namespace Hertz.Uri
open Hertz Hertz.Gen.Str Hertz.HttpDate

/-! ### what the date text consists of -/

def dateByte (c : UInt8) : Bool := c != 59 && c != 61 && c != 34

theorem tab_bytes :
    (dayTab.all (fun e => dateByte e.1 && dateByte e.2.1 && dateByte e.2.2 && e.1 != 32) &&
     monthTab.all (fun e => dateByte e.1 && dateByte e.2.1 && dateByte e.2.2)) = true := by decide

theorem isDig_dateByte (c : UInt8) (h : isDig c = true) : dateByte c = true := by
  have : allBytes (fun c => !isDig c || dateByte c) = true := by decide +kernel
  have := allBytes_spec this c
  simpa [h] using this

/-- the formatted date passes through the cookie scanner unchanged: no `;`, and trimming / unquoting leave it alone -/
theorem date_plain (t : Int) (h1 : minSec ≤ t) (h2 : t < maxSec) :
    (∀ x ∈ formatHTTPDate t, x ≠ 59) ∧ decodeCookieArg (formatHTTPDate t) true = formatHTTPDate t := by
  obtain ⟨wa, wb, wc, d1, d2, ma, mb, mc, y1, y2, y3, y4, g1, g2, m1, m2, s1, s2, hf, hw, hm, hd⟩ := format_shape t h1 h2
  rw [hf]
  have T := tab_bytes
  rw [Bool.and_eq_true, List.all_eq_true, List.all_eq_true] at T
  have hw' := T.1 _ hw
  have hm' := T.2 _ hm
  simp only [Bool.and_eq_true] at hw' hm' hd
  obtain ⟨⟨⟨⟨⟨⟨⟨⟨⟨⟨⟨e1, e2⟩, e3⟩, e4⟩, e5⟩, e6⟩, e7⟩, e8⟩, e9⟩, e10⟩, e11⟩, e12⟩ := hd
  have f1 := isDig_dateByte _ e1; have f2 := isDig_dateByte _ e2; have f3 := isDig_dateByte _ e3
  have f4 := isDig_dateByte _ e4; have f5 := isDig_dateByte _ e5; have f6 := isDig_dateByte _ e6
  have f7 := isDig_dateByte _ e7; have f8 := isDig_dateByte _ e8; have f9 := isDig_dateByte _ e9
  have f10 := isDig_dateByte _ e10; have f11 := isDig_dateByte _ e11; have f12 := isDig_dateByte _ e12
  obtain ⟨⟨⟨w1, w2⟩, w3⟩, w4⟩ := hw'
  obtain ⟨⟨n1, n2⟩, n3⟩ := hm'
  simp only [dateByte, Bool.and_eq_true, bne_iff_ne, ne_eq] at f1 f2 f3 f4 f5 f6 f7 f8 f9 f10 f11 f12 w1 w2 w3 w4 n1 n2 n3
  constructor
  · intro x hx
    simp only [List.mem_cons, List.not_mem_nil, or_false] at hx
    rcases hx with h | h | h | h | h | h | h | h | h | h | h | h | h | h | h | h | h | h | h | h | h | h | h | h | h | h | h | h | h <;>
      subst h <;> first | decide | simp_all
  · simp [decodeCookieArg, trimSp, w4]


/-! ### shape of `appendCookieE` -/

/-- the expiry that `AppendBytes` writes has a four-digit year (or nothing is written) -/
def expireWritable (x : CookieE) : Bool :=
  decide (x.c.maxAge > 0) || x.expire.isZero || (decide (minSec ≤ x.expire.sec) && decide (x.expire.sec < maxSec))

def wfCookieE (x : CookieE) : Bool := wfCookie x.c && expireWritable x

def segExpire (x : CookieE) : List Bytes :=
  if x.c.maxAge > 0 then [] else if !x.expire.isZero then [32 :: strCookieExpires ++ 61 :: formatHTTPDate x.expire.sec] else []

def restSegs (c : Cookie) : List Bytes :=
  segDomain c ++ (segPath c ++ (segHttpOnly c ++ (segSecure c ++ (segSameSite c ++ segPartitioned c))))

def attrSegsE (x : CookieE) : List Bytes := segMaxAge x.c ++ (segExpire x ++ restSegs x.c)

theorem semi_maxAge_expire (x : CookieE) : semi (segMaxAge x.c) ++ semi (segExpire x) =
    (if x.c.maxAge > 0 then [59, 32] ++ strCookieMaxAge ++ [61] ++ appendUintDec x.c.maxAge
     else if !x.expire.isZero then [59, 32] ++ strCookieExpires ++ [61] ++ formatHTTPDate x.expire.sec else []) := by
  unfold semi segMaxAge segExpire
  split
  · simp
  · split <;> simp

theorem appendCookieE_eq (x : CookieE) : appendCookieE x = firstSeg x.c ++ semi (attrSegsE x) := by
  unfold appendCookieE attrSegsE restSegs firstSeg
  simp only [semi_append]
  rw [← List.append_assoc (semi (segMaxAge x.c)), semi_maxAge_expire, semi_domain, semi_path, semi_httpOnly, semi_secure,
    semi_sameSite, semi_partitioned]
  simp only [List.append_assoc]
  rfl

/-- without an expiry the extended serialiser is the one of `Model/Uri.lean` -/
theorem appendCookieE_noExpire (c : Cookie) : appendCookieE { c := c } = appendCookie c := by
  rw [appendCookieE_eq, appendCookie_eq]
  have : segExpire { c := c } = [] := by
    unfold segExpire
    split
    · rfl
    · rfl
  simp only [attrSegsE, attrSegs, restSegs, this, List.nil_append]

/-! ### the fold -/

def attrStepE (x : CookieE) (seg : Bytes) : Option CookieE := applyAttrE x (cookieKV seg)

/-- a segment whose key is not `expires` is handled as before, on the other nine fields -/
theorem attrStepE_other (x : CookieE) (seg : Bytes) (h : isExpiresKey (cookieKV seg).1 = false) :
    attrStepE x seg = (attrStep x.c seg).map (fun c => { x with c := c }) := by
  unfold attrStepE applyAttrE attrStep
  rw [h]
  rfl

theorem fold_other (l : List Bytes) : ∀ (x : CookieE), (∀ seg ∈ l, isExpiresKey (cookieKV seg).1 = false) →
    l.foldlM attrStepE x = (l.foldlM attrStep x.c).map (fun c => { x with c := c }) := by
  induction l with
  | nil => intro x _; rfl
  | cons s r ih =>
    intro x h
    simp only [List.foldlM_cons]
    rw [attrStepE_other x s (h s (by simp))]
    cases hh : attrStep x.c s with
    | none => rfl
    | some c' =>
      simp only [Option.map_some, Option.bind_eq_bind, Option.bind_some]
      rw [ih _ (fun seg hs => h seg (by simp [hs]))]

theorem notExp_named (name v : Bytes) (h1 : ∀ x ∈ name, x ≠ 61 ∧ x ≠ 32) (hv : decodeCookieArg v true = v)
    (hn : isExpiresKey name = false) : isExpiresKey (cookieKV (32 :: name ++ 61 :: v)).1 = false := by
  rw [cookieKV_named name v h1 hv]
  exact hn

theorem notExp_maxAge (c : Cookie) : ∀ seg ∈ segMaxAge c, isExpiresKey (cookieKV seg).1 = false := by
  unfold segMaxAge
  split
  · intro s hs
    rw [List.mem_singleton] at hs
    subst hs
    exact notExp_named _ _ (by decide) (decodeCookieArg_uint _) (by decide)
  · intro s hs; cases hs

theorem notExp_rest (c : Cookie) (hd : plainArg c.domain = true) (hp : plainArg c.path = true) :
    ∀ seg ∈ restSegs c, isExpiresKey (cookieKV seg).1 = false := by
  intro s hs
  simp only [restSegs, List.mem_append] at hs
  rcases hs with hs | hs | hs | hs | hs | hs
  · unfold segDomain at hs
    split at hs
    · cases hs
    · rw [List.mem_singleton] at hs; subst hs
      exact notExp_named _ _ (by decide) (plainArg_spec _ hd).2 (by decide)
  · unfold segPath at hs
    split at hs
    · cases hs
    · rw [List.mem_singleton] at hs; subst hs
      exact notExp_named _ _ (by decide) (plainArg_spec _ hp).2 (by decide)
  · unfold segHttpOnly at hs
    split at hs
    · rw [List.mem_singleton] at hs; subst hs; rw [cookieKV_httpOnly]; rfl
    · cases hs
  · unfold segSecure at hs
    split at hs
    · rw [List.mem_singleton] at hs; subst hs; rw [cookieKV_secure]; rfl
    · cases hs
  · unfold segSameSite at hs
    split at hs
    · cases hs
    · rw [List.mem_singleton] at hs; subst hs; rw [cookieKV_sameSite]; rfl
    · rw [List.mem_singleton] at hs; subst hs; rw [cookieKV_lax]; decide
    · rw [List.mem_singleton] at hs; subst hs; rw [cookieKV_strict]; decide
    · rw [List.mem_singleton] at hs; subst hs; rw [cookieKV_none']; decide
  · unfold segPartitioned at hs
    split at hs
    · rw [List.mem_singleton] at hs; subst hs; rw [cookieKV_partitioned]; rfl
    · cases hs

theorem rest_fold (c a : Cookie) (hd : plainArg c.domain = true) (hp : plainArg c.path = true)
    (ha : a = { key := c.key, value := c.value, maxAge := c.maxAge }) :
    (restSegs c).foldlM attrStep a = some c := by
  subst ha
  unfold restSegs
  rw [List.foldlM_append, step_domain c _ hd rfl, Option.bind_eq_bind, Option.bind_some,
    List.foldlM_append, step_path c _ hp rfl, Option.bind_eq_bind, Option.bind_some,
    List.foldlM_append, step_httpOnly c _ rfl, Option.bind_eq_bind, Option.bind_some,
    List.foldlM_append, step_secure c _ rfl, Option.bind_eq_bind, Option.bind_some,
    List.foldlM_append, step_sameSite c _ rfl, Option.bind_eq_bind, Option.bind_some,
    step_partitioned c _ rfl]

set_option maxRecDepth 100000 in
theorem isExpiresKey_expires : isExpiresKey strCookieExpires = true := by decide +kernel

theorem expireWritable_range (x : CookieE) (hw : expireWritable x = true) (h0 : ¬ x.c.maxAge > 0)
    (hnz : x.expire.isZero = false) : minSec ≤ x.expire.sec ∧ x.expire.sec < maxSec := by
  simp only [expireWritable, Bool.or_eq_true, decide_eq_true_eq, Bool.and_eq_true, hnz, Bool.false_eq_true, or_false] at hw
  rcases hw with hw | hw
  · exact absurd hw h0
  · exact hw

theorem step_expire (x a : CookieE) (hw : expireWritable x = true) (ha : a.expire = zeroInstant) :
    (segExpire x).foldlM attrStepE a = some { a with expire := (canonE x).expire } := by
  unfold segExpire canonE
  split
  · rename_i h0
    simp only [h0, if_true, List.foldlM_nil]
    rw [← ha]
    rfl
  · rename_i h0
    simp only [h0, if_false]
    split
    · rename_i hz
      have hnz : x.expire.isZero = false := by simpa using hz
      have hr := expireWritable_range x hw h0 hnz
      have hp := date_plain x.expire.sec hr.1 hr.2
      simp only [List.foldlM_cons, List.foldlM_nil, attrStepE]
      rw [cookieKV_named _ _ (by decide) hp.2]
      unfold applyAttrE
      simp only [isExpiresKey_expires, if_true, parseCookieDate_format _ hr.1 hr.2, Option.map_some]
      rfl
    · rename_i hz
      have hz' : x.expire.isZero = true := by simpa using hz
      have : x.expire = zeroInstant := by simpa [Instant.isZero] using hz'
      simp only [List.foldlM_nil]
      have e : (⟨x.expire.sec, 0⟩ : Instant) = a.expire := by rw [this, ha]; rfl
      rw [e]
      rfl

theorem good_expire (x : CookieE) (hw : expireWritable x = true) : ∀ s ∈ segExpire x, GoodSeg s := by
  unfold segExpire
  split
  · intro s hs; cases hs
  · rename_i h0
    split
    · rename_i hz
      have hnz : x.expire.isZero = false := by simpa using hz
      have hr := expireWritable_range x hw h0 hnz
      intro s hs
      rw [List.mem_singleton] at hs
      subst hs
      exact goodSeg_named _ _ (by decide) (date_plain _ hr.1 hr.2).1
    · intro s hs; cases hs

theorem good_attrSegsE (x : CookieE) (hd : plainArg x.c.domain = true) (hp : plainArg x.c.path = true)
    (hw : expireWritable x = true) : ∀ s ∈ attrSegsE x, GoodSeg s := by
  intro s hs
  simp only [attrSegsE, restSegs, List.mem_append] at hs
  rcases hs with hs | hs | hs | hs | hs | hs | hs | hs
  · exact good_maxAge x.c s hs
  · exact good_expire x hw s hs
  · exact good_domain x.c hd s hs
  · exact good_path x.c hp s hs
  · exact good_httpOnly x.c s hs
  · exact good_secure x.c s hs
  · exact good_sameSite x.c s hs
  · exact good_partitioned x.c s hs

theorem attrsE_fold (x : CookieE) (hd : plainArg x.c.domain = true) (hp : plainArg x.c.path = true)
    (hm : x.c.maxAge < 2 ^ 63) (hw : expireWritable x = true) :
    (attrSegsE x).foldlM attrStepE { c := { key := x.c.key, value := x.c.value } } = some (canonE x) := by
  unfold attrSegsE
  rw [List.foldlM_append, fold_other _ _ (notExp_maxAge x.c), step_maxAge x.c _ hm rfl]
  simp only [Option.map_some, Option.bind_eq_bind, Option.bind_some]
  rw [List.foldlM_append, step_expire x _ hw rfl]
  simp only [Option.bind_eq_bind, Option.bind_some]
  rw [fold_other _ _ (notExp_rest x.c hd hp), rest_fold x.c _ hd hp rfl]
  rfl

/-- The round trip with all ten attributes: `ParseBytes(AppendBytes(x))` is the canonical form of `x`. -/
theorem parseCookieE_appendCookieE (x : CookieE) (h : wfCookieE x = true) (hne : appendCookieE x ≠ []) :
    parseCookieE (appendCookieE x) = some (canonE x) := by
  simp only [wfCookieE, Bool.and_eq_true] at h
  obtain ⟨hk61, hk59, hkd, hv, hd, hp, hv61, hm⟩ := wfCookie_spec x.c h.1
  have hseg : cookieSegs (appendCookieE x) = firstSeg x.c :: attrSegsE x := by
    rw [appendCookieE_eq]
    apply cookieSegs_join _ _ (firstSeg_no_semi x.c hk59 (plainArg_spec _ hv).1) (good_attrSegsE x hd hp h.2)
    intro he hf
    rw [appendCookieE_eq, he, hf] at hne
    exact hne rfl
  unfold parseCookieE
  rw [hseg]
  simp only [cookieKV_firstSeg x.c hk61 hkd (plainArg_spec _ hv).2 hv61]
  exact attrsE_fold x hd hp hm h.2

/-! ### canonical form -/

theorem canonE_idem (x : CookieE) : canonE (canonE x) = canonE x := by
  unfold canonE
  by_cases h : x.c.maxAge > 0 <;> simp [h]

/-- nothing is lost iff the expiry has whole seconds and is unset next to a positive max-age -/
theorem canonE_eq_iff (x : CookieE) :
    canonE x = x ↔ x.expire.nsec = 0 ∧ (x.c.maxAge > 0 → x.expire = zeroInstant) := by
  obtain ⟨c, ⟨s, n⟩⟩ := x
  unfold canonE
  by_cases h : c.maxAge > 0
  · simp only [h, if_true, CookieE.mk.injEq, true_and, forall_const]
    constructor
    · intro e
      unfold zeroInstant at e ⊢
      injection e with e1 e2
      subst e1 e2
      exact ⟨rfl, rfl⟩
    · intro e; exact e.2.symm
  · simp only [h, if_false, CookieE.mk.injEq, true_and, Instant.mk.injEq, false_imp_iff, and_true]
    constructor
    · intro e; exact e.symm
    · intro e; exact e.symm

/-- "something is written" in readable form -/
def cookieNonEmptyE (x : CookieE) : Bool := cookieNonEmpty x.c || (x.c.maxAge == 0 && !x.expire.isZero)

theorem segExpire_eq_nil (x : CookieE) : segExpire x = [] ↔ (x.c.maxAge == 0 && !x.expire.isZero) = false := by
  unfold segExpire
  by_cases h : x.c.maxAge > 0
  · have : x.c.maxAge ≠ 0 := by omega
    simp [h, this]
  · have : x.c.maxAge = 0 := by omega
    simp [this]

theorem appendCookieE_eq_nil_iff (x : CookieE) : appendCookieE x = [] ↔ cookieNonEmptyE x = false := by
  rw [appendCookieE_eq]
  simp only [List.append_eq_nil_iff, semi_eq_nil, attrSegsE, restSegs, firstSeg_eq_nil, segMaxAge_eq_nil, segDomain_eq_nil,
    segPath_eq_nil, segHttpOnly_eq_nil, segSecure_eq_nil, segSameSite_eq_nil, segPartitioned_eq_nil, segExpire_eq_nil,
    cookieNonEmptyE, cookieNonEmpty, Bool.or_eq_false_iff, Bool.not_eq_false', and_assoc]
  constructor
  · intro h; simp [h]
  · intro h; simp [h]

theorem parseCookieE_appendCookieE' (x : CookieE) (h : wfCookieE x = true) (hne : cookieNonEmptyE x = true) :
    parseCookieE (appendCookieE x) = some (canonE x) :=
  parseCookieE_appendCookieE x h (fun he => by rw [(appendCookieE_eq_nil_iff x).mp he] at hne; cases hne)

end Hertz.Uri
