import Hertz.Proofs.Http1
import Hertz.Proofs.RespMessage
import Hertz.Model.Http1.ErrResp
/-!
C03: every error response the loop model emits is, on the wire, exactly one well-formed 4xx message carrying
`Connection: close` under the strict response decoder `Spec/Resp` (consequence of `serve_clean` and C04's
`message_decodes`).
-/
namespace Hertz.H1
open Hertz Hertz.Gen.Str Hertz.HW Hertz.H1.Resp Hertz.Spec.Resp

/-- in a clean trace every response that is not a handler's 200 is a closing 400/413/408 -/
theorem cleanTrace_err (l : List Ev) : cleanTrace l = true → ∀ st c, Ev.resp st c ∈ l → st ≠ 200 →
    c = true ∧ (st = 400 ∨ st = 413 ∨ st = 408) := by
  fun_induction cleanTrace l <;> intro h st c hm hne <;> simp_all <;> (cases c <;> simp_all)
  · rename_i ih; exact hne ((ih st).1 hm)
  · rename_i ih; exact hne ((ih st).1 hm)
  · rename_i s' st' c' t' ih
    cases c'
    · simp at h; exact hne ((ih h.2 st).1 hm)
    · simp at h; rw [h.2] at hm; simp at hm
  · rename_i s' st' c' t' ih
    cases c'
    · simp at h; exact (ih h.2 st).2 hm hne
    · simp at h; rw [h.2] at hm; simp at hm
  · omega

theorem errHdr_ok (st : Nat) (server : Bytes) (date : Option Bytes) (h : st = 400 ∨ st = 413 ∨ st = 408) :
    HeadOK (errHdr st server date) st := by
  refine ⟨by omega, by omega, ⟨errReason st, ?_, rfl⟩, rfl, by intro kv hkv; simp [errHdr] at hkv⟩
  rcases h with h | h | h <;> subst h <;> intro x hx <;> revert x <;> decide

theorem fields_close (r : RespHdr) (h : r.connClose = true) : ∃ X, r.fields = X ++ [(strConnection, strClose)] := by
  unfold RespHdr.fields
  simp only [h, ↓reduceIte]
  exact ⟨_, rfl⟩

theorem withFraming_close (r : RespHdr) (f : H1.Resp.Framing) : (withFraming r f).connClose = r.connClose := by
  cases f <;> rfl

theorem kept_close (X : List (Bytes × Bytes)) : (strConnection, strClose) ∈ kept (X ++ [(strConnection, strClose)]) := by
  unfold kept
  rw [List.filter_append, List.map_append]
  apply List.mem_append_right
  decide +kernel

/-- the error response is read back by the strict decoder as exactly one message: the status, `Connection: close`
among its fields, the error text as body, and whatever follows on the wire untouched -/
theorem errorResponse_decodes (st : Nat) (server : Bytes) (date : Option Bytes) (rest : Bytes)
    (h : st = 400 ∨ st = 413 ∨ st = 408) :
    ∃ m, decodeOne false (errorResponse st server date ++ rest) = some (m, rest) ∧ m.status = st ∧
      (strConnection, strClose) ∈ m.fields ∧ m.body = errMsg st := by
  have hd : decodeOne false (errorResponse st server date ++ rest) =
      some (expected (errHdr st server date) (errProg st) false, rest) := by
    unfold errorResponse
    refine message_decodes _ _ false rest (errHdr_ok st server date h) ?_ ?_ ?_
    · rcases h with h | h | h <;> subst h <;> simp only [SizesFit, errProg] <;> decide
    · intro s hs; simp [errProg] at hs
    · rcases h with h | h | h <;> subst h <;> rfl
  refine ⟨_, hd, rfl, ?_, ?_⟩
  · show (strConnection, strClose) ∈ kept (withFraming (errHdr st server date) (frame (errProg st) false).framing).fields
    obtain ⟨X, hX⟩ := fields_close (withFraming (errHdr st server date) (frame (errProg st) false).framing)
      (by rw [withFraming_close]; rfl)
    rw [hX]; exact kept_close X
  · rcases h with h | h | h <;> subst h <;> rfl

/-- every response event of the loop model that is not a handler's 200 -/
theorem serve_error_wellformed (cfg : Cfg) (e : End) (s : Bytes) (st : Nat) (c : Bool)
    (hm : Ev.resp st c ∈ serve cfg e s) (hne : st ≠ 200) (server : Bytes) (date : Option Bytes) (rest : Bytes) :
    c = true ∧ 400 ≤ st ∧ st < 500 ∧
    ∃ m, decodeOne false (errorResponse st server date ++ rest) = some (m, rest) ∧ m.status = st ∧
      (strConnection, strClose) ∈ m.fields ∧ m.body = errMsg st := by
  obtain ⟨hc, hst⟩ := cleanTrace_err _ (serve_clean cfg e s) st c hm hne
  exact ⟨hc, by omega, by omega, errorResponse_decodes st server date rest hst⟩

end Hertz.H1
