import Hertz.Model.Http1.StreamApi
import Hertz.Proofs.StreamChunked
/-!
Lemmas for C14 on handlers that consume the stream through the request API (`Model/Http1/StreamApi.lean`).
-/
namespace Hertz.H1.Stream
open Hertz Hertz.H1 Hertz.Gen.Str

/-- `streamBodyP` is `streamBody`, whatever the request references when the handler returns (d6f45a0) -/
theorem streamBodyP_eq (cfg : Cfg) (e : End) (hd : ReqHead) (s : Bytes) (p : Prog) :
    streamBodyP cfg e hd s p = streamBody cfg e hd s p.c := rfl

theorem streamBodyP_attached (cfg : Cfg) (e : End) (hd : ReqHead) (s : Bytes) (p : Prog) (_h : p.fin = .attached) :
    streamBodyP cfg e hd s p = streamBody cfg e hd s p.c := rfl

/-- fixed length, attached: the connection is closed or goes on right behind the `Content-Length` bytes -/
theorem fixed_after (cfg : Cfg) (e : End) (hd : ReqHead) (s : Bytes) (c : Consume) (r : ReqOut) (a : After)
    (hcl : 0 ≤ hd.cl) (h : streamBody cfg e hd s c = .ok (r, a)) :
    a = .closed ∨ a = .resync (s.drop hd.cl.toNat) := by
  unfold streamBody at h
  have h2 : ¬ hd.cl = -2 := by omega
  have h1 : ¬ hd.cl = -1 := by omega
  simp only [h2, h1, if_false] at h
  split at h
  · simp at h
  · simp only [Except.ok.injEq, Prod.mk.injEq] at h
    obtain ⟨_, ha⟩ := h
    split at ha
    · exact Or.inr ha.symm
    · exact Or.inl ha.symm

/-- the whole body is shorter than its encoding -/
theorem bodyOf_length_le : ∀ cs : List WChunk, (bodyOf cs).length ≤ (encChunks cs).length
  | [] => by simp [bodyOf, encChunks]
  | k :: cs => by
    have := bodyOf_length_le cs
    simp only [bodyOf, encChunks, List.length_append, List.length_cons]
    omega

theorem body_length_le (m : ChunkedMsg) (rest : Bytes) : m.body.length ≤ (m.bytes ++ rest).length := by
  have := bodyOf_length_le m.chunks
  simp only [ChunkedMsg.body, ChunkedMsg.bytes, List.length_append]
  omega

/-- a handler (or the library on its behalf) that was told end-of-stream on a well-formed chunked message with a
trailer section of field lines left the stream exactly behind the message -/
theorem eof_position (cfg : Cfg) (e : End) (names : List Bytes) (c : Consume) (m : ChunkedMsg) (hm : m.Wf)
    (ls : List Bytes) (hls : ∀ l ∈ ls, TrFieldOk l) (htr : m.trailer = encTrailer ls) (rest : Bytes) (fuel : Nat)
    (herr : (consumeChunked cfg e names c fuel { s := m.bytes ++ rest } []).1.err = false)
    (heof : (consumeChunked cfg e names c fuel { s := m.bytes ++ rest } []).1.eof = true) :
    (consumeChunked cfg e names c fuel { s := m.bytes ++ rest } []).2.s = rest := by
  obtain ⟨k, _, _, _, hcase⟩ := consume_msg cfg e names c m hm rest fuel
  generalize consumeChunked cfg e names c fuel { s := m.bytes ++ rest } [] = r at hcase herr heof ⊢
  rcases hcase with ⟨he, _⟩ | ⟨_, hf, _⟩ | ⟨_, _, _, _, hdone⟩
  · rw [herr] at he; cases he
  · rw [heof] at hf; cases hf
  · unfold TrailerDone at hdone
    cases hrt : readTrailerReq cfg e names (m.trailer ++ rest) with
    | error x => simp [hrt] at hdone
    | ok v =>
      obtain ⟨o, r'⟩ := v
      have hx := readTrailerReq_lines cfg e names ls rest hls
      rw [← htr] at hx
      obtain ⟨ho, hr'⟩ := hx o r' hrt
      cases o with
      | none => simp at ho
      | some t =>
        simp only [hrt] at hdone
        rw [hdone.1, hr']

/-- the keep-alive loop with per-request programs goes on with exactly what `After` names -/
theorem streamLoopP_after (cfg : Cfg) (e : End) (prog : ReqHead → Bytes → Prog) (fuel : Nat) (first : Bool) (s : Bytes)
    (hd : ReqHead) (n : Nat) (r : ReqOut) (a : After)
    (hgo : (!first && decide (s.length < 4)) = false) (hp : parseReqHead cfg.disableNorm s = .ok (hd, n))
    (hb : streamBodyP cfg e hd (s.drop n) (prog hd (s.drop n)) = .ok (r, a))
    (hk : (cfg.disableKeepalive || r.head.connClose) = false) :
    streamLoopP cfg e prog (fuel + 1) first s =
      (if mayContinue hd then [PEv.continue100] else []) ++
        [.req r (if r.streamed then (prog hd (s.drop n)).fin else .attached), .resp 200 false] ++
        match a with
        | .resync rest => streamLoopP cfg e prog fuel false rest
        | .closed => []
        | .either rest => .maybeClosed :: streamLoopP cfg e prog fuel false rest := by
  simp only [streamLoopP, hgo, hp, hb, hk, Bool.false_eq_true, if_false]
  cases a <;> rfl

/-- with programs that leave the stream attached the extended loop is the loop of the earlier theorems -/
theorem streamLoopP_attached (cfg : Cfg) (e : End) (c : Consume) : ∀ (fuel : Nat) (first : Bool) (s : Bytes),
    (streamLoopP cfg e (fun _ _ => ⟨c, .attached⟩) fuel first s).map PEv.toSEv = streamLoop cfg e c fuel first s
  | 0, _, _ => rfl
  | fuel + 1, first, s => by
    have ih := streamLoopP_attached cfg e c fuel
    simp only [streamLoopP, streamLoop]
    by_cases hgo : (!first && decide (s.length < 4)) = true
    · simp [hgo]
    · simp only [hgo, if_false, Bool.false_eq_true]
      cases hp : parseReqHead cfg.disableNorm s with
      | error x =>
        cases x <;> simp only [] <;> (try split) <;> cases e <;> rfl
      | ok v =>
        obtain ⟨hd, n⟩ := v
        simp only []
        rw [streamBodyP_attached _ _ _ _ _ rfl]
        cases hb : streamBody cfg e hd (List.drop n s) c with
        | error x =>
          simp only [List.map_append]
          cases errStatus x <;> (by_cases hc : mayContinue hd = true <;> simp [hc, PEv.toSEv])
        | ok v =>
          obtain ⟨r, a⟩ := v
          simp only [List.map_append, List.map_cons, List.map_nil, PEv.toSEv]
          by_cases hc : mayContinue hd = true <;>
            by_cases hk : (cfg.disableKeepalive || r.head.connClose) = true <;>
              simp only [hc, hk, if_true, if_false, List.map_cons, List.map_nil, PEv.toSEv, Bool.false_eq_true] <;>
              (try rfl) <;> (cases a <;> simp [PEv.toSEv, ih])

end Hertz.H1.Stream
