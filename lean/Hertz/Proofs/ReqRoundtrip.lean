import Hertz.Proofs.Http1
import Hertz.Spec.Http
import Hertz.Proofs.SpecHex
/-!
Round trip of the request reader (C01): the wire encoding of a well-formed request, followed by
arbitrary bytes, is read back by the model of `req.parse` / `ContinueReadBody` / `Server.Serve` as
exactly that request, consuming exactly the encoding.

The encoder and the well-formedness predicates are defined here (the strict decoder of
`Spec/Http.lean` is the independent reading of the same grammar; `Spec.Http.isToken`,
`isFieldVchar`, `lookupAll`, `parseDec`, `parseHex` are reused so that the hypotheses are the
conditions of that decoder).
-/
namespace Hertz.H1.RT
open Hertz Hertz.H1 Hertz.Gen.Str Hertz.Spec.Http

/-! ### encoder and well-formedness -/

/-- one field line `name ": " value CRLF` -/
def encField (kv : Bytes × Bytes) : Bytes := kv.1 ++ 58 :: 32 :: (kv.2 ++ [13, 10])

def encFields : List (Bytes × Bytes) → Bytes
  | [] => []
  | kv :: t => encField kv ++ encFields t

/-- request line, field lines, empty line -/
def encHead (m t : Bytes) (fs : List (Bytes × Bytes)) : Bytes :=
  m ++ 32 :: (t ++ 32 :: (strHTTP11 ++ 13 :: 10 :: (encFields fs ++ [13, 10])))

/-- neither end of the value is a blank (SP / HTAB) -/
def noBlankEnds (v : Bytes) : Bool :=
  (match v.head? with | some c => c != 32 && c != 9 | none => true) &&
  (match v.getLast? with | some c => c != 32 && c != 9 | none => true)

/-- field value: field-vchars (no CR, LF, NUL, other CTL), already OWS-trimmed -/
def wfValue (v : Bytes) : Bool := v.all isFieldVchar && noBlankEnds v
def wfField (kv : Bytes × Bytes) : Bool := isToken kv.1 && wfValue kv.2
/-- request target: non-empty, no SP / CTL / DEL -/
def wfTarget (t : Bytes) : Bool := !t.isEmpty && t.all (fun c => 33 ≤ c && c != 127)

/-! ### table facts -/

set_option maxRecDepth 100000 in
theorem tbl_tchar : allBytes (fun c => !isTchar c ||
    (c != 10 && c != 13 && c != 32 && c != 9 && c != 58 &&
     toUpper c != 32 && toUpper c != 9 && toLower c != 32 && toLower c != 9)) = true := by decide +kernel

set_option maxRecDepth 100000 in
theorem tbl_case_lower : allBytes (fun c => lowerSpec (toUpper c) == lowerSpec c && lowerSpec (toLower c) == lowerSpec c) = true := by
  decide +kernel

set_option maxRecDepth 100000 in
theorem tbl_vchar : allBytes (fun c => !isFieldVchar c ||
    (c != 10 && c != 13 && tget Gen.validHeaderFieldValueTable c != 0)) = true := by decide +kernel

set_option maxRecDepth 100000 in
theorem tbl_lower_eq : allBytes (fun c => Spec.Http.lower c == lowerSpec c) = true := by decide +kernel

set_option maxRecDepth 100000 in
theorem tbl_or20 : allBytes (fun c =>
    (lowerSpec c != 104 || (c ||| 0x20) == 104) && (lowerSpec c != 117 || (c ||| 0x20) == 117) &&
    (lowerSpec c != 99 || (c ||| 0x20) == 99) && (lowerSpec c != 116 || (c ||| 0x20) == 116)) = true := by decide +kernel

structure TcharFacts (c : UInt8) : Prop where
  ne10 : c ≠ 10
  ne13 : c ≠ 13
  ne32 : c ≠ 32
  ne9 : c ≠ 9
  ne58 : c ≠ 58
  up32 : toUpper c ≠ 32
  up9 : toUpper c ≠ 9
  lo32 : toLower c ≠ 32
  lo9 : toLower c ≠ 9

theorem tchar_facts (c : UInt8) (h : isTchar c = true) : TcharFacts c := by
  have := allBytes_spec tbl_tchar c
  simp [h] at this
  obtain ⟨⟨⟨⟨⟨⟨⟨⟨a, b⟩, c'⟩, d⟩, e⟩, f⟩, g⟩, i⟩, j⟩ := this
  exact ⟨a, b, c', d, e, f, g, i, j⟩

theorem vchar_facts (c : UInt8) (h : isFieldVchar c = true) :
    c ≠ 10 ∧ c ≠ 13 ∧ tget Gen.validHeaderFieldValueTable c ≠ 0 := by
  have := allBytes_spec tbl_vchar c
  simp [h] at this
  exact ⟨this.1.1, this.1.2, this.2⟩

theorem lower_eq (c : UInt8) : Spec.Http.lower c = lowerSpec c := by
  have := allBytes_spec tbl_lower_eq c
  simpa using this

theorem lowerAll_eq (b : Bytes) : lowerAll b = b.map lowerSpec := by
  simp [lowerAll, lower_eq]

/-! ### list helpers -/

theorem indexByte_skip (c : UInt8) : ∀ (l r : Bytes), (∀ x ∈ l, x ≠ c) →
    indexByte c (l ++ c :: r) = some l.length
  | [], r, _ => by simp [indexByte]
  | y :: t, r, h => by
    have hy : y ≠ c := h y (by simp)
    have ih := indexByte_skip c t r (fun x hx => h x (by simp [hx]))
    simp [indexByte, hy, ih]

theorem indexByte_skip' (c : UInt8) : ∀ (l r : Bytes) (n : Nat), (∀ x ∈ l, x ≠ c) →
    indexByte c r = some n → indexByte c (l ++ r) = some (l.length + n)
  | [], r, n, _, hr => by simpa using hr
  | y :: t, r, n, h, hr => by
    have hy : y ≠ c := h y (by simp)
    have ih := indexByte_skip' c t r n (fun x hx => h x (by simp [hx])) hr
    simp [indexByte, hy, ih]; omega

/-! ### the request line -/

theorem nextLine_crlf (line rest : Bytes) (h : ∀ x ∈ line, x ≠ 10) :
    nextLine (line ++ 13 :: 10 :: rest) = some (line, rest) := by
  have hi : indexByte 10 (line ++ 13 :: 10 :: rest) = some (line.length + 1) := by
    have := indexByte_skip 10 (line ++ [13]) rest (by
      intro x hx
      simp only [List.mem_append, List.mem_singleton] at hx
      rcases hx with hx | hx
      · exact h x hx
      · subst hx; decide)
    simpa using this
  unfold nextLine
  rw [hi]
  have e : line ++ 13 :: 10 :: rest = (line ++ [13]) ++ 10 :: rest := by simp
  have ht : List.take (line.length + 1) (line ++ 13 :: 10 :: rest) = line ++ [13] := by
    rw [e]; exact List.take_left' (by simp)
  have hd : List.drop (line.length + 1 + 1) (line ++ 13 :: 10 :: rest) = rest := by
    have e2 : line ++ 13 :: 10 :: rest = (line ++ [13, 10]) ++ rest := by simp
    rw [e2]; exact List.drop_left' (by simp)
  simp only [ht, hd]
  simp

theorem lastIndexByte_tail (t v : Bytes) (hv : ∀ x ∈ v, x ≠ 32) :
    lastIndexByte 32 (t ++ 32 :: v) = some t.length := by
  unfold lastIndexByte
  have e : (t ++ 32 :: v).reverse = v.reverse ++ 32 :: t.reverse := by simp
  rw [e, indexByte_skip 32 v.reverse t.reverse (fun x hx => hv x (by simpa using hx))]
  simp

theorem token_facts (k : Bytes) (h : isToken k = true) : k ≠ [] ∧ ∀ x ∈ k, TcharFacts x := by
  simp only [isToken, Bool.and_eq_true, Bool.not_eq_true', List.isEmpty_eq_false_iff, List.all_eq_true] at h
  exact ⟨h.1, fun x hx => tchar_facts x (h.2 x hx)⟩

theorem target_facts (t : Bytes) (h : wfTarget t = true) : t ≠ [] ∧ ∀ x ∈ t, x ≠ 10 ∧ x ≠ 32 := by
  simp only [wfTarget, Bool.and_eq_true, Bool.not_eq_true', List.isEmpty_eq_false_iff, List.all_eq_true] at h
  refine ⟨h.1, fun x hx => ?_⟩
  have := h.2 x hx
  simp at this
  constructor
  · intro h10; subst h10; exact absurd this.1 (by decide)
  · intro h32; subst h32; exact absurd this.1 (by decide)

/-- the request line of a well-formed request is read back exactly -/
theorem parseFirstLine_enc (m t tail : Bytes) (hm : isToken m = true) (ht : wfTarget t = true) :
    parseFirstLine (m ++ 32 :: (t ++ 32 :: (strHTTP11 ++ 13 :: 10 :: tail))) =
      .ok ({ method := m, uri := t, http11 := true }, m.length + 1 + t.length + 1 + 8 + 2) := by
  obtain ⟨hm0, hmf⟩ := token_facts m hm
  obtain ⟨ht0, htf⟩ := target_facts t ht
  have hline : ∀ x ∈ m ++ 32 :: (t ++ 32 :: strHTTP11), x ≠ 10 := by
    intro x hx
    simp only [List.mem_append, List.mem_cons] at hx
    rcases hx with hx | hx | hx | hx | hx
    · exact (hmf x hx).ne10
    · subst hx; decide
    · exact (htf x hx).1
    · subst hx; decide
    · revert hx; revert x; decide
  have e : m ++ 32 :: (t ++ 32 :: (strHTTP11 ++ 13 :: 10 :: tail)) =
      (m ++ 32 :: (t ++ 32 :: strHTTP11)) ++ 13 :: 10 :: tail := by simp
  have hnl := nextLine_crlf _ tail hline
  unfold parseFirstLine
  rw [e]
  simp only [parseFirstLineAux, hnl]
  have hne : List.isEmpty (m ++ 32 :: (t ++ 32 :: strHTTP11)) = false := by cases m <;> simp
  simp only [hne, Bool.false_eq_true, if_false, bind, Except.bind]
  have hi : indexByte 32 (m ++ 32 :: (t ++ 32 :: strHTTP11)) = some m.length :=
    indexByte_skip 32 m _ (fun x hx => (hmf x hx).ne32)
  have hli : lastIndexByte 32 (t ++ 32 :: strHTTP11) = some t.length :=
    lastIndexByte_tail t strHTTP11 (by decide)
  obtain ⟨a, m', rfl⟩ := List.exists_cons_of_ne_nil hm0
  obtain ⟨b, t', rfl⟩ := List.exists_cons_of_ne_nil ht0
  rw [hi]
  simp only [List.length_cons]
  have hd : List.drop (m'.length + 1 + 1) (a :: m' ++ 32 :: (b :: t' ++ 32 :: strHTTP11)) = b :: t' ++ 32 :: strHTTP11 := by
    have : a :: m' ++ 32 :: (b :: t' ++ 32 :: strHTTP11) = (a :: m' ++ [32]) ++ (b :: t' ++ 32 :: strHTTP11) := by simp
    rw [this]; exact List.drop_left' (by simp)
  have htk : List.take (m'.length + 1) (a :: m' ++ 32 :: (b :: t' ++ 32 :: strHTTP11)) = a :: m' :=
    List.take_left' (by simp)
  rw [hd, hli]
  simp only [List.length_cons, htk]
  have htk2 : List.take (t'.length + 1) (b :: t' ++ 32 :: strHTTP11) = b :: t' := List.take_left' (by simp)
  have hd2 : List.drop (t'.length + 1 + 1) (b :: t' ++ 32 :: strHTTP11) = strHTTP11 := by
    have : b :: t' ++ 32 :: strHTTP11 = (b :: t' ++ [32]) ++ strHTTP11 := by simp
    rw [this]; exact List.drop_left' (by simp)
  rw [htk2, hd2]
  simp [strHTTP11]
  omega

/-! ### the completeness pre-check (`ReadRawHeaders`) accepts an encoded field block -/

theorem rawHeadersAux_line : ∀ (line rest : Bytes) (l : Nat) (cr : Bool), (∀ x ∈ line, x ≠ 10) →
    l + line.length ≥ 2 →
    rawHeadersAux l cr (line ++ 10 :: rest) = (rawHeadersAux 0 false rest).map (· + (line.length + 1))
  | [], rest, l, cr, _, hl => by
    have h1 : ¬ (l = 0 ∨ l = 1 ∧ cr = true) := by simp at hl; omega
    simp [rawHeadersAux, h1]
  | c :: t, rest, l, cr, h, hl => by
    have hc : c ≠ 10 := h c (by simp)
    have ih := rawHeadersAux_line t rest (l + 1) (l == 0 && c == 13) (fun x hx => h x (by simp [hx]))
      (by simp at hl ⊢; omega)
    simp only [List.cons_append, rawHeadersAux, hc, if_false, ih, Option.map_map]
    congr 1

theorem wfValue_facts (v : Bytes) (h : wfValue v = true) :
    (∀ x ∈ v, x ≠ 10 ∧ x ≠ 13 ∧ tget Gen.validHeaderFieldValueTable x ≠ 0) ∧ noBlankEnds v = true := by
  simp only [wfValue, Bool.and_eq_true, List.all_eq_true] at h
  exact ⟨fun x hx => vchar_facts x (h.1 x hx), h.2⟩

theorem encField_line (kv : Bytes × Bytes) (tail : Bytes) :
    encField kv ++ tail = (kv.1 ++ 58 :: 32 :: (kv.2 ++ [13])) ++ 10 :: tail := by
  simp [encField]

theorem field_line_no_lf (kv : Bytes × Bytes) (h : wfField kv = true) :
    ∀ x ∈ kv.1 ++ 58 :: 32 :: (kv.2 ++ [13]), x ≠ 10 := by
  simp only [wfField, Bool.and_eq_true] at h
  obtain ⟨_, hk⟩ := token_facts kv.1 h.1
  obtain ⟨hv, _⟩ := wfValue_facts kv.2 h.2
  intro x hx
  simp only [List.mem_append, List.mem_cons, List.mem_singleton] at hx
  rcases hx with hx | hx | hx | hx | hx
  · exact (hk x hx).ne10
  · subst hx; decide
  · subst hx; decide
  · exact (hv x hx).1
  · cases hx with
    | inl h => subst h; decide
    | inr h => cases h

theorem rawHeaders_encFields : ∀ (fs : List (Bytes × Bytes)) (rest : Bytes), (∀ kv ∈ fs, wfField kv = true) →
    ∃ n, rawHeadersLen (encFields fs ++ 13 :: 10 :: rest) = some n
  | [], rest, _ => ⟨2, by simp [encFields, rawHeadersLen, rawHeadersAux]⟩
  | kv :: fs, rest, h => by
    obtain ⟨n, ih⟩ := rawHeaders_encFields fs rest (fun kv hkv => h kv (by simp [hkv]))
    refine ⟨n + ((kv.1 ++ 58 :: 32 :: (kv.2 ++ [13])).length + 1), ?_⟩
    have e : encFields (kv :: fs) ++ 13 :: 10 :: rest =
        (kv.1 ++ 58 :: 32 :: (kv.2 ++ [13])) ++ 10 :: (encFields fs ++ 13 :: 10 :: rest) := by
      simp [encFields, encField]
    unfold rawHeadersLen at ih ⊢
    rw [e, rawHeadersAux_line _ _ 0 false (field_line_no_lf kv (h kv (by simp))) (by simp; omega), ih]
    rfl

/-! ### `HeaderScanner.Next` on an encoded field line -/

theorem scanNext_cons (dn : Bool) (c : UInt8) (t : Bytes) (h13 : c ≠ 13) (h10 : c ≠ 10) :
    scanNext dn (c :: t) =
      match indexByte 10 (c :: t), indexByte 58 (c :: t) with
      | none, _ => .needMore
      | some _, none => .needMore
      | some x, some n =>
        if x < n then .invalidName else
        let key := normalizeKey dn ((c :: t).take n)
        let afterColon := (c :: t).drop (n + 1)
        let sp := (afterColon.takeWhile isOWS).length
        let B1 := afterColon.drop sp
        match indexByte 10 B1 with
        | none => .needMore
        | some n1 =>
          let extra := contExtra (B1.drop (n1 + 1))
          let nEnd := n1 + extra
          let region := trimValue (B1.take nEnd)
          let value := if extra > 0 then foldedValue region else region
          .kv key value (B1.drop (nEnd + 1)) (n + 1 + sp + nEnd + 1) := by
  unfold scanNext
  split
  · rename_i h; simp at h; exact absurd h.1 h13
  · rename_i h; simp at h; exact absurd h.1 h10
  · rfl


theorem dropWhile_id {p : UInt8 → Bool} : ∀ (l : Bytes), (∀ c, l.head? = some c → p c = false) → l.dropWhile p = l
  | [], _ => rfl
  | c :: t, h => by simp [List.dropWhile, h c rfl]

theorem noBlankEnds_facts (v : Bytes) (h : noBlankEnds v = true) :
    (∀ c, v.head? = some c → c ≠ 32 ∧ c ≠ 9) ∧ (∀ c, v.getLast? = some c → c ≠ 32 ∧ c ≠ 9) := by
  unfold noBlankEnds at h
  simp only [Bool.and_eq_true] at h
  constructor
  · intro c hc; rw [hc] at h; simpa using h.1
  · intro c hc; rw [hc] at h; simpa using h.2

theorem trimValue_cr (v : Bytes) (h : ∀ c, v.getLast? = some c → c ≠ 32 ∧ c ≠ 9) : trimValue (v ++ [13]) = v := by
  unfold trimValue
  simp only [List.getLast?_append, List.getLast?_singleton, Option.some_or, if_true, List.dropLast_concat]
  rw [dropWhile_id v.reverse (by
    intro c hc
    rw [List.head?_reverse] at hc
    have := h c hc
    simp [isOWS, this.1, this.2])]
  simp

theorem contExtra_of_head (rest : Bytes) (h : ∀ c, rest.head? = some c → c ≠ 32 ∧ c ≠ 9) : contExtra rest = 0 := by
  cases rest with
  | nil => rfl
  | cons c t =>
    have := h c rfl
    simp [contExtra, contAux, this.1, this.2]

theorem scanNext_field (dn : Bool) (k v rest : Bytes) (hk : isToken k = true) (hv : wfValue v = true)
    (hr : contExtra rest = 0) :
    scanNext dn (k ++ 58 :: 32 :: (v ++ 13 :: 10 :: rest)) =
      .kv (normalizeKey dn k) v rest (k.length + v.length + 4) := by
  obtain ⟨hk0, hkf⟩ := token_facts k hk
  obtain ⟨hvf, hvb⟩ := wfValue_facts v hv
  obtain ⟨hvh, hvl⟩ := noBlankEnds_facts v hvb
  obtain ⟨a, k', rfl⟩ := List.exists_cons_of_ne_nil hk0
  have ha := hkf a (by simp)
  -- positions
  have hB1 : indexByte 10 (v ++ 13 :: 10 :: rest) = some (v.length + 1) := by
    have := indexByte_skip 10 (v ++ [13]) rest (by
      intro x hx
      simp only [List.mem_append, List.mem_cons] at hx
      rcases hx with hx | hx | hx
      · exact (hvf x hx).1
      · subst hx; decide
      · cases hx)
    simpa using this
  have hi58 : indexByte 58 (a :: k' ++ 58 :: 32 :: (v ++ 13 :: 10 :: rest)) = some (a :: k').length :=
    indexByte_skip 58 (a :: k') _ (fun x hx => (hkf x hx).ne58)
  have hi10 : indexByte 10 (a :: k' ++ 58 :: 32 :: (v ++ 13 :: 10 :: rest)) = some ((a :: k').length + (2 + (v.length + 1))) := by
    have e : a :: k' ++ 58 :: 32 :: (v ++ 13 :: 10 :: rest) = (a :: k') ++ ([58, 32] ++ (v ++ 13 :: 10 :: rest)) := by simp
    rw [e]
    apply indexByte_skip' 10 (a :: k') _ _ (fun x hx => (hkf x hx).ne10)
    exact indexByte_skip' 10 [58, 32] _ _ (by decide) hB1
  have htake : List.take (a :: k').length (a :: k' ++ 58 :: 32 :: (v ++ 13 :: 10 :: rest)) = a :: k' :=
    List.take_left' rfl
  have hdrop : List.drop ((a :: k').length + 1) (a :: k' ++ 58 :: 32 :: (v ++ 13 :: 10 :: rest)) =
      32 :: (v ++ 13 :: 10 :: rest) := by
    have e : a :: k' ++ 58 :: 32 :: (v ++ 13 :: 10 :: rest) = (a :: k' ++ [58]) ++ 32 :: (v ++ 13 :: 10 :: rest) := by simp
    rw [e]; exact List.drop_left' (by simp)
  have htw : List.takeWhile isOWS (32 :: (v ++ 13 :: 10 :: rest)) = [32] := by
    cases v with
    | nil => simp [List.takeWhile, isOWS]
    | cons c t =>
      have := hvh c rfl
      simp [List.takeWhile, isOWS, this.1, this.2]
  have hB1take : List.take (v.length + 1 + 0) (v ++ 13 :: 10 :: rest) = v ++ [13] := by
    have e : v ++ 13 :: 10 :: rest = (v ++ [13]) ++ 10 :: rest := by simp
    rw [e]; exact List.take_left' (by simp)
  have hB1drop : List.drop (v.length + 1 + 0 + 1) (v ++ 13 :: 10 :: rest) = rest := by
    have e : v ++ 13 :: 10 :: rest = (v ++ [13, 10]) ++ rest := by simp
    rw [e]; exact List.drop_left' (by simp)
  have hB1drop' : List.drop (v.length + 1 + 1) (v ++ 13 :: 10 :: rest) = rest := hB1drop
  rw [List.cons_append, scanNext_cons dn a _ ha.ne13 ha.ne10]
  rw [← List.cons_append, hi10, hi58]
  have hlt : ¬ ((a :: k').length + (2 + (v.length + 1)) < (a :: k').length) := by omega
  simp only [hlt, if_false, htake, hdrop, htw, List.length_singleton, List.drop_one, List.tail_cons, hB1,
    hB1drop', hr, hB1take, hB1drop, Nat.lt_irrefl, trimValue_cr v (fun c hc => hvl c hc)]
  simp only [List.length_cons]
  congr 1
  omega

/-! ### classification of field names -/

def sHost : Bytes := [104, 111, 115, 116]
def sUserAgent : Bytes := [117, 115, 101, 114, 45, 97, 103, 101, 110, 116]
def sContentType : Bytes := [99, 111, 110, 116, 101, 110, 116, 45, 116, 121, 112, 101]
def sConnection : Bytes := [99, 111, 110, 110, 101, 99, 116, 105, 111, 110]
def sTrailer : Bytes := [116, 114, 97, 105, 108, 101, 114]

/-- the field names the request reader treats specially (compared ignoring ASCII case) -/
inductive Cls where
  | host | ua | ct | cl | conn | te | trailer | other
deriving DecidableEq, Repr

def cls (k : Bytes) : Cls :=
  if lowerAll k = sHost then .host
  else if lowerAll k = sUserAgent then .ua
  else if lowerAll k = sContentType then .ct
  else if lowerAll k = sContentLength then .cl
  else if lowerAll k = sConnection then .conn
  else if lowerAll k = sTransferEncoding then .te
  else if lowerAll k = sTrailer then .trailer
  else .other

theorem normKeyAux_lower : ∀ (up : Bool) (k : Bytes), (normKeyAux up k).map lowerSpec = k.map lowerSpec
  | _, [] => by simp [normKeyAux]
  | true, c :: t => by
    have := allBytes_spec tbl_case_lower c
    simp at this
    simp [normKeyAux, normKeyAux_lower false t, this.1]
  | false, c :: t => by
    have := allBytes_spec tbl_case_lower c
    simp at this
    by_cases h : c = 45
    · subst h; simp [normKeyAux, normKeyAux_lower true t]
    · simp [normKeyAux, h, normKeyAux_lower false t, this.2]

theorem normalizeKey_lower (dn : Bool) (k : Bytes) : lowerAll (normalizeKey dn k) = lowerAll k := by
  rw [lowerAll_eq, lowerAll_eq]
  unfold normalizeKey
  cases dn <;> simp [normKeyAux_lower]

theorem normKeyAux_length : ∀ (up : Bool) (k : Bytes), (normKeyAux up k).length = k.length
  | _, [] => by simp [normKeyAux]
  | true, c :: t => by simp [normKeyAux, normKeyAux_length false t]
  | false, c :: t => by
    by_cases h : c = 45
    · simp [normKeyAux, h, normKeyAux_length true t]
    · simp [normKeyAux, h, normKeyAux_length false t]

theorem normKeyAux_noblank : ∀ (up : Bool) (k : Bytes), (∀ x ∈ k, TcharFacts x) →
    ∀ x ∈ normKeyAux up k, x ≠ 32 ∧ x ≠ 9
  | _, [], _ => by simp [normKeyAux]
  | true, c :: t, h => by
    have hc := h c (by simp)
    have ih := normKeyAux_noblank false t (fun x hx => h x (by simp [hx]))
    intro x hx
    simp only [normKeyAux, List.mem_cons] at hx
    rcases hx with hx | hx
    · rw [hx]; exact ⟨hc.up32, hc.up9⟩
    · exact ih x hx
  | false, c :: t, h => by
    have hc := h c (by simp)
    intro x hx
    by_cases h45 : c = 45
    · simp only [normKeyAux, h45, if_true, List.mem_cons] at hx
      rcases hx with hx | hx
      · subst hx; decide
      · exact normKeyAux_noblank true t (fun x hx => h x (by simp [hx])) x hx
    · simp only [normKeyAux, h45, if_false, List.mem_cons] at hx
      rcases hx with hx | hx
      · rw [hx]; exact ⟨hc.lo32, hc.lo9⟩
      · exact normKeyAux_noblank false t (fun x hx => h x (by simp [hx])) x hx

theorem normalizeKey_facts (dn : Bool) (k : Bytes) (hk : isToken k = true) :
    normalizeKey dn k ≠ [] ∧ (normalizeKey dn k).contains 32 = false ∧ (normalizeKey dn k).contains 9 = false := by
  obtain ⟨hk0, hkf⟩ := token_facts k hk
  have hnb : ∀ x ∈ normalizeKey dn k, x ≠ 32 ∧ x ≠ 9 := by
    unfold normalizeKey
    cases dn
    · simpa using normKeyAux_noblank true k hkf
    · intro x hx; simp at hx; exact ⟨(hkf x hx).ne32, (hkf x hx).ne9⟩
  refine ⟨?_, ?_, ?_⟩
  · intro h0
    have : (normalizeKey dn k).length = k.length := by
      unfold normalizeKey; cases dn <;> simp [normKeyAux_length]
    rw [h0] at this
    exact hk0 (List.length_eq_zero_iff.mp this.symm)
  · rw [Bool.eq_false_iff]; intro hc
    simp only [List.contains_iff_mem] at hc
    exact (hnb 32 hc).1 rfl
  · rw [Bool.eq_false_iff]; intro hc
    simp only [List.contains_iff_mem] at hc
    exact (hnb 9 hc).2 rfl

/-- recognition of a special name by the model = equality of the lower-cased names -/
theorem ciEq_name (key name : Bytes) : ciEq key name = true ↔ lowerAll key = lowerAll name := by
  rw [ciEq_iff, lowerAll_eq, lowerAll_eq]

/-! ### `parseHeaders`' switch on a well-formed field -/

/-- the effect of one well-formed field `(k, v)` on the parse state, by name class -/
def applyWf (dn : Bool) (st : HdrState) (k v : Bytes) : HdrState :=
  let hd := st.head
  let key := normalizeKey dn k
  match cls k with
  | .host => { st with head := { hd with host := v } }
  | .ua => { st with head := { hd with userAgent := v } }
  | .ct => { st with head := { hd with contentType := v } }
  | .cl =>
    if hd.cl != -1 then
      match parseUint v with
      | none => { st with err := true, head := { hd with cl := -2 } }
      | some n => { st with head := { hd with cl := n, clBytes := v } }
    else st
  | .conn =>
    if ciEq v strClose then { st with head := { hd with connClose := true } }
    else { st with head := { hd with connClose := false, h := hd.h ++ [(key, v)] } }
  | .te =>
    if v != strIdentity then
      { st with head := { hd with cl := -1, h := setArg hd.h strTransferEncoding strChunked } }
    else st
  | .trailer =>
    { st with err := st.err || (setTrailers dn v).2, head := { hd with trailer := hd.trailer ++ (setTrailers dn v).1 } }
  | .other => { st with head := { hd with h := hd.h ++ [(key, v)] } }

theorem cond_iff (k0 : UInt8) (kt name sname : Bytes) (L : UInt8) (hs : lowerAll name = sname)
    (hL : sname.head? = some L) (hor : ∀ c, lowerSpec c = L → c ||| 0x20 = L) :
    (k0 ||| 0x20 = L ∧ ciEq (k0 :: kt) name = true) ↔ lowerAll (k0 :: kt) = sname := by
  rw [ciEq_name, hs]
  constructor
  · exact fun h => h.2
  · intro h
    refine ⟨?_, h⟩
    apply hor
    rw [← h] at hL
    simp [lowerAll, lower_eq] at hL
    exact hL

theorem or20 (c : UInt8) :
    (lowerSpec c = 104 → c ||| 0x20 = 104) ∧ (lowerSpec c = 117 → c ||| 0x20 = 117) ∧
    (lowerSpec c = 99 → c ||| 0x20 = 99) ∧ (lowerSpec c = 116 → c ||| 0x20 = 116) := by
  have := allBytes_spec tbl_or20 c
  simp only [Bool.and_eq_true, Bool.or_eq_true, bne_iff_ne, ne_eq, beq_iff_eq] at this
  obtain ⟨⟨⟨a, b⟩, c'⟩, d⟩ := this
  refine ⟨fun h => ?_, fun h => ?_, fun h => ?_, fun h => ?_⟩
  · rcases a with a | a; exact absurd h a; exact a
  · rcases b with a | a; exact absurd h a; exact a
  · rcases c' with a | a; exact absurd h a; exact a
  · rcases d with a | a; exact absurd h a; exact a

theorem validValue_of_wf (v : Bytes) (hv : wfValue v = true) : validHeaderFieldValue v = true := by
  obtain ⟨hvf, _⟩ := wfValue_facts v hv
  simp only [validHeaderFieldValue, List.all_eq_true]
  intro x hx
  simpa using (hvf x hx).2.2

theorem applyHeader_wf (dn : Bool) (st : HdrState) (k v : Bytes) (hk : isToken k = true) (hv : wfValue v = true) :
    applyHeader dn st (normalizeKey dn k) v = some (applyWf dn st k v) := by
  obtain ⟨h0, h32, h9⟩ := normalizeKey_facts dn k hk
  have hlow := normalizeKey_lower dn k
  have hval := validValue_of_wf v hv
  unfold applyWf cls
  simp only [← hlow]
  generalize normalizeKey dn k = key at *
  obtain ⟨k0, kt, rfl⟩ := List.exists_cons_of_ne_nil h0
  unfold applyHeader
  simp only [h32, h9, hval, Bool.or_false, Bool.false_eq_true, if_false, Bool.not_true]
  have c1 := cond_iff k0 kt strHost sHost 104 (by decide) rfl (fun c => (or20 c).1)
  have c2 := cond_iff k0 kt strUserAgent sUserAgent 117 (by decide) rfl (fun c => (or20 c).2.1)
  have c3 := cond_iff k0 kt strContentType sContentType 99 (by decide) rfl (fun c => (or20 c).2.2.1)
  have c4 := cond_iff k0 kt strContentLength sContentLength 99 (by decide) rfl (fun c => (or20 c).2.2.1)
  have c5 := cond_iff k0 kt strConnection sConnection 99 (by decide) rfl (fun c => (or20 c).2.2.1)
  have c6 := cond_iff k0 kt strTransferEncoding sTransferEncoding 116 (by decide) rfl (fun c => (or20 c).2.2.2)
  have c7 := cond_iff k0 kt strTrailer sTrailer 116 (by decide) rfl (fun c => (or20 c).2.2.2)
  simp only [c1, c2, c3, c4, c5, c6, c7]
  by_cases e1 : lowerAll (k0 :: kt) = sHost
  · simp only [e1, if_true]
  · simp only [e1, if_false]
    by_cases e2 : lowerAll (k0 :: kt) = sUserAgent
    · simp only [e2, if_true]
    · simp only [e2, if_false]
      by_cases e3 : lowerAll (k0 :: kt) = sContentType
      · simp only [e3, if_true]
      · simp only [e3, if_false]
        by_cases e4 : lowerAll (k0 :: kt) = sContentLength
        · simp only [e4, if_true]
          split
          · cases parseUint v <;> rfl
          · rfl
        · simp only [e4, if_false]
          by_cases e5 : lowerAll (k0 :: kt) = sConnection
          · simp only [e5, if_true]
            split <;> rfl
          · simp only [e5, if_false]
            by_cases e6 : lowerAll (k0 :: kt) = sTransferEncoding
            · simp only [e6, if_true]
              split <;> rfl
            · simp only [e6, if_false]
              by_cases e7 : lowerAll (k0 :: kt) = sTrailer
              · simp only [e7, if_true]
              · simp only [e7, if_false]

/-! ### the scanning loop of `parseHeaders` on an encoded field block -/

def foldWf (dn : Bool) (st : HdrState) (fs : List (Bytes × Bytes)) : HdrState :=
  fs.foldl (fun st kv => applyWf dn st kv.1 kv.2) st

theorem contExtra_block (fs : List (Bytes × Bytes)) (rest : Bytes) (h : ∀ kv ∈ fs, wfField kv = true) :
    contExtra (encFields fs ++ 13 :: 10 :: rest) = 0 := by
  apply contExtra_of_head
  intro c hc
  cases fs with
  | nil => simp [encFields] at hc; subst hc; decide
  | cons kv t =>
    have hw := h kv (by simp)
    simp only [wfField, Bool.and_eq_true] at hw
    obtain ⟨hk0, hkf⟩ := token_facts kv.1 hw.1
    obtain ⟨a, k', hk⟩ := List.exists_cons_of_ne_nil hk0
    simp [encFields, encField, hk] at hc
    subst hc
    have := hkf a (by simp [hk])
    exact ⟨this.ne32, this.ne9⟩

/-- end of the loop: a recorded field error turns into `bad` -/
def finishLoop (st : HdrState) (n : Nat) : Except HeadErr (HdrState × Nat) :=
  if st.err then .error .bad else .ok (st, n)

theorem encFields_length_cons (kv : Bytes × Bytes) (fs : List (Bytes × Bytes)) :
    (encFields (kv :: fs)).length = kv.1.length + kv.2.length + 4 + (encFields fs).length := by
  simp [encFields, encField]; omega

theorem parseHeadersLoop_enc (dn : Bool) : ∀ (fs : List (Bytes × Bytes)) (st : HdrState) (hlen fuel : Nat) (rest : Bytes),
    (∀ kv ∈ fs, wfField kv = true) → fs.length < fuel →
    parseHeadersLoop dn fuel (encFields fs ++ 13 :: 10 :: rest) st hlen =
      finishLoop (foldWf dn st fs) (hlen + (encFields fs).length + 2)
  | [], st, hlen, fuel, rest, _, hf => by
    obtain ⟨f, rfl⟩ : ∃ f, fuel = f + 1 := ⟨fuel - 1, by omega⟩
    show parseHeadersLoop dn (f + 1) (13 :: 10 :: rest) st hlen = finishLoop st (hlen + 0 + 2)
    simp only [parseHeadersLoop, scanNext, finishLoop, Nat.add_zero]
  | kv :: fs, st, hlen, fuel, rest, h, hf => by
    obtain ⟨f, rfl⟩ : ∃ f, fuel = f + 1 := ⟨fuel - 1, by omega⟩
    have hw := h kv (by simp)
    simp only [wfField, Bool.and_eq_true] at hw
    have hrest : ∀ kv ∈ fs, wfField kv = true := fun kv hkv => h kv (by simp [hkv])
    have e : encFields (kv :: fs) ++ 13 :: 10 :: rest =
        kv.1 ++ 58 :: 32 :: (kv.2 ++ 13 :: 10 :: (encFields fs ++ 13 :: 10 :: rest)) := by
      simp [encFields, encField]
    have ih := parseHeadersLoop_enc dn fs (applyWf dn st kv.1 kv.2) (hlen + (kv.1.length + kv.2.length + 4)) f rest hrest
      (by simp at hf; omega)
    rw [e]
    simp only [parseHeadersLoop, scanNext_field dn kv.1 kv.2 _ hw.1 hw.2 (contExtra_block fs rest hrest),
      applyHeader_wf dn st kv.1 kv.2 hw.1 hw.2, ih, encFields_length_cons]
    simp only [foldWf, List.foldl_cons]
    congr 1; omega

/-! ### the `Trailer:` declaration (`Trailer.SetTrailers`) -/

/-- names joined by `", "` -/
def joinNames : List Bytes → Bytes
  | [] => []
  | [k] => k
  | k :: k2 :: t => k ++ 44 :: 32 :: joinNames (k2 :: t)

/-- the comma separated elements of a declaration, blanks around them removed -/
def splitNames (v : Bytes) : List Bytes := (splitOn 44 v).map stripOWS

/-- a name that may be declared: non-empty, no comma or blank, not one of the forbidden trailer names -/
def wfTName (dn : Bool) (k : Bytes) : Bool :=
  !k.isEmpty && k.all (fun c => c != 44 && (c != 32 && c != 9)) && !isBadTrailer (normalizeKey dn k)

/-- the value of a `Trailer` field is exactly its (allowed) names joined by `", "` -/
def declOk (dn : Bool) (v : Bytes) : Bool :=
  (splitNames v).all (wfTName dn) && v == joinNames (splitNames v)

/-- the names a `Trailer` field value declares, as the reader keeps them -/
def declNames (dn : Bool) (v : Bytes) : List Bytes := (splitNames v).map (normalizeKey dn)

theorem splitOn_nosep (sep : UInt8) : ∀ (a : Bytes), (∀ x ∈ a, x ≠ sep) → splitOn sep a = [a]
  | [], _ => rfl
  | c :: t, h => by
    have hc : c ≠ sep := h c (by simp)
    simp [splitOn, hc, splitOn_nosep sep t (fun x hx => h x (by simp [hx]))]

theorem splitOn_append (sep : UInt8) : ∀ (a b : Bytes), (∀ x ∈ a, x ≠ sep) →
    splitOn sep (a ++ sep :: b) = a :: splitOn sep b
  | [], b, _ => by simp [splitOn]
  | c :: t, b, h => by
    have hc : c ≠ sep := h c (by simp)
    simp [splitOn, hc, splitOn_append sep t b (fun x hx => h x (by simp [hx]))]

theorem splitOn_ne_nil (sep : UInt8) : ∀ (a : Bytes), splitOn sep a ≠ []
  | [] => by simp [splitOn]
  | c :: t => by
    have := splitOn_ne_nil sep t
    simp only [splitOn]
    split
    · simp
    · split
      · simp
      · simp

theorem dropWhile_none32 : ∀ (k : Bytes), (∀ x ∈ k, x ≠ 32) → k.dropWhile (· == 32) = k
  | [], _ => rfl
  | c :: t, h => by
    have : c ≠ 32 := h c (by simp)
    rw [List.dropWhile_cons_of_neg (by simpa using this)]

theorem stripSpace_clean (k : Bytes) (h : ∀ x ∈ k, x ≠ 32) : stripSpace k = k := by
  unfold stripSpace
  rw [dropWhile_none32 k h, dropWhile_none32 k.reverse (fun x hx => h x (List.mem_reverse.mp hx)), List.reverse_reverse]

theorem stripSpace_sp (k : Bytes) (h : ∀ x ∈ k, x ≠ 32) : stripSpace (32 :: k) = k := by
  have : stripSpace (32 :: k) = stripSpace k := by simp [stripSpace, List.dropWhile]
  rw [this, stripSpace_clean k h]

theorem dropWhile_noneOWS : ∀ (k : Bytes), (∀ x ∈ k, x ≠ 32 ∧ x ≠ 9) → k.dropWhile (fun c => c == 32 || c == 9) = k
  | [], _ => rfl
  | c :: t, h => by
    have := h c (by simp)
    rw [List.dropWhile_cons_of_neg (by simp [this.1, this.2])]

theorem stripOWS_clean (k : Bytes) (h : ∀ x ∈ k, x ≠ 32 ∧ x ≠ 9) : stripOWS k = k := by
  unfold stripOWS
  rw [dropWhile_noneOWS k h, dropWhile_noneOWS k.reverse (fun x hx => h x (List.mem_reverse.mp hx)), List.reverse_reverse]

theorem stripOWS_sp (k : Bytes) (h : ∀ x ∈ k, x ≠ 32 ∧ x ≠ 9) : stripOWS (32 :: k) = k := by
  have : stripOWS (32 :: k) = stripOWS k := by simp [stripOWS, List.dropWhile]
  rw [this, stripOWS_clean k h]

theorem wfTName_parts {dn : Bool} {k : Bytes} (h : wfTName dn k = true) :
    k ≠ [] ∧ (∀ x ∈ k, x ≠ 44 ∧ (x ≠ 32 ∧ x ≠ 9)) ∧ isBadTrailer (normalizeKey dn k) = false := by
  simp only [wfTName, Bool.and_eq_true, List.all_eq_true, Bool.not_eq_true'] at h
  refine ⟨?_, ?_, h.2⟩
  · intro e; simp [e] at h
  · intro x hx; have := h.1.2 x hx; simpa using this

theorem joinNames_ne_nil {dn : Bool} : ∀ (names : List Bytes), names ≠ [] → (∀ k ∈ names, wfTName dn k = true) →
    joinNames names ≠ []
  | [], h, _ => absurd rfl h
  | [k], _, hw => by
    have := (wfTName_parts (hw k (by simp))).1
    simpa [joinNames] using this
  | k :: k2 :: t, _, hw => by
    have := (wfTName_parts (hw k (by simp))).1
    simp [joinNames, this]

theorem split_names {dn : Bool} : ∀ (names : List Bytes) (sp : Bool), names ≠ [] → (∀ k ∈ names, wfTName dn k = true) →
    (splitOn 44 ((if sp then [32] else []) ++ joinNames names)).map stripOWS = names
  | [], _, h, _ => absurd rfl h
  | [k], sp, _, hw => by
    obtain ⟨_, hk, _⟩ := wfTName_parts (hw k (by simp))
    have h44 : ∀ x ∈ (if sp then [32] else []) ++ k, x ≠ 44 := by
      intro x hx
      cases sp <;> simp at hx
      · exact (hk x hx).1
      · rcases hx with hx | hx
        · subst hx; decide
        · exact (hk x hx).1
    simp only [joinNames]
    rw [splitOn_nosep 44 _ h44]
    cases sp
    · simp [stripOWS_clean k (fun x hx => (hk x hx).2)]
    · simp [stripOWS_sp k (fun x hx => (hk x hx).2)]
  | k :: k2 :: t, sp, _, hw => by
    obtain ⟨_, hk, _⟩ := wfTName_parts (hw k (by simp))
    have h44 : ∀ x ∈ (if sp then [32] else []) ++ k, x ≠ 44 := by
      intro x hx
      cases sp <;> simp at hx
      · exact (hk x hx).1
      · rcases hx with hx | hx
        · subst hx; decide
        · exact (hk x hx).1
    have ih := split_names (k2 :: t) true (by simp) (fun y hy => hw y (by simp [hy]))
    have e : (if sp then [32] else []) ++ joinNames (k :: k2 :: t) =
        ((if sp then [32] else []) ++ k) ++ 44 :: ((if true then [32] else []) ++ joinNames (k2 :: t)) := by
      simp [joinNames, List.append_assoc]
    rw [e, splitOn_append 44 _ _ h44, List.map_cons, ih]
    cases sp
    · simp [stripOWS_clean k (fun x hx => (hk x hx).2)]
    · simp [stripOWS_sp k (fun x hx => (hk x hx).2)]

theorem joinNames_last {dn : Bool} : ∀ (names : List Bytes), names ≠ [] → (∀ k ∈ names, wfTName dn k = true) →
    (joinNames names).getLast? ≠ some 44
  | [], h, _ => absurd rfl h
  | [k], _, hw => by
    obtain ⟨_, hk, _⟩ := wfTName_parts (hw k (by simp))
    simp only [joinNames]
    cases h : k.getLast? with
    | none => simp
    | some a =>
      have := hk a (List.mem_of_getLast? h)
      simp [this.1]
  | k :: k2 :: t, _, hw => by
    have ih := joinNames_last (k2 :: t) (by simp) (fun y hy => hw y (by simp [hy]))
    have hne := joinNames_ne_nil (dn := dn) (k2 :: t) (by simp) (fun y hy => hw y (by simp [hy]))
    simp only [joinNames]
    cases hx : (joinNames (k2 :: t)).getLast? with
    | none => exact absurd (List.getLast?_eq_none_iff.mp hx) hne
    | some x =>
      rw [hx] at ih
      have e : k ++ 44 :: 32 :: joinNames (k2 :: t) = (k ++ [44, 32]) ++ joinNames (k2 :: t) := by simp
      rw [e, List.getLast?_append, hx]
      simpa using ih

/-- `Trailer.SetTrailers` on allowed names joined by `", "`: exactly those names (normalised), no error -/
theorem setTrailers_join (dn : Bool) (names : List Bytes) (hne : names ≠ []) (hw : ∀ k ∈ names, wfTName dn k = true) :
    setTrailers dn (joinNames names) = (names.map (normalizeKey dn), false) := by
  unfold setTrailers
  have h1 : (joinNames names).isEmpty = false := by
    have := joinNames_ne_nil names hne hw
    cases h : joinNames names with
    | nil => exact absurd h this
    | cons _ _ => rfl
  have h2 : ¬ ((joinNames names).getLast? = some 44) := joinNames_last names hne hw
  have h3 := split_names names false hne hw
  simp only [Bool.false_eq_true, if_false, List.nil_append] at h3
  simp only [h1, Bool.false_eq_true, if_false, h2, h3]
  have h4 : names.filter (fun e => !e.isEmpty) = names := by
    rw [List.filter_eq_self]
    intro k hk
    have := (wfTName_parts (hw k hk)).1
    cases k with
    | nil => exact absurd rfl this
    | cons _ _ => rfl
  have h6 : (names.map (normalizeKey dn)).filter (fun k => !isBadTrailer k) = names.map (normalizeKey dn) := by
    rw [List.filter_eq_self]
    intro k hk
    simp only [List.mem_map] at hk
    obtain ⟨k', hk', rfl⟩ := hk
    simp [(wfTName_parts (hw k' hk')).2.2]
  rw [h4, h6]
  congr 1
  rw [List.getLast?_map]
  cases hl : names.getLast? with
  | none => rfl
  | some k => exact (wfTName_parts (hw k (List.mem_of_getLast? hl))).2.2

theorem setTrailers_declOk (dn : Bool) (v : Bytes) (h : declOk dn v = true) :
    setTrailers dn v = (declNames dn v, false) := by
  simp only [declOk, Bool.and_eq_true, List.all_eq_true, beq_iff_eq] at h
  have hne : splitNames v ≠ [] := by
    unfold splitNames
    intro h0
    exact splitOn_ne_nil 44 v (List.map_eq_nil_iff.mp h0)
  have := setTrailers_join dn (splitNames v) hne h.1
  rw [← h.2] at this
  exact this

/-! ### what the fields of a request amount to (declarative reading) -/

/-- value of the last field of class `c` (`d` if there is none) -/
def pick (c : Cls) : List (Bytes × Bytes) → Bytes → Bytes
  | [], d => d
  | kv :: t, d => pick c t (if cls kv.1 = c then kv.2 else d)

/-- does the last `Connection` field say `close` (in any letter case, 9dcdbe5)? -/
def pickClose : List (Bytes × Bytes) → Bool → Bool
  | [], d => d
  | kv :: t, d => pickClose t (if cls kv.1 = .conn then ciEq kv.2 strClose else d)

/-- the entry a field leaves in the generic header list `h` -/
def generic (dn : Bool) (kv : Bytes × Bytes) : Option (Bytes × Bytes) :=
  match cls kv.1 with
  | .other => some (normalizeKey dn kv.1, kv.2)
  | .conn => if ciEq kv.2 strClose then none else some (normalizeKey dn kv.1, kv.2)
  | .te => if kv.2 = strIdentity then none else some (strTransferEncoding, strChunked)
  | _ => none

/-- the names declared by all `Trailer` fields, in order, behind `d` (the fields combine, 117944e) -/
def pickT (dn : Bool) : List (Bytes × Bytes) → List Bytes → List Bytes
  | [], d => d
  | kv :: t, d => pickT dn t (if cls kv.1 = .trailer then d ++ declNames dn kv.2 else d)

def hasCls (c : Cls) (fs : List (Bytes × Bytes)) : Bool := fs.any (fun kv => cls kv.1 == c)

theorem cls_beq (a b : Cls) : (a == b) = decide (a = b) := by cases a <;> cases b <;> rfl

theorem foldWf_noTE (dn : Bool) (clb : Bytes) (n : Nat) (hp : parseUint clb = some n) :
    ∀ (fs : List (Bytes × Bytes)) (st : HdrState),
    (∀ kv ∈ fs, cls kv.1 ≠ .te ∧ (cls kv.1 = .trailer → declOk dn kv.2 = true) ∧ (cls kv.1 = .cl → kv.2 = clb)) →
    (st.head.cl ≠ -1 ∨ hasCls .cl fs = false) →
    foldWf dn st fs = { err := st.err, head := { st.head with
      host := pick .host fs st.head.host, userAgent := pick .ua fs st.head.userAgent,
      contentType := pick .ct fs st.head.contentType,
      cl := bif hasCls .cl fs then (n : Int) else st.head.cl,
      clBytes := bif hasCls .cl fs then clb else st.head.clBytes,
      connClose := pickClose fs st.head.connClose,
      h := st.head.h ++ fs.filterMap (generic dn),
      trailer := pickT dn fs st.head.trailer } }
  | [], st, _, _ => by simp [foldWf, pick, pickClose, pickT, hasCls]
  | kv :: fs, st, h, hcl => by
    have hkv := h kv (by simp)
    have hrest : ∀ kv ∈ fs, cls kv.1 ≠ .te ∧ (cls kv.1 = .trailer → declOk dn kv.2 = true) ∧ (cls kv.1 = .cl → kv.2 = clb) :=
      fun kv hkv => h kv (by simp [hkv])
    have ih := foldWf_noTE dn clb n hp fs (applyWf dn st kv.1 kv.2) hrest
    have hfold : foldWf dn st (kv :: fs) = foldWf dn (applyWf dn st kv.1 kv.2) fs := rfl
    rw [hfold]
    cases hc : cls kv.1 with
    | te => exact absurd hc hkv.1
    | trailer =>
      have hd := setTrailers_declOk dn kv.2 (hkv.2.1 hc)
      have hst : applyWf dn st kv.1 kv.2 = { st with head := { st.head with trailer := st.head.trailer ++ declNames dn kv.2 } } := by
        simp [applyWf, hc, hd]
      rw [hst] at ih ⊢
      rw [ih (by simpa [hasCls, hc, cls_beq] using hcl)]
      simp [pick, pickClose, pickT, hasCls, generic, hc, cls_beq]
    | cl =>
      have hv := hkv.2.2 hc
      have hne : st.head.cl ≠ -1 := by
        rcases hcl with h1 | h1
        · exact h1
        · simp [hasCls, hc] at h1
      have hst : applyWf dn st kv.1 kv.2 = { st with head := { st.head with cl := n, clBytes := clb } } := by
        simp [applyWf, hc, hne, hv, hp]
      rw [hst] at ih ⊢
      rw [ih (Or.inl (by simp))]
      simp [pick, pickClose, pickT, hasCls, generic, hc, cls_beq]
    | host =>
      have hst : applyWf dn st kv.1 kv.2 = { st with head := { st.head with host := kv.2 } } := by
        simp [applyWf, hc]
      rw [hst] at ih ⊢
      have hne : (cls kv.1 == Cls.cl) = false := by rw [hc]; decide
      rw [ih (by simpa [hasCls, hne] using hcl)]
      simp [pick, pickClose, pickT, hasCls, generic, hc, cls_beq]
    | ua =>
      have hst : applyWf dn st kv.1 kv.2 = { st with head := { st.head with userAgent := kv.2 } } := by
        simp [applyWf, hc]
      rw [hst] at ih ⊢
      have hne : (cls kv.1 == Cls.cl) = false := by rw [hc]; decide
      rw [ih (by simpa [hasCls, hne] using hcl)]
      simp [pick, pickClose, pickT, hasCls, generic, hc, cls_beq]
    | ct =>
      have hst : applyWf dn st kv.1 kv.2 = { st with head := { st.head with contentType := kv.2 } } := by
        simp [applyWf, hc]
      rw [hst] at ih ⊢
      have hne : (cls kv.1 == Cls.cl) = false := by rw [hc]; decide
      rw [ih (by simpa [hasCls, hne] using hcl)]
      simp [pick, pickClose, pickT, hasCls, generic, hc, cls_beq]
    | conn =>
      by_cases hv : ciEq kv.2 strClose = true
      · have hst : applyWf dn st kv.1 kv.2 = { st with head := { st.head with connClose := true } } := by
          simp [applyWf, hc, hv]
        rw [hst] at ih ⊢
        have hne : (cls kv.1 == Cls.cl) = false := by rw [hc]; decide
        rw [ih (by simpa [hasCls, hne] using hcl)]
        simp [pick, pickClose, pickT, hasCls, generic, hc, hv, cls_beq]
      · have hst : applyWf dn st kv.1 kv.2 = { st with head := { st.head with
            connClose := false, h := st.head.h ++ [(normalizeKey dn kv.1, kv.2)] } } := by
          simp [applyWf, hc, hv]
        rw [hst] at ih ⊢
        have hne : (cls kv.1 == Cls.cl) = false := by rw [hc]; decide
        rw [ih (by simpa [hasCls, hne] using hcl)]
        simp [pick, pickClose, pickT, hasCls, generic, hc, hv, cls_beq]
    | other =>
      have hst : applyWf dn st kv.1 kv.2 = { st with head := { st.head with
            h := st.head.h ++ [(normalizeKey dn kv.1, kv.2)] } } := by
        simp [applyWf, hc]
      rw [hst] at ih ⊢
      have hne : (cls kv.1 == Cls.cl) = false := by rw [hc]; decide
      rw [ih (by simpa [hasCls, hne] using hcl)]
      simp [pick, pickClose, pickT, hasCls, generic, hc, cls_beq]

/-! ### `ParseContentLength` agrees with the strict decimal reader below 2^63 -/

def decStep (n : Nat) (c : UInt8) : Nat := n * 10 + (c - 48).toNat

theorem decFold_ge : ∀ (t : Bytes) (v : Nat), v ≤ t.foldl decStep v
  | [], v => by simp
  | c :: t, v => by
    have := decFold_ge t (decStep v c)
    simp only [List.foldl_cons]
    unfold decStep at this ⊢
    omega

set_option maxRecDepth 100000 in
theorem tbl_digit : allBytes (fun c => !(48 ≤ c && c ≤ 57) || (c - 48 ≤ 9)) = true := by decide +kernel

theorem parseUintAux_digits : ∀ (t : Bytes) (v i : Nat), (∀ c ∈ t, (48 ≤ c && c ≤ 57) = true) →
    t.foldl decStep v < 2 ^ 63 → parseUintAux v i t = .ok (t.foldl decStep v, i + t.length)
  | [], v, i, _, _ => by simp [parseUintAux]
  | c :: t, v, i, h, hlt => by
    have hc := h c (by simp)
    have hk : c - 48 ≤ 9 := by
      have := allBytes_spec tbl_digit c
      simpa [hc] using this
    have hk' : ¬ (c - 48 > 9) := by
      intro h9; exact absurd hk (UInt8.not_le.mpr h9)
    simp only [List.foldl_cons] at hlt
    have hge := decFold_ge t (decStep v c)
    have hov : ¬ (v > (2 ^ 63 - 1 - (c - 48).toNat) / 10) := by
      have h2 : decStep v c = v * 10 + (c - 48).toNat := rfl
      have : v * 10 + (c - 48).toNat < 2 ^ 63 := by omega
      rw [Nat.not_lt, Nat.le_div_iff_mul_le (by decide)]
      omega
    have ih := parseUintAux_digits t (decStep v c) (i + 1) (fun x hx => h x (by simp [hx])) hlt
    simp only [parseUintAux, hk', if_false, hov, List.foldl_cons, List.length_cons]
    have e : 10 * v + (c - 48).toNat = decStep v c := by unfold decStep; omega
    rw [e, ih]
    congr 2; omega

theorem parseUint_of_parseDec (b : Bytes) (n : Nat) (h : parseDec b = some n) (hn : n < 2 ^ 63) :
    parseUint b = some n := by
  unfold parseDec at h
  split at h
  · cases h
  · rename_i hcond
    simp only [Bool.or_eq_true, Bool.not_eq_true', not_or, Bool.not_eq_false] at hcond
    have hne : b.isEmpty = false := by simpa using hcond.1
    have hall : ∀ c ∈ b, (48 ≤ c && c ≤ 57) = true := by
      have := hcond.2
      simp only [Bool.not_eq_false, List.all_eq_true] at this
      exact this
    have hfold : b.foldl decStep 0 = n := by
      simp only [Option.some.injEq] at h
      exact h
    have := parseUintAux_digits b 0 0 hall (by rw [hfold]; exact hn)
    unfold parseUint parseUintBuf
    simp [hne, this, hfold]

/-! ### requests on the wire -/

/-- one chunk as sent: its size line (hexadecimal digits) and its data -/
structure Chunk where
  size : Bytes
  data : Bytes
deriving Repr, DecidableEq

inductive WBody where
  | none                                             -- no framing field, no body
  | fixed (b : Bytes)                                -- `Content-Length`
  /-- `Transfer-Encoding: chunked`; `last` = the zero size line; `trailers` = the trailer section -/
  | chunked (chunks : List Chunk) (last : Bytes) (trailers : List (Bytes × Bytes))
deriving Repr, DecidableEq

/-- a request as it is written on the wire -/
structure WReq where
  method : Bytes
  target : Bytes
  fields : List (Bytes × Bytes)
  body : WBody
deriving Repr, DecidableEq

def teFields (fs : List (Bytes × Bytes)) : List (Bytes × Bytes) := fs.filter (fun kv => cls kv.1 == .te)

/-- non-empty data, at most 15 hexadecimal digits (hertz's `maxHexIntChars`) that say the data length -/
def wfChunk (c : Chunk) : Bool :=
  !c.data.isEmpty && decide (c.size.length ≤ 15) && parseHex c.size == some c.data.length

/-- the framing fields say what the body is (the conditions of `Spec.Http.decodeOne`): nothing;
`Content-Length` fields, all with the same text, a decimal number below 2^63 equal to the body length, and no
`Transfer-Encoding`; or exactly one `Transfer-Encoding: chunked` and no `Content-Length`, and then the trailer
section consists of well-formed fields whose names are, in order, the names the last `Trailer` field declares. -/
def wfFraming (dn : Bool) (fs : List (Bytes × Bytes)) : WBody → Bool
  | .none => !hasCls .cl fs && !hasCls .te fs
  | .fixed b =>
    !hasCls .te fs && hasCls .cl fs &&
    fs.all (fun kv => cls kv.1 != .cl || kv.2 == pick .cl fs []) &&
    parseDec (pick .cl fs []) == some b.length && decide (b.length < 2 ^ 63)
  | .chunked cs last trs =>
    !hasCls .cl fs && (teFields fs).length == 1 && (teFields fs).all (fun kv => lowerAll kv.2 == sChunked) &&
    cs.all wfChunk && decide (last.length ≤ 15) && parseHex last == some 0 &&
    trs.all wfField && trs.map (fun kv => normalizeKey dn kv.1) == pickT dn fs []

/-- well-formed request: token method, target without SP/CTL, token field names, trimmed field values
without CR/LF/CTL, every `Trailer` field a clean declaration (`declOk`), consistent framing.  `dn` is the
server's `DisableNormalizing` setting: it decides which spelling of a trailer name matches a declared name. -/
def wfReq (dn : Bool) (r : WReq) : Bool :=
  isToken r.method && wfTarget r.target && r.fields.all wfField &&
  r.fields.all (fun kv => cls kv.1 != .trailer || declOk dn kv.2) &&
  wfFraming dn r.fields r.body

def framingCl : WBody → Int
  | .none => -2
  | .fixed b => b.length
  | .chunked _ _ _ => -1

/-- what `req.parse` is to make of the head of `r` -/
def expectedHead (dn : Bool) (r : WReq) : ReqHead :=
  { method := r.method, uri := r.target, http11 := true,
    host := pick .host r.fields [], userAgent := pick .ua r.fields [], contentType := pick .ct r.fields [],
    cl := framingCl r.body,
    clBytes := (match r.body with | .fixed _ => pick .cl r.fields [] | _ => []),
    connClose := pickClose r.fields false,
    h := r.fields.filterMap (generic dn),
    trailer := pickT dn r.fields [] }

def encHeadOf (r : WReq) : Bytes := encHead r.method r.target r.fields

/-! ### list facts about `pick`, `hasCls` -/

theorem pick_append (c : Cls) : ∀ (a b : List (Bytes × Bytes)) (d : Bytes), pick c (a ++ b) d = pick c b (pick c a d)
  | [], _, _ => rfl
  | kv :: a, b, d => by simp [pick, pick_append c a b]

theorem pickT_append (dn : Bool) : ∀ (a b : List (Bytes × Bytes)) (d : List Bytes),
    pickT dn (a ++ b) d = pickT dn b (pickT dn a d)
  | [], _, _ => rfl
  | kv :: a, b, d => by simp [pickT, pickT_append dn a b]

theorem pickClose_append : ∀ (a b : List (Bytes × Bytes)) (d : Bool), pickClose (a ++ b) d = pickClose b (pickClose a d)
  | [], _, _ => rfl
  | kv :: a, b, d => by simp [pickClose, pickClose_append a b]

theorem hasCls_false_iff (c : Cls) (fs : List (Bytes × Bytes)) : hasCls c fs = false ↔ ∀ kv ∈ fs, cls kv.1 ≠ c := by
  simp [hasCls, cls_beq]

theorem pick_of_none (c : Cls) : ∀ (fs : List (Bytes × Bytes)) (d : Bytes), hasCls c fs = false → pick c fs d = d
  | [], _, _ => rfl
  | kv :: fs, d, h => by
    rw [hasCls_false_iff] at h
    have h1 := h kv (by simp)
    have h2 : hasCls c fs = false := (hasCls_false_iff c fs).mpr (fun x hx => h x (by simp [hx]))
    simp [pick, h1, pick_of_none c fs d h2]

theorem setArg_fresh : ∀ (l : List (Bytes × Bytes)) (k v : Bytes), (∀ e ∈ l, e.1 ≠ k) → setArg l k v = l ++ [(k, v)]
  | [], _, _, _ => rfl
  | e :: l, k, v, h => by
    have h1 := h e (by simp)
    simp [setArg, h1, setArg_fresh l k v (fun x hx => h x (by simp [hx]))]

theorem cls_of_normalized_te (dn : Bool) (k : Bytes) (h : normalizeKey dn k = strTransferEncoding) : cls k = .te := by
  have h1 : lowerAll k = sTransferEncoding := by
    rw [← normalizeKey_lower dn k, h]; decide
  unfold cls
  rw [h1]
  decide

theorem generic_key_ne_te (dn : Bool) (fs : List (Bytes × Bytes)) (h : ∀ kv ∈ fs, cls kv.1 ≠ .te) :
    ∀ e ∈ fs.filterMap (generic dn), e.1 ≠ strTransferEncoding := by
  intro e he
  simp only [List.mem_filterMap] at he
  obtain ⟨kv, hkv, hg⟩ := he
  have hne := h kv hkv
  intro hk
  unfold generic at hg
  split at hg
  · simp at hg; subst hg; exact hne (cls_of_normalized_te dn kv.1 hk)
  · split at hg
    · cases hg
    · simp at hg; subst hg; exact hne (cls_of_normalized_te dn kv.1 hk)
  · rename_i hc; exact hne hc
  · cases hg

/-! ### the header fields of a well-formed request, folded -/

def st0 (m t : Bytes) : HdrState := { head := { method := m, uri := t, http11 := true, cl := -2 }, err := false }

theorem wfReq_facts {dn : Bool} (r : WReq) (h : wfReq dn r = true) :
    isToken r.method = true ∧ wfTarget r.target = true ∧ (∀ kv ∈ r.fields, wfField kv = true) ∧
    (∀ kv ∈ r.fields, cls kv.1 = .trailer → declOk dn kv.2 = true) ∧ wfFraming dn r.fields r.body = true := by
  simp only [wfReq, Bool.and_eq_true, List.all_eq_true, Bool.or_eq_true, bne_iff_ne, ne_eq] at h
  refine ⟨h.1.1.1.1, h.1.1.1.2, h.1.1.2, ?_, h.2⟩
  intro kv hkv hc
  rcases h.1.2 kv hkv with h1 | h1
  · exact absurd hc h1
  · exact h1

theorem foldWf_append (dn : Bool) (st : HdrState) (a b : List (Bytes × Bytes)) :
    foldWf dn st (a ++ b) = foldWf dn (foldWf dn st a) b := by
  simp [foldWf, List.foldl_append]

theorem foldWf_wfReq (dn : Bool) (r : WReq) (h : wfReq dn r = true) :
    foldWf dn (st0 r.method r.target) r.fields = { head := expectedHead dn r, err := false } := by
  obtain ⟨_, _, _, htr, hfr⟩ := wfReq_facts r h
  cases hb : r.body with
  | none =>
    rw [hb] at hfr
    simp only [wfFraming, Bool.and_eq_true, Bool.not_eq_true'] at hfr
    have hcl := (hasCls_false_iff _ _).mp hfr.1
    have hte := (hasCls_false_iff _ _).mp hfr.2
    rw [foldWf_noTE dn [48] 0 (by decide) r.fields _
      (fun kv hkv => ⟨hte kv hkv, htr kv hkv, fun hc => absurd hc (hcl kv hkv)⟩) (Or.inr hfr.1)]
    simp [st0, expectedHead, hb, framingCl, hfr.1]
  | fixed b =>
    rw [hb] at hfr
    simp only [wfFraming, Bool.and_eq_true, Bool.not_eq_true', List.all_eq_true, Bool.or_eq_true, bne_iff_ne,
      ne_eq, beq_iff_eq, decide_eq_true_eq] at hfr
    obtain ⟨⟨⟨⟨hte, hcl⟩, hall⟩, hdec⟩, hlt⟩ := hfr
    have hte := (hasCls_false_iff _ _).mp hte
    have hp := parseUint_of_parseDec _ _ hdec hlt
    rw [foldWf_noTE dn (pick .cl r.fields []) b.length hp r.fields _
      (fun kv hkv => ⟨hte kv hkv, htr kv hkv, fun hc => by
        rcases hall kv hkv with h1 | h1
        · exact absurd hc h1
        · exact h1⟩) (Or.inl (by simp [st0]))]
    simp [st0, expectedHead, hb, framingCl, hcl]
  | chunked cs last trs =>
    rw [hb] at hfr
    simp only [wfFraming, Bool.and_eq_true, Bool.not_eq_true', List.all_eq_true, beq_iff_eq] at hfr
    obtain ⟨⟨⟨⟨⟨⟨⟨hcl, hlen⟩, hval⟩, _⟩, _⟩, _⟩, _⟩, _⟩ := hfr
    obtain ⟨te, hte1⟩ : ∃ te, teFields r.fields = [te] := by
      match hm : teFields r.fields, hlen with
      | [te], _ => exact ⟨te, rfl⟩
    have hteval := hval te (by rw [hte1]; simp)
    unfold teFields at hte1
    obtain ⟨pre, post, hsplit, hpre, hpte, hpost⟩ := List.filter_eq_cons_iff.mp hte1
    have hpre' : ∀ kv ∈ pre, cls kv.1 ≠ .te := fun kv hkv => by simpa [cls_beq] using hpre kv hkv
    have hpost' : ∀ kv ∈ post, cls kv.1 ≠ .te := fun kv hkv => by
      have := List.filter_eq_nil_iff.mp hpost kv hkv
      simpa [cls_beq] using this
    have hcte : cls te.1 = .te := by simpa [cls_beq] using hpte
    have hclall := (hasCls_false_iff _ _).mp hcl
    have hmem_pre : ∀ kv ∈ pre, kv ∈ r.fields := fun kv hkv => by rw [hsplit]; simp [hkv]
    have hmem_post : ∀ kv ∈ post, kv ∈ r.fields := fun kv hkv => by rw [hsplit]; simp [hkv]
    have hclpre : hasCls .cl pre = false := (hasCls_false_iff _ _).mpr (fun kv hkv => hclall kv (hmem_pre kv hkv))
    have hclpost : hasCls .cl post = false := (hasCls_false_iff _ _).mpr (fun kv hkv => hclall kv (hmem_post kv hkv))
    have hnid : te.2 ≠ strIdentity := by
      intro hid; rw [hid] at hteval; exact absurd hteval (by decide)
    have e1 := foldWf_noTE dn [48] 0 (by decide) pre (st0 r.method r.target)
      (fun kv hkv => ⟨hpre' kv hkv, htr kv (hmem_pre kv hkv), fun hc => absurd hc (hclall kv (hmem_pre kv hkv))⟩)
      (Or.inr hclpre)
    rw [hsplit, foldWf_append, e1]
    have e2 : foldWf dn {
          head := { (st0 r.method r.target).head with
          host := pick .host pre (st0 r.method r.target).head.host,
          userAgent := pick .ua pre (st0 r.method r.target).head.userAgent,
          contentType := pick .ct pre (st0 r.method r.target).head.contentType,
          cl := bif hasCls .cl pre then ((0 : Nat) : Int) else (st0 r.method r.target).head.cl,
          clBytes := bif hasCls .cl pre then [48] else (st0 r.method r.target).head.clBytes,
          connClose := pickClose pre (st0 r.method r.target).head.connClose,
          h := (st0 r.method r.target).head.h ++ pre.filterMap (generic dn),
          trailer := pickT dn pre (st0 r.method r.target).head.trailer },
          err := (st0 r.method r.target).err } (te :: post) =
        foldWf dn {
          head := { (st0 r.method r.target).head with
          host := pick .host pre [], userAgent := pick .ua pre [], contentType := pick .ct pre [],
          cl := -1, connClose := pickClose pre false,
          h := pre.filterMap (generic dn) ++ [(strTransferEncoding, strChunked)],
          trailer := pickT dn pre [] }, err := false } post := by
      show foldWf dn (applyWf dn _ te.1 te.2) post = _
      congr 1
      simp only [applyWf, hcte, hclpre, st0, cond_false, List.nil_append]
      have hb : (te.2 != strIdentity) = true := by simpa using hnid
      simp only [hb, if_true]
      rw [setArg_fresh _ _ _ (generic_key_ne_te dn pre hpre')]
    rw [e2, foldWf_noTE dn [48] 0 (by decide) post _
      (fun kv hkv => ⟨hpost' kv hkv, htr kv (hmem_post kv hkv), fun hc => absurd hc (hclall kv (hmem_post kv hkv))⟩)
      (Or.inr hclpost)]
    have hg : generic dn te = some (strTransferEncoding, strChunked) := by
      simp [generic, hcte, hnid]
    simp [st0, expectedHead, hb, framingCl, hclpost, hsplit, pick_append, pickClose_append, pickT_append, pick,
      pickClose, pickT, hcte, List.filterMap_append, hg]

/-! ### stage 1: the head -/

theorem encFields_length_ge : ∀ fs : List (Bytes × Bytes), fs.length ≤ (encFields fs).length
  | [] => by simp [encFields]
  | kv :: fs => by
    have := encFields_length_ge fs
    rw [encFields_length_cons]; simp; omega

theorem framingCl_fixed_nonneg (r : WReq) : (expectedHead dn r).cl < 0 → (expectedHead dn r).clBytes = [] := by
  intro h
  unfold expectedHead at h ⊢
  cases hb : r.body with
  | none => simp
  | chunked _ _ _ => simp
  | fixed b => simp [hb, framingCl] at h; omega

theorem parseHeaders_enc (dn : Bool) (r : WReq) (h : wfReq dn r = true) (rest : Bytes) :
    parseHeaders dn { method := r.method, uri := r.target, http11 := true } (encFields r.fields ++ 13 :: 10 :: rest) =
      .ok (expectedHead dn r, (encFields r.fields).length + 2) := by
  obtain ⟨_, _, hf, _, _⟩ := wfReq_facts r h
  unfold parseHeaders
  have hloop := parseHeadersLoop_enc dn r.fields (st0 r.method r.target) 0
    ((encFields r.fields ++ 13 :: 10 :: rest).length + 1) rest hf (by
      have := encFields_length_ge r.fields
      simp; omega)
  have hst : ({ head := { ({ method := r.method, uri := r.target, http11 := true } : ReqHead) with cl := -2 } } : HdrState) =
      st0 r.method r.target := rfl
  rw [hst, hloop, foldWf_wfReq dn r h]
  simp only [finishLoop, Bool.false_eq_true, if_false, bind, Except.bind]
  have h11 : (expectedHead dn r).http11 = true := rfl
  by_cases hneg : (expectedHead dn r).cl < 0
  · have hcb := framingCl_fixed_nonneg (dn := dn) r hneg
    simp only [hneg, if_true, h11]
    revert h11 hcb
    generalize expectedHead dn r = E
    intro h11 hcb
    cases E
    simp_all
  · simp only [hneg, if_false, h11]
    simp


theorem encHeadOf_length (r : WReq) :
    (encHeadOf r).length = r.method.length + 1 + r.target.length + 1 + 8 + 2 + ((encFields r.fields).length + 2) := by
  simp [encHeadOf, encHead, strHTTP11]; omega

/-- Stage 1. The head of a well-formed request, followed by anything, is parsed as exactly that head and
exactly its bytes are consumed. -/
theorem parseReqHead_enc (dn : Bool) (r : WReq) (h : wfReq dn r = true) (rest : Bytes) :
    parseReqHead dn (encHeadOf r ++ rest) = .ok (expectedHead dn r, (encHeadOf r).length) := by
  obtain ⟨hm, ht, hf, _, _⟩ := wfReq_facts r h
  have e : encHeadOf r ++ rest =
      r.method ++ 32 :: (r.target ++ 32 :: (strHTTP11 ++ 13 :: 10 :: (encFields r.fields ++ 13 :: 10 :: rest))) := by
    simp [encHeadOf, encHead]
  have hdrop : List.drop (r.method.length + 1 + r.target.length + 1 + 8 + 2)
      (r.method ++ 32 :: (r.target ++ 32 :: (strHTTP11 ++ 13 :: 10 :: (encFields r.fields ++ 13 :: 10 :: rest)))) =
      encFields r.fields ++ 13 :: 10 :: rest := by
    have e2 : r.method ++ 32 :: (r.target ++ 32 :: (strHTTP11 ++ 13 :: 10 :: (encFields r.fields ++ 13 :: 10 :: rest))) =
        (r.method ++ 32 :: (r.target ++ 32 :: (strHTTP11 ++ [13, 10]))) ++ (encFields r.fields ++ 13 :: 10 :: rest) := by
      simp
    rw [e2]
    exact List.drop_left' (by simp [strHTTP11]; omega)
  obtain ⟨n, hraw⟩ := rawHeaders_encFields r.fields rest hf
  unfold parseReqHead
  rw [e, parseFirstLine_enc r.method r.target _ hm ht]
  simp only [bind, Except.bind, hdrop, hraw, parseHeaders_enc dn r h rest]
  rw [encHeadOf_length]

/-! ### stage 2: bodies -/

def encChunk (c : Chunk) : Bytes := c.size ++ 13 :: 10 :: (c.data ++ [13, 10])

def encChunks : List Chunk → Bytes
  | [] => []
  | c :: t => encChunk c ++ encChunks t

def chunkData : List Chunk → Bytes
  | [] => []
  | c :: t => c.data ++ chunkData t

/-- the body as sent; a chunked body ends with the zero size line, the trailer section and an empty line -/
def encBody : WBody → Bytes
  | .none => []
  | .fixed b => b
  | .chunked cs last trs => encChunks cs ++ (last ++ 13 :: 10 :: (encFields trs ++ [13, 10]))

/-- the body as meant -/
def bodyOf : WBody → Bytes
  | .none => []
  | .fixed b => b
  | .chunked cs _ _ => chunkData cs

set_option maxRecDepth 100000 in
theorem tbl_hex : allBytes (fun c => match hexDigitVal c with
    | some d => hex2int c != 16 && (hex2int c).toNat == d
    | none => true) = true := by decide +kernel

theorem hex_facts (c : UInt8) (d : Nat) (h : hexDigitVal c = some d) : hex2int c ≠ 16 ∧ (hex2int c).toNat = d := by
  have := allBytes_spec tbl_hex c
  rw [h] at this
  simpa using this

def hexStep (n : Nat) (c : UInt8) : Option Nat := (hexDigitVal c).map (fun d => n * 16 + d)

theorem readHexIntAux_digits (e : End) (c : UInt8) (t : Bytes) (hc : hex2int c = 16) :
    ∀ (hx : Bytes) (n i v : Nat), hx.foldlM hexStep n = some v → i + hx.length ≤ 15 → (0 < i ∨ hx ≠ []) →
    readHexIntAux e n i (hx ++ c :: t) = .ok (v, c :: t)
  | [], n, i, v, hv, _, hi => by
    have hi0 : i ≠ 0 := by
      rcases hi with h | h
      · omega
      · exact absurd rfl h
    simp only [List.foldlM_nil, pure, Option.some.injEq] at hv
    simp [readHexIntAux, hc, hi0, hv]
  | d :: hx, n, i, v, hv, hlen, _ => by
    simp only [List.foldlM_cons, bind, Option.bind] at hv
    cases hd : hexStep n d with
    | none => simp [hd] at hv
    | some n' =>
      simp only [hd] at hv
      unfold hexStep at hd
      cases hdv : hexDigitVal d with
      | none => simp [hdv] at hd
      | some dv =>
        simp only [hdv, Option.map_some, Option.some.injEq] at hd
        obtain ⟨h16, hval⟩ := hex_facts d dv hdv
        have ih := readHexIntAux_digits e c t hc hx n' (i + 1) v hv (by simp at hlen; omega) (Or.inl (by omega))
        have hmax : ¬ (i ≥ Gen.maxHexIntChars.toNat) := by
          simp [Gen.maxHexIntChars] at hlen ⊢; omega
        simp only [List.cons_append, readHexIntAux, h16, if_false, hmax, hval, hd, ih]

theorem hex2int_cr : hex2int 13 = 16 := by decide +kernel

theorem parseChunkSize_enc (e : End) (hx t : Bytes) (v : Nat) (h : parseHex hx = some v) (hlen : hx.length ≤ 15) :
    parseChunkSize e (hx ++ 13 :: 10 :: t) = .ok (v, t) := by
  unfold parseHex at h
  split at h
  · cases h
  · rename_i hne
    have hne' : hx ≠ [] := by simpa using hne
    have := readHexIntAux_digits e 13 (10 :: t) hex2int_cr hx 0 0 v h (by omega) (Or.inr hne')
    simp [parseChunkSize, readHexInt, this, chunkSizeTail]

theorem wfChunk_facts (c : Chunk) (h : wfChunk c = true) :
    c.data ≠ [] ∧ c.size.length ≤ 15 ∧ parseHex c.size = some c.data.length := by
  simp only [wfChunk, Bool.and_eq_true, Bool.not_eq_true', List.isEmpty_eq_false_iff, decide_eq_true_eq,
    beq_iff_eq] at h
  exact ⟨h.1.1, h.1.2, h.2⟩

theorem takeBody_enc (e : End) (data rest : Bytes) :
    takeBody e (data.length + 2) (data ++ 13 :: 10 :: rest) = .ok (data ++ [13, 10], rest) := by
  have e1 : data ++ 13 :: 10 :: rest = (data ++ [13, 10]) ++ rest := by simp
  have h1 : List.take (data.length + 2) (data ++ 13 :: 10 :: rest) = data ++ [13, 10] := by
    rw [e1]; exact List.take_left' (by simp)
  have h2 : List.drop (data.length + 2) (data ++ 13 :: 10 :: rest) = rest := by
    rw [e1]; exact List.drop_left' (by simp)
  simp [takeBody, takeN, h1, h2]

/-- the chunk loop reads back the chunks and stops after the zero size line -/
theorem readBodyChunked_enc (e : End) (maxBody : Nat) (last rest : Bytes) (hl0 : parseHex last = some 0)
    (hl15 : last.length ≤ 15) :
    ∀ (cs : List Chunk) (dst : Bytes) (fuel : Nat), cs.length < fuel → (∀ c ∈ cs, wfChunk c = true) →
    (maxBody = 0 ∨ dst.length + (chunkData cs).length ≤ maxBody) →
    readBodyChunked e maxBody fuel dst (encChunks cs ++ (last ++ 13 :: 10 :: rest)) = .ok (dst ++ chunkData cs, rest)
  | [], dst, fuel, hf, _, _ => by
    obtain ⟨f, rfl⟩ : ∃ f, fuel = f + 1 := ⟨fuel - 1, by omega⟩
    simp [readBodyChunked, encChunks, chunkData, parseChunkSize_enc e last rest 0 hl0 hl15, bind, Except.bind]
  | c :: cs, dst, fuel, hf, hw, hmax => by
    obtain ⟨f, rfl⟩ : ∃ f, fuel = f + 1 := ⟨fuel - 1, by omega⟩
    obtain ⟨hd0, h15, hsz⟩ := wfChunk_facts c (hw c (by simp))
    have e1 : encChunks (c :: cs) ++ (last ++ 13 :: 10 :: rest) =
        c.size ++ 13 :: 10 :: (c.data ++ 13 :: 10 :: (encChunks cs ++ (last ++ 13 :: 10 :: rest))) := by
      simp [encChunks, encChunk]
    have hlen0 : c.data.length ≠ 0 := by
      intro h0; exact hd0 (List.length_eq_zero_iff.mp h0)
    have hnot : ¬ (maxBody > 0 ∧ dst.length + c.data.length > maxBody) := by
      simp only [chunkData, List.length_append] at hmax
      omega
    have ih := readBodyChunked_enc e maxBody last rest hl0 hl15 cs (dst ++ c.data) f (by simp at hf; omega)
      (fun x hx => hw x (by simp [hx])) (by
        simp only [chunkData, List.length_append] at hmax ⊢
        omega)
    rw [e1]
    simp only [readBodyChunked, parseChunkSize_enc e c.size _ _ hsz h15, bind, Except.bind, hlen0, if_false, hnot,
      takeBody_enc]
    have h3 : List.drop c.data.length (c.data ++ [13, 10]) = [13, 10] := List.drop_left' rfl
    have h4 : List.take c.data.length (c.data ++ [13, 10]) = c.data := List.take_left' rfl
    simp only [h3, h4, strCRLF, ne_eq, not_true_eq_false, if_false, ih, chunkData, List.append_assoc]

/-! ### the trailer section -/

def filled (l : List (Bytes × Bytes)) : List (Bytes × Option Bytes) := l.map (fun kv => (kv.1, some kv.2))

/-- trailer fields as the handler sees them: names normalised -/
def normT (dn : Bool) (l : List (Bytes × Bytes)) : List (Bytes × Bytes) := l.map (fun kv => (normalizeKey dn kv.1, kv.2))

def unfilledN (dn : Bool) (l : List (Bytes × Bytes)) : List (Bytes × Option Bytes) :=
  l.map (fun kv => (normalizeKey dn kv.1, none))

theorem updateTrailer_fill : ∀ (pre : List (Bytes × Bytes)) (k v : Bytes) (suf : List (Bytes × Option Bytes)),
    updateTrailer (filled pre ++ (k, none) :: suf) k v = filled pre ++ (k, some v) :: suf
  | [], k, v, suf => by simp [filled, updateTrailer]
  | p :: pre, k, v, suf => by
    have ih := updateTrailer_fill pre k v suf
    simp only [filled, List.map_cons, List.cons_append] at ih ⊢
    simp [updateTrailer, ih]

theorem filledTrailers_filled (l : List (Bytes × Bytes)) : filledTrailers (filled l) = l := by
  induction l with
  | nil => rfl
  | cons a t ih => simp only [filledTrailers, filled, List.map_cons, List.map_map] at ih ⊢; rw [ih]; rfl

/-- the scanning loop of `parseTrailer` on an encoded trailer section whose names are the declared ones, in order -/
theorem parseTrailerLoop_enc (dn : Bool) : ∀ (todo done : List (Bytes × Bytes)) (rest : Bytes) (hlen fuel : Nat),
    (∀ kv ∈ todo, wfField kv = true ∧ isBadTrailer (normalizeKey dn kv.1) = false) → todo.length < fuel →
    parseTrailerLoop dn fuel (encFields todo ++ 13 :: 10 :: rest) (filled done ++ unfilledN dn todo) false hlen =
      .ok (filled (done ++ normT dn todo), hlen + (encFields todo).length + 2)
  | [], done, rest, hlen, fuel, _, hf => by
    obtain ⟨f, rfl⟩ : ∃ f, fuel = f + 1 := ⟨fuel - 1, by omega⟩
    simp [encFields, parseTrailerLoop, scanNext, unfilledN, normT]
  | kv :: todo, done, rest, hlen, fuel, h, hf => by
    obtain ⟨f, rfl⟩ : ∃ f, fuel = f + 1 := ⟨fuel - 1, by omega⟩
    obtain ⟨hw, hbad⟩ := h kv (by simp)
    simp only [wfField, Bool.and_eq_true] at hw
    have hrest : ∀ kv ∈ todo, wfField kv = true := fun x hx => (h x (by simp [hx])).1
    obtain ⟨h0, h32, h9⟩ := normalizeKey_facts dn kv.1 hw.1
    have hemp : (normalizeKey dn kv.1).isEmpty = false := by
      cases hh : normalizeKey dn kv.1 with
      | nil => exact absurd hh h0
      | cons _ _ => rfl
    have e : encFields (kv :: todo) ++ 13 :: 10 :: rest =
        kv.1 ++ 58 :: 32 :: (kv.2 ++ 13 :: 10 :: (encFields todo ++ 13 :: 10 :: rest)) := by
      simp [encFields, encField]
    have hst : updateTrailer (filled done ++ unfilledN dn (kv :: todo)) (normalizeKey dn kv.1) kv.2 =
        filled (done ++ [(normalizeKey dn kv.1, kv.2)]) ++ unfilledN dn todo := by
      have := updateTrailer_fill done (normalizeKey dn kv.1) kv.2 (unfilledN dn todo)
      simp only [unfilledN, List.map_cons, filled, List.map_append, List.map_nil, List.append_assoc, List.cons_append,
        List.nil_append] at this ⊢
      exact this
    have ih := parseTrailerLoop_enc dn todo (done ++ [(normalizeKey dn kv.1, kv.2)]) rest
      (hlen + (kv.1.length + kv.2.length + 4)) f (fun x hx => h x (by simp [hx])) (by simp at hf; omega)
    rw [e]
    simp only [parseTrailerLoop, scanNext_field dn kv.1 kv.2 _ hw.1 hw.2 (contExtra_block todo rest hrest), hemp, h32,
      h9, hbad, Bool.false_eq_true, if_false, Bool.or_self, hst, ih, encFields_length_cons]
    simp [normT, Nat.add_assoc]

/-- `ext.ReadTrailer` on an encoded trailer section, with the names declared in the head -/
theorem readTrailerReq_enc (cfg : Cfg) (e : End) (trs : List (Bytes × Bytes)) (rest : Bytes)
    (h : ∀ kv ∈ trs, wfField kv = true ∧ isBadTrailer (normalizeKey cfg.disableNorm kv.1) = false) :
    readTrailerReq cfg e (trs.map (fun kv => normalizeKey cfg.disableNorm kv.1)) (encFields trs ++ 13 :: 10 :: rest) =
      .ok (some (normT cfg.disableNorm trs), rest) := by
  have hloop := parseTrailerLoop_enc cfg.disableNorm trs [] rest 0 ((encFields trs ++ 13 :: 10 :: rest).length + 1) h (by
    have := encFields_length_ge trs
    simp only [List.length_append]; omega)
  simp only [filled, List.map_nil, List.nil_append, Nat.zero_add] at hloop
  have hu : (trs.map (fun kv => normalizeKey cfg.disableNorm kv.1)).map (fun k => (k, (none : Option Bytes))) =
      unfilledN cfg.disableNorm trs := by simp [unfilledN]
  have hpt : parseTrailer cfg.disableNorm (unfilledN cfg.disableNorm trs) (encFields trs ++ 13 :: 10 :: rest) =
      .ok (filled (normT cfg.disableNorm trs), (encFields trs).length + 2) := by
    cases trs with
    | nil => simpa [parseTrailer, encFields, filled] using hloop
    | cons kv t =>
      obtain ⟨hw, _⟩ := h kv (by simp)
      simp only [wfField, Bool.and_eq_true] at hw
      obtain ⟨hk0, hkf⟩ := token_facts kv.1 hw.1
      obtain ⟨a, k', hk⟩ := List.exists_cons_of_ne_nil hk0
      have e : encFields (kv :: t) ++ 13 :: 10 :: rest =
          a :: (k' ++ 58 :: 32 :: (kv.2 ++ 13 :: 10 :: (encFields t ++ 13 :: 10 :: rest))) := by
        simp [encFields, encField, hk]
      rw [e] at hloop ⊢
      unfold parseTrailer
      split
      · rename_i r48 heq
        simp only [List.cons.injEq] at heq
        obtain ⟨ha, hr⟩ := heq
        subst hr
        have h3 : ¬ ((a :: (k' ++ 58 :: 32 :: (kv.2 ++ 13 :: 10 :: (encFields t ++ 13 :: 10 :: rest)))).length < 3) := by
          simp; omega
        have htk : ¬ (List.take 2 (k' ++ 58 :: 32 :: (kv.2 ++ 13 :: 10 :: (encFields t ++ 13 :: 10 :: rest))) = strCRLF) := by
          cases k' with
          | nil => simp [strCRLF]
          | cons c k'' =>
            have := (hkf c (by simp [hk])).ne13
            simp [strCRLF, this]
        simp only [h3, if_false, htk]
        simp only [filled] at hloop ⊢
        exact hloop
      · simp only [filled] at hloop ⊢
        exact hloop
  have hne : (encFields trs ++ 13 :: 10 :: rest).isEmpty = false := by simp
  unfold readTrailerReq
  simp only [hne, Bool.false_eq_true, if_false]
  rw [hu, hpt]
  have hd : List.drop ((encFields trs).length + 2) (encFields trs ++ 13 :: 10 :: rest) = rest := by
    have e2 : encFields trs ++ 13 :: 10 :: rest = (encFields trs ++ [13, 10]) ++ rest := by simp
    rw [e2]; exact List.drop_left' (by simp)
  simp [filledTrailers_filled, hd]

theorem wfTName_notbad {dn : Bool} {k : Bytes} (h : wfTName dn k = true) : isBadTrailer (normalizeKey dn k) = false :=
  (wfTName_parts h).2.2

/-- every name kept from a clean `Trailer` declaration is an allowed one -/
theorem pickT_notbad (dn : Bool) : ∀ (fs : List (Bytes × Bytes)) (d : List Bytes),
    (∀ kv ∈ fs, cls kv.1 = .trailer → declOk dn kv.2 = true) → (∀ k ∈ d, isBadTrailer k = false) →
    ∀ k ∈ pickT dn fs d, isBadTrailer k = false
  | [], d, _, hd => by simpa [pickT] using hd
  | kv :: fs, d, h, hd => by
    simp only [pickT]
    apply pickT_notbad dn fs _ (fun x hx => h x (by simp [hx]))
    by_cases hc : cls kv.1 = .trailer
    · simp only [hc, if_true]
      have hok := h kv (by simp) hc
      simp only [declOk, Bool.and_eq_true, List.all_eq_true] at hok
      intro k hk
      rcases List.mem_append.mp hk with hk | hk
      · exact hd k hk
      · simp only [declNames, List.mem_map] at hk
        obtain ⟨k', hk', rfl⟩ := hk
        exact wfTName_notbad (hok.1 k' hk')
    · simpa [hc] using hd

/-- the configured limits do not apply to `r`: body within `MaxRequestBodySize` (0 = unlimited), and the
multipart pre-parser (Go's `mime/multipart`, not modelled) is not invoked -/
def withinLimits (cfg : Cfg) (r : WReq) : Bool :=
  (cfg.maxBody == 0 || decide ((bodyOf r.body).length ≤ cfg.maxBody)) &&
  !(cfg.preParse && mIMEFormData.isPrefixOf (pick .ct r.fields []))

/-- what the handler is to see of `r` (head after `ContinueReadBody`: a request without framing field that is
not GET/HEAD, and every chunked request, gets `Content-Length` set to the body length; trailers: the fields of the
trailer section with normalised names; for a request that is not chunked, the declared names with empty values) -/
def expectedSeen (dn : Bool) (r : WReq) : Seen :=
  let hd := expectedHead dn r
  { head := (match r.body with
      | .none => if isGetOrHead hd then hd else setContentLength hd 0
      | .fixed b => if b.isEmpty then setContentLength hd 0 else hd
      | .chunked cs _ _ => setContentLength hd (chunkData cs).length),
    body := bodyOf r.body,
    trailers := (match r.body with
      | .chunked _ _ trs => normT dn trs
      | _ => (pickT dn r.fields []).map (fun k => (k, []))) }

theorem encChunks_length_ge : ∀ cs : List Chunk, cs.length ≤ (encChunks cs).length
  | [] => by simp [encChunks]
  | c :: t => by
    have := encChunks_length_ge t
    simp [encChunks, encChunk]; omega

/-- Stage 2. After the head, the body reader returns exactly the body (and the trailers) and leaves exactly what
follows the encoding. -/
theorem continueReadBody_enc (cfg : Cfg) (e : End) (r : WReq) (h : wfReq cfg.disableNorm r = true)
    (hlim : withinLimits cfg r = true) (rest : Bytes) :
    continueReadBody cfg e (expectedHead cfg.disableNorm r) (encBody r.body ++ rest) =
      .ok (expectedSeen cfg.disableNorm r).head (expectedSeen cfg.disableNorm r).body
        (expectedSeen cfg.disableNorm r).trailers rest := by
  obtain ⟨_, _, _, hdecl, hfr⟩ := wfReq_facts r h
  simp only [withinLimits, Bool.and_eq_true, Bool.or_eq_true, beq_iff_eq, decide_eq_true_eq, Bool.not_eq_true',
    Bool.and_eq_false_iff] at hlim
  obtain ⟨hmax, hpre⟩ := hlim
  have htr : (expectedHead cfg.disableNorm r).trailer = pickT cfg.disableNorm r.fields [] := rfl
  have hct : (expectedHead cfg.disableNorm r).contentType = pick .ct r.fields [] := rfl
  cases hb : r.body with
  | none =>
    have hcl : (expectedHead cfg.disableNorm r).cl = -2 := by simp [expectedHead, hb, framingCl]
    unfold continueReadBody
    simp [hcl, htr, expectedSeen, hb, encBody, bodyOf]
  | fixed b =>
    have hcl : (expectedHead cfg.disableNorm r).cl = (b.length : Int) := by simp [expectedHead, hb, framingCl]
    unfold continueReadBody
    rw [hb] at hmax
    simp only [bodyOf] at hmax
    by_cases hb0 : b = []
    · subst hb0
      simp [hcl, htr, expectedSeen, hb, encBody, bodyOf]
    · have hpos : (0 : Int) < (b.length : Int) := by
        have : b.length ≠ 0 := fun h0 => hb0 (List.length_eq_zero_iff.mp h0)
        omega
      have hnot : ¬ (cfg.maxBody > 0 ∧ b.length > cfg.maxBody) := by omega
      have hpp : (cfg.preParse && mIMEFormData.isPrefixOf (pick .ct r.fields [])) = false := by
        rcases hpre with h1 | h1 <;> simp [h1]
      have hbe : b.isEmpty = false := by simpa using hb0
      simp only [hcl, hpos, if_true, Int.toNat_natCast, hnot, if_false, hct, hpp, Bool.false_eq_true, takeN,
        encBody, List.length_append, htr, expectedSeen, hb, bodyOf, hbe]
      simp
  | chunked cs last trs =>
    have hcl : (expectedHead cfg.disableNorm r).cl = -1 := by simp [expectedHead, hb, framingCl]
    rw [hb] at hfr hmax
    simp only [wfFraming, Bool.and_eq_true, List.all_eq_true, beq_iff_eq, decide_eq_true_eq] at hfr
    obtain ⟨⟨⟨⟨⟨_, hcs⟩, hl15⟩, hl0⟩, htw⟩, hnames⟩ := hfr
    simp only [bodyOf] at hmax
    have hrd := readBodyChunked_enc e cfg.maxBody last (encFields trs ++ 13 :: 10 :: rest) hl0 hl15 cs []
      ((encBody (.chunked cs last trs) ++ rest).length + 1) (by
        have := encChunks_length_ge cs
        simp [encBody]; omega) hcs (by simpa using hmax)
    have e1 : encBody (.chunked cs last trs) ++ rest =
        encChunks cs ++ (last ++ 13 :: 10 :: (encFields trs ++ 13 :: 10 :: rest)) := by
      simp [encBody]
    have hnb := pickT_notbad cfg.disableNorm r.fields [] hdecl (by simp)
    have htrl := readTrailerReq_enc cfg e trs rest (fun kv hkv => ⟨htw kv hkv, hnb _ (by
      rw [← hnames]; exact List.mem_map_of_mem (f := fun kv => normalizeKey cfg.disableNorm kv.1) hkv)⟩)
    unfold continueReadBody
    simp only [hcl]
    rw [e1] at hrd ⊢
    simp only [show ¬ ((-1 : Int) > 0) by decide, if_false, show ¬ ((-1 : Int) = -2) by decide, if_true, hrd,
      List.nil_append, htr, ← hnames, htrl]
    simp [expectedSeen, hb, bodyOf]

/-! ### stage 3: one request, then the keep-alive loop -/

def encReq (r : WReq) : Bytes := encHeadOf r ++ encBody r.body

def encAll : List WReq → Bytes
  | [] => []
  | r :: t => encReq r ++ encAll t

/-- the requests handed to the handler, in order -/
def handled (evs : List Ev) : List Seen :=
  evs.filterMap (fun ev => match ev with | .req s => some s | _ => none)

/-- does `r` ask to close the connection (its last `Connection` field is `close`, in any letter case)? -/
def closes (r : WReq) : Bool := pickClose r.fields false

/-- the requests that are to be served: up to and including the first that asks to close (only the first
request when keep-alive is disabled) -/
def served (disableKeepalive : Bool) : List WReq → List WReq
  | [] => []
  | r :: t => if disableKeepalive || closes r then [r] else r :: served disableKeepalive t

theorem expectedSeen_connClose (dn : Bool) (r : WReq) : (expectedSeen dn r).head.connClose = closes r := by
  unfold expectedSeen closes
  cases hb : r.body with
  | none => simp only; split <;> rfl
  | fixed b => simp only; split <;> rfl
  | chunked cs last trs => rfl

/-- one turn of the keep-alive loop on an encoded request -/
theorem serveLoop_step (cfg : Cfg) (e : End) (r : WReq) (h : wfReq cfg.disableNorm r = true) (hlim : withinLimits cfg r = true)
    (fuel : Nat) (first : Bool) (rest : Bytes) :
    serveLoop cfg e (fuel + 1) first (encReq r ++ rest) =
      (if mayContinue (expectedHead cfg.disableNorm r) then [Ev.continue100] else []) ++
      [.req (expectedSeen cfg.disableNorm r), .resp 200 (cfg.disableKeepalive || closes r)] ++
      (if (cfg.disableKeepalive || closes r) = true then [] else serveLoop cfg e fuel false rest) := by
  have hlen : ¬ ((encReq r ++ rest).length < 4) := by
    have := encHeadOf_length r
    simp [encReq]; omega
  have e1 : encReq r ++ rest = encHeadOf r ++ (encBody r.body ++ rest) := by simp [encReq]
  have hdrop : List.drop (encHeadOf r).length (encHeadOf r ++ (encBody r.body ++ rest)) = encBody r.body ++ rest :=
    List.drop_left' rfl
  generalize hT : serveLoop cfg e fuel false rest = T
  have hstep : ∀ s, serveLoop cfg e (fuel + 1) first s =
      (if (!first && decide (s.length < 4)) = true then [] else
        match parseReqHead cfg.disableNorm s with
        | .error .bad => [.resp 400 true]
        | .error .needMore =>
          if s.isEmpty then (match e with | .eof => [] | .stall => [.resp 408 true])
          else (match e with | .eof => [.resp 400 true] | .stall => [.resp 408 true])
        | .ok (hd, n) =>
          match continueReadBody cfg e hd (s.drop n) with
          | .err .unmodelled => (if mayContinue hd then [Ev.continue100] else []) ++ [.unmodelled]
          | .err x =>
            (if mayContinue hd then [Ev.continue100] else []) ++
              (match errStatus x with
               | some st => [.resp st true]
               | none => if mayContinue hd then [.resp 400 true] else [])
          | .ok hd' body tr rest' =>
            (if mayContinue hd then [Ev.continue100] else []) ++
              [.req { head := hd', body := body, trailers := tr }, .resp 200 (cfg.disableKeepalive || hd'.connClose)] ++
              (if (cfg.disableKeepalive || hd'.connClose) = true then [] else serveLoop cfg e fuel false rest')) := by
    intro s; rfl
  rw [hstep]
  simp only [hlen, Bool.and_false, Bool.false_eq_true, if_false, decide_false]
  rw [e1, parseReqHead_enc cfg.disableNorm r h]
  simp only [hdrop, continueReadBody_enc cfg e r h hlim rest, expectedSeen_connClose]
  rw [hT]


theorem handled_pre (b : Bool) : handled (if b then [Ev.continue100] else []) = [] := by
  cases b <;> rfl

theorem encReq_length_pos (r : WReq) : 0 < (encReq r).length := by
  have := encHeadOf_length r
  simp [encReq]; omega

theorem encAll_length_ge : ∀ rs : List WReq, rs.length ≤ (encAll rs).length
  | [] => by simp
  | r :: t => by
    have := encAll_length_ge t
    have := encReq_length_pos r
    simp [encAll]; omega

/-- Stage 3. The keep-alive loop hands the handler exactly the requests to be served, in order. -/
theorem serveLoop_enc (cfg : Cfg) (e : End) : ∀ (rs : List WReq) (fuel : Nat) (first : Bool), rs.length < fuel →
    (∀ r ∈ rs, wfReq cfg.disableNorm r = true ∧ withinLimits cfg r = true) →
    handled (serveLoop cfg e fuel first (encAll rs)) =
      (served cfg.disableKeepalive rs).map (expectedSeen cfg.disableNorm)
  | [], fuel, first, hf, _ => by
    obtain ⟨f, rfl⟩ : ∃ f, fuel = f + 1 := ⟨fuel - 1, by omega⟩
    have hp : parseReqHead cfg.disableNorm [] = .error .needMore := by
      simp [parseReqHead, parseFirstLine, parseFirstLineAux, nextLine, indexByte, bind, Except.bind]
    cases first <;> cases e <;> simp [serveLoop, encAll, served, handled, hp]
  | r :: rs, fuel, first, hf, hw => by
    obtain ⟨f, rfl⟩ : ∃ f, fuel = f + 1 := ⟨fuel - 1, by omega⟩
    obtain ⟨hwf, hlim⟩ := hw r (by simp)
    have ih := serveLoop_enc cfg e rs f false (by simp at hf; omega) (fun x hx => hw x (by simp [hx]))
    have e1 : encAll (r :: rs) = encReq r ++ encAll rs := rfl
    rw [e1, serveLoop_step cfg e r hwf hlim]
    unfold handled at ih ⊢
    simp only [List.filterMap_append]
    have hp := handled_pre (mayContinue (expectedHead cfg.disableNorm r))
    unfold handled at hp
    rw [hp]
    cases hc : (cfg.disableKeepalive || closes r)
    · simp [served, hc, ih]
    · simp [served, hc]

theorem serve_enc (cfg : Cfg) (e : End) (rs : List WReq)
    (hw : ∀ r ∈ rs, wfReq cfg.disableNorm r = true ∧ withinLimits cfg r = true) :
    handled (serve cfg e (encAll rs)) = (served cfg.disableKeepalive rs).map (expectedSeen cfg.disableNorm) :=
  serveLoop_enc cfg e rs _ true (by have := encAll_length_ge rs; omega) hw

theorem served_all : ∀ rs : List WReq, (∀ r ∈ rs.dropLast, closes r = false) → served false rs = rs
  | [], _ => rfl
  | [r], _ => by simp [served]
  | r :: r' :: t, h => by
    have h1 : closes r = false := h r (by simp [List.dropLast])
    have ih := served_all (r' :: t) (fun x hx => h x (by simp [List.dropLast] at hx ⊢; exact Or.inr hx))
    simp [served, h1] at ih ⊢
    exact ih

/-- the handler's view carries the request's own method, target and body -/
theorem expectedSeen_own (dn : Bool) (r : WReq) :
    (expectedSeen dn r).head.method = r.method ∧ (expectedSeen dn r).head.uri = r.target ∧
    (expectedSeen dn r).body = bodyOf r.body := by
  unfold expectedSeen
  cases hb : r.body with
  | none => dsimp only; split <;> exact ⟨rfl, rfl, rfl⟩
  | fixed b => dsimp only; split <;> exact ⟨rfl, rfl, rfl⟩
  | chunked cs last trs => exact ⟨rfl, rfl, rfl⟩

/-- … and its own header fields: the three singleton fields hold the value of the last field of that name, the
generic list holds, in wire order, every other field (`Content-Length`, `Connection: close` and `Trailer` apart),
names normalised; `Transfer-Encoding` is removed once the body has been de-chunked -/
theorem expectedSeen_fields (dn : Bool) (r : WReq) :
    (expectedSeen dn r).head.host = pick .host r.fields [] ∧
    (expectedSeen dn r).head.userAgent = pick .ua r.fields [] ∧
    (expectedSeen dn r).head.contentType = pick .ct r.fields [] ∧
    ((expectedSeen dn r).head.h = r.fields.filterMap (generic dn) ∨
     (expectedSeen dn r).head.h = (r.fields.filterMap (generic dn)).filter (fun kv => kv.1 != strTransferEncoding)) := by
  unfold expectedSeen
  cases hb : r.body with
  | none => dsimp only; split
            · exact ⟨rfl, rfl, rfl, Or.inl rfl⟩
            · exact ⟨rfl, rfl, rfl, Or.inr rfl⟩
  | fixed b => dsimp only; split
               · exact ⟨rfl, rfl, rfl, Or.inr rfl⟩
               · exact ⟨rfl, rfl, rfl, Or.inl rfl⟩
  | chunked cs last trs => exact ⟨rfl, rfl, rfl, Or.inr rfl⟩

/-! ### the encoder is a right inverse of the independent strict decoder `Spec.Http` -/

/-- the request as the strict decoder is to report it -/
def toSpec (r : WReq) : Req :=
  { method := r.method, target := r.target, fields := r.fields, body := bodyOf r.body,
    trailers := (match r.body with | .chunked _ _ trs => trs | _ => []),
    foldedColon := false }

theorem crlfLine_enc : ∀ (l rest : Bytes), (∀ x ∈ l, x ≠ 13 ∧ x ≠ 10) →
    crlfLine (l ++ 13 :: 10 :: rest) = some (l, rest)
  | [], rest, _ => by simp [crlfLine]
  | [c], rest, h => by
    have hc := h c (by simp)
    simp [crlfLine, hc.1, hc.2]
  | c :: d :: t, rest, h => by
    have hc := h c (by simp)
    have ih := crlfLine_enc (d :: t) rest (fun x hx => h x (by simp [hx]))
    simp only [List.cons_append] at ih ⊢
    simp [crlfLine, hc.1, hc.2, ih]

theorem splitAt1_enc (sep : UInt8) : ∀ (l r : Bytes), (∀ x ∈ l, x ≠ sep) → splitAt1 sep (l ++ sep :: r) = some (l, r)
  | [], r, _ => by simp [splitAt1]
  | c :: t, r, h => by
    have hc := h c (by simp)
    simp [splitAt1, hc, splitAt1_enc sep t r (fun x hx => h x (by simp [hx]))]

theorem trimOWS_id (v : Bytes) (h : noBlankEnds v = true) : trimOWS v = v := by
  obtain ⟨hh, hl⟩ := noBlankEnds_facts v h
  unfold trimOWS
  rw [dropWhile_id v (by intro c hc; have := hh c hc; simp [this.1, this.2])]
  rw [dropWhile_id v.reverse (by
    intro c hc
    rw [List.head?_reverse] at hc
    have := hl c hc; simp [this.1, this.2])]
  simp

theorem trimOWS_sp (v : Bytes) (h : noBlankEnds v = true) : trimOWS (32 :: v) = v := by
  have : trimOWS (32 :: v) = trimOWS v := by
    unfold trimOWS; simp [List.dropWhile]
  rw [this, trimOWS_id v h]

theorem field_line_clean (kv : Bytes × Bytes) (h : wfField kv = true) :
    ∀ x ∈ kv.1 ++ 58 :: 32 :: kv.2, x ≠ 13 ∧ x ≠ 10 := by
  simp only [wfField, Bool.and_eq_true] at h
  obtain ⟨_, hk⟩ := token_facts kv.1 h.1
  obtain ⟨hv, _⟩ := wfValue_facts kv.2 h.2
  intro x hx
  simp only [List.mem_append, List.mem_cons] at hx
  rcases hx with hx | hx | hx | hx
  · exact ⟨(hk x hx).ne13, (hk x hx).ne10⟩
  · subst hx; decide
  · subst hx; decide
  · exact ⟨(hv x hx).2.1, (hv x hx).1⟩

/-- the strict field reader reads an encoded block back -/
theorem fieldsAux_enc : ∀ (fs acc : List (Bytes × Bytes)) (rest : Bytes) (fuel : Nat), fs.length < fuel →
    (∀ kv ∈ fs, wfField kv = true) →
    fieldsAux fuel (encFields fs ++ 13 :: 10 :: rest) acc = some (acc.reverse ++ fs, rest)
  | [], acc, rest, fuel, hf, _ => by
    obtain ⟨f, rfl⟩ : ∃ f, fuel = f + 1 := ⟨fuel - 1, by omega⟩
    simp [fieldsAux, encFields, crlfLine]
  | kv :: fs, acc, rest, fuel, hf, hw => by
    obtain ⟨f, rfl⟩ : ∃ f, fuel = f + 1 := ⟨fuel - 1, by omega⟩
    have hkv := hw kv (by simp)
    have hclean := field_line_clean kv hkv
    simp only [wfField, Bool.and_eq_true] at hkv
    obtain ⟨hk0, hkf⟩ := token_facts kv.1 hkv.1
    obtain ⟨hvf, hvb⟩ := wfValue_facts kv.2 hkv.2
    obtain ⟨a, k', hk⟩ := List.exists_cons_of_ne_nil hk0
    have ha := hkf a (by simp [hk])
    have e : encFields (kv :: fs) ++ 13 :: 10 :: rest =
        (kv.1 ++ 58 :: 32 :: kv.2) ++ 13 :: 10 :: (encFields fs ++ 13 :: 10 :: rest) := by
      simp [encFields, encField]
    have ih := fieldsAux_enc fs ((kv.1, kv.2) :: acc) rest f (by simp at hf; omega) (fun x hx => hw x (by simp [hx]))
    have hsplit := splitAt1_enc 58 kv.1 (32 :: kv.2) (fun x hx => (hkf x hx).ne58)
    have hval : (32 :: kv.2).all isFieldVchar = true := by
      have : kv.2.all isFieldVchar = true := by
        have := hkv.2; simp only [wfValue, Bool.and_eq_true] at this; exact this.1
      simp [this, isFieldVchar]
    rw [e]
    simp only [fieldsAux, crlfLine_enc _ _ hclean]
    rw [hk] at hsplit ⊢
    simp only [List.cons_append, List.isEmpty_cons, Bool.false_eq_true, if_false, ha.ne32, ha.ne9, or_self]
    simp only [← List.cons_append, hsplit]
    rw [← hk]
    simp only [hkv.1, hval, Bool.not_true, Bool.or_self, Bool.false_eq_true, if_false, trimOWS_sp kv.2 hvb, ih]
    simp

theorem hasFoldedColon_enc : ∀ (fs : List (Bytes × Bytes)) (rest : Bytes) (fuel : Nat),
    (∀ kv ∈ fs, wfField kv = true) → hasFoldedColon fuel (encFields fs ++ 13 :: 10 :: rest) = false
  | _, _, 0, _ => rfl
  | [], rest, f + 1, _ => by simp [hasFoldedColon, encFields, crlfLine]
  | kv :: fs, rest, f + 1, hw => by
    have hkv := hw kv (by simp)
    have hclean := field_line_clean kv hkv
    simp only [wfField, Bool.and_eq_true] at hkv
    obtain ⟨hk0, hkf⟩ := token_facts kv.1 hkv.1
    obtain ⟨a, k', hk⟩ := List.exists_cons_of_ne_nil hk0
    have ha := hkf a (by simp [hk])
    have e : encFields (kv :: fs) ++ 13 :: 10 :: rest =
        (kv.1 ++ 58 :: 32 :: kv.2) ++ 13 :: 10 :: (encFields fs ++ 13 :: 10 :: rest) := by
      simp [encFields, encField]
    have ih := hasFoldedColon_enc fs rest f (fun x hx => hw x (by simp [hx]))
    rw [e]
    simp only [hasFoldedColon, crlfLine_enc _ _ hclean, ih]
    rw [hk]
    simp [ha.ne32, ha.ne9]

theorem hexDigit_clean (c : UInt8) (d : Nat) (h : hexDigitVal c = some d) : c ≠ 13 ∧ c ≠ 10 ∧ c ≠ 32 ∧ c ≠ 9 := by
  refine ⟨?_, ?_, ?_, ?_⟩ <;> (intro hc; subst hc; simp [hexDigitVal] at h)

theorem foldlM_hex_clean : ∀ (hx : Bytes) (n v : Nat), hx.foldlM hexStep n = some v →
    ∀ c ∈ hx, c ≠ 13 ∧ c ≠ 10 ∧ c ≠ 32 ∧ c ≠ 9
  | [], _, _, _ => by simp
  | d :: hx, n, v, h => by
    simp only [List.foldlM_cons, bind, Option.bind] at h
    cases hd : hexStep n d with
    | none => simp [hd] at h
    | some n' =>
      simp only [hd] at h
      have ih := foldlM_hex_clean hx n' v h
      unfold hexStep at hd
      cases hdv : hexDigitVal d with
      | none => simp [hdv] at hd
      | some dv =>
        intro c hc
        simp only [List.mem_cons] at hc
        rcases hc with hc | hc
        · subst hc; exact hexDigit_clean c dv hdv
        · exact ih c hc

theorem parseHex_clean (hx : Bytes) (v : Nat) (h : parseHex hx = some v) :
    (∀ c ∈ hx, c ≠ 13 ∧ c ≠ 10) ∧ trimOWS hx = hx := by
  unfold parseHex at h
  split at h
  · cases h
  · have hc := foldlM_hex_clean hx 0 v h
    refine ⟨fun c hcm => ⟨(hc c hcm).1, (hc c hcm).2.1⟩, ?_⟩
    apply trimOWS_id
    unfold noBlankEnds
    have h1 : ∀ c, hx.head? = some c → c ∈ hx := fun c hh => List.mem_of_head? hh
    have h2 : ∀ c, hx.getLast? = some c → c ∈ hx := fun c hh => List.mem_of_getLast? hh
    cases hh : hx.head? with
    | none => cases hl : hx.getLast? with
      | none => rfl
      | some c => have := hc c (h2 c hl); simp [this.2.2.1, this.2.2.2]
    | some c0 =>
      have h0 := hc c0 (h1 c0 hh)
      cases hl : hx.getLast? with
      | none => simp [h0.2.2.1, h0.2.2.2]
      | some c => have := hc c (h2 c hl); simp [this.2.2.1, this.2.2.2, h0.2.2.1, h0.2.2.2]

/-- the strict chunk reader reads the encoded chunks back -/
theorem chunksAux_enc (last rest : Bytes) (hl0 : parseHex last = some 0) (hl15 : last.length ≤ 15) :
    ∀ (cs : List Chunk) (acc : Bytes) (fuel : Nat), cs.length < fuel → (∀ c ∈ cs, wfChunk c = true) →
    chunksAux fuel (encChunks cs ++ (last ++ 13 :: 10 :: rest)) acc = some (acc ++ chunkData cs, rest)
  | [], acc, fuel, hf, _ => by
    obtain ⟨f, rfl⟩ : ∃ f, fuel = f + 1 := ⟨fuel - 1, by omega⟩
    obtain ⟨hcl, htr⟩ := parseHex_clean last 0 hl0
    have hn : ¬ (last.length > 15) := by omega
    have hhb := Spec.Http.head_not_blank_of_parseHex last 0 hl0
    have hnt := Spec.Http.no_tab_of_parseHex last 0 hl0
    simp [chunksAux, encChunks, chunkData, crlfLine_enc _ _ hcl, hhb, hnt, htr, hn, hl0]
  | c :: cs, acc, fuel, hf, hw => by
    obtain ⟨f, rfl⟩ : ∃ f, fuel = f + 1 := ⟨fuel - 1, by omega⟩
    obtain ⟨hd0, h15, hsz⟩ := wfChunk_facts c (hw c (by simp))
    obtain ⟨hcl, htr⟩ := parseHex_clean c.size _ hsz
    have hn : ¬ (c.size.length > 15) := by omega
    have e1 : encChunks (c :: cs) ++ (last ++ 13 :: 10 :: rest) =
        c.size ++ 13 :: 10 :: (c.data ++ 13 :: 10 :: (encChunks cs ++ (last ++ 13 :: 10 :: rest))) := by
      simp [encChunks, encChunk]
    obtain ⟨m, hm⟩ : ∃ m, c.data.length = m + 1 := ⟨c.data.length - 1, by
      have : c.data.length ≠ 0 := fun h0 => hd0 (List.length_eq_zero_iff.mp h0)
      omega⟩
    have ih := chunksAux_enc last rest hl0 hl15 cs (acc ++ c.data) f (by simp at hf; omega)
      (fun x hx => hw x (by simp [hx]))
    have hhb := Spec.Http.head_not_blank_of_parseHex c.size _ hsz
    have hnt := Spec.Http.no_tab_of_parseHex c.size _ hsz
    rw [e1]
    simp only [chunksAux, crlfLine_enc _ _ hcl, hhb, hnt, Bool.false_eq_true, htr, hn, if_false, hsz, hm]
    rw [← hm]
    have e2 : c.data ++ 13 :: 10 :: (encChunks cs ++ (last ++ 13 :: 10 :: rest)) =
        (c.data ++ [13, 10]) ++ (encChunks cs ++ (last ++ 13 :: 10 :: rest)) := by simp
    have h1 : ¬ ((c.data ++ 13 :: 10 :: (encChunks cs ++ (last ++ 13 :: 10 :: rest))).length < c.data.length + 2) := by
      simp
    have h2 : List.drop (c.data.length + 2) (c.data ++ 13 :: 10 :: (encChunks cs ++ (last ++ 13 :: 10 :: rest))) =
        encChunks cs ++ (last ++ 13 :: 10 :: rest) := by
      rw [e2]; exact List.drop_left' (by simp)
    have h3 : List.take c.data.length (c.data ++ 13 :: 10 :: (encChunks cs ++ (last ++ 13 :: 10 :: rest))) = c.data :=
      List.take_left' rfl
    have h4 : List.drop c.data.length (c.data ++ 13 :: 10 :: (encChunks cs ++ (last ++ 13 :: 10 :: rest))) =
        13 :: 10 :: (encChunks cs ++ (last ++ 13 :: 10 :: rest)) := List.drop_left' rfl
    simp only [h1, if_false, h2, h3, h4, ih, chunkData, List.append_assoc]
    simp

theorem cls_cl_iff (k : Bytes) : cls k = .cl ↔ lowerAll k = sContentLength := by
  unfold cls
  by_cases h1 : lowerAll k = sHost
  · rw [h1]; decide
  by_cases h2 : lowerAll k = sUserAgent
  · rw [h2]; decide
  by_cases h3 : lowerAll k = sContentType
  · rw [h3]; decide
  by_cases h4 : lowerAll k = sContentLength
  · rw [h4]; decide
  simp only [h1, h2, h3, h4, if_false, iff_false]
  split
  · simp
  · split
    · simp
    · split <;> simp

theorem cls_te_iff (k : Bytes) : cls k = .te ↔ lowerAll k = sTransferEncoding := by
  unfold cls
  by_cases h1 : lowerAll k = sHost
  · rw [h1]; decide
  by_cases h2 : lowerAll k = sUserAgent
  · rw [h2]; decide
  by_cases h3 : lowerAll k = sContentType
  · rw [h3]; decide
  by_cases h4 : lowerAll k = sContentLength
  · rw [h4]; decide
  by_cases h5 : lowerAll k = sConnection
  · rw [h5]; decide
  by_cases h6 : lowerAll k = sTransferEncoding
  · rw [h6]; decide
  simp only [h1, h2, h3, h4, h5, h6, if_false, iff_false]
  split <;> simp

theorem lookupAll_cl (fs : List (Bytes × Bytes)) :
    lookupAll fs sContentLength = (fs.filter (fun kv => cls kv.1 == .cl)).map (·.2) := by
  unfold lookupAll
  congr 1
  apply List.filter_congr
  intro kv _
  have := cls_cl_iff kv.1
  by_cases h : lowerAll kv.1 = sContentLength
  · simp [h, this.mpr h]
  · have h' : cls kv.1 ≠ .cl := fun hc => h (this.mp hc)
    simp [h, h', cls_beq]

theorem lookupAll_te (fs : List (Bytes × Bytes)) :
    lookupAll fs sTransferEncoding = (teFields fs).map (·.2) := by
  unfold lookupAll teFields
  congr 1
  apply List.filter_congr
  intro kv _
  have := cls_te_iff kv.1
  by_cases h : lowerAll kv.1 = sTransferEncoding
  · simp [h, this.mpr h]
  · have h' : cls kv.1 ≠ .te := fun hc => h (this.mp hc)
    simp [h, h', cls_beq]

theorem filter_nil_of_hasCls (c : Cls) (fs : List (Bytes × Bytes)) (h : hasCls c fs = false) :
    fs.filter (fun kv => cls kv.1 == c) = [] := by
  rw [List.filter_eq_nil_iff]
  intro kv hkv
  have := (hasCls_false_iff c fs).mp h kv hkv
  simp [cls_beq, this]

theorem all_same_shape (l : List Bytes) (a : Bytes) (hne : l ≠ []) (hall : ∀ x ∈ l, x = a) :
    ∃ more, l = a :: more ∧ more.all (· == a) = true := by
  cases l with
  | nil => exact absurd rfl hne
  | cons x t =>
    refine ⟨t, ?_, ?_⟩
    · rw [hall x (by simp)]
    · simp only [List.all_eq_true, beq_iff_eq]
      exact fun y hy => hall y (by simp [hy])

theorem request_line_clean (m t : Bytes) (hm : isToken m = true) (ht : wfTarget t = true) :
    ∀ x ∈ m ++ 32 :: (t ++ 32 :: strHTTP11), x ≠ 13 ∧ x ≠ 10 := by
  obtain ⟨_, hmf⟩ := token_facts m hm
  simp only [wfTarget, Bool.and_eq_true, List.all_eq_true] at ht
  intro x hx
  simp only [List.mem_append, List.mem_cons] at hx
  rcases hx with hx | hx | hx | hx | hx
  · exact ⟨(hmf x hx).ne13, (hmf x hx).ne10⟩
  · subst hx; decide
  · have := ht.2 x hx
    simp at this
    constructor
    · intro h; subst h; exact absurd this.1 (by decide)
    · intro h; subst h; exact absurd this.1 (by decide)
  · subst hx; decide
  · revert hx; revert x; decide

/-- The strict decoder reads one encoded well-formed request back, and leaves what follows. -/
theorem decodeOne_enc {dn : Bool} (r : WReq) (h : wfReq dn r = true) (rest : Bytes) :
    decodeOne (encReq r ++ rest) = some (toSpec r, rest) := by
  obtain ⟨hm, ht, hf, htrl, hfr⟩ := wfReq_facts r h
  obtain ⟨_, hmf⟩ := token_facts r.method hm
  obtain ⟨_, htf⟩ := target_facts r.target ht
  have e : encReq r ++ rest = (r.method ++ 32 :: (r.target ++ 32 :: strHTTP11)) ++ 13 :: 10 ::
      (encFields r.fields ++ 13 :: 10 :: (encBody r.body ++ rest)) := by
    simp [encReq, encHeadOf, encHead]
  have hs1 := splitAt1_enc 32 r.method (r.target ++ 32 :: strHTTP11) (fun x hx => (hmf x hx).ne32)
  have hs2 := splitAt1_enc 32 r.target strHTTP11 (fun x hx => (htf x hx).2)
  have hfc := hasFoldedColon_enc r.fields (encBody r.body ++ rest)
    ((encFields r.fields ++ 13 :: 10 :: (encBody r.body ++ rest)).length + 1) hf
  have hfa := fieldsAux_enc r.fields [] (encBody r.body ++ rest)
    ((encFields r.fields ++ 13 :: 10 :: (encBody r.body ++ rest)).length + 1) (by
      have := encFields_length_ge r.fields; simp; omega) hf
  have htgt : (r.target.isEmpty || !r.target.all (fun c => 33 ≤ c && c != 127)) = false := by
    simp only [wfTarget, Bool.and_eq_true, Bool.not_eq_true'] at ht
    simp [ht.1, ht.2]
  have hver : (strHTTP11 != sHTTP11) = false := by decide
  unfold decodeOne
  rw [e]
  simp only [crlfLine_enc _ _ (request_line_clean r.method r.target hm ht), hs1, hs2, hfc, hfa, hm, htgt, hver,
    Option.bind_eq_bind, Option.bind_some, Bool.not_true, Bool.or_false, Bool.false_eq_true, if_false,
    Option.pure_def, List.reverse_nil, List.nil_append, Bool.false_or]
  have hnoTE_of : hasCls .te r.fields = false → lookupAll r.fields sTransferEncoding = [] := by
    intro hte
    rw [lookupAll_te]; unfold teFields; rw [filter_nil_of_hasCls _ _ hte]; rfl
  have hnoCL_of : hasCls .cl r.fields = false → lookupAll r.fields sContentLength = [] := by
    intro hcl
    rw [lookupAll_cl, filter_nil_of_hasCls _ _ hcl]; rfl
  cases hb : r.body with
  | none =>
    rw [hb] at hfr
    simp only [wfFraming, Bool.and_eq_true, Bool.not_eq_true'] at hfr
    rw [hnoCL_of hfr.1, hnoTE_of hfr.2]
    simp [toSpec, hb, bodyOf, encBody]
  | fixed b =>
    rw [hb] at hfr
    simp only [wfFraming, Bool.and_eq_true, Bool.not_eq_true', List.all_eq_true, Bool.or_eq_true, bne_iff_ne,
      ne_eq, beq_iff_eq, decide_eq_true_eq] at hfr
    obtain ⟨⟨⟨⟨hte, hcl⟩, hall⟩, hdec⟩, hlt⟩ := hfr
    obtain ⟨more, hshape, hmore⟩ := all_same_shape (lookupAll r.fields sContentLength) (pick .cl r.fields [])
      (by
        rw [lookupAll_cl]
        intro h0
        have : hasCls .cl r.fields = false := by
          rw [hasCls_false_iff]
          intro kv hkv hc
          have hmem : kv ∈ r.fields.filter (fun kv => cls kv.1 == .cl) := by
            simp [List.mem_filter, hkv, hc]
          have : kv.2 ∈ (r.fields.filter (fun kv => cls kv.1 == .cl)).map (·.2) := List.mem_map_of_mem hmem
          rw [h0] at this; cases this
        rw [this] at hcl; cases hcl)
      (by
        rw [lookupAll_cl]
        intro x hx
        simp only [List.mem_map, List.mem_filter] at hx
        obtain ⟨kv, ⟨hkv, hc⟩, rfl⟩ := hx
        rcases hall kv hkv with h1 | h1
        · simp [cls_beq] at hc; exact absurd hc h1
        · exact h1)
    rw [hshape, hnoTE_of hte]
    have hlen : ¬ ((encBody (.fixed b) ++ rest).length < b.length) := by
      show ¬ ((b ++ rest).length < b.length)
      simp
    have htk : List.take b.length (encBody (.fixed b) ++ rest) = b := List.take_left' rfl
    have hdr : List.drop b.length (encBody (.fixed b) ++ rest) = rest := List.drop_left' rfl
    have hlen' : b.length ≤ (encBody (.fixed b)).length + rest.length := by
      show b.length ≤ b.length + rest.length
      omega
    simp [hmore, hdec, hlen', htk, hdr, toSpec, hb, bodyOf]
  | chunked cs last trs =>
    rw [hb] at hfr
    simp only [wfFraming, Bool.and_eq_true, Bool.not_eq_true', List.all_eq_true, beq_iff_eq, decide_eq_true_eq] at hfr
    obtain ⟨⟨⟨⟨⟨⟨⟨hcl, hlen⟩, hval⟩, hcs⟩, hl15⟩, hl0⟩, htw⟩, _⟩ := hfr
    obtain ⟨te, hte1⟩ : ∃ te, teFields r.fields = [te] := by
      match hm : teFields r.fields, hlen with
      | [te], _ => exact ⟨te, rfl⟩
    have hteval := hval te (by rw [hte1]; simp)
    rw [hnoCL_of hcl, lookupAll_te, hte1]
    have hch := chunksAux_enc last (encFields trs ++ 13 :: 10 :: rest) hl0 hl15 cs []
      ((encBody (.chunked cs last trs) ++ rest).length + 1) (by
        have := encChunks_length_ge cs
        simp [encBody]; omega) hcs
    have e1 : encBody (.chunked cs last trs) ++ rest =
        encChunks cs ++ (last ++ 13 :: 10 :: (encFields trs ++ 13 :: 10 :: rest)) := by
      simp [encBody]
    have htf := fieldsAux_enc trs [] rest ((encFields trs ++ 13 :: 10 :: rest).length + 1) (by
      have := encFields_length_ge trs
      simp only [List.length_append]; omega) htw
    rw [e1] at hch ⊢
    have hne : (lowerAll te.2 != sChunked) = false := by simp [hteval]
    simp only [List.map_cons, List.map_nil, hne, Bool.false_eq_true, if_false, hch, Option.bind_some, htf]
    simp [toSpec, hb, bodyOf]

theorem decodeAllAux_enc {dn : Bool} : ∀ (rs : List WReq) (acc : List Req) (fuel : Nat), rs.length < fuel →
    (∀ r ∈ rs, wfReq dn r = true) →
    decodeAllAux fuel (encAll rs) acc = some (acc.reverse ++ rs.map toSpec)
  | [], acc, fuel, hf, _ => by
    obtain ⟨f, rfl⟩ : ∃ f, fuel = f + 1 := ⟨fuel - 1, by omega⟩
    simp [decodeAllAux, encAll]
  | r :: rs, acc, fuel, hf, hw => by
    obtain ⟨f, rfl⟩ : ∃ f, fuel = f + 1 := ⟨fuel - 1, by omega⟩
    have hne : (encAll (r :: rs)).isEmpty = false := by
      have := encReq_length_pos r
      cases hE : encAll (r :: rs) with
      | nil => simp [encAll] at hE; rw [hE.1] at this; simp at this
      | cons _ _ => rfl
    have ih := decodeAllAux_enc rs (toSpec r :: acc) f (by simp at hf; omega) (fun x hx => hw x (by simp [hx]))
    simp only [decodeAllAux, hne, Bool.false_eq_true, if_false]
    show (match decodeOne (encReq r ++ encAll rs) with
      | none => none
      | some (r', rest) => decodeAllAux f rest (r' :: acc)) = _
    rw [decodeOne_enc r (hw r (by simp))]
    simp [ih]

/-- The independent strict decoder reads an encoded list of well-formed requests back as that list: the
encoder used in the round-trip theorems is a right inverse of `Spec.Http.decodeAll`. -/
theorem decodeAll_enc {dn : Bool} (rs : List WReq) (hw : ∀ r ∈ rs, wfReq dn r = true) :
    decodeAll (encAll rs) = some (rs.map toSpec) := by
  unfold decodeAll
  rw [decodeAllAux_enc rs [] _ (by have := encAll_length_ge rs; omega) hw]
  simp

end Hertz.H1.RT
