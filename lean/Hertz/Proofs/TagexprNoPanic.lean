import Hertz.Model.Tagexpr
import Hertz.Proofs.Tagexpr
import Hertz.Proofs.TagexprEval
/-!
The parser of `internal/tagexpr/expr.go` as a whole (C20): by induction over the fuel of the mutually
recursive `parseExprNode` / `readOperand` / `parseArgs`,

* every operand node returned is `Built`: a literal, a field reference, a group, a `len`/`in` call or
  a `regexp` call whose sub-expressions are the *precedence trees* (`specParse`) of token sequences
  made of operands that are `Built` again;
* the parser never raises a fault (`sortPriority` never reaches the nil dereference of
  `leftOperandToParent` on a tree `parseExprNode` built);
* hence `Run` on the compiled expression can panic at one site only, the method call on a missing
  operand, and not at all when no operand is missing;
* the fuel `parseExpr` hands to the recursive parser (`4·|expr| + 8`) is never exhausted
  (`2·|s| + 2` is enough: every operand and every operator consumes at least one character, and the
  content of a group / an argument list is at least two characters shorter than the call).
-/
namespace Hertz.Tagexpr
open Tree

/-! ## what the parser builds -/

/-- the operands of a token sequence -/
def seqOperands {α : Type} (first : Option α) (ts : List (Op × Option α)) : List (Option α) :=
  first :: ts.map (·.2)

/-- The token sequences `parseExprNode` can read: nothing (empty group), `a op₁ x₁ … opₙ xₙ`, or the
same followed by one more operator whose operand is missing.  `full = true` excludes the two forms
with a missing operand. -/
inductive SeqOK {α : Type} (full : Bool) : Option α → List (Op × Option α) → Prop
  | empty : full = false → SeqOK full none []
  | chain (a : α) (rest : List (Op × α)) : SeqOK full (some a) (toks rest)
  | trailing (a : α) (rest : List (Op × α)) (o : Op) : full = false →
      SeqOK full (some a) (toks rest ++ [(o, none)])

/-- The operand nodes of the expression language, closed under the recursion of the grammar: a
group, each argument of `len(…)`/`in(…)` and the argument of `regexp(…)` hold the precedence tree
(`specParse`) of a token sequence whose operands are of the same kind. -/
inductive Built (full : Bool) : Operand → Prop
  | const (sh : String) (v : Val) : Built full (constNode sh v)
  | selector (f : String) (bo so : Option Bool) : Built full (selectorNode f bo so)
  | group (first : Option Operand) (ts : List (Op × Option Operand)) (bo so : Option Bool) :
      SeqOK full first ts → (∀ o, some o ∈ seqOperands first ts → Built full o) →
      Built full (groupNode (specParse first ts) bo so)
  | func (name : String) (gs : List (Option Operand × List (Op × Option Operand))) (bo so : Option Bool) :
      (∀ g ∈ gs, SeqOK full g.1 g.2) → (∀ g ∈ gs, ∀ o, some o ∈ seqOperands g.1 g.2 → Built full o) →
      Built full (funcNode name (gs.map (fun g => groupNode (specParse g.1 g.2) none none)) bo so)
  | regexp (re : Rx) (neg : Bool) (first : Option Operand) (ts : List (Op × Option Operand)) :
      SeqOK full first ts → (∀ o, some o ∈ seqOperands first ts → Built full o) →
      Built full (regexpNode re neg (groupNode (specParse first ts) none none))

/-- a compiled (sub-)expression: the precedence tree of a readable token sequence of built operands -/
def Compiled (full : Bool) (t : Node) : Prop :=
  ∃ first ts, t = specParse first ts ∧ SeqOK full first ts ∧ ∀ o, some o ∈ seqOperands first ts → Built full o

/-! ## results of the parser functions -/

/-- `e` is not a fault, and if it is a value the value satisfies `Q` -/
def ResOK {β : Type} (Q : β → Prop) : Except PErr β → Prop
  | .ok b => Q b
  | .error (.fault _) => False
  | .error _ => True

theorem ResOK.err {β γ : Type} {Q : β → Prop} {Q' : γ → Prop} {e : PErr}
    (h : ResOK Q (.error e)) : ResOK Q' (.error e) := by
  cases e <;> first | trivial | exact h

theorem ResOK.ok_of {β : Type} {Q : β → Prop} {e : Except PErr β} {b : β} (h : ResOK Q e) (he : e = .ok b) : Q b := by
  subst he; exact h

theorem ResOK.not_fault {β : Type} {Q : β → Prop} {e : Except PErr β} (h : ResOK Q e) (f : Fault) :
    e ≠ .error (.fault f) := by
  intro he; subst he; exact h

/-- the operator seen last (if any) left without operand -/
def withTrail (t : Node) : Option Op → Node
  | none => t
  | some o => node o t nil

/-- what `parseExprNode … cur` returns: the holder closed with a nil operand, or the left-leaning
chain over the operands read, possibly with one more operator at the end -/
def Parsed (cur : Option (Op × Node)) (t : Node) : Prop :=
  t = close cur nil ∨
  ∃ x rest trail, t = withTrail (chainAux (close cur (leaf x)) rest) trail ∧
    Built false x ∧ ∀ p ∈ rest, Built false p.2

theorem close_nil (cur : Option (Op × Node)) :
    (match cur with | none => (Tree.nil : Node) | some (op, l) => Tree.node op l Tree.nil) = close cur nil := by
  cases cur with
  | none => rfl
  | some p => rfl

theorem liftSort_parsed {t : Node} (h : Parsed none t) : ResOK (Compiled false) (liftSort t) := by
  rcases h with rfl | ⟨x, rest, trail, rfl, hx, hr⟩
  · exact ⟨none, [], rfl, .empty rfl, by simp [seqOperands]⟩
  · have hops : ∀ o, o = x ∨ (∃ p ∈ rest, o = p.2) → Built false o := by
      rintro o (rfl | ⟨p, hp, rfl⟩)
      · exact hx
      · exact hr p hp
    cases trail with
    | none =>
      show ResOK _ (liftSort (chain x rest))
      unfold liftSort
      rw [sort_chain]
      refine ⟨some x, toks rest, rfl, .chain x rest, fun o ho => hops o ?_⟩
      simp only [seqOperands, toks, List.map_map, List.mem_cons, Option.some.injEq, List.mem_map,
        Function.comp] at ho
      rcases ho with h | ⟨p, hp, h⟩
      · exact .inl h
      · exact .inr ⟨p, hp, h.symm⟩
    | some o' =>
      show ResOK _ (liftSort (node o' (chain x rest) nil))
      unfold liftSort
      rw [sort_chain_trailing]
      refine ⟨some x, toks rest ++ [(o', none)], rfl, .trailing x rest o' rfl, fun o ho => hops o ?_⟩
      simp only [seqOperands, toks, List.map_map, List.mem_cons, Option.some.injEq, List.mem_map,
        Function.comp, List.map_append, List.mem_append, List.map_cons, List.map_nil] at ho
      rcases ho with h | ⟨p, hp, h⟩ | h
      · exact .inl h
      · exact .inr ⟨p, hp, h.symm⟩
      · simp at h

/-! ## the induction over the parser's fuel -/

abbrev ArgSeq := Option Operand × List (Op × Option Operand)

def argNode (g : ArgSeq) : Operand := groupNode (specParse g.1 g.2) none none

def GoodArgs (gs : List ArgSeq) : Prop :=
  (∀ g ∈ gs, SeqOK false g.1 g.2) ∧ (∀ g ∈ gs, ∀ o, some o ∈ seqOperands g.1 g.2 → Built false o)

theorem GoodArgs.cons {g : ArgSeq} {gs : List ArgSeq} (h1 : SeqOK false g.1 g.2)
    (h2 : ∀ o, some o ∈ seqOperands g.1 g.2 → Built false o) (h : GoodArgs gs) : GoodArgs (g :: gs) := by
  constructor
  · intro g' hg'
    rcases List.mem_cons.mp hg' with rfl | hg'
    · exact h1
    · exact h.1 g' hg'
  · intro g' hg'
    rcases List.mem_cons.mp hg' with rfl | hg'
    · exact h2
    · exact h.2 g' hg'

theorem GoodArgs.reverse {gs : List ArgSeq} (h : GoodArgs gs) : GoodArgs gs.reverse :=
  ⟨fun g hg => h.1 g (List.mem_reverse.mp hg), fun g hg => h.2 g (List.mem_reverse.mp hg)⟩

/-- the three statements proved together, for one amount of fuel -/
structure ParserOK (n : Nat) : Prop where
  expr : ∀ s cur, ResOK (fun p => Parsed cur p.1) (parseExprNode n s cur)
  operand : ∀ s, ResOK (fun p => Built false p.1) (readOperand n s)
  args : ∀ s gs, GoodArgs gs →
    ResOK (fun as => ∃ gs', GoodArgs gs' ∧ as = gs'.map argNode) (parseArgs n s (gs.map argNode))

theorem parseExprNode_step (n : Nat) (ih : ParserOK n) (s : List Char) (cur : Option (Op × Node)) :
    ResOK (fun p => Parsed cur p.1) (parseExprNode (n + 1) s cur) := by
  rw [parseExprNode.eq_def]
  simp only
  split
  · exact .inl (close_nil cur)
  · have ho := ih.operand (trimLeft s)
    split
    · next e he => rw [he] at ho; exact ho.err
    · next x s1 he =>
      rw [he] at ho
      have hx : Built false x := ho
      split
      · exact .inr ⟨x, [], none, rfl, hx, by simp⟩
      · next op s3 _ =>
        have hr := ih.expr s3 (some (op, close cur (leaf x)))
        cases hp : parseExprNode n s3 (some (op, close cur (leaf x))) with
        | error e => rw [hp] at hr; exact hr.err
        | ok p =>
          rw [hp] at hr
          rcases (hr : Parsed _ p.1) with h | ⟨x', rest, trail, h, hx', hrest⟩
          · exact .inr ⟨x, [], some op, h, hx, by simp⟩
          · refine .inr ⟨x, (op, x') :: rest, trail, h, hx, ?_⟩
            intro q hq
            rcases List.mem_cons.mp hq with rfl | hq
            · exact hx'
            · exact hrest q hq

theorem parseArgs_step (n : Nat) (ih : ParserOK n) (s : List Char) (gs : List ArgSeq) (hg : GoodArgs gs) :
    ResOK (fun as => ∃ gs', GoodArgs gs' ∧ as = gs'.map argNode) (parseArgs (n + 1) s (gs.map argNode)) := by
  rw [parseArgs.eq_def]
  simp only
  split
  · next s1 =>
    have hp := ih.expr (trimLeft s1) none
    split
    · next e he => rw [he] at hp; exact hp.err
    · next t s2 he =>
      rw [he] at hp
      have hs := liftSort_parsed (hp : Parsed none t)
      split
      · next e he2 => rw [he2] at hs; exact hs.err
      · next t' he2 =>
        rw [he2] at hs
        obtain ⟨first, ts, rfl, h1, h2⟩ := (hs : Compiled false t')
        have hg' : GoodArgs ((first, ts) :: gs) := GoodArgs.cons h1 h2 hg
        split
        · refine ⟨((first, ts) :: gs).reverse, hg'.reverse, ?_⟩
          rw [List.map_reverse]; rfl
        · exact ih.args _ ((first, ts) :: gs) hg'
  · trivial

theorem readOperand_step (n : Nat) (ih : ParserOK n) (s : List Char) :
    ResOK (fun p => Built false p.1) (readOperand (n + 1) s) := by
  rw [readOperand.eq_def]
  simp only
  split
  · trivial
  · exact Built.selector _ _ _
  · split
    · trivial
    · split
      · -- group
        next sub rest _ =>
        have hp := ih.expr sub none
        split
        · next e he => rw [he] at hp; exact hp.err
        · next t s2 he =>
          rw [he] at hp
          have hs := liftSort_parsed (hp : Parsed none t)
          split
          · next e he2 => rw [he2] at hs; exact hs.err
          · next t' he2 =>
            rw [he2] at hs
            obtain ⟨first, ts, rfl, h1, h2⟩ := (hs : Compiled false t')
            exact Built.group first ts _ _ h1 h2
      · split
        · trivial
        · split
          · -- regexp
            split
            · trivial
            · next sub rest _ =>
              split
              · trivial
              · next pat sub2 _ =>
                split
                · trivial
                · next re _ =>
                  split
                  · trivial
                  · next e _ he =>
                    have : ResOK (fun p => Parsed none p.1) (Except.error e : Except PErr (Node × List Char)) := by
                      split at he
                      · rw [← he]; exact ih.expr _ none
                      · cases he
                    exact this.err
                  · next t sub4 he =>
                    have hparsed : Parsed none t := by
                      split at he
                      · next sub3 _ =>
                        have := ih.expr (trimLeft sub3) none
                        rw [he] at this; exact this
                      · cases he
                        exact .inr ⟨selectorNode "" none none, [], none, rfl, Built.selector _ _ _, by simp⟩
                    split
                    · trivial
                    · have hs := liftSort_parsed hparsed
                      split
                      · next e he2 => rw [he2] at hs; exact hs.err
                      · next t' he2 =>
                        rw [he2] at hs
                        obtain ⟨first, ts, rfl, h1, h2⟩ := (hs : Compiled false t')
                        exact Built.regexp re _ first ts h1 h2
          · split
            · -- len / in
              split
              · trivial
              · next sub rest _ =>
                have ha := ih.args (',' :: sub) [] ⟨by simp, by simp⟩
                simp only [List.map_nil] at ha
                split
                · trivial
                · next e _ he => rw [he] at ha; exact ha.err
                · next args he =>
                  rw [he] at ha
                  obtain ⟨gs, hg, rfl⟩ := (ha : ∃ gs', GoodArgs gs' ∧ args = gs'.map argNode)
                  exact Built.func _ gs _ _ hg.1 hg.2
            · split
              · exact Built.const _ _
              · split
                · exact Built.const _ _
                · split
                  · exact Built.const _ _
                  · split
                    · exact Built.const _ _
                    · split
                      · exact Built.const _ _
                      · split
                        · split
                          · exact Built.const _ _
                          · trivial
                        · trivial

theorem parserOK : ∀ n, ParserOK n
  | 0 => ⟨fun _ _ => by rw [parseExprNode.eq_def]; trivial, fun _ => by rw [readOperand.eq_def]; trivial,
      fun _ _ _ => by rw [parseArgs.eq_def]; trivial⟩
  | n + 1 =>
    have ih := parserOK n
    ⟨parseExprNode_step n ih, readOperand_step n ih, parseArgs_step n ih⟩

/-! ## operands of a tree -/

namespace Tree
variable {α : Type}

/-- the operands of a tree from left to right (`none` for a missing one) -/
def operands : Tree α → List (Option α)
  | nil => [none]
  | leaf a => [some a]
  | node _ l r => operands l ++ operands r

theorem operands_eq_flat : ∀ t : Tree α, operands t = seqOperands (flat t).1 (flat t).2
  | nil => rfl
  | leaf _ => rfl
  | node op l r => by
    simp only [operands, operands_eq_flat l, operands_eq_flat r, seqOperands, flat, List.map_append,
      List.map_cons, List.cons_append]

theorem operands_specParse (first : Option α) (ts : List (Op × Option α)) :
    operands (specParse first ts) = seqOperands first ts := by
  rw [operands_eq_flat, specParse_tokens]

end Tree

theorem leavesSafe_iff (P : String → Prop) (env : Env) : ∀ t : Node,
    LeavesSafe P env t ↔ ∀ o, some o ∈ operands t → Safe P (o.run env)
  | .nil => by simp [LeavesSafe, operands]
  | .leaf a => by simp [LeavesSafe, operands]
  | .node _ l r => by
    simp only [LeavesSafe, operands, List.mem_append, leavesSafe_iff P env l, leavesSafe_iff P env r]
    constructor
    · rintro ⟨h1, h2⟩ o (h | h)
      · exact h1 o h
      · exact h2 o h
    · intro h
      exact ⟨fun o ho => h o (.inl ho), fun o ho => h o (.inr ho)⟩

theorem noNil_iff : ∀ t : Node, (t.isNil = false ∧ NoNilOperand t) ↔ none ∉ operands t
  | .nil => by simp [Tree.isNil, operands]
  | .leaf a => by simp [Tree.isNil, operands, NoNilOperand]
  | .node _ l r => by
    simp only [Tree.isNil, NoNilOperand, operands, List.mem_append, not_or, ← noNil_iff l, ← noNil_iff r,
      true_and]
    constructor
    · rintro ⟨h1, h2, h3, h4⟩; exact ⟨⟨h1, h3⟩, h2, h4⟩
    · rintro ⟨⟨h1, h3⟩, h2, h4⟩; exact ⟨h1, h2, h3, h4⟩

theorem SeqOK.no_none {α : Type} {first : Option α} {ts : List (Op × Option α)} (h : SeqOK true first ts) :
    none ∉ seqOperands first ts := by
  cases h with
  | empty h => cases h
  | chain a rest => simp [seqOperands, toks]
  | trailing a rest o h => cases h

/-! ## `Run` on what the parser builds -/

/-- `groupExprNode.Run` on a compiled sub-expression -/
theorem compiled_run_safe {P : String → Prop} {full : Bool} (hn : full = false → P "nil.Run") (env : Env)
    {first : Option Operand} {ts : List (Op × Option Operand)} (hs : SeqOK full first ts)
    (hl : ∀ o, some o ∈ seqOperands first ts → Safe P (o.run env)) (bo so : Option Bool) :
    Safe P (groupRun (specParse first ts) bo so env) := by
  have hL : LeavesSafe P env (specParse first ts) := by
    rw [leavesSafe_iff, operands_specParse]; exact hl
  cases full with
  | true =>
    have hN := (noNil_iff (specParse first ts)).mpr (by rw [operands_specParse]; exact hs.no_none)
    exact groupNode_safe env _ bo so (.inr ⟨hN.1, hN.2, hL⟩)
  | false =>
    have he := evalTree_safe (hn rfl) env _ hL
    cases ht : specParse first ts with
    | nil => exact Safe.pure _
    | leaf o => rw [ht] at he; exact Safe.bind he (fun _ => Safe.pure _)
    | node op l r => rw [ht] at he; exact Safe.bind he (fun _ => Safe.pure _)

/-- the `Run` method of every operand node of the language panics at most at the missing-operand
site, and nowhere when no operand is missing -/
theorem built_run_safe {P : String → Prop} {full : Bool} (hn : full = false → P "nil.Run") (env : Env)
    {o : Operand} (h : Built full o) : Safe P (o.run env) := by
  induction h with
  | const sh v => exact constNode_safe env sh v
  | selector f bo so => exact selectorNode_safe env f bo so
  | group first ts bo so hs _ ih => exact compiled_run_safe hn env hs ih bo so
  | func name gs bo so hs _ ih =>
    refine funcNode_safe env name _ bo so (fun a ha => ?_)
    obtain ⟨g, hg, rfl⟩ := List.mem_map.mp ha
    exact compiled_run_safe hn env (hs g hg) (ih g hg) none none
  | regexp re neg first ts hs _ ih =>
    exact regexpNode_safe env re neg _ (compiled_run_safe hn env hs ih none none)

/-! ## `parseExpr` and `Validate` -/

theorem parseExpr_ok (s : List Char) : ResOK (Compiled false) (parseExpr s) := by
  unfold parseExpr
  have hp := (parserOK (4 * s.length + 8)).expr s none
  split
  · next e he => rw [he] at hp; exact hp.err
  · next t r he => rw [he] at hp; exact liftSort_parsed hp

/-- the parser never panics (`leftOperandToParent` is never reached with a missing right operand) -/
theorem parseExpr_no_fault (s : List Char) (f : Fault) : parseExpr s ≠ .error (.fault f) :=
  (parseExpr_ok s).not_fault f

/-- the tree it returns is the precedence tree of a token sequence of built operands -/
theorem parseExpr_compiled {s : List Char} {t : Node} (h : parseExpr s = .ok t) : Compiled false t :=
  (parseExpr_ok s).ok_of h

theorem validate_panic_site (expr : List Char) (env : Env) (site : String)
    (h : (validate expr env).1 = .panic site) : site = "nil.Run" := by
  unfold validate at h
  split at h
  · cases h
  · cases h
  · cases h
  · next s he => exact absurd he (parseExpr_no_fault expr _)
  · next t he =>
    obtain ⟨first, ts, rfl, hs, hb⟩ := parseExpr_compiled he
    have hsafe : Safe (· = "nil.Run") (groupRun (specParse first ts) none none env) :=
      compiled_run_safe (P := (· = "nil.Run")) (fun _ => rfl) env hs
        (fun o ho => built_run_safe (P := (· = "nil.Run")) (fun _ => rfl) env (hb o ho)) none none
    split at h
    · next s' he' =>
      injection h with h
      subst h
      exact hsafe.h _ he'
    · cases h
    · cases h
    · split at h <;> cases h

/-- the sorted tree is the precedence tree of the token sequence `parseExprNode` read from left to
right (the tokens of the chain it returned) -/
theorem liftSort_parsed_flat {t : Node} (h : Parsed none t) :
    liftSort t = .ok (specParse (flat t).1 (flat t).2) := by
  rcases h with rfl | ⟨x, rest, trail, rfl, _, _⟩
  · rfl
  · cases trail with
    | none =>
      have hf : flat (withTrail (chainAux (close none (leaf x)) rest) none) = (some x, toks rest) :=
        chain_flat x rest
      rw [hf]
      show liftSort (chain x rest) = _
      unfold liftSort
      rw [sort_chain]
    | some o' =>
      have hf : flat (withTrail (chainAux (close none (leaf x)) rest) (some o'))
          = (some x, toks rest ++ [(o', none)]) := by
        show flat (node o' (chain x rest) nil) = _
        simp only [flat, chain_flat]; rfl
      rw [hf]
      show liftSort (node o' (chain x rest) nil) = _
      unfold liftSort
      rw [sort_chain_trailing]

theorem parseExprNode_parsed (n : Nat) (s : List Char) {t : Node} {r : List Char}
    (h : parseExprNode n s none = .ok (t, r)) : Parsed none t :=
  ((parserOK n).expr s none).ok_of h

/-! ## expressions without a missing operand

The rendering `shapeOf` (the string the correspondence check compares with the tree the real
`parseExpr` built) shows a missing operand as `~`, at every depth. -/

theorem mem_intersperse_of_mem {α : Type} (sep : α) : ∀ (xs : List α) (a : α), a ∈ xs → a ∈ xs.intersperse sep
  | [x], a, h => by simpa using h
  | x :: y :: zs, a, h => by
    rw [List.intersperse_cons_cons]
    rcases List.mem_cons.mp h with rfl | h
    · simp
    · exact List.mem_cons_of_mem _ (List.mem_cons_of_mem _ (mem_intersperse_of_mem sep (y :: zs) a h))

theorem mem_intercalate {α : Type} (sep : List α) (xs : List (List α)) (a : List α) (c : α) (ha : a ∈ xs)
    (hc : c ∈ a) : c ∈ sep.intercalate xs := by
  unfold List.intercalate
  exact List.mem_flatten.mpr ⟨a, mem_intersperse_of_mem sep xs a ha, hc⟩

/-- the rendering mentions `~` -/
def ShowsMissing (sh : String) : Prop := '~' ∈ sh.toList

instance (sh : String) : Decidable (ShowsMissing sh) := by unfold ShowsMissing; infer_instance

theorem shape_group (t : Node) (bo so : Option Bool) : (groupNode t bo so).shape = "G[" ++ shapeOf t ++ "]" := rfl

theorem showsMissing_mid {a b c : String} (h : ¬ ShowsMissing (a ++ b ++ c)) : ¬ ShowsMissing b := by
  unfold ShowsMissing at *
  simp only [String.toList_append, List.mem_append, not_or] at h
  exact h.1.2

theorem shape_complete : ∀ t : Node, ¬ ShowsMissing (shapeOf t) →
    none ∉ operands t ∧ ∀ o, some o ∈ operands t → ¬ ShowsMissing o.shape
  | .nil, h => absurd (show ShowsMissing "~" by decide) h
  | .leaf a, h => by simpa [operands, shapeOf] using h
  | .node op l r, h => by
    have h' : ¬ ShowsMissing ("(" ++ shapeOf l ++ op.sym ++ shapeOf r ++ ")") := h
    unfold ShowsMissing at h'
    simp only [String.toList_append, List.mem_append, not_or] at h'
    have hl := shape_complete l h'.1.1.1.2
    have hr := shape_complete r h'.1.2
    simp only [operands, List.mem_append, not_or]
    refine ⟨⟨hl.1, hr.1⟩, ?_⟩
    rintro o (ho | ho)
    · exact hl.2 o ho
    · exact hr.2 o ho

theorem SeqOK.full_of_no_none {α : Type} {first : Option α} {ts : List (Op × Option α)}
    (h : SeqOK false first ts) (hn : none ∉ seqOperands first ts) : SeqOK true first ts := by
  cases h with
  | empty _ => simp [seqOperands] at hn
  | chain a rest => exact .chain a rest
  | trailing a rest o _ => simp [seqOperands] at hn

/-- a sub-expression whose rendering shows no missing operand has none -/
theorem compiled_complete_aux {first : Option Operand} {ts : List (Op × Option Operand)}
    (hs : SeqOK false first ts)
    (ih : ∀ o, some o ∈ seqOperands first ts → ¬ ShowsMissing o.shape → Built true o)
    (hsh : ¬ ShowsMissing (shapeOf (specParse first ts))) :
    SeqOK true first ts ∧ ∀ o, some o ∈ seqOperands first ts → Built true o := by
  have h := shape_complete _ hsh
  rw [operands_specParse] at h
  exact ⟨hs.full_of_no_none h.1, fun o ho => ih o ho (h.2 o ho)⟩

theorem built_complete {o : Operand} (h : Built false o) : ¬ ShowsMissing o.shape → Built true o := by
  induction h with
  | const sh v => exact fun _ => .const sh v
  | selector f bo so => exact fun _ => .selector f bo so
  | group first ts bo so hs _ ih =>
    intro hsh
    rw [shape_group] at hsh
    obtain ⟨h1, h2⟩ := compiled_complete_aux hs ih (showsMissing_mid hsh)
    exact .group first ts bo so h1 h2
  | func name gs bo so hs _ ih =>
    intro hsh
    have hsh' : ¬ ShowsMissing ("F[" ++ ";".intercalate ((gs.map argNode).map (·.shape)) ++ "]") := hsh
    have hmid := showsMissing_mid hsh'
    have hg : ∀ g ∈ gs, ¬ ShowsMissing (shapeOf (specParse g.1 g.2)) := by
      intro g hg hc
      apply hmid
      unfold ShowsMissing at hc ⊢
      rw [String.toList_intercalate]
      refine mem_intercalate _ _ ("G[" ++ shapeOf (specParse g.1 g.2) ++ "]").toList _ ?_ ?_
      · refine List.mem_map.mpr ⟨_, List.mem_map.mpr ⟨_, List.mem_map.mpr ⟨g, hg, rfl⟩, rfl⟩, rfl⟩
      · simp only [String.toList_append, List.mem_append]
        exact .inl (.inr hc)
    exact .func name gs bo so (fun g hg' => (compiled_complete_aux (hs g hg') (ih g hg') (hg g hg')).1)
      (fun g hg' => (compiled_complete_aux (hs g hg') (ih g hg') (hg g hg')).2)
  | regexp re neg first ts hs _ ih =>
    intro hsh
    have hsh' : ¬ ShowsMissing ("R[" ++ ("G[" ++ shapeOf (specParse first ts) ++ "]") ++ "]") := hsh
    obtain ⟨h1, h2⟩ := compiled_complete_aux hs ih (showsMissing_mid (showsMissing_mid hsh'))
    exact .regexp re neg first ts h1 h2

theorem compiled_complete {t : Node} (h : Compiled false t) (hsh : ¬ ShowsMissing (shapeOf t)) : Compiled true t := by
  obtain ⟨first, ts, rfl, hs, hb⟩ := h
  obtain ⟨h1, h2⟩ := compiled_complete_aux hs (fun o ho => built_complete (hb o ho)) hsh
  exact ⟨first, ts, rfl, h1, h2⟩

theorem validate_no_panic_of_compiled (expr : List Char) (env : Env) (t : Node) (he : parseExpr expr = .ok t)
    (hc : Compiled true t) (site : String) : (validate expr env).1 ≠ .panic site := by
  intro h
  obtain ⟨first, ts, rfl, hs, hb⟩ := hc
  have hsafe : Safe (fun _ => False) (groupRun (specParse first ts) none none env) :=
    compiled_run_safe (full := true) (fun h => by cases h) env hs
      (fun o ho => built_run_safe (full := true) (fun h => by cases h) env (hb o ho)) none none
  unfold validate at h
  rw [he] at h
  simp only at h
  split at h
  · next s' he' => exact hsafe.h _ he'
  · cases h
  · cases h
  · split at h <;> cases h


/-! ## lengths: what each reader leaves unread is no longer than what it was given -/

theorem length_dropWhile_le' {α} (p : α → Bool) (l : List α) : (l.dropWhile p).length ≤ l.length := by
  induction l with
  | nil => simp
  | cons a t ih => simp only [List.dropWhile_cons]; split <;> simp <;> omega

theorem trimLeft_length (s : List Char) : (trimLeft s).length ≤ s.length := length_dropWhile_le' _ _

theorem pairedLoop_length (left right : Char) : ∀ (t : List Char) (l1 l2 : Char) (ll rl : Nat) (acc sub rest : List Char),
    pairedLoop left right t l1 l2 ll rl acc = some (sub, rest) → sub.length + rest.length + 1 ≤ acc.length + t.length
  | [], _, _, _, _, _, _, _, h => by simp [pairedLoop] at h
  | r :: t, l1, l2, ll, rl, acc, sub, rest, h => by
    unfold pairedLoop at h
    simp only at h
    have hat : acc.tail.length ≤ acc.length := by simp
    split at h
    · split at h
      · split at h
        · simp only [Option.some.injEq, Prod.mk.injEq] at h
          obtain ⟨rfl, rfl⟩ := h
          simp only [List.length_reverse, List.length_cons]; omega
        · have := pairedLoop_length left right t _ _ _ _ _ _ _ h
          simp only [List.length_cons] at this ⊢; omega
      · have := pairedLoop_length left right t _ _ _ _ _ _ _ h
        simp only [List.length_cons] at this ⊢; omega
    · split at h
      · split at h
        · have := pairedLoop_length left right t _ _ _ _ _ _ _ h
          simp only [List.length_cons] at this ⊢; omega
        · have := pairedLoop_length left right t _ _ _ _ _ _ _ h
          simp only [List.length_cons] at this ⊢; omega
      · have := pairedLoop_length left right t _ _ _ _ _ _ _ h
        simp only [List.length_cons] at this ⊢; omega

theorem readPaired_length {s : List Char} {l r : Char} {sub rest : List Char}
    (h : readPaired s l r = some (sub, rest)) : sub.length + rest.length + 2 ≤ s.length := by
  unfold readPaired at h
  split at h
  · split at h
    · have := pairedLoop_length _ _ _ _ _ _ _ _ _ _ h
      simp only [List.length_cons, List.length_nil] at this ⊢; omega
    · cases h
  · cases h

theorem getOpposite_length (s : List Char) (c : Char) : (getOpposite s c).1.length ≤ s.length :=
  length_dropWhile_le' _ _

theorem getBoolSign_length (s : List Char) : (getBoolSign s).1.length ≤ s.length := by
  unfold getBoolSign getOpposite
  simp only
  have h1 := length_dropWhile_le' (· == '!') s
  have h2 := length_dropWhile_le' (· == '+') (s.dropWhile (· == '!'))
  have h3 := length_dropWhile_le' (· == '-') ((s.dropWhile (· == '!')).dropWhile (· == '+'))
  have h4 := length_dropWhile_le' (· == '+') (((s.dropWhile (· == '!')).dropWhile (· == '+')).dropWhile (· == '-'))
  omega

theorem ite_len {c : Prop} [Decidable c] {o : Op} {r : List Char} {e : Option (Op × List Char)} {op : Op}
    {s3 : List Char} {k : Nat} (h : (if c then some (o, r) else e) = some (op, s3)) (h1 : r.length < k)
    (h2 : e = some (op, s3) → s3.length < k) : s3.length < k := by
  by_cases hc : c
  · rw [if_pos hc] at h; cases h; exact h1
  · rw [if_neg hc] at h; exact h2 h

theorem parseOperator_length {s s3 : List Char} {op : Op} (h : parseOperator s = some (op, s3)) :
    s3.length < s.length := by
  unfold parseOperator at h
  split at h
  · repeat (refine ite_len h (by simp only [List.length_cons]; omega) (fun h => ?_))
    cases h
  · cases h

theorem readDigits_body {r rest ip fp : List Char} {neg neg' : Bool}
    (h : (if (r.takeWhile Char.isDigit).isEmpty = true then none
      else match r.dropWhile Char.isDigit with
        | '.' :: r2 =>
          if (!(r2.takeWhile Char.isDigit).isEmpty && atDelim digDelims (r2.dropWhile Char.isDigit)) = true then
            some (neg', r.takeWhile Char.isDigit, r2.takeWhile Char.isDigit, r2.dropWhile Char.isDigit)
          else none
        | _ => if atDelim digDelims (r.dropWhile Char.isDigit) = true then
            some (neg', r.takeWhile Char.isDigit, [], r.dropWhile Char.isDigit) else none)
      = some (neg, ip, fp, rest)) : rest.length ≤ r.length := by
  have h1 := length_dropWhile_le' Char.isDigit r
  split at h
  · cases h
  · split at h
    · next r2 heq =>
      have h2 := length_dropWhile_le' Char.isDigit r2
      rw [heq] at h1
      split at h
      · simp only [Option.some.injEq, Prod.mk.injEq] at h
        obtain ⟨_, _, _, rfl⟩ := h
        simp only [List.length_cons] at h1; omega
      · cases h
    · split at h
      · simp only [Option.some.injEq, Prod.mk.injEq] at h
        obtain ⟨_, _, _, rfl⟩ := h
        omega
      · cases h

theorem readDigits_length {s rest ip fp : List Char} {neg : Bool}
    (h : readDigits s = some (neg, ip, fp, rest)) : rest.length ≤ s.length := by
  unfold readDigits at h
  simp only at h
  split at h
  · exact Nat.le_trans (readDigits_body h) (by simp)
  · exact Nat.le_trans (readDigits_body h) (by simp)
  · exact readDigits_body h

theorem findSelector_length {s rest : List Char} {f : String} {bo so : Option Bool}
    (h : findSelector s = .found f bo so rest) : rest.length ≤ s.length := by
  unfold findSelector at h
  simp only at h
  have h0 := length_dropWhile_le' (inSet "!+-") s
  split at h
  · cases h
  · next field r heq =>
    have hr : r.length ≤ s.length := by
      split at heq
      · simp only [Option.some.injEq, Prod.mk.injEq] at heq
        rw [← heq.2]; exact h0
      · next r1 hd =>
        rw [hd] at h0
        have h1 := length_dropWhile_le' (inSet " \t") r1
        split at heq
        · split at heq
          · have h2 := length_dropWhile_le' isNameChar (List.dropWhile (inSet " \t") r1)
            have h3 := length_dropWhile_le' (inSet " \t") (List.dropWhile isNameChar (List.dropWhile (inSet " \t") r1))
            split at heq
            · next r4 hd4 =>
              simp only [Option.some.injEq, Prod.mk.injEq] at heq
              rw [hd4] at h3
              rw [← heq.2]
              simp only [List.length_cons] at h0 h3; omega
            · cases heq
          · cases heq
        · cases heq
      · cases heq
    split at h
    · next rest' =>
      split at h
      · cases h
      · split at h
        · split at h
          · cases h
          · injection h with _ _ _ h; subst h; simp only [List.length_cons] at hr ⊢; omega
        · injection h with _ _ _ h; subst h; simp only [List.length_cons] at hr ⊢; omega
    · cases h

/-! ## the fuel of the parser is enough -/

/-- `e` is not "out of fuel", and if it is a value the value satisfies `Q` -/
def NoFuel {β : Type} (Q : β → Prop) : Except PErr β → Prop
  | .ok b => Q b
  | .error .fuel => False
  | .error _ => True

theorem NoFuel.err {β γ : Type} {Q : β → Prop} {Q' : γ → Prop} {e : PErr}
    (h : NoFuel Q (.error e)) : NoFuel Q' (.error e) := by
  cases e <;> first | trivial | exact h

theorem NoFuel.mono {β : Type} {Q Q' : β → Prop} {e : Except PErr β} (h : NoFuel Q e) (hq : ∀ b, Q b → Q' b) :
    NoFuel Q' e := by
  cases e with
  | ok b => exact hq b h
  | error e => exact h.err

theorem liftSort_noFuel (t : Node) : NoFuel (fun _ => True) (liftSort t) := by
  unfold liftSort
  split
  · trivial
  · next heq => exact absurd heq (sortLoop_fuel _ t (Nat.lt_succ_self _))
  · trivial

structure FuelOK (n : Nat) : Prop where
  expr : ∀ s cur, 2 * s.length + 2 ≤ n → NoFuel (fun p => p.2.length ≤ s.length) (parseExprNode n s cur)
  operand : ∀ s, 2 * s.length + 1 ≤ n → NoFuel (fun p => p.2.length ≤ s.length) (readOperand n s)
  args : ∀ s acc, 2 * s.length + 2 ≤ n → NoFuel (fun _ => True) (parseArgs n s acc)

theorem parseExprNode_fuel_step (n : Nat) (ih : FuelOK n) (s : List Char) (cur : Option (Op × Node))
    (hn : 2 * s.length + 2 ≤ n + 1) :
    NoFuel (fun p => p.2.length ≤ s.length) (parseExprNode (n + 1) s cur) := by
  rw [parseExprNode.eq_def]
  simp only
  have ht := trimLeft_length s
  split
  · show ([] : List Char).length ≤ s.length
    simp
  · have ho := ih.operand (trimLeft s) (by omega)
    split
    · next e he => rw [he] at ho; exact ho.err
    · next x s1 he =>
      rw [he] at ho
      have h1 : s1.length ≤ (trimLeft s).length := ho
      have h2 := trimLeft_length s1
      split
      · show (trimLeft s1).length ≤ s.length
        omega
      · next op s3 hop =>
        have h3 := parseOperator_length hop
        exact (ih.expr s3 _ (by omega)).mono (fun p hp => by
          have hp' : p.2.length ≤ s3.length := hp
          show p.2.length ≤ s.length
          omega)

theorem parseArgs_fuel_step (n : Nat) (ih : FuelOK n) (s : List Char) (acc : List Operand)
    (hn : 2 * s.length + 2 ≤ n + 1) : NoFuel (fun _ => True) (parseArgs (n + 1) s acc) := by
  rw [parseArgs.eq_def]
  simp only
  split
  · next s1 =>
    have ht := trimLeft_length s1
    simp only [List.length_cons] at hn
    have hp := ih.expr (trimLeft s1) none (by omega)
    split
    · next e he => rw [he] at hp; exact hp.err
    · next t s2 he =>
      rw [he] at hp
      have h1 : s2.length ≤ (trimLeft s1).length := hp
      have h2 := trimLeft_length s2
      have hs := liftSort_noFuel t
      split
      · next e he2 => rw [he2] at hs; exact hs.err
      · split
        · trivial
        · exact ih.args _ _ (by omega)
  · trivial

theorem readOperand_fuel_step (n : Nat) (ih : FuelOK n) (s : List Char) (hn : 2 * s.length + 1 ≤ n + 1) :
    NoFuel (fun p => p.2.length ≤ s.length) (readOperand (n + 1) s) := by
  rw [readOperand.eq_def]
  simp only
  have hl := getBoolSign_length s
  have hb := getOpposite_length s '!'
  split
  · trivial
  · next field bo so rest heq => exact findSelector_length heq
  · split
    · trivial
    · split
      · -- group
        next sub rest hrp =>
        have h1 := readPaired_length hrp
        have hp := ih.expr sub none (by omega)
        split
        · next e he => rw [he] at hp; exact hp.err
        · next t s2 he =>
          have hs := liftSort_noFuel t
          split
          · next e he2 => rw [he2] at hs; exact hs.err
          · show rest.length ≤ s.length
            omega
      · split
        · trivial
        · split
          · -- regexp
            split
            · trivial
            · next sub rest hrp =>
              have h1 := readPaired_length hrp
              have hd : (List.drop 6 (getBoolSign s).1).length ≤ (getBoolSign s).1.length := by
                rw [List.length_drop]; omega
              split
              · trivial
              · next pat sub2 hrp2 =>
                have h2 := readPaired_length hrp2
                have h3 := trimLeft_length sub
                have h4 := trimLeft_length sub2
                split
                · trivial
                · next re _ =>
                  split
                  · trivial
                  · next e _ he =>
                    have : NoFuel (fun _ => True) (Except.error e : Except PErr (Node × List Char)) := by
                      split at he
                      · next sub3 hc =>
                        rw [← he]
                        have h5 := trimLeft_length sub3
                        rw [hc] at h4
                        simp only [List.length_cons] at h4
                        exact (ih.expr (trimLeft sub3) none (by omega)).mono (fun _ _ => trivial)
                      · cases he
                    exact this.err
                  · next t sub4 he =>
                    split
                    · trivial
                    · have hs := liftSort_noFuel t
                      split
                      · next e he2 => rw [he2] at hs; exact hs.err
                      · show rest.length ≤ s.length
                        omega
          · split
            · -- len / in
              split
              · trivial
              · next sub rest hrp =>
                have h1 := readPaired_length hrp
                have hd := List.length_drop (i := (if startsWith (getBoolSign s).1 "len(" = true then "len" else if startsWith (getBoolSign s).1 "in(" = true then "in"
                    else if startsWith (getBoolSign s).1 "vdpt(" = true then "vdpt" else "vdid").length)
                  (l := (getBoolSign s).1)
                have ha := ih.args (',' :: sub) [] (by simp only [List.length_cons]; omega)
                split
                · trivial
                · next e _ he => rw [he] at ha; exact ha.err
                · show rest.length ≤ s.length
                  omega
            · split
              · next str rest hrp =>
                have h1 := readPaired_length hrp
                show rest.length ≤ s.length
                omega
              · split
                · next neg ip fp rest hrd =>
                  have h1 := readDigits_length hrd
                  show rest.length ≤ s.length
                  omega
                · split
                  · show (List.drop 4 (getOpposite s '!').1).length ≤ s.length
                    rw [List.length_drop]; omega
                  · split
                    · show (List.drop 5 (getOpposite s '!').1).length ≤ s.length
                      rw [List.length_drop]; omega
                    · split
                      · show (List.drop 3 (getOpposite s '!').1).length ≤ s.length
                        rw [List.length_drop]; omega
                      · split
                        · split
                          · show (List.dropWhile isIdentChar (getOpposite s '!').1).length ≤ s.length
                            have := length_dropWhile_le' isIdentChar (getOpposite s '!').1
                            omega
                          · trivial
                        · trivial

theorem fuelOK : ∀ n, FuelOK n
  | 0 => ⟨fun s _ h => by omega, fun s h => by omega, fun s _ h => by omega⟩
  | n + 1 =>
    have ih := fuelOK n
    ⟨parseExprNode_fuel_step n ih, readOperand_fuel_step n ih, parseArgs_fuel_step n ih⟩

/-- the fuel `parseExpr` gives the recursive parser is always enough -/
theorem parseExpr_fuel (s : List Char) : parseExpr s ≠ .error .fuel := by
  unfold parseExpr
  have hp := (fuelOK (4 * s.length + 8)).expr s none (by omega)
  intro h
  split at h
  · next e he => rw [he] at hp; cases h; exact hp
  · next t r he =>
    have := liftSort_noFuel t
    rw [h] at this; exact this

end Hertz.Tagexpr
