import Hertz.Model.ClientHelper
/-!
Invariant of the result-channel discipline of `GetURLDeadline` (`Model/ClientHelper.lean`), for every run.
-/
namespace Hertz.ClientHelper

structure Inv (s : St) : Prop where
  poolLt : ∀ c ∈ s.pool, c < s.next
  poolNodup : s.pool.Nodup
  poolEmpty : ∀ c ∈ s.pool, s.buf c = none
  poolNoWorker : ∀ c ∈ s.pool, ∀ j, s.worker j ≠ some c
  poolNoWaiter : ∀ c ∈ s.pool, ∀ j, s.phase j ≠ .waiting c
  waitLt : ∀ i c, s.phase i = .waiting c → c < s.next
  waitBuf : ∀ i c v, s.phase i = .waiting c → s.buf c = some v → v = i
  waitWorker : ∀ i c j, s.phase i = .waiting c → s.worker j = some c → j = i
  waitUnique : ∀ i j c, s.phase i = .waiting c → s.phase j = .waiting c → i = j
  workerLt : ∀ j c, s.worker j = some c → c < s.next
  workerEmpty : ∀ j c, s.worker j = some c → s.buf c = none
  workerUnique : ∀ i j c, s.worker i = some c → s.worker j = some c → i = j
  bufLt : ∀ c v, s.buf c = some v → c < s.next
  gotOwn : ∀ i v, s.phase i = .got v → v = i

theorem inv_init : Inv init := by
  constructor <;> intros <;> simp_all [init]

theorem getElem_not_mem_eraseIdx : ∀ {l : List Nat} (_ : l.Nodup) (k : Nat) (h : k < l.length), l[k] ∉ l.eraseIdx k
  | [], _, _, h => by simp at h
  | a :: t, hn, 0, _ => by
    simp only [List.getElem_cons_zero, List.eraseIdx_zero, List.tail_cons]
    exact (List.nodup_cons.mp hn).1
  | a :: t, hn, k + 1, h => by
    have hk : k < t.length := by simpa using h
    simp only [List.getElem_cons_succ, List.eraseIdx_cons_succ, List.mem_cons, not_or]
    refine ⟨?_, getElem_not_mem_eraseIdx (List.nodup_cons.mp hn).2 k hk⟩
    intro e
    exact (List.nodup_cons.mp hn).1 (e ▸ List.getElem_mem hk)

theorem mem_of_mem_eraseIdx {l : List Nat} {k c : Nat} (h : c ∈ l.eraseIdx k) : c ∈ l :=
  (List.eraseIdx_sublist l k).subset h

/-- `Get` returned the pooled channel `c` -/
theorem inv_start_pooled (s : St) (hi : Inv s) (i : Call) (k : Nat) (hk : k < s.pool.length) (hp : s.phase i = .idle) :
    Inv { s with pool := s.pool.eraseIdx k,
                 phase := fun j => if j = i then .waiting s.pool[k] else s.phase j,
                 worker := fun j => if j = i then some s.pool[k] else s.worker j } := by
  have hc : s.pool[k] ∈ s.pool := List.getElem_mem hk
  have hnot := getElem_not_mem_eraseIdx hi.poolNodup k hk
  refine ⟨?_, ?_, ?_, ?_, ?_, ?_, ?_, ?_, ?_, ?_, ?_, ?_, ?_, ?_⟩
  · intro c hm; exact hi.poolLt c (mem_of_mem_eraseIdx hm)
  · exact hi.poolNodup.sublist (List.eraseIdx_sublist _ _)
  · intro c hm; exact hi.poolEmpty c (mem_of_mem_eraseIdx hm)
  · intro c hm j
    by_cases hj : j = i
    · simp only [hj, if_true]; intro e; cases e; exact hnot hm
    · simp only [hj, if_false]; exact hi.poolNoWorker c (mem_of_mem_eraseIdx hm) j
  · intro c hm j
    by_cases hj : j = i
    · simp only [hj, if_true]; intro e; cases e; exact hnot hm
    · simp only [hj, if_false]; exact hi.poolNoWaiter c (mem_of_mem_eraseIdx hm) j
  · intro i' c h
    by_cases hj : i' = i
    · simp only [hj, if_true] at h; cases h; exact hi.poolLt _ hc
    · simp only [hj, if_false] at h; exact hi.waitLt i' c h
  · intro i' c v h hb
    by_cases hj : i' = i
    · simp only [hj, if_true] at h; cases h
      have := hi.poolEmpty _ hc
      simp only at hb; rw [this] at hb; cases hb
    · simp only [hj, if_false] at h; exact hi.waitBuf i' c v h hb
  · intro i' c j h hw
    by_cases hi' : i' = i
    · simp only [hi', if_true] at h; cases h
      by_cases hj : j = i
      · rw [hj, hi']
      · simp only [hj, if_false] at hw; exact absurd hw (hi.poolNoWorker _ hc j)
    · simp only [hi', if_false] at h
      by_cases hj : j = i
      · simp only [hj, if_true] at hw; cases hw; exact absurd h (hi.poolNoWaiter _ hc i')
      · simp only [hj, if_false] at hw; exact hi.waitWorker i' c j h hw
  · intro i' j c h1 h2
    by_cases hi' : i' = i
    · simp only [hi', if_true] at h1; cases h1
      by_cases hj : j = i
      · rw [hj, hi']
      · simp only [hj, if_false] at h2; exact absurd h2 (hi.poolNoWaiter _ hc j)
    · simp only [hi', if_false] at h1
      by_cases hj : j = i
      · simp only [hj, if_true] at h2; cases h2; exact absurd h1 (hi.poolNoWaiter _ hc i')
      · simp only [hj, if_false] at h2; exact hi.waitUnique i' j c h1 h2
  · intro j c h
    by_cases hj : j = i
    · simp only [hj, if_true] at h; cases h; exact hi.poolLt _ hc
    · simp only [hj, if_false] at h; exact hi.workerLt j c h
  · intro j c h
    by_cases hj : j = i
    · simp only [hj, if_true] at h; cases h; exact hi.poolEmpty _ hc
    · simp only [hj, if_false] at h; exact hi.workerEmpty j c h
  · intro i' j c h1 h2
    by_cases hi' : i' = i
    · simp only [hi', if_true] at h1; cases h1
      by_cases hj : j = i
      · rw [hj, hi']
      · simp only [hj, if_false] at h2; exact absurd h2 (hi.poolNoWorker _ hc j)
    · simp only [hi', if_false] at h1
      by_cases hj : j = i
      · simp only [hj, if_true] at h2; cases h2; exact absurd h1 (hi.poolNoWorker _ hc i')
      · simp only [hj, if_false] at h2; exact hi.workerUnique i' j c h1 h2
  · exact hi.bufLt
  · intro i' v h
    by_cases hj : i' = i
    · simp only [hj, if_true] at h; cases h
    · simp only [hj, if_false] at h; exact hi.gotOwn i' v h

/-- the pool yielded nothing: a channel is made -/
theorem inv_start_fresh (s : St) (hi : Inv s) (i : Call) (hp : s.phase i = .idle) :
    Inv { s with next := s.next + 1,
                 phase := fun j => if j = i then .waiting s.next else s.phase j,
                 worker := fun j => if j = i then some s.next else s.worker j } := by
  refine ⟨?_, ?_, ?_, ?_, ?_, ?_, ?_, ?_, ?_, ?_, ?_, ?_, ?_, ?_⟩
  · intro c hm; exact Nat.lt_succ_of_lt (hi.poolLt c hm)
  · exact hi.poolNodup
  · exact hi.poolEmpty
  · intro c hm j
    by_cases hj : j = i
    · simp only [hj, if_true]; intro e; cases e; exact absurd (hi.poolLt _ hm) (Nat.lt_irrefl _)
    · simp only [hj, if_false]; exact hi.poolNoWorker c hm j
  · intro c hm j
    by_cases hj : j = i
    · simp only [hj, if_true]; intro e; cases e; exact absurd (hi.poolLt _ hm) (Nat.lt_irrefl _)
    · simp only [hj, if_false]; exact hi.poolNoWaiter c hm j
  · intro i' c h
    by_cases hj : i' = i
    · simp only [hj, if_true] at h; cases h; exact Nat.lt_succ_self _
    · simp only [hj, if_false] at h; exact Nat.lt_succ_of_lt (hi.waitLt i' c h)
  · intro i' c v h hb
    by_cases hj : i' = i
    · simp only [hj, if_true] at h; cases h
      exact absurd (hi.bufLt _ _ hb) (Nat.lt_irrefl _)
    · simp only [hj, if_false] at h; exact hi.waitBuf i' c v h hb
  · intro i' c j h hw
    by_cases hi' : i' = i
    · simp only [hi', if_true] at h; cases h
      by_cases hj : j = i
      · rw [hj, hi']
      · simp only [hj, if_false] at hw; exact absurd (hi.workerLt _ _ hw) (Nat.lt_irrefl _)
    · simp only [hi', if_false] at h
      by_cases hj : j = i
      · simp only [hj, if_true] at hw; cases hw; exact absurd (hi.waitLt _ _ h) (Nat.lt_irrefl _)
      · simp only [hj, if_false] at hw; exact hi.waitWorker i' c j h hw
  · intro i' j c h1 h2
    by_cases hi' : i' = i
    · simp only [hi', if_true] at h1; cases h1
      by_cases hj : j = i
      · rw [hj, hi']
      · simp only [hj, if_false] at h2; exact absurd (hi.waitLt _ _ h2) (Nat.lt_irrefl _)
    · simp only [hi', if_false] at h1
      by_cases hj : j = i
      · simp only [hj, if_true] at h2; cases h2; exact absurd (hi.waitLt _ _ h1) (Nat.lt_irrefl _)
      · simp only [hj, if_false] at h2; exact hi.waitUnique i' j c h1 h2
  · intro j c h
    by_cases hj : j = i
    · simp only [hj, if_true] at h; cases h; exact Nat.lt_succ_self _
    · simp only [hj, if_false] at h; exact Nat.lt_succ_of_lt (hi.workerLt j c h)
  · intro j c h
    by_cases hj : j = i
    · simp only [hj, if_true] at h; cases h
      cases hb : s.buf s.next with
      | none => rfl
      | some v => exact absurd (hi.bufLt _ _ hb) (Nat.lt_irrefl _)
    · simp only [hj, if_false] at h; exact hi.workerEmpty j c h
  · intro i' j c h1 h2
    by_cases hi' : i' = i
    · simp only [hi', if_true] at h1; cases h1
      by_cases hj : j = i
      · rw [hj, hi']
      · simp only [hj, if_false] at h2; exact absurd (hi.workerLt _ _ h2) (Nat.lt_irrefl _)
    · simp only [hi', if_false] at h1
      by_cases hj : j = i
      · simp only [hj, if_true] at h2; cases h2; exact absurd (hi.workerLt _ _ h1) (Nat.lt_irrefl _)
      · simp only [hj, if_false] at h2; exact hi.workerUnique i' j c h1 h2
  · intro c v hb; exact Nat.lt_succ_of_lt (hi.bufLt c v hb)
  · intro i' v h
    by_cases hj : i' = i
    · simp only [hj, if_true] at h; cases h
    · simp only [hj, if_false] at h; exact hi.gotOwn i' v h

theorem inv_send (s : St) (hi : Inv s) (i : Call) (c : Chan) (hw : s.worker i = some c) (hb : s.buf c = none) :
    Inv { s with buf := fun d => if d = c then some i else s.buf d,
                 worker := fun j => if j = i then none else s.worker j } := by
  refine ⟨hi.poolLt, hi.poolNodup, ?_, ?_, hi.poolNoWaiter, hi.waitLt, ?_, ?_, hi.waitUnique, ?_, ?_, ?_, ?_, hi.gotOwn⟩
  · intro c' hm
    by_cases hc : c' = c
    · subst hc; exact absurd hw (hi.poolNoWorker _ hm i)
    · simp only [hc, if_false]; exact hi.poolEmpty c' hm
  · intro c' hm j
    by_cases hj : j = i
    · simp only [hj, if_true]; intro e; cases e
    · simp only [hj, if_false]; exact hi.poolNoWorker c' hm j
  · intro i' c' v h hb'
    by_cases hc : c' = c
    · subst hc
      simp only [if_true] at hb'; cases hb'
      exact (hi.waitWorker i' _ _ h hw)
    · simp only [hc, if_false] at hb'; exact hi.waitBuf i' c' v h hb'
  · intro i' c' j h hw'
    by_cases hj : j = i
    · simp only [hj, if_true] at hw'; cases hw'
    · simp only [hj, if_false] at hw'; exact hi.waitWorker i' c' j h hw'
  · intro j c' h
    by_cases hj : j = i
    · simp only [hj, if_true] at h; cases h
    · simp only [hj, if_false] at h; exact hi.workerLt j c' h
  · intro j c' h
    by_cases hj : j = i
    · simp only [hj, if_true] at h; cases h
    · simp only [hj, if_false] at h
      by_cases hc : c' = c
      · subst hc; exact absurd (hi.workerUnique j i _ h hw) hj
      · simp only [hc, if_false]; exact hi.workerEmpty j c' h
  · intro i' j c' h1 h2
    by_cases hi' : i' = i
    · simp only [hi', if_true] at h1; cases h1
    · simp only [hi', if_false] at h1
      by_cases hj : j = i
      · simp only [hj, if_true] at h2; cases h2
      · simp only [hj, if_false] at h2; exact hi.workerUnique i' j c' h1 h2
  · intro c' v hb'
    by_cases hc : c' = c
    · subst hc; exact hi.workerLt _ _ hw
    · simp only [hc, if_false] at hb'; exact hi.bufLt c' v hb'

theorem inv_recv (s : St) (hi : Inv s) (i : Call) (c : Chan) (v : Call) (hp : s.phase i = .waiting c) (hb : s.buf c = some v) :
    Inv { s with buf := fun d => if d = c then none else s.buf d,
                 pool := c :: s.pool,
                 phase := fun j => if j = i then .got v else s.phase j } := by
  have hcnp : c ∉ s.pool := fun hm => hi.poolNoWaiter c hm i hp
  refine ⟨?_, ?_, ?_, ?_, ?_, ?_, ?_, ?_, ?_, hi.workerLt, ?_, hi.workerUnique, ?_, ?_⟩
  · intro c' hm
    rcases List.mem_cons.mp hm with e | hm
    · subst e; exact hi.waitLt i _ hp
    · exact hi.poolLt c' hm
  · exact List.nodup_cons.mpr ⟨hcnp, hi.poolNodup⟩
  · intro c' hm
    by_cases hc : c' = c
    · simp only [hc, if_true]
    · simp only [hc, if_false]
      rcases List.mem_cons.mp hm with e | hm
      · exact absurd e hc
      · exact hi.poolEmpty c' hm
  · intro c' hm j
    rcases List.mem_cons.mp hm with e | hm
    · subst e; intro hw
      have := hi.workerEmpty j _ hw
      rw [this] at hb; cases hb
    · exact hi.poolNoWorker c' hm j
  · intro c' hm j
    by_cases hj : j = i
    · simp only [hj, if_true]; intro e; cases e
    · simp only [hj, if_false]
      rcases List.mem_cons.mp hm with e | hm
      · subst e; intro h; exact hj (hi.waitUnique j i _ h hp)
      · exact hi.poolNoWaiter c' hm j
  · intro i' c' h
    by_cases hj : i' = i
    · simp only [hj, if_true] at h; cases h
    · simp only [hj, if_false] at h; exact hi.waitLt i' c' h
  · intro i' c' v' h hb'
    by_cases hj : i' = i
    · simp only [hj, if_true] at h; cases h
    · simp only [hj, if_false] at h
      by_cases hc : c' = c
      · simp only [hc, if_true] at hb'; cases hb'
      · simp only [hc, if_false] at hb'; exact hi.waitBuf i' c' v' h hb'
  · intro i' c' j h hw
    by_cases hj : i' = i
    · simp only [hj, if_true] at h; cases h
    · simp only [hj, if_false] at h; exact hi.waitWorker i' c' j h hw
  · intro i' j c' h1 h2
    by_cases hi' : i' = i
    · simp only [hi', if_true] at h1; cases h1
    · simp only [hi', if_false] at h1
      by_cases hj : j = i
      · simp only [hj, if_true] at h2; cases h2
      · simp only [hj, if_false] at h2; exact hi.waitUnique i' j c' h1 h2
  · intro j c' h
    by_cases hc : c' = c
    · simp only [hc, if_true]
    · simp only [hc, if_false]; exact hi.workerEmpty j c' h
  · intro c' v' hb'
    by_cases hc : c' = c
    · simp only [hc, if_true] at hb'; cases hb'
    · simp only [hc, if_false] at hb'; exact hi.bufLt c' v' hb'
  · intro i' v' h
    by_cases hj : i' = i
    · simp only [hj, if_true] at h; cases h
      rw [hj]; exact hi.waitBuf i c v hp hb
    · simp only [hj, if_false] at h; exact hi.gotOwn i' v' h

theorem inv_timeout (s : St) (hi : Inv s) (i : Call) :
    Inv { s with phase := fun j => if j = i then .timedOut else s.phase j } := by
  refine ⟨hi.poolLt, hi.poolNodup, hi.poolEmpty, hi.poolNoWorker, ?_, ?_, ?_, ?_, ?_, hi.workerLt, hi.workerEmpty,
    hi.workerUnique, hi.bufLt, ?_⟩
  · intro c hm j
    by_cases hj : j = i
    · simp only [hj, if_true]; intro e; cases e
    · simp only [hj, if_false]; exact hi.poolNoWaiter c hm j
  · intro i' c h
    by_cases hj : i' = i
    · simp only [hj, if_true] at h; cases h
    · simp only [hj, if_false] at h; exact hi.waitLt i' c h
  · intro i' c v h hb
    by_cases hj : i' = i
    · simp only [hj, if_true] at h; cases h
    · simp only [hj, if_false] at h; exact hi.waitBuf i' c v h hb
  · intro i' c j h hw
    by_cases hj : i' = i
    · simp only [hj, if_true] at h; cases h
    · simp only [hj, if_false] at h; exact hi.waitWorker i' c j h hw
  · intro i' j c h1 h2
    by_cases hi' : i' = i
    · simp only [hi', if_true] at h1; cases h1
    · simp only [hi', if_false] at h1
      by_cases hj : j = i
      · simp only [hj, if_true] at h2; cases h2
      · simp only [hj, if_false] at h2; exact hi.waitUnique i' j c h1 h2
  · intro i' v h
    by_cases hj : i' = i
    · simp only [hj, if_true] at h; cases h
    · simp only [hj, if_false] at h; exact hi.gotOwn i' v h

theorem inv_step (s : St) (hi : Inv s) (e : Ev) : Inv (step false s e) := by
  cases e with
  | start i k =>
    simp only [step]
    split
    · rename_i hp
      split
      · rename_i hk; exact inv_start_pooled s hi i k hk hp
      · exact inv_start_fresh s hi i hp
    · exact hi
  | send i =>
    simp only [step]
    split
    · rename_i c hw
      split
      · rename_i hb; exact inv_send s hi i c hw hb
      · exact hi
    · exact hi
  | recv i =>
    simp only [step]
    split
    · rename_i c hp
      split
      · rename_i v hb; exact inv_recv s hi i c v hp hb
      · exact hi
    · exact hi
  | timeout i =>
    simp only [step]
    split
    · simp only [Bool.false_eq_true, if_false]; exact inv_timeout s hi i
    · exact hi

theorem inv_run (s : St) (hi : Inv s) (es : List Ev) : Inv (run false s es) := by
  induction es generalizing s with
  | nil => exact hi
  | cons e es ih => exact ih (step false s e) (inv_step s hi e)

end Hertz.ClientHelper
