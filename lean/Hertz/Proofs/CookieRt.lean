import Hertz.Model.Uri
/-!
Round trip of `Cookie.AppendBytes` then `Cookie.ParseBytes` (`pkg/protocol/cookie.go`, model in `Hertz.Model.Uri`):

* `parseCookie_appendCookie`: for every valid cookie (`wfCookie`) whose serialisation is not empty,
  `parseCookie (appendCookie c) = some c` — all fields, no size bounds; max-age below `2^63` (Go `int`).
* `appendCookie_eq_nil_iff` / `parseCookie_appendCookie'`: "serialisation not empty" = key, value or some attribute set.
* `parseCookie_appendCookie_empty`: the finding — the empty cookie is valid, is written as `""`, and that is rejected.
* `exCookie_*`: non-vacuity on a cookie that uses every attribute.

Ingredients: `ByteArray.toList`/`String.toUTF8` of `toString n` as decimal digit bytes (`appendUintDec_lt/_ge`),
`parseUintDec (appendUintDec n) = some n`, `cookieSegs` on `;`-joined segments, one fold step per attribute.
-/
namespace Hertz.Uri
open Hertz Hertz.Gen.Str

theorem ba_len (bs : ByteArray) : bs.data.toList.length = bs.size := by
  simp

theorem byteArray_toList_loop (bs : ByteArray) (k : Nat) : ∀ (i : Nat) (r : List UInt8), bs.size - i = k →
    ByteArray.toList.loop bs i r = r.reverse ++ bs.data.toList.drop i := by
  induction k with
  | zero =>
    intro i r h
    rw [ByteArray.toList.loop]
    have : ¬ i < bs.size := by omega
    simp only [this, if_false]
    have : bs.data.toList.length ≤ i := by rw [ba_len]; omega
    rw [List.drop_eq_nil_of_le this, List.append_nil]
  | succ k ih =>
    intro i r h
    rw [ByteArray.toList.loop]
    have hi : i < bs.size := by omega
    simp only [hi, if_true]
    rw [ih (i+1) _ (by omega)]
    have hi' : i < bs.data.toList.length := by rw [ba_len]; exact hi
    rw [List.drop_eq_getElem_cons hi']
    have hg : bs.get! i = bs.data.toList[i] := by
      cases bs with
      | mk d =>
        have : i < d.size := by simpa using hi'
        simp [ByteArray.get!, this]
    rw [hg]
    simp

theorem byteArray_toList (bs : ByteArray) : bs.toList = bs.data.toList := by
  simp [ByteArray.toList, byteArray_toList_loop bs _ 0 [] rfl]


theorem appendUintDec_eq (n : Nat) : appendUintDec n = (Nat.toDigits 10 n).flatMap String.utf8EncodeChar := by
  unfold appendUintDec
  rw [byteArray_toList, Nat.toString_eq_ofList_toDigits]
  simp [List.utf8Encode]

theorem enc_digitChar (d : Nat) (h : d < 10) : String.utf8EncodeChar (Nat.digitChar d) = [48 + d.toUInt8] := by
  match d, h with
  | 0, _ | 1, _ | 2, _ | 3, _ | 4, _ | 5, _ | 6, _ | 7, _ | 8, _ | 9, _ => decide
  | _ + 10, h => omega

theorem appendUintDec_lt (n : Nat) (h : n < 10) : appendUintDec n = [48 + n.toUInt8] := by
  rw [appendUintDec_eq, Nat.toDigits_of_lt_base h]
  simp [enc_digitChar n h]

theorem appendUintDec_ge (n : Nat) (h : 10 ≤ n) :
    appendUintDec n = appendUintDec (n / 10) ++ [48 + (n % 10).toUInt8] := by
  rw [appendUintDec_eq, appendUintDec_eq, Nat.toDigits_of_base_le (by decide) h]
  simp [enc_digitChar (n % 10) (Nat.mod_lt _ (by decide))]

theorem indexOf_append (c : UInt8) (a b : Bytes) (h : ∀ x ∈ a, x ≠ c) :
    indexOf c (a ++ c :: b) = some a.length := by
  induction a with
  | nil => simp [indexOf]
  | cons x t ih =>
    have hx : x ≠ c := h x (by simp)
    simp [indexOf, hx, ih (fun y hy => h y (by simp [hy]))]

theorem indexOf_none (c : UInt8) (a : Bytes) (h : ∀ x ∈ a, x ≠ c) : indexOf c a = none := by
  induction a with
  | nil => rfl
  | cons x t ih =>
    have hx : x ≠ c := h x (by simp)
    simp [indexOf, hx, ih (fun y hy => h y (by simp [hy]))]

theorem not_contains (b : Bytes) (c : UInt8) (h : b.contains c = false) : ∀ x ∈ b, x ≠ c := by
  intro x hx he
  subst he
  simp [hx] at h

theorem cookieSegs_cons_semi (seg rest : Bytes) (h : ∀ x ∈ seg, x ≠ 59) :
    cookieSegs (seg ++ 59 :: rest) = seg :: cookieSegs rest := by
  induction seg with
  | nil => simp [cookieSegs]
  | cons c t ih =>
    have hc : c ≠ 59 := h c (by simp)
    simp [cookieSegs, hc, ih (fun x hx => h x (by simp [hx]))]

theorem cookieSegs_single (seg : Bytes) (h : ∀ x ∈ seg, x ≠ 59) (hne : seg ≠ []) : cookieSegs seg = [seg] := by
  induction seg with
  | nil => exact absurd rfl hne
  | cons c t ih =>
    have hc : c ≠ 59 := h c (by simp)
    match t, ih with
    | [], _ => simp [cookieSegs, hc]
    | d :: r, ih =>
      have := ih (fun x hx => h x (by simp [hx])) (by simp)
      rw [cookieSegs, if_neg hc, this]

theorem cookieSegs_join (l : List Bytes) : ∀ (first : Bytes), (∀ x ∈ first, x ≠ 59) →
    (∀ s ∈ l, s ≠ [] ∧ ∀ x ∈ s, x ≠ 59) → (l = [] → first ≠ []) →
    cookieSegs (first ++ l.flatMap (fun s => 59 :: s)) = first :: l := by
  induction l with
  | nil => intro first h1 _ h3; simpa using cookieSegs_single first h1 (h3 rfl)
  | cons s r ih =>
    intro first h1 h2 _
    have hs := h2 s (by simp)
    simp only [List.flatMap_cons, List.cons_append]
    rw [cookieSegs_cons_semi _ _ h1, ih s hs.2 (fun t ht => h2 t (by simp [ht])) (fun _ => hs.1)]

theorem cookieKV_eq (a b : Bytes) (h : ∀ x ∈ a, x ≠ 61) :
    cookieKV (a ++ 61 :: b) = (decodeCookieArg a false, decodeCookieArg b true) := by
  unfold cookieKV
  rw [indexOf_append 61 a b h]
  simp

theorem cookieKV_none (a : Bytes) (h : ∀ x ∈ a, x ≠ 61) : cookieKV a = ([], decodeCookieArg a true) := by
  unfold cookieKV
  rw [indexOf_none 61 a h]


theorem digit_facts (d : Nat) (h : d < 10) :
    (48 : UInt8) ≤ 48 + d.toUInt8 ∧ 48 + d.toUInt8 ≤ (57 : UInt8) ∧ ((48 + d.toUInt8 : UInt8) - 48).toNat = d := by
  match d, h with
  | 0, _ | 1, _ | 2, _ | 3, _ | 4, _ | 5, _ | 6, _ | 7, _ | 8, _ | 9, _ => decide
  | _ + 10, h => omega

def isDigitB (c : UInt8) : Bool := 48 ≤ c && c ≤ 57

theorem appendUintDec_digits (n : Nat) : ∀ x ∈ appendUintDec n, isDigitB x = true := by
  induction n using Nat.strongRecOn with
  | _ n ih =>
    by_cases h : n < 10
    · rw [appendUintDec_lt n h]
      have := digit_facts n h
      simp [isDigitB, this.1, this.2.1]
    · rw [appendUintDec_ge n (by omega)]
      have := digit_facts (n % 10) (Nat.mod_lt _ (by decide))
      intro x hx
      rw [List.mem_append] at hx
      rcases hx with hx | hx
      · exact ih (n / 10) (by omega) x hx
      · simp at hx; subst hx; simp [isDigitB, this.1, this.2.1]

theorem appendUintDec_ne_nil (n : Nat) : appendUintDec n ≠ [] := by
  by_cases h : n < 10
  · rw [appendUintDec_lt n h]; simp
  · rw [appendUintDec_ge n (by omega)]; simp

theorem appendUintDec_val (n : Nat) :
    (appendUintDec n).foldl (fun n c => n * 10 + (c - 48).toNat) 0 = n := by
  induction n using Nat.strongRecOn with
  | _ n ih =>
    by_cases h : n < 10
    · rw [appendUintDec_lt n h]
      simp [(digit_facts n h).2.2]
    · rw [appendUintDec_ge n (by omega), List.foldl_append, ih (n / 10) (by omega)]
      simp [(digit_facts (n % 10) (Nat.mod_lt _ (by decide))).2.2]
      omega

theorem parseUintDec_appendUintDec (n : Nat) (h : n < 2 ^ 63) : parseUintDec (appendUintDec n) = some n := by
  unfold parseUintDec
  have h1 : (appendUintDec n).isEmpty = false := by
    cases he : appendUintDec n with
    | nil => exact absurd he (appendUintDec_ne_nil n)
    | cons _ _ => rfl
  have h2 : (appendUintDec n).all (fun c => decide (48 ≤ c) && decide (c ≤ 57)) = true := by
    rw [List.all_eq_true]
    intro x hx
    exact appendUintDec_digits n x hx
  simp only [h1, h2, Bool.not_true, Bool.or_self, Bool.false_eq_true, if_false, appendUintDec_val, h, if_true]

theorem dropWhile_sp_id (s : Bytes) (h : ∀ x ∈ s, x ≠ 32) : s.dropWhile (· == 32) = s := by
  cases s with
  | nil => rfl
  | cons c t =>
    have hc : c ≠ 32 := h c (by simp)
    simp [hc]

theorem trimSp_id (s : Bytes) (h : ∀ x ∈ s, x ≠ 32) : trimSp s = s := by
  unfold trimSp
  rw [dropWhile_sp_id s h, dropWhile_sp_id s.reverse (fun x hx => h x (by simpa using hx)), List.reverse_reverse]

theorem decodeCookieArg_id (s : Bytes) (q : Bool) (h : ∀ x ∈ s, x ≠ 32 ∧ x ≠ 34) : decodeCookieArg s q = s := by
  unfold decodeCookieArg
  rw [trimSp_id s (fun x hx => (h x hx).1)]
  have : s.head? ≠ some 34 := by
    intro he
    have := List.mem_of_head? he  
    exact (h 34 this).2 rfl
  simp [this]

theorem decodeCookieArg_uint (n : Nat) : decodeCookieArg (appendUintDec n) true = appendUintDec n := by
  apply decodeCookieArg_id
  intro x hx
  have := appendUintDec_digits n x hx
  simp only [isDigitB, Bool.and_eq_true, decide_eq_true_eq] at this
  constructor
  · intro he; subst he; exact absurd this.1 (by decide)
  · intro he; subst he; exact absurd this.1 (by decide)

theorem uint_no (n : Nat) (c : UInt8) (hc : isDigitB c = false) : ∀ x ∈ appendUintDec n, x ≠ c := by
  intro x hx he
  subst he
  rw [appendUintDec_digits n x hx] at hc
  exact absurd hc (by decide)

/-! ### the shape of `appendCookie` -/

/-- an attribute/value byte string the serialiser can carry unchanged: no `;`, and trimming/unquoting leaves it alone -/
def plainArg (b : Bytes) : Bool := !b.contains 59 && b == decodeCookieArg b true

/-- validity predicate (the one the test driver uses, plus the Go `int` range of max-age) -/
def wfCookie (c : Cookie) : Bool :=
  !c.key.contains 61 && !c.key.contains 59 && c.key == decodeCookieArg c.key false &&
  plainArg c.value && plainArg c.domain && plainArg c.path &&
  !(c.key.isEmpty && c.value.contains 61) && decide (c.maxAge < 2^63)

def firstSeg (c : Cookie) : Bytes := (if c.key.isEmpty then [] else c.key ++ [61]) ++ c.value

def segMaxAge (c : Cookie) : List Bytes :=
  if c.maxAge > 0 then [32 :: strCookieMaxAge ++ 61 :: appendUintDec c.maxAge] else []
def segDomain (c : Cookie) : List Bytes :=
  if c.domain.isEmpty then [] else [32 :: strCookieDomain ++ 61 :: c.domain]
def segPath (c : Cookie) : List Bytes :=
  if c.path.isEmpty then [] else [32 :: strCookiePath ++ 61 :: c.path]
def segHttpOnly (c : Cookie) : List Bytes := if c.httpOnly then [32 :: strCookieHTTPOnly] else []
def segSecure (c : Cookie) : List Bytes := if c.secure then [32 :: strCookieSecure] else []
def segSameSite (c : Cookie) : List Bytes :=
  match c.sameSite with
  | .disabled => []
  | .default => [32 :: strCookieSameSite]
  | .lax => [32 :: strCookieSameSite ++ 61 :: strCookieSameSiteLax]
  | .strict => [32 :: strCookieSameSite ++ 61 :: strCookieSameSiteStrict]
  | .none => [32 :: strCookieSameSite ++ 61 :: strCookieSameSiteNone]
def segPartitioned (c : Cookie) : List Bytes := if c.partitioned then [32 :: strCookiePartitioned] else []

def attrSegs (c : Cookie) : List Bytes :=
  segMaxAge c ++ (segDomain c ++ (segPath c ++ (segHttpOnly c ++ (segSecure c ++ (segSameSite c ++ segPartitioned c)))))

def semi (l : List Bytes) : Bytes := l.flatMap (fun s => 59 :: s)

theorem semi_maxAge (c : Cookie) : semi (segMaxAge c) =
    (if c.maxAge > 0 then [59, 32] ++ strCookieMaxAge ++ [61] ++ appendUintDec c.maxAge else []) := by
  unfold semi segMaxAge; split <;> simp
theorem semi_domain (c : Cookie) : semi (segDomain c) =
    (if c.domain.isEmpty then [] else [59, 32] ++ strCookieDomain ++ [61] ++ c.domain) := by
  unfold semi segDomain; split <;> simp
theorem semi_path (c : Cookie) : semi (segPath c) =
    (if c.path.isEmpty then [] else [59, 32] ++ strCookiePath ++ [61] ++ c.path) := by
  unfold semi segPath; split <;> simp
theorem semi_httpOnly (c : Cookie) : semi (segHttpOnly c) =
    (if c.httpOnly then [59, 32] ++ strCookieHTTPOnly else []) := by
  unfold semi segHttpOnly; split <;> simp
theorem semi_secure (c : Cookie) : semi (segSecure c) =
    (if c.secure then [59, 32] ++ strCookieSecure else []) := by
  unfold semi segSecure; split <;> simp
theorem semi_sameSite (c : Cookie) : semi (segSameSite c) =
    (match c.sameSite with
     | .disabled => []
     | .default => [59, 32] ++ strCookieSameSite
     | .lax => [59, 32] ++ strCookieSameSite ++ [61] ++ strCookieSameSiteLax
     | .strict => [59, 32] ++ strCookieSameSite ++ [61] ++ strCookieSameSiteStrict
     | .none => [59, 32] ++ strCookieSameSite ++ [61] ++ strCookieSameSiteNone) := by
  unfold semi segSameSite; split <;> simp
theorem semi_partitioned (c : Cookie) : semi (segPartitioned c) =
    (if c.partitioned then [59, 32] ++ strCookiePartitioned else []) := by
  unfold semi segPartitioned; split <;> simp

theorem semi_append (a b : List Bytes) : semi (a ++ b) = semi a ++ semi b := by
  simp [semi]

theorem appendCookie_eq (c : Cookie) : appendCookie c = firstSeg c ++ semi (attrSegs c) := by
  unfold appendCookie attrSegs firstSeg
  simp only [semi_append]
  rw [semi_maxAge, semi_domain, semi_path, semi_httpOnly, semi_secure, semi_sameSite, semi_partitioned]
  simp only [List.append_assoc]
  rfl

/-! ### `applyAttr` on the attribute names `appendCookie` writes -/

/-- take the `then` branch of the outermost `if` (its closed condition is decided) -/
macro "if_t" : tactic => `(tactic| (split; rotate_left; (rename_i h; exact absurd (by decide +kernel) h)))
/-- take the `else` branch of the outermost `if` -/
macro "if_f" : tactic => `(tactic| (split; (rename_i h; exact absurd h (by decide +kernel))))

theorem applyAttr_maxAge (a : Cookie) (v : Bytes) :
    applyAttr a (strCookieMaxAge, v) = (parseUintDec v).map (fun n => { a with maxAge := n }) := by
  show applyAttr a ([109, 97, 120, 45, 97, 103, 101], v) = _
  simp only [applyAttr]
  if_t
  rfl

theorem applyAttr_domain (a : Cookie) (v : Bytes) :
    applyAttr a (strCookieDomain, v) = some { a with domain := v } := by
  show applyAttr a ([100, 111, 109, 97, 105, 110], v) = _
  simp only [applyAttr]
  if_f; if_t
  rfl

theorem applyAttr_path (a : Cookie) (v : Bytes) :
    applyAttr a (strCookiePath, v) = some { a with path := v } := by
  show applyAttr a ([112, 97, 116, 104], v) = _
  simp only [applyAttr]
  if_f; if_f; if_t
  rfl

theorem applyAttr_httpOnly (a : Cookie) :
    applyAttr a ([], strCookieHTTPOnly) = some { a with httpOnly := true } := by
  show applyAttr a ([], [72, 116, 116, 112, 79, 110, 108, 121]) = _
  simp only [applyAttr]
  if_t
  rfl

theorem applyAttr_secure (a : Cookie) :
    applyAttr a ([], strCookieSecure) = some { a with secure := true } := by
  show applyAttr a ([], [115, 101, 99, 117, 114, 101]) = _
  simp only [applyAttr]
  if_f; if_t
  rfl

theorem applyAttr_sameSiteDefault (a : Cookie) :
    applyAttr a ([], strCookieSameSite) = some { a with sameSite := .default } := by
  show applyAttr a ([], [83, 97, 109, 101, 83, 105, 116, 101]) = _
  simp only [applyAttr]
  if_f; if_f; if_t
  rfl

theorem applyAttr_partitioned (a : Cookie) :
    applyAttr a ([], strCookiePartitioned) = some { a with partitioned := true } := by
  show applyAttr a ([], [80, 97, 114, 116, 105, 116, 105, 111, 110, 101, 100]) = _
  simp only [applyAttr]
  if_f; if_f; if_f; if_t
  rfl

theorem applyAttr_lax (a : Cookie) :
    applyAttr a (strCookieSameSite, strCookieSameSiteLax) = some { a with sameSite := .lax } := by
  show applyAttr a ([83, 97, 109, 101, 83, 105, 116, 101], [76, 97, 120]) = _
  simp only [applyAttr]
  if_f; if_f; if_f; if_t; if_t
  rfl

theorem applyAttr_strict (a : Cookie) :
    applyAttr a (strCookieSameSite, strCookieSameSiteStrict) = some { a with sameSite := .strict } := by
  show applyAttr a ([83, 97, 109, 101, 83, 105, 116, 101], [83, 116, 114, 105, 99, 116]) = _
  simp only [applyAttr]
  if_f; if_f; if_f; if_t; if_f; if_t
  rfl

theorem applyAttr_none (a : Cookie) :
    applyAttr a (strCookieSameSite, strCookieSameSiteNone) = some { a with sameSite := .none } := by
  show applyAttr a ([83, 97, 109, 101, 83, 105, 116, 101], [78, 111, 110, 101]) = _
  simp only [applyAttr]
  if_f; if_f; if_f; if_t; if_f; if_f; if_t
  rfl

/-! ### `cookieKV` on the segments `appendCookie` writes -/

theorem cookieKV_named (name v : Bytes) (h1 : ∀ x ∈ name, x ≠ 61 ∧ x ≠ 32) (hv : decodeCookieArg v true = v) :
    cookieKV (32 :: name ++ 61 :: v) = (name, v) := by
  have : (32 :: name ++ 61 :: v) = (32 :: name) ++ 61 :: v := rfl
  rw [this, cookieKV_eq _ _ (by
    intro x hx
    rcases List.mem_cons.mp hx with hx | hx
    · subst hx; decide
    · exact (h1 x hx).1), hv]
  have : decodeCookieArg (32 :: name) false = name := by
    simp only [decodeCookieArg, Bool.false_and, Bool.false_eq_true, if_false]
    unfold trimSp
    have h32 : ((32 : UInt8) :: name).dropWhile (· == 32) = name := by
      rw [List.dropWhile_cons]
      simp only [beq_self_eq_true, if_true]
      exact dropWhile_sp_id name (fun x hx => (h1 x hx).2)
    rw [h32, dropWhile_sp_id name.reverse (fun x hx => (h1 x (by simpa using hx)).2), List.reverse_reverse]
  rw [this]

theorem cookieKV_httpOnly : cookieKV (32 :: strCookieHTTPOnly) = ([], strCookieHTTPOnly) := by decide
theorem cookieKV_secure : cookieKV (32 :: strCookieSecure) = ([], strCookieSecure) := by decide
theorem cookieKV_sameSite : cookieKV (32 :: strCookieSameSite) = ([], strCookieSameSite) := by decide
theorem cookieKV_partitioned : cookieKV (32 :: strCookiePartitioned) = ([], strCookiePartitioned) := by decide
theorem cookieKV_lax : cookieKV (32 :: strCookieSameSite ++ 61 :: strCookieSameSiteLax) =
    (strCookieSameSite, strCookieSameSiteLax) := by decide
theorem cookieKV_strict : cookieKV (32 :: strCookieSameSite ++ 61 :: strCookieSameSiteStrict) =
    (strCookieSameSite, strCookieSameSiteStrict) := by decide
theorem cookieKV_none' : cookieKV (32 :: strCookieSameSite ++ 61 :: strCookieSameSiteNone) =
    (strCookieSameSite, strCookieSameSiteNone) := by decide

/-! ### one fold step per attribute -/

/-- the fold function of `parseCookie` -/
def attrStep (c : Cookie) (seg : Bytes) : Option Cookie := applyAttr c (cookieKV seg)

theorem plainArg_spec (b : Bytes) (h : plainArg b = true) : (∀ x ∈ b, x ≠ 59) ∧ decodeCookieArg b true = b := by
  simp only [plainArg, Bool.and_eq_true, Bool.not_eq_true', beq_iff_eq] at h
  exact ⟨not_contains b 59 h.1, h.2.symm⟩

theorem isEmpty_eq_nil (b : Bytes) (h : b.isEmpty = true) : b = [] := by
  cases b with
  | nil => rfl
  | cons _ _ => simp at h

theorem step_maxAge (c a : Cookie) (h : c.maxAge < 2 ^ 63) (ha : a.maxAge = 0) :
    (segMaxAge c).foldlM attrStep a = some { a with maxAge := c.maxAge } := by
  unfold segMaxAge
  split
  · simp only [List.foldlM_cons, List.foldlM_nil, attrStep]
    rw [cookieKV_named _ _ (by decide) (decodeCookieArg_uint _), applyAttr_maxAge,
      parseUintDec_appendUintDec _ h]
    rfl
  · rename_i h0
    have : c.maxAge = 0 := by omega
    rw [this, ← ha]
    rfl

theorem step_domain (c a : Cookie) (h : plainArg c.domain = true) (ha : a.domain = []) :
    (segDomain c).foldlM attrStep a = some { a with domain := c.domain } := by
  unfold segDomain
  split
  · rename_i h0
    rw [isEmpty_eq_nil _ h0, ← ha]
    rfl
  · simp only [List.foldlM_cons, List.foldlM_nil, attrStep]
    rw [cookieKV_named _ _ (by decide) (plainArg_spec _ h).2, applyAttr_domain]
    rfl

theorem step_path (c a : Cookie) (h : plainArg c.path = true) (ha : a.path = []) :
    (segPath c).foldlM attrStep a = some { a with path := c.path } := by
  unfold segPath
  split
  · rename_i h0
    rw [isEmpty_eq_nil _ h0, ← ha]
    rfl
  · simp only [List.foldlM_cons, List.foldlM_nil, attrStep]
    rw [cookieKV_named _ _ (by decide) (plainArg_spec _ h).2, applyAttr_path]
    rfl

theorem step_httpOnly (c a : Cookie) (ha : a.httpOnly = false) :
    (segHttpOnly c).foldlM attrStep a = some { a with httpOnly := c.httpOnly } := by
  unfold segHttpOnly
  split
  · rename_i h0
    simp only [List.foldlM_cons, List.foldlM_nil, attrStep]
    rw [cookieKV_httpOnly, applyAttr_httpOnly, h0]
    rfl
  · rename_i h0
    have : c.httpOnly = false := by simpa using h0
    rw [this, ← ha]
    rfl

theorem step_secure (c a : Cookie) (ha : a.secure = false) :
    (segSecure c).foldlM attrStep a = some { a with secure := c.secure } := by
  unfold segSecure
  split
  · rename_i h0
    simp only [List.foldlM_cons, List.foldlM_nil, attrStep]
    rw [cookieKV_secure, applyAttr_secure, h0]
    rfl
  · rename_i h0
    have : c.secure = false := by simpa using h0
    rw [this, ← ha]
    rfl

theorem step_sameSite (c a : Cookie) (ha : a.sameSite = .disabled) :
    (segSameSite c).foldlM attrStep a = some { a with sameSite := c.sameSite } := by
  unfold segSameSite
  split
  · rename_i h0
    rw [h0, ← ha]
    rfl
  · rename_i h0
    simp only [List.foldlM_cons, List.foldlM_nil, attrStep]
    rw [cookieKV_sameSite, applyAttr_sameSiteDefault, h0]
    rfl
  · rename_i h0
    simp only [List.foldlM_cons, List.foldlM_nil, attrStep]
    rw [cookieKV_lax, applyAttr_lax, h0]
    rfl
  · rename_i h0
    simp only [List.foldlM_cons, List.foldlM_nil, attrStep]
    rw [cookieKV_strict, applyAttr_strict, h0]
    rfl
  · rename_i h0
    simp only [List.foldlM_cons, List.foldlM_nil, attrStep]
    rw [cookieKV_none', applyAttr_none, h0]
    rfl

theorem step_partitioned (c a : Cookie) (ha : a.partitioned = false) :
    (segPartitioned c).foldlM attrStep a = some { a with partitioned := c.partitioned } := by
  unfold segPartitioned
  split
  · rename_i h0
    simp only [List.foldlM_cons, List.foldlM_nil, attrStep]
    rw [cookieKV_partitioned, applyAttr_partitioned, h0]
    rfl
  · rename_i h0
    have : c.partitioned = false := by simpa using h0
    rw [this, ← ha]
    rfl

/-! ### the segments are free of `;` and the attribute segments are non-empty -/

def GoodSeg (s : Bytes) : Prop := s ≠ [] ∧ ∀ x ∈ s, x ≠ 59

theorem goodSeg_named (name v : Bytes) (h1 : ∀ x ∈ name, x ≠ 59) (h2 : ∀ x ∈ v, x ≠ 59) :
    GoodSeg (32 :: name ++ 61 :: v) := by
  refine ⟨by simp, ?_⟩
  intro x hx
  simp only [List.cons_append, List.mem_cons, List.mem_append] at hx
  rcases hx with hx | hx | hx | hx
  · subst hx; decide
  · exact h1 x hx
  · subst hx; decide
  · exact h2 x hx

theorem good_maxAge (c : Cookie) : ∀ s ∈ segMaxAge c, GoodSeg s := by
  unfold segMaxAge
  split
  · intro s hs
    rw [List.mem_singleton] at hs
    subst hs
    exact goodSeg_named _ _ (by decide) (uint_no _ 59 (by decide))
  · intro s hs; cases hs

theorem good_domain (c : Cookie) (h : plainArg c.domain = true) : ∀ s ∈ segDomain c, GoodSeg s := by
  unfold segDomain
  split
  · intro s hs; cases hs
  · intro s hs
    rw [List.mem_singleton] at hs
    subst hs
    exact goodSeg_named _ _ (by decide) (plainArg_spec _ h).1

theorem good_path (c : Cookie) (h : plainArg c.path = true) : ∀ s ∈ segPath c, GoodSeg s := by
  unfold segPath
  split
  · intro s hs; cases hs
  · intro s hs
    rw [List.mem_singleton] at hs
    subst hs
    exact goodSeg_named _ _ (by decide) (plainArg_spec _ h).1

theorem good_httpOnly (c : Cookie) : ∀ s ∈ segHttpOnly c, GoodSeg s := by
  unfold segHttpOnly
  split
  · intro s hs; rw [List.mem_singleton] at hs; subst hs; exact ⟨by simp, by decide⟩
  · intro s hs; cases hs

theorem good_secure (c : Cookie) : ∀ s ∈ segSecure c, GoodSeg s := by
  unfold segSecure
  split
  · intro s hs; rw [List.mem_singleton] at hs; subst hs; exact ⟨by simp, by decide⟩
  · intro s hs; cases hs

theorem good_sameSite (c : Cookie) : ∀ s ∈ segSameSite c, GoodSeg s := by
  unfold segSameSite
  split
  · intro s hs; cases hs
  all_goals (intro s hs; rw [List.mem_singleton] at hs; subst hs; exact ⟨by simp, by decide⟩)

theorem good_partitioned (c : Cookie) : ∀ s ∈ segPartitioned c, GoodSeg s := by
  unfold segPartitioned
  split
  · intro s hs; rw [List.mem_singleton] at hs; subst hs; exact ⟨by simp, by decide⟩
  · intro s hs; cases hs

theorem good_attrSegs (c : Cookie) (hd : plainArg c.domain = true) (hp : plainArg c.path = true) :
    ∀ s ∈ attrSegs c, GoodSeg s := by
  intro s hs
  simp only [attrSegs, List.mem_append] at hs
  rcases hs with hs | hs | hs | hs | hs | hs | hs
  · exact good_maxAge c s hs
  · exact good_domain c hd s hs
  · exact good_path c hp s hs
  · exact good_httpOnly c s hs
  · exact good_secure c s hs
  · exact good_sameSite c s hs
  · exact good_partitioned c s hs

/-! ### the first segment -/

theorem firstSeg_no_semi (c : Cookie) (hk : ∀ x ∈ c.key, x ≠ 59) (hv : ∀ x ∈ c.value, x ≠ 59) :
    ∀ x ∈ firstSeg c, x ≠ 59 := by
  intro x hx
  unfold firstSeg at hx
  rw [List.mem_append] at hx
  rcases hx with hx | hx
  · split at hx
    · cases hx
    · rw [List.mem_append] at hx
      rcases hx with hx | hx
      · exact hk x hx
      · rw [List.mem_singleton] at hx; subst hx; decide
  · exact hv x hx

theorem cookieKV_firstSeg (c : Cookie) (hk : ∀ x ∈ c.key, x ≠ 61) (hkd : decodeCookieArg c.key false = c.key)
    (hvd : decodeCookieArg c.value true = c.value) (hv : c.key.isEmpty = true → ∀ x ∈ c.value, x ≠ 61) :
    cookieKV (firstSeg c) = (c.key, c.value) := by
  unfold firstSeg
  split
  · rename_i h0
    rw [List.nil_append, cookieKV_none _ (hv h0), hvd, isEmpty_eq_nil _ h0]
  · rw [List.append_assoc, List.singleton_append, cookieKV_eq _ _ hk, hkd, hvd]

/-! ### the round trip -/

theorem attrs_fold (c : Cookie) (hd : plainArg c.domain = true) (hp : plainArg c.path = true)
    (hm : c.maxAge < 2 ^ 63) :
    (attrSegs c).foldlM attrStep { key := c.key, value := c.value } = some c := by
  unfold attrSegs
  rw [List.foldlM_append, step_maxAge c _ hm rfl, Option.bind_eq_bind, Option.bind_some,
    List.foldlM_append, step_domain c _ hd rfl, Option.bind_eq_bind, Option.bind_some,
    List.foldlM_append, step_path c _ hp rfl, Option.bind_eq_bind, Option.bind_some,
    List.foldlM_append, step_httpOnly c _ rfl, Option.bind_eq_bind, Option.bind_some,
    List.foldlM_append, step_secure c _ rfl, Option.bind_eq_bind, Option.bind_some,
    List.foldlM_append, step_sameSite c _ rfl, Option.bind_eq_bind, Option.bind_some,
    step_partitioned c _ rfl]

theorem wfCookie_spec (c : Cookie) (h : wfCookie c = true) :
    (∀ x ∈ c.key, x ≠ 61) ∧ (∀ x ∈ c.key, x ≠ 59) ∧ decodeCookieArg c.key false = c.key ∧
    plainArg c.value = true ∧ plainArg c.domain = true ∧ plainArg c.path = true ∧
    (c.key.isEmpty = true → ∀ x ∈ c.value, x ≠ 61) ∧ c.maxAge < 2 ^ 63 := by
  simp only [wfCookie, Bool.and_eq_true, Bool.not_eq_true', beq_iff_eq, decide_eq_true_eq,
    Bool.and_eq_false_iff] at h
  obtain ⟨⟨⟨⟨⟨⟨⟨h1, h2⟩, h3⟩, h4⟩, h5⟩, h6⟩, h7⟩, h8⟩ := h
  refine ⟨not_contains _ _ h1, not_contains _ _ h2, h3.symm, h4, h5, h6, ?_, h8⟩
  intro he
  rcases h7 with h7 | h7
  · rw [he] at h7; cases h7
  · exact not_contains _ _ h7

theorem parseCookie_appendCookie (c : Cookie) (h : wfCookie c = true) (hne : appendCookie c ≠ []) :
    parseCookie (appendCookie c) = some c := by
  obtain ⟨hk61, hk59, hkd, hv, hd, hp, hv61, hm⟩ := wfCookie_spec c h
  have hseg : cookieSegs (appendCookie c) = firstSeg c :: attrSegs c := by
    rw [appendCookie_eq]
    apply cookieSegs_join _ _ (firstSeg_no_semi c hk59 (plainArg_spec _ hv).1) (good_attrSegs c hd hp)
    intro he hf
    rw [appendCookie_eq, he, hf] at hne
    exact hne rfl
  unfold parseCookie
  rw [hseg]
  simp only [cookieKV_firstSeg c hk61 hkd (plainArg_spec _ hv).2 hv61]
  exact attrs_fold c hd hp hm

/-! ### "something is written", readable form -/

/-- the cookie has a key, a value or at least one attribute set -/
def cookieNonEmpty (c : Cookie) : Bool :=
  !c.key.isEmpty || !c.value.isEmpty || decide (c.maxAge > 0) || !c.domain.isEmpty || !c.path.isEmpty ||
  c.httpOnly || c.secure || c.sameSite != .disabled || c.partitioned

theorem semi_eq_nil (l : List Bytes) : semi l = [] ↔ l = [] := by
  cases l <;> simp [semi]

theorem firstSeg_eq_nil (c : Cookie) : firstSeg c = [] ↔ c.key.isEmpty = true ∧ c.value.isEmpty = true := by
  unfold firstSeg
  split <;> simp_all

theorem segMaxAge_eq_nil (c : Cookie) : segMaxAge c = [] ↔ decide (c.maxAge > 0) = false := by
  unfold segMaxAge; split <;> simp_all
theorem segDomain_eq_nil (c : Cookie) : segDomain c = [] ↔ c.domain.isEmpty = true := by
  unfold segDomain; split <;> simp_all
theorem segPath_eq_nil (c : Cookie) : segPath c = [] ↔ c.path.isEmpty = true := by
  unfold segPath; split <;> simp_all
theorem segHttpOnly_eq_nil (c : Cookie) : segHttpOnly c = [] ↔ c.httpOnly = false := by
  unfold segHttpOnly; split <;> simp_all
theorem segSecure_eq_nil (c : Cookie) : segSecure c = [] ↔ c.secure = false := by
  unfold segSecure; split <;> simp_all
theorem segSameSite_eq_nil (c : Cookie) : segSameSite c = [] ↔ (c.sameSite != .disabled) = false := by
  unfold segSameSite; split <;> simp_all
theorem segPartitioned_eq_nil (c : Cookie) : segPartitioned c = [] ↔ c.partitioned = false := by
  unfold segPartitioned; split <;> simp_all

theorem appendCookie_eq_nil_iff (c : Cookie) : appendCookie c = [] ↔ cookieNonEmpty c = false := by
  rw [appendCookie_eq]
  simp only [List.append_eq_nil_iff, semi_eq_nil, attrSegs, firstSeg_eq_nil, segMaxAge_eq_nil, segDomain_eq_nil,
    segPath_eq_nil, segHttpOnly_eq_nil, segSecure_eq_nil, segSameSite_eq_nil, segPartitioned_eq_nil,
    cookieNonEmpty, Bool.or_eq_false_iff, Bool.not_eq_false', and_assoc]

theorem parseCookie_appendCookie' (c : Cookie) (h : wfCookie c = true) (hne : cookieNonEmpty c = true) :
    parseCookie (appendCookie c) = some c :=
  parseCookie_appendCookie c h (fun he => by rw [(appendCookie_eq_nil_iff c).mp he] at hne; cases hne)

/-- the round trip for cookies without max-age (special case of the theorem above) -/
theorem parseCookie_appendCookie_noMaxAge (c : Cookie) (h : wfCookie c = true) (_h0 : c.maxAge = 0)
    (hne : appendCookie c ≠ []) : parseCookie (appendCookie c) = some c :=
  parseCookie_appendCookie c h hne

/-- Finding: the entirely empty cookie is valid, serialises to `""`, and `ParseBytes` rejects that. -/
theorem parseCookie_appendCookie_empty : wfCookie {} = true ∧ parseCookie (appendCookie {}) = none := by
  decide

/-! ### non-vacuity -/

/-- `id=a=b; max-age=3600; domain=x.io; path=/; HttpOnly; secure; SameSite=None; Partitioned` -/
def exCookie : Cookie :=
  { key := [105, 100], value := [97, 61, 98], maxAge := 3600, domain := [120, 46, 105, 111], path := [47],
    httpOnly := true, secure := true, sameSite := .none, partitioned := true }

theorem exCookie_wf : wfCookie exCookie = true ∧ cookieNonEmpty exCookie = true := by decide

theorem exCookie_roundtrip : parseCookie (appendCookie exCookie) = some exCookie :=
  parseCookie_appendCookie' exCookie exCookie_wf.1 exCookie_wf.2

/-- the same cookie without max-age, evaluated by the kernel (both the bytes written and the round trip) -/
theorem exCookie_noMaxAge_bytes :
    appendCookie { exCookie with maxAge := 0 } =
      [105, 100, 61, 97, 61, 98, 59, 32, 100, 111, 109, 97, 105, 110, 61, 120, 46, 105, 111, 59, 32, 112, 97, 116,
       104, 61, 47, 59, 32, 72, 116, 116, 112, 79, 110, 108, 121, 59, 32, 115, 101, 99, 117, 114, 101, 59, 32,
       83, 97, 109, 101, 83, 105, 116, 101, 61, 78, 111, 110, 101, 59, 32, 80, 97, 114, 116, 105, 116, 105, 111,
       110, 101, 100] ∧
    parseCookie (appendCookie { exCookie with maxAge := 0 }) = some { exCookie with maxAge := 0 } := by
  decide +kernel

/-- what `max-age=3600` looks like on the wire -/
theorem appendUintDec_3600 : appendUintDec 3600 = [51, 54, 48, 48] := by
  rw [appendUintDec_ge 3600 (by decide), appendUintDec_ge (3600 / 10) (by decide),
    appendUintDec_ge (3600 / 10 / 10) (by decide), appendUintDec_lt (3600 / 10 / 10 / 10) (by decide)]
  decide


/-- the bytes `AppendBytes` writes for `exCookie` (with `max-age=3600`) -/
theorem exCookie_bytes :
    appendCookie exCookie =
      [105, 100, 61, 97, 61, 98, 59, 32, 109, 97, 120, 45, 97, 103, 101, 61, 51, 54, 48, 48,
       59, 32, 100, 111, 109, 97, 105, 110, 61, 120, 46, 105, 111, 59, 32, 112, 97, 116,
       104, 61, 47, 59, 32, 72, 116, 116, 112, 79, 110, 108, 121, 59, 32, 115, 101, 99, 117, 114, 101, 59, 32,
       83, 97, 109, 101, 83, 105, 116, 101, 61, 78, 111, 110, 101, 59, 32, 80, 97, 114, 116, 105, 116, 105, 111,
       110, 101, 100] := by
  have h : appendCookie exCookie =
      [105, 100, 61, 97, 61, 98, 59, 32, 109, 97, 120, 45, 97, 103, 101, 61] ++ (appendUintDec 3600 ++
      [59, 32, 100, 111, 109, 97, 105, 110, 61, 120, 46, 105, 111, 59, 32, 112, 97, 116,
       104, 61, 47, 59, 32, 72, 116, 116, 112, 79, 110, 108, 121, 59, 32, 115, 101, 99, 117, 114, 101, 59, 32,
       83, 97, 109, 101, 83, 105, 116, 101, 61, 78, 111, 110, 101, 59, 32, 80, 97, 114, 116, 105, 116, 105, 111,
       110, 101, 100]) := by
    simp [appendCookie, exCookie, strCookieMaxAge, strCookieDomain, strCookiePath, strCookieHTTPOnly,
      strCookieSecure, strCookieSameSite, strCookieSameSiteNone, strCookiePartitioned]
  rw [h, appendUintDec_3600]
  rfl


end Hertz.Uri
