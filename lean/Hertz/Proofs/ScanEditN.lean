import Hertz.Proofs.ScanEdit
set_option linter.unusedSimpArgs false
/-!
# The scanner as it stands after c627e0d (`scanNextN`, `scanBlockN`): rescan after edit = whole, unconditionally
-/
namespace Hertz.H1.ScanEdit
open Hertz Hertz.H1

theorem scanNextN_closed (dn : Bool) (B : Bytes) (h : openFold dn B = false) : scanNextN dn B = scanNextE dn B := by
  simp [scanNextN, h]

theorem openFold_kv (dn : Bool) (B : Bytes) (h : openFold dn B = true) :
    ∃ k v rest m, scanNext dn B = .kv k v rest m := by
  unfold openFold at h
  cases hs : scanNext dn B with
  | kv k v rest m => exact ⟨k, v, rest, m, rfl⟩
  | fin n => simp [hs] at h
  | needMore => simp [hs] at h
  | invalidName => simp [hs] at h

/-- at the new early return only the key has been rewritten -/
theorem keyEdit_parts (dn : Bool) (B k v rest : Bytes) (m : Nat) (hk : scanNext dn B = .kv k v rest m) :
    ∃ K0 Y, B = K0 ++ 58 :: Y ∧ (∀ y ∈ K0, y ≠ 58) ∧ (∀ y ∈ K0, y ≠ 10) ∧
      keyEdit dn B = normalizeKey dn K0 ++ 58 :: Y := by
  obtain ⟨n, xi, hn, hx, hlt⟩ := kv_positions dn B k v rest m hk
  have hs := indexByte_split 58 B n hn
  have hl := indexByte_lt 58 B n hn
  have hd : B.drop n = 58 :: B.drop (n + 1) := by
    have h2 := congrArg (List.drop n) hs
    rw [List.drop_left' (by simp; omega)] at h2
    exact h2
  refine ⟨B.take n, B.drop (n + 1), hs, indexByte_take_ne 58 B n hn,
    fun y hy => indexByte_take_ne 10 B xi hx y (mem_take_of_le B n xi (Nat.le_of_lt hlt) y hy), ?_⟩
  simp only [keyEdit, hn, hd]

theorem scanBlockNE_open (dn : Bool) (f : Nat) (B : Bytes) (h : openFold dn B = true) :
    (scanBlockNE dn (f + 1) B).buf = keyEdit dn B ∧ (scanBlockNE dn (f + 1) B).stop = .needMore ∧
      (scanBlockNE dn (f + 1) B).fields = [] := by
  simp [scanBlockNE, scanNextN, h]

theorem scanBlockNE_kv (dn : Bool) (fuel : Nat) (B k v rest B' : Bytes) (m : Nat) (ho : openFold dn B = false)
    (h : scanNextE dn B = (.kv k v rest m, B')) :
    (scanBlockNE dn (fuel + 1) B).buf = B'.take m ++ (scanBlockNE dn fuel rest).buf ∧
    (scanBlockNE dn (fuel + 1) B).fields = (k, v) :: (scanBlockNE dn fuel rest).fields ∧
    (scanBlockNE dn (fuel + 1) B).stop =
      (match (scanBlockNE dn fuel rest).stop with | .fin h => .fin (m + h) | s => s) := by
  rw [scanBlockNE]
  simp only [scanNextN, ho, Bool.false_eq_true, if_false, h]
  exact ⟨trivial, trivial, rfl⟩

theorem scanBlockNE_stop (dn : Bool) (fuel : Nat) (B : Bytes) (h : scanNextE dn B = (scanNext dn B, B))
    (hk : ∀ k v r m, scanNext dn B ≠ .kv k v r m) :
    (scanBlockNE dn (fuel + 1) B).buf = B := by
  have ho : openFold dn B = false := by
    cases ho : openFold dn B with
    | false => rfl
    | true => obtain ⟨k, v, r, m, hk'⟩ := openFold_kv dn B ho; exact absurd hk' (hk k v r m)
  simp only [scanBlockNE, scanNextN, ho, h]
  cases hs : scanNext dn B with
  | kv k v r m => exact absurd hs (hk k v r m)
  | fin n => simp
  | needMore => simp
  | invalidName => simp

/-- the look-ahead is decided by the bytes it commits to: behind them anything may follow -/
theorem contAux_take : ∀ (S : Bytes),
    (∀ Z, contExtra (S.take (contExtra S) ++ Z) = contExtra S + contExtra Z) ∧
    (∀ cur, contAux 0 cur true S = 0 ∨
      ∃ e, 0 < e ∧ contAux 0 cur true S = cur + e ∧ ∀ Z, contAux 0 cur true (S.take e ++ Z) = cur + e + contExtra Z)
  | [] => by simp [contExtra, contAux]
  | c :: t => by
    obtain ⟨ihA, ihB⟩ := contAux_take t
    have hB : ∀ cur, contAux 0 cur true (c :: t) = 0 ∨
        ∃ e, 0 < e ∧ contAux 0 cur true (c :: t) = cur + e ∧
          ∀ Z, contAux 0 cur true ((c :: t).take e ++ Z) = cur + e + contExtra Z := by
      intro cur
      by_cases h58 : c = 58
      · left; simp [contAux, h58]
      · by_cases h10 : c = 10
        · right
          subst h10
          have h58' : ¬ ((10 : UInt8) = 58) := by decide
          refine ⟨1 + contExtra t, by omega, ?_, fun Z => ?_⟩
          · simp only [contAux, Bool.not_true, Bool.false_eq_true, if_false, h58', if_true]
            rw [contAux_add t (0 + cur + 1) 0 false]; simp [contExtra]; omega
          · rw [Nat.add_comm 1, List.take_succ_cons, List.cons_append]
            simp only [contAux, Bool.not_true, Bool.false_eq_true, if_false, h58', if_true]
            rw [contAux_add _ (0 + cur + 1) 0 false]
            have := ihA Z
            simp only [contExtra] at this ⊢
            rw [this]; omega
        · rcases ihB (cur + 1) with h | ⟨e, hpos, he, hZ⟩
          · left; simp [contAux, h58, h10, h]
          · right
            refine ⟨e + 1, by omega, ?_, fun Z => ?_⟩
            · simp only [contAux, Bool.not_true, Bool.false_eq_true, if_false, h58, h10]; rw [he]; omega
            · rw [List.take_succ_cons, List.cons_append]
              simp only [contAux, Bool.not_true, Bool.false_eq_true, if_false, h58, h10]
              rw [hZ Z]; omega
    refine ⟨fun Z => ?_, hB⟩
    by_cases hc : c = 32 ∨ c = 9
    · have h0 : contExtra (c :: t) = contAux 0 1 true t := by simp [contExtra, contAux, hc]
      rcases ihB 1 with h | ⟨e, hpos, he, hZ⟩
      · rw [h0, h]; simp
      · rw [h0, he, Nat.add_comm 1 e, List.take_succ_cons, List.cons_append]
        have : contExtra (c :: (t.take e ++ Z)) = contAux 0 1 true (t.take e ++ Z) := by simp [contExtra, contAux, hc]
        rw [this, hZ Z]; omega
    · have h0 : contExtra (c :: t) = 0 := by simp [contExtra, contAux, hc]
      rw [h0]; simp

theorem contExtra_nonblank (c : UInt8) (t : Bytes) (h : isOWS c = false) : contExtra (c :: t) = 0 := by
  have : ¬ (c = 32 ∨ c = 9) := by
    intro hc; rcases hc with rfl | rfl <;> simp [isOWS] at h
  simp [contExtra, contAux, this]


/-- a field whose unconsumed rest starts with a byte that is not a blank is final: appended bytes change nothing -/
theorem nonblank_rest_stable (dn : Bool) (B k v t : Bytes) (c : UInt8) (m : Nat)
    (hk : scanNext dn B = .kv k v (c :: t) m) (hc : isOWS c = false) (x : Bytes) :
    scanNext dn (B ++ x) = .kv k v (c :: t ++ x) m := by
  obtain ⟨n, xi, hn, hx, hlt⟩ := kv_positions dn B k v (c :: t) m hk
  have hv : ∀ X, indexByte 58 X = some n → indexByte 10 X = some xi → scanNext dn X = scanValue dn X n := by
    intro X h1 h2
    rw [← scanNextE_fst, scanNextE_of_pos dn X n xi h1 h2 hlt, scanValueE_fst]
  obtain ⟨sp, B1, n1, p, px, _, hlen, _⟩ := valuePos_exists B x n xi hn hx hlt
  have hn1 := indexByte_lt 10 B1 n1 p.n1_eq
  obtain ⟨_, hle, _⟩ := contExtra_spec (B1.drop (n1 + 1))
  simp only [List.length_drop] at hle
  rw [hv B hn hx, scanValue_eq dn B n sp B1 n1 p] at hk
  rw [hv _ (indexByte_append 58 B x n hn) (indexByte_append 10 B x xi hx),
    scanValue_eq dn (B ++ x) n sp (B1 ++ x) n1 px, List.drop_append_of_le_length (by omega)]
  generalize hS : B1.drop (n1 + 1) = S at hk hle ⊢
  have hrest : S.drop (contExtra S) = c :: t := by
    simp only [scanKV, Scan.kv.injEq] at hk
    rw [← hk.2.2.1, ← hS, List.drop_drop]; congr 1; omega
  have hstab : contExtra (S ++ x) = contExtra S := by
    have h1 : S ++ x = S.take (contExtra S) ++ (c :: t ++ x) := by
      rw [← hrest, ← List.append_assoc, List.take_append_drop]
    rw [h1, (contAux_take S).1, List.cons_append, contExtra_nonblank c _ hc]; rfl
  rw [hstab, scanKV_append dn B x n sp B1 n1 _ (by omega) (by omega), hk]
  rfl


theorem openFold_cases (dn : Bool) (B : Bytes) : openFold dn B = true ∨ openFold dn B = false := by
  cases openFold dn B <;> simp

theorem contExtra_blockbufN_app (dn : Bool) (fuel : Nat) (rest more : Bytes) (h : contExtra (rest ++ more) = 0) :
    contExtra ((scanBlockNE dn fuel rest).buf ++ more) = 0 := by
  cases fuel with
  | zero => simpa [scanBlockNE] using h
  | succ f =>
    rcases openFold_cases dn rest with ho | ho
    · obtain ⟨k, v, r, m, hk⟩ := openFold_kv dn rest ho
      obtain ⟨K0, Y, _, _, h10, hke⟩ := keyEdit_parts dn rest k v r m hk
      rw [(scanBlockNE_open dn f rest ho).1, hke, List.append_assoc, List.cons_append]
      exact contExtra_key _ _ (normalizeKey_notin dn 10 (Or.inl rfl) K0 h10)
    · rcases scanNextE_step2 dn rest with ⟨hs, hk⟩ | ⟨k, v, r, m, pre, hs, hpre, _, ⟨K, X, hKX, hK⟩, _⟩
      · rw [scanBlockNE_stop dn f rest hs hk]; exact h
      · rw [(scanBlockNE_kv dn f rest k v r _ m ho hs).1]
        have ht : (pre ++ r).take m = pre := by rw [← hpre]; exact List.take_left
        rw [ht, hKX, List.append_assoc, List.append_assoc, List.cons_append]
        exact contExtra_key K _ hK

/-- **Rescan after edit = whole, for the scanner as it stands, without hypothesis.** -/
theorem rescanN (dn : Bool) : ∀ (f : Nat) (B more : Bytes) (f' : Nat), B.length + 1 ≤ f →
    (B ++ more).length + 1 ≤ f' →
    readBlock dn f' ((scanBlockNE dn f B).buf ++ more) = readBlock dn f' (B ++ more)
  | 0, B, more, f', hf, _ => by omega
  | f + 1, B, more, f', hf, hf' => by
    rcases openFold_cases dn B with ho | ho
    · -- the new early return: only the key was rewritten
      obtain ⟨k, v, r, m, hk⟩ := openFold_kv dn B ho
      obtain ⟨K0, Y, hB, h58, h10, hke⟩ := keyEdit_parts dn B k v r m hk
      rw [(scanBlockNE_open dn f B ho).1, hke]
      conv => rhs; rw [hB]
      simp only [List.append_assoc, List.cons_append]
      exact readBlock_congr dn _ _ _ (scanNext_keysub dn K0 (Y ++ more) h58 h10)
    · rcases scanNextE_step2 dn B with ⟨hs, hk⟩ | ⟨k, v, rest, m, pre, hs, hpre, h0, ⟨⟨K, X, hKX, hK⟩, hI⟩⟩
      · rw [scanBlockNE_stop dn f B hs hk]
      · have hk := scanNext_eq_fst dn B _ _ hs
        have hlen : m + rest.length = B.length := by
          rcases scanNextE_step dn B with ⟨_, hno⟩ | ⟨k2, v2, rest2, m2, pre2, _, hk2, _, _, hl2⟩
          · exact absurd hk (hno k v rest m)
          · rw [hk] at hk2; injection hk2 with _ _ e3 e4; subst e3; subst e4; exact hl2
        have hmpos : 0 < m := by rw [← hpre, hKX]; simp; omega
        have ht : (pre ++ rest).take m = pre := by rw [← hpre]; exact List.take_left
        rw [(scanBlockNE_kv dn f B k v rest _ m ho hs).1, ht]
        obtain ⟨f'', rfl⟩ : ∃ f'', f' = f'' + 1 := ⟨f' - 1, by omega⟩
        -- the answer of the first step on `B ++ more`
        have hstable : scanNext dn (B ++ more) = .kv k v (rest ++ more) m ∨
            (indexByte 10 rest = none ∧ isMulti B = false) := by
          rcases scanNext_append_or_dry dn B (by rw [hk]; simp) with hst | ⟨k', v', rest', m', hk', hd⟩
          · left; rw [hst more, hk]; rfl
          · rw [hk] at hk'; injection hk' with _ _ e3 _; subst e3
            cases hmu : isMulti B with
            | false => exact Or.inr ⟨hd, rfl⟩
            | true =>
              left
              have hfo : foldOpen rest = false := by
                simp only [openFold, hk, hmu, Bool.true_and] at ho; exact ho
              match rest, hfo, hk, hd with
              | [], hfo, _, _ => simp [foldOpen] at hfo
              | c :: t, hfo, hk, hd =>
                have hc : isOWS c = false := by
                  simp only [foldOpen, hd, Option.isNone_none, Bool.and_true] at hfo; exact hfo
                exact nonblank_rest_stable dn B k v t c m hk hc more
        rcases hstable with hkm | ⟨hd, hmu⟩
        · have h0m : contExtra (rest ++ more) = 0 := by
            rcases scanNextE_step2 dn (B ++ more) with ⟨_, hno⟩ | ⟨k2, v2, rest2, m2, pre2, hs2, _, h02, _⟩
            · exact absurd hkm (hno _ _ _ _)
            · have := scanNext_eq_fst dn _ _ _ hs2
              rw [hkm] at this; injection this with _ _ e3 _; rw [e3]; exact h02
          have hRm := contExtra_blockbufN_app dn f rest more h0m
          have hs3 := scanNext_eq_fst dn _ _ _ (hI _ hRm)
          have ih := rescanN dn f rest more f'' (by omega) (by simp at hf' ⊢; omega)
          rw [List.append_assoc]
          simp only [readBlock, hs3, hkm, ih]
        · -- the look-ahead ran dry on a single-line value: only the key was rewritten
          have hdf : dryFold dn B = false := by
            unfold dryFold; rw [hk]
            unfold isMulti at hmu
            simp only [hmu, Bool.false_and]
          obtain ⟨K0, Y, hB, h58, h10, hbuf⟩ := dry_nofold_buf dn B k v rest m hk hd hdf
          have hR : (scanBlockNE dn f rest).buf = rest := by
            cases f with
            | zero => rfl
            | succ f0 =>
              have hn := scanNext_no_lf dn rest hd
              rcases scanNextE_step dn rest with ⟨hs4, hk4⟩ | ⟨k4, v4, r4, m4, p4, _, hk4, _⟩
              · exact scanBlockNE_stop dn f0 rest hs4 hk4
              · rw [hn] at hk4; cases hk4
          rw [hR]
          have : pre ++ rest = normalizeKey dn K0 ++ 58 :: Y := by rw [← hbuf, hs]
          rw [this]
          conv => rhs; rw [hB]
          simp only [List.append_assoc, List.cons_append]
          exact readBlock_congr dn _ _ _ (scanNext_keysub dn K0 (Y ++ more) h58 h10)


theorem scanBlockNE_len (dn : Bool) : ∀ (f : Nat) (B : Bytes), (scanBlockNE dn f B).buf.length = B.length
  | 0, B => rfl
  | f + 1, B => by
    rcases openFold_cases dn B with ho | ho
    · obtain ⟨k, v, r, m, hk⟩ := openFold_kv dn B ho
      obtain ⟨K0, Y, hB, _, _, hke⟩ := keyEdit_parts dn B k v r m hk
      rw [(scanBlockNE_open dn f B ho).1, hke]
      conv => rhs; rw [hB]
      simp [normalizeKey_len]
    · rcases scanNextE_step dn B with ⟨hs, hk⟩ | ⟨k, v, rest, m, pre, hs, _, hpre, _, hlen⟩
      · rw [scanBlockNE_stop dn f B hs hk]
      · have ht : (pre ++ rest).take m = pre := by rw [← hpre]; exact List.take_left
        rw [(scanBlockNE_kv dn f B k v rest _ m ho hs).1, ht]
        simp [scanBlockNE_len dn f rest]; omega

theorem editBlockN_len (dn : Bool) (B : Bytes) : (editBlockN dn B).length = B.length :=
  scanBlockNE_len dn _ B

end Hertz.H1.ScanEdit
