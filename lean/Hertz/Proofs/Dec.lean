import Hertz.Model.Http1.Serve
import Hertz.Spec.Http
import Hertz.Spec.Resp
namespace Hertz.H1.Dec
open Hertz Hertz.H1

/-- decimal digits, most significant first -/
def decD (n : Nat) : Bytes :=
  if n < 10 then [48 + n.toUInt8] else decD (n / 10) ++ [48 + (n % 10).toUInt8]
termination_by n
decreasing_by omega

theorem decD_lt (n : Nat) (h : n < 10) : decD n = [48 + n.toUInt8] := by
  rw [decD, if_pos h]

theorem decD_ge (n : Nat) (h : 10 ≤ n) : decD n = decD (n / 10) ++ [48 + (n % 10).toUInt8] := by
  rw [decD, if_neg (by omega)]

/-! ### bridge from `toString`/`toUTF8`/`ByteArray.toList` -/

theorem byteArray_len (bs : ByteArray) : bs.data.toList.length = bs.size := by
  cases bs; rfl

theorem byteArray_get (bs : ByteArray) (i : Nat) (h : i < bs.data.toList.length) :
    bs.get! i = bs.data.toList[i] := by
  cases bs with | mk a =>
  show a[i]! = _
  simp at h
  simp [h]

theorem toList_loop_eq (bs : ByteArray) (i : Nat) (r : List UInt8) :
    ByteArray.toList.loop bs i r = r.reverse ++ bs.data.toList.drop i := by
  induction h : bs.size - i generalizing i r with
  | zero =>
    rw [ByteArray.toList.loop]
    have : ¬ i < bs.size := by omega
    rw [if_neg this]
    have : bs.data.toList.length ≤ i := by
      have := byteArray_len bs
      omega
    rw [List.drop_eq_nil_of_le this]; simp
  | succ k ih =>
    rw [ByteArray.toList.loop]
    have hi : i < bs.size := by omega
    rw [if_pos hi, ih (i + 1) _ (by omega)]
    have hlen : i < bs.data.toList.length := by
      have := byteArray_len bs
      omega
    rw [List.drop_eq_getElem_cons hlen, byteArray_get bs i hlen]
    simp

theorem byteArray_toList (bs : ByteArray) : bs.toList = bs.data.toList := by
  rw [ByteArray.toList, toList_loop_eq]; simp

theorem appendUintDec_flatMap (n : Nat) :
    appendUintDec n = (Nat.toDigits 10 n).flatMap String.utf8EncodeChar := by
  unfold appendUintDec
  rw [byteArray_toList, Nat.toString_eq_ofList_toDigits]
  show (String.ofList (Nat.toDigits 10 n)).toByteArray.data.toList = _
  rw [String.toByteArray_ofList, List.utf8Encode, List.toList_data_toByteArray]

theorem encode_digitChar (d : Nat) (h : d < 10) :
    String.utf8EncodeChar d.digitChar = [48 + d.toUInt8] := by
  match d, h with
  | 0, _ | 1, _ | 2, _ | 3, _ | 4, _ | 5, _ | 6, _ | 7, _ | 8, _ | 9, _ => decide

theorem flatMap_toDigits (n : Nat) :
    (Nat.toDigits 10 n).flatMap String.utf8EncodeChar = decD n := by
  induction n using Nat.strongRecOn with
  | _ n ih =>
    by_cases h : n < 10
    · rw [Nat.toDigits_of_lt_base h, decD_lt n h]
      simp [encode_digitChar n h]
    · rw [Nat.toDigits_of_base_le (by omega) (by omega), decD_ge n (by omega),
        List.flatMap_append, ih (n / 10) (by omega)]
      simp [encode_digitChar (n % 10) (by omega)]

theorem appendUintDec_eq (n : Nat) : appendUintDec n = decD n := by
  rw [appendUintDec_flatMap, flatMap_toDigits]

/-! ### digits -/

theorem digit_facts (d : Nat) (h : d < 10) :
    (48 : UInt8) ≤ 48 + d.toUInt8 ∧ 48 + d.toUInt8 ≤ 57 ∧ ((48 + d.toUInt8) - 48 : UInt8).toNat = d := by
  match d, h with
  | 0, _ | 1, _ | 2, _ | 3, _ | 4, _ | 5, _ | 6, _ | 7, _ | 8, _ | 9, _ => decide

theorem decD_digits' (n : Nat) : ∀ c ∈ decD n, 48 ≤ c ∧ c ≤ 57 := by
  induction n using Nat.strongRecOn with
  | _ n ih =>
    intro c hc
    by_cases h : n < 10
    · rw [decD_lt n h] at hc
      simp at hc; subst hc
      exact ⟨(digit_facts n h).1, (digit_facts n h).2.1⟩
    · rw [decD_ge n (by omega), List.mem_append] at hc
      rcases hc with hc | hc
      · exact ih (n / 10) (by omega) c hc
      · simp at hc; subst hc
        have := digit_facts (n % 10) (by omega)
        exact ⟨this.1, this.2.1⟩

theorem decD_digits (n : Nat) : ∀ c ∈ appendUintDec n, 48 ≤ c ∧ c ≤ 57 := by
  rw [appendUintDec_eq]; exact decD_digits' n

theorem decD_ne_nil (n : Nat) : decD n ≠ [] := by
  by_cases h : n < 10
  · rw [decD_lt n h]; simp
  · rw [decD_ge n (by omega)]; simp

theorem appendUintDec_ne_nil (n : Nat) : appendUintDec n ≠ [] := by
  rw [appendUintDec_eq]; exact decD_ne_nil n

/-! ### value of a digit string -/

/-- left-to-right decimal value with accumulator, in the shape `parseUintAux` uses -/
def val (v : Nat) (l : Bytes) : Nat := l.foldl (fun a c => 10 * a + (c - 48 : UInt8).toNat) v

theorem val_nil (v : Nat) : val v [] = v := rfl
theorem val_cons (v : Nat) (c : UInt8) (l : Bytes) :
    val v (c :: l) = val (10 * v + (c - 48 : UInt8).toNat) l := rfl
theorem val_snoc (v : Nat) (c : UInt8) (l : Bytes) :
    val v (l ++ [c]) = 10 * val v l + (c - 48 : UInt8).toNat := by
  simp [val, List.foldl_append]

theorem le_val (v : Nat) (l : Bytes) : v ≤ val v l := by
  induction l generalizing v with
  | nil => exact Nat.le_refl _
  | cons c l ih =>
    rw [val_cons]
    exact Nat.le_trans (by omega) (ih _)

theorem val_decD (n : Nat) : val 0 (decD n) = n := by
  induction n using Nat.strongRecOn with
  | _ n ih =>
    by_cases h : n < 10
    · rw [decD_lt n h, val_cons, val_nil, (digit_facts n h).2.2]
      omega
    · rw [decD_ge n (by omega), val_snoc, ih (n / 10) (by omega),
        (digit_facts (n % 10) (by omega)).2.2]
      omega

theorem foldl_eq_val (l : Bytes) :
    l.foldl (fun n c => n * 10 + (c - 48 : UInt8).toNat) 0 = val 0 l := by
  unfold val
  congr 1
  funext a c
  rw [Nat.mul_comm]

/-! ### the parser on a digit string -/

theorem digit_sub_le (c : UInt8) (h : 48 ≤ c ∧ c ≤ 57) : ¬ (c - 48 : UInt8) > 9 := by
  obtain ⟨h1, h2⟩ := h
  rw [UInt8.le_iff_toNat_le] at h1 h2
  rw [GT.gt, UInt8.lt_iff_toNat_lt, UInt8.toNat_sub_of_le _ _ (by rw [UInt8.le_iff_toNat_le]; exact h1)]
  simp at h1 h2 ⊢
  omega

theorem parseUintAux_digits (l rest : Bytes) (v i : Nat)
    (hd : ∀ c ∈ l, 48 ≤ c ∧ c ≤ 57)
    (hv : val v l < 2 ^ 63)
    (hi : i ≠ 0 ∨ l ≠ [])
    (hr : ∀ c, rest.head? = some c → (c - 48 : UInt8) > 9) :
    parseUintAux v i (l ++ rest) = .ok (val v l, i + l.length) := by
  induction l generalizing v i with
  | nil =>
    have hi : i ≠ 0 := by
      rcases hi with hi | hi
      · exact hi
      · exact absurd rfl hi
    cases rest with
    | nil => simp [parseUintAux, val_nil]
    | cons c t =>
      have := hr c rfl
      simp [parseUintAux, this, hi, val_nil]
  | cons c l ih =>
    have hc := digit_sub_le c (hd c (by simp))
    have hle := le_val (10 * v + (c - 48 : UInt8).toNat) l
    rw [val_cons] at hv
    have hov : ¬ v > (2 ^ 63 - 1 - (c - 48 : UInt8).toNat) / 10 := by omega
    rw [List.cons_append, parseUintAux]
    simp only [hc, if_false, hov]
    rw [ih _ _ (fun c hc => hd c (by simp [hc])) hv (Or.inl (by omega)), val_cons]
    simp; omega

theorem parseUintBuf_appendUintDec_append (n : Nat) (h : n < 2 ^ 63) (rest : Bytes)
    (hr : ∀ c, rest.head? = some c → (c - 48 : UInt8) > 9) :
    parseUintBuf (appendUintDec n ++ rest) = .ok (n, (appendUintDec n).length) := by
  rw [appendUintDec_eq]
  have hne := decD_ne_nil n
  unfold parseUintBuf
  have : (decD n ++ rest).isEmpty = false := by
    cases hd : decD n with
    | nil => exact absurd hd hne
    | cons a t => rfl
  rw [this]
  simp only [Bool.false_eq_true, if_false]
  rw [parseUintAux_digits (decD n) rest 0 0 (decD_digits' n) (by rw [val_decD]; exact h)
    (Or.inr hne) hr, val_decD, Nat.zero_add]

theorem parseUint_appendUintDec (n : Nat) (h : n < 2 ^ 63) : parseUint (appendUintDec n) = some n := by
  have := parseUintBuf_appendUintDec_append n h [] (by simp)
  rw [List.append_nil] at this
  unfold parseUint
  rw [this]
  simp

theorem parseDec_val (l : Bytes) (hne : l ≠ []) (hd : ∀ c ∈ l, 48 ≤ c ∧ c ≤ 57) :
    (l.isEmpty || !l.all (fun c => 48 ≤ c && c ≤ 57)) = false := by
  have h1 : l.isEmpty = false := by
    cases l with
    | nil => exact absurd rfl hne
    | cons a t => rfl
  have h2 : l.all (fun c => decide (48 ≤ c) && decide (c ≤ 57)) = true := by
    rw [List.all_eq_true]
    intro c hc
    simp [hd c hc]
  rw [h1, h2]; rfl

theorem specHttp_parseDec_appendUintDec (n : Nat) :
    Hertz.Spec.Http.parseDec (appendUintDec n) = some n := by
  rw [appendUintDec_eq]
  unfold Hertz.Spec.Http.parseDec
  rw [parseDec_val (decD n) (decD_ne_nil n) (decD_digits' n)]
  simp only [Bool.false_eq_true, if_false]
  rw [foldl_eq_val, val_decD]

theorem specResp_parseDec_appendUintDec (n : Nat) :
    Hertz.Spec.Resp.parseDec (appendUintDec n) = some n := by
  rw [appendUintDec_eq]
  unfold Hertz.Spec.Resp.parseDec
  rw [parseDec_val (decD n) (decD_ne_nil n) (decD_digits' n)]
  simp only [Bool.false_eq_true, if_false]
  rw [foldl_eq_val, val_decD]

/-! ### extras: length and leading digit -/

theorem decD_length_three (n : Nat) (h1 : 100 ≤ n) (h2 : n ≤ 999) : (decD n).length = 3 := by
  rw [decD_ge n (by omega), decD_ge (n / 10) (by omega), decD_lt (n / 10 / 10) (by omega)]
  rfl

theorem appendUintDec_length_three (n : Nat) (h1 : 100 ≤ n) (h2 : n ≤ 999) :
    (appendUintDec n).length = 3 := by
  rw [appendUintDec_eq]; exact decD_length_three n h1 h2

theorem decD_head_ne_zero (n : Nat) (h : 0 < n) : (decD n).head? ≠ some 48 := by
  induction n using Nat.strongRecOn with
  | _ n ih =>
    by_cases hlt : n < 10
    · rw [decD_lt n hlt]
      match n, hlt, h with
      | 1, _, _ | 2, _, _ | 3, _, _ | 4, _, _ | 5, _, _ | 6, _, _ | 7, _, _ | 8, _, _ | 9, _, _ => decide
    · rw [decD_ge n (by omega)]
      have hne := decD_ne_nil (n / 10)
      have := ih (n / 10) (by omega) (by omega)
      cases hd : decD (n / 10) with
      | nil => exact absurd hd hne
      | cons a t => rw [hd] at this; exact this

theorem appendUintDec_head_ne_zero (n : Nat) (h : 0 < n) : (appendUintDec n).head? ≠ some 48 := by
  rw [appendUintDec_eq]; exact decD_head_ne_zero n h

theorem appendUintDec_zero : appendUintDec 0 = [48] := by
  rw [appendUintDec_eq, decD_lt 0 (by omega)]; rfl


end Hertz.H1.Dec
