import Hertz.Proofs.ReqOwsLine
import Hertz.Proofs.ReqOwsCanon
/-!
Round trip of the request reader (C01) for requests whose field lines are spelled in any way the strict decoder
accepts (`FLine`, `Proofs/ReqOwsLine.lean`): arbitrary optional whitespace around the value and obs-fold
continuation lines, in the header section and in the trailer section.

`OReq` is a request with spelled field lines; `seenW r` is the request as the handler is handed it (values `hval`),
`strictW r` the request as the strict decoder reads it (values `sval`); both are `WReq`s, so `expectedHead`,
`expectedSeen`, `served`, `toSpec` of `Proofs/ReqRoundtrip.lean` say what is expected.
-/
namespace Hertz.H1.RT
open Hertz Hertz.H1 Hertz.Gen.Str Hertz.Spec.Http

/-! ### requests with spelled field lines -/

inductive OBody where
  | none
  | fixed (b : Bytes)
  | chunked (chunks : List Chunk) (last : Bytes) (trailers : List FLine)
deriving Repr, DecidableEq

structure OReq where
  method : Bytes
  target : Bytes
  fields : List FLine
  body : OBody
deriving Repr, DecidableEq

def OBody.toW (g : FLine → Bytes × Bytes) : OBody → WBody
  | .none => .none
  | .fixed b => .fixed b
  | .chunked cs l trs => .chunked cs l (trs.map g)

def OBody.trailers : OBody → List FLine
  | .chunked _ _ trs => trs
  | _ => []

def OReq.toW (g : FLine → Bytes × Bytes) (r : OReq) : WReq :=
  { method := r.method, target := r.target, fields := r.fields.map g, body := r.body.toW g }

/-- the request as the handler is to see it -/
def seenW (r : OReq) : WReq := r.toW hField
/-- the request as the strict decoder is to read it -/
def strictW (r : OReq) : WReq := r.toW sField

def encHeadO (m t : Bytes) (fs : List FLine) : Bytes :=
  m ++ 32 :: (t ++ 32 :: (strHTTP11 ++ 13 :: 10 :: (encFLines fs ++ [13, 10])))

def encHeadOfO (r : OReq) : Bytes := encHeadO r.method r.target r.fields

def encBodyO : OBody → Bytes
  | .none => []
  | .fixed b => b
  | .chunked cs last trs => encChunks cs ++ (last ++ 13 :: 10 :: (encFLines trs ++ [13, 10]))

def encReqO (r : OReq) : Bytes := encHeadOfO r ++ encBodyO r.body

def encAllO : List OReq → Bytes
  | [] => []
  | r :: t => encReqO r ++ encAllO t

/-- `wfFraming` without the clause on the spelling of trailer values -/
def wfFramingL (dn : Bool) (fs : List (Bytes × Bytes)) : WBody → Bool
  | .none => !hasCls .cl fs && !hasCls .te fs
  | .fixed b =>
    !hasCls .te fs && hasCls .cl fs &&
    fs.all (fun kv => cls kv.1 != .cl || kv.2 == pick .cl fs []) &&
    parseDec (pick .cl fs []) == some b.length && decide (b.length < 2 ^ 63)
  | .chunked cs last trs =>
    !hasCls .cl fs && (teFields fs).length == 1 && (teFields fs).all (fun kv => lowerAll kv.2 == sChunked) &&
    cs.all wfChunk && decide (last.length ≤ 15) && parseHex last == some 0 &&
    trs.map (fun kv => normalizeKey dn kv.1) == pickT dn fs []

/-- the framing fields read the same to the handler and to the strict decoder -/
def framingSame (r : OReq) : Bool :=
  r.fields.all (fun f => (cls f.name != .cl && cls f.name != .te) || hval f == sval f)

/-- well-formed request with spelled fields: token method, target without SP/CTL, every field line (header and
trailer section) a `wfFLine`; and, on the values as the handler gets them: every `Trailer` field a clean
declaration, consistent framing (the conditions of `wfFraming`) -/
def wfOReq (dn : Bool) (r : OReq) : Bool :=
  isToken r.method && wfTarget r.target && r.fields.all wfFLine && r.body.trailers.all wfFLine &&
  (seenW r).fields.all (fun kv => cls kv.1 != .trailer || declOk dn kv.2) &&
  wfFramingL dn (seenW r).fields (seenW r).body

theorem parseDec_digits (b : Bytes) (n : Nat) (h : parseDec b = some n) : ∀ c ∈ b, c ≠ 32 ∧ c ≠ 9 := by
  unfold parseDec at h
  split at h
  · cases h
  · rename_i hcond
    simp only [Bool.or_eq_true, Bool.not_eq_true', not_or, Bool.not_eq_false, List.all_eq_true, Bool.and_eq_true,
      decide_eq_true_eq] at hcond
    intro c hc
    have := hcond.2 c hc
    constructor
    · intro h32; subst h32; exact absurd this.1 (by decide)
    · intro h9; subst h9; exact absurd this.1 (by decide)

theorem chunked_nb (v : Bytes) (h : lowerAll v = sChunked) : ∀ c ∈ v, c ≠ 32 ∧ c ≠ 9 := by
  intro c hc
  have hm : Spec.Http.lower c ∈ sChunked := by
    rw [← h]; exact List.mem_map_of_mem hc
  constructor
  · intro h32; subst h32; revert hm; decide
  · intro h9; subst h9; revert hm; decide

/-- The framing fields (`Content-Length`, `Transfer-Encoding`) of a request whose framing hertz accepts read the same to
the strict decoder: a value without blanks is the same in both readings. -/
theorem framingSame_of_framing {dn : Bool} (r : OReq) (hf : ∀ f ∈ r.fields, wfFLine f = true)
    (hfr : wfFramingL dn (seenW r).fields (seenW r).body = true) : framingSame r = true := by
  have hsf : (seenW r).fields = r.fields.map hField := rfl
  rw [hsf] at hfr
  simp only [framingSame, List.all_eq_true, Bool.or_eq_true, Bool.and_eq_true, bne_iff_ne, ne_eq, beq_iff_eq]
  intro f hfm
  have hmem : hField f ∈ r.fields.map hField := List.mem_map_of_mem hfm
  by_cases hcl : cls f.name = .cl
  · right
    apply Eq.symm
    apply sval_eq_hval_of_nb f (hf f hfm)
    cases hb : (seenW r).body with
    | none =>
      rw [hb] at hfr
      simp only [wfFramingL, Bool.and_eq_true, Bool.not_eq_true'] at hfr
      exact absurd hcl ((hasCls_false_iff _ _).mp hfr.1 _ hmem)
    | fixed b =>
      rw [hb] at hfr
      simp only [wfFramingL, Bool.and_eq_true, Bool.not_eq_true', List.all_eq_true, Bool.or_eq_true, bne_iff_ne,
        ne_eq, beq_iff_eq, decide_eq_true_eq] at hfr
      obtain ⟨⟨⟨⟨_, _⟩, hall⟩, hdec⟩, _⟩ := hfr
      rcases hall _ hmem with h1 | h1
      · exact absurd hcl h1
      · have hv : hval f = pick .cl (r.fields.map hField) [] := h1
        rw [hv]; exact parseDec_digits _ _ hdec
    | chunked cs l trs =>
      rw [hb] at hfr
      simp only [wfFramingL, Bool.and_eq_true, Bool.not_eq_true', List.all_eq_true, beq_iff_eq] at hfr
      obtain ⟨⟨⟨⟨⟨⟨hcl0, _⟩, _⟩, _⟩, _⟩, _⟩, _⟩ := hfr
      exact absurd hcl ((hasCls_false_iff _ _).mp hcl0 _ hmem)
  · by_cases hte : cls f.name = .te
    · right
      apply Eq.symm
      apply sval_eq_hval_of_nb f (hf f hfm)
      cases hb : (seenW r).body with
      | none =>
        rw [hb] at hfr
        simp only [wfFramingL, Bool.and_eq_true, Bool.not_eq_true'] at hfr
        exact absurd hte ((hasCls_false_iff _ _).mp hfr.2 _ hmem)
      | fixed b =>
        rw [hb] at hfr
        simp only [wfFramingL, Bool.and_eq_true, Bool.not_eq_true'] at hfr
        exact absurd hte ((hasCls_false_iff _ _).mp hfr.1.1.1.1 _ hmem)
      | chunked cs l trs =>
        rw [hb] at hfr
        simp only [wfFramingL, Bool.and_eq_true, Bool.not_eq_true', List.all_eq_true, beq_iff_eq] at hfr
        obtain ⟨⟨⟨⟨⟨⟨_, _⟩, hval'⟩, _⟩, _⟩, _⟩, _⟩ := hfr
        have hin : hField f ∈ teFields (r.fields.map hField) := by
          unfold teFields
          simp only [List.mem_filter]
          exact ⟨hmem, by simp [hField, hte]⟩
        exact chunked_nb _ (hval' _ hin)
    · left; exact ⟨hcl, hte⟩

theorem wfOReq_facts {dn : Bool} (r : OReq) (h : wfOReq dn r = true) :
    isToken r.method = true ∧ wfTarget r.target = true ∧ (∀ f ∈ r.fields, wfFLine f = true) ∧
    (∀ f ∈ r.body.trailers, wfFLine f = true) ∧
    (∀ kv ∈ (seenW r).fields, cls kv.1 = .trailer → declOk dn kv.2 = true) ∧
    wfFramingL dn (seenW r).fields (seenW r).body = true ∧ framingSame r = true := by
  simp only [wfOReq, Bool.and_eq_true, List.all_eq_true, Bool.or_eq_true, bne_iff_ne, ne_eq] at h
  obtain ⟨⟨⟨⟨⟨h1, h2⟩, h3⟩, h4⟩, h5⟩, h6⟩ := h
  refine ⟨h1, h2, h3, h4, ?_, h6, framingSame_of_framing r h3 h6⟩
  intro kv hkv hc
  rcases h5 kv hkv with h | h
  · exact absurd hc h
  · exact h

/-! ### the field block -/

theorem encFLine_ne_nil (f : FLine) : encFLine f ≠ [] := by
  unfold encFLine; cases f.name <;> simp

theorem encFLine_length_pos (f : FLine) : 0 < (encFLine f).length := by
  have := encFLine_ne_nil f
  cases h : encFLine f with
  | nil => exact absurd h this
  | cons _ _ => simp

theorem encFLines_length_cons (f : FLine) (fs : List FLine) :
    (encFLines (f :: fs)).length = (encFLine f).length + (encFLines fs).length := by
  simp [encFLines]

theorem encFLines_length_ge : ∀ fs : List FLine, fs.length ≤ (encFLines fs).length
  | [] => by simp [encFLines]
  | f :: fs => by
    have := encFLines_length_ge fs
    have := encFLine_length_pos f
    rw [encFLines_length_cons]; simp; omega

theorem headOk_block (fs : List FLine) (rest : Bytes) (h : ∀ f ∈ fs, wfFLine f = true) :
    headOk (encFLines fs ++ 13 :: 10 :: rest) := by
  intro c hc
  cases fs with
  | nil => simp [encFLines] at hc; subst hc; decide
  | cons f t =>
    have hw := h f (by simp)
    simp only [wfFLine, Bool.and_eq_true] at hw
    obtain ⟨hk0, hkf⟩ := token_facts f.name hw.1.1
    obtain ⟨a, k', hk⟩ := List.exists_cons_of_ne_nil hk0
    simp [encFLines, encFLine, hk] at hc
    subst hc
    have := hkf a (by simp [hk])
    exact ⟨this.ne32, this.ne9⟩

theorem rawHeaders_encFLines : ∀ (fs : List FLine) (rest : Bytes), (∀ f ∈ fs, wfFLine f = true) →
    ∃ n, rawHeadersLen (encFLines fs ++ 13 :: 10 :: rest) = some n
  | [], rest, _ => ⟨2, by simp [encFLines, rawHeadersLen, rawHeadersAux]⟩
  | f :: fs, rest, h => by
    obtain ⟨n, ih⟩ := rawHeaders_encFLines fs rest (fun f hf => h f (by simp [hf]))
    refine ⟨n + (encFLine f).length, ?_⟩
    unfold rawHeadersLen at ih ⊢
    have e : encFLines (f :: fs) ++ 13 :: 10 :: rest = encFLine f ++ (encFLines fs ++ 13 :: 10 :: rest) := by
      simp [encFLines]
    rw [e, rawHeaders_fline f _ (h f (by simp)), ih]
    rfl

/-- `applyHeader_wf` for a value that need not be trimmed -/
theorem applyHeader_vchar (dn : Bool) (st : HdrState) (k v : Bytes) (hk : isToken k = true)
    (hv : v.all isFieldVchar = true) :
    applyHeader dn st (normalizeKey dn k) v = some (applyWf dn st k v) := by
  obtain ⟨h0, h32, h9⟩ := normalizeKey_facts dn k hk
  have hlow := normalizeKey_lower dn k
  have hval : validHeaderFieldValue v = true := by
    simp only [validHeaderFieldValue, List.all_eq_true] at hv ⊢
    intro x hx
    simpa using (vchar_facts x (hv x hx)).2.2
  unfold applyWf cls
  simp only [← hlow]
  generalize normalizeKey dn k = key at *
  obtain ⟨k0, kt, rfl⟩ := List.exists_cons_of_ne_nil h0
  unfold applyHeader
  simp only [h32, h9, hval, Bool.or_false, Bool.false_eq_true, if_false, Bool.not_true]
  have c1 := cond_iff k0 kt strHost sHost 104 (by decide) rfl (fun c => (or20 c).1)
  have c2 := cond_iff k0 kt strUserAgent sUserAgent 117 (by decide) rfl (fun c => (or20 c).2.1)
  have c3 := cond_iff k0 kt strContentType sContentType 99 (by decide) rfl (fun c => (or20 c).2.2.1)
  have c4 := cond_iff k0 kt strContentLength sContentLength 99 (by decide) rfl (fun c => (or20 c).2.2.1)
  have c5 := cond_iff k0 kt strConnection sConnection 99 (by decide) rfl (fun c => (or20 c).2.2.1)
  have c6 := cond_iff k0 kt strTransferEncoding sTransferEncoding 116 (by decide) rfl (fun c => (or20 c).2.2.2)
  have c7 := cond_iff k0 kt strTrailer sTrailer 116 (by decide) rfl (fun c => (or20 c).2.2.2)
  simp only [c1, c2, c3, c4, c5, c6, c7]
  by_cases e1 : lowerAll (k0 :: kt) = sHost
  · simp only [e1, if_true]
  · simp only [e1, if_false]
    by_cases e2 : lowerAll (k0 :: kt) = sUserAgent
    · simp only [e2, if_true]
    · simp only [e2, if_false]
      by_cases e3 : lowerAll (k0 :: kt) = sContentType
      · simp only [e3, if_true]
      · simp only [e3, if_false]
        by_cases e4 : lowerAll (k0 :: kt) = sContentLength
        · simp only [e4, if_true]
          split
          · cases parseUint v <;> rfl
          · rfl
        · simp only [e4, if_false]
          by_cases e5 : lowerAll (k0 :: kt) = sConnection
          · simp only [e5, if_true]
            split <;> rfl
          · simp only [e5, if_false]
            by_cases e6 : lowerAll (k0 :: kt) = sTransferEncoding
            · simp only [e6, if_true]
              split <;> rfl
            · simp only [e6, if_false]
              by_cases e7 : lowerAll (k0 :: kt) = sTrailer
              · simp only [e7, if_true]
              · simp only [e7, if_false]

theorem parseHeadersLoop_encO (dn : Bool) : ∀ (fs : List FLine) (st : HdrState) (hlen fuel : Nat) (rest : Bytes),
    (∀ f ∈ fs, wfFLine f = true) → fs.length < fuel →
    parseHeadersLoop dn fuel (encFLines fs ++ 13 :: 10 :: rest) st hlen =
      finishLoop (foldWf dn st (fs.map hField)) (hlen + (encFLines fs).length + 2)
  | [], st, hlen, fuel, rest, _, hf => by
    obtain ⟨f, rfl⟩ : ∃ f, fuel = f + 1 := ⟨fuel - 1, by omega⟩
    show parseHeadersLoop dn (f + 1) (13 :: 10 :: rest) st hlen = finishLoop st (hlen + 0 + 2)
    simp only [parseHeadersLoop, scanNext, finishLoop, Nat.add_zero]
  | fl :: fs, st, hlen, fuel, rest, h, hf => by
    obtain ⟨f, rfl⟩ : ∃ f, fuel = f + 1 := ⟨fuel - 1, by omega⟩
    have hw := h fl (by simp)
    have hw' := hw
    simp only [wfFLine, Bool.and_eq_true] at hw'
    have hrest : ∀ f ∈ fs, wfFLine f = true := fun f hf => h f (by simp [hf])
    have e : encFLines (fl :: fs) ++ 13 :: 10 :: rest = encFLine fl ++ (encFLines fs ++ 13 :: 10 :: rest) := by
      simp [encFLines]
    have ih := parseHeadersLoop_encO dn fs (applyWf dn st fl.name (hval fl)) (hlen + (encFLine fl).length) f rest hrest
      (by simp at hf; omega)
    rw [e]
    simp only [parseHeadersLoop, scanNext_fline dn fl _ hw (headOk_block fs rest hrest),
      applyHeader_vchar dn st fl.name (hval fl) hw'.1.1 (hval_vchar fl hw), ih, encFLines_length_cons]
    simp only [foldWf, List.map_cons, List.foldl_cons, hField]
    congr 1; omega

/-! ### the fields folded (copy of `foldWf_wfReq` with the hypotheses it uses) -/

theorem foldWf_L (dn : Bool) (r : WReq)
    (htr : ∀ kv ∈ r.fields, cls kv.1 = .trailer → declOk dn kv.2 = true)
    (hfr : wfFramingL dn r.fields r.body = true) :
    foldWf dn (st0 r.method r.target) r.fields = { head := expectedHead dn r, err := false } := by
  cases hb : r.body with
  | none =>
    rw [hb] at hfr
    simp only [wfFramingL, Bool.and_eq_true, Bool.not_eq_true'] at hfr
    have hcl := (hasCls_false_iff _ _).mp hfr.1
    have hte := (hasCls_false_iff _ _).mp hfr.2
    rw [foldWf_noTE dn [48] 0 (by decide) r.fields _
      (fun kv hkv => ⟨hte kv hkv, htr kv hkv, fun hc => absurd hc (hcl kv hkv)⟩) (Or.inr hfr.1)]
    simp [st0, expectedHead, hb, framingCl, hfr.1]
  | fixed b =>
    rw [hb] at hfr
    simp only [wfFramingL, Bool.and_eq_true, Bool.not_eq_true', List.all_eq_true, Bool.or_eq_true, bne_iff_ne,
      ne_eq, beq_iff_eq, decide_eq_true_eq] at hfr
    obtain ⟨⟨⟨⟨hte, hcl⟩, hall⟩, hdec⟩, hlt⟩ := hfr
    have hte := (hasCls_false_iff _ _).mp hte
    have hp := parseUint_of_parseDec _ _ hdec hlt
    rw [foldWf_noTE dn (pick .cl r.fields []) b.length hp r.fields _
      (fun kv hkv => ⟨hte kv hkv, htr kv hkv, fun hc => by
        rcases hall kv hkv with h1 | h1
        · exact absurd hc h1
        · exact h1⟩) (Or.inl (by simp [st0]))]
    simp [st0, expectedHead, hb, framingCl, hcl]
  | chunked cs last trs =>
    rw [hb] at hfr
    simp only [wfFramingL, Bool.and_eq_true, Bool.not_eq_true', List.all_eq_true, beq_iff_eq] at hfr
    obtain ⟨⟨⟨⟨⟨⟨hcl, hlen⟩, hval⟩, _⟩, _⟩, _⟩, _⟩ := hfr
    obtain ⟨te, hte1⟩ : ∃ te, teFields r.fields = [te] := by
      match hm : teFields r.fields, hlen with
      | [te], _ => exact ⟨te, rfl⟩
    have hteval := hval te (by rw [hte1]; simp)
    unfold teFields at hte1
    obtain ⟨pre, post, hsplit, hpre, hpte, hpost⟩ := List.filter_eq_cons_iff.mp hte1
    have hpre' : ∀ kv ∈ pre, cls kv.1 ≠ .te := fun kv hkv => by simpa [cls_beq] using hpre kv hkv
    have hpost' : ∀ kv ∈ post, cls kv.1 ≠ .te := fun kv hkv => by
      have := List.filter_eq_nil_iff.mp hpost kv hkv
      simpa [cls_beq] using this
    have hcte : cls te.1 = .te := by simpa [cls_beq] using hpte
    have hclall := (hasCls_false_iff _ _).mp hcl
    have hmem_pre : ∀ kv ∈ pre, kv ∈ r.fields := fun kv hkv => by rw [hsplit]; simp [hkv]
    have hmem_post : ∀ kv ∈ post, kv ∈ r.fields := fun kv hkv => by rw [hsplit]; simp [hkv]
    have hclpre : hasCls .cl pre = false := (hasCls_false_iff _ _).mpr (fun kv hkv => hclall kv (hmem_pre kv hkv))
    have hclpost : hasCls .cl post = false := (hasCls_false_iff _ _).mpr (fun kv hkv => hclall kv (hmem_post kv hkv))
    have hnid : te.2 ≠ strIdentity := by
      intro hid; rw [hid] at hteval; exact absurd hteval (by decide)
    have e1 := foldWf_noTE dn [48] 0 (by decide) pre (st0 r.method r.target)
      (fun kv hkv => ⟨hpre' kv hkv, htr kv (hmem_pre kv hkv), fun hc => absurd hc (hclall kv (hmem_pre kv hkv))⟩)
      (Or.inr hclpre)
    rw [hsplit, foldWf_append, e1]
    have e2 : foldWf dn {
          head := { (st0 r.method r.target).head with
          host := pick .host pre (st0 r.method r.target).head.host,
          userAgent := pick .ua pre (st0 r.method r.target).head.userAgent,
          contentType := pick .ct pre (st0 r.method r.target).head.contentType,
          cl := bif hasCls .cl pre then ((0 : Nat) : Int) else (st0 r.method r.target).head.cl,
          clBytes := bif hasCls .cl pre then [48] else (st0 r.method r.target).head.clBytes,
          connClose := pickClose pre (st0 r.method r.target).head.connClose,
          h := (st0 r.method r.target).head.h ++ pre.filterMap (generic dn),
          trailer := pickT dn pre (st0 r.method r.target).head.trailer },
          err := (st0 r.method r.target).err } (te :: post) =
        foldWf dn {
          head := { (st0 r.method r.target).head with
          host := pick .host pre [], userAgent := pick .ua pre [], contentType := pick .ct pre [],
          cl := -1, connClose := pickClose pre false,
          h := pre.filterMap (generic dn) ++ [(strTransferEncoding, strChunked)],
          trailer := pickT dn pre [] }, err := false } post := by
      show foldWf dn (applyWf dn _ te.1 te.2) post = _
      congr 1
      simp only [applyWf, hcte, hclpre, st0, cond_false, List.nil_append]
      have hb : (te.2 != strIdentity) = true := by simpa using hnid
      simp only [hb, if_true]
      rw [setArg_fresh _ _ _ (generic_key_ne_te dn pre hpre')]
    rw [e2, foldWf_noTE dn [48] 0 (by decide) post _
      (fun kv hkv => ⟨hpost' kv hkv, htr kv (hmem_post kv hkv), fun hc => absurd hc (hclall kv (hmem_post kv hkv))⟩)
      (Or.inr hclpost)]
    have hg : generic dn te = some (strTransferEncoding, strChunked) := by
      simp [generic, hcte, hnid]
    simp [st0, expectedHead, hb, framingCl, hclpost, hsplit, pick_append, pickClose_append, pickT_append, pick,
      pickClose, pickT, hcte, List.filterMap_append, hg]

/-! ### stage 1: the head -/

theorem parseHeaders_encO (dn : Bool) (r : OReq) (h : wfOReq dn r = true) (rest : Bytes) :
    parseHeaders dn { method := r.method, uri := r.target, http11 := true } (encFLines r.fields ++ 13 :: 10 :: rest) =
      .ok (expectedHead dn (seenW r), (encFLines r.fields).length + 2) := by
  obtain ⟨_, _, hf, _, htr, hfr, _⟩ := wfOReq_facts r h
  unfold parseHeaders
  have hloop := parseHeadersLoop_encO dn r.fields (st0 r.method r.target) 0
    ((encFLines r.fields ++ 13 :: 10 :: rest).length + 1) rest hf (by
      have := encFLines_length_ge r.fields
      simp; omega)
  have hst : ({ head := { ({ method := r.method, uri := r.target, http11 := true } : ReqHead) with cl := -2 } } : HdrState) =
      st0 r.method r.target := rfl
  have hfold := foldWf_L dn (seenW r) htr hfr
  have hs : (seenW r).fields = r.fields.map hField := rfl
  have hm : (seenW r).method = r.method := rfl
  have ht : (seenW r).target = r.target := rfl
  rw [hs, hm, ht] at hfold
  rw [hst, hloop, hfold]
  simp only [finishLoop, Bool.false_eq_true, if_false, bind, Except.bind]
  have h11 : (expectedHead dn (seenW r)).http11 = true := rfl
  by_cases hneg : (expectedHead dn (seenW r)).cl < 0
  · have hcb := framingCl_fixed_nonneg (dn := dn) (seenW r) hneg
    simp only [hneg, if_true, h11]
    revert h11 hcb
    generalize expectedHead dn (seenW r) = E
    intro h11 hcb
    cases E
    simp_all
  · simp only [hneg, if_false, h11]
    simp

theorem encHeadOfO_length (r : OReq) :
    (encHeadOfO r).length = r.method.length + 1 + r.target.length + 1 + 8 + 2 + ((encFLines r.fields).length + 2) := by
  simp [encHeadOfO, encHeadO, strHTTP11]; omega

theorem parseReqHead_encO (dn : Bool) (r : OReq) (h : wfOReq dn r = true) (rest : Bytes) :
    parseReqHead dn (encHeadOfO r ++ rest) = .ok (expectedHead dn (seenW r), (encHeadOfO r).length) := by
  obtain ⟨hm, ht, hf, _, _, _, _⟩ := wfOReq_facts r h
  have e : encHeadOfO r ++ rest =
      r.method ++ 32 :: (r.target ++ 32 :: (strHTTP11 ++ 13 :: 10 :: (encFLines r.fields ++ 13 :: 10 :: rest))) := by
    simp [encHeadOfO, encHeadO]
  have hdrop : List.drop (r.method.length + 1 + r.target.length + 1 + 8 + 2)
      (r.method ++ 32 :: (r.target ++ 32 :: (strHTTP11 ++ 13 :: 10 :: (encFLines r.fields ++ 13 :: 10 :: rest)))) =
      encFLines r.fields ++ 13 :: 10 :: rest := by
    have e2 : r.method ++ 32 :: (r.target ++ 32 :: (strHTTP11 ++ 13 :: 10 :: (encFLines r.fields ++ 13 :: 10 :: rest))) =
        (r.method ++ 32 :: (r.target ++ 32 :: (strHTTP11 ++ [13, 10]))) ++ (encFLines r.fields ++ 13 :: 10 :: rest) := by
      simp
    rw [e2]
    exact List.drop_left' (by simp [strHTTP11]; omega)
  obtain ⟨n, hraw⟩ := rawHeaders_encFLines r.fields rest hf
  unfold parseReqHead
  rw [e, parseFirstLine_enc r.method r.target _ hm ht]
  simp only [bind, Except.bind, hdrop, hraw, parseHeaders_encO dn r h rest]
  rw [encHeadOfO_length]

/-! ### stage 2: the trailer section and the body -/

theorem parseTrailerLoop_encO (dn : Bool) : ∀ (todo : List FLine) (done : List (Bytes × Bytes)) (rest : Bytes) (hlen fuel : Nat),
    (∀ f ∈ todo, wfFLine f = true ∧ isBadTrailer (normalizeKey dn f.name) = false) → todo.length < fuel →
    parseTrailerLoop dn fuel (encFLines todo ++ 13 :: 10 :: rest) (filled done ++ unfilledN dn (todo.map hField)) false hlen =
      .ok (filled (done ++ normT dn (todo.map hField)), hlen + (encFLines todo).length + 2)
  | [], done, rest, hlen, fuel, _, hf => by
    obtain ⟨f, rfl⟩ : ∃ f, fuel = f + 1 := ⟨fuel - 1, by omega⟩
    simp [encFLines, parseTrailerLoop, scanNext, unfilledN, normT]
  | fl :: todo, done, rest, hlen, fuel, h, hf => by
    obtain ⟨f, rfl⟩ : ∃ f, fuel = f + 1 := ⟨fuel - 1, by omega⟩
    obtain ⟨hw, hbad⟩ := h fl (by simp)
    have hw' := hw
    simp only [wfFLine, Bool.and_eq_true] at hw'
    have hrest : ∀ f ∈ todo, wfFLine f = true := fun x hx => (h x (by simp [hx])).1
    obtain ⟨h0, h32, h9⟩ := normalizeKey_facts dn fl.name hw'.1.1
    have hemp : (normalizeKey dn fl.name).isEmpty = false := by
      cases hh : normalizeKey dn fl.name with
      | nil => exact absurd hh h0
      | cons _ _ => rfl
    have e : encFLines (fl :: todo) ++ 13 :: 10 :: rest = encFLine fl ++ (encFLines todo ++ 13 :: 10 :: rest) := by
      simp [encFLines]
    have hst : updateTrailer (filled done ++ unfilledN dn ((fl :: todo).map hField)) (normalizeKey dn fl.name) (hval fl) =
        filled (done ++ [(normalizeKey dn fl.name, hval fl)]) ++ unfilledN dn (todo.map hField) := by
      have := updateTrailer_fill done (normalizeKey dn fl.name) (hval fl) (unfilledN dn (todo.map hField))
      simp only [unfilledN, List.map_cons, filled, List.map_append, List.map_nil, List.append_assoc, List.cons_append,
        List.nil_append, hField] at this ⊢
      exact this
    have ih := parseTrailerLoop_encO dn todo (done ++ [(normalizeKey dn fl.name, hval fl)]) rest
      (hlen + (encFLine fl).length) f (fun x hx => h x (by simp [hx])) (by simp at hf; omega)
    rw [e]
    simp only [parseTrailerLoop, scanNext_fline dn fl _ hw (headOk_block todo rest hrest), hemp, h32,
      h9, hbad, Bool.false_eq_true, if_false, Bool.or_self, hst, ih, encFLines_length_cons]
    simp [normT, Nat.add_assoc, hField]

theorem readTrailerReq_encO (cfg : Cfg) (e : End) (trs : List FLine) (rest : Bytes)
    (h : ∀ f ∈ trs, wfFLine f = true ∧ isBadTrailer (normalizeKey cfg.disableNorm f.name) = false) :
    readTrailerReq cfg e (trs.map (fun f => normalizeKey cfg.disableNorm f.name)) (encFLines trs ++ 13 :: 10 :: rest) =
      .ok (some (normT cfg.disableNorm (trs.map hField)), rest) := by
  have hloop := parseTrailerLoop_encO cfg.disableNorm trs [] rest 0 ((encFLines trs ++ 13 :: 10 :: rest).length + 1) h (by
    have := encFLines_length_ge trs
    simp only [List.length_append]; omega)
  simp only [filled, List.map_nil, List.nil_append, Nat.zero_add] at hloop
  have hu : (trs.map (fun f => normalizeKey cfg.disableNorm f.name)).map (fun k => (k, (none : Option Bytes))) =
      unfilledN cfg.disableNorm (trs.map hField) := by simp [unfilledN, hField]
  have hpt : parseTrailer cfg.disableNorm (unfilledN cfg.disableNorm (trs.map hField)) (encFLines trs ++ 13 :: 10 :: rest) =
      .ok (filled (normT cfg.disableNorm (trs.map hField)), (encFLines trs).length + 2) := by
    cases trs with
    | nil => simpa [parseTrailer, encFLines, filled] using hloop
    | cons fl t =>
      obtain ⟨hw, _⟩ := h fl (by simp)
      simp only [wfFLine, Bool.and_eq_true] at hw
      obtain ⟨hk0, hkf⟩ := token_facts fl.name hw.1.1
      obtain ⟨a, k', hk⟩ := List.exists_cons_of_ne_nil hk0
      have e : encFLines (fl :: t) ++ 13 :: 10 :: rest =
          a :: (k' ++ 58 :: (fl.raw ++ 13 :: 10 :: (encConts fl.conts ++ (encFLines t ++ 13 :: 10 :: rest)))) := by
        simp [encFLines, encFLine, hk]
      rw [e] at hloop ⊢
      unfold parseTrailer
      split
      · rename_i r48 heq
        simp only [List.cons.injEq] at heq
        obtain ⟨ha, hr⟩ := heq
        subst hr
        have h3 : ¬ ((a :: (k' ++ 58 :: (fl.raw ++ 13 :: 10 :: (encConts fl.conts ++ (encFLines t ++ 13 :: 10 :: rest))))).length < 3) := by
          simp; omega
        have htk : ¬ (List.take 2 (k' ++ 58 :: (fl.raw ++ 13 :: 10 :: (encConts fl.conts ++ (encFLines t ++ 13 :: 10 :: rest)))) = strCRLF) := by
          cases k' with
          | nil => simp [strCRLF]
          | cons c k'' =>
            have := (hkf c (by simp [hk])).ne13
            simp [strCRLF, this]
        simp only [h3, if_false, htk]
        simp only [filled] at hloop ⊢
        exact hloop
      · simp only [filled] at hloop ⊢
        exact hloop
  have hne : (encFLines trs ++ 13 :: 10 :: rest).isEmpty = false := by simp
  unfold readTrailerReq
  simp only [hne, Bool.false_eq_true, if_false]
  rw [hu, hpt]
  have hd : List.drop ((encFLines trs).length + 2) (encFLines trs ++ 13 :: 10 :: rest) = rest := by
    have e2 : encFLines trs ++ 13 :: 10 :: rest = (encFLines trs ++ [13, 10]) ++ rest := by simp
    rw [e2]; exact List.drop_left' (by simp)
  simp [filledTrailers_filled, hd]

theorem bodyOf_toW (g : FLine → Bytes × Bytes) (b : OBody) : bodyOf (b.toW g) = bodyOf (b.toW hField) := by
  cases b <;> rfl

theorem continueReadBody_encO (cfg : Cfg) (e : End) (r : OReq) (h : wfOReq cfg.disableNorm r = true)
    (hlim : withinLimits cfg (seenW r) = true) (rest : Bytes) :
    continueReadBody cfg e (expectedHead cfg.disableNorm (seenW r)) (encBodyO r.body ++ rest) =
      .ok (expectedSeen cfg.disableNorm (seenW r)).head (expectedSeen cfg.disableNorm (seenW r)).body
        (expectedSeen cfg.disableNorm (seenW r)).trailers rest := by
  obtain ⟨_, _, _, htw, hdecl, hfr, _⟩ := wfOReq_facts r h
  simp only [withinLimits, Bool.and_eq_true, Bool.or_eq_true, beq_iff_eq, decide_eq_true_eq, Bool.not_eq_true',
    Bool.and_eq_false_iff] at hlim
  obtain ⟨hmax, hpre⟩ := hlim
  have htr : (expectedHead cfg.disableNorm (seenW r)).trailer = pickT cfg.disableNorm (seenW r).fields [] := rfl
  have hct : (expectedHead cfg.disableNorm (seenW r)).contentType = pick .ct (seenW r).fields [] := rfl
  have hsb : (seenW r).body = r.body.toW hField := rfl
  cases hb : r.body with
  | none =>
    have hb' : (seenW r).body = .none := by rw [hsb, hb]; rfl
    have hcl : (expectedHead cfg.disableNorm (seenW r)).cl = -2 := by simp [expectedHead, hb', framingCl]
    unfold continueReadBody
    simp [hcl, htr, expectedSeen, hb', encBodyO, bodyOf]
  | fixed b =>
    have hb' : (seenW r).body = .fixed b := by rw [hsb, hb]; rfl
    have hcl : (expectedHead cfg.disableNorm (seenW r)).cl = (b.length : Int) := by simp [expectedHead, hb', framingCl]
    unfold continueReadBody
    rw [hb'] at hmax
    simp only [bodyOf] at hmax
    by_cases hb0 : b = []
    · subst hb0
      simp [hcl, htr, expectedSeen, hb', encBodyO, bodyOf]
    · have hpos : (0 : Int) < (b.length : Int) := by
        have : b.length ≠ 0 := fun h0 => hb0 (List.length_eq_zero_iff.mp h0)
        omega
      have hnot : ¬ (cfg.maxBody > 0 ∧ b.length > cfg.maxBody) := by omega
      have hpp : (cfg.preParse && mIMEFormData.isPrefixOf (pick .ct (seenW r).fields [])) = false := by
        rcases hpre with h1 | h1 <;> simp [h1]
      have hbe : b.isEmpty = false := by simpa using hb0
      simp only [hcl, hpos, if_true, Int.toNat_natCast, hnot, if_false, hct, hpp, Bool.false_eq_true, takeN,
        encBodyO, List.length_append, htr, expectedSeen, hb', bodyOf, hbe]
      simp
  | chunked cs last trs =>
    have hb' : (seenW r).body = .chunked cs last (trs.map hField) := by rw [hsb, hb]; rfl
    have hcl : (expectedHead cfg.disableNorm (seenW r)).cl = -1 := by simp [expectedHead, hb', framingCl]
    rw [hb'] at hfr hmax
    rw [hb] at htw
    simp only [OBody.trailers] at htw
    simp only [wfFramingL, Bool.and_eq_true, List.all_eq_true, beq_iff_eq, decide_eq_true_eq] at hfr
    obtain ⟨⟨⟨⟨_, hcs⟩, hl15⟩, hl0⟩, hnames⟩ := hfr
    simp only [bodyOf] at hmax
    have hrd := readBodyChunked_enc e cfg.maxBody last (encFLines trs ++ 13 :: 10 :: rest) hl0 hl15 cs []
      ((encBodyO (.chunked cs last trs) ++ rest).length + 1) (by
        have := encChunks_length_ge cs
        simp [encBodyO]; omega) hcs (by simpa using hmax)
    have e1 : encBodyO (.chunked cs last trs) ++ rest =
        encChunks cs ++ (last ++ 13 :: 10 :: (encFLines trs ++ 13 :: 10 :: rest)) := by
      simp [encBodyO]
    have hnb := pickT_notbad cfg.disableNorm (seenW r).fields [] hdecl (by simp)
    have hnames' : trs.map (fun f => normalizeKey cfg.disableNorm f.name) = pickT cfg.disableNorm (seenW r).fields [] := by
      rw [← hnames]; simp [hField]
    have htrl := readTrailerReq_encO cfg e trs rest (fun f hf => ⟨htw f hf, hnb _ (by
      rw [← hnames']; exact List.mem_map_of_mem (f := fun f => normalizeKey cfg.disableNorm f.name) hf)⟩)
    unfold continueReadBody
    simp only [hcl]
    rw [e1] at hrd ⊢
    simp only [show ¬ ((-1 : Int) > 0) by decide, if_false, show ¬ ((-1 : Int) = -2) by decide, if_true, hrd,
      List.nil_append, htr, ← hnames', htrl]
    simp [expectedSeen, hb', bodyOf]

/-! ### stage 3: the keep-alive loop -/

theorem serveLoop_stepO (cfg : Cfg) (e : End) (r : OReq) (h : wfOReq cfg.disableNorm r = true)
    (hlim : withinLimits cfg (seenW r) = true) (fuel : Nat) (first : Bool) (rest : Bytes) :
    serveLoop cfg e (fuel + 1) first (encReqO r ++ rest) =
      (if mayContinue (expectedHead cfg.disableNorm (seenW r)) then [Ev.continue100] else []) ++
      [.req (expectedSeen cfg.disableNorm (seenW r)), .resp 200 (cfg.disableKeepalive || closes (seenW r))] ++
      (if (cfg.disableKeepalive || closes (seenW r)) = true then [] else serveLoop cfg e fuel false rest) := by
  have hlen : ¬ ((encReqO r ++ rest).length < 4) := by
    have := encHeadOfO_length r
    simp [encReqO]; omega
  have e1 : encReqO r ++ rest = encHeadOfO r ++ (encBodyO r.body ++ rest) := by simp [encReqO]
  have hdrop : List.drop (encHeadOfO r).length (encHeadOfO r ++ (encBodyO r.body ++ rest)) = encBodyO r.body ++ rest :=
    List.drop_left' rfl
  generalize hT : serveLoop cfg e fuel false rest = T
  have hstep : ∀ s, serveLoop cfg e (fuel + 1) first s =
      (if (!first && decide (s.length < 4)) = true then [] else
        match parseReqHead cfg.disableNorm s with
        | .error .bad => [.resp 400 true]
        | .error .needMore =>
          if s.isEmpty then (match e with | .eof => [] | .stall => [.resp 408 true])
          else (match e with | .eof => [.resp 400 true] | .stall => [.resp 408 true])
        | .ok (hd, n) =>
          match continueReadBody cfg e hd (s.drop n) with
          | .err .unmodelled => (if mayContinue hd then [Ev.continue100] else []) ++ [.unmodelled]
          | .err x =>
            (if mayContinue hd then [Ev.continue100] else []) ++
              (match errStatus x with
               | some st => [.resp st true]
               | none => if mayContinue hd then [.resp 400 true] else [])
          | .ok hd' body tr rest' =>
            (if mayContinue hd then [Ev.continue100] else []) ++
              [.req { head := hd', body := body, trailers := tr }, .resp 200 (cfg.disableKeepalive || hd'.connClose)] ++
              (if (cfg.disableKeepalive || hd'.connClose) = true then [] else serveLoop cfg e fuel false rest')) := by
    intro s; rfl
  rw [hstep]
  simp only [hlen, Bool.and_false, Bool.false_eq_true, if_false, decide_false]
  rw [e1, parseReqHead_encO cfg.disableNorm r h]
  simp only [hdrop, continueReadBody_encO cfg e r h hlim rest, expectedSeen_connClose]
  rw [hT]

theorem encReqO_length_pos (r : OReq) : 0 < (encReqO r).length := by
  have := encHeadOfO_length r
  simp [encReqO]; omega

theorem encAllO_length_ge : ∀ rs : List OReq, rs.length ≤ (encAllO rs).length
  | [] => by simp
  | r :: t => by
    have := encAllO_length_ge t
    have := encReqO_length_pos r
    simp [encAllO]; omega

theorem serveLoop_encO (cfg : Cfg) (e : End) : ∀ (rs : List OReq) (fuel : Nat) (first : Bool), rs.length < fuel →
    (∀ r ∈ rs, wfOReq cfg.disableNorm r = true ∧ withinLimits cfg (seenW r) = true) →
    handled (serveLoop cfg e fuel first (encAllO rs)) =
      (served cfg.disableKeepalive (rs.map seenW)).map (expectedSeen cfg.disableNorm)
  | [], fuel, first, hf, _ => by
    obtain ⟨f, rfl⟩ : ∃ f, fuel = f + 1 := ⟨fuel - 1, by omega⟩
    have hp : parseReqHead cfg.disableNorm [] = .error .needMore := by
      simp [parseReqHead, parseFirstLine, parseFirstLineAux, nextLine, indexByte, bind, Except.bind]
    cases first <;> cases e <;> simp [serveLoop, encAllO, served, handled, hp]
  | r :: rs, fuel, first, hf, hw => by
    obtain ⟨f, rfl⟩ : ∃ f, fuel = f + 1 := ⟨fuel - 1, by omega⟩
    obtain ⟨hwf, hlim⟩ := hw r (by simp)
    have ih := serveLoop_encO cfg e rs f false (by simp at hf; omega) (fun x hx => hw x (by simp [hx]))
    have e1 : encAllO (r :: rs) = encReqO r ++ encAllO rs := rfl
    rw [e1, serveLoop_stepO cfg e r hwf hlim]
    unfold handled at ih ⊢
    simp only [List.filterMap_append]
    have hp := handled_pre (mayContinue (expectedHead cfg.disableNorm (seenW r)))
    unfold handled at hp
    rw [hp]
    cases hc : (cfg.disableKeepalive || closes (seenW r))
    · simp [served, hc, ih]
    · simp [served, hc]

theorem serve_encO (cfg : Cfg) (e : End) (rs : List OReq)
    (hw : ∀ r ∈ rs, wfOReq cfg.disableNorm r = true ∧ withinLimits cfg (seenW r) = true) :
    handled (serve cfg e (encAllO rs)) = (served cfg.disableKeepalive (rs.map seenW)).map (expectedSeen cfg.disableNorm) :=
  serveLoop_encO cfg e rs _ true (by have := encAllO_length_ge rs; omega) hw

/-! ### the strict decoder reads the spelled requests -/

def nLines : List FLine → Nat
  | [] => 0
  | f :: t => (f.conts.length + 1) + nLines t

theorem encConts_length_ge : ∀ cs : List Bytes, cs.length ≤ (encConts cs).length
  | [] => by simp [encConts]
  | c :: t => by
    have := encConts_length_ge t
    simp [encConts]; omega

theorem nLines_le : ∀ fs : List FLine, nLines fs ≤ (encFLines fs).length
  | [] => by simp [nLines]
  | f :: fs => by
    have := nLines_le fs
    have := encConts_length_ge f.conts
    simp [nLines, encFLines, encFLine]; omega

theorem fieldsAux_encO : ∀ (fs : List FLine) (acc : List (Bytes × Bytes)) (rest : Bytes) (fuel : Nat), nLines fs < fuel →
    (∀ f ∈ fs, wfFLine f = true) →
    fieldsAux fuel (encFLines fs ++ 13 :: 10 :: rest) acc = some (acc.reverse ++ fs.map sField, rest)
  | [], acc, rest, fuel, hf, _ => by
    obtain ⟨f, rfl⟩ : ∃ f, fuel = f + 1 := ⟨fuel - 1, by omega⟩
    simp [fieldsAux, encFLines, crlfLine]
  | fl :: fs, acc, rest, fuel, hf, hw => by
    simp only [nLines] at hf
    obtain ⟨f, rfl⟩ : ∃ f, fuel = f + (fl.conts.length + 1) := ⟨fuel - (fl.conts.length + 1), by omega⟩
    have e : encFLines (fl :: fs) ++ 13 :: 10 :: rest = encFLine fl ++ (encFLines fs ++ 13 :: 10 :: rest) := by
      simp [encFLines]
    have ih := fieldsAux_encO fs (sField fl :: acc) rest f (by omega) (fun x hx => hw x (by simp [hx]))
    rw [e, fieldsAux_fline fl _ acc f (hw fl (by simp)), ih]
    simp

theorem hasFoldedColon_encO : ∀ (fs : List FLine) (rest : Bytes),
    (∀ f ∈ fs, wfFLine f = true) → ∀ fuel, hasFoldedColon fuel (encFLines fs ++ 13 :: 10 :: rest) = false
  | [], rest, _ => by
    intro fuel
    cases fuel <;> simp [hasFoldedColon, encFLines, crlfLine]
  | fl :: fs, rest, hw => by
    have e : encFLines (fl :: fs) ++ 13 :: 10 :: rest = encFLine fl ++ (encFLines fs ++ 13 :: 10 :: rest) := by
      simp [encFLines]
    rw [e]
    exact hasFoldedColon_fline fl _ (hw fl (by simp)) (hasFoldedColon_encO fs rest (fun x hx => hw x (by simp [hx])))

theorem lookupAll_same (name : Bytes) (hn : ∀ k, lowerAll k = name → cls k = .cl ∨ cls k = .te) :
    ∀ (fs : List FLine), (∀ f ∈ fs, (cls f.name ≠ .cl ∧ cls f.name ≠ .te) ∨ hval f = sval f) →
    lookupAll (fs.map sField) name = lookupAll (fs.map hField) name
  | [], _ => rfl
  | f :: fs, h => by
    have ih := lookupAll_same name hn fs (fun x hx => h x (by simp [hx]))
    unfold lookupAll at ih ⊢
    simp only [List.map_cons, List.filter_cons, sField, hField]
    by_cases hk : lowerAll f.name = name
    · have hv : hval f = sval f := by
        rcases h f (by simp) with h1 | h1
        · rcases hn f.name hk with h2 | h2
          · exact absurd h2 h1.1
          · exact absurd h2 h1.2
        · exact h1
      simp only [hk, beq_self_eq_true, if_true, List.map_cons, hv]
      congr 1
    · have : (lowerAll f.name == name) = false := by simpa using hk
      simp only [this, Bool.false_eq_true, if_false]
      exact ih

theorem framingSame_facts (r : OReq) (h : framingSame r = true) :
    ∀ f ∈ r.fields, (cls f.name ≠ .cl ∧ cls f.name ≠ .te) ∨ hval f = sval f := by
  simp only [framingSame, List.all_eq_true, Bool.or_eq_true, Bool.and_eq_true, bne_iff_ne, ne_eq, beq_iff_eq] at h
  exact h

/-- The strict decoder reads one request with spelled fields back (values `sval`), and leaves what follows. -/
theorem decodeOne_encO {dn : Bool} (r : OReq) (h : wfOReq dn r = true) (rest : Bytes) :
    decodeOne (encReqO r ++ rest) = some (toSpec (strictW r), rest) := by
  obtain ⟨hm, ht, hf, htw, _, hfr, hsame⟩ := wfOReq_facts r h
  obtain ⟨_, hmf⟩ := token_facts r.method hm
  obtain ⟨_, htf⟩ := target_facts r.target ht
  have e : encReqO r ++ rest = (r.method ++ 32 :: (r.target ++ 32 :: strHTTP11)) ++ 13 :: 10 ::
      (encFLines r.fields ++ 13 :: 10 :: (encBodyO r.body ++ rest)) := by
    simp [encReqO, encHeadOfO, encHeadO]
  have hs1 := splitAt1_enc 32 r.method (r.target ++ 32 :: strHTTP11) (fun x hx => (hmf x hx).ne32)
  have hs2 := splitAt1_enc 32 r.target strHTTP11 (fun x hx => (htf x hx).2)
  have hfc := hasFoldedColon_encO r.fields (encBodyO r.body ++ rest) hf
    ((encFLines r.fields ++ 13 :: 10 :: (encBodyO r.body ++ rest)).length + 1)
  have hfa := fieldsAux_encO r.fields [] (encBodyO r.body ++ rest)
    ((encFLines r.fields ++ 13 :: 10 :: (encBodyO r.body ++ rest)).length + 1) (by
      have := nLines_le r.fields; simp; omega) hf
  have htgt : (r.target.isEmpty || !r.target.all (fun c => 33 ≤ c && c != 127)) = false := by
    simp only [wfTarget, Bool.and_eq_true, Bool.not_eq_true'] at ht
    simp [ht.1, ht.2]
  have hver : (strHTTP11 != sHTTP11) = false := by decide
  have hsf := framingSame_facts r hsame
  have hlcl := lookupAll_same sContentLength (fun k hk => Or.inl ((cls_cl_iff k).mpr hk)) r.fields hsf
  have hlte := lookupAll_same sTransferEncoding (fun k hk => Or.inr ((cls_te_iff k).mpr hk)) r.fields hsf
  unfold decodeOne
  rw [e]
  simp only [crlfLine_enc _ _ (request_line_clean r.method r.target hm ht), hs1, hs2, hfc, hfa, hm, htgt, hver,
    Option.bind_eq_bind, Option.bind_some, Bool.not_true, Bool.or_false, Bool.false_eq_true, if_false,
    Option.pure_def, List.reverse_nil, List.nil_append, Bool.false_or, hlcl, hlte]
  have hsfields : (seenW r).fields = r.fields.map hField := rfl
  rw [hsfields] at hfr
  generalize hH : r.fields.map hField = fsH at hfr
  have hnoTE_of : hasCls .te fsH = false → lookupAll fsH sTransferEncoding = [] := by
    intro hte
    rw [lookupAll_te]; unfold teFields; rw [filter_nil_of_hasCls _ _ hte]; rfl
  have hnoCL_of : hasCls .cl fsH = false → lookupAll fsH sContentLength = [] := by
    intro hcl
    rw [lookupAll_cl, filter_nil_of_hasCls _ _ hcl]; rfl
  have hsb : (seenW r).body = r.body.toW hField := rfl
  have hstf : (strictW r).fields = r.fields.map sField := rfl
  have hstb : (strictW r).body = r.body.toW sField := rfl
  cases hb : r.body with
  | none =>
    rw [hsb, hb] at hfr
    simp only [OBody.toW, wfFramingL, Bool.and_eq_true, Bool.not_eq_true'] at hfr
    rw [hnoCL_of hfr.1, hnoTE_of hfr.2]
    simp [toSpec, hstf, hstb, hb, OBody.toW, bodyOf, encBodyO, strictW, OReq.toW]
  | fixed b =>
    rw [hsb, hb] at hfr
    simp only [OBody.toW, wfFramingL, Bool.and_eq_true, Bool.not_eq_true', List.all_eq_true, Bool.or_eq_true, bne_iff_ne,
      ne_eq, beq_iff_eq, decide_eq_true_eq] at hfr
    obtain ⟨⟨⟨⟨hte, hcl⟩, hall⟩, hdec⟩, hlt⟩ := hfr
    obtain ⟨more, hshape, hmore⟩ := all_same_shape (lookupAll fsH sContentLength) (pick .cl fsH [])
      (by
        rw [lookupAll_cl]
        intro h0
        have : hasCls .cl fsH = false := by
          rw [hasCls_false_iff]
          intro kv hkv hc
          have hmem : kv ∈ fsH.filter (fun kv => cls kv.1 == .cl) := by
            simp [List.mem_filter, hkv, hc]
          have : kv.2 ∈ (fsH.filter (fun kv => cls kv.1 == .cl)).map (·.2) := List.mem_map_of_mem hmem
          rw [h0] at this; cases this
        rw [this] at hcl; cases hcl)
      (by
        rw [lookupAll_cl]
        intro x hx
        simp only [List.mem_map, List.mem_filter] at hx
        obtain ⟨kv, ⟨hkv, hc⟩, rfl⟩ := hx
        rcases hall kv hkv with h1 | h1
        · simp [cls_beq] at hc; exact absurd hc h1
        · exact h1)
    rw [hshape, hnoTE_of hte]
    have hlen : ¬ ((encBodyO (.fixed b) ++ rest).length < b.length) := by
      show ¬ ((b ++ rest).length < b.length)
      simp
    have htk : List.take b.length (encBodyO (.fixed b) ++ rest) = b := List.take_left' rfl
    have hdr : List.drop b.length (encBodyO (.fixed b) ++ rest) = rest := List.drop_left' rfl
    have hlen' : b.length ≤ (encBodyO (.fixed b)).length + rest.length := by
      show b.length ≤ b.length + rest.length
      omega
    simp [hmore, hdec, hlen', htk, hdr, toSpec, strictW, OReq.toW, hb, OBody.toW, bodyOf]
  | chunked cs last trs =>
    rw [hsb, hb] at hfr
    rw [hb] at htw
    simp only [OBody.trailers] at htw
    simp only [OBody.toW, wfFramingL, Bool.and_eq_true, Bool.not_eq_true', List.all_eq_true, beq_iff_eq, decide_eq_true_eq] at hfr
    obtain ⟨⟨⟨⟨⟨⟨hcl, hlen⟩, hval⟩, hcs⟩, hl15⟩, hl0⟩, _⟩ := hfr
    obtain ⟨te, hte1⟩ : ∃ te, teFields fsH = [te] := by
      match hm : teFields fsH, hlen with
      | [te], _ => exact ⟨te, rfl⟩
    have hteval := hval te (by rw [hte1]; simp)
    rw [hnoCL_of hcl, lookupAll_te, hte1]
    have hch := chunksAux_enc last (encFLines trs ++ 13 :: 10 :: rest) hl0 hl15 cs []
      ((encBodyO (.chunked cs last trs) ++ rest).length + 1) (by
        have := encChunks_length_ge cs
        simp [encBodyO]; omega) hcs
    have e1 : encBodyO (.chunked cs last trs) ++ rest =
        encChunks cs ++ (last ++ 13 :: 10 :: (encFLines trs ++ 13 :: 10 :: rest)) := by
      simp [encBodyO]
    have htf := fieldsAux_encO trs [] rest ((encFLines trs ++ 13 :: 10 :: rest).length + 1) (by
      have := nLines_le trs
      simp only [List.length_append]; omega) htw
    rw [e1] at hch ⊢
    have hne : (lowerAll te.2 != sChunked) = false := by simp [hteval]
    simp only [List.map_cons, List.map_nil, hne, Bool.false_eq_true, if_false, hch, Option.bind_some, htf]
    simp [toSpec, strictW, OReq.toW, hb, OBody.toW, bodyOf]

theorem decodeAllAux_encO {dn : Bool} : ∀ (rs : List OReq) (acc : List Req) (fuel : Nat), rs.length < fuel →
    (∀ r ∈ rs, wfOReq dn r = true) →
    decodeAllAux fuel (encAllO rs) acc = some (acc.reverse ++ rs.map (fun r => toSpec (strictW r)))
  | [], acc, fuel, hf, _ => by
    obtain ⟨f, rfl⟩ : ∃ f, fuel = f + 1 := ⟨fuel - 1, by omega⟩
    simp [decodeAllAux, encAllO]
  | r :: rs, acc, fuel, hf, hw => by
    obtain ⟨f, rfl⟩ : ∃ f, fuel = f + 1 := ⟨fuel - 1, by omega⟩
    have hne : (encAllO (r :: rs)).isEmpty = false := by
      have := encReqO_length_pos r
      cases hE : encAllO (r :: rs) with
      | nil => simp [encAllO] at hE; rw [hE.1] at this; simp at this
      | cons _ _ => rfl
    have ih := decodeAllAux_encO rs (toSpec (strictW r) :: acc) f (by simp at hf; omega) (fun x hx => hw x (by simp [hx]))
    simp only [decodeAllAux, hne, Bool.false_eq_true, if_false]
    show (match decodeOne (encReqO r ++ encAllO rs) with
      | none => none
      | some (r', rest) => decodeAllAux f rest (r' :: acc)) = _
    rw [decodeOne_encO r (hw r (by simp))]
    simp [ih]

/-- The strict decoder reads an encoded list of well-formed requests with spelled fields back as `strictW`. -/
theorem decodeAll_encO {dn : Bool} (rs : List OReq) (hw : ∀ r ∈ rs, wfOReq dn r = true) :
    decodeAll (encAllO rs) = some (rs.map (fun r => toSpec (strictW r))) := by
  unfold decodeAll
  rw [decodeAllAux_encO rs [] _ (by have := encAllO_length_ge rs; omega) hw]
  simp

/-! ### the two readings agree modulo the value canonicalisation -/

def canonBody : WBody → WBody
  | .none => .none
  | .fixed b => .fixed b
  | .chunked cs l trs => .chunked cs l (trs.map (fun kv => (kv.1, canon kv.2)))

/-- every field value (header and trailer section) canonicalised: whitespace runs collapsed, ends trimmed -/
def canonW (r : WReq) : WReq :=
  { r with fields := r.fields.map (fun kv => (kv.1, canon kv.2)), body := canonBody r.body }

theorem canon_fields (fs : List FLine) (h : ∀ f ∈ fs, wfFLine f = true) :
    (fs.map hField).map (fun kv => (kv.1, canon kv.2)) = (fs.map sField).map (fun kv => (kv.1, canon kv.2)) := by
  simp only [List.map_map]
  apply List.map_congr_left
  intro f hf
  simp [hField, sField, canon_hval_sval f (h f hf)]

/-- What the handler is handed and what the strict decoder reads are the same request up to whitespace inside
field values: same method, target, names, body, chunks; values equal under `canon`. -/
theorem canonW_seen_strict {dn : Bool} (r : OReq) (h : wfOReq dn r = true) : canonW (seenW r) = canonW (strictW r) := by
  obtain ⟨_, _, hf, htw, _, _, _⟩ := wfOReq_facts r h
  unfold canonW seenW strictW OReq.toW
  simp only [canon_fields r.fields hf]
  congr 1
  cases hb : r.body with
  | none => rfl
  | fixed b => rfl
  | chunked cs l trs =>
    rw [hb] at htw
    simp only [OBody.trailers] at htw
    simp only [OBody.toW, canonBody, canon_fields trs htw]

/-- the canonical spelling `name ": " value CRLF` of `Proofs/ReqRoundtrip.lean` is one of the spellings -/
theorem encFLine_canonical (k v : Bytes) : encFLine { name := k, raw := 32 :: v, conts := [] } = encField (k, v) := by
  simp [encFLine, encField, encConts]

/-- optional whitespace only (no obs-fold): handler and strict decoder both get the text with SP / HTAB stripped at
both ends (after `/repo` 4c60fb1; before, the handler's value was `stripSpace raw`, SPs only) -/
theorem hval_sval_ows (k raw : Bytes) :
    hval { name := k, raw := raw, conts := [] } = trimOWS raw ∧
    sval { name := k, raw := raw, conts := [] } = trimOWS raw := ⟨hval_nofold k raw, sval_nofold k raw⟩

/-! ### which requests are served: the handler's reading decides -/

/-- the requests to be served when `c` says which request asks to close -/
def servedBy (dk : Bool) (c : OReq → Bool) : List OReq → List OReq
  | [] => []
  | r :: t => if dk || c r then [r] else r :: servedBy dk c t

theorem served_map (dk : Bool) (g : OReq → WReq) : ∀ rs : List OReq,
    served dk (rs.map g) = (servedBy dk (fun r => closes (g r)) rs).map g
  | [] => rfl
  | r :: t => by
    simp only [List.map_cons, served, servedBy]
    split
    · rfl
    · rw [served_map dk g t]; rfl

theorem servedBy_congr (dk : Bool) (c1 c2 : OReq → Bool) : ∀ rs : List OReq, (∀ r ∈ rs, c1 r = c2 r) →
    servedBy dk c1 rs = servedBy dk c2 rs
  | [], _ => rfl
  | r :: t, h => by
    simp only [servedBy, h r (by simp), servedBy_congr dk c1 c2 t (fun x hx => h x (by simp [hx]))]

/-- method, target and body of what the handler is handed are what the strict decoder assigns, request by request,
provided handler and strict decoder agree on which requests say `Connection: close` -/
theorem serve_own_strict (cfg : Cfg) (e : End) (rs : List OReq)
    (hw : ∀ r ∈ rs, wfOReq cfg.disableNorm r = true ∧ withinLimits cfg (seenW r) = true)
    (hclose : ∀ r ∈ rs, closes (seenW r) = closes (strictW r)) :
    (handled (serve cfg e (encAllO rs))).map (fun s => (s.head.method, s.head.uri, s.body)) =
      ((served cfg.disableKeepalive (rs.map strictW)).map toSpec).map (fun q => (q.method, q.target, q.body)) := by
  rw [serve_encO cfg e rs hw, served_map, served_map,
    servedBy_congr _ _ _ rs hclose]
  simp only [List.map_map]
  apply List.map_congr_left
  intro r _
  obtain ⟨h1, h2, h3⟩ := expectedSeen_own cfg.disableNorm (seenW r)
  simp only [Function.comp, h1, h2, h3, toSpec]
  refine Prod.ext rfl (Prod.ext rfl ?_)
  exact (bodyOf_toW sField r.body).symm

/-- a value that is `close` in some letter case contains no blank -/
theorem ciEq_close_nb (v : Bytes) (h : ciEq v strClose = true) : ∀ c ∈ v, c ≠ 32 ∧ c ≠ 9 := by
  rw [ciEq_iff] at h
  intro c hc
  have hm : lowerSpec c ∈ v.map lowerSpec := List.mem_map_of_mem hc
  rw [h] at hm
  constructor <;> (rintro rfl; revert hm; decide +kernel)

theorem pickClose_seen_strict : ∀ (fs : List FLine) (d1 d2 : Bool), (∀ f ∈ fs, wfFLine f = true) → (d1 = true → d2 = true) →
    pickClose (fs.map hField) d1 = true → pickClose (fs.map sField) d2 = true
  | [], _, _, _, hd, h => hd h
  | f :: t, d1, d2, hw, hd, h => by
    simp only [List.map_cons, pickClose, hField, sField] at h ⊢
    apply pickClose_seen_strict t _ _ (fun x hx => hw x (by simp [hx])) _ h
    by_cases hc : cls f.name = .conn
    · simp only [hc, if_true]
      intro hv
      have := sval_eq_hval_of_nb f (hw f (by simp)) (ciEq_close_nb _ hv)
      rw [this]; exact hv
    · simpa [hc] using hd

/-- The server closes after a request only if the strict reading says `Connection: close` too (the converse fails:
`Connection:<HTAB>close`). -/
theorem closes_seen_strict {dn : Bool} (r : OReq) (h : wfOReq dn r = true) (hc : closes (seenW r) = true) :
    closes (strictW r) = true := by
  obtain ⟨_, _, hf, _⟩ := wfOReq_facts r h
  exact pickClose_seen_strict r.fields false false hf id hc

/-! ### requests without obs-fold: the handler is handed exactly the strict decoder's reading -/

def noFold (r : OReq) : Bool := r.fields.all (fun f => f.conts.isEmpty) && r.body.trailers.all (fun f => f.conts.isEmpty)

theorem map_hField_eq_sField (fs : List FLine) (h : ∀ f ∈ fs, f.conts = []) : fs.map hField = fs.map sField := by
  apply List.map_congr_left
  intro f hf
  simp [hField, sField, hval_eq_sval_nofold f (h f hf)]

theorem seenW_eq_strictW_of_noFold (r : OReq) (h : noFold r = true) : seenW r = strictW r := by
  simp only [noFold, Bool.and_eq_true, List.all_eq_true, List.isEmpty_iff] at h
  unfold seenW strictW OReq.toW
  rw [map_hField_eq_sField r.fields h.1]
  congr 1
  cases hb : r.body with
  | none => rfl
  | fixed b => rfl
  | chunked cs l trs =>
    have := h.2
    rw [hb] at this
    simp only [OBody.toW, map_hField_eq_sField trs this]

/-- `wfOReq` with the framing / `Trailer` conditions stated on the OWS-trimmed values (the strict decoder's reading) -/
def wfOReqS (dn : Bool) (r : OReq) : Bool :=
  isToken r.method && wfTarget r.target && r.fields.all wfFLine && r.body.trailers.all wfFLine &&
  (strictW r).fields.all (fun kv => cls kv.1 != .trailer || declOk dn kv.2) &&
  wfFramingL dn (strictW r).fields (strictW r).body

theorem wfOReq_eq_wfOReqS (dn : Bool) (r : OReq) (h : noFold r = true) : wfOReq dn r = wfOReqS dn r := by
  unfold wfOReq wfOReqS
  rw [seenW_eq_strictW_of_noFold r h]

theorem serve_encO_noFold (cfg : Cfg) (e : End) (rs : List OReq)
    (hw : ∀ r ∈ rs, noFold r = true ∧ wfOReqS cfg.disableNorm r = true ∧ withinLimits cfg (strictW r) = true) :
    handled (serve cfg e (encAllO rs)) = (served cfg.disableKeepalive (rs.map strictW)).map (expectedSeen cfg.disableNorm) ∧
    decodeAll (encAllO rs) = some (rs.map (fun r => toSpec (strictW r))) := by
  have hw' : ∀ r ∈ rs, wfOReq cfg.disableNorm r = true ∧ withinLimits cfg (seenW r) = true := by
    intro r hr
    obtain ⟨h1, h2, h3⟩ := hw r hr
    rw [wfOReq_eq_wfOReqS _ r h1, seenW_eq_strictW_of_noFold r h1]
    exact ⟨h2, h3⟩
  have hmap : rs.map seenW = rs.map strictW :=
    List.map_congr_left (fun r hr => seenW_eq_strictW_of_noFold r (hw r hr).1)
  refine ⟨?_, decodeAll_encO rs (fun r hr => (hw' r hr).1)⟩
  rw [serve_encO cfg e rs hw', hmap]

/-! ### which requests close: both readings agree -/

theorem pickClose_strict_seen : ∀ (fs : List FLine) (d : Bool), (∀ f ∈ fs, wfFLine f = true) →
    pickClose (fs.map hField) d = pickClose (fs.map sField) d
  | [], _, _ => rfl
  | f :: t, d, hw => by
    simp only [List.map_cons, pickClose, hField, sField]
    have hf := hw f (by simp)
    have hb : ciEq (hval f) strClose = ciEq (sval f) strClose := by
      by_cases h1 : ciEq (hval f) strClose = true
      · have := sval_eq_hval_of_nb f hf (ciEq_close_nb _ h1)
        rw [this]
      · by_cases h2 : ciEq (sval f) strClose = true
        · have := hval_eq_sval_of_nb f hf (ciEq_close_nb _ h2)
          rw [this] at h1
          exact absurd h2 h1
        · rw [Bool.not_eq_true] at h1 h2
          rw [h1, h2]
    rw [hb]
    exact pickClose_strict_seen t _ (fun x hx => hw x (by simp [hx]))

theorem closes_seen_eq_strict {dn : Bool} (r : OReq) (h : wfOReq dn r = true) : closes (seenW r) = closes (strictW r) := by
  obtain ⟨_, _, hf, _⟩ := wfOReq_facts r h
  exact pickClose_strict_seen r.fields false hf

/-- method, target and body of what the handler is handed are what the strict decoder assigns, request by request -/
theorem serve_own_strict' (cfg : Cfg) (e : End) (rs : List OReq)
    (hw : ∀ r ∈ rs, wfOReq cfg.disableNorm r = true ∧ withinLimits cfg (seenW r) = true) :
    (handled (serve cfg e (encAllO rs))).map (fun s => (s.head.method, s.head.uri, s.body)) =
      ((served cfg.disableKeepalive (rs.map strictW)).map toSpec).map (fun q => (q.method, q.target, q.body)) :=
  serve_own_strict cfg e rs hw (fun r hr => closes_seen_eq_strict r (hw r hr).1)

/-- … and the same requests are served in both readings -/
theorem served_seen_strict (dk : Bool) {dn : Bool} (rs : List OReq) (hw : ∀ r ∈ rs, wfOReq dn r = true) :
    served dk (rs.map seenW) = (servedBy dk (fun r => closes (strictW r)) rs).map seenW := by
  rw [served_map, servedBy_congr _ _ _ rs (fun r hr => closes_seen_eq_strict r (hw r hr))]

end Hertz.H1.RT
