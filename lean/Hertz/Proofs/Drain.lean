import Hertz.Model.Http1.Drain
namespace Hertz.H1.Drain
open Hertz

theorem fill_some : ∀ (segs : List Bytes) (s : Bytes) (t : List Bytes), fill segs = some (s, t) →
    s ≠ [] ∧ s ++ t.flatten = segs.flatten
  | [], _, _, h => by simp [fill] at h
  | x :: xs, s, t, h => by
    unfold fill at h
    by_cases hx : x.isEmpty = true
    · simp only [hx, if_true] at h
      have := fill_some xs s t h
      have hx' : x = [] := by simpa using hx
      simp [hx', this.1, this.2]
    · simp only [hx, if_false, Option.some.injEq, Prod.mk.injEq, Bool.false_eq_true] at h
      obtain ⟨rfl, rfl⟩ := h
      refine ⟨?_, by simp⟩
      intro e; simp [e] at hx

theorem fill_none : ∀ (segs : List Bytes), fill segs = none → segs.flatten = []
  | [], _ => rfl
  | x :: xs, h => by
    unfold fill at h
    by_cases hx : x.isEmpty = true
    · simp only [hx, if_true] at h
      have hx' : x = [] := by simpa using hx
      simp [hx', fill_none xs h]
    · simp [hx] at h

/-- for EVERY way the bytes arrive: `left` bytes are skipped exactly, or the peer is gone before they came -/
theorem skipLeft_spec : ∀ (fuel : Nat) (rd : Rd) (left : Nat), left ≤ fuel →
    (left ≤ rd.all.length → ∃ rd', skipLeft fuel rd left = some rd' ∧ rd'.all = rd.all.drop left) ∧
    (rd.all.length < left → skipLeft fuel rd left = none)
  | fuel, rd, 0, _ => by
    refine ⟨fun _ => ⟨rd, ?_, by simp⟩, fun h => by omega⟩
    cases fuel <;> rfl
  | 0, _, _ + 1, h => by omega
  | fuel + 1, rd, left + 1, hf => by
    unfold skipLeft
    by_cases hb : rd.buf.isEmpty = true
    · have hb' : rd.buf = [] := by simpa using hb
      simp only [hb, if_true]
      cases hfl : fill rd.segs with
      | none =>
        have := fill_none rd.segs hfl
        refine ⟨fun h => ?_, fun _ => rfl⟩
        simp [Rd.all, hb', this] at h
      | some p =>
        obtain ⟨s, t⟩ := p
        obtain ⟨hs, hst⟩ := fill_some rd.segs s t hfl
        have hall : rd.all = s ++ t.flatten := by simp [Rd.all, hb', hst]
        have hpos : 0 < s.length := List.length_pos_iff.mpr hs
        simp only
        have ih := skipLeft_spec fuel ⟨s.drop (min s.length (left + 1)), t⟩ (left + 1 - min s.length (left + 1)) (by omega)
        have hall' : (⟨s.drop (min s.length (left + 1)), t⟩ : Rd).all = rd.all.drop (min s.length (left + 1)) := by
          rw [hall]; simp only [Rd.all]
          rw [List.drop_append_of_le_length (by omega)]
        have hlen : (⟨s.drop (min s.length (left + 1)), t⟩ : Rd).all.length = rd.all.length - min s.length (left + 1) := by
          rw [hall']; simp
        have hle : min s.length (left + 1) ≤ rd.all.length := by rw [hall]; simp; omega
        refine ⟨fun h => ?_, fun h => ?_⟩
        · obtain ⟨rd', h1, h2⟩ := ih.1 (by rw [hlen]; omega)
          refine ⟨rd', h1, ?_⟩
          rw [h2, hall', List.drop_drop]
          congr 1; omega
        · exact ih.2 (by rw [hlen]; omega)
    · have hb' : rd.buf ≠ [] := by intro e; simp [e] at hb
      simp only [hb, if_false, Bool.false_eq_true]
      have hpos : 0 < rd.buf.length := List.length_pos_iff.mpr hb'
      have ih := skipLeft_spec fuel ⟨rd.buf.drop (min rd.buf.length (left + 1)), rd.segs⟩ (left + 1 - min rd.buf.length (left + 1)) (by omega)
      have hall' : (⟨rd.buf.drop (min rd.buf.length (left + 1)), rd.segs⟩ : Rd).all = rd.all.drop (min rd.buf.length (left + 1)) := by
        simp only [Rd.all]
        rw [List.drop_append_of_le_length (by omega)]
      have hlen : (⟨rd.buf.drop (min rd.buf.length (left + 1)), rd.segs⟩ : Rd).all.length = rd.all.length - min rd.buf.length (left + 1) := by
        rw [hall']; simp
      have hle : min rd.buf.length (left + 1) ≤ rd.all.length := by simp [Rd.all]; omega
      refine ⟨fun h => ?_, fun h => ?_⟩
      · obtain ⟨rd', h1, h2⟩ := ih.1 (by rw [hlen]; omega)
        refine ⟨rd', h1, ?_⟩
        rw [h2, hall', List.drop_drop]
        congr 1; omega
      · exact ih.2 (by rw [hlen]; omega)

end Hertz.H1.Drain
