import Hertz.Proofs.RespRoundtrip
import Hertz.Model.Http1.RespStream
/-!
Interim responses in front of the final one (`resp.ReadHeaders`: `if StatusCode() == 100 { ReadHeader again }`).
-/
namespace Hertz.H1.RT
open Hertz Hertz.H1 Hertz.H1.RespRead Hertz.Gen.Str

/-- ONE pass of `resp.ReadHeader` on a head produced by a writer: any status, `100` included -/
theorem readHeader_written (dn : Bool) (e : End) (st : Nat) (reason : Bytes) (fs : List (Bytes × Bytes)) (X : Bytes)
    (hst : st < 2 ^ 63) (hr : ∀ x ∈ reason, x ≠ 13 ∧ x ≠ 10) (h : wfFields dn fs = true)
    (herr : (scanned dn st fs).err = false) :
    RespRead.readHeader dn e (statusLine st reason ++ strCRLF ++ HW.block fs ++ X) =
      .ok (finishHead (scanned dn st fs).head, X) := by
  have e1 : statusLine st reason ++ strCRLF ++ HW.block fs ++ X =
      statusLine st reason ++ 13 :: 10 :: (HW.block fs ++ X) := by simp [HW.strCRLF_eq]
  unfold RespRead.readHeader RespRead.parseRespHead
  rw [e1, parseFirstLine_status st reason _ hst hr]
  simp only [bind, Except.bind]
  have hd : List.drop ((statusLine st reason).length + 2) (statusLine st reason ++ 13 :: 10 :: (HW.block fs ++ X)) = HW.block fs ++ X := by
    have : statusLine st reason ++ 13 :: 10 :: (HW.block fs ++ X) = (statusLine st reason ++ [13, 10]) ++ (HW.block fs ++ X) := by simp
    rw [this]
    have h2 : (statusLine st reason).length + 2 = (statusLine st reason ++ [13, 10]).length := by simp
    rw [h2, List.drop_left]
  rw [hd, parseHeaders_block dn _ fs X h]
  have herr' : (applyAll dn { head := { ({ status := st, http11 := true } : RespHead) with cl := -2 } } fs).err = false := herr
  simp only [herr', Bool.false_eq_true, if_false]
  have hd2 : List.drop ((statusLine st reason).length + 2 + (HW.block fs).length)
      (statusLine st reason ++ 13 :: 10 :: (HW.block fs ++ X)) = X := by
    rw [← List.drop_drop, hd, List.drop_left]
  rw [hd2]; rfl

/-- an interim `100 Continue` head as a server writes it: status line with any reason, any well-formed fields -/
def interim100 (reason : Bytes) (fs : List (Bytes × Bytes)) : Bytes :=
  statusLine 100 reason ++ strCRLF ++ HW.block fs

/-- `ReadHeaders` behind an interim `100`: exactly ONE more `ReadHeader`, on exactly what follows the interim head -/
theorem readHeaders_interim (dn : Bool) (e : End) (reason : Bytes) (fs : List (Bytes × Bytes)) (X : Bytes)
    (hr : ∀ x ∈ reason, x ≠ 13 ∧ x ≠ 10) (h : wfFields dn fs = true) (herr : (scanned dn 100 fs).err = false) :
    RespRead.readHeaders dn e (interim100 reason fs ++ X) = RespRead.readHeader dn e X := by
  unfold RespRead.readHeaders interim100
  rw [readHeader_written dn e 100 reason fs X (by decide) hr h herr]
  have : (finishHead (scanned dn 100 fs).head).status = 100 := by
    rw [finishHead_status, scanned, applyAll_status]
  simp only [this, if_true]

/-- … which is `ReadHeaders` of what follows, when that does not itself start with a `100` head -/
theorem readHeaders_interim_final (dn : Bool) (e : End) (reason : Bytes) (fs : List (Bytes × Bytes)) (X : Bytes)
    (hr : ∀ x ∈ reason, x ≠ 13 ∧ x ≠ 10) (h : wfFields dn fs = true) (herr : (scanned dn 100 fs).err = false)
    (hfin : ∀ hd r, RespRead.readHeader dn e X = .ok (hd, r) → hd.status ≠ 100) :
    RespRead.readHeaders dn e (interim100 reason fs ++ X) = RespRead.readHeaders dn e X := by
  rw [readHeaders_interim dn e reason fs X hr h herr]
  unfold RespRead.readHeaders
  cases hx : RespRead.readHeader dn e X with
  | error x => rfl
  | ok v =>
    obtain ⟨hd, r⟩ := v
    have := hfin hd r hx
    simp only [this, if_false]

end Hertz.H1.RT
