import Hertz.Proofs.RespRoundtrip
import Hertz.Model.Http1.RespStream
/-!
Interim responses in front of the final one (`resp.ReadHeaders`: `for isInterim(StatusCode()) { ReadHeader again }`).
-/
namespace Hertz.H1.RT
open Hertz Hertz.H1 Hertz.H1.RespRead Hertz.Gen.Str

/-- ONE pass of `resp.ReadHeader` on a head produced by a writer: any status, `100` included -/
theorem readHeader_written (dn : Bool) (e : End) (st : Nat) (reason : Bytes) (fs : List (Bytes × Bytes)) (X : Bytes)
    (hst : st < 2 ^ 63) (hr : ∀ x ∈ reason, x ≠ 13 ∧ x ≠ 10) (h : wfFields dn fs = true)
    (herr : (scanned dn st fs).err = false) :
    RespRead.readHeader dn e (statusLine st reason ++ strCRLF ++ HW.block fs ++ X) =
      .ok (finishHead (scanned dn st fs).head, X) := by
  have e1 : statusLine st reason ++ strCRLF ++ HW.block fs ++ X =
      statusLine st reason ++ 13 :: 10 :: (HW.block fs ++ X) := by simp [HW.strCRLF_eq]
  unfold RespRead.readHeader RespRead.parseRespHead
  rw [e1, parseFirstLine_status st reason _ hst hr]
  simp only [bind, Except.bind]
  have hd : List.drop ((statusLine st reason).length + 2) (statusLine st reason ++ 13 :: 10 :: (HW.block fs ++ X)) = HW.block fs ++ X := by
    have : statusLine st reason ++ 13 :: 10 :: (HW.block fs ++ X) = (statusLine st reason ++ [13, 10]) ++ (HW.block fs ++ X) := by simp
    rw [this]
    have h2 : (statusLine st reason).length + 2 = (statusLine st reason ++ [13, 10]).length := by simp
    rw [h2, List.drop_left]
  rw [hd, parseHeaders_block dn _ fs X h]
  have herr' : (applyAll dn { head := { ({ status := st, http11 := true } : RespHead) with cl := -2 } } fs).err = false := herr
  simp only [herr', Bool.false_eq_true, if_false]
  have hd2 : List.drop ((statusLine st reason).length + 2 + (HW.block fs).length)
      (statusLine st reason ++ 13 :: 10 :: (HW.block fs ++ X)) = X := by
    rw [← List.drop_drop, hd, List.drop_left]
  rw [hd2]; rfl

/-- an interim head as a server writes it: status line with any reason, any well-formed fields -/
def interimHead (st : Nat) (reason : Bytes) (fs : List (Bytes × Bytes)) : Bytes :=
  statusLine st reason ++ strCRLF ++ HW.block fs

/-- an interim `100 Continue` head -/
abbrev interim100 (reason : Bytes) (fs : List (Bytes × Bytes)) : Bytes := interimHead 100 reason fs

theorem isInterim_lt {st : Nat} (hi : isInterim st = true) : st < 2 ^ 63 := by
  simp only [isInterim, Bool.or_eq_true, beq_iff_eq] at hi
  rcases hi with (rfl | rfl) | rfl <;> decide

/-- `ReadHeaders` behind an interim head (`100`, `102`, `103`): it goes on with exactly what follows the interim head
(8ec4dd8; before it only ONE `100` was skipped and any other interim head was returned as the final response) -/
theorem readHeaders_interim (dn : Bool) (e : End) (st : Nat) (reason : Bytes) (fs : List (Bytes × Bytes)) (X : Bytes)
    (hi : isInterim st = true)
    (hr : ∀ x ∈ reason, x ≠ 13 ∧ x ≠ 10) (h : wfFields dn fs = true) (herr : (scanned dn st fs).err = false) :
    RespRead.readHeaders dn e (interimHead st reason fs ++ X) = RespRead.readHeaders dn e X := by
  rw [readHeaders_step]
  unfold interimHead
  rw [readHeader_written dn e st reason fs X (isInterim_lt hi) hr h herr]
  have : (finishHead (scanned dn st fs).head).status = st := by
    rw [finishHead_status, scanned, applyAll_status]
  simp only [this, hi, if_true]

/-- an interim head a server can write -/
structure IHead where
  st : Nat
  reason : Bytes
  fs : List (Bytes × Bytes)

def IHead.Wf (dn : Bool) (i : IHead) : Prop :=
  isInterim i.st = true ∧ (∀ x ∈ i.reason, x ≠ 13 ∧ x ≠ 10) ∧ wfFields dn i.fs = true ∧ (scanned dn i.st i.fs).err = false

def IHead.bytes (i : IHead) : Bytes := interimHead i.st i.reason i.fs

/-- ANY NUMBER of interim heads in front: `ReadHeaders` goes on with what follows the last of them -/
theorem readHeaders_interims (dn : Bool) (e : End) : ∀ (is : List IHead) (X : Bytes), (∀ i ∈ is, i.Wf dn) →
    RespRead.readHeaders dn e ((is.map IHead.bytes).flatten ++ X) = RespRead.readHeaders dn e X
  | [], X, _ => by simp
  | i :: is, X, h => by
    obtain ⟨h1, h2, h3, h4⟩ := h i (by simp)
    simp only [List.map_cons, List.flatten_cons, List.append_assoc]
    rw [show i.bytes = interimHead i.st i.reason i.fs from rfl,
      readHeaders_interim dn e i.st i.reason i.fs _ h1 h2 h3 h4]
    exact readHeaders_interims dn e is X (fun j hj => h j (by simp [hj]))

end Hertz.H1.RT
