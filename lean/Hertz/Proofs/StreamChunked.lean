import Hertz.Model.Http1.Stream
import Hertz.Spec.Http
import Hertz.Proofs.SpecHex
import Hertz.Proofs.Http1
/-!
Lemmas for C14 on chunked request bodies: the consumer loop `consumeChunked` and the drain
`drainChunked` of `Model/Http1/Stream.lean` on every well-formed chunked encoding.

The encoding is described independently of the model's parsers: a chunk is a size line (hex digits as
read by `Spec.Http.parseHex`, at most 15 of them, any number of blanks, CRLF), the payload, CRLF; the
last chunk has size 0; then trailer field lines and the empty line.
-/
namespace Hertz.H1.Stream
open Hertz Hertz.H1 Hertz.Gen.Str

deriving instance DecidableEq for After

/-! ### the size line -/

theorem tbl_hexDigitVal : allBytes (fun c =>
    match Spec.Http.hexDigitVal c with
    | some d => hex2int c != 16 && (hex2int c).toNat == d
    | none => hex2int c == 16) = true := by decide +kernel

theorem hexDigitVal_some (c : UInt8) (d : Nat) (h : Spec.Http.hexDigitVal c = some d) :
    hex2int c ≠ 16 ∧ (hex2int c).toNat = d := by
  have := allBytes_spec tbl_hexDigitVal c
  simp only [h] at this
  simpa using this

theorem hex2int_cr : hex2int 13 = 16 := by decide +kernel
theorem hex2int_sp : hex2int 32 = 16 := by decide +kernel

theorem readHexIntAux_digits (e : End) (c : UInt8) (t : Bytes) (hc : hex2int c = 16) :
    ∀ (ds : Bytes) (n i m : Nat),
      ds.foldlM (fun n c => (Spec.Http.hexDigitVal c).map (fun d => n * 16 + d)) n = some m →
      i + ds.length ≤ 15 → 0 < i + ds.length →
      readHexIntAux e n i (ds ++ c :: t) = .ok (m, c :: t)
  | [], n, i, m, h, _, hpos => by
    simp only [List.foldlM_nil, pure, Option.some.injEq] at h
    subst h
    simp only [List.nil_append, readHexIntAux, hc, if_true]
    have : ¬ i = 0 := by simp at hpos; omega
    simp [this]
  | d :: ds, n, i, m, h, hlen, _ => by
    simp only [List.foldlM_cons, bind, Option.bind] at h
    cases hd : Spec.Http.hexDigitVal d with
    | none => simp [hd] at h
    | some v =>
      simp only [hd, Option.map_some] at h
      obtain ⟨h16, hv⟩ := hexDigitVal_some d v hd
      simp only [List.length_cons] at hlen
      have hi : ¬ i ≥ Gen.maxHexIntChars.toNat := by
        have : Gen.maxHexIntChars.toNat = 15 := by decide
        omega
      simp only [List.cons_append, readHexIntAux, h16, if_false, hi, hv]
      exact readHexIntAux_digits e c t hc ds (n * 16 + v) (i + 1) m h (by omega) (by omega)

/-- a size line as written on the wire: digits, blanks, CRLF -/
def sizeLine (digits : Bytes) (pad : Nat) : Bytes := digits ++ (List.replicate pad 32 ++ [13, 10])

theorem chunkSizeTail_pad (e : End) (t : Bytes) : ∀ pad : Nat,
    chunkSizeTail e (List.replicate pad 32 ++ 13 :: 10 :: t) = .ok t
  | 0 => by simp [chunkSizeTail]
  | pad + 1 => by
    simp only [List.replicate_succ, List.cons_append, chunkSizeTail, if_true]
    exact chunkSizeTail_pad e t pad

theorem parseChunkSize_sizeLine (e : End) (digits : Bytes) (pad n : Nat) (t : Bytes)
    (hlen : digits.length ≤ 15) (hn : Spec.Http.parseHex digits = some n) :
    parseChunkSize e (sizeLine digits pad ++ t) = .ok (n, t) := by
  unfold Spec.Http.parseHex at hn
  have hne : digits ≠ [] := by
    intro h; simp [h] at hn
  have hne' : digits.isEmpty = false := by simpa using hne
  simp only [hne', Bool.false_eq_true, if_false] at hn
  have hpos : 0 < 0 + digits.length := by
    cases digits with
    | nil => exact absurd rfl hne
    | cons => simp
  unfold parseChunkSize readHexInt sizeLine
  cases pad with
  | zero =>
    have := readHexIntAux_digits e 13 (10 :: t) hex2int_cr digits 0 0 n hn (by omega) hpos
    simp only [List.replicate_zero, List.nil_append, List.append_assoc, List.cons_append]
    rw [this]
    simp [chunkSizeTail]
  | succ p =>
    have := readHexIntAux_digits e 32 (List.replicate p 32 ++ 13 :: 10 :: t) hex2int_sp digits 0 0 n hn (by omega) hpos
    simp only [List.replicate_succ, List.append_assoc, List.cons_append, List.nil_append]
    rw [this]
    have h2 := chunkSizeTail_pad e t (p + 1)
    simp only [List.replicate_succ, List.cons_append] at h2
    simp only [h2]


/-! ### well-formed chunked encodings -/

/-- one chunk as written: size digits, blanks after them, payload -/
structure WChunk where
  digits : Bytes
  pad : Nat
  data : Bytes

/-- the digits are a hex numeral (`Spec.Http.parseHex`) of at most 15 digits for the payload length; the
payload is not empty (size 0 is the last chunk) -/
def WChunk.Wf (k : WChunk) : Prop :=
  k.digits.length ≤ 15 ∧ Spec.Http.parseHex k.digits = some k.data.length ∧ k.data ≠ []

def encChunks : List WChunk → Bytes
  | [] => []
  | k :: ks => sizeLine k.digits k.pad ++ (k.data ++ 13 :: 10 :: encChunks ks)

def bodyOf : List WChunk → Bytes
  | [] => []
  | k :: ks => k.data ++ bodyOf ks

/-- one chunk on the wire -/
def WChunk.enc (k : WChunk) : Bytes := sizeLine k.digits k.pad ++ (k.data ++ [13, 10])

theorem encChunks_eq_flatMap : ∀ cs : List WChunk, encChunks cs = cs.flatMap WChunk.enc
  | [] => rfl
  | k :: cs => by simp [encChunks, WChunk.enc, encChunks_eq_flatMap cs]

theorem bodyOf_eq_flatMap : ∀ cs : List WChunk, bodyOf cs = cs.flatMap (·.data)
  | [] => rfl
  | k :: cs => by simp [bodyOf, bodyOf_eq_flatMap cs]

/-- reader state at a position of a well-formed encoding: `d` = unread payload of the current chunk
(`[]` = at a size line), `cs` = the chunks still to come, `tail` = last chunk, trailer and what follows -/
def posState (d : Bytes) (cs : List WChunk) (tail : Bytes) : ChunkSt :=
  match d with
  | [] => { s := encChunks cs ++ tail, chunkLeft := 0 }
  | _ :: _ => { s := d ++ 13 :: 10 :: (encChunks cs ++ tail), chunkLeft := d.length }

section consume
variable (cfg : Cfg) (e : End) (names : List Bytes) (c : Consume)

theorem consume_zero (st : ChunkSt) (acc : Bytes) :
    consumeChunked cfg e names c 0 st acc = ({ bytes := acc, err := true }, st) := rfl

theorem consume_stop (fuel : Nat) (st : ChunkSt) (acc : Bytes) (h : acc.length ≥ c.stopAfter) :
    consumeChunked cfg e names c (fuel + 1) st acc = ({ bytes := acc }, st) := by
  simp only [consumeChunked, h, if_true]

/-- at a size line of a non-empty chunk: the same as being at the start of its payload -/
theorem consume_header (fuel : Nat) (s rest acc : Bytes) (n : Nat) (h : ¬ acc.length ≥ c.stopAfter)
    (hp : parseChunkSize e s = .ok (n + 1, rest)) :
    consumeChunked cfg e names c (fuel + 1) { s := s, chunkLeft := 0 } acc =
    consumeChunked cfg e names c (fuel + 1) { s := rest, chunkLeft := n + 1 } acc := by
  simp only [consumeChunked, h, if_false, hp]
  simp


/-- a read that ends inside the current chunk -/
theorem consume_inside_part (fuel : Nat) (d u acc : Bytes) (h : ¬ acc.length ≥ c.stopAfter)
    (hb : min c.readSize (c.stopAfter - acc.length) < d.length) :
    consumeChunked cfg e names c (fuel + 1) { s := d ++ u, chunkLeft := d.length } acc =
    consumeChunked cfg e names c fuel
      { s := d.drop (min c.readSize (c.stopAfter - acc.length)) ++ u,
        chunkLeft := d.length - min c.readSize (c.stopAfter - acc.length) }
      (acc ++ d.take (min c.readSize (c.stopAfter - acc.length))) := by
  have hd0 : ¬ d.length = 0 := by omega
  have hmin : min (min c.readSize (c.stopAfter - acc.length)) d.length = min c.readSize (c.stopAfter - acc.length) := by omega
  have hlen : ¬ (d ++ u).length < min c.readSize (c.stopAfter - acc.length) := by
    simp only [List.length_append]; omega
  have hne : ¬ d.length - min c.readSize (c.stopAfter - acc.length) = 0 := by omega
  have htake : (d ++ u).take (min c.readSize (c.stopAfter - acc.length)) = d.take (min c.readSize (c.stopAfter - acc.length)) :=
    List.take_append_of_le_length (by omega)
  have hdrop : (d ++ u).drop (min c.readSize (c.stopAfter - acc.length)) = d.drop (min c.readSize (c.stopAfter - acc.length)) ++ u :=
    List.drop_append_of_le_length (by omega)
  simp only [consumeChunked, h, if_false, hd0, Bool.false_eq_true, hmin, hlen, hne, htake, hdrop]

/-- a read that finishes the current chunk: the CRLF behind it is skipped -/
theorem consume_inside_full (fuel : Nat) (d t acc : Bytes) (h : ¬ acc.length ≥ c.stopAfter) (hd : d ≠ [])
    (hb : d.length ≤ min c.readSize (c.stopAfter - acc.length)) :
    consumeChunked cfg e names c (fuel + 1) { s := d ++ 13 :: 10 :: t, chunkLeft := d.length } acc =
    consumeChunked cfg e names c fuel { s := t, chunkLeft := 0 } (acc ++ d) := by
  have hd0 : ¬ d.length = 0 := by
    intro h0; exact hd (List.eq_nil_of_length_eq_zero h0)
  have hmin : min (min c.readSize (c.stopAfter - acc.length)) d.length = d.length := by omega
  have hlen : ¬ (d ++ 13 :: 10 :: t).length < d.length := by
    simp only [List.length_append]; omega
  have htake : (d ++ 13 :: 10 :: t).take d.length = d := by simp
  have hdrop : (d ++ 13 :: 10 :: t).drop d.length = 13 :: 10 :: t := by simp
  simp only [consumeChunked, h, if_false, hd0, Bool.false_eq_true, hmin, hlen, htake, hdrop, Nat.sub_self,
    if_true, strCRLF, List.take, List.drop]


/-- at the size line of the last chunk: the trailer reader decides -/
theorem consume_last (fuel : Nat) (s rest acc : Bytes) (h : ¬ acc.length ≥ c.stopAfter)
    (hp : parseChunkSize e s = .ok (0, rest)) :
    consumeChunked cfg e names c (fuel + 1) { s := s, chunkLeft := 0 } acc =
    match readTrailerReq cfg e names rest with
    | .ok (some _, r') => ({ bytes := acc, eof := true }, { s := r', chunkLeft := 0, chunkEOF := true })
    | .ok (none, r') => ({ bytes := acc, eof := true }, { s := r', chunkLeft := 0, chunkEOF := false })
    | .error _ => ({ bytes := acc, err := true }, { s := s, chunkLeft := 0 }) := by
  simp only [consumeChunked, h, if_false, hp]
  cases readTrailerReq cfg e names rest with
  | error x => simp
  | ok v =>
    obtain ⟨o, r'⟩ := v
    cases o <;> simp


/-- what the trailer reader made of `trs` (trailer section and everything behind it) -/
def TrailerDone (trs : Bytes) (st : ChunkSt) : Prop :=
  match readTrailerReq cfg e names trs with
  | .ok (some _, r') => st.s = r' ∧ st.chunkLeft = 0 ∧ st.chunkEOF = true
  | .ok (none, r') => st.s = r' ∧ st.chunkLeft = 0 ∧ st.chunkEOF = false
  | .error _ => False

/-- `st` is a position of a well-formed encoding with body bytes `R` still unread -/
def IsPos (cs0 : List WChunk) (tail : Bytes) (st : ChunkSt) (R : Bytes) : Prop :=
  ∃ d cs, cs <:+ cs0 ∧ (∀ k ∈ cs, WChunk.Wf k) ∧ d ++ bodyOf cs = R ∧ st = posState d cs tail

/-- the result of the consumer loop started with `acc` read so far and `R` the unread body bytes -/
def Outcome (cs0 : List WChunk) (fuel : Nat) (tail trs acc R : Bytes) (res : Got × ChunkSt) : Prop :=
  ∃ k, k ≤ R.length ∧ res.1.bytes = acc ++ R.take k ∧ (k = 0 ∨ acc.length + k ≤ c.stopAfter) ∧
    ((res.1.err = true ∧ (0 < c.readSize → c.stopAfter - acc.length < fuel →
        k = R.length ∧ acc.length + k < c.stopAfter ∧ ∃ x, readTrailerReq cfg e names trs = .error x)) ∨
     (res.1.err = false ∧ res.1.eof = false ∧ c.stopAfter ≤ acc.length + k ∧ IsPos cs0 tail res.2 (R.drop k)) ∨
     (res.1.err = false ∧ res.1.eof = true ∧ k = R.length ∧ acc.length + k < c.stopAfter ∧
        TrailerDone cfg e names trs res.2))

theorem Outcome.lift {cs0 : List WChunk} {fuel : Nat} {tail trs acc R : Bytes} {res : Got × ChunkSt} (b : Nat)
    (h : Outcome cfg e names c cs0 fuel tail trs (acc ++ R.take b) (R.drop b) res)
    (hb : b ≤ R.length) (hs : acc.length + b ≤ c.stopAfter) (hpos : 0 < c.readSize → 0 < b) :
    Outcome cfg e names c cs0 (fuel + 1) tail trs acc R res := by
  obtain ⟨k, hk, hbytes, hle, hcase⟩ := h
  have hl : (acc ++ R.take b).length = acc.length + b := by
    simp only [List.length_append, List.length_take]; omega
  simp only [List.length_drop] at hk
  rw [hl] at hle hcase
  refine ⟨b + k, by omega, ?_, by omega, ?_⟩
  · rw [hbytes, List.append_assoc, List.take_add]
  · rcases hcase with ⟨he, himp⟩ | ⟨he, hf, hst, hp⟩ | ⟨he, hf, hk2, hst, ht⟩
    · refine Or.inl ⟨he, fun hr hfu => ?_⟩
      have hb0 := hpos hr
      obtain ⟨h1, h2, h3⟩ := himp hr (by omega)
      simp only [List.length_drop] at h1
      exact ⟨by omega, by omega, h3⟩
    · refine Or.inr (Or.inl ⟨he, hf, by omega, ?_⟩)
      rw [List.drop_drop] at hp
      exact hp
    · simp only [List.length_drop] at hk2
      exact Or.inr (Or.inr ⟨he, hf, by omega, by omega, ht⟩)

theorem posState_cons (x : UInt8) (d : Bytes) (cs : List WChunk) (tail : Bytes) :
    posState (x :: d) cs tail = { s := (x :: d) ++ 13 :: 10 :: (encChunks cs ++ tail), chunkLeft := (x :: d).length } := rfl

theorem posState_ne (d : Bytes) (cs : List WChunk) (tail : Bytes) (h : d ≠ []) :
    posState d cs tail = { s := d ++ 13 :: 10 :: (encChunks cs ++ tail), chunkLeft := d.length } := by
  cases d with
  | nil => exact absurd rfl h
  | cons x d => rfl

/-- one iteration from inside a chunk, given the statement for the remaining fuel -/
theorem consume_inside_step (cs0 : List WChunk) (fuel : Nat) (tail trs : Bytes)
    (IH : ∀ (d : Bytes) (cs : List WChunk) (acc : Bytes), cs <:+ cs0 → (∀ k ∈ cs, WChunk.Wf k) →
      Outcome cfg e names c cs0 fuel tail trs acc (d ++ bodyOf cs) (consumeChunked cfg e names c fuel (posState d cs tail) acc))
    (d : Bytes) (hd : d ≠ []) (cs : List WChunk) (acc : Bytes) (hsuf : cs <:+ cs0) (hcs : ∀ k ∈ cs, WChunk.Wf k)
    (hstop : ¬ acc.length ≥ c.stopAfter) :
    Outcome cfg e names c cs0 (fuel + 1) tail trs acc (d ++ bodyOf cs)
      (consumeChunked cfg e names c (fuel + 1) (posState d cs tail) acc) := by
  have hdl : 0 < d.length := List.length_pos_iff.mpr hd
  rw [posState_ne d cs tail hd]
  by_cases hb : min c.readSize (c.stopAfter - acc.length) < d.length
  · rw [consume_inside_part cfg e names c fuel d _ acc hstop hb]
    have hne : d.drop (min c.readSize (c.stopAfter - acc.length)) ≠ [] := by
      intro h0
      have := congrArg List.length h0
      simp only [List.length_drop, List.length_nil] at this
      omega
    have hst : ({ s := d.drop (min c.readSize (c.stopAfter - acc.length)) ++ 13 :: 10 :: (encChunks cs ++ tail), chunkLeft := d.length - min c.readSize (c.stopAfter - acc.length) } : ChunkSt) =
        posState (d.drop (min c.readSize (c.stopAfter - acc.length))) cs tail := by
      rw [posState_ne _ cs tail hne, List.length_drop]
    rw [hst]
    have := IH (d.drop (min c.readSize (c.stopAfter - acc.length))) cs (acc ++ d.take (min c.readSize (c.stopAfter - acc.length))) hsuf hcs
    refine Outcome.lift cfg e names c (min c.readSize (c.stopAfter - acc.length)) ?_ ?_ ?_ ?_
    · rw [List.take_append_of_le_length (by omega), List.drop_append_of_le_length (by omega)]
      exact this
    · simp only [List.length_append]; omega
    · omega
    · intro hr; omega
  · rw [consume_inside_full cfg e names c fuel d _ acc hstop hd (by omega)]
    have := IH [] cs (acc ++ d) hsuf hcs
    refine Outcome.lift cfg e names c d.length ?_ ?_ ?_ ?_
    · simp only [List.take_left', List.drop_left']
      exact this
    · simp only [List.length_append]; omega
    · omega
    · intro _; exact hdl


/-- the consumer loop from any position of a well-formed encoding -/
theorem consume_wf (cs0 : List WChunk) (tail trs zd : Bytes) (zp : Nat) (hzl : zd.length ≤ 15)
    (hz0 : Spec.Http.parseHex zd = some 0) (htail : tail = sizeLine zd zp ++ trs) :
    ∀ (fuel : Nat) (d : Bytes) (cs : List WChunk) (acc : Bytes), cs <:+ cs0 → (∀ k ∈ cs, WChunk.Wf k) →
      Outcome cfg e names c cs0 fuel tail trs acc (d ++ bodyOf cs)
        (consumeChunked cfg e names c fuel (posState d cs tail) acc)
  | 0, d, cs, acc, _, _ => by
    rw [consume_zero]
    refine ⟨0, Nat.zero_le _, by simp, Or.inl rfl, Or.inl ⟨rfl, fun _ h => absurd h (Nat.not_lt_zero _)⟩⟩
  | fuel + 1, d, cs, acc, hsuf, hcs => by
    have IH := consume_wf cs0 tail trs zd zp hzl hz0 htail fuel
    by_cases hstop : acc.length ≥ c.stopAfter
    · rw [consume_stop cfg e names c fuel _ acc hstop]
      exact ⟨0, Nat.zero_le _, by simp, Or.inl rfl,
        Or.inr (Or.inl ⟨rfl, rfl, by omega, ⟨d, cs, hsuf, hcs, by simp, rfl⟩⟩)⟩
    · cases d with
      | cons x d => exact consume_inside_step cfg e names c cs0 fuel tail trs IH (x :: d) (by simp) cs acc hsuf hcs hstop
      | nil =>
        cases cs with
        | nil =>
          have hp : parseChunkSize e tail = .ok (0, trs) := by
            rw [htail]; exact parseChunkSize_sizeLine e zd zp 0 trs hzl hz0
          have hst : posState [] [] tail = { s := tail, chunkLeft := 0 } := by
            simp [posState, encChunks]
          rw [hst, consume_last cfg e names c fuel tail trs acc hstop hp]
          refine ⟨0, Nat.zero_le _, ?_, Or.inl rfl, ?_⟩
          · cases readTrailerReq cfg e names trs with
            | error x => simp [bodyOf]
            | ok v => obtain ⟨o, r'⟩ := v; cases o <;> simp [bodyOf]
          · cases htr : readTrailerReq cfg e names trs with
            | error x =>
              exact Or.inl ⟨rfl, fun _ _ => ⟨by simp [bodyOf], by simp; omega, x, rfl⟩⟩
            | ok v =>
              obtain ⟨o, r'⟩ := v
              cases o with
              | none =>
                refine Or.inr (Or.inr ⟨rfl, rfl, by simp [bodyOf], by simp; omega, ?_⟩)
                simp [TrailerDone, htr]
              | some t =>
                refine Or.inr (Or.inr ⟨rfl, rfl, by simp [bodyOf], by simp; omega, ?_⟩)
                simp [TrailerDone, htr]
        | cons k0 cs' =>
          have hk0 : k0.Wf := hcs k0 (by simp)
          have hcs' : ∀ k ∈ cs', WChunk.Wf k := fun k hk => hcs k (by simp [hk])
          obtain ⟨hl, hh, hne⟩ := hk0
          obtain ⟨n, hn⟩ : ∃ n, k0.data.length = n + 1 := by
            cases hd : k0.data with
            | nil => exact absurd hd hne
            | cons a t => exact ⟨t.length, rfl⟩
          have hp : parseChunkSize e (sizeLine k0.digits k0.pad ++ (k0.data ++ 13 :: 10 :: (encChunks cs' ++ tail))) =
              .ok (n + 1, k0.data ++ 13 :: 10 :: (encChunks cs' ++ tail)) := by
            rw [← hn]; exact parseChunkSize_sizeLine e k0.digits k0.pad _ _ hl hh
          have hst : posState [] (k0 :: cs') tail =
              { s := sizeLine k0.digits k0.pad ++ (k0.data ++ 13 :: 10 :: (encChunks cs' ++ tail)), chunkLeft := 0 } := by
            simp [posState, encChunks]
          rw [hst, consume_header cfg e names c fuel _ _ acc n hstop hp, ← hn, ← posState_ne k0.data cs' tail hne]
          have := consume_inside_step cfg e names c cs0 fuel tail trs IH k0.data hne cs' acc ((List.suffix_cons k0 cs').trans hsuf) hcs' hstop
          simpa [bodyOf] using this

end consume


/-! ### the drain (`skipRest`) -/

theorem indexByte_at (c : UInt8) (t : Bytes) : ∀ l : Bytes, c ∉ l → indexByte c (l ++ c :: t) = some l.length
  | [], _ => by simp [indexByte]
  | x :: l, h => by
    have hx : ¬ x = c := fun hxc => h (by simp [hxc])
    have hl : c ∉ l := fun hm => h (by simp [hm])
    simp [indexByte, hx, indexByte_at c t l hl]

/-- a trailer field line as far as `SkipTrailer` cares: not empty, no LF inside -/
def TrLineOk (l : Bytes) : Prop := l ≠ [] ∧ 10 ∉ l

def encLines : List Bytes → Bytes
  | [] => []
  | l :: ls => l ++ 13 :: 10 :: encLines ls

/-- trailer section: field lines, then the empty line -/
def encTrailer (ls : List Bytes) : Bytes := encLines ls ++ [13, 10]

theorem skipTr_end (f : Nat) (t : Bytes) : drainChunked.skipTr (f + 1) (13 :: 10 :: t) = some t := by
  simp [drainChunked.skipTr, indexByte, strCRLF]

theorem skipTr_line (f : Nat) (l t : Bytes) (hl : TrLineOk l) :
    drainChunked.skipTr (f + 1) (l ++ 13 :: 10 :: t) = drainChunked.skipTr f t := by
  obtain ⟨hne, h10⟩ := hl
  have hidx : indexByte 10 (l ++ 13 :: 10 :: t) = some (l.length + 1) := by
    have := indexByte_at 10 t (l ++ [13]) (by simp [h10])
    simpa using this
  have h1 : (l ++ 13 :: 10 :: t).take (l.length + 1 + 1) = l ++ [13, 10] := by
    have : l ++ 13 :: 10 :: t = (l ++ [13, 10]) ++ t := by simp
    rw [this, List.take_left' (by simp)]
  have h2 : ¬ l ++ [13, 10] = strCRLF := by
    intro h
    have := congrArg List.length h
    have hpos : 0 < l.length := List.length_pos_iff.mpr hne
    simp only [List.length_append, strCRLF, List.length_cons, List.length_nil] at this
    omega
  have h3 : (l ++ 13 :: 10 :: t).take (l.length + 1) = l ++ [13] := by
    have : l ++ 13 :: 10 :: t = (l ++ [13]) ++ 10 :: t := by simp
    rw [this, List.take_left' (by simp)]
  have h4 : (l ++ 13 :: 10 :: t).drop (l.length + 1 + 1) = t := by
    have : l ++ 13 :: 10 :: t = (l ++ [13, 10]) ++ t := by simp
    rw [this, List.drop_left' (by simp)]
  simp only [drainChunked.skipTr, hidx, h1, h2, h3, h4]
  simp

theorem skipTr_trailer (rest : Bytes) : ∀ (ls : List Bytes) (f : Nat), (∀ l ∈ ls, TrLineOk l) →
    drainChunked.skipTr f (encTrailer ls ++ rest) = if f < ls.length + 1 then none else some rest
  | _, 0, _ => by simp [drainChunked.skipTr]
  | [], f + 1, _ => by
    simp only [encTrailer, encLines, List.nil_append, List.cons_append]
    rw [skipTr_end]; simp
  | l :: ls, f + 1, h => by
    have hl := h l (by simp)
    have hls : ∀ x ∈ ls, TrLineOk x := fun x hx => h x (by simp [hx])
    have := skipTr_trailer rest ls f hls
    simp only [encTrailer, encLines, List.append_assoc, List.cons_append] at this ⊢
    rw [skipTr_line f l _ hl, this]
    simp

theorem length_le_encLines : ∀ ls : List Bytes, ls.length ≤ (encLines ls).length
  | [] => by simp
  | l :: ls => by
    have := length_le_encLines ls
    simp only [encLines, List.length_cons, List.length_append]; omega

theorem length_le_encChunks : ∀ cs : List WChunk, cs.length ≤ (encChunks cs).length
  | [] => by simp
  | k :: cs => by
    have := length_le_encChunks cs
    simp only [encChunks, List.length_cons, List.length_append]; omega


section drain
variable (cfg : Cfg) (e : End)

theorem drain_done (fuel : Nat) (s : Bytes) (n : Nat) :
    drainChunked cfg e (fuel + 1) { s := s, chunkLeft := n, chunkEOF := true } = some s := by
  simp [drainChunked]

theorem drain_inside (fuel : Nat) (d t : Bytes) (hd : d ≠ []) :
    drainChunked cfg e (fuel + 1) { s := d ++ 13 :: 10 :: t, chunkLeft := d.length } =
    drainChunked cfg e fuel { s := t, chunkLeft := 0 } := by
  have hpos : d.length > 0 := List.length_pos_iff.mpr hd
  have h1 : ¬ (d ++ 13 :: 10 :: t).length < d.length + 2 := by simp
  have h2 : ((d ++ 13 :: 10 :: t).drop d.length).take 2 = strCRLF := by simp [strCRLF]
  have h3 : (d ++ 13 :: 10 :: t).drop (d.length + 2) = t := by
    have : d ++ 13 :: 10 :: t = (d ++ [13, 10]) ++ t := by simp
    rw [this, List.drop_left' (by simp)]
  simp only [drainChunked, Bool.false_eq_true, if_false, hpos, if_true, h1, h2, h3, ne_eq, not_true_eq_false]

theorem drain_header (fuel : Nat) (s d t : Bytes) (n : Nat) (hn : d.length = n + 1)
    (hp : parseChunkSize e s = .ok (n + 1, d ++ 13 :: 10 :: t)) :
    drainChunked cfg e (fuel + 1) { s := s, chunkLeft := 0 } =
    drainChunked cfg e fuel { s := t, chunkLeft := 0 } := by
  have h1 : ¬ (d ++ 13 :: 10 :: t).length < n + 1 + 2 := by simp; omega
  have h2 : ((d ++ 13 :: 10 :: t).drop (n + 1)).take 2 = strCRLF := by rw [← hn]; simp [strCRLF]
  have h3 : (d ++ 13 :: 10 :: t).drop (n + 1 + 2) = t := by
    have : d ++ 13 :: 10 :: t = (d ++ [13, 10]) ++ t := by simp
    rw [this, List.drop_left' (by simp; omega)]
  simp only [drainChunked, Bool.false_eq_true, if_false, Nat.lt_irrefl, gt_iff_lt, hp, h1, h2, h3, ne_eq, not_true_eq_false]

theorem drain_last (fuel : Nat) (s rest : Bytes) (hp : parseChunkSize e s = .ok (0, rest)) :
    drainChunked cfg e (fuel + 1) { s := s, chunkLeft := 0 } = drainChunked.skipTr (rest.length + 1) rest := by
  simp only [drainChunked, Bool.false_eq_true, if_false, Nat.lt_irrefl, gt_iff_lt, hp]

/-- the drain from any position of a well-formed encoding: it ends where `SkipTrailer` ends on the
trailer section, provided the fuel covers the remaining chunks -/
theorem drain_wf (tail trs zd : Bytes) (zp : Nat) (hzl : zd.length ≤ 15)
    (hz0 : Spec.Http.parseHex zd = some 0) (htail : tail = sizeLine zd zp ++ trs) :
    ∀ (fuel : Nat) (d : Bytes) (cs : List WChunk), (∀ k ∈ cs, WChunk.Wf k) →
      drainChunked cfg e fuel (posState d cs tail) =
        if fuel < cs.length + (if d = [] then 1 else 2) then none
        else drainChunked.skipTr (trs.length + 1) trs
  | 0, d, cs, _ => by
    have : 0 < cs.length + (if d = [] then 1 else 2) := by split <;> omega
    simp [drainChunked, this]
  | fuel + 1, x :: d, cs, hcs => by
    rw [posState_cons, drain_inside cfg e fuel (x :: d) _ (by simp)]
    have := drain_wf tail trs zd zp hzl hz0 htail fuel [] cs hcs
    simp only [posState, if_true] at this
    rw [this]
    simp only [reduceCtorEq, if_false]
    by_cases h : fuel < cs.length + 1
    · have h' : fuel + 1 < cs.length + 2 := by omega
      simp [h, h']
    · have h' : ¬ fuel + 1 < cs.length + 2 := by omega
      simp [h, h']
  | fuel + 1, [], [], _ => by
    have hp : parseChunkSize e tail = .ok (0, trs) := by
      rw [htail]; exact parseChunkSize_sizeLine e zd zp 0 trs hzl hz0
    have hst : posState [] [] tail = { s := tail, chunkLeft := 0 } := by simp [posState, encChunks]
    rw [hst, drain_last cfg e fuel tail trs hp]
    simp
  | fuel + 1, [], k0 :: cs', hcs => by
    have hk0 : k0.Wf := hcs k0 (by simp)
    have hcs' : ∀ k ∈ cs', WChunk.Wf k := fun k hk => hcs k (by simp [hk])
    obtain ⟨hl, hh, hne⟩ := hk0
    obtain ⟨n, hn⟩ : ∃ n, k0.data.length = n + 1 := by
      cases hd : k0.data with
      | nil => exact absurd hd hne
      | cons a t => exact ⟨t.length, rfl⟩
    have hp : parseChunkSize e (sizeLine k0.digits k0.pad ++ (k0.data ++ 13 :: 10 :: (encChunks cs' ++ tail))) =
        .ok (n + 1, k0.data ++ 13 :: 10 :: (encChunks cs' ++ tail)) := by
      rw [← hn]; exact parseChunkSize_sizeLine e k0.digits k0.pad _ _ hl hh
    have hst : posState [] (k0 :: cs') tail =
        { s := sizeLine k0.digits k0.pad ++ (k0.data ++ 13 :: 10 :: (encChunks cs' ++ tail)), chunkLeft := 0 } := by
      simp [posState, encChunks]
    rw [hst, drain_header cfg e fuel _ k0.data _ n hn hp]
    have := drain_wf tail trs zd zp hzl hz0 htail fuel [] cs' hcs'
    simp only [posState, if_true] at this
    rw [this]
    by_cases h : fuel < cs'.length + 1
    · have h' : fuel + 1 < cs'.length + 1 + 1 := by omega
      simp [h, h']
    · have h' : ¬ fuel + 1 < cs'.length + 1 + 1 := by omega
      simp [h, h']

end drain


/-! ### the trailer reader (`ReadTrailer`) on the read path -/

theorem readTrailerReq_empty (cfg : Cfg) (e : End) (names : List Bytes) (rest : Bytes) :
    readTrailerReq cfg e names (13 :: 10 :: rest) =
      .ok (some (filledTrailers (names.map (fun k => (k, none)))), rest) := by
  simp [readTrailerReq, parseTrailer, parseTrailerLoop, scanNext]


/-! ### `streamBody` on a chunked request -/

/-- what `ReleaseBodyStream` leaves, given the result of the handler's reads -/
def chunkedAfter (cfg : Cfg) (e : End) (s : Bytes) (r : Got × ChunkSt) : After :=
  if r.1.err then After.closed else
    match drainChunked cfg e (s.length + 2) r.2 with
    | none => After.closed
    | some rest => if r.2.chunkEOF then After.resync rest else After.either rest

theorem streamBody_chunked (cfg : Cfg) (e : End) (hd : ReqHead) (s : Bytes) (c : Consume) (h : hd.cl = -1) :
    streamBody cfg e hd s c =
      .ok ({ head := hd, got := (consumeChunked cfg e hd.trailer c (c.stopAfter + s.length + 2) { s := s } []).1,
             streamed := true },
           chunkedAfter cfg e s (consumeChunked cfg e hd.trailer c (c.stopAfter + s.length + 2) { s := s } [])) := by
  simp only [streamBody, h, if_true, chunkedAfter]
  rfl

/-- a whole chunked message body as written on the wire -/
structure ChunkedMsg where
  chunks : List WChunk
  /-- the size line of the last chunk: digits (zeros) and blanks -/
  zdigits : Bytes
  zpad : Nat
  /-- trailer section: everything after the last chunk's size line, up to and including the empty line -/
  trailer : Bytes

def ChunkedMsg.Wf (m : ChunkedMsg) : Prop :=
  (∀ k ∈ m.chunks, WChunk.Wf k) ∧ m.zdigits.length ≤ 15 ∧ Spec.Http.parseHex m.zdigits = some 0

def ChunkedMsg.bytes (m : ChunkedMsg) : Bytes :=
  encChunks m.chunks ++ (sizeLine m.zdigits m.zpad ++ m.trailer)

def ChunkedMsg.body (m : ChunkedMsg) : Bytes := bodyOf m.chunks

/-- the trailer reader, if it accepts the section, consumes exactly the section -/
def TrailerReadExact (cfg : Cfg) (e : End) (names : List Bytes) (trailer rest : Bytes) : Prop :=
  ∀ o r', readTrailerReq cfg e names (trailer ++ rest) = .ok (o, r') → o.isSome = true ∧ r' = rest

theorem consume_msg (cfg : Cfg) (e : End) (names : List Bytes) (c : Consume) (m : ChunkedMsg) (hm : m.Wf)
    (rest : Bytes) (fuel : Nat) :
    Outcome cfg e names c m.chunks fuel (sizeLine m.zdigits m.zpad ++ (m.trailer ++ rest)) (m.trailer ++ rest) [] m.body
      (consumeChunked cfg e names c fuel { s := m.bytes ++ rest } []) := by
  obtain ⟨hcs, hzl, hz0⟩ := hm
  have := consume_wf cfg e names c m.chunks _ (m.trailer ++ rest) m.zdigits m.zpad hzl hz0 rfl fuel [] m.chunks []
    (List.suffix_refl _) hcs
  simpa [posState, ChunkedMsg.bytes, ChunkedMsg.body] using this


section main
variable (cfg : Cfg) (e : End) (names : List Bytes) (c : Consume)

/-- (1) the handler's reads on a well-formed chunked body, whatever follows the last chunk's size line -/
theorem chunked_reads (m : ChunkedMsg) (hm : m.Wf) (rest : Bytes) (fuel : Nat) :
    (consumeChunked cfg e names c fuel { s := m.bytes ++ rest } []).1.bytes <+: m.body ∧
    (consumeChunked cfg e names c fuel { s := m.bytes ++ rest } []).1.bytes.length ≤ c.stopAfter ∧
    ((consumeChunked cfg e names c fuel { s := m.bytes ++ rest } []).1.err = false →
      (consumeChunked cfg e names c fuel { s := m.bytes ++ rest } []).1.bytes = m.body.take c.stopAfter ∧
      ((consumeChunked cfg e names c fuel { s := m.bytes ++ rest } []).1.eof = true ↔ m.body.length < c.stopAfter)) := by
  obtain ⟨k, hk, hbytes, hle, hcase⟩ := consume_msg cfg e names c m hm rest fuel
  simp only [List.nil_append, List.length_nil, Nat.zero_add] at hbytes hle hcase
  refine ⟨?_, ?_, ?_⟩
  · rw [hbytes]; exact List.take_prefix _ _
  · rw [hbytes, List.length_take]; omega
  · intro he
    rcases hcase with ⟨he', _⟩ | ⟨_, hf, hst, _⟩ | ⟨_, hf, hk2, hst, _⟩
    · rw [he] at he'; exact absurd he' (by simp)
    · have hks : k = c.stopAfter := by omega
      rw [hbytes, hks, hf]
      exact ⟨rfl, by simp; omega⟩
    · rw [hbytes, hf, hk2, List.take_length, List.take_of_length_le (by omega)]
      exact ⟨rfl, by simp; omega⟩

/-- with a positive read size and the model's fuel, the only possible read error on a well-formed
chunked body is the trailer reader's -/
theorem chunked_no_error (m : ChunkedMsg) (hm : m.Wf) (rest : Bytes) (fuel : Nat)
    (hr : 0 < c.readSize) (hf : c.stopAfter < fuel)
    (ht : ∀ x, readTrailerReq cfg e names (m.trailer ++ rest) ≠ .error x) :
    (consumeChunked cfg e names c fuel { s := m.bytes ++ rest } []).1.err = false := by
  obtain ⟨k, _, _, _, hcase⟩ := consume_msg cfg e names c m hm rest fuel
  rcases hcase with ⟨_, himp⟩ | ⟨he, _⟩ | ⟨he, _⟩
  · obtain ⟨_, _, x, hx⟩ := himp hr (by simpa using hf)
    exact absurd hx (ht x)
  · exact he
  · exact he

theorem posState_eof (d : Bytes) (cs : List WChunk) (tail : Bytes) : (posState d cs tail).chunkEOF = false := by
  cases d <;> rfl

theorem posState_length (d : Bytes) (cs : List WChunk) (tail : Bytes) :
    (encChunks cs ++ tail).length ≤ (posState d cs tail).s.length := by
  cases d with
  | nil => simp [posState]
  | cons x d => simp only [posState, List.length_append, List.length_cons]; omega

theorem drain_done' (fuel : Nat) (st : ChunkSt) (h : st.chunkEOF = true) :
    drainChunked cfg e (fuel + 1) st = some st.s := by
  simp [drainChunked, h]

/-- (2) where `ReleaseBodyStream` leaves the connection after a well-formed chunked body -/
theorem chunked_after (m : ChunkedMsg) (hm : m.Wf) (ls : List Bytes) (hls : ∀ l ∈ ls, TrLineOk l)
    (htr : m.trailer = encTrailer ls) (rest : Bytes) (fuel : Nat)
    (hT : (consumeChunked cfg e names c fuel { s := m.bytes ++ rest } []).1.eof = true →
      TrailerReadExact cfg e names m.trailer rest) :
    chunkedAfter cfg e (m.bytes ++ rest) (consumeChunked cfg e names c fuel { s := m.bytes ++ rest } []) =
      if (consumeChunked cfg e names c fuel { s := m.bytes ++ rest } []).1.err then After.closed
      else if (consumeChunked cfg e names c fuel { s := m.bytes ++ rest } []).1.eof then After.resync rest
      else After.either rest := by
  obtain ⟨k, _, _, _, hcase⟩ := consume_msg cfg e names c m hm rest fuel
  generalize consumeChunked cfg e names c fuel { s := m.bytes ++ rest } [] = r at hcase hT ⊢
  obtain ⟨hcs, hzl, hz0⟩ := hm
  rcases hcase with ⟨he, _⟩ | ⟨he, hf, _, d, cs, hsuf, hcs', _, hst⟩ | ⟨he, hf, _, _, hdone⟩
  · simp [chunkedAfter, he]
  · have hdr := drain_wf cfg e _ (m.trailer ++ rest) m.zdigits m.zpad hzl hz0 rfl ((m.bytes ++ rest).length + 2) d cs hcs'
    have h1 : cs.length ≤ m.chunks.length := hsuf.length_le
    have h2 := length_le_encChunks m.chunks
    have h3 : ¬ (m.bytes ++ rest).length + 2 < cs.length + (if d = [] then 1 else 2) := by
      simp only [ChunkedMsg.bytes, List.length_append]
      split <;> omega
    have h4 := length_le_encLines ls
    have h5 : ¬ (m.trailer ++ rest).length + 1 < ls.length + 1 := by
      simp only [htr, encTrailer, List.length_append]; omega
    have hsk := skipTr_trailer rest ls ((m.trailer ++ rest).length + 1) hls
    rw [← htr] at hsk
    simp only [h3, if_false, hsk, h5] at hdr
    rw [← hst] at hdr
    have heof : r.2.chunkEOF = false := by rw [hst]; exact posState_eof _ _ _
    unfold chunkedAfter
    rw [hdr]
    simp [he, hf, heof]
  · unfold TrailerDone at hdone
    cases hrt : readTrailerReq cfg e names (m.trailer ++ rest) with
    | error x => simp [hrt] at hdone
    | ok v =>
      obtain ⟨o, r'⟩ := v
      obtain ⟨ho, hr'⟩ := hT hf o r' hrt
      cases o with
      | none => simp at ho
      | some t =>
        simp only [hrt] at hdone
        obtain ⟨hs, _, heof⟩ := hdone
        have hdd : drainChunked cfg e ((m.bytes ++ rest).length + 2) r.2 = some r.2.s :=
          drain_done' cfg e ((m.bytes ++ rest).length + 1) r.2 heof
        unfold chunkedAfter
        rw [hdd]
        simp [he, hf, heof, hs, hr']

end main

/-! ### the trailer reader on field lines: the header scanner consumes exactly one line per field -/

theorem scanNext_kv (dn : Bool) (B : Bytes) (h1 : ∀ t, B ≠ 13 :: 10 :: t) (h2 : ∀ t, B ≠ 10 :: t)
    (x n n1 : Nat) (hx : indexByte 10 B = some x) (hn : indexByte 58 B = some n) (hxn : ¬ x < n)
    (hn1 : indexByte 10 ((B.drop (n + 1)).drop ((B.drop (n + 1)).takeWhile isOWS).length) = some n1) :
    ∃ key value, scanNext dn B = .kv key value
      (((B.drop (n + 1)).drop ((B.drop (n + 1)).takeWhile isOWS).length).drop
        (n1 + contExtra (((B.drop (n + 1)).drop ((B.drop (n + 1)).takeWhile isOWS).length).drop (n1 + 1)) + 1))
      (n + 1 + ((B.drop (n + 1)).takeWhile isOWS).length +
        (n1 + contExtra (((B.drop (n + 1)).drop ((B.drop (n + 1)).takeWhile isOWS).length).drop (n1 + 1))) + 1) := by
  unfold scanNext
  split
  · exact absurd rfl (h1 _)
  · exact absurd rfl (h2 _)
  · simp only [hx, hn, hxn, if_false, hn1]
    exact ⟨_, _, rfl⟩

theorem indexByte_mem (c : UInt8) : ∀ l : Bytes, c ∈ l → ∃ n, indexByte c l = some n ∧ n < l.length
  | [], h => by simp at h
  | x :: l, h => by
    by_cases hx : x = c
    · exact ⟨0, by simp [indexByte, hx], by simp⟩
    · have hl : c ∈ l := by
        rcases List.mem_cons.mp h with h | h
        · exact absurd h.symm hx
        · exact h
      obtain ⟨n, hn, hlt⟩ := indexByte_mem c l hl
      exact ⟨n + 1, by simp [indexByte, hx, hn], by simp; omega⟩

theorem indexByte_drop (c : UInt8) : ∀ (B : Bytes) (m x : Nat), indexByte c B = some x → m ≤ x →
    indexByte c (B.drop m) = some (x - m)
  | B, 0, x, h, _ => by simpa using h
  | [], m + 1, x, h, _ => by simp [indexByte] at h
  | b :: B, m + 1, x, h, hm => by
    by_cases hb : b = c
    · simp [indexByte, hb] at h; omega
    · simp only [indexByte, hb, if_false, Option.map_eq_some_iff] at h
      obtain ⟨x', hx', hxx⟩ := h
      subst hxx
      have := indexByte_drop c B m x' hx' (by omega)
      simpa using this

theorem takeWhile_sp_le : ∀ (A : Bytes) (y : Nat), indexByte 10 A = some y →
    (A.takeWhile isOWS).length ≤ y
  | [], y, h => by simp [indexByte] at h
  | a :: A, y, h => by
    by_cases ha : a = 10
    · subst ha
      have h10 : isOWS 10 = false := by decide
      simp [List.takeWhile, h10]
    · simp only [indexByte, ha, if_false, Option.map_eq_some_iff] at h
      obtain ⟨y', hy', hyy⟩ := h
      subst hyy
      have := takeWhile_sp_le A y' hy'
      simp only [List.takeWhile]
      split
      · simp; omega
      · simp

theorem contExtra_zero (t : Bytes) (h : ∀ c t', t = c :: t' → c ≠ 32 ∧ c ≠ 9) : contExtra t = 0 := by
  cases t with
  | nil => rfl
  | cons c t' =>
    obtain ⟨h32, h9⟩ := h c t' rfl
    simp [contExtra, contAux, h32, h9]

/-- a field line as far as the header scanner's position is concerned: a colon, no LF -/
def FieldLineOk (l : Bytes) : Prop := 10 ∉ l ∧ 58 ∈ l

theorem scanNext_line (dn : Bool) (l t : Bytes) (hl : FieldLineOk l) (ht : contExtra t = 0) :
    ∃ key value, scanNext dn (l ++ 13 :: 10 :: t) = .kv key value t (l.length + 2) := by
  obtain ⟨h10, h58⟩ := hl
  obtain ⟨n, hn, hnl⟩ := indexByte_mem 58 l h58
  have hn' : indexByte 58 (l ++ 13 :: 10 :: t) = some n := indexByte_append 58 l _ n hn
  have hx : indexByte 10 (l ++ 13 :: 10 :: t) = some (l.length + 1) := by
    have := indexByte_at 10 t (l ++ [13]) (by simp [h10])
    simpa using this
  have hA : indexByte 10 ((l ++ 13 :: 10 :: t).drop (n + 1)) = some (l.length + 1 - (n + 1)) :=
    indexByte_drop 10 _ (n + 1) _ hx (by omega)
  have hsp := takeWhile_sp_le _ _ hA
  have hB1 := indexByte_drop 10 _ (((l ++ 13 :: 10 :: t).drop (n + 1)).takeWhile isOWS).length _ hA hsp
  have h1 : ∀ t', l ++ 13 :: 10 :: t ≠ 13 :: 10 :: t' := by
    intro t' h
    cases l with
    | nil => simp at h58
    | cons a l =>
      cases l with
      | nil => simp at h
      | cons b l => simp at h; simp [h.2.1] at h10
  have h2 : ∀ t', l ++ 13 :: 10 :: t ≠ 10 :: t' := by
    intro t' h
    cases l with
    | nil => simp at h
    | cons a l => simp at h; simp [h.1] at h10
  obtain ⟨key, value, hs⟩ := scanNext_kv dn _ h1 h2 _ _ _ hx hn' (by omega) hB1
  refine ⟨key, value, ?_⟩
  rw [hs]
  have hdrop : ∀ j, (((l ++ 13 :: 10 :: t).drop (n + 1)).drop (((l ++ 13 :: 10 :: t).drop (n + 1)).takeWhile isOWS).length).drop
      (l.length + 1 - (n + 1) - (((l ++ 13 :: 10 :: t).drop (n + 1)).takeWhile isOWS).length + j) =
      (l ++ 13 :: 10 :: t).drop (l.length + 1 + j) := by
    intro j
    rw [List.drop_drop, List.drop_drop]
    congr 1
    omega
  have hend : (l ++ 13 :: 10 :: t).drop (l.length + 1 + 1) = t := by
    have : l ++ 13 :: 10 :: t = (l ++ [13, 10]) ++ t := by simp
    rw [this, List.drop_left' (by simp)]
  have hce : contExtra ((((l ++ 13 :: 10 :: t).drop (n + 1)).drop (((l ++ 13 :: 10 :: t).drop (n + 1)).takeWhile isOWS).length).drop
      (l.length + 1 - (n + 1) - (((l ++ 13 :: 10 :: t).drop (n + 1)).takeWhile isOWS).length + 1)) = 0 := by
    rw [hdrop 1, hend]; exact ht
  rw [hce]
  simp only [Nat.add_zero]
  rw [hdrop 1, hend]
  congr 1
  omega


/-- a trailer field line (without its CRLF): no LF, a colon, not starting with a blank (which would
make it a continuation of the line before) -/
def TrFieldOk (l : Bytes) : Prop := 10 ∉ l ∧ 58 ∈ l ∧ ∀ c t, l = c :: t → c ≠ 32 ∧ c ≠ 9

theorem contExtra_lines (rest : Bytes) (ls : List Bytes) (h : ∀ l ∈ ls, TrFieldOk l) :
    contExtra (encLines ls ++ 13 :: 10 :: rest) = 0 := by
  apply contExtra_zero
  intro c t' heq
  cases ls with
  | nil =>
    simp only [encLines, List.nil_append, List.cons.injEq] at heq
    rw [← heq.1]; decide
  | cons l ls' =>
    obtain ⟨_, h58, hhd⟩ := h l (by simp)
    cases l with
    | nil => simp at h58
    | cons a l' =>
      simp only [encLines, List.cons_append, List.cons.injEq] at heq
      rw [← heq.1]; exact hhd a l' rfl

theorem parseTrailerLoop_kv (dn : Bool) (fuel : Nat) (B : Bytes) (tr : List (Bytes × Option Bytes)) (err : Bool)
    (hlen : Nat) (key value t : Bytes) (n : Nat) (h : scanNext dn B = .kv key value t n) :
    ∃ tr' err', parseTrailerLoop dn (fuel + 1) B tr err hlen = parseTrailerLoop dn fuel t tr' err' (hlen + n) := by
  simp only [parseTrailerLoop, h]
  split
  · exact ⟨_, _, rfl⟩
  · split
    · exact ⟨_, _, rfl⟩
    · split
      · exact ⟨_, _, rfl⟩
      · exact ⟨_, _, rfl⟩

theorem parseTrailerLoop_lines (dn : Bool) (rest : Bytes) : ∀ (ls : List Bytes) (fuel : Nat)
    (tr : List (Bytes × Option Bytes)) (err : Bool) (hlen : Nat),
    (∀ l ∈ ls, TrFieldOk l) → ls.length + 1 ≤ fuel →
    parseTrailerLoop dn fuel (encLines ls ++ 13 :: 10 :: rest) tr err hlen = .error .bad ∨
    ∃ tr', parseTrailerLoop dn fuel (encLines ls ++ 13 :: 10 :: rest) tr err hlen =
      .ok (tr', hlen + (encLines ls).length + 2)
  | _, 0, _, _, _, _, hf => by omega
  | [], fuel + 1, tr, err, hlen, _, _ => by
    simp only [encLines, List.nil_append, parseTrailerLoop, scanNext, List.length_nil, Nat.add_zero]
    cases err
    · exact Or.inr ⟨tr, by simp⟩
    · exact Or.inl (by simp)
  | l :: ls, fuel + 1, tr, err, hlen, h, hf => by
    have hl := h l (by simp)
    have hls : ∀ x ∈ ls, TrFieldOk x := fun x hx => h x (by simp [hx])
    obtain ⟨key, value, hs⟩ := scanNext_line dn l (encLines ls ++ 13 :: 10 :: rest) ⟨hl.1, hl.2.1⟩
      (contExtra_lines rest ls hls)
    have heq : encLines (l :: ls) ++ 13 :: 10 :: rest = l ++ 13 :: 10 :: (encLines ls ++ 13 :: 10 :: rest) := by
      simp [encLines]
    rw [heq]
    obtain ⟨tr', err', hstep⟩ := parseTrailerLoop_kv dn fuel _ tr err hlen key value _ _ hs
    rw [hstep]
    have := parseTrailerLoop_lines dn rest ls fuel tr' err' (hlen + (l.length + 2)) hls (by simp at hf; omega)
    have hlen' : hlen + (l.length + 2) + (encLines ls).length + 2 = hlen + (encLines (l :: ls)).length + 2 := by
      simp only [encLines, List.length_append, List.length_cons]; omega
    rw [hlen'] at this
    exact this

/-- on a trailer section of field lines `parseTrailer` is the scanning loop from the first byte: the
"skip a repeated `0\r\n` line" branch is not taken, also when the first field name starts with `0` -/
theorem parseTrailer_lines (dn : Bool) (tr : List (Bytes × Option Bytes)) (ls : List Bytes) (rest : Bytes)
    (h : ∀ l ls', ls = l :: ls' → 10 ∉ l ∧ 58 ∈ l) :
    parseTrailer dn tr (encTrailer ls ++ rest) =
      parseTrailerLoop dn ((encTrailer ls ++ rest).length + 1) (encTrailer ls ++ rest) tr false 0 := by
  cases ls with
  | nil => simp [encTrailer, encLines, parseTrailer]
  | cons l ls' =>
    obtain ⟨h10, h58⟩ := h l ls' rfl
    cases l with
    | nil => simp at h58
    | cons a l1 =>
      by_cases ha : a = 48
      · subst ha
        have h58' : (58 : UInt8) ∈ l1 := by
          rcases List.mem_cons.mp h58 with h | h
          · exact absurd h (by decide)
          · exact h
        have h10' : (10 : UInt8) ∉ l1 := fun hm => h10 (by simp [hm])
        have hbuf : encTrailer ((48 :: l1) :: ls') ++ rest = 48 :: (l1 ++ 13 :: 10 :: (encLines ls' ++ 13 :: 10 :: rest)) := by
          simp [encTrailer, encLines]
        rw [hbuf]
        have hlen : ¬ (48 :: (l1 ++ 13 :: 10 :: (encLines ls' ++ 13 :: 10 :: rest))).length < 3 := by
          simp only [List.length_cons, List.length_append]; omega
        have htake : ¬ (l1 ++ 13 :: 10 :: (encLines ls' ++ 13 :: 10 :: rest)).take 2 = strCRLF := by
          cases l1 with
          | nil => simp at h58'
          | cons c l2 =>
            cases l2 with
            | nil => simp [strCRLF]
            | cons d l3 =>
              intro heq
              simp only [List.cons_append, List.take, strCRLF, List.cons.injEq] at heq
              exact h10' (by simp [heq.2.1])
        simp only [parseTrailer, hlen, htake, if_false]
      · unfold parseTrailer
        split
        · rename_i r heq
          simp only [encTrailer, encLines, List.cons_append, List.cons.injEq] at heq
          exact absurd heq.1 ha
        · rfl

/-- `ReadTrailer` on a trailer section of field lines: rejected, or consumed exactly -/
theorem readTrailerReq_lines (cfg : Cfg) (e : End) (names : List Bytes) (ls : List Bytes) (rest : Bytes)
    (h : ∀ l ∈ ls, TrFieldOk l) :
    TrailerReadExact cfg e names (encTrailer ls) rest := by
  intro o r' hr
  have hne : (encTrailer ls ++ rest).isEmpty = false := by
    cases ls <;> simp [encTrailer, encLines]
  have hbuf : encTrailer ls ++ rest = encLines ls ++ 13 :: 10 :: rest := by simp [encTrailer]
  have hpt := parseTrailer_lines cfg.disableNorm (names.map (fun k => (k, none))) ls rest
    (fun l ls' hl => by have := h l (by simp [hl]); exact ⟨this.1, this.2.1⟩)
  have hfuel : ls.length + 1 ≤ (encTrailer ls ++ rest).length + 1 := by
    have := length_le_encLines ls
    simp only [encTrailer, List.length_append]; omega
  simp only [readTrailerReq, hne, Bool.false_eq_true, if_false, hpt] at hr
  rw [hbuf] at hr hfuel
  rcases parseTrailerLoop_lines cfg.disableNorm rest ls _ (names.map (fun k => (k, none))) false 0 h hfuel with hb | ⟨tr', hok⟩
  · rw [hb] at hr; simp at hr
  · rw [hok] at hr
    simp only [Except.ok.injEq, Prod.mk.injEq] at hr
    obtain ⟨ho, hr'⟩ := hr
    refine ⟨by rw [← ho]; rfl, ?_⟩
    rw [← hr']
    have : encLines ls ++ 13 :: 10 :: rest = (encLines ls ++ [13, 10]) ++ rest := by simp
    rw [this, List.drop_left' (by simp)]

theorem TrFieldOk.lineOk {l : Bytes} (h : TrFieldOk l) : TrLineOk l := by
  refine ⟨?_, h.1⟩
  intro hl
  have := h.2.1
  simp [hl] at this

/-! ### errors close the connection -/

/-- (3) a failed read of the body stream closes the connection, for every kind of body -/
theorem streamBody_err_closed (cfg : Cfg) (e : End) (hd : ReqHead) (s : Bytes) (c : Consume) (r : ReqOut) (a : After)
    (h : streamBody cfg e hd s c = .ok (r, a)) (herr : r.got.err = true) : a = .closed := by
  by_cases h1 : hd.cl = -1
  · rw [streamBody_chunked cfg e hd s c h1] at h
    simp only [Except.ok.injEq, Prod.mk.injEq] at h
    obtain ⟨hr, ha⟩ := h
    rw [← hr] at herr
    simp only at herr
    rw [← ha]
    simp [chunkedAfter, herr]
  · unfold streamBody at h
    by_cases h2 : hd.cl = -2
    · simp only [h2, if_true, Except.ok.injEq, Prod.mk.injEq] at h
      rw [← h.1] at herr; simp at herr
    · simp only [h2, h1, if_false] at h
      by_cases hlt : s.length < min hd.cl.toNat (min cfg.maxBody Gen.maxContentLengthInStream.toNat)
      · simp only [hlt, if_true] at h
        cases h
      · simp only [hlt, if_false, Except.ok.injEq, Prod.mk.injEq] at h
        obtain ⟨hr, ha⟩ := h
        rw [← hr] at herr
        simp only at herr
        rw [← ha]
        split at herr
        · simp at herr
        · split at herr
          · simp at herr
          · have : ¬ s.length ≥ hd.cl.toNat := by omega
            simp [this]

/-- after a request whose body read failed, the event list ends with that request's response -/
def errEnds : List SEv → Bool
  | [] => true
  | .req r :: t => if r.got.err then (match t with | [.resp _ _] => true | _ => false) else errEnds t
  | _ :: t => errEnds t

theorem streamLoop_errEnds (cfg : Cfg) (e : End) (c : Consume) : ∀ (fuel : Nat) (first : Bool) (s : Bytes),
    errEnds (streamLoop cfg e c fuel first s) = true
  | 0, _, _ => rfl
  | fuel + 1, first, s => by
    unfold streamLoop
    split
    · rfl
    · split
      · rfl
      · split <;> split <;> rfl
      · rename_i hd n _
        have hpre : ∀ t : List SEv, errEnds ((if mayContinue hd = true then [SEv.continue100] else []) ++ t) = errEnds t := by
          intro t; split <;> simp [errEnds]
        dsimp only
        split
        · rename_i x _
          simp only [hpre]
          cases errStatus x with
          | some st => rfl
          | none => by_cases hc : mayContinue hd = true <;> simp [hc, errEnds]
        · rename_i r after hsb
          simp only [List.append_assoc, hpre]
          by_cases herr : r.got.err = true
          · have := streamBody_err_closed cfg e hd _ c r after hsb herr
            subst this
            have hnil : (if (cfg.disableKeepalive || r.head.connClose) = true then ([] : List SEv) else []) = [] := by
              split <;> rfl
            simp only [List.cons_append, List.nil_append, errEnds, herr, if_true, hnil]
          · simp only [List.cons_append, List.nil_append, errEnds, herr, Bool.false_eq_true, if_false]
            split
            · rfl
            · split
              · exact streamLoop_errEnds cfg e c fuel false _
              · rfl
              · simp only [errEnds]
                exact streamLoop_errEnds cfg e c fuel false _


/-! ### the encoding against the independent strict decoder `Spec.Http.chunksAux` -/

theorem tbl_hexDigit_plain : allBytes (fun c =>
    (Spec.Http.hexDigitVal c).isNone || (c != 10 && c != 13 && c != 32 && c != 9)) = true := by decide +kernel

theorem hexDigit_plain (c : UInt8) (h : (Spec.Http.hexDigitVal c).isSome = true) :
    c ≠ 10 ∧ c ≠ 13 ∧ c ≠ 32 ∧ c ≠ 9 := by
  have := allBytes_spec tbl_hexDigit_plain c
  cases hv : Spec.Http.hexDigitVal c with
  | none => simp [hv] at h
  | some d => simpa [hv, and_assoc] using this

theorem foldlM_hex_all : ∀ (ds : Bytes) (n m : Nat),
    ds.foldlM (fun n c => (Spec.Http.hexDigitVal c).map (fun d => n * 16 + d)) n = some m →
    ∀ c ∈ ds, (Spec.Http.hexDigitVal c).isSome = true
  | [], _, _, _, c, hc => by simp at hc
  | d :: ds, n, m, h, c, hc => by
    simp only [List.foldlM_cons, bind, Option.bind] at h
    cases hd : Spec.Http.hexDigitVal d with
    | none => simp [hd] at h
    | some v =>
      simp only [hd, Option.map_some] at h
      rcases List.mem_cons.mp hc with hc | hc
      · rw [hc, hd]; rfl
      · exact foldlM_hex_all ds _ m h c hc

theorem parseHex_digits (ds : Bytes) (n : Nat) (h : Spec.Http.parseHex ds = some n) :
    ds ≠ [] ∧ ∀ c ∈ ds, c ≠ 10 ∧ c ≠ 13 ∧ c ≠ 32 ∧ c ≠ 9 := by
  unfold Spec.Http.parseHex at h
  have hne : ds ≠ [] := by intro h0; simp [h0] at h
  have hne' : ds.isEmpty = false := by simpa using hne
  simp only [hne', Bool.false_eq_true, if_false] at h
  exact ⟨hne, fun c hc => hexDigit_plain c (foldlM_hex_all ds 0 n h c hc)⟩

theorem crlfLine_plain (t : Bytes) : ∀ l : Bytes, (∀ c ∈ l, c ≠ 10 ∧ c ≠ 13) →
    Spec.Http.crlfLine (l ++ 13 :: 10 :: t) = some (l, t)
  | [], _ => by simp [Spec.Http.crlfLine]
  | [c], h => by
    obtain ⟨h10, h13⟩ := h c (by simp)
    simp [Spec.Http.crlfLine, h10, h13]
  | c :: d :: l, h => by
    obtain ⟨h10, h13⟩ := h c (by simp)
    have := crlfLine_plain t (d :: l) (fun x hx => h x (by simp [hx]))
    simp only [List.cons_append] at this
    simp [Spec.Http.crlfLine, h10, h13, this]

theorem dropWhile_replicate_sp (p : UInt8 → Bool) (hp : p 32 = true) (X : Bytes) : ∀ pad : Nat,
    (List.replicate pad 32 ++ X).dropWhile p = X.dropWhile p
  | 0 => by simp
  | pad + 1 => by
    simp only [List.replicate_succ, List.cons_append, List.dropWhile_cons, hp, if_true]
    exact dropWhile_replicate_sp p hp X pad

theorem dropWhile_head (p : UInt8 → Bool) : ∀ l : Bytes, (∀ c t, l = c :: t → p c = false) → l.dropWhile p = l
  | [], _ => rfl
  | c :: t, h => by simp [h c t rfl]

theorem trimOWS_sizeLine (ds : Bytes) (pad : Nat) (hne : ds ≠ []) (h : ∀ c ∈ ds, c ≠ 32 ∧ c ≠ 9) :
    Spec.Http.trimOWS (ds ++ List.replicate pad 32) = ds := by
  unfold Spec.Http.trimOWS
  have hws : ∀ c ∈ ds, (c == 32 || c == 9) = false := by
    intro c hc; obtain ⟨a, b⟩ := h c hc; simp [a, b]
  rw [dropWhile_head _ (ds ++ List.replicate pad 32)]
  · rw [List.reverse_append, List.reverse_replicate, dropWhile_replicate_sp _ (by decide),
      dropWhile_head _ ds.reverse, List.reverse_reverse]
    intro c t hct
    exact hws c (by
      have : c ∈ ds.reverse := by rw [hct]; simp
      simpa using this)
  · intro c t hct
    cases ds with
    | nil => exact absurd rfl hne
    | cons a ds' =>
      simp only [List.cons_append, List.cons.injEq] at hct
      rw [← hct.1]; exact hws a (by simp)

/-- the independent strict decoder accepts every well-formed encoding and assigns it the same body and
the same end -/
theorem spec_decodes (zd : Bytes) (zp : Nat) (t : Bytes) (hzl : zd.length ≤ 15)
    (hz0 : Spec.Http.parseHex zd = some 0) : ∀ (cs : List WChunk) (fuel : Nat) (acc : Bytes),
    (∀ k ∈ cs, WChunk.Wf k) → cs.length + 1 ≤ fuel →
    Spec.Http.chunksAux fuel (encChunks cs ++ (sizeLine zd zp ++ t)) acc = some (acc ++ bodyOf cs, t)
  | _, 0, _, _, hf => by omega
  | [], fuel + 1, acc, _, _ => by
    obtain ⟨hne, hd⟩ := parseHex_digits zd 0 hz0
    have hl : Spec.Http.crlfLine ((zd ++ List.replicate zp 32) ++ 13 :: 10 :: t) = some (zd ++ List.replicate zp 32, t) := by
      apply crlfLine_plain
      intro c hc
      rcases List.mem_append.mp hc with hc | hc
      · exact ⟨(hd c hc).1, (hd c hc).2.1⟩
      · rw [List.eq_of_mem_replicate hc]; decide
    have htrim := trimOWS_sizeLine zd zp hne (fun c hc => (hd c hc).2.2)
    have hs : encChunks [] ++ (sizeLine zd zp ++ t) = (zd ++ List.replicate zp 32) ++ 13 :: 10 :: t := by
      simp [encChunks, sizeLine]
    have h15 : ¬ zd.length > 15 := by omega
    have hhb := Spec.Http.head_not_blank_padded zd zp 0 hz0
    have hnt := Spec.Http.no_tab_padded zd zp 0 hz0
    rw [hs]
    simp only [Spec.Http.chunksAux, hl, hhb, hnt, Bool.false_eq_true, htrim, h15, if_false, hz0]
    simp [bodyOf]
  | k :: cs, fuel + 1, acc, hcs, hf => by
    obtain ⟨hl15, hh, hdne⟩ := hcs k (by simp)
    have hcs' : ∀ x ∈ cs, WChunk.Wf x := fun x hx => hcs x (by simp [hx])
    obtain ⟨hne, hd⟩ := parseHex_digits k.digits _ hh
    obtain ⟨n, hn⟩ : ∃ n, k.data.length = n + 1 := by
      cases hdd : k.data with
      | nil => exact absurd hdd hdne
      | cons a t => exact ⟨t.length, rfl⟩
    have hline : Spec.Http.crlfLine ((k.digits ++ List.replicate k.pad 32) ++ 13 :: 10 ::
        (k.data ++ 13 :: 10 :: (encChunks cs ++ (sizeLine zd zp ++ t)))) =
        some (k.digits ++ List.replicate k.pad 32, k.data ++ 13 :: 10 :: (encChunks cs ++ (sizeLine zd zp ++ t))) := by
      apply crlfLine_plain
      intro c hc
      rcases List.mem_append.mp hc with hc | hc
      · exact ⟨(hd c hc).1, (hd c hc).2.1⟩
      · rw [List.eq_of_mem_replicate hc]; decide
    have htrim := trimOWS_sizeLine k.digits k.pad hne (fun c hc => (hd c hc).2.2)
    have hs : encChunks (k :: cs) ++ (sizeLine zd zp ++ t) = (k.digits ++ List.replicate k.pad 32) ++ 13 :: 10 ::
        (k.data ++ 13 :: 10 :: (encChunks cs ++ (sizeLine zd zp ++ t))) := by
      simp [encChunks, sizeLine]
    have h15 : ¬ k.digits.length > 15 := by omega
    have h1 : ¬ (k.data ++ 13 :: 10 :: (encChunks cs ++ (sizeLine zd zp ++ t))).length < n + 1 + 2 := by
      simp only [List.length_append, List.length_cons]; omega
    have h2 : ((k.data ++ 13 :: 10 :: (encChunks cs ++ (sizeLine zd zp ++ t))).drop (n + 1)).take 2 = [13, 10] := by
      rw [← hn]; simp
    have h3 : (k.data ++ 13 :: 10 :: (encChunks cs ++ (sizeLine zd zp ++ t))).drop (n + 1 + 2) =
        encChunks cs ++ (sizeLine zd zp ++ t) := by
      have : k.data ++ 13 :: 10 :: (encChunks cs ++ (sizeLine zd zp ++ t)) =
          (k.data ++ [13, 10]) ++ (encChunks cs ++ (sizeLine zd zp ++ t)) := by simp
      rw [this, List.drop_left' (by simp; omega)]
    have h4 : (k.data ++ 13 :: 10 :: (encChunks cs ++ (sizeLine zd zp ++ t))).take (n + 1) = k.data := by
      rw [← hn]; simp
    have ih := spec_decodes zd zp t hzl hz0 cs fuel (acc ++ k.data) hcs' (by simp at hf; omega)
    have hhb := Spec.Http.head_not_blank_padded k.digits k.pad _ hh
    have hnt := Spec.Http.no_tab_padded k.digits k.pad _ hh
    rw [hs]
    simp only [Spec.Http.chunksAux, hline, hhb, hnt, Bool.false_eq_true, htrim, h15, if_false, hh, hn, h1, h2, h3, h4]
    simp [ih, bodyOf]

/-- as `Spec.Http.decodeOne` calls it: the strict decoder reads `m.body` and stops before the trailer -/
theorem spec_decodes_msg (m : ChunkedMsg) (hm : m.Wf) (rest : Bytes) :
    Spec.Http.chunksAux ((m.bytes ++ rest).length + 1) (m.bytes ++ rest) [] = some (m.body, m.trailer ++ rest) := by
  obtain ⟨hcs, hzl, hz0⟩ := hm
  have h := spec_decodes m.zdigits m.zpad (m.trailer ++ rest) hzl hz0 m.chunks ((m.bytes ++ rest).length + 1) [] hcs
    (by have := length_le_encChunks m.chunks
        simp only [ChunkedMsg.bytes, List.length_append]; omega)
  simpa [ChunkedMsg.bytes, ChunkedMsg.body] using h

/-- what `After` means for the connection: the loop goes on with exactly `rest` -/
theorem streamLoop_after (cfg : Cfg) (e : End) (c : Consume) (fuel : Nat) (first : Bool) (s : Bytes)
    (hd : ReqHead) (n : Nat) (r : ReqOut) (a : After)
    (hgo : (!first && decide (s.length < 4)) = false) (hp : parseReqHead cfg.disableNorm s = .ok (hd, n))
    (hb : streamBody cfg e hd (s.drop n) c = .ok (r, a))
    (hk : (cfg.disableKeepalive || r.head.connClose) = false) :
    streamLoop cfg e c (fuel + 1) first s =
      (if mayContinue hd then [SEv.continue100] else []) ++ [.req r, .resp 200 false] ++
        match a with
        | .resync rest => streamLoop cfg e c fuel false rest
        | .closed => []
        | .either rest => .maybeClosed :: streamLoop cfg e c fuel false rest := by
  simp only [streamLoop, hgo, hp, hb, hk, Bool.false_eq_true, if_false]
  cases a <;> rfl
/-! ### obs-fold: continuation lines of a trailer field -/

/-- inside a continuation line: up to and including its LF -/
theorem contAux_inLine (u : Bytes) : ∀ (l : Bytes) (committed cur : Nat), 10 ∉ l → 58 ∉ l →
    contAux committed cur true (l ++ 13 :: 10 :: u) = contAux (committed + (cur + l.length + 1) + 1) 0 false u
  | [], committed, cur, _, _ => by
    simp [contAux]
  | c :: l, committed, cur, h10, h58 => by
    have hc10 : ¬ c = 10 := fun h => h10 (by simp [h])
    have hc58 : ¬ c = 58 := fun h => h58 (by simp [h])
    have := contAux_inLine u l committed (cur + 1) (fun h => h10 (by simp [h])) (fun h => h58 (by simp [h]))
    simp only [List.cons_append, contAux, Bool.not_true, Bool.false_eq_true, if_false, hc10, hc58, this, List.length_cons]
    congr 1
    omega

/-- a continuation line (without its CRLF): starts with a blank, no LF, no colon -/
def TrContOk (l : Bytes) : Prop := 10 ∉ l ∧ 58 ∉ l ∧ ∃ b t, l = b :: t ∧ (b = 32 ∨ b = 9)

/-- the look-ahead commits exactly the continuation lines -/
theorem contAux_lines (t : Bytes) (ht : ∀ c t', t = c :: t' → c ≠ 32 ∧ c ≠ 9) : ∀ (conts : List Bytes) (committed cur : Nat),
    (∀ l ∈ conts, TrContOk l) →
    contAux committed cur false (encLines conts ++ t) = committed + (encLines conts).length
  | [], committed, cur, _ => by
    simp only [encLines, List.nil_append, List.length_nil, Nat.add_zero]
    cases t with
    | nil => rfl
    | cons c t' =>
      obtain ⟨h32, h9⟩ := ht c t' rfl
      simp [contAux, h32, h9]
  | l :: conts, committed, cur, h => by
    obtain ⟨h10, h58, b, l', hl, hb⟩ := h l (by simp)
    subst hl
    have hb' : (b = 32 ∨ b = 9) = True := by simp [hb]
    have h10' : (10 : UInt8) ∉ l' := fun hm => h10 (by simp [hm])
    have h58' : (58 : UInt8) ∉ l' := fun hm => h58 (by simp [hm])
    have ih := contAux_lines t ht conts (committed + (1 + l'.length + 1) + 1) 0 (fun x hx => h x (by simp [hx]))
    have hA := contAux_inLine (encLines conts ++ t) l' committed 1 h10' h58'
    simp only [encLines, List.cons_append, List.append_assoc, contAux, Bool.not_false, hb', if_true]
    rw [hA, ih]
    simp only [List.length_cons, List.length_append]
    omega


/-- one call of the header scanner on a field line followed by continuation text `u` that the
look-ahead commits entirely: the scanner consumes the line and `u` -/
theorem scanNext_line_ext (dn : Bool) (l u t : Bytes) (hl : FieldLineOk l) (hc : contExtra (u ++ t) = u.length) :
    ∃ key value, scanNext dn (l ++ 13 :: 10 :: (u ++ t)) = .kv key value t (l.length + 2 + u.length) := by
  obtain ⟨h10, h58⟩ := hl
  obtain ⟨n, hn, hnl⟩ := indexByte_mem 58 l h58
  have hn' : indexByte 58 (l ++ 13 :: 10 :: (u ++ t)) = some n := indexByte_append 58 l _ n hn
  have hx : indexByte 10 (l ++ 13 :: 10 :: (u ++ t)) = some (l.length + 1) := by
    have := indexByte_at 10 (u ++ t) (l ++ [13]) (by simp [h10])
    simpa using this
  have hA : indexByte 10 ((l ++ 13 :: 10 :: (u ++ t)).drop (n + 1)) = some (l.length + 1 - (n + 1)) :=
    indexByte_drop 10 _ (n + 1) _ hx (by omega)
  have hsp := takeWhile_sp_le _ _ hA
  have hB1 := indexByte_drop 10 _ (((l ++ 13 :: 10 :: (u ++ t)).drop (n + 1)).takeWhile isOWS).length _ hA hsp
  have h1 : ∀ t', l ++ 13 :: 10 :: (u ++ t) ≠ 13 :: 10 :: t' := by
    intro t' h
    cases l with
    | nil => simp at h58
    | cons a l =>
      cases l with
      | nil => simp at h
      | cons b l => simp at h; simp [h.2.1] at h10
  have h2 : ∀ t', l ++ 13 :: 10 :: (u ++ t) ≠ 10 :: t' := by
    intro t' h
    cases l with
    | nil => simp at h
    | cons a l => simp at h; simp [h.1] at h10
  obtain ⟨key, value, hs⟩ := scanNext_kv dn _ h1 h2 _ _ _ hx hn' (by omega) hB1
  refine ⟨key, value, ?_⟩
  rw [hs]
  have hdrop : ∀ j, (((l ++ 13 :: 10 :: (u ++ t)).drop (n + 1)).drop (((l ++ 13 :: 10 :: (u ++ t)).drop (n + 1)).takeWhile isOWS).length).drop
      (l.length + 1 - (n + 1) - (((l ++ 13 :: 10 :: (u ++ t)).drop (n + 1)).takeWhile isOWS).length + j) =
      (l ++ 13 :: 10 :: (u ++ t)).drop (l.length + 1 + j) := by
    intro j
    rw [List.drop_drop, List.drop_drop]
    congr 1
    omega
  have hend : (l ++ 13 :: 10 :: (u ++ t)).drop (l.length + 1 + 1) = u ++ t := by
    have : l ++ 13 :: 10 :: (u ++ t) = (l ++ [13, 10]) ++ (u ++ t) := by simp
    rw [this, List.drop_left' (by simp)]
  have hend2 : (l ++ 13 :: 10 :: (u ++ t)).drop (l.length + 1 + (u.length + 1)) = t := by
    have : l ++ 13 :: 10 :: (u ++ t) = (l ++ [13, 10] ++ u) ++ t := by simp
    rw [this, List.drop_left' (by simp; omega)]
  have hce : contExtra ((((l ++ 13 :: 10 :: (u ++ t)).drop (n + 1)).drop (((l ++ 13 :: 10 :: (u ++ t)).drop (n + 1)).takeWhile isOWS).length).drop
      (l.length + 1 - (n + 1) - (((l ++ 13 :: 10 :: (u ++ t)).drop (n + 1)).takeWhile isOWS).length + 1)) = u.length := by
    rw [hdrop 1, hend]; exact hc
  rw [hce, Nat.add_assoc _ u.length 1, hdrop (u.length + 1), hend2]
  congr 1
  omega

/-- a trailer field: its line and its continuation lines -/
abbrev TrField := Bytes × List Bytes

def TrField.Ok (f : TrField) : Prop := TrFieldOk f.1 ∧ ∀ l ∈ f.2, TrContOk l

/-- the lines of a list of fields, in wire order -/
def fieldLines : List TrField → List Bytes
  | [] => []
  | f :: fs => f.1 :: (f.2 ++ fieldLines fs)

theorem encLines_append : ∀ a b : List Bytes, encLines (a ++ b) = encLines a ++ encLines b
  | [], b => rfl
  | l :: a, b => by simp [encLines, encLines_append a b]

theorem noCont_after (rest : Bytes) (fs : List TrField) (h : ∀ f ∈ fs, TrField.Ok f) :
    ∀ c t', encLines (fieldLines fs) ++ 13 :: 10 :: rest = c :: t' → c ≠ 32 ∧ c ≠ 9 := by
  intro c t' heq
  cases fs with
  | nil =>
    simp only [fieldLines, encLines, List.nil_append, List.cons.injEq] at heq
    rw [← heq.1]; decide
  | cons f fs' =>
    obtain ⟨⟨_, h58, hhd⟩, _⟩ := h f (by simp)
    cases hf : f.1 with
    | nil => simp [hf] at h58
    | cons a l' =>
      simp only [fieldLines, encLines, hf, List.cons_append, List.cons.injEq] at heq
      rw [← heq.1]; exact hhd a l' hf

theorem parseTrailerLoop_fields (dn : Bool) (rest : Bytes) : ∀ (fs : List TrField) (fuel : Nat)
    (tr : List (Bytes × Option Bytes)) (err : Bool) (hlen : Nat),
    (∀ f ∈ fs, TrField.Ok f) → fs.length + 1 ≤ fuel →
    parseTrailerLoop dn fuel (encLines (fieldLines fs) ++ 13 :: 10 :: rest) tr err hlen = .error .bad ∨
    ∃ tr', parseTrailerLoop dn fuel (encLines (fieldLines fs) ++ 13 :: 10 :: rest) tr err hlen =
      .ok (tr', hlen + (encLines (fieldLines fs)).length + 2)
  | _, 0, _, _, _, _, hf => by omega
  | [], fuel + 1, tr, err, hlen, _, _ => by
    simp only [fieldLines, encLines, List.nil_append, parseTrailerLoop, scanNext, List.length_nil, Nat.add_zero]
    cases err
    · exact Or.inr ⟨tr, by simp⟩
    · exact Or.inl (by simp)
  | f :: fs, fuel + 1, tr, err, hlen, h, hf => by
    obtain ⟨hfl, hconts⟩ := h f (by simp)
    have hfs : ∀ x ∈ fs, TrField.Ok x := fun x hx => h x (by simp [hx])
    have hc : contExtra (encLines f.2 ++ (encLines (fieldLines fs) ++ 13 :: 10 :: rest)) = (encLines f.2).length := by
      have := contAux_lines _ (noCont_after rest fs hfs) f.2 0 0 hconts
      simpa [contExtra] using this
    obtain ⟨key, value, hs⟩ := scanNext_line_ext dn f.1 (encLines f.2) (encLines (fieldLines fs) ++ 13 :: 10 :: rest)
      ⟨hfl.1, hfl.2.1⟩ hc
    have heq : encLines (fieldLines (f :: fs)) ++ 13 :: 10 :: rest =
        f.1 ++ 13 :: 10 :: (encLines f.2 ++ (encLines (fieldLines fs) ++ 13 :: 10 :: rest)) := by
      simp [fieldLines, encLines, encLines_append]
    rw [heq]
    obtain ⟨tr', err', hstep⟩ := parseTrailerLoop_kv dn fuel _ tr err hlen key value _ _ hs
    rw [hstep]
    have := parseTrailerLoop_fields dn rest fs fuel tr' err' (hlen + (f.1.length + 2 + (encLines f.2).length)) hfs
      (by simp at hf; omega)
    have hlen' : hlen + (f.1.length + 2 + (encLines f.2).length) + (encLines (fieldLines fs)).length + 2 =
        hlen + (f.1 ++ 13 :: 10 :: (encLines f.2 ++ encLines (fieldLines fs))).length + 2 := by
      simp only [List.length_append, List.length_cons]; omega
    have hl2 : (encLines (fieldLines (f :: fs))).length = (f.1 ++ 13 :: 10 :: (encLines f.2 ++ encLines (fieldLines fs))).length := by
      simp [fieldLines, encLines, encLines_append]
    rw [hlen'] at this
    rw [hl2]
    exact this

theorem TrContOk.lineOk {l : Bytes} (h : TrContOk l) : TrLineOk l := by
  obtain ⟨h10, _, b, t, hl, _⟩ := h
  exact ⟨by rw [hl]; simp, h10⟩

theorem fieldLines_lineOk : ∀ (fs : List TrField), (∀ f ∈ fs, TrField.Ok f) → ∀ l ∈ fieldLines fs, TrLineOk l
  | [], _, l, hl => by simp [fieldLines] at hl
  | f :: fs, h, l, hl => by
    obtain ⟨hf, hc⟩ := h f (by simp)
    simp only [fieldLines, List.mem_cons, List.mem_append] at hl
    rcases hl with hl | hl | hl
    · rw [hl]; exact hf.lineOk
    · exact (hc l hl).lineOk
    · exact fieldLines_lineOk fs (fun x hx => h x (by simp [hx])) l hl

theorem length_le_fieldLines : ∀ fs : List TrField, fs.length ≤ (fieldLines fs).length
  | [] => by simp [fieldLines]
  | f :: fs => by
    have := length_le_fieldLines fs
    simp only [fieldLines, List.length_cons, List.length_append]; omega

/-- `ReadTrailer` on a trailer section of fields with obs-fold continuation lines: rejected, or consumed
exactly -/
theorem readTrailerReq_fields (cfg : Cfg) (e : End) (names : List Bytes) (fs : List TrField) (rest : Bytes)
    (h : ∀ f ∈ fs, TrField.Ok f) :
    TrailerReadExact cfg e names (encTrailer (fieldLines fs)) rest := by
  intro o r' hr
  have hne : (encTrailer (fieldLines fs) ++ rest).isEmpty = false := by
    cases hfl : fieldLines fs <;> simp [encTrailer, encLines]
  have hbuf : encTrailer (fieldLines fs) ++ rest = encLines (fieldLines fs) ++ 13 :: 10 :: rest := by simp [encTrailer]
  have hpt := parseTrailer_lines cfg.disableNorm (names.map (fun k => (k, none))) (fieldLines fs) rest
    (fun l ls' hl => by
      cases fs with
      | nil => simp [fieldLines] at hl
      | cons f fs' =>
        simp only [fieldLines, List.cons.injEq] at hl
        have := (h f (by simp)).1
        rw [← hl.1]; exact ⟨this.1, this.2.1⟩)
  have hfuel : fs.length + 1 ≤ (encTrailer (fieldLines fs) ++ rest).length + 1 := by
    have h1 := length_le_encLines (fieldLines fs)
    have h2 := length_le_fieldLines fs
    simp only [encTrailer, List.length_append]; omega
  simp only [readTrailerReq, hne, Bool.false_eq_true, if_false, hpt] at hr
  rw [hbuf] at hr hfuel
  rcases parseTrailerLoop_fields cfg.disableNorm rest fs _ (names.map (fun k => (k, none))) false 0 h hfuel with hb | ⟨tr', hok⟩
  · rw [hb] at hr; simp at hr
  · rw [hok] at hr
    simp only [Except.ok.injEq, Prod.mk.injEq] at hr
    obtain ⟨ho, hr'⟩ := hr
    refine ⟨by rw [← ho]; rfl, ?_⟩
    rw [← hr']
    have : encLines (fieldLines fs) ++ 13 :: 10 :: rest = (encLines (fieldLines fs) ++ [13, 10]) ++ rest := by simp
    rw [this, List.drop_left' (by simp)]

end Hertz.H1.Stream
