import Hertz.Model.Args
import Hertz.Spec.UrlQuery
import Hertz.Proofs.Bytesconv
import Hertz.Proofs.Args
/-!
Lemmas for `C17.args_agree_std`: hertz's `Args.ParseBytes` (`Model/Args.lean`) against the reference model of
`net/url` (`Spec/UrlQuery.lean`).
-/
namespace Hertz
open Hertz.Spec.UrlQuery

/-! ### hex digits: hertz's `Hex2intTable` against `ishex`/`unhex` of net/url (all 256 bytes) -/

set_option maxRecDepth 100000 in
theorem tbl_hex2int_std :
    allBytes (fun c => ((hex2int c == 16) == !ishex c) && (!ishex c || hex2int c == unhex c)) = true := by
  decide +kernel

theorem hex2int_ne16_of_ishex (c : UInt8) (h : ishex c = true) : hex2int c ≠ 16 := by
  have := allBytes_spec tbl_hex2int_std c
  simp [h] at this
  exact this.1

theorem hex2int_eq_unhex (c : UInt8) (h : ishex c = true) : hex2int c = unhex c := by
  have := allBytes_spec tbl_hex2int_std c
  simp [h] at this
  exact this.2

theorem hex2int_eq16_iff (c : UInt8) : hex2int c = 16 ↔ ishex c = false := by
  have := allBytes_spec tbl_hex2int_std c
  cases hc : ishex c with
  | false => simp [hc] at this; simp [this]
  | true => simp [hc] at this; simpa using this.1

/-! ### `QueryUnescape` -/

/-- On a string that passes the first loop of `unescape`, the second loop does not run out of the string and
writes exactly what hertz's slow decoder writes. -/
theorem unescapeBuild_of_scan : ∀ (s : Bytes) (r : Nat × Bool), unescapeScan s = some r →
    unescapeBuild s = some (decodeSlow true s)
  | [], _, _ => by simp [unescapeBuild, decodeSlow]
  | [c], r, h => by
    by_cases hc : c = 37
    · simp [unescapeScan, hc] at h
    · by_cases hp : c = 43 <;> simp [unescapeBuild, decodeSlow, hc, hp]
  | [c, d], r, h => by
    by_cases hc : c = 37
    · simp [unescapeScan, hc] at h
    · simp only [unescapeScan, hc, if_false, Option.map_eq_some_iff] at h
      obtain ⟨r', hr', _⟩ := h
      have ih := unescapeBuild_of_scan [d] r' hr'
      by_cases hp : c = 43 <;> simp [unescapeBuild, decodeSlow, hc, hp] at ih ⊢ <;> exact ih
  | c :: a :: b :: rest, r, h => by
    by_cases hc : c = 37
    · subst hc
      simp only [unescapeScan, if_true] at h
      cases ha : ishex a <;> cases hb : ishex b <;>
        simp only [ha, hb, Bool.not_true, Bool.not_false, Bool.or_true, Bool.true_or, Bool.or_self, if_true,
          Bool.false_eq_true, if_false, Option.map_eq_some_iff, reduceCtorEq] at h
      obtain ⟨⟨n, p⟩, hr', _⟩ := h
      have ih := unescapeBuild_of_scan rest (n, p) hr'
      rw [decodeSlow_pct true a b rest (hex2int_ne16_of_ishex a ha) (hex2int_ne16_of_ishex b hb)]
      simp [unescapeBuild, ih, hex2int_eq_unhex a ha, hex2int_eq_unhex b hb]
    · simp only [unescapeScan, hc, if_false, Option.map_eq_some_iff] at h
      obtain ⟨r', hr', _⟩ := h
      have ih := unescapeBuild_of_scan (a :: b :: rest) r' hr'
      by_cases hp : c = 43
      · subst hp
        rw [decodeSlow_plus]
        simp [unescapeBuild, ih]
      · rw [decodeSlow_plain true c _ hc hp]
        simp [unescapeBuild, hc, hp, ih]

/-- Go's second loop cannot index out of range after the first loop has accepted the string. -/
theorem unescapeBuild_isSome_of_scan (s : Bytes) (r : Nat × Bool) (h : unescapeScan s = some r) :
    (unescapeBuild s).isSome = true := by
  rw [unescapeBuild_of_scan s r h]; rfl

/-- `n == 0 && !hasPlus` after the first loop means: no `%` and no `+` in the string. -/
theorem unescapeScan_zero : ∀ (s : Bytes) (r : Nat × Bool), unescapeScan s = some r → r.1 = 0 → r.2 = false →
    s.contains 37 = false ∧ s.contains 43 = false
  | [], _, _, _, _ => by simp
  | [c], r, h, _, h2 => by
    by_cases hc : c = 37
    · simp [unescapeScan, hc] at h
    · simp only [unescapeScan, hc, if_false, Option.some.injEq] at h
      subst h
      simp only [beq_eq_false_iff_ne, ne_eq] at h2
      simp [hc, h2, eq_comm]
  | [c, d], r, h, h1, h2 => by
    by_cases hc : c = 37
    · simp [unescapeScan, hc] at h
    · simp only [unescapeScan, hc, if_false, Option.map_eq_some_iff] at h
      obtain ⟨r', hr', he⟩ := h
      subst he
      simp only [Bool.or_eq_false_iff, beq_eq_false_iff_ne, ne_eq] at h2
      have ih := unescapeScan_zero [d] r' hr' h1 h2.1
      simp only [List.contains_cons, Bool.or_eq_false_iff, beq_eq_false_iff_ne, ne_eq] at ih ⊢
      exact ⟨⟨fun h => hc h.symm, ih.1⟩, ⟨fun h => h2.2 h.symm, ih.2⟩⟩
  | c :: a :: b :: rest, r, h, h1, h2 => by
    by_cases hc : c = 37
    · subst hc
      simp only [unescapeScan, if_true] at h
      split at h
      · simp at h
      · simp only [Option.map_eq_some_iff] at h
        obtain ⟨r', _, he⟩ := h
        subst he
        simp at h1
    · simp only [unescapeScan, hc, if_false, Option.map_eq_some_iff] at h
      obtain ⟨r', hr', he⟩ := h
      subst he
      simp only [Bool.or_eq_false_iff, beq_eq_false_iff_ne, ne_eq] at h2
      have ih := unescapeScan_zero (a :: b :: rest) r' hr' h1 h2.1
      rw [List.contains_cons, List.contains_cons (a := c) (l := a :: b :: rest)]
      simp only [Bool.or_eq_false_iff, beq_eq_false_iff_ne, ne_eq]
      exact ⟨⟨fun h => hc h.symm, ih.1⟩, ⟨fun h => h2.2 h.symm, ih.2⟩⟩

/-- Where `url.QueryUnescape` succeeds, hertz's `decodeArgAppend` returns the same bytes. -/
theorem decodeArg_of_unescape (s r : Bytes) (h : unescape s = some r) : decodeArg s = r := by
  unfold unescape at h
  rw [decodeArg_eq_slow]
  cases hs : unescapeScan s with
  | none => simp [hs] at h
  | some np =>
    obtain ⟨n, p⟩ := np
    simp only [hs] at h
    split at h
    · rename_i hz
      simp only [Bool.and_eq_true, beq_iff_eq, Bool.not_eq_true'] at hz
      obtain ⟨h37, h43⟩ := unescapeScan_zero s (n, p) hs hz.1 hz.2
      simp only [Option.some.injEq] at h
      rw [decodeSlow_id true s h37 (fun _ => h43)]; exact h
    · rw [unescapeBuild_of_scan s (n, p) hs] at h
      exact (Option.some.inj h)

theorem unescape_nil : unescape [] = some [] := by decide

/-! ### `strings.Cut` -/

theorem cut1_eq_cutByte (sep : UInt8) (s : Bytes) :
    cut1 sep s = ((cutByte sep s).1, if (cutByte sep s).2.2 then some (cutByte sep s).2.1 else none) := by
  induction s with
  | nil => rfl
  | cons c t ih =>
    by_cases hc : c = sep
    · simp [cut1, cutByte, hc]
    · simp only [cut1, cutByte, hc, if_false, ih]

theorem cutByte_notFound (sep : UInt8) (s : Bytes) (h : (cutByte sep s).2.2 = false) : (cutByte sep s).2.1 = [] := by
  induction s with
  | nil => rfl
  | cons c t ih =>
    by_cases hc : c = sep
    · simp [cutByte, hc] at h
    · simp only [cutByte, hc, if_false] at h ⊢
      exact ih h

theorem cutByte_rest_length (sep : UInt8) (s : Bytes) (h : s ≠ []) : (cutByte sep s).2.1.length < s.length := by
  induction s with
  | nil => exact absurd rfl h
  | cons c t ih =>
    by_cases hc : c = sep
    · simp [cutByte, hc]
    · simp only [cutByte, hc, if_false, List.length_cons]
      match t, ih with
      | [], _ => simp [cutByte]
      | d :: r, ih => have := ih (by simp); omega

/-- The `key`s that the loop of `parseQuery` cuts off are the segments hertz's scanner visits. -/
theorem argSegs_cutByte (q : Bytes) (h : q ≠ []) :
    argSegs q = (cutByte 38 q).1 :: argSegs (cutByte 38 q).2.1 := by
  induction q with
  | nil => exact absurd rfl h
  | cons c t ih =>
    by_cases hc : c = 38
    · simp [argSegs, cutByte, hc]
    · simp only [argSegs, cutByte, hc, if_false]
      match t, ih with
      | [], _ => simp [argSegs, cutByte]
      | d :: r, ih => rw [ih (by simp)]

/-! ### one segment -/

/-- key and value of an entry, as `VisitAll` hands them out -/
def ArgKV.pair (kv : ArgKV) : Bytes × Bytes := (kv.key, kv.value)

/-- "not both key and value empty": the entries hertz keeps (`ArgKV.bothEmpty` on pairs). -/
def pairNonEmpty (p : Bytes × Bytes) : Bool := !(p.1.isEmpty && p.2.isEmpty)

theorem pairNonEmpty_pair (kv : ArgKV) : pairNonEmpty kv.pair = !kv.bothEmpty := rfl

theorem parseSeg_of_parseSegment_pair (seg k v : Bytes) (h : parseSegment seg = .pair k v) :
    (parseSeg seg).pair = (k, v) := by
  unfold parseSegment at h
  split at h
  · cases h
  split at h
  · cases h
  simp only at h
  cases hk : unescape (cutByte 61 seg).1 with
  | none => simp [hk] at h
  | some k' =>
    cases hv : unescape (cutByte 61 seg).2.1 with
    | none => simp [hk, hv] at h
    | some v' =>
      simp only [hk, hv, Seg.pair.injEq] at h
      obtain ⟨rfl, rfl⟩ := h
      have hdk := decodeArg_of_unescape _ _ hk
      have hdv := decodeArg_of_unescape _ _ hv
      unfold parseSeg
      rw [cut1_eq_cutByte]
      cases hf : (cutByte 61 seg).2.2 with
      | true => simp [ArgKV.pair, hdk, hdv]
      | false =>
        have hnil := cutByte_notFound 61 seg hf
        rw [hnil] at hv
        rw [unescape_nil] at hv
        cases hv
        simp [ArgKV.pair, hdk]

theorem parseSegment_skip (seg : Bytes) (h : parseSegment seg = .skip) : seg = [] := by
  unfold parseSegment at h
  split at h
  · cases h
  split at h
  · rename_i he; simpa using he
  · simp only at h
    split at h
    · cases h
    · split at h <;> cases h

theorem parseSeg_nil_bothEmpty : (parseSeg []).bothEmpty = true := by decide

/-! ### the loop -/

/-- hertz's entries as pairs, written as the composition the induction runs over -/
def segPairs (segs : List Bytes) : List (Bytes × Bytes) :=
  ((segs.map parseSeg).filter (fun kv => !kv.bothEmpty)).map ArgKV.pair

theorem segPairs_cons (seg : Bytes) (segs : List Bytes) :
    segPairs (seg :: segs) =
      (if (parseSeg seg).bothEmpty then [] else [(parseSeg seg).pair]) ++ segPairs segs := by
  unfold segPairs
  cases h : (parseSeg seg).bothEmpty <;> simp [h]

theorem parseArgs_pairs (s : Bytes) : (parseArgs s).map ArgKV.pair = segPairs (argSegs s) := rfl

/-- If the loop of `parseQuery` ends without an error, the pairs it appended - those with both key and value empty
excepted - are hertz's entries, in the same order. -/
theorem parseQueryLoop_agree : ∀ (fuel : Nat) (q : Bytes), q.length ≤ fuel → (parseQueryLoop fuel q).2 = false →
    segPairs (argSegs q) = (parseQueryLoop fuel q).1.filter pairNonEmpty
  | 0, q, hl, _ => by
    have : q = [] := List.eq_nil_of_length_eq_zero (by omega)
    subst this
    simp [parseQueryLoop, argSegs, segPairs]
  | fuel + 1, q, hl, herr => by
    by_cases hq : q = []
    · subst hq
      simp [parseQueryLoop, argSegs, segPairs]
    · have hlen := cutByte_rest_length 38 q hq
      have hl' : (cutByte 38 q).2.1.length ≤ fuel := by omega
      have hne : q.isEmpty = false := by cases q <;> simp_all
      rw [argSegs_cutByte q hq, segPairs_cons]
      simp only [parseQueryLoop, hne, Bool.false_eq_true, if_false] at herr ⊢
      cases hs : parseSegment (cutByte 38 q).1 with
      | err => simp [hs] at herr
      | skip =>
        simp only [hs] at herr ⊢
        rw [parseSegment_skip _ hs, parseSeg_nil_bothEmpty]
        simpa using parseQueryLoop_agree fuel _ hl' herr
      | pair k v =>
        simp only [hs] at herr ⊢
        have hp := parseSeg_of_parseSegment_pair _ k v hs
        have ih := parseQueryLoop_agree fuel _ hl' herr
        have hb : (parseSeg (cutByte 38 q).1).bothEmpty = !pairNonEmpty (k, v) := by
          rw [← hp, pairNonEmpty_pair]; simp
        rw [hb, hp, ih, List.filter_cons]
        cases pairNonEmpty (k, v) <;> simp

/-- `args_agree_std`, lemma form. -/
theorem parseArgs_agree_stdParse (s : Bytes) (l : List (Bytes × Bytes)) (h : stdParse s = some l) :
    (parseArgs s).map ArgKV.pair = l.filter pairNonEmpty := by
  unfold stdParse at h
  simp only at h
  split at h
  · cases h
  · rename_i he
    cases h
    rw [parseArgs_pairs]
    exact parseQueryLoop_agree s.length s (Nat.le_refl _) (by simpa using he)

/-! ### which strings `url.ParseQuery` accepts, spelled out -/

/-- the two bytes after a `%` are hex digits -/
def twoHex : Bytes → Bool
  | a :: b :: _ => ishex a && ishex b
  | _ => false

/-- Every `%` in the string is followed by two hex digits. -/
def escapesOk : Bytes → Bool
  | [] => true
  | c :: t => (c != 37 || twoHex t) && escapesOk t

/-- What `url.ParseQuery` accepts (`stdParse_isSome_iff`): no `;` anywhere and no malformed escape. -/
def stdAccepts (s : Bytes) : Bool := !s.contains 59 && escapesOk s

set_option maxRecDepth 100000 in
theorem tbl_ishex_not_special :
    allBytes (fun c => !ishex c || (c != 37 && c != 38 && c != 61 && c != 59 && c != 43)) = true := by decide +kernel

theorem ishex_ne (c : UInt8) (h : ishex c = true) : c ≠ 37 ∧ c ≠ 38 ∧ c ≠ 61 := by
  have := allBytes_spec tbl_ishex_not_special c
  simp [h, and_assoc] at this
  exact ⟨this.1, this.2.1, this.2.2.1⟩

theorem escapesOk_cons_ne (c : UInt8) (t : Bytes) (h : c ≠ 37) : escapesOk (c :: t) = escapesOk t := by
  simp [escapesOk, h]

theorem escapesOk_pct (t : Bytes) : escapesOk (37 :: t) = (twoHex t && escapesOk t) := by
  simp [escapesOk]

theorem unescapeScan_isSome : ∀ s : Bytes, (unescapeScan s).isSome = escapesOk s
  | [] => rfl
  | [c] => by by_cases hc : c = 37 <;> simp [unescapeScan, escapesOk, twoHex, hc]
  | [c, d] => by
    by_cases hc : c = 37
    · simp [unescapeScan, escapesOk, twoHex, hc]
    · by_cases hd : d = 37 <;> simp [unescapeScan, escapesOk, twoHex, hc, hd]
  | c :: a :: b :: rest => by
    by_cases hc : c = 37
    · subst hc
      have ih := unescapeScan_isSome rest
      simp only [unescapeScan, if_true]
      rw [escapesOk_pct]
      cases ha : ishex a with
      | false => simp [twoHex, ha]
      | true =>
        cases hb : ishex b with
        | false => simp [twoHex, ha, hb]
        | true =>
          rw [escapesOk_cons_ne a _ (ishex_ne a ha).1, escapesOk_cons_ne b _ (ishex_ne b hb).1]
          simp [twoHex, ha, hb, ih]
    · have ih := unescapeScan_isSome (a :: b :: rest)
      simp only [unescapeScan, hc, if_false, Option.isSome_map, ih]
      rw [escapesOk_cons_ne c _ hc]

theorem unescape_isSome (s : Bytes) : (unescape s).isSome = escapesOk s := by
  rw [← unescapeScan_isSome]
  unfold unescape
  cases hs : unescapeScan s with
  | none => rfl
  | some np =>
    obtain ⟨n, p⟩ := np
    simp only [Option.isSome_some]
    split
    · rfl
    · exact unescapeBuild_isSome_of_scan s (n, p) hs

theorem twoHex_cutByte (sep : UInt8) (hs : ishex sep = false) (t : Bytes) : twoHex (cutByte sep t).1 = twoHex t := by
  match t with
  | [] => rfl
  | [a] => by_cases ha : a = sep <;> simp [cutByte, twoHex, ha]
  | a :: b :: r =>
    by_cases ha : a = sep
    · simp [cutByte, twoHex, ha, hs]
    · by_cases hb : b = sep
      · simp [cutByte, twoHex, ha, hb, hs]
      · simp [cutByte, twoHex, ha, hb]

/-- A separator that is neither `%` nor a hex digit splits the check. -/
theorem escapesOk_cutByte (sep : UInt8) (hs : ishex sep = false) (h37 : sep ≠ 37) (q : Bytes) :
    escapesOk q = (escapesOk (cutByte sep q).1 && escapesOk (cutByte sep q).2.1) := by
  induction q with
  | nil => rfl
  | cons c t ih =>
    by_cases hc : c = sep
    · subst hc; simp [cutByte, escapesOk, h37]
    · simp only [cutByte, hc, if_false, escapesOk, twoHex_cutByte sep hs t, ih, Bool.and_assoc]

theorem contains_cutByte (x sep : UInt8) (hx : sep ≠ x) (q : Bytes) :
    q.contains x = ((cutByte sep q).1.contains x || (cutByte sep q).2.1.contains x) := by
  induction q with
  | nil => rfl
  | cons c t ih =>
    by_cases hc : c = sep
    · subst hc
      simp only [cutByte, if_true, List.contains_cons, List.contains_nil, Bool.false_or]
      have : (x == c) = false := by simpa using hx.symm
      rw [this, Bool.false_or]
    · simp only [cutByte, hc, if_false, List.contains_cons, ih, Bool.or_assoc]

theorem parseSegment_err_iff (seg : Bytes) : parseSegment seg = .err ↔ stdAccepts seg = false := by
  unfold parseSegment stdAccepts
  cases h59 : seg.contains 59 with
  | true => simp
  | false =>
    simp only [Bool.false_eq_true, if_false, Bool.not_false, Bool.true_and]
    by_cases he : seg.isEmpty = true
    · have : seg = [] := by simpa using he
      subst this; simp [escapesOk]
    · simp only [he]
      rw [escapesOk_cutByte 61 (by decide) (by decide) seg, ← unescape_isSome, ← unescape_isSome]
      cases unescape (cutByte 61 seg).1 <;> cases unescape (cutByte 61 seg).2.1 <;> simp

/-- The loop of `parseQuery` ends with an error exactly on the strings outside `stdAccepts`. -/
theorem parseQueryLoop_err : ∀ (fuel : Nat) (q : Bytes), q.length ≤ fuel →
    (parseQueryLoop fuel q).2 = !stdAccepts q
  | 0, q, hl => by
    have : q = [] := List.eq_nil_of_length_eq_zero (by omega)
    subst this; rfl
  | fuel + 1, q, hl => by
    by_cases hq : q = []
    · subst hq; rfl
    · have hlen := cutByte_rest_length 38 q hq
      have hl' : (cutByte 38 q).2.1.length ≤ fuel := by omega
      have hne : q.isEmpty = false := by cases q <;> simp_all
      have ih := parseQueryLoop_err fuel _ hl'
      have hacc : stdAccepts q = (stdAccepts (cutByte 38 q).1 && stdAccepts (cutByte 38 q).2.1) := by
        unfold stdAccepts
        rw [contains_cutByte 59 38 (by decide) q, escapesOk_cutByte 38 (by decide) (by decide) q]
        cases (cutByte 38 q).1.contains 59 <;> cases (cutByte 38 q).2.1.contains 59 <;>
          cases escapesOk (cutByte 38 q).1 <;> rfl
      simp only [parseQueryLoop, hne, Bool.false_eq_true, if_false]
      rw [hacc]
      have hseg := parseSegment_err_iff (cutByte 38 q).1
      cases hs : parseSegment (cutByte 38 q).1 with
      | err => simp [hseg.mp hs]
      | skip =>
        have : stdAccepts (cutByte 38 q).1 = true := by
          cases ha : stdAccepts (cutByte 38 q).1 with
          | true => rfl
          | false => rw [hseg.mpr ha] at hs; cases hs
        simp [ih, this]
      | pair k v =>
        have : stdAccepts (cutByte 38 q).1 = true := by
          cases ha : stdAccepts (cutByte 38 q).1 with
          | true => rfl
          | false => rw [hseg.mpr ha] at hs; cases hs
        simp [ih, this]

/-- `url.ParseQuery(s)` returns no error iff `s` contains no `;` and every `%` in it is followed by two hex digits. -/
theorem stdParse_isSome_iff (s : Bytes) : (stdParse s).isSome = stdAccepts s := by
  unfold stdParse
  simp only [parseQueryLoop_err s.length s (Nat.le_refl _)]
  cases stdAccepts s <;> rfl

/-- Every entry hertz's parser flags "no value" has an empty value (the invariant `args_roundtrip` asks for). -/
theorem parseArgs_wf (s : Bytes) : ∀ kv ∈ parseArgs s, kv.noValue = true → kv.value = [] := by
  intro kv hkv hn
  unfold parseArgs at hkv
  simp only [List.mem_filter, List.mem_map] at hkv
  obtain ⟨⟨seg, _, rfl⟩, _⟩ := hkv
  unfold parseSeg at hn ⊢
  split at hn <;> simp_all

/-- `args_agree_std` with the accepted region spelled out. -/
theorem parseArgs_agree_explicit (s : Bytes) (h59 : s.contains 59 = false) (hesc : escapesOk s = true) :
    ∃ l, stdParse s = some l ∧ (parseArgs s).map ArgKV.pair = l.filter pairNonEmpty := by
  have h : (stdParse s).isSome = true := by
    rw [stdParse_isSome_iff]; unfold stdAccepts; rw [h59, hesc]; rfl
  obtain ⟨l, hl⟩ := Option.isSome_iff_exists.mp h
  exact ⟨l, hl, parseArgs_agree_stdParse s l hl⟩

/-- `parse(serialise(parse b)) = parse b` -/
theorem parseArgs_fixed_point (s : Bytes) : parseArgs (appendArgs (parseArgs s)) = parseArgs s := by
  rw [parseArgs_appendArgs _ (parseArgs_wf s)]
  unfold parseArgs
  rw [List.filter_filter]
  simp

end Hertz
