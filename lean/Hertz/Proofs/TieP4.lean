import Hertz.Proofs.Tie
import Hertz.Model.Fs
import Hertz.Proofs.Fs
/-!
Tie of `Gen.Funcs.parseByteRange` (generated from `ParseByteRange`, `pkg/app/fs.go`) to `FS.parseByteRange`.
The callee `parseUint` is taken as a hypothesis (`hU`), proved in `TieP1.lean`.
-/
open Hertz

namespace Hertz.Tie

/-! Helpers and views live in `Hertz.Tie.BR` (the sibling `TieP*.lean` files define lemmas of the same names). -/
namespace BR

/-- name of the Go error variable behind a `FS.UErr` -/
def errName : FS.UErr → String
  | .empty => "errEmptyInt"
  | .firstChar => "errUnexpectedFirstChar"
  | .tooLong => "errTooLongInt"
  | .trailing => "errUnexpectedTrailingChar"

/-- the Go result `(v, err)` of `ParseUint` for a model result -/
def viewU : Except FS.UErr Int → Int × Option String
  | .ok v => (v, none)
  | .error e => (-1, some (errName e))

/-- the model's reading of a Go result `(startPos, endPos, err)` of `ParseByteRange`: `err == nil` is the range,
`err != nil` (whatever its text) is `Fault.bad` -/
def viewBR : Int × Int × Option String → Except FS.Fault (Int × Int)
  | (s, e, none) => .ok (s, e)
  | (_, _, some _) => .error .bad

/-- on an error the Go function returns `(0, 0, err)` -/
def viewZ (r : Int × Int × Option String) : Bool := r.2.2 == none || (r.1 == 0 && r.2.1 == 0)

/-- both readings at once (the lemmas below are stated for this one) -/
def viewBoth (r : Int × Int × Option String) : Except FS.Fault (Int × Int) × Bool := (viewBR r, viewZ r)

theorem indexByteNat_eq (c : UInt8) (b : Bytes) : Go.indexByteNat c b = FS.indexByte c b := by
  induction b with
  | nil => rfl
  | cons x t ih => simp [Go.indexByteNat, FS.indexByte, ih]

theorem sliceFrom_ok (b : Bytes) (i : Nat) (h : i ≤ b.length) : Go.sliceFrom b (i : Int) = .ok (b.drop i) := by
  have : (i : Int) ≤ (b.length : Int) := by omega
  simp [Go.sliceFrom, Go.slice, Go.len, this]

theorem sliceTo_ok (b : Bytes) (i : Nat) (h : i ≤ b.length) : Go.sliceTo b (i : Int) = .ok (b.take i) := by
  have : (i : Int) ≤ (b.length : Int) := by omega
  simp [Go.sliceTo, Go.slice, Go.len, this]

theorem sub_id {a b : Int} (ha : 0 ≤ a ∧ a < 2^63) (hb : 0 ≤ b ∧ b < 2^63) : Go.sub a b = a - b := by
  unfold Go.sub; exact wrap_id (by omega) (by omega)

/-- the `bytes=-N` branch (fs.go:1114-1124) after `b[n+1:]` -/
theorem suffix_tie (hU : ∀ b : Bytes, b.length < 2^63 → Gen.Funcs.parseUint b = .ok (viewU (FS.parseUint b)))
    (t : Bytes) (contentLength : Int) (ht : t.length < 2^63) (hcl : 0 ≤ contentLength ∧ contentLength < 2^63) :
    (Except.bind (Gen.Funcs.parseUint t) (fun (t_12, t_13) =>
                    let v : Int := t_12
                    let err : Option String := t_13
                    (if (err != (none : Option String)) then
                      (Except.ok ((0 : Int), (0 : Int), err))
                      else
                      (if ((v == (0 : Int)) || (contentLength == (0 : Int))) then
                        (Except.ok ((0 : Int), (0 : Int), (some "fmt.Errorf" : Option String)))
                        else
                        let startPos : Int := (Go.sub contentLength v)
                        (if (decide (startPos < (0 : Int))) then
                        let startPos : Int := (0 : Int)
                        (Except.ok (startPos, (Go.sub contentLength (1 : Int)), (none : Option String)))
                        else
                        (Except.ok (startPos, (Go.sub contentLength (1 : Int)), (none : Option String)))))))).map viewBoth =
      .ok (match FS.parseUint t with
        | .error _ => .error .bad
        | .ok v => if v == 0 || contentLength == 0 then .error .bad else .ok (FS.suffixRange contentLength v), true) := by
  rw [hU t ht]
  cases h : FS.parseUint t with
  | error e => simp [viewU, Except.bind, Except.map, viewBR, viewZ, viewBoth]
  | ok v =>
    have hv := FS.parseUint_ok h
    have hv' : 0 ≤ v ∧ v < 2^63 := by omega
    simp only [viewU, Except.bind, bne_self_eq_false, Bool.false_eq_true, if_false]
    by_cases hz : (v == 0 || contentLength == 0) = true
    · simp only [hz, if_true]; rfl
    · have h1 : Go.sub contentLength 1 = contentLength - 1 := sub_id hcl (by omega)
      simp only [hz, sub_id hcl hv', h1]
      unfold FS.suffixRange
      by_cases hn : contentLength - v < 0 <;> simp [hn, Except.map, viewBR, viewZ, viewBoth]

theorem bind_ok {ε α β : Type} (x : α) (f : α → Except ε β) : Except.bind (Except.ok x : Except ε α) f = f x := rfl

theorem add_one_id (n : Nat) (h : n < 2^63 - 1) : Go.add (n : Int) 1 = ((n + 1 : Nat) : Int) := by
  unfold Go.add; rw [wrap_id (by omega) (by omega)]; simp

/-- the `bytes=A-` / `bytes=A-B` branch (fs.go:1126-1147) after `b[:n]` -/
theorem fromTo_tie (hU : ∀ b : Bytes, b.length < 2^63 → Gen.Funcs.parseUint b = .ok (viewU (FS.parseUint b)))
    (b : Bytes) (n : Nat) (contentLength : Int) (hn : n < b.length) (hb : b.length < 2^63)
    (hcl : -2^63 ≤ contentLength ∧ contentLength < 2^63) :
    (Except.bind (Gen.Funcs.parseUint (b.take n)) (fun (t_6, t_7) =>
                    let startPos : Int := t_6
                    let err : Option String := t_7
                    (if (err != (none : Option String)) then
                      (Except.ok ((0 : Int), (0 : Int), err))
                      else
                      (if (decide (startPos ≥ contentLength)) then
                        (Except.ok ((0 : Int), (0 : Int), (some "fmt.Errorf" : Option String)))
                        else
                        Except.bind (Go.sliceFrom b (Go.add (n : Int) (1 : Int))) (fun t_8 =>
                        let b : Bytes := t_8
                        (if ((Go.len b) == (0 : Int)) then
                        (Except.ok (startPos, (Go.sub contentLength (1 : Int)), (none : Option String)))
                        else
                        Except.bind (Gen.Funcs.parseUint b) (fun (t_9, t_10) =>
                        let endPos : Int := t_9
                        let err : Option String := t_10
                        (if (err != (none : Option String)) then
                        (Except.ok ((0 : Int), (0 : Int), err))
                        else
                        (if (decide (endPos ≥ contentLength)) then
                        let endPos : Int := (Go.sub contentLength (1 : Int))
                        (if (decide (endPos < startPos)) then
                        (Except.ok ((0 : Int), (0 : Int), (some "fmt.Errorf" : Option String)))
                        else
                        (Except.ok (startPos, endPos, (none : Option String))))
                        else
                        (if (decide (endPos < startPos)) then
                        (Except.ok ((0 : Int), (0 : Int), (some "fmt.Errorf" : Option String)))
                        else
                        (Except.ok (startPos, endPos, (none : Option String))))))))))))).map viewBoth =
      .ok (FS.fromToRange contentLength (b.take n) (b.drop (n + 1)), true) := by
  have ht : (b.take n).length < 2^63 := by rw [List.length_take]; omega
  have hd : (b.drop (n + 1)).length < 2^63 := by rw [List.length_drop]; omega
  rw [hU _ ht]
  unfold FS.fromToRange
  cases h : FS.parseUint (b.take n) with
  | error e => simp [viewU, bind_ok, Except.map, viewBR, viewZ, viewBoth]
  | ok s =>
    have hs := FS.parseUint_ok h
    have hs' : 0 ≤ s ∧ s < 2^63 := by omega
    simp only [viewU, bind_ok, bne_self_eq_false, Bool.false_eq_true, if_false]
    by_cases hge : s ≥ contentLength
    · simp [hge, Except.map, viewBR, viewZ, viewBoth]
    · have h1 : Go.sub contentLength 1 = contentLength - 1 := by
        unfold Go.sub; exact wrap_id (by omega) (by omega)
      simp only [hge, decide_false, Bool.false_eq_true, if_false, add_one_id n (by omega),
        sliceFrom_ok b (n + 1) (by omega), h1, bind_ok]
      by_cases hl : (b.drop (n + 1)).length = 0
      · simp [Go.len, hl, Except.map, viewBR, viewZ, viewBoth]
      · have hl' : ((Go.len (b.drop (n + 1))) == (0 : Int)) = false := by
          simp [Go.len]; simpa using hl
        simp only [hl', hl, Bool.false_eq_true, if_false, hU _ hd]
        cases h2 : FS.parseUint (b.drop (n + 1)) with
        | error e => simp [viewU, bind_ok, Except.map, viewBR, viewZ, viewBoth]
        | ok e =>
          simp only [viewU, bind_ok, bne_self_eq_false, Bool.false_eq_true, if_false]
          by_cases hge2 : e ≥ contentLength
          · by_cases hlt : contentLength - 1 < s <;> simp [hge2, hlt, Except.map, viewBR, viewZ, viewBoth]
          · by_cases hlt : e < s <;> simp [hge2, hlt, Except.map, viewBR, viewZ, viewBoth]

theorem indexByte_eq (b : Bytes) (c : UInt8) :
    Go.indexByte b c = (match FS.indexByte c b with | some n => (n : Int) | none => -1) := by
  unfold Go.indexByte; rw [indexByteNat_eq]; cases FS.indexByte c b <;> rfl

theorem parseByteRange_both
    (hU' : ∀ b : Bytes, b.length < 2^63 → Gen.Funcs.parseUint b = .ok (viewU (FS.parseUint b)))
    (byteRange : Bytes) (contentLength : Int) (hlen : byteRange.length < 2^63)
    (hcl : 0 ≤ contentLength ∧ contentLength < 2^63) :
    (Gen.Funcs.parseByteRange byteRange contentLength).map viewBoth =
      .ok (FS.parseByteRange byteRange contentLength, true) := by
  unfold Gen.Funcs.parseByteRange FS.parseByteRange
  have hs : Gen.Str.strBytes = FS.strBytes := rfl
  simp only [hs, Go.hasPrefix]
  by_cases hp : FS.strBytes.isPrefixOf byteRange = true
  · obtain ⟨b1, rfl⟩ := List.isPrefixOf_iff_prefix.1 hp
    have hsf : Go.sliceFrom (FS.strBytes ++ b1) (Go.len FS.strBytes) = .ok b1 := by
      have := sliceFrom_ok (FS.strBytes ++ b1) FS.strBytes.length (by simp)
      rw [List.drop_left] at this; exact this
    simp only [hp, Bool.not_true, Bool.false_eq_true, if_false, hsf,
      bind_ok, FS.sliceFrom, List.length_append, Nat.le_add_right, if_true, List.drop_left]
    cases b1 with
    | nil => simp [Go.len, Except.map, viewBR, viewZ, viewBoth, Except.bind]
    | cons c0 b2 =>
      have hl0 : (Go.len (c0 :: b2) == 0) = false := by simp [Go.len]; omega
      have hi0 : Go.idx (c0 :: b2) 0 = .ok c0 := by simp [Go.idx]
      simp only [hl0, Bool.false_eq_true, if_false, hi0, bind_ok, FS.idx, List.length_cons,
        List.getElem?_cons_zero, Nat.succ_ne_zero, Nat.le_add_left, if_true, List.drop_succ_cons, List.drop_zero]
      by_cases hc : c0 = 61
      · subst hc
        have hs1 : Go.sliceFrom (61 :: b2) 1 = .ok b2 := by
          simpa using sliceFrom_ok (61 :: b2) 1 (by simp)
        have hb2 : b2.length < 2^63 := by simp at hlen; omega
        simp only [bne_self_eq_false, Bool.false_eq_true, if_false, hs1, bind_ok, ne_eq, not_true_eq_false,
          indexByte_eq]
        cases hk : FS.indexByte 45 b2 with
        | none => simp [Except.map, viewBR, viewZ, viewBoth]
        | some k =>
          have hkl := (FS.indexByte_some 45 b2 k hk).1
          have hk0 : ¬ ((k : Int) < 0) := by omega
          simp only [hk0, decide_false, Bool.false_eq_true, if_false]
          by_cases hz : k = 0
          · subst hz
            have ha : Go.add ((0 : Nat) : Int) 1 = ((1 : Nat) : Int) := by decide
            have h1 : 0 + 1 ≤ b2.length := by omega
            simp only [Int.natCast_zero, beq_self_eq_true, if_true, h1, bind_ok] at ha ⊢
            rw [ha, sliceFrom_ok b2 1 (by omega), bind_ok]
            exact suffix_tie hU' (b2.drop 1) contentLength (by rw [List.length_drop]; omega) hcl
          · have hz' : (((k : Int)) == 0) = false := by simp; omega
            have h1 : k + 1 ≤ b2.length := by omega
            have h2 : k ≤ b2.length := by omega
            simp only [hz', hz, Bool.false_eq_true, if_false, h1, h2, if_true, bind_ok, FS.sliceTo, sliceTo_ok b2 k h2]
            exact fromTo_tie hU' b2 k contentLength hkl hb2 (by omega)
      · simp [hc, Except.map, viewBR, viewZ, viewBoth]
  · simp [hp, Except.map, viewBR, viewZ, viewBoth]


end BR

section
open BR

/-- `ParseByteRange`: the translation never panics, and read through `viewBR` it is the model.
`hU` is the tie of the callee `ParseUint` (`TieP1.lean`).  `0 ≤ contentLength` is a genuine restriction: see
`parseByteRange_fails_at`. -/
theorem parseByteRange_eq_of
    (hU : ∀ b : Bytes, b.length < 2^63 → Gen.Funcs.parseUint b =
      .ok (match FS.parseUint b with | .ok v => (v, none) | .error e => (-1, some (errName e))))
    (byteRange : Bytes) (contentLength : Int) (hlen : byteRange.length < 2^63)
    (hcl : 0 ≤ contentLength ∧ contentLength < 2^63) :
    (Gen.Funcs.parseByteRange byteRange contentLength).map viewBR = .ok (FS.parseByteRange byteRange contentLength) := by
  have hU' : ∀ b : Bytes, b.length < 2^63 → Gen.Funcs.parseUint b = .ok (viewU (FS.parseUint b)) := by
    intro b hb; rw [hU b hb]; cases FS.parseUint b <;> rfl
  have h := parseByteRange_both hU' byteRange contentLength hlen hcl
  cases hr : Gen.Funcs.parseByteRange byteRange contentLength with
  | error e => rw [hr] at h; simp [Except.map] at h
  | ok r =>
    rw [hr] at h
    simp only [Except.map, viewBoth, Except.ok.injEq, Prod.mk.injEq] at h
    simp [Except.map, h.1]

/-- On an error the Go function returns `(0, 0, err)`: together with `parseByteRange_eq_of` this pins the whole Go
result up to the text of the error. -/
theorem parseByteRange_err_zero
    (hU : ∀ b : Bytes, b.length < 2^63 → Gen.Funcs.parseUint b =
      .ok (match FS.parseUint b with | .ok v => (v, none) | .error e => (-1, some (errName e))))
    (byteRange : Bytes) (contentLength : Int) (hlen : byteRange.length < 2^63)
    (hcl : 0 ≤ contentLength ∧ contentLength < 2^63) :
    ∃ s e err, Gen.Funcs.parseByteRange byteRange contentLength = .ok (s, e, err) ∧ (err ≠ none → s = 0 ∧ e = 0) := by
  have hU' : ∀ b : Bytes, b.length < 2^63 → Gen.Funcs.parseUint b = .ok (viewU (FS.parseUint b)) := by
    intro b hb; rw [hU b hb]; cases FS.parseUint b <;> rfl
  have h := parseByteRange_both hU' byteRange contentLength hlen hcl
  cases hr : Gen.Funcs.parseByteRange byteRange contentLength with
  | error e => rw [hr] at h; simp [Except.map] at h
  | ok r =>
    rw [hr] at h
    simp only [Except.map, viewBoth, Except.ok.injEq, Prod.mk.injEq] at h
    obtain ⟨s, e, err⟩ := r
    refine ⟨s, e, err, rfl, ?_⟩
    have hz := h.2
    simp only [viewZ, Bool.or_eq_true, Bool.and_eq_true, beq_iff_eq] at hz
    intro hne
    cases hz with
    | inl h0 => exact absurd h0 hne
    | inr h0 => exact h0

/-! ### the restriction `0 ≤ contentLength` is needed

`contentLength - v` and `contentLength - 1` are 64-bit subtractions in Go (and in the translation); the model computes
them in `Int`.  They differ only for a negative `contentLength` (never the case for a file size).  Witness:
`bytes=-1` with `contentLength = minInt`. -/

theorem parseByteRange_fails_at :
    (Gen.Funcs.parseByteRange [98, 121, 116, 101, 115, 61, 45, 49] (-9223372036854775808)).map viewBR
        = .ok (.ok (9223372036854775807, 9223372036854775807)) ∧
      FS.parseByteRange [98, 121, 116, 101, 115, 61, 45, 49] (-9223372036854775808)
        = .ok (0, -9223372036854775809) := by
  decide +kernel

/-! ### non-vacuity (both sides computed) -/

-- `bytes=0-4`, 10 bytes
example : Gen.Funcs.parseByteRange [98, 121, 116, 101, 115, 61, 48, 45, 52] 10 = .ok (0, 4, none)
    ∧ FS.parseByteRange [98, 121, 116, 101, 115, 61, 48, 45, 52] 10 = .ok (0, 4) := by decide +kernel
-- `bytes=-3`, 10 bytes
example : Gen.Funcs.parseByteRange [98, 121, 116, 101, 115, 61, 45, 51] 10 = .ok (7, 9, none)
    ∧ FS.parseByteRange [98, 121, 116, 101, 115, 61, 45, 51] 10 = .ok (7, 9) := by decide +kernel
-- `bytes=5-`, 10 bytes
example : Gen.Funcs.parseByteRange [98, 121, 116, 101, 115, 61, 53, 45] 10 = .ok (5, 9, none)
    ∧ FS.parseByteRange [98, 121, 116, 101, 115, 61, 53, 45] 10 = .ok (5, 9) := by decide +kernel
-- `bytes=2-99`, 10 bytes: the end is clamped
example : Gen.Funcs.parseByteRange [98, 121, 116, 101, 115, 61, 50, 45, 57, 57] 10 = .ok (2, 9, none)
    ∧ FS.parseByteRange [98, 121, 116, 101, 115, 61, 50, 45, 57, 57] 10 = .ok (2, 9) := by decide +kernel
-- `bytes=-`: `ParseUint` fails, its error is handed on
example : Gen.Funcs.parseByteRange [98, 121, 116, 101, 115, 61, 45] 10 = .ok (0, 0, some "errEmptyInt")
    ∧ FS.parseByteRange [98, 121, 116, 101, 115, 61, 45] 10 = .error .bad := by decide +kernel
-- `bytes=5-x`: `ParseUint` fails, its error is handed on
example : Gen.Funcs.parseByteRange [98, 121, 116, 101, 115, 61, 53, 45, 120] 10 = .ok (0, 0, some "errUnexpectedTrailingChar")
    ∧ FS.parseByteRange [98, 121, 116, 101, 115, 61, 53, 45, 120] 10 = .error .bad := by decide +kernel
-- `bytes=7-3`: `fmt.Errorf`
example : (Gen.Funcs.parseByteRange [98, 121, 116, 101, 115, 61, 55, 45, 51] 10).map viewBR = .ok (.error .bad)
    ∧ FS.parseByteRange [98, 121, 116, 101, 115, 61, 55, 45, 51] 10 = .error .bad := by decide +kernel

end

end Hertz.Tie
