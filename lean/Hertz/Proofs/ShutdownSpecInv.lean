import Hertz.Proofs.ShutdownSpecBase
/-!
State invariants and event-sequence invariants of the interleaving model used to show that the
observable projection of every run satisfies the trace specification `Hertz.ShutdownSpec`.
-/
namespace Hertz.Shutdown
open Hertz.ShutdownSpec (Ev TEv)

deriving instance ReflBEq, LawfulBEq for ConnPh

/-- a connection-local step with the new record spelled out -/
inductive ConnStep (s : State) : Act → Nat → Conn → Conn → Prop
  | reqArrive (c : Nat) (rc : Bool) (cn : Conn) : cn.ph = .idle →
      ConnStep s (.reqArrive c rc) c cn { cn with ph := .handling rc, started := cn.started + 1 }
  | handlerRet (c : Nat) (b : Bool) (cn : Conn) (rc : Bool) : cn.ph = .handling rc →
      ConnStep s (.handlerRet c b) c cn { cn with ph := .returned (rc || b) (decide (stShutdown ≤ s.status)) }
  | exitCheck (c : Nat) (cn : Conn) (cl g : Bool) : cn.ph = .returned cl g →
      ConnStep s (.exitCheck c) c cn { cn with ph := .checked (cl || !isRunning s) g }
  | writeResp (c : Nat) (cn : Conn) (cl g : Bool) : cn.ph = .checked cl g →
      ConnStep s (.writeResp c) c cn { cn with ph := if cl then .closing else .idle, resps := cn.resps ++ [⟨cl, g⟩] }
  | connDrop (c : Nat) (cn : Conn) : cn.ph = .idle → cn.peerClosed = true → ConnStep s (.connDrop c) c cn { cn with ph := .closing }
  | badReq (c : Nat) (cn : Conn) : cn.ph = .idle → ConnStep s (.badReq c) c cn { cn with ph := .closing }
  | peerClose (c : Nat) (cn : Conn) : ConnStep s (.peerClose c) c cn { cn with peerClosed := true }
  | clientRead (c : Nat) (cl : Bool) (cn : Conn) (r : Resp) : cn.resps[cn.acked]? = some r → r.close = cl →
      ConnStep s (.clientRead c cl) c cn { cn with acked := cn.acked + 1 }
  | clientEof (c : Nat) (cn : Conn) : (cn.ph = .closing ∨ cn.ph = .gone) → cn.acked = cn.resps.length →
      ConnStep s (.clientEof c) c cn cn
  | npClose (c : Nat) (cn : Conn) : cn.ph = .idle → cn.started = 0 → ConnStep s (.npCloseIdle c) c cn { cn with ph := .closing }

theorem connStep_of {s : State} {a : Act} {c : Nat} {f : Conn → Option Conn} {cn cn' : Conn}
    (ha : connAct s a = some (c, f)) (hf : f cn = some cn') : ConnStep s a c cn cn' := by
  cases a <;> simp [connAct] at ha <;> obtain ⟨rfl, rfl⟩ := ha
  case reqArrive c rc =>
    unfold cReqArrive at hf; split at hf <;> simp at hf
    subst hf; exact .reqArrive _ _ _ ‹_›
  case handlerRet c b =>
    unfold cHandlerRet at hf; split at hf <;> simp at hf
    subst hf; exact .handlerRet _ _ _ _ ‹_›
  case exitCheck c =>
    unfold cExitCheck at hf; split at hf <;> simp at hf
    subst hf; exact .exitCheck _ _ _ _ ‹_›
  case writeResp c =>
    unfold cWriteResp at hf; split at hf <;> simp at hf
    subst hf; exact .writeResp _ _ _ _ ‹_›
  case connDrop c =>
    unfold cConnDrop at hf; split at hf <;> simp at hf
    obtain ⟨hp, rfl⟩ := hf; exact .connDrop _ _ ‹_› hp
  case badReq c =>
    unfold cBadReq at hf; split at hf <;> simp at hf
    subst hf; exact .badReq _ _ ‹_›
  case peerClose c =>
    unfold cPeerClose at hf; simp at hf
    subst hf; exact .peerClose _ _
  case clientRead c cl =>
    unfold cClientRead at hf; split at hf <;> simp at hf
    obtain ⟨hp, rfl⟩ := hf; exact .clientRead _ _ _ _ ‹_› hp
  case clientEof c =>
    unfold cClientEof at hf; split at hf <;> simp at hf
    · obtain ⟨hp, rfl⟩ := hf; exact .clientEof _ _ (Or.inl ‹_›) hp
    · obtain ⟨hp, rfl⟩ := hf; exact .clientEof _ _ (Or.inr ‹_›) hp
  case npCloseIdle c =>
    unfold cNpClose at hf; split at hf <;> simp at hf
    obtain ⟨hp, rfl⟩ := hf; exact .npClose _ _ ‹_› hp

/-- live (not yet `gone`) connections -/
def liveCount (l : List Conn) : Nat := l.countP fun cn => cn.ph != .gone

def allGone (s : State) : Prop := ∀ cn ∈ s.conns, cn.ph = .gone

theorem liveCount_set : ∀ (l : List Conn) (c : Nat) (cn cn' : Conn), l[c]? = some cn →
    (liveCount (l.set c cn') : Int) = liveCount l - (if cn.ph != .gone then 1 else 0) + (if cn'.ph != .gone then 1 else 0)
  | [], c, cn, cn', h => by simp at h
  | x :: t, 0, cn, cn', h => by
    simp at h; subst h
    simp only [List.set_cons_zero, liveCount, List.countP_cons]
    split <;> split <;> simp <;> omega
  | x :: t, c + 1, cn, cn', h => by
    simp at h
    have := liveCount_set t c cn cn' h
    simp only [List.set_cons_succ, liveCount, List.countP_cons] at this ⊢
    push_cast
    omega

theorem liveCount_zero {l : List Conn} (h : liveCount l = 0) : ∀ cn ∈ l, cn.ph = .gone := by
  intro cn hm
  unfold liveCount at h
  rw [List.countP_eq_zero] at h
  simpa using h cn hm

theorem connStep_gone_iff {s : State} {a : Act} {c : Nat} {cn cn' : Conn} (h : ConnStep s a c cn cn') :
    (cn'.ph = .gone ↔ cn.ph = .gone) := by
  cases h <;> simp_all
  rename_i cl g _; cases cl <;> simp

structure SI1 (s : State) : Prop where
  lnStatus : s.lnSet = true → stRunning ≤ s.status
  markedStatus : s.runPh = .marked → stRunning ≤ s.status
  servingLn : s.runPh = .serving → s.lnSet = true
  connsLn : s.conns ≠ [] → s.lnSet = true
  skipped : postClose s.win = false → s.lnSkipped = false
  retNow : ∀ e t, s.win = .returned e t → t ≤ s.now
  winNone : s.win = .none → s.runPh ≠ .acceptFailed ∧ (s.runPh = .marked → s.status = stRunning) ∧
      (s.runPh = .serving → s.status = stRunning ∧ s.lnOpen = true) ∧ (s.lnSet = true → s.runPh = .serving)

theorem step_SI1 (cfg : Cfg) {s s' : State} {a : Act} (inv : Inv s) (si : SI1 s) (h : Step cfg s a s') : SI1 s' := by
  obtain ⟨h1, h2, h3, h4, h5, h6, h7⟩ := si
  have hw := inv.winSt
  cases h
  all_goals constructor
  all_goals first
    | assumption
    | (simp_all [stRunning, stShutdown, stClosed, stInitialized, postClose]; done)
    | (simp_all [stRunning, stShutdown, stClosed, stInitialized, postClose]; omega)
    | (intros; simp_all [stRunning, stShutdown, stClosed, stInitialized, postClose]; omega)
    | (intros; (repeat' split) <;> simp_all [stRunning, stShutdown, stClosed, stInitialized, postClose])
    | (simp only []; (repeat' split) <;> simp_all [stRunning, stShutdown, stClosed, stInitialized, postClose])
    | skip

/-- hooks leave `unspawned` only at the spawn step of the winner -/
def HookWin (s : State) : Prop := ∀ h ∈ s.hooks, h ≠ .unspawned → s.win ≠ .none ∧ s.win ≠ .pre

theorem step_hookWin (cfg : Cfg) (n : Nat) {s s' : State} {a : Act} (inv : Inv s) (hk : HookWin s ∧ s.hooks.length = n)
    (h : Step cfg s a s') : HookWin s' ∧ s'.hooks.length = n := by
  obtain ⟨hk, hl⟩ := hk
  have hw := inv.winSt
  unfold HookWin at *
  cases h
  case casWin hc hs =>
    refine ⟨?_, hl⟩
    intro p hp hne
    have := hw (hk p hp hne).1
    simp [hs, stRunning, stShutdown] at this
  case hookStart j hj =>
    refine ⟨?_, by simpa using hl⟩
    intro p hp hne
    rcases List.mem_or_eq_of_mem_set hp with hp | rfl
    · exact hk p hp hne
    · exact hk _ (List.mem_of_getElem? hj) (by simp)
  case hookEnd j hj =>
    refine ⟨?_, by simpa using hl⟩
    intro p hp hne
    rcases List.mem_or_eq_of_mem_set hp with hp | rfl
    · exact hk p hp hne
    · exact hk _ (List.mem_of_getElem? hj) (by simp)
  all_goals first
    | exact ⟨hk, hl⟩
    | (simp_all; done)
    | (refine ⟨fun p hp hne => ?_, hl⟩; have := hk p hp hne; simp only []; (repeat' split) <;> simp_all)

def winCallerOk : WinPh → CallerPh → Prop
  | .none, _ => True
  | .returned e _, p => p = .returned e ∨ p = .finished e
  | _, p => p = .winner

/-- the ghost `winK` points at the caller that won the CAS -/
def WinCaller (s : State) : Prop := s.win ≠ .none → ∃ p, s.callers[s.winK]? = some p ∧ winCallerOk s.win p

theorem winCallerOk_ne {w : WinPh} {p : CallerPh} (hw : w ≠ .none) (h : winCallerOk w p) :
    p ≠ .called ∧ p ≠ .loaded ∧ (∀ e, p = .returned e → ∃ t, w = .returned e t) := by
  cases w <;> simp_all [winCallerOk]
  rcases h with rfl | rfl <;> simp

theorem getElem?_lt {α} {l : List α} {i : Nat} {x : α} (h : l[i]? = some x) : i < l.length := by
  rcases Nat.lt_or_ge i l.length with h' | h'
  · exact h'
  · simp [List.getElem?_eq_none h'] at h

theorem step_winCaller (cfg : Cfg) {s s' : State} {a : Act} (inv : Inv s) (wc : WinCaller s) (h : Step cfg s a s') :
    WinCaller s' := by
  have hw := inv.winSt
  unfold WinCaller at *
  cases h
  case shutCall =>
    intro hne
    obtain ⟨p, hp, hok⟩ := wc hne
    exact ⟨p, by simp [List.getElem?_append_left (getElem?_lt hp), hp], hok⟩
  case shutLoad k hk =>
    intro hne
    obtain ⟨p, hp, hok⟩ := wc hne
    have hkk : k ≠ s.winK := by
      rintro rfl
      rw [hk] at hp; cases hp
      exact (winCallerOk_ne hne hok).1 rfl
    exact ⟨p, by simp [List.getElem?_set_ne hkk, hp], hok⟩
  case casLose k hk hs =>
    intro hne
    obtain ⟨p, hp, hok⟩ := wc hne
    have hkk : k ≠ s.winK := by
      rintro rfl
      rw [hk] at hp; cases hp
      exact (winCallerOk_ne hne hok).2.1 rfl
    exact ⟨p, by simp [List.getElem?_set_ne hkk, hp], hok⟩
  case casWin k hk hs =>
    intro _
    exact ⟨.winner, by simp [getElem?_lt hk], by simp [winCallerOk]⟩
  case finish e hwin hc =>
    intro _
    obtain ⟨p, hp, hok⟩ := wc (by simp [hwin])
    simp [hwin, winCallerOk] at hok
    subst hok
    exact ⟨.returned e, by simp [hp, winnerRet], by simp [winCallerOk]⟩
  case callerRet k e hk =>
    intro hne
    obtain ⟨p, hp, hok⟩ := wc hne
    by_cases hkk : k = s.winK
    · subst hkk
      rw [hk] at hp; cases hp
      obtain ⟨t, ht⟩ := (winCallerOk_ne hne hok).2.2 e rfl
      have ht' : s.win = .returned e t := ht
      refine ⟨.finished e, by simp [getElem?_lt hk], ?_⟩
      show winCallerOk s.win _
      rw [ht']; simp [winCallerOk]
    · exact ⟨p, by simp [List.getElem?_set_ne hkk, hp], hok⟩
  all_goals first
    | exact wc
    | (intro hne; obtain ⟨p, hp, hok⟩ := wc (by simp_all); refine ⟨p, hp, ?_⟩; simp only []; (repeat' split) <;> simp_all [winCallerOk])

/-- `t.active` counts the connections whose `updateActive(-1)` is still to come -/
def ConnCount (s : State) : Prop := s.active = (liveCount s.conns : Int) ∧ ∀ cn ∈ s.conns, cn.acked ≤ cn.resps.length

theorem step_connCount (cfg : Cfg) {s s' : State} {a : Act} (cc : ConnCount s) (h : Step cfg s a s') : ConnCount s' := by
  obtain ⟨ha, hk⟩ := cc
  unfold ConnCount
  cases h
  case accept =>
    refine ⟨?_, ?_⟩
    · simp [liveCount, List.countP_append, ha]
    · intro cn hm
      simp at hm
      rcases hm with hm | rfl
      · exact hk cn hm
      · simp
  case conn c f cn cn' hc hf hca _ =>
    have hcs := connStep_of hca hf
    refine ⟨?_, ?_⟩
    · have := liveCount_set s.conns c cn cn' hc
      have hg := connStep_gone_iff hcs
      simp only [this, ha]
      by_cases hgn : cn.ph = .gone
      · simp [hgn, hg.2 hgn]
      · have : cn'.ph ≠ .gone := fun h => hgn (hg.1 h)
        simp [hgn, this]
    · intro x hm
      rcases List.mem_or_eq_of_mem_set hm with hm | rfl
      · exact hk x hm
      · have := hk cn (List.mem_of_getElem? hc)
        cases hcs with
        | writeResp => simp; omega
        | clientRead _ _ _ r hr _ => have := getElem?_lt hr; simp; omega
        | _ => simp_all
  case connGone c cn cn' hc hf =>
    unfold cGone at hf
    split at hf <;> simp at hf
    subst hf
    rename_i hp
    refine ⟨?_, ?_⟩
    · have := liveCount_set s.conns c cn { cn with ph := .gone } hc
      simp only [this, ha]
      simp [hp]
    · intro x hm
      rcases List.mem_or_eq_of_mem_set hm with hm | rfl
      · exact hk x hm
      · exact hk cn (List.mem_of_getElem? hc)
  all_goals exact ⟨ha, hk⟩

/-- a `nil` from `transport.Shutdown` before the deadline means that every connection had gone -/
def GoneOrDl (s : State) : Prop :=
  s.lnSkipped = false → (s.win = .deferred .nil → s.dl ≤ s.now ∨ allGone s) ∧ (∀ t, s.win = .returned .nil t → s.dl ≤ t ∨ allGone s)

theorem allGone_set {s : State} {c : Nat} {cn' : Conn} (h : allGone s) (h' : cn'.ph = .gone) :
    ∀ cn ∈ s.conns.set c cn', cn.ph = .gone := by
  intro cn hm
  rcases List.mem_or_eq_of_mem_set hm with hm | rfl
  · exact h cn hm
  · exact h'

theorem step_goneOrDl (cfg : Cfg) {s s' : State} {a : Act} (inv : Inv s)
    (cc : ConnCount s) (gd : GoneOrDl s) (h : Step cfg s a s') : GoneOrDl s' := by
  unfold GoneOrDl at *
  cases h
  case advance d =>
    intro hs
    obtain ⟨g1, g2⟩ := gd hs
    exact ⟨fun hw => (g1 hw).imp (fun h => by simp; omega) id, g2⟩
  case accept hr ho =>
    intro hs
    obtain ⟨g1, g2⟩ := gd hs
    have hcl : postClose s.win = true → False := fun hp => by
      have := (inv.closed hp hs).1; simp [ho] at this
    refine ⟨fun hw => (hcl (by simp_all [postClose])).elim, fun t hw => (hcl (by simp_all [postClose])).elim⟩
  case conn c f cn cn' hc hf hca _ =>
    intro hs
    obtain ⟨g1, g2⟩ := gd hs
    have hg := connStep_gone_iff (connStep_of hca hf)
    have key : allGone s → ∀ x ∈ s.conns.set c cn', x.ph = .gone := fun h =>
      allGone_set h (hg.2 (h cn (List.mem_of_getElem? hc)))
    exact ⟨fun hw => (g1 hw).imp id key, fun t hw => (g2 t hw).imp id key⟩
  case connGone c cn cn' hc hf =>
    intro hs
    obtain ⟨g1, g2⟩ := gd hs
    have hg : cn'.ph = .gone := by
      unfold cGone at hf; split at hf <;> simp at hf; subst hf; rfl
    have key : allGone s → ∀ x ∈ s.conns.set c cn', x.ph = .gone := fun h => allGone_set h hg
    exact ⟨fun hw => (g1 hw).imp id key, fun t hw => (g2 t hw).imp id key⟩
  case closeLn hw => intro _; simp
  case casWin => intro _; simp
  case spawn => intro _; simp
  case tick1 hw ht =>
    intro _
    refine ⟨fun hd => ?_, fun t hd => ?_⟩
    · right
      by_cases ha : s.active ≤ 0
      · have h1 := cc.1
        have h0 : liveCount s.conns = 0 := by omega
        exact liveCount_zero h0
      · simp [ha] at hd
    · by_cases ha : s.active ≤ 0 <;> simp [ha] at hd
  case tickLoop t0 hw ht =>
    intro _
    refine ⟨fun hd => ?_, fun t hd => ?_⟩
    · right
      by_cases ha : s.active ≤ 0
      · have h1 := cc.1
        have h0 : liveCount s.conns = 0 := by omega
        exact liveCount_zero h0
      · by_cases hm : cfg.maxWait < s.now - t0 <;> simp [ha, hm] at hd
    · by_cases ha : s.active ≤ 0
      · simp [ha] at hd
      · by_cases hm : cfg.maxWait < s.now - t0 <;> simp [ha, hm] at hd
  case ctxDone t0 hw hd =>
    intro _
    exact ⟨fun _ => Or.inl hd, fun t h => by simp at h⟩
  case finish e hw hc =>
    intro hs
    obtain ⟨g1, g2⟩ := gd hs
    refine ⟨fun h => by simp at h, fun t h => ?_⟩
    simp at h
    obtain ⟨rfl, rfl⟩ := h
    exact g1 hw
  all_goals exact gd

/-- environment discipline: `Shutdown` is only called on an engine whose listener exists (the harness
calls it after the server answered; excludes the known finding "Shutdown before Listen") -/
def okListen (s : State) : Act → Bool
  | .shutCall => s.lnSet
  | _ => true

/-- environment discipline, weaker than `okListen` along runs: no CAS of a `Shutdown` caller succeeds in the
window between `MarkAsRunning` and the creation of the listener.  It excludes exactly the known finding
"Shutdown before Listen"; `Shutdown` may be called at any time, in particular on an engine that has not been
started (and may be started later). -/
def okWin (s : State) : Act → Bool
  | .shutCas _ => s.status != stRunning || s.lnSet
  | _ => true

/-- under `okWin` the winner of the CAS finds the listener -/
def WinLn (s : State) : Prop := s.win ≠ .none → s.lnSet = true

theorem step_winLn (cfg : Cfg) {s s' : State} {a : Act} (wl : WinLn s) (hok : okWin s a = true) (h : Step cfg s a s') :
    WinLn s' := by
  unfold WinLn at *
  cases h
  case casWin k hk hs =>
    intro _
    simpa [okWin, hs] using hok
  case listen => intro _; rfl
  all_goals first
    | exact wl
    | (intro _; apply wl; simp_all; done)

def isNotRunningRet (p : CallerPh) : Prop := p = .returned .notRunning ∨ p = .finished .notRunning

/-- under `okListen`: callers exist only once the listener does, and an `errStatusNotRunning` means
the status had already been flipped -/
def CallGuard (s : State) : Prop :=
  (s.callers ≠ [] → s.lnSet = true) ∧ ∀ (k : Nat) (p : CallerPh), s.callers[k]? = some p → isNotRunningRet p → stShutdown ≤ s.status

theorem step_callGuard (cfg : Cfg) {s s' : State} {a : Act} (inv : Inv s) (hls : s.lnSet = true → stRunning ≤ s.status)
    (cg : CallGuard s) (hok : okListen s a = true) (h : Step cfg s a s') : CallGuard s' := by
  obtain ⟨g1, g2⟩ := cg
  have h4 := inv.st4
  have hw := inv.winSt
  unfold CallGuard
  cases h
  case shutCall =>
    simp only [okListen] at hok
    refine ⟨fun _ => hok, ?_⟩
    intro k p hk hp
    rcases Nat.lt_or_ge k s.callers.length with hlt | hge
    · simp [List.getElem?_append_left hlt] at hk
      exact g2 k p hk hp
    · rcases Nat.eq_or_lt_of_le hge with heq | hgt
      · subst heq; simp at hk; subst hk; simp [isNotRunningRet] at hp
      · simp [List.getElem?_eq_none (show (s.callers ++ [CallerPh.called]).length ≤ k by simp; omega)] at hk
  case shutLoad k0 hk0 =>
    have hne : s.callers ≠ [] := by intro h; simp [h] at hk0
    have h2 := hls (g1 hne)
    refine ⟨fun _ => g1 hne, ?_⟩
    intro k p hk hp
    by_cases hkk : k0 = k
    · subst hkk
      simp [List.getElem?_set, getElem?_lt hk0] at hk
      subst hk
      by_cases hs : s.status = stRunning
      · simp [hs, isNotRunningRet] at hp
      · simp [stRunning, stShutdown] at hs h2 ⊢; omega
    · simp [List.getElem?_set_ne hkk] at hk
      exact g2 k p hk hp
  case casLose k0 hk0 hs =>
    have hne : s.callers ≠ [] := by intro h; simp [h] at hk0
    have h2 := hls (g1 hne)
    refine ⟨fun _ => g1 hne, ?_⟩
    intro k p hk hp
    by_cases hkk : k0 = k
    · simp [stRunning, stShutdown] at hs h2 ⊢; omega
    · simp [List.getElem?_set_ne hkk] at hk
      exact g2 k p hk hp
  case casWin k0 hk0 hs =>
    have hne : s.callers ≠ [] := by intro h; simp [h] at hk0
    exact ⟨fun _ => g1 hne, fun _ _ _ _ => Nat.le_refl _⟩
  case finish e hwin hc =>
    have h3 := hw (by simp [hwin])
    refine ⟨fun hn => g1 (by simpa using hn), fun _ _ _ _ => h3⟩
  case callerRet k0 e hk0 =>
    have hne : s.callers ≠ [] := by intro h; simp [h] at hk0
    refine ⟨fun _ => g1 hne, ?_⟩
    intro k p hk hp
    by_cases hkk : k0 = k
    · subst hkk
      simp [List.getElem?_set, getElem?_lt hk0] at hk
      subst hk
      simp [isNotRunningRet] at hp
      subst hp
      exact g2 k0 _ hk0 (Or.inl rfl)
    · simp [List.getElem?_set_ne hkk] at hk
      exact g2 k p hk hp
  case runReturn =>
    exact ⟨g1, fun _ _ _ _ => by simp [stClosed, stShutdown]⟩
  all_goals first
    | exact ⟨g1, g2⟩
    | (refine ⟨by simpa using g1, fun k p hk hp => ?_⟩; have := g2 k p hk hp; simp_all [stShutdown, stInitialized, stRunning]; done)
    | (refine ⟨by simpa using g1, fun k p hk hp => ?_⟩; have := g2 k p hk hp; simp_all [stShutdown, stInitialized, stRunning]; omega)
    | (refine ⟨fun _ => rfl, fun k p hk hp => g2 k p hk hp⟩)

/-- an event `ev` (with some time stamp) is in the sequence -/
def Has (tr : List TEv) (ev : Ev) : Prop := ∃ t, TEv.mk ev t ∈ tr

@[simp] theorem has_nil (ev : Ev) : Has [] ev ↔ False := by simp [Has]
@[simp] theorem has_append (tr l : List TEv) (ev : Ev) : Has (tr ++ l) ev ↔ Has tr ev ∨ Has l ev := by
  simp only [Has, List.mem_append]
  constructor
  · rintro ⟨t, h | h⟩
    · exact Or.inl ⟨t, h⟩
    · exact Or.inr ⟨t, h⟩
  · rintro (⟨t, h⟩ | ⟨t, h⟩)
    · exact ⟨t, Or.inl h⟩
    · exact ⟨t, Or.inr h⟩
@[simp] theorem has_single (e ev : Ev) (t : Nat) : Has [TEv.mk e t] ev ↔ ev = e := by
  simp [Has]

structure MI1 (s : State) (tr : List TEv) : Prop where
  mL : s.lnSet = true → Has tr .L
  mS : ∀ k, k < s.callers.length → Has tr (.S k)
  mT : ∀ k err, Has tr (.T k err) → ∃ e, s.callers[k]? = some (.finished e)
  mHS : ∀ j, (s.hooks[j]? = some .running ∨ s.hooks[j]? = some .done) → Has tr (.HS j)
  mHE : ∀ j, s.hooks[j]? = some .done → Has tr (.HE j)
  mTime : ∀ e ∈ tr, e.t ≤ s.now

theorem finished_set {l : List CallerPh} {k0 k : Nat} {p0 q : CallerPh} (h0 : l[k0]? = some p0) (hp : ∀ e, p0 ≠ .finished e)
    (h : ∃ e, l[k]? = some (.finished e)) : ∃ e, (l.set k0 q)[k]? = some (.finished e) := by
  obtain ⟨e, he⟩ := h
  have : k0 ≠ k := by
    rintro rfl
    rw [h0] at he; cases he; exact hp e rfl
  exact ⟨e, by simp [List.getElem?_set_ne this, he]⟩

theorem spawnHook_eq {p q : HookPh} (h : spawnHook p = q) (hq : q = .running ∨ q = .done) : p = q := by
  rcases hq with rfl | rfl <;> cases p <;> simp_all [spawnHook]

theorem Has.mono {tr : List TEv} {ev : Ev} (l : List TEv) (h : Has tr ev) : Has (tr ++ l) ev := by simp [h]

theorem step_MI1 (cfg : Cfg) {s s' : State} {a : Act} {tr : List TEv} (mi : MI1 s tr) (h : Step cfg s a s') :
    MI1 s' (tr ++ obsStep s a) := by
  obtain ⟨h1, h2, h3, h4, h5, h6⟩ := mi
  cases h
  case conn c f cn cn' hc hf hca _ =>
    cases connStep_of hca hf <;> constructor <;> first
      | (simp_all [obsStep, obsAct]; done)
      | (simp [obsStep, obsAct]; assumption)
      | (simp [obsStep, obsAct, hc]; assumption)
      | (simp [obsStep, obsAct, hc]; intro e he; rcases he with he | rfl <;> first | exact h6 e he | simp)
      | skip
  case shutCall =>
    refine ⟨fun h => (h1 h).mono _, ?_, ?_, fun j h => (h4 j h).mono _, fun j h => (h5 j h).mono _, ?_⟩
    · intro k hk
      simp [obsStep, obsAct] at hk ⊢
      rcases Nat.lt_or_ge k s.callers.length with hlt | hge
      · exact Or.inl (h2 k hlt)
      · right; omega
    · intro k err hh
      simp [obsStep, obsAct] at hh
      obtain ⟨e, he⟩ := h3 k err hh
      exact ⟨e, by simp [List.getElem?_append_left (getElem?_lt he), he]⟩
    · simp [obsStep, obsAct]; intro e he; rcases he with he | rfl <;> first | exact h6 e he | simp
  case shutLoad k0 hk0 =>
    rw [show obsStep s _ = [] by simp [obsStep, obsAct], List.append_nil]
    refine ⟨h1, by simpa using h2, ?_, h4, h5, h6⟩
    intro k err hh
    exact finished_set hk0 (by simp) (h3 k err hh)
  case casWin k0 hk0 _ =>
    rw [show obsStep s _ = [] by simp [obsStep, obsAct], List.append_nil]
    refine ⟨h1, by simpa using h2, ?_, h4, h5, h6⟩
    intro k err hh
    exact finished_set hk0 (by simp) (h3 k err hh)
  case casLose k0 hk0 _ =>
    rw [show obsStep s _ = [] by simp [obsStep, obsAct], List.append_nil]
    refine ⟨h1, by simpa using h2, ?_, h4, h5, h6⟩
    intro k err hh
    exact finished_set hk0 (by simp) (h3 k err hh)
  case finish e0 _ _ =>
    rw [show obsStep s _ = [] by simp [obsStep, obsAct], List.append_nil]
    refine ⟨h1, by simpa using h2, ?_, h4, h5, h6⟩
    intro k err hh
    obtain ⟨e, he⟩ := h3 k err hh
    exact ⟨e, by simp [he, winnerRet]⟩
  case callerRet k0 e0 hk0 =>
    refine ⟨fun h => (h1 h).mono _, fun k h => (h2 k (by simpa using h)).mono _, ?_, fun j h => (h4 j h).mono _, fun j h => (h5 j h).mono _, ?_⟩
    · intro k err hh
      simp [obsStep, obsAct] at hh
      rcases hh with hh | ⟨rfl, _⟩
      · exact finished_set hk0 (by simp) (h3 k err hh)
      · exact ⟨e0, by simp [getElem?_lt hk0]⟩
    · simp [obsStep, obsAct]; intro e he; rcases he with he | rfl <;> first | exact h6 e he | simp
  case spawn _ =>
    rw [show obsStep s _ = [] by simp [obsStep, obsAct], List.append_nil]
    refine ⟨h1, h2, h3, ?_, ?_, h6⟩
    · intro j hj
      simp at hj ⊢
      apply h4
      rcases hj with ⟨p, hp, hq⟩ | ⟨p, hp, hq⟩
      · have := spawnHook_eq hq (Or.inl rfl); subst this; exact Or.inl hp
      · have := spawnHook_eq hq (Or.inr rfl); subst this; exact Or.inr hp
    · intro j hj
      simp at hj ⊢
      apply h5
      obtain ⟨p, hp, hq⟩ := hj
      have := spawnHook_eq hq (Or.inr rfl); subst this; exact hp
  case hookStart j0 hj0 =>
    refine ⟨fun h => (h1 h).mono _, fun k h => (h2 k h).mono _, by simpa [obsStep, obsAct] using h3, ?_, ?_, ?_⟩
    · intro j hj
      simp [obsStep, obsAct]
      by_cases hjj : j0 = j
      · exact Or.inr hjj.symm
      · simp [List.getElem?_set_ne hjj] at hj; exact Or.inl (h4 j hj)
    · intro j hj
      simp [obsStep, obsAct]
      by_cases hjj : j0 = j
      · subst hjj; simp [getElem?_lt hj0] at hj
      · simp [List.getElem?_set_ne hjj] at hj; exact h5 j hj
    · simp [obsStep, obsAct]; intro e he; rcases he with he | rfl <;> first | exact h6 e he | simp
  case hookEnd j0 hj0 =>
    refine ⟨fun h => (h1 h).mono _, fun k h => (h2 k h).mono _, by simpa [obsStep, obsAct] using h3, ?_, ?_, ?_⟩
    · intro j hj
      simp [obsStep, obsAct]
      by_cases hjj : j0 = j
      · subst hjj; exact h4 j0 (Or.inl hj0)
      · simp [List.getElem?_set_ne hjj] at hj; exact h4 j hj
    · intro j hj
      simp [obsStep, obsAct]
      by_cases hjj : j0 = j
      · exact Or.inr hjj.symm
      · simp [List.getElem?_set_ne hjj] at hj; exact Or.inl (h5 j hj)
    · simp [obsStep, obsAct]; intro e he; rcases he with he | rfl <;> first | exact h6 e he | simp
  all_goals constructor
  all_goals first
    | (simp_all [obsStep, obsAct]; done)
    | (simp [obsStep, obsAct]; assumption)
    | (simp [obsStep, obsAct]; intro e he; have := h6 e he; omega)
    | (simp [obsStep, obsAct]; intro e he; rcases he with he | rfl <;> first | exact h6 e he | simp)
    | skip

theorem step_postClose (cfg : Cfg) {s s' : State} {a : Act} (inv : Inv s) (hp : postClose s.win = true) (h : Step cfg s a s') :
    postClose s'.win = true := by
  have hw := inv.winSt
  cases h
  case casWin _ hs =>
    have := hw (by intro h; simp [h, postClose] at hp)
    simp [hs, stRunning, stShutdown] at this
  all_goals first
    | exact hp
    | (simp_all [postClose]; done)
    | (simp only []; (repeat' split) <;> simp_all [postClose])

/-- under `okWin` the listener-closing step of `transport.Shutdown` always finds the listener -/
theorem step_noSkip (cfg : Cfg) {s s' : State} {a : Act} (wl : WinLn s) (ns : s.lnSkipped = false)
    (h : Step cfg s a s') : s'.lnSkipped = false := by
  cases h
  case closeLn hw => simp [wl (by simp [hw])]
  all_goals exact ns

/-- a dial started after the listener was closed is refused -/
def DialClosed (d : Nat) (s : State) : Prop :=
  postClose s.win = true ∧ s.lnSkipped = false ∧ (s.dials[d]? = some none ∨ s.dials[d]? = some (some false))

theorem step_dialClosed (cfg : Cfg) (d : Nat) {s s' : State} {a : Act} (inv : Inv s) (wl : WinLn s)
    (dc : DialClosed d s) (h : Step cfg s a s') : DialClosed d s' := by
  obtain ⟨hp, hs, hd⟩ := dc
  refine ⟨step_postClose cfg inv hp h, step_noSkip cfg wl hs h, ?_⟩
  cases h
  case dialStart =>
    have hlt : d < s.dials.length := by rcases hd with hd | hd <;> exact getElem?_lt hd
    simpa [List.getElem?_append_left hlt] using hd
  case dialProbe i hi =>
    by_cases hid : i = d
    · subst hid
      right
      simp [getElem?_lt hi, (inv.closed hp hs).1]
    · simpa [List.getElem?_set_ne hid] using hd
  all_goals exact hd

/-- `transport.Shutdown` never yields `errStatusNotRunning` -/
def DefErr (s : State) : Prop := (∀ e, s.win = .deferred e → e ≠ .notRunning) ∧ (∀ e t, s.win = .returned e t → e ≠ .notRunning)

theorem step_defErr (cfg : Cfg) {s s' : State} {a : Act} (de : DefErr s) (h : Step cfg s a s') : DefErr s' := by
  obtain ⟨d1, d2⟩ := de
  unfold DefErr
  cases h
  case finish e hw _ => exact ⟨by simp, by intro e' t h; simp at h; obtain ⟨rfl, _⟩ := h; exact d1 _ hw⟩
  all_goals first
    | exact ⟨d1, d2⟩
    | (constructor <;> intros <;> simp_all; done)
    | (constructor <;> intro e <;> simp only [] <;> (repeat' split) <;> simp_all <;> (rintro rfl; simp))

/-- a caller that was made when the status had already left `running` gets `errStatusNotRunning` -/
def LoserAt (k : Nat) (s : State) : Prop :=
  stShutdown ≤ s.status ∧ ∃ p, s.callers[k]? = some p ∧ (p = .called ∨ isNotRunningRet p)

theorem step_loserAt (cfg : Cfg) (k : Nat) {s s' : State} {a : Act} (inv : Inv s) (la : LoserAt k s) (h : Step cfg s a s') :
    LoserAt k s' := by
  obtain ⟨hst, p, hp, hpp⟩ := la
  have h4 := inv.st4
  unfold LoserAt
  cases h
  case shutCall => exact ⟨hst, p, by simp [List.getElem?_append_left (getElem?_lt hp), hp], hpp⟩
  case shutLoad k0 hk0 =>
    refine ⟨hst, ?_⟩
    by_cases hkk : k0 = k
    · subst hkk
      have : s.status ≠ stRunning := by simp [stRunning, stShutdown] at hst ⊢; omega
      exact ⟨.returned .notRunning, by simp [getElem?_lt hk0, this], by simp [isNotRunningRet]⟩
    · exact ⟨p, by simp [List.getElem?_set_ne hkk, hp], hpp⟩
  case casWin k0 hk0 hs => simp [hs, stRunning, stShutdown] at hst
  case casLose k0 hk0 hs =>
    refine ⟨hst, ?_⟩
    by_cases hkk : k0 = k
    · subst hkk; rw [hk0] at hp; cases hp; simp [isNotRunningRet] at hpp
    · exact ⟨p, by simp [List.getElem?_set_ne hkk, hp], hpp⟩
  case finish e hw _ =>
    refine ⟨hst, p, ?_, hpp⟩
    have : winnerRet e p = p := by rcases hpp with rfl | rfl | rfl <;> rfl
    simp [hp, this]
  case callerRet k0 e hk0 =>
    refine ⟨hst, ?_⟩
    by_cases hkk : k0 = k
    · subst hkk; rw [hk0] at hp; cases hp
      simp [isNotRunningRet] at hpp
      subst hpp
      exact ⟨.finished .notRunning, by simp [getElem?_lt hk0], by simp [isNotRunningRet]⟩
    · exact ⟨p, by simp [List.getElem?_set_ne hkk, hp], hpp⟩
  all_goals first
    | exact ⟨hst, p, hp, hpp⟩
    | (refine ⟨?_, p, hp, hpp⟩; simp_all [stShutdown, stInitialized, stRunning, stClosed]; done)
    | (refine ⟨?_, p, hp, hpp⟩; simp_all [stShutdown, stInitialized, stRunning, stClosed]; omega)


structure MI2 (s : State) (tr : List TEv) : Prop where
  mQ : ∀ (c k : Nat) (rc : Bool), Has tr (.Q c k rc) → ∃ cn, s.conns[c]? = some cn ∧ k < cn.started
  mR : ∀ (c k : Nat) (cl co : Bool), Has tr (.R c k cl co) → ∃ cn, s.conns[c]? = some cn ∧ k < cn.acked
  mR' : ∀ (c : Nat) (cn : Conn), s.conns[c]? = some cn → ∀ k, k < cn.acked → ∃ cl, Has tr (.R c k cl true)

theorem set_lift {l : List Conn} {c c0 : Nat} {cn cn' : Conn} {P : Conn → Prop} (hc : l[c]? = some cn) (hP : P cn → P cn')
    (h : ∃ x, l[c0]? = some x ∧ P x) : ∃ x, (l.set c cn')[c0]? = some x ∧ P x := by
  obtain ⟨x, hx, hp⟩ := h
  by_cases hcc : c = c0
  · subst hcc; rw [hc] at hx; cases hx
    exact ⟨cn', by simp [getElem?_lt hc], hP hp⟩
  · exact ⟨x, by simp [List.getElem?_set_ne hcc, hx], hp⟩

theorem set_cases {l : List Conn} {c c0 : Nat} {cn' x : Conn} (h : (l.set c cn')[c0]? = some x) :
    (c ≠ c0 ∧ l[c0]? = some x) ∨ (c = c0 ∧ x = cn') := by
  by_cases hcc : c = c0
  · subst hcc
    rw [List.getElem?_set] at h
    simp at h
    exact Or.inr ⟨rfl, h.2.symm⟩
  · exact Or.inl ⟨hcc, by simpa [List.getElem?_set_ne hcc] using h⟩

theorem step_MI2 (cfg : Cfg) {s s' : State} {a : Act} {tr : List TEv} (mi : MI2 s tr) (h : Step cfg s a s') :
    MI2 s' (tr ++ obsStep s a) := by
  obtain ⟨h1, h2, h3⟩ := mi
  cases h
  case conn c f cn cn' hc hf hca _ =>
    have hcs := connStep_of hca hf
    have hst : cn.started ≤ cn'.started := by cases hcs <;> simp
    have hak : cn.acked ≤ cn'.acked := by cases hcs <;> simp
    refine ⟨?_, ?_, ?_⟩
    · intro c0 k rc hh
      rw [has_append] at hh
      rcases hh with hh | hh
      · exact set_lift hc (fun h => Nat.lt_of_lt_of_le h hst) (h1 c0 k rc hh)
      · cases hcs with
        | reqArrive _ rc' _ hph =>
          simp [obsStep, obsAct, hc] at hh
          obtain ⟨rfl, rfl, rfl⟩ := hh
          exact ⟨{ cn with ph := .handling rc, started := cn.started + 1 }, by simp [getElem?_lt hc], by simp⟩
        | _ => simp [obsStep, obsAct, hc] at hh
    · intro c0 k cl co hh
      rw [has_append] at hh
      rcases hh with hh | hh
      · exact set_lift hc (fun h => Nat.lt_of_lt_of_le h hak) (h2 c0 k cl co hh)
      · cases hcs with
        | clientRead _ cl' _ r hr hcl =>
          simp [obsStep, obsAct, hc] at hh
          obtain ⟨rfl, rfl, rfl, rfl⟩ := hh
          exact ⟨{ cn with acked := cn.acked + 1 }, by simp [getElem?_lt hc], by simp⟩
        | _ => simp [obsStep, obsAct, hc] at hh
    · intro c0 x hx k hk
      rcases set_cases hx with ⟨hne, hx⟩ | ⟨rfl, rfl⟩
      · obtain ⟨cl, hcl⟩ := h3 c0 x hx k hk
        exact ⟨cl, hcl.mono _⟩
      · cases hcs with
        | clientRead _ cl _ r hr hcl =>
          simp at hk
          rcases Nat.lt_or_ge k cn.acked with hlt | hge
          · obtain ⟨cl', hcl'⟩ := h3 c cn hc k hlt
            exact ⟨cl', hcl'.mono _⟩
          · have : k = cn.acked := by omega
            subst this
            exact ⟨cl, by simp [obsStep, obsAct, hc]⟩
        | _ => obtain ⟨cl, hcl⟩ := h3 c cn hc k (by simpa using hk); exact ⟨cl, hcl.mono _⟩
  case connGone c cn cn' hc hf =>
    unfold cGone at hf; split at hf <;> simp at hf; subst hf
    rw [show obsStep s _ = [] by simp [obsStep, obsAct], List.append_nil]
    refine ⟨fun c0 k rc hh => set_lift hc (fun h => h) (h1 c0 k rc hh), fun c0 k cl co hh => set_lift hc (fun h => h) (h2 c0 k cl co hh), ?_⟩
    intro c0 x hx k hk
    rcases set_cases hx with ⟨hne, hx⟩ | ⟨rfl, rfl⟩
    · exact h3 c0 x hx k hk
    · exact h3 c cn hc k hk
  case accept =>
    refine ⟨?_, ?_, ?_⟩
    · intro c0 k rc hh
      simp [obsStep, obsAct] at hh
      obtain ⟨x, hx, hp⟩ := h1 c0 k rc hh
      exact ⟨x, by simp [List.getElem?_append_left (getElem?_lt hx), hx], hp⟩
    · intro c0 k cl co hh
      simp [obsStep, obsAct] at hh
      obtain ⟨x, hx, hp⟩ := h2 c0 k cl co hh
      exact ⟨x, by simp [List.getElem?_append_left (getElem?_lt hx), hx], hp⟩
    · intro c0 x hx k hk
      rcases Nat.lt_or_ge c0 s.conns.length with hlt | hge
      · simp [List.getElem?_append_left hlt] at hx
        obtain ⟨cl, hcl⟩ := h3 c0 x hx k hk
        exact ⟨cl, hcl.mono _⟩
      · rcases Nat.eq_or_lt_of_le hge with heq | hgt
        · subst heq; simp at hx; subst hx; simp at hk
        · simp [List.getElem?_eq_none (show (s.conns ++ [({} : Conn)]).length ≤ c0 by simp; omega)] at hx
  all_goals constructor
  all_goals first
    | (simp_all [obsStep, obsAct]; done)
    | (simp [obsStep, obsAct]; assumption)
    | skip

/-! ### all state invariants together, along runs that respect `okListen` -/

structure AllInv (n : Nat) (s : State) : Prop where
  inv : Inv s
  co : CallersOk s
  si : SI1 s
  hk : HookWin s ∧ s.hooks.length = n
  wc : WinCaller s
  cc : ConnCount s
  gd : GoneOrDl s
  wl : WinLn s
  ns : s.lnSkipped = false

theorem allInv_init (n : Nat) : AllInv n (init n) := by
  refine ⟨inv_init n, callersOk_init n, ?_, ?_, ?_, ?_, ?_, ?_, ?_⟩
  · constructor <;> simp [init, postClose]
  · constructor
    · intro h hm; simp [init] at hm; intro hne; exact absurd hm.2 hne
    · simp [init]
  · intro h; simp [init] at h
  · constructor <;> simp [init, liveCount]
  · intro _; simp [init]
  · intro h; simp [init] at h
  · simp [init]

theorem step_allInv (cfg : Cfg) (n : Nat) {s s' : State} {a : Act} (ai : AllInv n s) (hok : okWin s a = true)
    (h : step cfg s a = some s') : AllInv n s' :=
  have hS := step_Step cfg h
  ⟨step_inv cfg ai.inv h, step_callersOk cfg ai.inv ai.co h, step_SI1 cfg ai.inv ai.si hS, step_hookWin cfg n ai.inv ai.hk hS,
    step_winCaller cfg ai.inv ai.wc hS, step_connCount cfg ai.cc hS, step_goneOrDl cfg ai.inv ai.cc ai.gd hS,
    step_winLn cfg ai.wl hok hS, step_noSkip cfg ai.wl ai.ns hS⟩

theorem run_allInv (cfg : Cfg) (n : Nat) (ok : State → Act → Bool) (hle : ∀ s a, ok s a = true → okWin s a = true) :
    ∀ (acts : List Act) {s s' : State}, AllInv n s → run cfg s acts = some s' → allOk ok cfg s acts = true → AllInv n s'
  | [], s, s', ai, h, _ => by simp [run] at h; subst h; exact ai
  | a :: t, s, s', ai, h, hok => by
    simp only [run] at h
    simp only [allOk, Bool.and_eq_true] at hok
    cases hs : step cfg s a with
    | none => simp [hs] at h
    | some s1 =>
      simp only [hs] at h hok
      exact run_allInv cfg n ok hle t (step_allInv cfg n ai (hle _ _ hok.1) hs) h hok.2
/-- lifting a step-invariant that may use `AllInv` to runs -/
theorem run_with_allInv (cfg : Cfg) (n : Nat) (ok : State → Act → Bool) (hle : ∀ s a, ok s a = true → okWin s a = true)
    (P : State → Prop) (hstep : ∀ s a s', AllInv n s → P s → ok s a = true → Step cfg s a s' → P s') :
    ∀ (acts : List Act) {s s' : State}, AllInv n s → P s → run cfg s acts = some s' → allOk ok cfg s acts = true → P s'
  | [], s, s', _, hp, h, _ => by simp [run] at h; subst h; exact hp
  | a :: t, s, s', ai, hp, h, hok => by
    simp only [run] at h
    simp only [allOk, Bool.and_eq_true] at hok
    cases hs : step cfg s a with
    | none => simp [hs] at h
    | some s1 =>
      simp only [hs] at h hok
      exact run_with_allInv cfg n ok hle P hstep t (step_allInv cfg n ai (hle _ _ hok.1) hs)
        (hstep s a s1 ai hp hok.1 (step_Step cfg hs)) h hok.2

end Hertz.Shutdown
