/-
C10 — `response_belongs_to_caller`.

A refinement layered on the pool machine `Hertz.Pool.step` (Model/ClientPool.lean is not changed):
the state gets, per connection, the wire between client and peer

  `out c`   requests written on `c` that the peer has not answered yet (head = oldest),
  `left c`  answers that have arrived on `c` and have not been read yet (the buffered leftovers of
            the connection's reader; head = next to be read),

and ghost fields that describe the exchange of the present holder of `c`
(`req` the request it wrote, `ph` how far the exchange got, `outc` the outcome it reported to the
decision logic `verdict`).  A message is a pair `(actor, request number)`; the answer to a request
is tagged with the request it answers.

Assumption about the peer (the `answer` event is the only way anything gets into `left`):
  (P1) one response per request, and only to a request that was written on that connection;
  (P2) responses come back on the connection the request was written on, in the order of the requests;
  (P3) nothing unsolicited: no bytes beyond the responses (event `inject` is disabled when
       `unsol = false`; `unsolicited_breaks` shows the theorem fails without P3).
Assumptions about the client program (checked elsewhere): a holder writes at most one request per
acquisition (`doNonNilReqResp` has a single `reqI.Write`), and it reports `Exch.done` to `verdict`
only after it wrote the request and read one complete response (`exchOk`); hand-back to the pool
(`releaseConn`, directly or through `tryDeliver`) happens only for a connection nothing was written
on, or when `verdict … = release` (Gen/ClientPaths ties this to the source, `reuse_only_if_clean`
says that is exactly a clean exchange).
-/
import Hertz.Proofs.ClientPool
namespace Hertz.Pool
set_option linter.unusedSimpArgs false
set_option linter.unusedVariables false

/-- a request on the wire: who wrote it and its number; its answer carries the same tag -/
abbrev Msg := Nat × Nat

/-- how far the present holder's exchange on a connection got -/
inductive XPh where
  | fresh      -- nothing written
  | wrote      -- request written, nothing read
  | readDone   -- request written, then one complete response read
  | dirty      -- anything else (failed write, partial read, second read …)
deriving Repr, DecidableEq

structure WState where
  pool : State := {}
  out : Nat → List Msg := fun _ => []
  left : Nat → List Msg := fun _ => []
  req : Nat → Option Msg := fun _ => none
  ph : Nat → XPh := fun _ => .fresh
  outc : Nat → Option (Bool × Exch) := fun _ => none

def winit : WState := {}

inductive WEv where
  /-- a lock region of the pool -/
  | pool (e : Ev)
  /-- holder `a` writes request number `r` on `c`; `reached`: the bytes got to the peer; `ok`: no error -/
  | write (a c r : Nat) (reached ok : Bool)
  /-- the peer answers the oldest unanswered request on `c` -/
  | answer (c : Nat)
  /-- the peer pushes something nobody asked for (only when `unsol = true`) -/
  | inject (c : Nat) (x : Msg)
  /-- holder `a` reads one complete response from `c`; it is the answer to `x` -/
  | read (a c : Nat) (x : Msg)
  /-- a failed read of holder `a` that consumed `n` buffered answers -/
  | skip (a c n : Nat)
  /-- holder `a` reports how the exchange went (the argument of `verdict`) -/
  | outcome (a c : Nat) (inPool : Bool) (ex : Exch)

/-- connections the pool event puts into somebody's hands -/
def acquired (s : State) : Ev → List Nat
  | .acqIdle _ c => [c]
  | .dialOk _ c => [c]
  | .wake _ _ (some c) => [c]
  | .cancel _ _ (some c) => [c]
  | .reap _ n => s.idle.take n
  | _ => []

/-- the connection the pool event hands back for reuse (into `conns`, or into a `wantConn`) -/
def handedBack : Ev → Option Nat
  | .rel _ c _ _ false => some c
  | .tryd _ _ (some c) true => some c
  | _ => none

/-- what `Exch.done` means on the wire: the request was written and one complete response read -/
def exchOk : Exch → XPh → Bool
  | .done _ _ _, p => p == .readDone
  | _, _ => true

/-- guard of handing `c` back: nothing was written on it, or the decision logic said `release` -/
def releasable (ws : WState) (c : Nat) : Bool :=
  ws.ph c == .fresh ||
  match ws.outc c with
  | some (inPool, ex) => (verdict inPool ex).act == .release
  | none => false

/-- the wire guard of a pool event: what it hands back must be `releasable` -/
def backOk (ws : WState) (e : Ev) : Bool :=
  match handedBack e with
  | some c => releasable ws c
  | none => true

/-- a new holder starts with a blank exchange record -/
def resetOn (ws : WState) (l : List Nat) : WState :=
  { ws with req := fun c => if c ∈ l then none else ws.req c,
            ph := fun c => if c ∈ l then .fresh else ws.ph c,
            outc := fun c => if c ∈ l then none else ws.outc c }

def wupd {α : Type} (f : Nat → α) (k : Nat) (v : α) : Nat → α := fun x => if x = k then v else f x

def holds (s : State) (a c : Nat) : Prop := c ∈ s.held ∧ s.holder c = a

instance (s : State) (a c : Nat) : Decidable (holds s a c) := by unfold holds; exact inferInstance

def wstep (cfg : Cfg) (unsol : Bool) (ws : WState) : WEv → Option WState
  | .pool e =>
    if backOk ws e = true then
      match step cfg ws.pool e with
      | some s' => some (resetOn { ws with pool := s' } (acquired ws.pool e))
      | none => none
    else none
  | .write a c r reached ok =>
    if holds ws.pool a c ∧ ws.ph c = .fresh then
      some { ws with out := if reached then wupd ws.out c (ws.out c ++ [(a, r)]) else ws.out,
                     req := wupd ws.req c (some (a, r)),
                     ph := wupd ws.ph c (if ok then .wrote else .dirty),
                     outc := wupd ws.outc c none }
    else none
  | .answer c =>
    match ws.out c with
    | x :: rest => some { ws with out := wupd ws.out c rest, left := wupd ws.left c (ws.left c ++ [x]) }
    | [] => none
  | .inject c x =>
    if unsol = true then some { ws with left := wupd ws.left c (ws.left c ++ [x]) } else none
  | .read a c x =>
    if holds ws.pool a c ∧ (ws.left c).head? = some x then
      some { ws with left := wupd ws.left c (ws.left c).tail,
                     ph := wupd ws.ph c (if ws.ph c = .wrote then .readDone else .dirty),
                     outc := wupd ws.outc c none }
    else none
  | .skip a c n =>
    if holds ws.pool a c then
      some { ws with left := wupd ws.left c ((ws.left c).drop n), ph := wupd ws.ph c .dirty,
                     outc := wupd ws.outc c none }
    else none
  | .outcome a c inPool ex =>
    if holds ws.pool a c ∧ exchOk ex (ws.ph c) = true then
      some { ws with outc := wupd ws.outc c (some (inPool, ex)) }
    else none

def wrun (cfg : Cfg) (unsol : Bool) : WState → List WEv → Option WState
  | ws, [] => some ws
  | ws, e :: es => match wstep cfg unsol ws e with
    | some ws' => wrun cfg unsol ws' es
    | none => none

/-! ### frame facts about `Pool.step` -/

/-- case analysis on an event, down to the patterns `step`, `acquired` and `handedBack` match on -/
macro "ev_cases" e:ident : tactic => `(tactic|
  rcases $e:ident with ⟨a, id⟩ | ⟨a, id, x⟩ | ⟨a, c⟩ | ⟨a⟩ | ⟨a⟩ | ⟨a, c⟩ | ⟨a⟩ | ⟨a, w, k⟩ |
    ⟨a, w, (_ | c), (_ | _)⟩ | ⟨a, w, (_ | c)⟩ | ⟨a, w, (_ | c)⟩ | ⟨a, c, k, t, (_ | _)⟩ | ⟨a, c⟩ |
    ⟨a, k, t⟩ | ⟨a, n⟩ | ⟨a, stop⟩)

/-- S1: a connection is in somebody's hands after the event only if it was before, or the event
acquired it -/
theorem held_sub {cfg : Cfg} {s s' : State} {e : Ev} (hs : step cfg s e = some s') (c : Nat)
    (hc : c ∈ s'.held) : c ∈ s.held ∨ c ∈ acquired s e := by
  cases e <;> simp only [step] at hs <;> (repeat' split at hs) <;>
    first
    | contradiction
    | (injection hs with hs; subst hs; simp only [acquired] at *;
       first
       | (left; exact hc)
       | (grind [List.mem_of_mem_erase]))

theorem excl_of_idle {s : State} (h : Excl s) {c : Nat} (hc : c ∈ s.idle) : c ∉ s.held ∧ c ∉ s.closed := by
  have := h c
  have p := List.count_pos_iff.mpr hc
  constructor <;> (rw [← List.count_eq_zero]; omega)

theorem excl_of_boxed {s : State} (h : Excl s) {c : Nat} (hc : c ∈ s.boxed) : c ∉ s.held ∧ c ∉ s.closed := by
  have := h c
  have p := List.count_pos_iff.mpr hc
  constructor <;> (rw [← List.count_eq_zero]; omega)

theorem fresh_not {s : State} {c : Nat} (h : fresh s c = true) : c ∉ s.held ∧ c ∉ s.closed := by
  simp [fresh] at h
  exact ⟨h.1.1.2, h.2⟩

/-- S2: what an event acquires was in nobody's hands and not closed (uses exclusivity) -/
theorem acq_quiet {cfg : Cfg} {s s' : State} {e : Ev} (hx : Excl s) (hs : step cfg s e = some s') (c : Nat)
    (hc : c ∈ acquired s e) : c ∉ s.held ∧ c ∉ s.closed := by
  ev_cases e <;> simp only [acquired, List.not_mem_nil, List.mem_singleton] at hc <;>
    simp only [step] at hs <;> (repeat' split at hs) <;>
    first
    | contradiction
    | (subst hc;
       first
       | (rename_i hg; exact excl_of_idle hx (List.mem_of_getLast? hg.2))
       | (rename_i hg; exact fresh_not hg.1)
       | (rename_i hg; exact excl_of_boxed hx hg.2.2.1))
    | (exact excl_of_idle hx (List.mem_of_mem_take hc))

/-- S3: a connection that is in nobody's hands and not closed after the event was so before, or
the event handed it back -/
theorem unheld {cfg : Cfg} {s s' : State} {e : Ev} (hs : step cfg s e = some s') (c : Nat)
    (h1 : c ∉ s'.held) (h2 : c ∉ s'.closed) :
    (c ∉ s.held ∧ c ∉ s.closed) ∨ (handedBack e = some c ∧ c ∈ s.held) := by
  ev_cases e <;> simp only [step] at hs <;> (repeat' split at hs) <;>
    first
    | contradiction
    | (injection hs with hs; subst hs; simp only [handedBack] at *;
       first
       | (left; exact ⟨h1, h2⟩)
       | grind)

/-- S4: the holder of a connection changes only when the connection is acquired -/
theorem holder_frame {cfg : Cfg} {s s' : State} {e : Ev} (hs : step cfg s e = some s') (c : Nat)
    (hc : c ∉ acquired s e) : s'.holder c = s.holder c := by
  ev_cases e <;> simp only [step] at hs <;> (repeat' split at hs) <;>
    first
    | contradiction
    | (injection hs with hs; subst hs;
       first
       | rfl
       | (simp only [acquired, List.mem_singleton] at hc; simp only [upd]; rw [if_neg hc])
       | (simp only [acquired] at hc; simp only []; rw [if_neg hc]))

theorem not_mem_erase_of_count_le_one {l : List Nat} {c : Nat} (h : l.count c ≤ 1) : c ∉ l.erase c := by
  rw [← List.count_eq_zero, List.count_erase_self]; omega

/-- S5: a connection handed back or closed is in nobody's hands afterwards (uses exclusivity) -/
theorem given_notheld {cfg : Cfg} {s s' : State} {e : Ev} (hx : Excl s) (hs : step cfg s e = some s') (c : Nat)
    (hg : handedBack e = some c ∨ ∃ a, e = .close a c) : c ∉ s'.held := by
  have hcnt : s.held.count c ≤ 1 := by have := hx c; omega
  ev_cases e <;> simp only [handedBack, reduceCtorEq, exists_false, or_false, false_or, Option.some.injEq,
      Ev.close.injEq, exists_and_right, exists_eq', true_and] at hg <;>
    simp only [step] at hs <;> (repeat' split at hs) <;>
    first
    | contradiction
    | (injection hs with hs; subst hs; subst hg; exact not_mem_erase_of_count_le_one hcnt)

/-! ### the invariant of the extended machine -/

structure WInv (cfg : Cfg) (ws : WState) : Prop where
  pool : Inv cfg ws.pool
  /-- the wire of a connection that is in nobody's hands (idle, parked in a `wantConn`, or not yet
  dialled) is empty in both directions -/
  quiet : ∀ c, c ∉ ws.pool.held → c ∉ ws.pool.closed → ws.out c = [] ∧ ws.left c = []
  /-- the wire of a connection in somebody's hands carries at most the one request its holder wrote,
  and nothing before the write or after the complete read -/
  heldW : ∀ c ∈ ws.pool.held,
    (ws.out c ++ ws.left c = [] ∨ ∃ x, ws.req c = some x ∧ ws.out c ++ ws.left c = [x]) ∧
    (ws.ph c = .fresh ∨ ws.ph c = .readDone → ws.out c ++ ws.left c = [])
  owner : ∀ c ∈ ws.pool.held, ∀ x, ws.req c = some x → x.1 = ws.pool.holder c
  outcOk : ∀ c ip ex, ws.outc c = some (ip, ex) → exchOk ex (ws.ph c) = true

theorem winv_init (cfg : Cfg) : WInv cfg winit := by
  refine ⟨inv_init cfg, ?_, ?_, ?_, ?_⟩ <;> simp [winit, init]

theorem clean_done {ex : Exch} (h : ex.clean = true) : ∃ a b c, ex = .done a b c := by
  cases ex <;> simp [Exch.clean] at h ⊢

/-- here `reuse_only_if_clean` enters: `verdict … = release` means a clean exchange, a clean exchange
is `Exch.done`, and the holder reports `Exch.done` only after writing the request and reading one
complete response -/
theorem releasable_clean {cfg : Cfg} {ws : WState} (hi : WInv cfg ws) {c : Nat} (hc : c ∈ ws.pool.held)
    (hr : releasable ws c = true) : ws.out c = [] ∧ ws.left c = [] := by
  have hph : ws.ph c = .fresh ∨ ws.ph c = .readDone := by
    unfold releasable at hr
    simp only [Bool.or_eq_true, beq_iff_eq] at hr
    rcases hr with hr | hr
    · exact Or.inl hr
    · right
      split at hr
      · rename_i ip ex ho
        have hcl := (verdict_release_iff ip ex).mp (by simpa using hr)
        obtain ⟨x, y, z, rfl⟩ := clean_done hcl
        have := hi.outcOk c ip _ ho
        simpa [exchOk] using this
      · cases hr
  exact List.append_eq_nil_iff.mp ((hi.heldW c hc).2 hph)

theorem winv_pool {cfg : Cfg} {ws : WState} {e : Ev} {s' : State} (hi : WInv cfg ws)
    (hg : ∀ c, handedBack e = some c → releasable ws c = true) (hs : step cfg ws.pool e = some s') :
    WInv cfg (resetOn { ws with pool := s' } (acquired ws.pool e)) := by
  refine ⟨step_inv hi.pool hs, ?_, ?_, ?_, ?_⟩ <;> simp only [resetOn]
  · intro c h1 h2
    rcases unheld hs c h1 h2 with h | ⟨hb, hc⟩
    · exact hi.quiet c h.1 h.2
    · exact releasable_clean hi hc (hg c hb)
  · intro c hc
    by_cases ha : c ∈ acquired ws.pool e
    · have hq := acq_quiet hi.pool.excl hs c ha
      have := hi.quiet c hq.1 hq.2
      simp [ha, this.1, this.2]
    · simp only [ha, if_false]
      rcases held_sub hs c hc with h | h
      · exact hi.heldW c h
      · exact (ha h).elim
  · intro c hc x hx
    by_cases ha : c ∈ acquired ws.pool e
    · simp [ha] at hx
    · simp only [ha, if_false] at hx
      rw [holder_frame hs c ha]
      rcases held_sub hs c hc with h | h
      · exact hi.owner c h x hx
      · exact (ha h).elim
  · intro c ip ex ho
    by_cases ha : c ∈ acquired ws.pool e
    · simp [ha] at ho
    · simp only [ha, if_false] at ho ⊢
      exact hi.outcOk c ip ex ho

/-- an event that only touches the wire record of one connection `c` -/
theorem winv_wire {cfg : Cfg} {ws ws' : WState} (hi : WInv cfg ws) (c : Nat) (hp : ws'.pool = ws.pool)
    (hframe : ∀ c', c' ≠ c → ws'.out c' = ws.out c' ∧ ws'.left c' = ws.left c' ∧ ws'.req c' = ws.req c' ∧
      ws'.ph c' = ws.ph c' ∧ ws'.outc c' = ws.outc c')
    (hq : c ∉ ws.pool.held → c ∉ ws.pool.closed → ws'.out c = [] ∧ ws'.left c = [])
    (hh : c ∈ ws.pool.held →
      ((ws'.out c ++ ws'.left c = [] ∨ ∃ x, ws'.req c = some x ∧ ws'.out c ++ ws'.left c = [x]) ∧
       (ws'.ph c = .fresh ∨ ws'.ph c = .readDone → ws'.out c ++ ws'.left c = [])) ∧
      (∀ x, ws'.req c = some x → x.1 = ws.pool.holder c))
    (ho : ∀ ip ex, ws'.outc c = some (ip, ex) → exchOk ex (ws'.ph c) = true) : WInv cfg ws' := by
  refine ⟨hp ▸ hi.pool, ?_, ?_, ?_, ?_⟩
  · intro c' h1 h2
    rw [hp] at h1 h2
    by_cases e : c' = c
    · subst e; exact hq h1 h2
    · obtain ⟨f1, f2, _⟩ := hframe c' e
      rw [f1, f2]; exact hi.quiet c' h1 h2
  · intro c' h1
    rw [hp] at h1
    by_cases e : c' = c
    · subst e; exact (hh h1).1
    · obtain ⟨f1, f2, f3, f4, _⟩ := hframe c' e
      rw [f1, f2, f3, f4]; exact hi.heldW c' h1
  · intro c' h1 x hx
    rw [hp] at h1 ⊢
    by_cases e : c' = c
    · subst e; exact (hh h1).2 x hx
    · obtain ⟨_, _, f3, _⟩ := hframe c' e
      rw [f3] at hx; exact hi.owner c' h1 x hx
  · intro c' ip ex h1
    by_cases e : c' = c
    · subst e; exact ho ip ex h1
    · obtain ⟨_, _, _, f4, f5⟩ := hframe c' e
      rw [f5] at h1; rw [f4]; exact hi.outcOk c' ip ex h1

theorem app_single {o l : List Msg} {x : Msg} (h : o ++ l = [x]) : (o = [x] ∧ l = []) ∨ (o = [] ∧ l = [x]) := by
  cases o with
  | nil => right; exact ⟨rfl, by simpa using h⟩
  | cons y t =>
    left
    simp only [List.cons_append, List.cons.injEq, List.append_eq_nil_iff] at h
    obtain ⟨rfl, rfl, rfl⟩ := h
    exact ⟨rfl, rfl⟩

theorem wstep_inv {cfg : Cfg} {ws ws' : WState} {ev : WEv} (hi : WInv cfg ws)
    (h : wstep cfg false ws ev = some ws') : WInv cfg ws' := by
  cases ev with
  | pool e =>
    simp only [wstep] at h
    by_cases hg : backOk ws e = true
    · rw [if_pos hg] at h
      cases hs : step cfg ws.pool e with
      | none => rw [hs] at h; contradiction
      | some s' =>
        rw [hs] at h
        injection h with h; subst h
        refine winv_pool hi ?_ hs
        intro c hb
        simpa [backOk, hb] using hg
    · rw [if_neg hg] at h; contradiction
  | write a c r reached ok =>
    simp only [wstep] at h
    split at h
    · rename_i hg
      obtain ⟨⟨hheld, hhold⟩, hph⟩ := hg
      injection h with h; subst h
      have hempty := List.append_eq_nil_iff.mp ((hi.heldW c hheld).2 (Or.inl hph))
      refine winv_wire hi c rfl ?_ ?_ ?_ ?_
      · intro c' hne
        cases reached <;> simp [wupd, hne]
      · intro h1; exact (h1 hheld).elim
      · intro _
        refine ⟨⟨?_, ?_⟩, ?_⟩
        · cases reached <;> simp [wupd, hempty.1, hempty.2]
        · cases ok <;> simp [wupd]
        · intro x hx
          simp [wupd] at hx
          rw [← hx]; exact hhold.symm
      · intro ip ex ho
        simp [wupd] at ho
    · contradiction
  | answer c =>
    simp only [wstep] at h
    split at h
    · rename_i x rest hout
      injection h with h; subst h
      refine winv_wire hi c rfl ?_ ?_ ?_ ?_
      · intro c' hne; simp [wupd, hne]
      · intro h1 h2
        have := (hi.quiet c h1 h2).1
        rw [hout] at this; cases this
      · intro hheld
        have hw := hi.heldW c hheld
        rw [hout] at hw
        refine ⟨?_, fun x hx => hi.owner c hheld x hx⟩
        rcases hw.1 with h0 | ⟨x0, hreq, h1⟩
        · simp at h0
        · have hs := app_single h1
          rcases hs with ⟨ho, hl⟩ | ⟨ho, _⟩
          · simp only [List.cons.injEq] at ho
            obtain ⟨rfl, rfl⟩ := ho
            refine ⟨Or.inr ⟨x, hreq, by simp [wupd, hl]⟩, ?_⟩
            intro hp
            have := hw.2 hp
            simp at this
          · cases ho
      · intro ip ex ho; exact hi.outcOk c ip ex ho
    · contradiction
  | inject c x => simp [wstep] at h
  | read a c x =>
    simp only [wstep] at h
    split at h
    · rename_i hg
      obtain ⟨⟨hheld, hhold⟩, hhead⟩ := hg
      injection h with h; subst h
      have hw := hi.heldW c hheld
      have hempty : ws.out c ++ (ws.left c).tail = [] := by
        rcases hw.1 with h0 | ⟨x0, _, h1⟩
        · have := List.append_eq_nil_iff.mp h0
          simp [this.1, this.2]
        · rcases app_single h1 with ⟨_, hl⟩ | ⟨ho, hl⟩
          · rw [hl] at hhead; cases hhead
          · simp [ho, hl]
      refine winv_wire hi c rfl ?_ ?_ ?_ ?_
      · intro c' hne; simp [wupd, hne]
      · intro h1; exact (h1 hheld).elim
      · intro _
        refine ⟨⟨Or.inl (by simpa [wupd] using hempty), fun _ => by simpa [wupd] using hempty⟩,
          fun x hx => hi.owner c hheld x hx⟩
      · intro ip ex ho; simp [wupd] at ho
    · contradiction
  | skip a c n =>
    simp only [wstep] at h
    split at h
    · rename_i hg
      obtain ⟨hheld, hhold⟩ := hg
      injection h with h; subst h
      have hw := hi.heldW c hheld
      refine winv_wire hi c rfl ?_ ?_ ?_ ?_
      · intro c' hne; simp [wupd, hne]
      · intro h1; exact (h1 hheld).elim
      · intro _
        refine ⟨⟨?_, by simp [wupd]⟩, fun x hx => hi.owner c hheld x hx⟩
        rcases hw.1 with h0 | ⟨x0, hreq, h1⟩
        · have := List.append_eq_nil_iff.mp h0
          left; simp [wupd, this.1, this.2]
        · rcases app_single h1 with ⟨ho, hl⟩ | ⟨ho, hl⟩
          · right; exact ⟨x0, hreq, by simp [wupd, ho, hl]⟩
          · cases n with
            | zero => right; exact ⟨x0, hreq, by simp [wupd, ho, hl]⟩
            | succ m => left; simp [wupd, ho, hl]
      · intro ip ex ho; simp [wupd] at ho
    · contradiction
  | outcome a c ip ex =>
    simp only [wstep] at h
    split at h
    · rename_i hg
      obtain ⟨⟨hheld, hhold⟩, hok⟩ := hg
      injection h with h; subst h
      refine winv_wire hi c rfl ?_ ?_ ?_ ?_
      · intro c' hne; simp [wupd, hne]
      · intro h1; exact (h1 hheld).elim
      · intro _; exact ⟨hi.heldW c hheld, fun x hx => hi.owner c hheld x hx⟩
      · intro ip' ex' ho
        simp [wupd] at ho
        obtain ⟨rfl, rfl⟩ := ho
        exact hok
    · contradiction

theorem wrun_inv {cfg : Cfg} : ∀ {evs : List WEv} {ws ws' : WState}, WInv cfg ws →
    wrun cfg false ws evs = some ws' → WInv cfg ws'
  | [], ws, ws', h, hr => by simp [wrun] at hr; subst hr; exact h
  | e :: es, ws, ws', h, hr => by
    simp only [wrun] at hr
    split at hr
    · rename_i ws1 hs1
      exact wrun_inv (wstep_inv h hs1) hr
    · contradiction

theorem wreach_inv {cfg : Cfg} {evs : List WEv} {ws : WState} (hr : wrun cfg false winit evs = some ws) :
    WInv cfg ws := wrun_inv (winv_init cfg) hr

/-- the pool part of an accepted extended trace is an accepted schedule of the pool machine -/
def poolEvents : List WEv → List Ev
  | [] => []
  | .pool e :: t => e :: poolEvents t
  | _ :: t => poolEvents t

theorem wstep_pool {cfg : Cfg} {unsol : Bool} {ws ws' : WState} {ev : WEv} (h : wstep cfg unsol ws ev = some ws') :
    match ev with
    | .pool e => step cfg ws.pool e = some ws'.pool
    | _ => ws'.pool = ws.pool := by
  cases ev <;> simp only [wstep] at h <;> (repeat' split at h) <;>
    first
    | contradiction
    | (injection h with h; subst h; first | rfl | (simp only [resetOn]; assumption))

theorem wrun_pool {cfg : Cfg} {unsol : Bool} : ∀ {evs : List WEv} {ws ws' : WState},
    wrun cfg unsol ws evs = some ws' → run cfg ws.pool (poolEvents evs) = some ws'.pool
  | [], ws, ws', hr => by simp [wrun] at hr; subst hr; rfl
  | e :: es, ws, ws', hr => by
    simp only [wrun] at hr
    split at hr
    · rename_i ws1 hs1
      have h1 := wstep_pool hs1
      have h2 := wrun_pool hr
      cases e <;> simp only [poolEvents, run] at * <;> first | (rw [h1]; exact h2) | (rw [← h1]; exact h2)
    · contradiction

/-! ### the response read is the answer to the reader's own request -/

/-- State form.  In any state reached by an accepted trace (honest peer), if actor `a` can read a
complete response from connection `c`, and that response is the answer to request `x`, then `x` is
the request that `a` itself wrote on `c` during its present hold of the connection. -/
theorem read_own {cfg : Cfg} {ws ws' : WState} {a c : Nat} {x : Msg} (hi : WInv cfg ws)
    (h : wstep cfg false ws (.read a c x) = some ws') :
    holds ws.pool a c ∧ ws.req c = some x ∧ x.1 = a := by
  simp only [wstep] at h
  split at h
  · rename_i hg
    obtain ⟨⟨hheld, hhold⟩, hhead⟩ := hg
    refine ⟨⟨hheld, hhold⟩, ?_⟩
    rcases (hi.heldW c hheld).1 with h0 | ⟨x0, hreq, h1⟩
    · have := List.append_eq_nil_iff.mp h0
      rw [this.2] at hhead; cases hhead
    · rcases app_single h1 with ⟨_, hl⟩ | ⟨_, hl⟩
      · rw [hl] at hhead; cases hhead
      · rw [hl] at hhead
        simp only [List.head?_cons, Option.some.injEq] at hhead
        subst hhead
        exact ⟨hreq, (hi.owner c hheld x0 hreq).trans hhold⟩
  · contradiction

/-! ### trace form -/

/-- the pool event acquires, hands back or closes connection `c` -/
def touchPool (c : Nat) : Ev → Bool
  | .acqIdle _ c' => c' == c
  | .dialOk _ c' => c' == c
  | .wake _ _ (some c') => c' == c
  | .cancel _ _ (some c') => c' == c
  | .rel _ c' _ _ false => c' == c
  | .tryd _ _ (some c') true => c' == c
  | .close _ c' => c' == c
  | _ => false

/-- the event acquires, hands back or closes connection `c`, or writes a request on it -/
def touch (c : Nat) : WEv → Bool
  | .pool e => touchPool c e
  | .write _ c' _ _ _ => c' == c
  | _ => false

theorem touchPool_cases {s : State} {c : Nat} {e : Ev} (h : touchPool c e = true) :
    c ∈ acquired s e ∨ handedBack e = some c ∨ ∃ a, e = .close a c := by
  ev_cases e <;> simp [touchPool, acquired, handedBack] at h ⊢ <;> simp [h]

/-- one step backwards: the request recorded for a held connection was written by this very event,
or was recorded before and the event does not touch the connection -/
theorem req_step {cfg : Cfg} {ws ws1 : WState} {ev : WEv} (hi : WInv cfg ws)
    (h : wstep cfg false ws ev = some ws1) (c : Nat) (x : Msg) (hc : c ∈ ws1.pool.held)
    (hx : ws1.req c = some x) :
    (∃ reached ok, ev = .write x.1 c x.2 reached ok) ∨
    (c ∈ ws.pool.held ∧ ws.req c = some x ∧ touch c ev = false) := by
  cases ev with
  | pool e =>
    right
    simp only [wstep] at h
    by_cases hg : backOk ws e = true
    · rw [if_pos hg] at h
      cases hs : step cfg ws.pool e with
      | none => rw [hs] at h; contradiction
      | some s' =>
        rw [hs] at h
        injection h with h; subst h
        simp only [resetOn] at hc hx
        by_cases ha : c ∈ acquired ws.pool e
        · simp [ha] at hx
        · simp only [ha, if_false] at hx
          have hheld : c ∈ ws.pool.held := by
            rcases held_sub hs c hc with h | h
            · exact h
            · exact (ha h).elim
          refine ⟨hheld, hx, ?_⟩
          cases ht : touchPool c e with
          | false => simp [touch, ht]
          | true =>
            rcases touchPool_cases (s := ws.pool) ht with h | h
            · exact (ha h).elim
            · exact (given_notheld hi.pool.excl hs c h hc).elim
    · rw [if_neg hg] at h; contradiction
  | write a c' r reached ok =>
    simp only [wstep] at h
    split at h
    · injection h with h; subst h
      by_cases e : c' = c
      · subst e
        left
        simp [wupd] at hx
        subst hx
        exact ⟨reached, ok, rfl⟩
      · right
        have e' : ¬ c = c' := fun h => e h.symm
        simp [wupd, e'] at hx
        exact ⟨hc, hx, by simp [touch, e]⟩
    · contradiction
  | answer c' =>
    simp only [wstep] at h
    split at h
    · injection h with h; subst h; exact Or.inr ⟨hc, hx, rfl⟩
    · contradiction
  | inject c' y => simp [wstep] at h
  | read a c' y =>
    simp only [wstep] at h
    split at h
    · injection h with h; subst h; exact Or.inr ⟨hc, hx, rfl⟩
    · contradiction
  | skip a c' n =>
    simp only [wstep] at h
    split at h
    · injection h with h; subst h; exact Or.inr ⟨hc, hx, rfl⟩
    · contradiction
  | outcome a c' ip ex =>
    simp only [wstep] at h
    split at h
    · injection h with h; subst h; exact Or.inr ⟨hc, hx, rfl⟩
    · contradiction

theorem req_trace {cfg : Cfg} : ∀ (evs : List WEv) (ws ws' : WState), WInv cfg ws →
    wrun cfg false ws evs = some ws' → ∀ (c : Nat) (x : Msg), c ∈ ws'.pool.held → ws'.req c = some x →
    (∃ pre post reached ok, evs = pre ++ .write x.1 c x.2 reached ok :: post ∧ ∀ e ∈ post, touch c e = false) ∨
    (c ∈ ws.pool.held ∧ ws.req c = some x ∧ ∀ e ∈ evs, touch c e = false)
  | [], ws, ws', hi, hr, c, x, hc, hx => by
    simp [wrun] at hr; subst hr
    exact Or.inr ⟨hc, hx, by simp⟩
  | e :: es, ws, ws', hi, hr, c, x, hc, hx => by
    simp only [wrun] at hr
    split at hr
    · rename_i ws1 hs1
      rcases req_trace es ws1 ws' (wstep_inv hi hs1) hr c x hc hx with
        ⟨pre, post, reached, ok, he, hp⟩ | ⟨hc1, hx1, hp⟩
      · exact Or.inl ⟨e :: pre, post, reached, ok, by simp [he], hp⟩
      · rcases req_step hi hs1 c x hc1 hx1 with ⟨reached, ok, he⟩ | ⟨hc0, hx0, ht⟩
        · exact Or.inl ⟨[], es, reached, ok, by simp [he], hp⟩
        · refine Or.inr ⟨hc0, hx0, ?_⟩
          intro e' he'
          simp only [List.mem_cons] at he'
          rcases he' with rfl | he'
          · exact ht
          · exact hp e' he'
    · contradiction

/-- Trace form.  For every accepted trace of the extended machine from the empty pool (honest peer),
followed by an accepted read by `a` on `c` of the answer to `x`: `x` carries `a`'s name, the trace
contains `a`'s write of `x` on `c`, and between that write and the read nothing acquired, handed
back, closed or wrote on `c`. -/
theorem read_trace {cfg : Cfg} {evs : List WEv} {ws ws' : WState} {a c : Nat} {x : Msg}
    (hr : wrun cfg false winit evs = some ws) (h : wstep cfg false ws (.read a c x) = some ws') :
    x.1 = a ∧ ∃ pre post reached ok, evs = pre ++ .write a c x.2 reached ok :: post ∧
      ∀ e ∈ post, touch c e = false := by
  have hi := wreach_inv hr
  obtain ⟨⟨hheld, _⟩, hreq, hxa⟩ := read_own hi h
  refine ⟨hxa, ?_⟩
  rcases req_trace evs winit ws (winv_init cfg) hr c x hheld hreq with h | ⟨_, h0, _⟩
  · rw [hxa] at h; exact h
  · simp [winit] at h0

/-- a connection waiting in the pool (idle, or parked in a `wantConn`) has an empty wire: no
request outstanding, no leftover buffered -/
theorem pooled_wire_empty {cfg : Cfg} {ws : WState} (hi : WInv cfg ws) {c : Nat}
    (hc : c ∈ ws.pool.idle ∨ c ∈ ws.pool.boxed) : ws.out c = [] ∧ ws.left c = [] := by
  rcases hc with hc | hc
  · have := excl_of_idle hi.pool.excl hc; exact hi.quiet c this.1 this.2
  · have := excl_of_boxed hi.pool.excl hc; exact hi.quiet c this.1 this.2

/-! ### the client-side guards allow the caller's program, whatever the exchange -/

/-- the wire events of one attempt of `doNonNilReqResp` whose outcome is `ex`, for holder `a` of `c`
sending request number `r` -/
def attemptWire (a c r : Nat) : Exch → List WEv
  | .writeTimeoutElapsed => []
  | .setTimeoutErr => []
  | .writeErrOther => [.write a c r false false]
  | .writeClosedRespOk => [.write a c r true false, .answer c, .read a c (a, r)]
  | .writeClosedNoResp => [.write a c r false false]
  | .peekEOF => [.write a c r false true]
  | .peekErr => [.write a c r true true]
  | .headerErr => [.write a c r true true, .answer c, .skip a c 1]
  | .bodyErr _ => [.write a c r true true, .answer c, .skip a c 1]
  | .upgrade => [.write a c r true true, .answer c, .read a c (a, r)]
  | .streamOpen => [.write a c r true true, .answer c, .skip a c 0]
  | .done _ _ _ => [.write a c r true true, .answer c, .read a c (a, r)]

/-- From any reachable state in which `a` holds `c` with a blank exchange record, the wire events of
an attempt with outcome `ex` followed by the report of `ex` are accepted, for every `ex`; the pool
state is untouched; and whenever `verdict` says `release`, the hand-back guard is open.  So the
guards `exchOk` / `releasable` / one-write-per-hold never block the modelled caller. -/
theorem attempt_wire_accepted {cfg : Cfg} {ws : WState} (hi : WInv cfg ws) (a c r : Nat) (inPool : Bool)
    (ex : Exch) (hh : holds ws.pool a c) (hf : ws.ph c = .fresh) :
    ∃ ws1, wrun cfg false ws (attemptWire a c r ex ++ [.outcome a c inPool ex]) = some ws1 ∧
      ws1.pool = ws.pool ∧ ((verdict inPool ex).act = .release → releasable ws1 c = true) := by
  have he := List.append_eq_nil_iff.mp ((hi.heldW c hh.1).2 (Or.inl hf))
  cases ex <;>
    simp [attemptWire, wrun, wstep, hh, hf, he.1, he.2, wupd, exchOk, releasable, verdict] <;>
    (try grind)

/-- a pool event whose wire guard is open is accepted by the extended machine iff `step` accepts it -/
theorem wstep_pool_of_step {cfg : Cfg} {unsol : Bool} {ws : WState} {e : Ev} {s' : State}
    (hg : backOk ws e = true) (hs : step cfg ws.pool e = some s') :
    wstep cfg unsol ws (.pool e) = some (resetOn { ws with pool := s' } (acquired ws.pool e)) := by
  simp [wstep, hg, hs]

end Hertz.Pool
