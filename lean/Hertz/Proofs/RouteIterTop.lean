import Hertz.Proofs.RouteIter
import Hertz.Proofs.RouteEngine
/-!
C06: iterative = recursive `find` at the level of `find` and of `Engine.ServeHTTP`.
-/
namespace Hertz.Route.Iter
open Hertz.Route Hertz.Spec.Route

/-- On a well-formed tree the loop of `find` ends within `4 * size root` program points and returns
what the recursive search returns: the same handlers, full path and parameters on a hit; no
handlers, `cn == nil` (empty full path) and `*paramsPointer` re-sliced to length 0 on a miss. -/
theorem findIter_spec (u : Bool) (root : Node) (cap : Nat) (hwf : WF root .skind) (hp : PnOK root 0 cap) (path : Bytes)
    (arr : List Bytes) (harr : arr.length = cap) :
    (∀ f, find root path cap = .hit f → ∃ t arr' plen',
        findIter root path arr 0 u = some (.value (some f.handlers) f.fullPath
          (f.params.map fun kv => (kv.1, unescapeVal u kv.2)) t arr' plen')) ∧
    (find root path cap = .miss → ∃ t arr', arr'.length = cap ∧
        findIter root path arr 0 u = some (.value none [] [] t arr' 0)) := by
  obtain ⟨h1, h2⟩ := (visit_sim u path root .skind 0 cap hwf hp).1 rfl [] path 0 arr false harr (by simp) (by simp)
  simp only [List.take_zero] at h1 h2
  refine ⟨?_, ?_⟩
  · intro f hf
    obtain ⟨k, hk, t, arr', plen', hh⟩ := h1 f hf
    refine ⟨t, arr', plen', ?_⟩
    have := hh (4 * size root - k)
    rwa [Nat.add_sub_cancel' hk] at this
  · intro hm
    obtain ⟨k, hk, arr', t', hl', _, hex⟩ := h2 hm
    refine ⟨t', arr', hl', ?_⟩
    have := hex (4 * size root - k)
    rw [Nat.add_sub_cancel' hk] at this
    simpa [post, zipKeys, findIter, fuelFor, initSt] using this

/-- `find` on a well-formed tree is a hit or a miss (never `stop`, never a panic) -/
theorem find_hit_or_miss (root : Node) (cap : Nat) (hwf : WF root .skind) (hp : PnOK root 0 cap) (path : Bytes) :
    (∃ f, find root path cap = .hit f) ∨ find root path cap = .miss := by
  rcases find_spec root cap hwf hp path with ⟨k, v, vals, _, hr⟩ | ⟨_, hr⟩
  · exact Or.inl ⟨_, hr⟩
  · exact Or.inr hr

theorem findIter_agrees (root : Node) (cap : Nat) (hwf : WF root .skind) (hp : PnOK root 0 cap) (path : Bytes)
    (arr : List Bytes) (harr : arr.length = cap) :
    agrees (find root path cap) (findIter root path arr 0 false) = true := by
  obtain ⟨h1, h2⟩ := findIter_spec false root cap hwf hp path arr harr
  rcases find_hit_or_miss root cap hwf hp path with ⟨f, hf⟩ | hm
  · obtain ⟨t, arr', plen', h⟩ := h1 f hf
    rw [map_unescapeVal_false] at h
    rw [hf, h]; simp [agrees]
  · obtain ⟨t, arr', _, h⟩ := h2 hm
    rw [hm, h]; simp [agrees]

theorem findIter_terminates (u : Bool) (root : Node) (cap : Nat) (hwf : WF root .skind) (hp : PnOK root 0 cap) (path : Bytes)
    (arr : List Bytes) (harr : arr.length = cap) :
    ∃ o, run path u (4 * size root) .top (initSt root path arr 0) = some o ∧ ∀ s, o ≠ .panic s := by
  obtain ⟨h1, h2⟩ := findIter_spec u root cap hwf hp path arr harr
  rcases find_hit_or_miss root cap hwf hp path with ⟨f, hf⟩ | hm
  · obtain ⟨t, arr', plen', h⟩ := h1 f hf
    exact ⟨_, h, by intro s hs; cases hs⟩
  · obtain ⟨t, arr', _, h⟩ := h2 hm
    exact ⟨_, h, by intro s hs; cases hs⟩

/-- the 405 loop over trees that are all well formed: `notAllowed` or `notFound`, never a handler -/
theorem notAllowedLoop_spec (u : Bool) (cap : Nat) (m p : Bytes) : ∀ (ts : List Router) (arr : List Bytes), arr.length = cap →
    (∀ t ∈ ts, WF t.root .skind ∧ PnOK t.root 0 cap) →
    (notAllowedLoop ts m p arr 0 u = .notAllowed ∧ ∃ t ∈ ts, t.method ≠ m ∧ ∃ f, find t.root p cap = .hit f) ∨
    (notAllowedLoop ts m p arr 0 u = .notFound ∧ ∀ t ∈ ts, t.method ≠ m → find t.root p cap = .miss)
  | [], arr, _, _ => Or.inr ⟨rfl, by intro t ht; simp at ht⟩
  | t :: r, arr, harr, hall => by
    have hr := fun arr' (h' : arr'.length = cap) => notAllowedLoop_spec u cap m p r arr' h'
      (fun t' ht' => hall t' (List.mem_cons_of_mem _ ht'))
    simp only [notAllowedLoop]
    by_cases hm : t.method = m
    · rw [if_pos hm]
      rcases hr arr harr with ⟨h1, t', ht', h2⟩ | ⟨h1, h2⟩
      · exact Or.inl ⟨h1, t', List.mem_cons_of_mem _ ht', h2⟩
      · refine Or.inr ⟨h1, ?_⟩
        intro t' ht' hne
        rcases List.mem_cons.mp ht' with rfl | ht''
        · exact absurd hm hne
        · exact h2 t' ht'' hne
    · rw [if_neg hm]
      obtain ⟨hwf, hp⟩ := hall t (List.mem_cons_self ..)
      obtain ⟨h1, h2⟩ := findIter_spec u t.root cap hwf hp p arr harr
      rcases find_hit_or_miss t.root cap hwf hp p with ⟨f, hf⟩ | hmiss
      · obtain ⟨tt, arr', plen', h⟩ := h1 f hf
        rw [h]
        exact Or.inl ⟨rfl, t, List.mem_cons_self .., hm, f, hf⟩
      · obtain ⟨tt, arr', hl', h⟩ := h2 hmiss
        rw [h]
        rcases hr arr' hl' with ⟨h1', t', ht', h2'⟩ | ⟨h1', h2'⟩
        · exact Or.inl ⟨h1', t', List.mem_cons_of_mem _ ht', h2'⟩
        · refine Or.inr ⟨h1', ?_⟩
          intro t' ht' hne
          rcases List.mem_cons.mp ht' with rfl | ht''
          · exact hmiss
          · exact h2' t' ht'' hne

/-- what `ServeHTTP` answers when no route handler runs -/
def NoHandlerOutcome (e : Engine) (o : Opts) (m p : Bytes) (s : ServedI) : Prop :=
  (∃ c, s = .redirect c ∧ o.redirectTrailingSlash = true ∧ m ≠ mCONNECT ∧ p ≠ [47] ∧ (c = 301 ↔ m = mGET) ∧ (c = 301 ∨ c = 307)) ∨
  (s = .notAllowed ∧ o.handleMethodNotAllowed = true ∧
      ∃ t ∈ e.trees, t.method ≠ m ∧ ∃ f, find t.root p e.maxParams = .hit f) ∨
  (s = .notFound ∧ (o.handleMethodNotAllowed = true → ∀ t ∈ e.trees, t.method ≠ m → find t.root p e.maxParams = .miss))

/-- `Engine.ServeHTTP` with the iterative `find` against `Engine.serve` with the recursive one, on an
engine whose trees are well formed (every accepted registration list gives one), for every setting of the
options: the values handed to the handler are the recursive model's substrings, unescaped when asked. -/
theorem serveIter_serve (e : Engine) (rs : List Spec.Route.Route) (hok : EngineOK e rs) (o : Opts)
    (m : Bytes) (p' : Bytes) :
    (∀ f, e.serve m (47 :: p') = .handler f → Engine.serveIter e o m (47 :: p') =
        .handler ⟨f.handlers, f.fullPath, f.params.map fun kv => (kv.1, unescapeVal o.unescape kv.2)⟩) ∧
    (e.serve m (47 :: p') = .noRoute → NoHandlerOutcome e o m (47 :: p') (Engine.serveIter e o m (47 :: p'))) ∧
    (∀ s, e.serve m (47 :: p') ≠ .panic s) := by
  obtain ⟨-, htrees, -⟩ := hok
  have hall : ∀ t ∈ e.trees, WF t.root .skind ∧ PnOK t.root 0 e.maxParams := fun t ht => ⟨(htrees t ht).1, (htrees t ht).2.2.1⟩
  have hrep : (List.replicate e.maxParams ([] : Bytes)).length = e.maxParams := by simp
  have tailSpec : ∀ arr : List Bytes, arr.length = e.maxParams →
      NoHandlerOutcome e o m (47 :: p')
        (if o.handleMethodNotAllowed then notAllowedLoop e.trees m (47 :: p') arr 0 o.unescape else ServedI.notFound) := by
    intro arr harr
    by_cases hh : o.handleMethodNotAllowed = true
    · simp only [hh, if_true]
      rcases notAllowedLoop_spec o.unescape e.maxParams m (47 :: p') e.trees arr harr hall with ⟨h1, h2⟩ | ⟨h1, h2⟩
      · exact Or.inr (Or.inl ⟨h1, hh, h2⟩)
      · exact Or.inr (Or.inr ⟨h1, fun _ => h2⟩)
    · simp only [hh, Bool.false_eq_true, if_false]
      exact Or.inr (Or.inr ⟨rfl, fun h => absurd h hh⟩)
  simp only [Route.Engine.serve, Engine.serveIter]
  have h47 : ¬ ((47 : UInt8) ≠ 47) := by simp
  simp only [if_neg h47]
  cases hg : treesGet e.trees m with
  | none =>
    dsimp only
    refine ⟨?_, fun _ => tailSpec _ hrep, ?_⟩
    · intro f hf; cases hf
    · intro s hs; cases hs
  | some t =>
    obtain ⟨htm, -⟩ := treesGet_some _ _ _ hg
    obtain ⟨hwf, hp⟩ := hall t htm
    obtain ⟨h1, h2⟩ := findIter_spec o.unescape t.root e.maxParams hwf hp (47 :: p') _ hrep
    dsimp only
    rcases find_hit_or_miss t.root e.maxParams hwf hp (47 :: p') with ⟨f, hf⟩ | hmiss
    · obtain ⟨tt, arr', plen', h⟩ := h1 f hf
      rw [hf, h]
      dsimp only
      refine ⟨?_, ?_, ?_⟩
      · intro g hg'; injection hg' with hg'; subst hg'; rfl
      · intro hn; cases hn
      · intro s hs; cases hs
    · obtain ⟨tt, arr', hl', h⟩ := h2 hmiss
      rw [hmiss, h]
      dsimp only
      refine ⟨?_, ?_, ?_⟩
      · intro g hg'; cases hg'
      · intro _
        by_cases hc : (m ≠ mCONNECT && (47 :: p') ≠ [47] && tt && o.redirectTrailingSlash) = true
        · rw [if_pos hc]
          simp only [Bool.and_eq_true, decide_eq_true_eq] at hc
          obtain ⟨⟨⟨hc1, hc2⟩, _⟩, hc4⟩ := hc
          left
          by_cases hget : m = mGET
          · exact ⟨301, by simp [hget], hc4, hc1, hc2, by simp [hget], Or.inl rfl⟩
          · exact ⟨307, by simp [hget], hc4, hc1, hc2, by simp [hget], Or.inr rfl⟩
        · rw [if_neg hc]
          exact tailSpec arr' hl'
      · intro s hs; cases hs

theorem matches_method (r : Route) (m p : Bytes) (ps : List (Bytes × Bytes)) (h : r.matches m p = some ps) : r.method = m := by
  unfold Route.matches at h
  by_cases e : r.method = m
  · exact e
  · simp [e] at h

/-- 405 / 404 in terms of the route SET -/
theorem noHandler_routes (e : Engine) (rs : List Route) (hok : EngineOK e rs) (o : Opts) (m p : Bytes) (s : ServedI)
    (h : NoHandlerOutcome e o m p s) :
    (s = .notAllowed → ∃ r ∈ rs, r.method ≠ m ∧ (r.matches r.method p).isSome = true) ∧
    (s = .notFound → o.handleMethodNotAllowed = true → ∀ r ∈ rs, r.method ≠ m → r.matches r.method p = none) := by
  obtain ⟨-, htrees, hcover⟩ := hok
  refine ⟨?_, ?_⟩
  · intro hs
    subst hs
    rcases h with ⟨c, h1, _⟩ | ⟨_, _, t, ht, hne, f, hf⟩ | ⟨h1, _⟩
    · cases h1
    · obtain ⟨hwf, -, hp, hd⟩ := htrees t ht
      rcases find_selected t.root e.maxParams rs t.method p hwf hp hd with ⟨r, ps, hsel, _⟩ | ⟨_, hmiss⟩
      · have hm := matches_method r t.method p ps hsel.2.1
        refine ⟨r, hsel.1, by rw [hm]; exact hne, ?_⟩
        rw [hm, hsel.2.1]; rfl
      · rw [hmiss] at hf; cases hf
    · cases h1
  · intro hs hh r hr hne
    subst hs
    rcases h with ⟨c, h1, _⟩ | ⟨h1, _⟩ | ⟨_, hall⟩
    · cases h1
    · cases h1
    · obtain ⟨t, ht, htm⟩ := hcover r hr
      obtain ⟨hwf, -, hp, hd⟩ := htrees t ht
      have hmiss := hall hh t ht (by rw [htm]; exact hne)
      rcases find_selected t.root e.maxParams rs t.method p hwf hp hd with ⟨r', ps, _, hhit⟩ | ⟨hno, _⟩
      · rw [hmiss] at hhit; cases hhit
      · have := hno r hr
        rwa [htm] at this


end Hertz.Route.Iter
