import Hertz.Proofs.PathRef
/-!
# `utils.CleanPath` (model `cleanPath`) only produces contained paths

Invariant of the main loop (`GoodOut`): between two segments the output buffer is `/` or
`/s1/…/sn` with every `si` non-empty, slash-free, not `.` and not `..`.  `cleanLoop true`
(the inner copy loop) is first rewritten into "copy the rest of the segment, then go on in
`false` mode" (`cleanLoop_true`), so the invariant only has to be stated between segments.
-/
namespace Hertz.PathSeg
open Hertz Hertz.Spec

theorem cleanLoop_true (t : Bytes) : ∀ (out : Bytes) (tr : Bool),
    cleanLoop true t out tr =
      cleanLoop false ((t.dropWhile (· != 47)).drop 1) (out ++ t.takeWhile (· != 47)) tr := by
  induction t with
  | nil => intro out tr; simp [cleanLoop]
  | cons c t ih =>
    intro out tr
    by_cases hc : c = 47
    · subst hc; simp [cleanLoop]
    · simp [cleanLoop, hc, ih]

/-- a segment the cleaner may keep: non-empty, slash-free, not `.` and not `..` -/
def GoodSeg (s : Bytes) : Prop := s ≠ [] ∧ 47 ∉ s ∧ s ≠ dot ∧ s ≠ dotdot

/-- shape of the output buffer of `CleanPath` between segments: `/` or `/s1/s2/…/sn` with good `si` -/
def GoodOut (out : Bytes) : Prop :=
  out = [47] ∨ ∃ segs : List Bytes, segs ≠ [] ∧ (∀ s ∈ segs, GoodSeg s) ∧ out = render segs

theorem render_length_ge (segs : List Bytes) (h : segs ≠ []) (hg : ∀ s ∈ segs, GoodSeg s) :
    (render segs).length > 1 := by
  cases segs with
  | nil => exact absurd rfl h
  | cons s r =>
    have := (hg s (by simp)).1
    rw [render_cons]
    cases s with
    | nil => exact absurd rfl this
    | cons x xs => simp

theorem goodOut_push {out seg : Bytes} (ho : GoodOut out) (hs : GoodSeg seg) :
    GoodOut (cleanPush out ++ seg) := by
  right
  rcases ho with e | ⟨segs, hne, hg, e⟩
  · subst e
    refine ⟨[seg], by simp, by simpa using hs, ?_⟩
    simp [cleanPush, render]
  · refine ⟨segs ++ [seg], by simp, ?_, ?_⟩
    · intro s hm
      rcases List.mem_append.mp hm with h | h
      · exact hg s h
      · simp at h; subst h; exact hs
    · have := render_length_ge segs hne hg
      subst e
      unfold cleanPush
      rw [if_pos this, render_append]
      simp [render]

/-- `cleanPop` on `A ++ "/" ++ s` (`s` a non-empty slash-free segment) gives `A`, or `/` when `A` is empty. -/
theorem cleanPop_append (A s : Bytes) (hne : s ≠ []) (hsf : 47 ∉ s) :
    cleanPop (A ++ 47 :: s) = if A = [] then [47] else A := by
  have hdl : (A ++ 47 :: s).dropLast = A ++ 47 :: s.dropLast := by
    rw [List.dropLast_append_of_ne_nil (by simp), List.dropLast_cons_of_ne_nil hne]
  have hsf' : 47 ∉ s.dropLast.reverse := fun hm =>
    hsf (List.dropLast_subset s (List.mem_reverse.mp hm))
  have hr : ((A ++ 47 :: s).dropLast.reverse.dropWhile (· != 47)).reverse = A ++ [47] := by
    rw [hdl]
    have : (A ++ 47 :: s.dropLast).reverse = s.dropLast.reverse ++ 47 :: A.reverse := by simp
    rw [this, dropWhile_sf _ _ hsf']
    simp
  have hlen : (A ++ 47 :: s).length > 1 := by
    cases s with
    | nil => exact absurd rfl hne
    | cons x xs => simp; omega
  unfold cleanPop
  rw [if_pos hlen]
  simp only [hr]
  cases A with
  | nil => simp
  | cons a as =>
    have : (a :: as ++ [47]).dropLast = a :: as := List.dropLast_concat
    simpa using this

theorem goodOut_pop {out : Bytes} (ho : GoodOut out) : GoodOut (cleanPop out) := by
  rcases ho with e | ⟨segs, hne, hg, e⟩
  · subst e; left; rfl
  · subst e
    obtain ⟨pre, s, rfl⟩ : ∃ pre s, segs = pre ++ [s] :=
      ⟨segs.dropLast, segs.getLast hne, (List.dropLast_concat_getLast hne).symm⟩
    have hs := hg s (by simp)
    have : render (pre ++ [s]) = render pre ++ 47 :: s := by rw [render_append]; simp [render]
    rw [this, cleanPop_append _ _ hs.1 hs.2.1]
    by_cases hp : pre = []
    · subst hp; left; simp [render]
    · right
      have hr : render pre ≠ [] := by
        cases pre with
        | nil => exact absurd rfl hp
        | cons x xs => rw [render_cons]; simp
      rw [if_neg hr]
      exact ⟨pre, hp, fun x hx => hg x (by simp [hx]), rfl⟩

theorem cleanLoop_default_good {n : Nat}
    (ih : ∀ t' : Bytes, t'.length ≤ n → ∀ out tr, GoodOut out → GoodOut (cleanLoop false t' out tr).1)
    (rest : Bytes) (hlen : rest.length ≤ n) (c : UInt8) (hc : c ≠ 47)
    (hdot : c :: rest.takeWhile (· != 47) ≠ dot) (hdd : c :: rest.takeWhile (· != 47) ≠ dotdot)
    (out : Bytes) (tr : Bool) (ho : GoodOut out) :
    GoodOut (cleanLoop true rest (cleanPush out ++ [c]) tr).1 := by
  rw [cleanLoop_true]
  apply ih
  · have h1 := (List.drop_suffix 1 (rest.dropWhile (· != 47))).length_le
    have h2 := (List.dropWhile_suffix (· != 47) (l := rest)).length_le
    omega
  · have : cleanPush out ++ [c] ++ rest.takeWhile (· != 47) = cleanPush out ++ (c :: rest.takeWhile (· != 47)) := by
      simp
    rw [this]
    refine goodOut_push ho ⟨by simp, ?_, hdot, hdd⟩
    intro hm
    rcases List.mem_cons.mp hm with e | e
    · exact hc e.symm
    · have := mem_takeWhile_sat _ _ _ e
      simp at this

theorem cleanLoop_good : ∀ (n : Nat) (t : Bytes), t.length ≤ n → ∀ (out : Bytes) (tr : Bool),
    GoodOut out → GoodOut (cleanLoop false t out tr).1 := by
  intro n
  induction n with
  | zero =>
    intro t ht out tr ho
    have : t = [] := List.eq_nil_of_length_eq_zero (by omega)
    subst this
    simpa [cleanLoop] using ho
  | succ n ih =>
    intro t ht out tr ho
    match t, ht with
    | [], _ => simpa [cleanLoop] using ho
    | [c], _ =>
      simp only [cleanLoop]
      split
      · exact ho
      · split
        · exact ho
        · rename_i h1 h2
          exact goodOut_push ho ⟨by simp, by simpa using Ne.symm h1, by simpa [dot] using h2, by simp [dotdot]⟩
    | [c, d], ht =>
      simp only [cleanLoop]
      split
      · exact ih [d] (by simp at ht ⊢; omega) out tr ho
      · split
        · exact ho
        · split
          · exact goodOut_pop ho
          · rename_i h1 h2 h3
            refine cleanLoop_default_good ih [d] (by simp at ht ⊢; omega) c h1 ?_ ?_ out tr ho
            · by_cases hd : d = 47
              · subst hd; simp [dot]; intro e; exact h2 ⟨e, rfl⟩
              · simp [hd, dot]
            · by_cases hd : d = 47
              · subst hd; simp [dotdot]
              · simp [hd, dotdot]; intro e1 e2; exact h3 ⟨e1, e2⟩
    | c :: d :: e :: t, ht =>
      simp only [cleanLoop]
      split
      · exact ih (d :: e :: t) (by simp at ht ⊢; omega) out tr ho
      · split
        · exact ih (e :: t) (by simp at ht ⊢; omega) out tr ho
        · split
          · exact ih t (by simp at ht ⊢; omega) _ tr (goodOut_pop ho)
          · rename_i h1 h2 h3
            refine cleanLoop_default_good ih (d :: e :: t) (by simp at ht ⊢; omega) c h1 ?_ ?_ out tr ho
            · by_cases hd : d = 47
              · subst hd; simp [dot]; intro e; exact h2 ⟨e, rfl⟩
              · simp [hd, dot]
            · by_cases hd : d = 47
              · subst hd; simp [dotdot]
              · by_cases he : e = 47
                · subst he; simp [hd, dotdot]; intro e1 e2; exact h3 ⟨e1, e2, rfl⟩
                · simp [hd, he, dotdot]

theorem goodOut_contained {out : Bytes} (ho : GoodOut out) :
    contained out = true ∧ (out.length > 1 → contained (out ++ [47]) = true) := by
  rcases ho with e | ⟨segs, hne, hg, e⟩
  · subst e; exact ⟨by decide, by simp⟩
  · subst e
    have hg' : ∀ s ∈ segs, s ≠ dotdot ∧ s ≠ dot ∧ s ≠ [] := fun s hs =>
      ⟨(hg s hs).2.2.2, (hg s hs).2.2.1, (hg s hs).1⟩
    constructor
    · simp only [contained, segsOf_render segs hne (fun x hx => (hg x hx).2.1)]
      have := resolve_good.segsContained_append segs.dropLast (segs.getLast hne)
        (fun s hs => hg' s (List.dropLast_subset _ hs)) (hg' _ (List.getLast_mem hne)).1
      rwa [List.dropLast_concat_getLast hne] at this
    · intro _
      have e : render segs ++ [47] = render (segs ++ [[]]) := by rw [render_append]; simp [render]
      rw [e]
      simp only [contained]
      rw [segsOf_render (segs ++ [[]]) (by simp)]
      · exact resolve_good.segsContained_append segs [] hg' (by decide)
      · intro x hx
        rcases List.mem_append.mp hx with h | h
        · exact (hg x h).2.1
        · simp at h; subst h; simp

theorem cleanFinish_contained {out : Bytes} (tr : Bool) (ho : GoodOut out) :
    contained (if (tr && decide (out.length > 1)) = true then out ++ [47] else out) = true := by
  obtain ⟨h1, h2⟩ := goodOut_contained ho
  split
  · rename_i hc
    simp only [Bool.and_eq_true, decide_eq_true_eq] at hc
    exact h2 hc.2
  · exact h1

/-- `utils.CleanPath` (model): for every input the result begins with `/`, has no `..` segment and
no empty or `.` segment except possibly the last. -/
theorem cleanPath_is_contained (p : Bytes) : contained (cleanPath p) = true := by
  have h47 : GoodOut [47] := Or.inl rfl
  unfold cleanPath
  match p with
  | [] => decide
  | c :: t =>
    simp only
    split
    · exact cleanFinish_contained _ (cleanLoop_good _ t (Nat.le_refl _) [47] _ h47)
    · exact cleanFinish_contained _ (cleanLoop_good _ (c :: t) (Nat.le_refl _) [47] _ h47)

end Hertz.PathSeg
